#!/usr/bin/env python3
"""Regenerates MANIFEST.json from the table below (kept in one place so that
the manifest is always valid and complete)."""
import json, os
HERE = os.path.dirname(os.path.abspath(__file__))
ALL = ["C%02d" % i for i in range(1, 21)]
NOTE = ("Trusted base: Coq 8.16.1 kernel; no axioms (Print Assumptions closed); hypothesis PrimeR (prime r) appears in statements; "
        "hand-written Gallina model tied to /repo by a differential correspondence check (Rust harness with cfg plonk_verif hooks vs model extracted "
        "with ExtrOcamlBasic+ExtrOcamlZBigInt); the Rust code is modelled, not verified.")
CLAIMED = {
 "C02": dict(
   text="Partial by nature: soundness of PLONK rests on KZG knowledge binding (AGM) and Fiat-Shamir in the random-oracle model, which are assumptions here. Mechanised parts: a non-zero identity polynomial vanishes at fewer than its length many challenge points (C02_accept_bad_z_bound), the challenge-combined row identity implies every widget component outside a bounded bad set of separation challenges (C02_rows_sat_outside_bad_challenges), an opening that checks as a polynomial identity in the SRS secret carries the true evaluation (C02_opening_exact_agm_partial), and the row evaluator used as oracle is exact (C02_row_evaluator_exact). Together with C03 (the real verifier = the Gallina reference verifier, by correspondence) this reduces acceptance of a false statement to the named assumptions. On every run the named prover strategies are executed against the real verifier: the real prover forced past its unsatisfied check (cfg-guarded switch) on overridden witnesses, raw rows of all five widget families, single range/logic rows with each wire perturbed in isolation (classified per violated component), public-input mismatches and broken copy constraints; field-wise splices of valid proofs; degenerate proofs. The proved evaluator decides which statements are false; every one must be rejected by the real verifier and by the reference verifier.",
   technique="Coq lemmas (root bound, separation, AGM opening exactness, evaluator exactness) + forced-prover / splice / degenerate adversarial runs against the real verifier with the proved evaluator as oracle and the Gallina reference verifier as second opinion",
   design="5/C02"),
 "C03": dict(
   text="A complete reference verifier is written in Gallina (Protocol/RefVerifier.v on top of Gallina models of Keccak-f/STROBE/Merlin, BLS12-381 G1 decompression with subgroup check, the 56 protocol labels and the linearisation/batching algebra of both transcript versions) and run, extracted, on the same (verifier key, proof, public inputs) triples as the real Verifier::verify_with_version; the pairing is replaced by the exponent check x*A+B=O with the harness's known SRS secret. Verdicts AND every derived challenge (beta, gamma, alpha, four separation challenges, z, v, v_w, u - exposed by a cfg-guarded hook) must agree on honest proofs, on every single-field replacement, bit flips, cross-circuit and cross-version proofs and public-input changes. Theorems: the fused L_1/PI summand equals value*L_i(z) (C03_fused_term_is_lagrange), all five widget terms are recoverable from the combined equation (C03_all_widgets_in_equation), Merlin's length framing is injective (C03_frame_injective). The equality real-verifier = RefVerifier is established by correspondence, not proved; when the transcript tie breaks, a forged opening pair exploiting the missing absorption is searched and replayed.",
   technique="Gallina reference verifier (Keccak/Merlin/G1/linearisation) + Coq lemmas + differential correspondence of verdict and all challenges with the real verifier",
   design="5/C03"),
 "C04": dict(
   text="Theorems: two public-input polynomials of degree < n that agree at n points are equal (C04_pi_eval_injective: a changed public input changes PI(z) for all but < n challenges), and the length-framed absorption of label, sizes, commitments and public inputs into the transcript is injective (C04_statement_framing_injective). Partial: binding additionally rests on Fiat-Shamir in the random-oracle model (assumed). On every run statement mismatches are presented to the real verifier and to the Gallina reference verifier (C03): other label (incl. prefixes/extensions), other public inputs (value, count, order, position), other circuit of the same size, other SRS, other transcript version, keys re-encoded with one field altered; every mismatch must be rejected by both, every match accepted. Known finding F8 (two circuits differing only in WHICH unconstrained row carries a zero public input share proofs) is reproduced on every run.",
   technique="Coq lemmas (interpolation uniqueness, framing injectivity) + Gallina reference verifier + statement-mismatch differential check on the real verifier",
   design="5/C04, 6/F8"),
 "C06": dict(
   text="Theorems on the blinding algebra exactly as coded: blind(coeffs, b) = coeffs + b(X)*(X^n-1) for every blinder vector (C06_blind_is_mask), so the mask vanishes on the domain (C06_mask_vanishes_on_domain) and two proofs with different blinders differ at every point z outside the domain by (b(z)-b'(z))*(z^n-1) (C06_fresh_mask_changes_opening); the three extra scalars re-randomise the quotient split without changing t(X) (C06_split_rerandomised). Partial: statistical zero-knowledge itself (simulator) is not mechanised. On every run the real prover is driven by a scripted RNG: it must draw exactly 14 scalars; the 7 wire/permutation openings of every proof must equal the model's opening (extracted wire_opening) computed from the witness, the drawn scalars and the verifier's z; replacing any single one of the 14 draws must change the proof and exactly the openings/commitments that draw masks.",
   technique="Coq proof (masking algebra) + scripted-RNG differential correspondence of every opening with the extracted blinding model",
   design="5/C06"),
 "C09": dict(
   text="Theorem C09_range_sound: for every width 0..254 (even or odd), every wire and every assignment of the gadget's accumulators, satisfaction of the emitted rows forces the canonical value below 2^width (induction along the flattened quad chain, no wrap below 2^254 < r), also inside any larger satisfied system; entry points proved to emit identical gates (clamp above 128 pairs). The layout the theorem speaks about is compared with the real Composer for every width 0..=256 / pairs 0..=130 on every run, the range widget's three coded forms are compared with the model formula, and every real snapshot is evaluated by the proved row evaluator against the expected verdict (completeness direction and adversarial accumulator templates).",
   technique="Coq proof (induction over the quad chain) + exhaustive-width differential correspondence (L3) + widget formula tie (L1) + evaluator-based exactness probe",
   design="5/C09"),
 "C11": dict(
   text="Theorems C11_truncate_sound (every N <= 254: the returned witness equals the canonical value mod 2^N for every assignment of high part, inverse, is_top, guard and all range accumulators; built from C11_canonical_guard and C11_split_sound, incl. the is-zero gadget and the two extreme-width numeric side conditions) and C11_decomposition_sound (N <= 254: satisfiable only below 2^N, bits are the canonical ones) with C11_decomposition_complete_any; the full decomposition statement is refuted for N=256 by theorem C11_decomposition_alias_refuted (known finding F4, reproduced on the real code every run). Layouts are compared with the real Composer for every N on every run; honest, alias (v+r), forced-output and flipped-bit assignments are re-derived on the real layout and decided by the proved row evaluator.",
   technique="Coq proof (canonical-split arithmetic over Z, induction over bits) + exhaustive-N differential correspondence + evaluator-decided adversarial templates on real layouts",
   design="5/C11, 6/F4"),
 "C10": dict(
   text="Theorem C10_logic_sound: for every pair count 0..127, both operations and every assignment of accumulators, product wires and truncation helpers, satisfaction of the emitted rows forces the returned witness to hold (a mod 2^(2P)) op (b mod 2^(2P)); built from the 16-case table of the fifth logic identity (C10_logic_table, a finite vm_compute sweep lifted by forallb_forall), an induction along the quad rows (C10_logic_rows_sound, digit-step lemmas for land/lxor) and the canonical truncation split of C11. Every pair count x op is compared with the real Composer on every run (layout, witness values, returned value), the logic widget's three coded forms with the model formula, and forged accumulator / product / output / a+r assignments are decided on the real layout by the proved evaluator.",
   technique="Coq proof (finite table + induction over quads + truncation split) + exhaustive differential correspondence + L1 widget tie + evaluator-decided templates",
   design="5/C10"),
 "C07": dict(
   text="Theorems C07_*: for every modelled component (witness/gate primitives, evaluated output, selection, range check of any width, decomposition, truncation, logic) the emitted rows (selectors, wiring, public-input rows), the number of allocated witnesses and the returned witness indices are functions of the call's static parameters and of the shape of the state only; shape independence is closed under sequencing (C07_sequence). The model is tied to the real Composer on every run; totality (no panic for arbitrary field values, debug assertions and overflow checks on) and value-independence of the layout are checked on the real code for every component x width x value class.",
   technique="Coq proof (erasure of values from the layout functions) + exhaustive-width differential correspondence + panic/layout sweep on a checked build",
   design="5/C07"),
 "C19": dict(
   text="Theorems: the radix-2 transform equals the DFT for every size and every primitive root (C19_fft_rec_is_dft); the domain generators of all sizes 2^1..2^32 are primitive roots (C19_domain_roots); the forward and coset FFT of a coefficient vector of ANY length equal direct evaluation on the subgroup / coset (C19_fft_is_evaluation, C19_coset_fft_is_evaluation; inputs longer than the domain are reduced mod X^n-1 - true of the code after fix F5); the inverse transform is the scaled DFT at the inverse root; for every worker-thread count the split butterfly equals the serial one (C19_parallel_butterfly_serial); add/sub/mul/scale/trim act on evaluations as ring operations and Ruffini division satisfies p = (X-z)q + p(z). The executable model is compared with the real kernels (through cfg-guarded wrappers) on all sizes, lengths, pools 1..17 at 2^12, zero/trailing-zero vectors and points inside/outside the domain on every run. Not mechanised: ifft o fft = id (orthogonality sum), Lagrange interpolation identity, rayon combinators = sequential meaning.",
   technique="Coq proof (Cooley-Tukey by induction, list fusion; butterfly chunking) + differential correspondence of kernels vs extracted definitions",
   design="5/C19, 6/F5-F6"),
 "C05": dict(
   text="Theorems: the extracted row evaluator decides satisfaction of the padded cyclic domain (C05_row_evaluator_exact); the challenge-combined row identity (all five widgets and the public input, combined as compute_quotient_i combines them) is equivalent to the component-wise identities - implied for all challenges, and implying them whenever it holds on an 8x10x8x6 grid of distinct challenge values (root bound C05_roots_all_zero); wire values invariant under the copy permutation make the grand product close for every beta, gamma (C05_grand_product_closes). Partial: the degree test 'len > 7n <=> numerator not divisible by Z_H' and the construction of sigma from the copy classes are argued in DESIGN.md, not mechanised. On every run Prover::prove is compared with the evaluator's verdict on (compiled selectors, instance wires, instance public inputs) plus the copy-class check, over satisfied / one-witness-overridden / raw-selector / full-domain / different-wiring / wrong-size / low-degree-remainder instances; every returned proof is verified.",
   technique="Coq proof (root bound, separation of challenges, permutation product) + differential correspondence of Prover::prove vs the proved row evaluator",
   design="5/C05"),
 "C01": dict(
   text="Theorems about the size interplay (padding 6 / blinding degree 6 / next power of two) for ALL constraint counts and SRS degrees: the direct and the compressed route succeed or fail for exactly the same capacities (C01_capacity_equiv, a Galois connection between the two roundings), the trimmed key always covers degree domain+6 (C01_trimmed_key_covers). The end-to-end completeness statement is partial: its algebraic parts are the theorems of C05 (rows, grand product), C19 (transforms) and C20 (commitments). On every run honest circuits of every size within +-8 of each power of two, boundary SRS capacities (model predicts Ok/Err), public-input placements and gadget mixes are compiled by all three routes, proved and verified, with keys and proofs crossed between routes.",
   technique="Coq proof (capacity arithmetic for all sizes) + size/capacity/route sweep on the real code against the model's prediction",
   design="5/C01"),
 "C20": dict(
   text="Exponent-level model (G1 elements as discrete logs w.r.t. the SRS generator, secret x known): theorems for the SRS powers, commit = linear image (additive, zero -> identity, trimming irrelevant), completeness of a Ruffini opening, exactness under the polynomial-identity (AGM) reading [partial: computational binding is assumed], aggregate-witness formula, and the batch check: passes for every challenge if all openings are true, and if it passes for as many distinct challenges as there are openings then every opening is true (root bound). On every run a scripted-RNG SRS is generated by the real code, every G1 power and the G2 element are checked against x, and commits / trims / single, aggregated and batched checks (one wrong value or witness at every position, swapped, cancelling, identity-witness, empty, mismatched) are compared with the model's verdict via the real pairing.",
   technique="Coq proof over an exponent-level KZG model + differential correspondence through cfg-guarded wrappers with a known SRS secret",
   design="5/C20"),
 "C18": dict(
   text="Partial by nature (runtime). Theorems for the logic part: the copy permutation is independent of the iteration order of the hash map of witness classes (C18_sigma_order_independent), field sums are order-independent (C18_field_sum_reassoc), and for EVERY worker-thread count the range-split butterfly of the final FFT stages equals the serial one (C18_fft_threads_independent); rayon combinators are assumed to have their sequential meaning. What no model can exhibit - real interleavings, per-process hash seeds, separate compilation - is checked impl-vs-impl on every run: key digests and proof bytes under pools {1,2,3,4,5,8,16,17} at a 2^12 domain with the same scripted RNG, in two processes and in an alloc-only (no std, serial paths) build, and 8 threads proving/verifying concurrently on shared keys vs sequentially.",
   technique="Coq proof (order/thread independence lemmas) + impl-vs-impl byte comparison across pools, processes, builds and concurrent callers",
   design="5/C18"),
 "C15": dict(
   text="Theorems: both compilation routes succeed or fail for exactly the same capacities (C15_capacity_equiv); the dictionary encoding of the description is lossless - every interned scalar / selector tuple is found again under its index, built-in table entries keep their index, no key is held twice (C15_dictionary_*); first-use relabelling of witnesses preserves exactly the copy classes (C15_relabel_preserves_classes) and the copy permutation is independent of the hash-map iteration order (C15_sigma_order_independent). Deflate and MessagePack are contracts. On every run both routes are compared on the real code (prover/verifier digests, cross-route proofs) for circuits with each built-in table entry as selector (incl. all nine MDS values), unused witnesses, zero PIs, first/last-row PIs, SRS degrees from 1 to 2x needed against the proved capacity functions, and malformed descriptions with peak allocation.",
   technique="Coq proof (dictionary interning, relabelling, capacity arithmetic) + route-vs-route differential check and malformed-description sweep",
   design="5/C15, 6/F7"),
 "C16": dict(
   text="Theorems on the length-prefixed layouts used by the key encodings: fixed-width integers and vectors of fixed-size elements round-trip for every element codec that round-trips, and a sequence of vectors of ARBITRARY different lengths has size equal to the sum of the actual sizes and round-trips (C16_prover_key_size_exact, C16_vecs_roundtrip - the statement the pre-fix serialization_size violated, F1). Element codecs (scalars, G1/G2) are contracts of dusk-bls12_381. On every run prover, verifier, proofs and public parameters of many circuits (every gate-family usage pattern, sizes 4..70, the F1 circuit) go through bytes on the real code: identical re-encoding, identical proof from identical scripted randomness, identical verdicts on honest and bit-flipped proofs, canonicity of every accepted 1008-byte string.",
   technique="Coq proof (length-prefixed codec round trip and exact size) + round-trip differential check on the real encoders/decoders",
   design="5/C16, 6/F1"),
 "C17": dict(
   text="Theorems on the model of the checked length-prefixed decoders: total, and bounded - whatever is accepted was paid for by input bytes because the count is validated against the remaining input before anything is built (C17_decode_vec_bounded). Absence of panics, the allocation bound and well-formedness of accepted values on the real decoders are established by structure-aware mutation on a build with debug assertions and overflow checks (988 mutants per quick run: bit flips, every length field to extremes, truncation/extension/splices, hand-built invalid points and scalars, raw commit-key flags and non-reduced limbs, re-packed MessagePack/deflate, bombs), every accepted value being used once. Known finding F3 (non-reduced raw limbs accepted) is reproduced on every run; F2 (flag byte panic) was fixed.",
   technique="Coq proof (bounded total decoder model) + structure-aware mutation of real encodings on a checked build with a counting allocator",
   design="5/C17, 6/F2-F3"),
 "C08": dict(
   text="Machine-checked theorems (Props/C08.v) state, for every selector tuple, wiring and assignment, the exact relation each arithmetic/equality/boolean/selection component enforces, uniqueness of returned witnesses, completeness of honest values and locality of arithmetic blocks inside any satisfied system; the Gallina composer model they are about is compared on every run with the real Composer (gates, public-input rows, witness values) on generated programs, and the real snapshots are probed with perturbed assignments evaluated by the proved-sound row evaluator.",
   technique="Coq proof over a Gallina model of the composer + differential correspondence (L3 snapshot tie) + exactness probe on real layouts",
   design="5/C08"),
}
REASONS_PENDING = "check not yet registered in this manifest (under construction; see DESIGN.md section 9 for the plan); nothing is claimed for it yet"

def main():
    checks = []
    for pid in ALL:
        if pid in CLAIMED:
            c = CLAIMED[pid]
            checks.append({
              "property_id": pid,
              "quick_cmd": f"./check {pid} --tier quick",
              "thorough_cmd": f"./check {pid} --tier thorough",
              "evidence_file": f"/verif/evidence/{pid}.json",
              "replay_cmd_template": f"./check {pid} --replay {{path}}",
              "engine": "rocq-model+correspondence",
              "level_claimed": {"category": "proof", "text": c["text"], "design_ref": c["design"]},
              "level_note": c.get("note", NOTE),
              "technique": c["technique"],
            })
    m = {
      "version": 1,
      "setup_cmd": "./setup.sh",
      "hooks": {
        "guard": "plonk_verif",
        "enable": "RUSTFLAGS='--cfg plonk_verif' (set in /verif/harness/.cargo/config.toml); harness depends on dusk-plonk by path /repo",
        "baseline_off_cmd": "cd /repo && cargo nextest run --workspace --no-fail-fast --offline --test-threads 8 || cargo test --workspace --no-fail-fast --offline",
        "source_commits": json.load(open(os.path.join(HERE, "hooks_commits.json"))),
        "add_only": True,
      },
      "engines": [{"name": "rocq-model+correspondence", "path": "/verif/theories, /verif/harness, /verif/ocaml, /verif/vlib",
                   "serves_properties": sorted(CLAIMED), "kind_free_text": "Coq 8.16 proofs about a hand-written Gallina model; model extracted to OCaml and run against the Rust implementation on shared inputs"}],
      "checks": checks,
      "notes": "See DESIGN.md. known_findings.json lists reproduced genuine defects; seeded/ holds the property-breaking changes used to test the checks.",
      "not_applicable": [{"property_id": p, "reason": REASONS_PENDING} for p in ALL if p not in CLAIMED],
    }
    json.dump(m, open(os.path.join(HERE, "MANIFEST.json"), "w"), indent=1)

if __name__ == "__main__":
    main()
