(* Driver for the extracted Gallina model: reads the same line-oriented
   scripts as the Rust harness and prints the same canonical text. *)
module ZA = Z
open Model

let rec nat_of_int n = if n <= 0 then O else S (nat_of_int (n - 1))
let rec int_of_nat = function O -> 0 | S n -> 1 + int_of_nat n

let fr_of_hex s : fr = of_Z (ZA.of_string ("0x" ^ s))
let hex_of_fr (x : fr) : string = ZA.format "%x" (val0 x)

let st = ref initialized
let tr = ref (transcript_new [])
let bytes_of_hex s = if s = "-" then [] else List.init (String.length s / 2) (fun i -> ZA.of_int (int_of_string ("0x" ^ String.sub s (2*i) 2)))
let hex_of_bytes l = String.concat "" (List.map (fun b -> Printf.sprintf "%02x" (ZA.to_int b)) l)
let split s = List.filter (fun x -> x <> "") (String.split_on_char ' ' s)
let fr = fr_of_hex
let results : int list ref = ref []   (* witnesses returned so far, oldest first *)
let nat s =
  if String.length s > 0 && s.[0] = '$' then
    nat_of_int (List.nth !results (int_of_string (String.sub s 1 (String.length s - 1))))
  else nat_of_int (int_of_string s)
let opt_fr s = if s = "-" then None else Some (fr s)

(* constraint with the six external selectors, optional PI, four wires *)
let mk_c m l r o f c pi a b cw d : constraint0 =
  { c_m = fr m; c_l = fr l; c_r = fr r; c_o = fr o; c_f = fr f; c_c = fr c;
    c_pi = (match opt_fr pi with Some v -> v | None -> fzero);
    c_arith = fzero; c_range = fzero; c_logic = fzero; c_fixed = fzero; c_var = fzero;
    c_has_pi = (pi <> "-");
    c_wa = nat a; c_wb = nat b; c_wc = nat cw; c_wd = nat d }

let pr_w w = results := !results @ [int_of_nat w]; Printf.printf "R %d\n" (int_of_nat w)
let pr_ws ws = results := !results @ List.map int_of_nat ws;
  Printf.printf "R %s\n" (String.concat " " (List.map (fun w -> string_of_int (int_of_nat w)) ws))

let pr_p (p : nat * nat) = let (x, y) = p in
  results := !results @ [int_of_nat x; int_of_nat y]; Printf.printf "R %d %d\n" (int_of_nat x) (int_of_nat y)
let pr_err (k : perr) = Printf.printf "E %s\n" (match k with
  | PDegenerate -> "JubJubPointDegenerate" | PNotTorsionFree -> "JubJubPointNotTorsionFree"
  | PGeneratorNotPrimeOrder -> "JubJubGeneratorNotPrimeOrder" | PScalarMalformed -> "JubJubScalarMalformed"
  | PUnsupportedWnaf -> "UnsupportedWNAF2k")
let pr_res r = match r with Inl k -> pr_err k | Inr p -> pr_p p

let pr_rows (l : (gate * fr option) list) =
  List.iteri (fun i ((g : gate), o) ->
    Printf.printf "B %d %s %s %s %s %s %s %s %s %s %s %s %d %d %d %d %s\n" i
      (hex_of_fr g.q_m) (hex_of_fr g.q_l) (hex_of_fr g.q_r) (hex_of_fr g.q_o)
      (hex_of_fr g.q_f) (hex_of_fr g.q_c) (hex_of_fr g.q_arith) (hex_of_fr g.q_range)
      (hex_of_fr g.q_logic) (hex_of_fr g.q_fixed) (hex_of_fr g.q_var)
      (int_of_nat g.w_a) (int_of_nat g.w_b) (int_of_nat g.w_c) (int_of_nat g.w_d)
      (match o with Some v -> hex_of_fr v | None -> "-")) l

let snap () =
  let s = !st in
  List.iteri (fun i (g : gate) ->
    Printf.printf "G %d %s %s %s %s %s %s %s %s %s %s %s %d %d %d %d\n" i
      (hex_of_fr g.q_m) (hex_of_fr g.q_l) (hex_of_fr g.q_r) (hex_of_fr g.q_o)
      (hex_of_fr g.q_f) (hex_of_fr g.q_c) (hex_of_fr g.q_arith) (hex_of_fr g.q_range)
      (hex_of_fr g.q_logic) (hex_of_fr g.q_fixed) (hex_of_fr g.q_var)
      (int_of_nat g.w_a) (int_of_nat g.w_b) (int_of_nat g.w_c) (int_of_nat g.w_d)) (List.map fst s.rows);
  List.iter (fun (i, v) -> Printf.printf "P %d %s\n" (int_of_nat i) (hex_of_fr v))
    (pis s);
  List.iteri (fun i v -> Printf.printf "W %d %s\n" i (hex_of_fr v)) s.wits

(* satisfaction of the current gates under the current witness values *)
let sat () =
  let s = !st in
  let arr = Array.of_list s.wits in
  let asg w = let i = int_of_nat w in if i < Array.length arr then arr.(i) else fzero in
  match first_bad s.rows asg with
  | None -> Printf.printf "SAT ok\n"
  | Some i -> Printf.printf "SAT bad %d\n" (int_of_nat i)

let set_wit idx v =
  let s = !st in
  st := { s with wits = List.mapi (fun i x -> if i = idx then v else x) s.wits }

let step line =
  match split line with
  | [] -> ()
  | "#" :: _ -> ()
  | ["prog"; name] -> Printf.printf "== %s\n" name; st := initialized; results := []
  | ["new"] -> st := initialized
  | ["w"; v] -> let (w, s) = append_witness (fr v) !st in st := s; pr_w w
  | ["gate"; m; l; r; o; f; c; pi; a; b; cw; d] ->
      st := append_gate (mk_c m l r o f c pi a b cw d) !st
  | ["evo"; m; l; r; o; f; c; pi; a; b; cw; d] ->
      let (o, s) = append_evaluated_output (mk_c m l r o f c pi a b cw d) !st in
      st := s;
      (match o with Some w -> pr_w w | None -> print_string "R none\n")
  | ["gadd"; m; l; r; o; f; c; pi; a; b; cw; d] ->
      let (w, s) = gate_add (mk_c m l r o f c pi a b cw d) !st in st := s; pr_w w
  | ["gmul"; m; l; r; o; f; c; pi; a; b; cw; d] ->
      let (w, s) = gate_mul (mk_c m l r o f c pi a b cw d) !st in st := s; pr_w w
  | ["aeq"; a; b] -> st := assert_equal (nat a) (nat b) !st
  | ["aeqc"; a; k; pi] -> st := assert_equal_constant (nat a) (fr k) (opt_fr pi) !st
  | ["const"; k] -> let (w, s) = append_constant (fr k) !st in st := s; pr_w w
  | ["pub"; p] -> let (w, s) = append_public (fr p) !st in st := s; pr_w w
  | ["bool"; a] -> st := component_boolean (nat a) !st
  | ["sel"; bit; a; b] -> let (w, s) = component_select (nat bit) (nat a) (nat b) !st in st := s; pr_w w
  | ["sel1"; bit; v] -> let (w, s) = component_select_one (nat bit) (nat v) !st in st := s; pr_w w
  | ["sel0"; bit; v] -> let (w, s) = component_select_zero (nat bit) (nat v) !st in st := s; pr_w w
  | ["rbits"; n; a] -> st := component_range_bits (nat n) (nat a) !st
  | ["rpairs"; n; a] -> st := component_range (nat n) (nat a) !st
  | ["rhook"; n; a] -> st := range_check (nat a) (nat n) !st
  | ["trunc"; n; a] -> let (w, s) = component_truncate (nat n) (nat a) !st in st := s; pr_w w
  | ["decomp"; n; a] -> let (ws, s) = component_decomposition (nat n) (nat a) !st in st := s; pr_ws ws
  | ["land"; p; a; b] -> let (w, s) = append_logic_and (nat p) (nat a) (nat b) !st in st := s; pr_w w
  | ["lxor"; p; a; b] -> let (w, s) = append_logic_xor (nat p) (nat a) (nat b) !st in st := s; pr_w w
  | [("pt" | "ppt" | "cpt") as op; u; v; z; t1; t2] ->
      let (r, s) = (match op with
        | "pt" -> append_point_ext (fr u) (fr v) (fr z) !st
        | "ppt" -> append_public_point_ext (fr u) (fr v) (fr z) !st
        | _ -> append_constant_point_ext (fr u) (fr v) (fr z) (fr t1) (fr t2) !st) in
      st := s; pr_res r
  | ["aeqp"; xa; ya; xb; yb] -> st := assert_equal_point (nat xa, nat ya) (nat xb, nat yb) !st
  | ["aeqpp"; x; y; u; v; z; _; _] ->
      let (e, s) = assert_equal_public_point_ext (nat x, nat y) (fr u) (fr v) (fr z) !st in
      st := s; (match e with Some k -> pr_err k | None -> ())
  | ["padd"; xa; ya; xb; yb] -> let (p, s) = component_add_point (nat xa, nat ya) (nat xb, nat yb) !st in st := s; pr_p p
  | ["psub"; xa; ya; xb; yb] -> let (p, s) = component_sub_point (nat xa, nat ya) (nat xb, nat yb) !st in st := s; pr_p p
  | ["pneg"; x; y] -> let (p, s) = component_neg_point (nat x, nat y) !st in st := s; pr_p p
  | ["pmul"; k; x; y] -> let (p, s) = component_mul_point (nat k) (nat x, nat y) !st in st := s; pr_p p
  | ["pselid"; b; x; y] -> let (p, s) = component_select_identity (nat b) (nat x, nat y) !st in st := s; pr_p p
  | ["pselpt"; b; xa; ya; xb; yb] -> let (p, s) = component_select_point (nat b) (nat xa, nat ya) (nat xb, nat yb) !st in st := s; pr_p p
  | ["tors"; x; y] -> st := assert_torsion_free_point (nat x, nat y) !st
  | ["torsq"; x; y; qx; qy] -> st := assert_torsion_free_gates (nat x, nat y) (fr qx, fr qy) !st
  | ["mulgen"; k; u; v; z; t1; t2] ->
      let (r, s) = component_mul_generator_ext (nat k) (fr u) (fr v) (fr z) (fr t1) (fr t2) !st in st := s; pr_res r
  | ["fbd"; k; gx; gy; ds] ->
      let digits = List.init 256 (fun i -> if i < String.length ds then (match ds.[i] with '+' -> ZA.one | '-' -> ZA.minus_one | 'x' -> ZA.of_int 2 | _ -> ZA.zero) else ZA.zero) in
      let (r, s) = append_fixed_base_signed_digits (nat k) (fr gx, fr gy) digits !st in st := s; pr_res r
  | ["BLK"; "fb"; base; gx; gy] ->
      let ms = List.rev (doublings (nat_of_int 256) (fr gx, fr gy)) in
      pr_rows (fb_block ms (nat_of_int (int_of_string base)))
  | ["BLK"; "canon"; scalar; base] -> pr_rows (canonical_blk (nat_of_int (int_of_string scalar)) (nat_of_int (int_of_string base)))
  | ["BLK"; "tors"; x; y; base] -> pr_rows (torsion_rows (nat_of_int (int_of_string x), nat_of_int (int_of_string y)) (nat_of_int (int_of_string base)))
  | "raw" :: rest when List.length rest = 17 ->
      let a = Array.of_list rest in
      let c : constraint0 =
        { c_m = fr a.(0); c_l = fr a.(1); c_r = fr a.(2); c_o = fr a.(3); c_f = fr a.(4);
          c_c = fr a.(5); c_pi = fr a.(6); c_arith = fr a.(7); c_range = fr a.(8);
          c_logic = fr a.(9); c_fixed = fr a.(10); c_var = fr a.(11);
          c_has_pi = (a.(12) = "1");
          c_wa = nat a.(13); c_wb = nat a.(14); c_wc = nat a.(15); c_wd = nat a.(16) } in
      st := append_custom_gate c !st
  | ["clear"] -> st := { rows = []; wits = [] }
  | ["LW"; v] -> let s = !st in st := { s with wits = s.wits @ [fr v] }
  | "LG" :: rest when List.length rest = 16 ->
      let a = Array.of_list rest in
      let g : gate = { q_m = fr a.(0); q_l = fr a.(1); q_r = fr a.(2); q_o = fr a.(3);
        q_f = fr a.(4); q_c = fr a.(5); q_arith = fr a.(6); q_range = fr a.(7);
        q_logic = fr a.(8); q_fixed = fr a.(9); q_var = fr a.(10);
        w_a = nat a.(11); w_b = nat a.(12); w_c = nat a.(13); w_d = nat a.(14) } in
      let s = !st in st := { s with rows = s.rows @ [(g, opt_fr a.(15))] }
  | ["setw"; i; v] -> set_wit (int_of_string i) (fr v)
  | "T" :: name :: rest when List.length rest = 22 ->
      let a = Array.of_list (List.map fr rest) in
      let g : gate = { q_m = a.(0); q_l = a.(1); q_r = a.(2); q_o = a.(3); q_f = a.(4); q_c = a.(5);
        q_arith = a.(6); q_range = a.(7); q_logic = a.(8); q_fixed = a.(9); q_var = a.(10);
        w_a = O; w_b = O; w_c = O; w_d = O } in
      let w : wires = { va = a.(15); vb = a.(16); vc = a.(17); vd = a.(18) } in
      let n : wires = { va = a.(19); vb = a.(20); vc = fzero; vd = a.(21) } in
      let vals = [ t_arith g w; t_range g w n a.(11); t_logic g w n a.(12);
                   t_fixed g w n a.(13); t_var g w n a.(14) ] in
      Printf.printf "T %s %s\n" name
        (String.concat " " (List.concat_map (fun v -> let h = hex_of_fr v in [h; h; h]) vals))
  | "K" :: name :: "fft" :: kind :: n :: _threads :: vs ->
      let v = List.map fr vs in
      let n = nat n in
      let r = (match kind with "0" -> fft n v | "1" -> ifft n v | "2" -> coset_fft n v | _ -> coset_ifft n v) in
      Printf.printf "K %s %s\n" name (String.concat " " (List.map hex_of_fr r))
  | "K" :: name :: "poly" :: op :: sc :: rest ->
      let rec split acc = function "|" :: tl -> (List.rev acc, tl) | x :: tl -> split (x :: acc) tl | [] -> (List.rev acc, []) in
      let (a, b) = split [] rest in
      let a = List.map fr a and b = List.map fr b and sc = fr sc in
      let r = (match op with
        | "0" -> ptrim (padd a b) | "1" -> ptrim (psub a b) | "2" -> ptrim (pmul (ptrim a) (ptrim b))
        | "3" -> ptrim (pscale sc (ptrim a)) | "4" -> ptrim (ruffini (ptrim a) sc)
        | "5" -> ptrim (padd a [sc]) | "6" -> ptrim (psub a [sc])
        | _ -> [peval a sc]) in
      Printf.printf "K %s %s\n" name (String.concat " " (List.map hex_of_fr r))
  | "K" :: name :: "binv" :: vs ->
      Printf.printf "K %s %s\n" name (String.concat " " (List.map hex_of_fr (batch_inversion (List.map fr vs))))
  | ["K"; name; "lagr"; n; tau] ->
      Printf.printf "K %s %s\n" name (String.concat " " (List.map hex_of_fr (lagrange_all (domain_log (nat n)) (fr tau))))
  | ["K"; name; "vcos"; n; d] ->
      Printf.printf "K %s %s\n" name (String.concat " " (List.map hex_of_fr (vanishing_over_coset (domain_log (nat n)) (nat d))))
  | "K" :: name :: "mvan" :: n :: d :: evs ->
      let k = domain_log (nat n) in
      let size = int_of_nat (domain_size (nat n)) in
      let evs = List.map fr evs in
      let ok = int_of_string d < size && List.length evs = size
               && List.for_all2 (fun a b -> feqb a b) evs (vanishing_over_coset k (nat d)) in
      Printf.printf "K %s %b\n" name ok
  | "K" :: name :: "mlin" :: n :: evs ->
      let k = domain_log (nat n) in
      let size = int_of_nat (domain_size (nat n)) in
      let evs = List.map fr evs in
      let want = List.map (fun x -> fmul coset_gen x) (powers (domain_gen k) (domain_size (nat n))) in
      Printf.printf "K %s %b\n" name (List.length evs = size && List.for_all2 (fun a b -> feqb a b) evs want)
  | ["K"; name; "elems"; n] ->
      let k = domain_log (nat n) in
      Printf.printf "K %s %s\n" name (String.concat " " (List.map hex_of_fr (powers (domain_gen k) (domain_size (nat n)))))
  | "K" :: name :: "interp" :: n :: evs ->
      Printf.printf "K %s %s\n" name (String.concat " " (List.map hex_of_fr (ptrim (ifft (nat n) (List.map fr evs)))))
  | ["K"; name; "pows"; x; d] ->
      Printf.printf "K %s %s\n" name (String.concat " " (List.map hex_of_fr (powers (fr x) (nat (string_of_int (int_of_string d + 1))))))
  | ["K"; name; "vanish"; n; tau] ->
      Printf.printf "K %s %s\n" name (hex_of_fr (vanishing_eval (domain_log (nat n)) (fr tau)))
  | "K" :: name :: "bary" :: n :: p :: evs ->
      Printf.printf "K %s %s\n" name (hex_of_fr (interp_eval (domain_log (nat n)) (List.map fr evs) (fr p)))
  | ["K"; name; "dom"; n] ->
      let k = domain_log (nat n) in
      Printf.printf "K %s %d %s %s\n" name (int_of_nat (domain_size (nat n))) (hex_of_fr (domain_gen k)) (hex_of_fr (size_inv k))
  | "Z" :: name :: "commit" :: x :: kd :: cs ->
      let p = List.map fr cs in
      Printf.printf "Z %s %s guard=%b\n" name (hex_of_fr (commit (fr x) p)) (commit_guard (nat kd) p)
  | "Z" :: name :: "batch" :: x :: vs ->
      let rec grp = function z :: w :: v :: c :: tl -> { o_z = fr z; o_w = fr w; o_v = fr v; o_c = fr c } :: grp tl | _ -> [] in
      Printf.printf "Z %s %b\n" name (batch_all (fr x) (grp vs))
  | "Z" :: name :: "aggw" :: point :: v :: rest ->
      let rec split acc cur = function
        | "|" :: tl -> split (List.rev cur :: acc) [] tl
        | y :: tl -> split acc (y :: cur) tl
        | [] -> List.rev (List.rev cur :: acc) in
      let polys = List.map (List.map fr) (split [] [] rest) in
      Printf.printf "Z %s %s\n" name (String.concat " " (List.map hex_of_fr (ptrim (aggregate_witness polys (fr point) (fr v)))))
  | "Z" :: name :: "flatten" :: v :: rest ->
      let rec grp = function e :: c :: tl -> (fr e, fr c) :: grp tl | _ -> [] in
      let (e, c) = flatten (grp rest) (fr v) in
      Printf.printf "Z %s %s %s\n" name (hex_of_fr e) (hex_of_fr c)
  | ["Z"; name; "capacity"; c; deg] ->
      Printf.printf "Z %s %b %b\n" name (direct_route_ok (nat c) (nat deg)) (compressed_route_ok (nat c) (nat deg))
  | ["M"; "new"; l] -> tr := transcript_new (bytes_of_hex l)
  | ["M"; "msg"; l; m] -> tr := append_message (bytes_of_hex l) (bytes_of_hex m) !tr
  | ["M"; "u64"; l; n] -> tr := append_u64 (bytes_of_hex l) (ZA.of_string n) !tr
  | ["M"; "chal"; l; n] -> let (b, t') = challenge_bytes (bytes_of_hex l) (nat n) !tr in tr := t'; Printf.printf "M %s\n" (hex_of_bytes b)
  | ["V"; name; ver; x; vb; pb; pis] ->
      let pis = if pis = "-" then [] else List.map fr (String.split_on_char ',' pis) in
      let (r, chs) = ref_verify (ver = "V3") (fr x) (bytes_of_hex vb) (bytes_of_hex pb) pis in
      Printf.printf "V %s %s %s\n" name (match r with Accept -> "ACCEPT" | Reject -> "REJECT" | RejectPiLen -> "REJECT_PILEN" | Malformed -> "MALFORMED")
        (String.concat "," (List.map hex_of_fr chs))
  | ["VD"; name; ver; x; vb; pb; pis] ->
      let pis = if pis = "-" then [] else List.map fr (String.split_on_char ',' pis) in
      Printf.printf "VD %s %s\n" name (hex_of_bytes (ref_discrepancy (ver = "V3") (fr x) (bytes_of_hex vb) (bytes_of_hex pb) pis))
  | ["G1LIN"; name; base; sc; g] ->
      (match g1_lin (bytes_of_hex base) (ZA.of_string ("0x" ^ sc)) (bytes_of_hex g) with
       | Some b -> Printf.printf "G1LIN %s %s\n" name (hex_of_bytes b)
       | None -> Printf.printf "G1LIN %s NONE\n" name)
  | "B" :: name :: k :: point :: b0 :: b1 :: col ->
      Printf.printf "B %s %s\n" name (hex_of_fr (wire_opening (nat k) (List.map fr col) (fr b0) (fr b1) (fr point)))
  | ["snap"] -> snap ()
  | ["sat"] -> sat ()
  | _ -> Printf.printf "ERR unknown op: %s\n" line

let () =
  let ic = open_in Sys.argv.(1) in
  (try
     while true do
       step (input_line ic)
     done
   with End_of_file -> ());
  close_in ic
