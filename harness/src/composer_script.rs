//! Interpreter for composer scripts (same grammar as ocaml/driver.ml).

use std::panic::{AssertUnwindSafe, catch_unwind};

use dusk_plonk::prelude::*;

use crate::dispatch;
use crate::util::*;

thread_local! {
    static RESULTS: std::cell::RefCell<Vec<usize>> = std::cell::RefCell::new(Vec::new());
    static QUIET: std::cell::Cell<bool> = const { std::cell::Cell::new(false) };
}

macro_rules! outln {
    ($($arg:tt)*) => { if !QUIET.with(|q| q.get()) { println!($($arg)*); } };
}

fn push_result(i: usize) {
    RESULTS.with(|r| r.borrow_mut().push(i));
}

fn w(c: &Composer, s: &str) -> Witness {
    let i: usize = if let Some(k) = s.strip_prefix('$') {
        let k: usize = k.parse().expect("result index");
        RESULTS.with(|r| r.borrow()[k])
    } else {
        s.parse().expect("witness index")
    };
    c.verif_witness(i).expect("witness index in range")
}

fn err_kind(e: &Error) -> String {
    let d = format!("{:?}", e);
    d.split(|c: char| !c.is_alphanumeric()).next().unwrap_or("?").to_string()
}

fn ext_of(t: &[&str]) -> dusk_jubjub::JubJubExtended {
    dusk_jubjub::JubJubExtended::from_raw_unchecked(
        fr_of_hex(t[0]), fr_of_hex(t[1]), fr_of_hex(t[2]), fr_of_hex(t[3]), fr_of_hex(t[4]),
    )
}

fn wp(c: &Composer, x: &str, y: &str) -> WitnessPoint {
    Composer::verif_point(w(c, x), w(c, y))
}

fn tf(p: WitnessPoint) -> TorsionFreeWitnessPoint {
    TorsionFreeWitnessPoint::new_unchecked(p)
}

fn push_point(p: &WitnessPoint) {
    push_result(p.x().index());
    push_result(p.y().index());
    outln!("R {} {}", p.x().index(), p.y().index());
}

fn mk_c(c: &Composer, t: &[&str]) -> Constraint {
    // m l r o f c pi a b c d
    let mut k = Constraint::new()
        .mult(fr_of_hex(t[0]))
        .left(fr_of_hex(t[1]))
        .right(fr_of_hex(t[2]))
        .output(fr_of_hex(t[3]))
        .fourth(fr_of_hex(t[4]))
        .constant(fr_of_hex(t[5]))
        .a(w(c, t[7]))
        .b(w(c, t[8]))
        .c(w(c, t[9]))
        .d(w(c, t[10]));
    if t[6] != "-" {
        k = k.public(fr_of_hex(t[6]));
    }
    k
}

/// Replay script lines on an existing composer (used by Circuit impls).
/// Output of the individual ops is suppressed; errors of fallible components
/// are propagated.
pub fn replay(c: &mut Composer, lines: &[String]) -> Result<(), Error> {
    QUIET.with(|q| q.set(true));
    RESULTS.with(|r| r.borrow_mut().clear());
    let mut res = Ok(());
    for line in lines {
        if let Err(e) = step_fallible(c, line) {
            res = Err(e);
            break;
        }
    }
    QUIET.with(|q| q.set(false));
    res
}

pub fn snap_to(c: &Composer, out: &mut String) {
    use std::fmt::Write;
    let (gates, wits, pis) = c.verif_snapshot();
    for (i, (sel, wires)) in gates.iter().enumerate() {
        let s: Vec<String> = sel.iter().map(hex_of_fr).collect();
        let _ = writeln!(out, "G {} {} {} {} {} {}", i, s.join(" "), wires[0], wires[1], wires[2], wires[3]);
    }
    for (i, v) in pis.iter() {
        let _ = writeln!(out, "P {} {}", i, hex_of_fr(v));
    }
    for (i, v) in wits.iter().enumerate() {
        let _ = writeln!(out, "W {} {}", i, hex_of_fr(v));
    }
}

pub fn snap(c: &Composer) {
    let (gates, wits, pis) = c.verif_snapshot();
    for (i, (sel, wires)) in gates.iter().enumerate() {
        let s: Vec<String> = sel.iter().map(hex_of_fr).collect();
        println!(
            "G {} {} {} {} {} {}",
            i,
            s.join(" "),
            wires[0],
            wires[1],
            wires[2],
            wires[3]
        );
    }
    for (i, v) in pis.iter() {
        println!("P {} {}", i, hex_of_fr(v));
    }
    for (i, v) in wits.iter().enumerate() {
        println!("W {} {}", i, hex_of_fr(v));
    }
}

fn step(c: &mut Composer, line: &str) {
    let _ = step_fallible(c, line);
}

fn step_fallible(c: &mut Composer, line: &str) -> Result<(), Error> {
    let t: Vec<&str> = line.split_whitespace().collect();
    if t.is_empty() || t[0] == "#" {
        return Ok(());
    }
    match t[0] {
        "prog" => {
            outln!("== {}", t[1]);
            RESULTS.with(|r| r.borrow_mut().clear());
            *c = Composer::initialized();
        }
        "new" => *c = Composer::initialized(),
        "w" => {
            let x = c.append_witness(fr_of_hex(t[1]));
            { push_result(x.index()); outln!("R {}", x.index()); }
        }
        "gate" => {
            let k = mk_c(c, &t[1..]);
            c.append_gate(k);
        }
        "evo" => {
            let k = mk_c(c, &t[1..]);
            match c.append_evaluated_output(k) {
                Some(x) => { push_result(x.index()); outln!("R {}", x.index()) }
                None => outln!("R none"),
            }
        }
        "gadd" => {
            let k = mk_c(c, &t[1..]);
            let x = c.gate_add(k);
            { push_result(x.index()); outln!("R {}", x.index()); }
        }
        "gmul" => {
            let k = mk_c(c, &t[1..]);
            let x = c.gate_mul(k);
            { push_result(x.index()); outln!("R {}", x.index()); }
        }
        "aeq" => {
            let (a, b) = (w(c, t[1]), w(c, t[2]));
            c.assert_equal(a, b);
        }
        "aeqc" => {
            let a = w(c, t[1]);
            let pi = if t[3] == "-" { None } else { Some(fr_of_hex(t[3])) };
            c.assert_equal_constant(a, fr_of_hex(t[2]), pi);
        }
        "const" => {
            let x = c.append_constant(fr_of_hex(t[1]));
            { push_result(x.index()); outln!("R {}", x.index()); }
        }
        "pub" => {
            let x = c.append_public(fr_of_hex(t[1]));
            { push_result(x.index()); outln!("R {}", x.index()); }
        }
        "bool" => {
            let a = w(c, t[1]);
            c.component_boolean(a);
        }
        "sel" => {
            let (bit, a, b) = (w(c, t[1]), w(c, t[2]), w(c, t[3]));
            let x = c.component_select(bit, a, b);
            { push_result(x.index()); outln!("R {}", x.index()); }
        }
        "sel1" => {
            let (bit, v) = (w(c, t[1]), w(c, t[2]));
            let x = c.component_select_one(bit, v);
            { push_result(x.index()); outln!("R {}", x.index()); }
        }
        "sel0" => {
            let (bit, v) = (w(c, t[1]), w(c, t[2]));
            let x = c.component_select_zero(bit, v);
            { push_result(x.index()); outln!("R {}", x.index()); }
        }
        "rbits" => {
            let a = w(c, t[2]);
            dispatch::range_bits(c, t[1].parse().unwrap(), a).expect("width");
        }
        "rpairs" => {
            let a = w(c, t[2]);
            dispatch::range_pairs(c, t[1].parse().unwrap(), a).expect("width");
        }
        "rhook" => {
            let a = w(c, t[2]);
            c.verif_range_check(a, t[1].parse().unwrap());
        }
        "trunc" => {
            let a = w(c, t[2]);
            let x = dispatch::truncate(c, t[1].parse().unwrap(), a)
                .expect("width");
            { push_result(x.index()); outln!("R {}", x.index()); }
        }
        "decomp" => {
            let a = w(c, t[2]);
            let xs = dispatch::decomposition(c, t[1].parse().unwrap(), a)
                .expect("width");
            xs.iter().for_each(|x| push_result(x.index()));
            let s: Vec<String> =
                xs.iter().map(|x| x.index().to_string()).collect();
            outln!("R {}", s.join(" "));
        }
        "land" => {
            let (a, b) = (w(c, t[2]), w(c, t[3]));
            let x = dispatch::logic_and(c, t[1].parse().unwrap(), a, b)
                .expect("width");
            { push_result(x.index()); outln!("R {}", x.index()); }
        }
        "lxor" => {
            let (a, b) = (w(c, t[2]), w(c, t[3]));
            let x = dispatch::logic_xor(c, t[1].parse().unwrap(), a, b)
                .expect("width");
            { push_result(x.index()); outln!("R {}", x.index()); }
        }
        // ---- embedded-curve components (results: x y witnesses) ----
        "pt" | "ppt" | "cpt" => {
            let e = ext_of(&t[1..6]);
            let r = match t[0] {
                "pt" => c.append_point(e),
                "ppt" => c.append_public_point(e),
                _ => c.append_constant_point(e).map(WitnessPoint::from),
            };
            match r {
                Ok(p) => push_point(&p),
                Err(e) => { outln!("E {}", err_kind(&e)); return Err(e); }
            }
        }
        "aeqp" => {
            let (a, b) = (wp(c, t[1], t[2]), wp(c, t[3], t[4]));
            c.assert_equal_point(a, b);
        }
        "aeqpp" => {
            let a = wp(c, t[1], t[2]);
            if let Err(e) = c.assert_equal_public_point(a, ext_of(&t[3..8])) {
                outln!("E {}", err_kind(&e));
                return Err(e);
            }
        }
        "padd" | "psub" => {
            let (a, b) = (tf(wp(c, t[1], t[2])), tf(wp(c, t[3], t[4])));
            let p = if t[0] == "padd" { c.component_add_point(a, b) } else { c.component_sub_point(a, b) };
            push_point(&p.into());
        }
        "pneg" => {
            let p = c.component_neg_point(tf(wp(c, t[1], t[2])));
            push_point(&p.into());
        }
        "pmul" => {
            let s = w(c, t[1]);
            let p = c.component_mul_point(s, tf(wp(c, t[2], t[3])));
            push_point(&p.into());
        }
        "pselid" => {
            let bit = w(c, t[1]);
            let p = c.component_select_identity(bit, tf(wp(c, t[2], t[3])));
            push_point(&p.into());
        }
        "pselpt" => {
            let bit = w(c, t[1]);
            let (a, b) = (wp(c, t[2], t[3]), wp(c, t[4], t[5]));
            let p = c.component_select_point(bit, a, b);
            push_point(&p);
        }
        "tors" => {
            let a = wp(c, t[1], t[2]);
            c.assert_torsion_free_point(a);
        }
        "torsq" => {
            let a = wp(c, t[1], t[2]);
            let q = dusk_jubjub::JubJubAffine::from_raw_unchecked(fr_of_hex(t[3]), fr_of_hex(t[4]));
            c.verif_assert_torsion_free_gates(a, q);
        }
        "mulgen" => {
            let s = w(c, t[1]);
            match c.component_mul_generator(s, ext_of(&t[2..7])) {
                Ok(p) => push_point(&p.into()),
                Err(e) => { outln!("E {}", err_kind(&e)); return Err(e); }
            }
        }
        "fbd" => {
            // fbd <scalar> <gx> <gy> <256 digits, least significant first: 0 + - x(=2)>
            let s = w(c, t[1]);
            let g = dusk_jubjub::JubJubExtended::from(dusk_jubjub::JubJubAffine::from_raw_unchecked(fr_of_hex(t[2]), fr_of_hex(t[3])));
            let mut d = [0i8; 256];
            for (i, ch) in t[4].chars().enumerate().take(256) {
                d[i] = match ch { '+' => 1, '-' => -1, 'x' => 2, _ => 0 };
            }
            match c.verif_fixed_base_signed_digits(s, g, &d) {
                Ok(p) => push_point(&p),
                Err(e) => { outln!("E {}", err_kind(&e)); return Err(e); }
            }
        }
        "raw" => {
            let mut co = [BlsScalar::zero(); 12];
            for i in 0..12 {
                co[i] = fr_of_hex(t[1 + i]);
            }
            let has_pi = t[13] == "1";
            let wires = [w(c, t[14]), w(c, t[15]), w(c, t[16]), w(c, t[17])];
            c.verif_raw_gate(co, has_pi, wires);
        }
        "setw" => {
            c.verif_set_witness(t[1].parse().unwrap(), fr_of_hex(t[2]));
        }
        "snap" => snap(c),
        "sat" => {}
        _ => outln!("ERR unknown op: {line}"),
    }
    Ok(())
}

pub fn run(text: &str) {
    let mut c = Composer::initialized();
    for line in text.lines() {
        let r = catch_unwind(AssertUnwindSafe(|| step(&mut c, line)));
        if let Err(e) = r {
            println!("PANIC {}", panic_msg(e));
        }
    }
}
