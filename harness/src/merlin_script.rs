//! Merlin transcript operations with the real crate (tie for Protocol/Keccak.v).
fn unhex(s: &str) -> Vec<u8> {
    if s == "-" { return Vec::new(); }
    (0..s.len() / 2).map(|i| u8::from_str_radix(&s[2 * i..2 * i + 2], 16).unwrap()).collect()
}
fn leak(v: Vec<u8>) -> &'static [u8] { Box::leak(v.into_boxed_slice()) }

pub fn run(text: &str) {
    let mut t = merlin::Transcript::new(b"x");
    for line in text.lines() {
        let w: Vec<&str> = line.split_whitespace().collect();
        if w.is_empty() { continue; }
        match w[0] {
            "M" => match w[1] {
                "new" => t = merlin::Transcript::new(leak(unhex(w[2]))),
                "msg" => t.append_message(leak(unhex(w[2])), &unhex(w[3])),
                "u64" => t.append_u64(leak(unhex(w[2])), w[3].parse().unwrap()),
                "chal" => {
                    let mut buf = vec![0u8; w[3].parse().unwrap()];
                    t.challenge_bytes(leak(unhex(w[2])), &mut buf);
                    println!("M {}", buf.iter().map(|b| format!("{:02x}", b)).collect::<String>());
                }
                _ => {}
            },
            _ => {}
        }
    }
}
