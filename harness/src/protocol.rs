//! Protocol-level scripts: setup / compile (direct, compressed, bytes) /
//! prove (scripted RNG, version, pool, forced) / verify, with named slots.
use std::cell::RefCell;
use std::collections::HashMap;
use std::panic::{AssertUnwindSafe, catch_unwind};

use dusk_bytes::{DeserializableSlice, Serializable};
use dusk_plonk::prelude::*;
use rand_core::{CryptoRng, RngCore};

use crate::composer_script;
use crate::util::*;

/// A circuit defined by composer-script lines.
#[derive(Clone, Default)]
pub struct ScriptCircuit {
    pub lines: Vec<String>,
}

thread_local! {
    static DEFAULT_CIRCUIT: RefCell<Vec<String>> = RefCell::new(Vec::new());
    pub static LAST_SNAPSHOT: RefCell<Option<String>> = RefCell::new(None);
}

pub struct DefaultScript;
impl Default for DefaultScript {
    fn default() -> Self {
        DefaultScript
    }
}
impl Circuit for DefaultScript {
    fn circuit(&self, composer: &mut Composer) -> Result<(), Error> {
        let lines = DEFAULT_CIRCUIT.with(|d| d.borrow().clone());
        composer_script::replay(composer, &lines)
    }
}

impl Circuit for ScriptCircuit {
    fn circuit(&self, composer: &mut Composer) -> Result<(), Error> {
        composer_script::replay(composer, &self.lines)
    }
}

/// RNG whose first draws are scripted (64 bytes each, as BlsScalar::random
/// consumes them); afterwards a deterministic xorshift stream. Records calls.
pub struct ScriptRng {
    pub draws: Vec<[u8; 64]>,
    pub pos: usize,
    pub state: u64,
    pub calls: Vec<usize>,
}
impl ScriptRng {
    pub fn new(seed: u64, draws: Vec<[u8; 64]>) -> Self {
        ScriptRng { draws, pos: 0, state: seed | 1, calls: Vec::new() }
    }
    fn next(&mut self) -> u64 {
        let mut x = self.state;
        x ^= x << 13;
        x ^= x >> 7;
        x ^= x << 17;
        self.state = x;
        x.wrapping_mul(0x2545F4914F6CDD1D)
    }
}
impl RngCore for ScriptRng {
    fn next_u32(&mut self) -> u32 {
        self.next_u64() as u32
    }
    fn next_u64(&mut self) -> u64 {
        let mut b = [0u8; 8];
        self.fill_bytes(&mut b);
        u64::from_le_bytes(b)
    }
    fn fill_bytes(&mut self, dest: &mut [u8]) {
        self.calls.push(dest.len());
        if dest.len() == 64 && self.pos < self.draws.len() {
            dest.copy_from_slice(&self.draws[self.pos]);
            self.pos += 1;
            return;
        }
        for chunk in dest.chunks_mut(8) {
            let v = self.next().to_le_bytes();
            chunk.copy_from_slice(&v[..chunk.len()]);
        }
    }
    fn try_fill_bytes(&mut self, dest: &mut [u8]) -> Result<(), rand_core::Error> {
        self.fill_bytes(dest);
        Ok(())
    }
}
impl CryptoRng for ScriptRng {}

fn hex(bytes: &[u8]) -> String {
    let mut s = String::with_capacity(bytes.len() * 2);
    for b in bytes {
        s.push_str(&format!("{:02x}", b));
    }
    s
}
fn unhex(s: &str) -> Vec<u8> {
    if s == "-" {
        return Vec::new();
    }
    (0..s.len() / 2)
        .map(|i| u8::from_str_radix(&s[2 * i..2 * i + 2], 16).unwrap())
        .collect()
}

fn err_kind(e: &Error) -> String {
    let d = format!("{:?}", e);
    d.split(|c: char| !c.is_alphanumeric()).next().unwrap_or("?").to_string()
}

fn version(s: &str) -> PlonkVersion {
    match s {
        "V1" => PlonkVersion::V1,
        "V2" => PlonkVersion::V2,
        _ => PlonkVersion::V3,
    }
}

struct Ctx {
    pps: HashMap<String, PublicParameters>,
    circuits: HashMap<String, ScriptCircuit>,
    provers: HashMap<String, Prover>,
    verifiers: HashMap<String, Verifier>,
    proofs: HashMap<String, (Proof, Vec<BlsScalar>)>,
    blobs: HashMap<String, Vec<u8>>,
    threads: usize,
}

fn rng_from(spec: &str) -> ScriptRng {
    // spec: seed[:draw64hex,draw64hex,...]
    let mut it = spec.splitn(2, ':');
    let seed: u64 = it.next().unwrap().parse().unwrap_or(1);
    let draws = match it.next() {
        Some(d) if !d.is_empty() => d
            .split(',')
            .map(|h| {
                let v = unhex(h);
                let mut a = [0u8; 64];
                a[..v.len().min(64)].copy_from_slice(&v[..v.len().min(64)]);
                a
            })
            .collect(),
        _ => Vec::new(),
    };
    ScriptRng::new(seed, draws)
}

fn in_pool<T: Send>(threads: usize, f: impl FnOnce() -> T + Send) -> T {
    if threads == 0 {
        f()
    } else {
        rayon::ThreadPoolBuilder::new()
            .num_threads(threads)
            .build()
            .unwrap()
            .install(f)
    }
}

fn step(ctx: &mut Ctx, id: &str, t: &[&str]) -> String {
    match t[0] {
        "threads" => {
            ctx.threads = t[1].parse().unwrap();
            "OK".into()
        }
        "pp" => {
            // pp <name> <degree> <rngspec>
            let mut rng = rng_from(t[3]);
            match PublicParameters::setup(t[2].parse().unwrap(), &mut rng) {
                Ok(pp) => {
                    ctx.pps.insert(t[1].into(), pp);
                    "OK".into()
                }
                Err(e) => format!("ERR {}", err_kind(&e)),
            }
        }
        "ppbytes" => {
            let pp = &ctx.pps[t[1]];
            format!("OK {}", hex(&pp.to_var_bytes()))
        }
        "ppfrom" => {
            // ppfrom <name> <blob>
            match PublicParameters::from_slice(&ctx.blobs[t[2]]) {
                Ok(pp) => {
                    ctx.pps.insert(t[1].into(), pp);
                    "OK".into()
                }
                Err(e) => format!("ERR {}", err_kind(&e)),
            }
        }
        "ppdeg" => format!("OK {}", ctx.pps[t[1]].max_degree()),
        "compile" | "compilec" => {
            // compile <keys> <pp> <labelhex> <circuit>
            let pp = &ctx.pps[t[2]];
            let label = unhex(t[3]);
            let circuit = ctx.circuits[t[4]].clone();
            let threads = ctx.threads;
            let r = if t[0] == "compile" {
                in_pool(threads, || Compiler::compile_with_circuit(pp, &label, &circuit))
            } else {
                DEFAULT_CIRCUIT.with(|d| *d.borrow_mut() = circuit.lines.clone());
                match DefaultScript::compress() {
                    Ok(bytes) => {
                        ctx.blobs.insert(format!("{}.compressed", t[1]), bytes.clone());
                        in_pool(threads, || Compiler::compile_with_compressed(pp, &label, &bytes))
                    }
                    Err(e) => Err(e),
                }
            };
            match r {
                Ok((p, v)) => {
                    ctx.provers.insert(t[1].into(), p);
                    ctx.verifiers.insert(t[1].into(), v);
                    "OK".into()
                }
                Err(e) => format!("ERR {}", err_kind(&e)),
            }
        }
        "compileblob" => {
            // compileblob <keys> <pp> <labelhex> <blob>
            let pp = &ctx.pps[t[2]];
            let label = unhex(t[3]);
            let bytes = ctx.blobs[t[4]].clone();
            match Compiler::compile_with_compressed(pp, &label, &bytes) {
                Ok((p, v)) => {
                    ctx.provers.insert(t[1].into(), p);
                    ctx.verifiers.insert(t[1].into(), v);
                    "OK".into()
                }
                Err(e) => format!("ERR {}", err_kind(&e)),
            }
        }
        "blob" => {
            // blob <name> <hex>
            ctx.blobs.insert(t[1].into(), unhex(t[2]));
            "OK".into()
        }
        "blobget" => format!("OK {}", hex(&ctx.blobs[t[1]])),
        "size" => {
            let c = &ctx.circuits[t[1]];
            format!("OK {}", c.size())
        }
        "prove" => {
            // prove <proof> <keys> <circuit> <rngspec> [version] [force]
            let prover = &ctx.provers[t[2]];
            let circuit = ctx.circuits[t[3]].clone();
            let mut rng = rng_from(t[4]);
            let ver = version(t.get(5).copied().unwrap_or("V3"));
            let force = t.get(6).copied() == Some("force");
            let threads = ctx.threads;
            let r = in_pool(threads, || {
                #[cfg(feature = "std")]
                dusk_plonk::verif::set_force(force);
                let _ = force;
                let r = prover.prove_with_version(&mut rng, &circuit, ver);
                #[cfg(feature = "std")]
                dusk_plonk::verif::set_force(false);
                r
            });
            let calls = rng.calls.iter().map(|c| c.to_string()).collect::<Vec<_>>().join(",");
            match r {
                Ok((proof, pi)) => {
                    let pis: Vec<String> = pi.iter().map(hex_of_fr).collect();
                    let out = format!("OK {} pi={} rng={}", hex(&proof.to_bytes()), pis.join(","), calls);
                    ctx.proofs.insert(t[1].into(), (proof, pi));
                    out
                }
                Err(e) => format!("ERR {} rng={}", err_kind(&e), calls),
            }
        }
        "proofbytes" => {
            // proofbytes <proof> <hex> [pi,...] : install a (possibly forged) proof
            let bytes = unhex(t[2]);
            let pi: Vec<BlsScalar> = match t.get(3) {
                Some(s) if !s.is_empty() && *s != "-" => s.split(',').map(fr_of_hex).collect(),
                _ => Vec::new(),
            };
            match Proof::from_slice(&bytes) {
                Ok(p) => {
                    ctx.proofs.insert(t[1].into(), (p, pi));
                    "OK".into()
                }
                Err(e) => format!("ERR {:?}", e),
            }
        }
        "verify" => {
            // verify <keys> <proof> [pi,...|=] [version]
            let verifier = &ctx.verifiers[t[1]];
            let (proof, pi0) = &ctx.proofs[t[2]];
            let pi: Vec<BlsScalar> = match t.get(3) {
                Some(s) if *s == "=" => pi0.clone(),
                Some(s) if *s == "-" => Vec::new(),
                Some(s) => s.split(',').map(fr_of_hex).collect(),
                None => pi0.clone(),
            };
            let ver = version(t.get(4).copied().unwrap_or("V3"));
            let threads = ctx.threads;
            // without an explicit version the plain public entry point is used (what callers use)
            let explicit = t.get(4).is_some();
            let r = in_pool(threads, || if explicit { verifier.verify_with_version(proof, &pi, ver) } else { verifier.verify(proof, &pi) });
            #[cfg(feature = "std")]
            let chs = if threads == 0 {
                dusk_plonk::verif::last_challenges().iter().map(hex_of_fr).collect::<Vec<_>>().join(",")
            } else { String::new() };
            #[cfg(not(feature = "std"))]
            let chs = String::new();
            match r {
                Ok(()) => format!("OK ch={}", chs),
                Err(e) => format!("ERR {} ch={}", err_kind(&e), chs),
            }
        }
        "concurrent" => {
            // concurrent <keys> <circuit> <nthreads> <seed>: the same calls from several
            // threads on shared keys must return what they return sequentially
            let prover = &ctx.provers[t[1]];
            let verifier = &ctx.verifiers[t[1]];
            let circuit = ctx.circuits[t[2]].clone();
            let n: usize = t[3].parse().unwrap();
            let seed: u64 = t[4].parse().unwrap();
            let run_one = |i: usize| -> String {
                let mut rng = ScriptRng::new(seed + i as u64, Vec::new());
                match prover.prove(&mut rng, &circuit) {
                    Ok((proof, pi)) => {
                        let v = verifier.verify(&proof, &pi).is_ok();
                        format!("{}:{}", fnv(&proof.to_bytes()), v)
                    }
                    Err(e) => format!("ERR{}", err_kind(&e)),
                }
            };
            let sequential: Vec<String> = (0..n).map(run_one).collect();
            let concurrent: Vec<String> = std::thread::scope(|s| {
                let hs: Vec<_> = (0..n).map(|i| { let f = &run_one; s.spawn(move || f(i)) }).collect();
                hs.into_iter().map(|h| h.join().unwrap()).collect()
            });
            if sequential == concurrent && sequential.iter().all(|x| x.ends_with(":true")) {
                format!("OK {}", fnv(sequential.join(",").as_bytes()))
            } else {
                format!("DIFF seq={:?} conc={:?}", sequential, concurrent)
            }
        }
        "decode" => {
            // decode <kind> <blob> [slot]: checked decoder on arbitrary bytes; reports
            // Ok/Err, peak allocation, whether re-encoding reproduces the input
            let bytes = ctx.blobs[t[2]].clone();
            let slot = t.get(3).map(|s| s.to_string());
            // the allocation window covers the decoder call only (not re-encoding, not the harness's own maps)
            let base = crate::peak_reset();
            let mut mem = 0usize;
            let r = match t[1] {
                "prover" => { let d = Prover::try_from_bytes(&bytes[..]); mem = crate::peak_since(base); d.map(|p| {
                    let same = p.to_bytes() == bytes;
                    if let Some(s) = &slot { ctx.provers.insert(s.clone(), p); }
                    same
                }) },
                "verifier" => { let d = Verifier::try_from_bytes(&bytes[..]); mem = crate::peak_since(base); d.map(|v| {
                    let same = v.to_bytes() == bytes;
                    if let Some(s) = &slot { ctx.verifiers.insert(s.clone(), v); }
                    same
                }) },
                "proof" => { let d = Proof::from_slice(&bytes); mem = crate::peak_since(base); d.map_err(Error::from).map(|p| {
                    let same = p.to_bytes()[..] == bytes[..];
                    if let Some(s) = &slot { ctx.proofs.insert(s.clone(), (p, Vec::new())); }
                    same
                }) },
                "pp" => { let d = PublicParameters::from_slice(&bytes); mem = crate::peak_since(base); d.map(|p| {
                    let same = p.to_var_bytes() == bytes;
                    if let Some(s) = &slot { ctx.pps.insert(s.clone(), p); }
                    same
                }) },
                _ => Err(Error::NotEnoughBytes),
            };
            match r {
                Ok(same) => format!("OK canonical={} mem={} len={}", same, mem, bytes.len()),
                Err(e) => format!("ERR {} mem={} len={}", err_kind(&e), mem, bytes.len()),
            }
        }
        "compilemem" => {
            // compilemem <keys> <pp> <labelhex> <blob>: compile_with_compressed with peak allocation
            let pp = &ctx.pps[t[2]];
            let label = unhex(t[3]);
            let bytes = ctx.blobs[t[4]].clone();
            let base = crate::peak_reset();
            let r = Compiler::compile_with_compressed(pp, &label, &bytes);
            let mem = crate::peak_since(base);
            match r {
                Ok((p, v)) => {
                    ctx.provers.insert(t[1].into(), p);
                    ctx.verifiers.insert(t[1].into(), v);
                    format!("OK mem={}", mem)
                }
                Err(e) => format!("ERR {} mem={}", err_kind(&e), mem),
            }
        }
        "blobof" => {
            // blobof <name> prover|verifier|proof|pp|compressed <slot>: store an honest encoding as a blob
            let b = match t[2] {
                "prover" => ctx.provers[t[3]].to_bytes(),
                "verifier" => ctx.verifiers[t[3]].to_bytes(),
                "proof" => ctx.proofs[t[3]].0.to_bytes().to_vec(),
                "pp" => ctx.pps[t[3]].to_var_bytes(),
                _ => ctx.blobs[&format!("{}.compressed", t[3])].clone(),
            };
            let n = b.len();
            ctx.blobs.insert(t[1].into(), b);
            format!("OK {}", n)
        }
        "proverbytes" => format!("OK {}", hex(&ctx.provers[t[1]].to_bytes())),
        "verifierbytes" => format!("OK {}", hex(&ctx.verifiers[t[1]].to_bytes())),
        "digest" => {
            // digest prover|verifier <keys> : short fingerprint instead of the bytes
            let b = if t[1] == "prover" { ctx.provers[t[2]].to_bytes() } else { ctx.verifiers[t[2]].to_bytes() };
            format!("OK {} {}", b.len(), fnv(&b))
        }
        "proverfrom" => {
            // proverfrom <new> <blob>
            match Prover::try_from_bytes(&ctx.blobs[t[2]][..]) {
                Ok(p) => {
                    ctx.provers.insert(t[1].into(), p);
                    "OK".into()
                }
                Err(e) => format!("ERR {}", err_kind(&e)),
            }
        }
        "verifierfrom" => match Verifier::try_from_bytes(&ctx.blobs[t[2]][..]) {
            Ok(v) => {
                ctx.verifiers.insert(t[1].into(), v);
                "OK".into()
            }
            Err(e) => format!("ERR {}", err_kind(&e)),
        },
        "roundtrip" => {
            // roundtrip <new> <keys> : both prover and verifier through bytes
            let pb = ctx.provers[t[2]].to_bytes();
            let vb = ctx.verifiers[t[2]].to_bytes();
            match (Prover::try_from_bytes(&pb[..]), Verifier::try_from_bytes(&vb[..])) {
                (Ok(p), Ok(v)) => {
                    let same = p.to_bytes() == pb && v.to_bytes() == vb;
                    ctx.provers.insert(t[1].into(), p);
                    ctx.verifiers.insert(t[1].into(), v);
                    format!("OK same={}", same)
                }
                (Err(e), _) => format!("ERR prover {}", err_kind(&e)),
                (_, Err(e)) => format!("ERR verifier {}", err_kind(&e)),
            }
        }
        "snapshot" => {
            // snapshot <circuit> : composer snapshot of a circuit (for the model)
            let c = ctx.circuits[t[1]].clone();
            let mut composer = Composer::initialized();
            match c.circuit(&mut composer) {
                Ok(()) => {
                    let mut s = String::new();
                    composer_script::snap_to(&composer, &mut s);
                    format!("OK\n{}ENDSNAP", s)
                }
                Err(e) => format!("ERR {}", err_kind(&e)),
            }
        }
        _ => format!("ERR unknown command {}", id),
    }
}

fn fnv(b: &[u8]) -> String {
    let mut h: u64 = 0xcbf29ce484222325;
    let mut h2: u64 = 0x9e3779b97f4a7c15;
    for x in b {
        h = (h ^ (*x as u64)).wrapping_mul(0x100000001b3);
        h2 = h2.rotate_left(5) ^ (*x as u64).wrapping_mul(0xff51afd7ed558ccd);
    }
    format!("{:016x}{:016x}", h, h2)
}

pub fn run(text: &str) {
    let mut ctx = Ctx {
        pps: HashMap::new(),
        circuits: HashMap::new(),
        provers: HashMap::new(),
        verifiers: HashMap::new(),
        proofs: HashMap::new(),
        blobs: HashMap::new(),
        threads: 0,
    };
    let mut lines = text.lines();
    while let Some(line) = lines.next() {
        let t: Vec<&str> = line.split_whitespace().collect();
        if t.is_empty() || t[0] == "#" {
            continue;
        }
        if t[0] == "circuit" {
            let mut body = Vec::new();
            for l in lines.by_ref() {
                if l.trim() == "endcircuit" {
                    break;
                }
                body.push(l.to_string());
            }
            ctx.circuits.insert(t[1].into(), ScriptCircuit { lines: body });
            continue;
        }
        // "<id> <command> args..."
        let id = t[0];
        let r = catch_unwind(AssertUnwindSafe(|| step(&mut ctx, id, &t[1..])));
        match r {
            Ok(s) => println!("P {} {}", id, s),
            Err(e) => println!("P {} PANIC {}", id, panic_msg(e)),
        }
    }
}
