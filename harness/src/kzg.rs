//! C20: KZG wrappers. Group elements are addressed through their discrete
//! logarithms w.r.t. the SRS generator, so that the model (which knows the
//! scripted SRS secret) can decide every check at the exponent level.
use dusk_bls12_381::{G1Affine, G1Projective, G2Projective};
use dusk_bytes::Serializable;
use dusk_plonk::prelude::*;
use dusk_plonk::verif;

use crate::protocol::ScriptRng;
use crate::util::*;

fn scalars(t: &[&str]) -> Vec<BlsScalar> {
    t.iter().map(|s| fr_of_hex(s)).collect()
}

pub fn run(text: &str) {
    let mut pp: Option<PublicParameters> = None;
    let mut kzg: Option<verif::Kzg> = None;
    let mut g = G1Affine::generator();
    for line in text.lines() {
        let t: Vec<&str> = line.split_whitespace().collect();
        if t.len() < 2 || t[0] != "Z" {
            continue;
        }
        let name = t[1];
        let r = std::panic::catch_unwind(std::panic::AssertUnwindSafe(|| -> String {
            match t[2] {
                "setup" => {
                    // setup <degree> <xdraw hex64bytes>
                    let mut draw = [0u8; 64];
                    let v = (0..t[4].len() / 2)
                        .map(|i| u8::from_str_radix(&t[4][2 * i..2 * i + 2], 16).unwrap())
                        .collect::<Vec<u8>>();
                    draw[..v.len()].copy_from_slice(&v);
                    let mut rng = ScriptRng::new(77, vec![draw]);
                    match PublicParameters::setup(t[3].parse().unwrap(), &mut rng) {
                        Ok(p) => {
                            let (powers, g0, h, x_h) = verif::pp_points(&p);
                            g = g0;
                            // consistency of the powers with x (given as a scalar)
                            let x = fr_of_hex(t[5]);
                            let mut acc = G1Projective::from(g0);
                            let mut ok = true;
                            for pw in powers.iter() {
                                if G1Affine::from(acc) != *pw {
                                    ok = false;
                                }
                                acc *= x;
                            }
                            let g2ok = dusk_bls12_381::G2Affine::from(G2Projective::from(h) * x) == x_h;
                            let n = powers.len();
                            pp = Some(p);
                            format!("OK powers={} consistent={} g2={}", n, ok, g2ok)
                        }
                        Err(e) => format!("ERR {:?}", e),
                    }
                }
                "trim" => match verif::kzg_trim(pp.as_ref().unwrap(), t[3].parse().unwrap()) {
                    Ok(k) => {
                        let d = k.key_degree();
                        kzg = Some(k);
                        format!("OK {}", d)
                    }
                    Err(e) => format!("ERR {:?}", e).split(|c: char| !c.is_alphanumeric()).take(2).collect::<Vec<_>>().join(" "),
                },
                "commit" => {
                    // commit <expected exponent> coeffs...
                    let e = fr_of_hex(t[3]);
                    match kzg.as_ref().unwrap().commit(&scalars(&t[4..])) {
                        Ok(c) => {
                            let want = G1Affine::from(G1Projective::from(g) * e);
                            format!("OK match={} id={}", c == want, bool::from(c.is_identity()))
                        }
                        Err(e) => format!("ERR {:?}", e),
                    }
                }
                "batch" => {
                    // batch (point w_exp value c_exp)*
                    let v = scalars(&t[3..]);
                    let items: Vec<_> = v
                        .chunks(4)
                        .map(|c| {
                            (
                                c[0],
                                G1Affine::from(G1Projective::from(g) * c[1]),
                                c[2],
                                G1Affine::from(G1Projective::from(g) * c[3]),
                            )
                        })
                        .collect();
                    match kzg.as_ref().unwrap().batch_check(&items, b"verif-batch") {
                        Ok(()) => "OK".into(),
                        Err(e) => format!("ERR {:?}", e),
                    }
                }
                "mismatch" => {
                    let np: usize = t[3].parse().unwrap();
                    let pts = scalars(&t[4..]);
                    match kzg.as_ref().unwrap().batch_check_mismatched(&pts, np) {
                        Ok(()) => "OK".into(),
                        Err(e) => format!("ERR {:?}", e),
                    }
                }
                "aggw" => {
                    // aggw <point> <v> poly | poly | ...
                    let point = fr_of_hex(t[3]);
                    let v = fr_of_hex(t[4]);
                    let polys: Vec<Vec<BlsScalar>> = t[5..]
                        .split(|x| *x == "|")
                        .map(|p| scalars(p))
                        .collect();
                    let r = verif::aggregate_witness(&polys, point, v);
                    let mut r = r;
                    while r.last().map(|x| *x == BlsScalar::zero()).unwrap_or(false) {
                        r.pop();
                    }
                    format!("OK {}", r.iter().map(hex_of_fr).collect::<Vec<_>>().join(" "))
                }
                "flatten" => {
                    // flatten <v> (eval c_exp)* ; prints eval and whether commitment = g * expected (last arg)
                    let v = fr_of_hex(t[3]);
                    let want = fr_of_hex(t[4]);
                    let xs = scalars(&t[5..]);
                    let parts: Vec<_> = xs
                        .chunks(2)
                        .map(|c| (c[0], G1Affine::from(G1Projective::from(g) * c[1])))
                        .collect();
                    let (e, c) = verif::flatten(g, &parts, v);
                    format!(
                        "OK {} match={}",
                        hex_of_fr(&e),
                        c == G1Affine::from(G1Projective::from(g) * want)
                    )
                }
                _ => "ERR unknown".into(),
            }
        }));
        match r {
            Ok(s) => println!("Z {} {}", name, s),
            Err(e) => println!("Z {} PANIC {}", name, panic_msg(e)),
        }
    }
    let _ = <BlsScalar as Serializable<32>>::SIZE;
}
