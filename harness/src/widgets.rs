//! L1 tie: widget formulas (prover quotient / prover linearisation / verifier
//! linearisation) evaluated on given tuples.
use dusk_plonk::prelude::*;
use dusk_plonk::verif;

use crate::util::*;

pub fn run(text: &str) {
    for line in text.lines() {
        let t: Vec<&str> = line.split_whitespace().collect();
        if t.is_empty() || t[0] != "T" {
            continue;
        }
        let v: Vec<BlsScalar> = t[2..].iter().map(|s| fr_of_hex(s)).collect();
        let mut sel = [BlsScalar::zero(); 11];
        sel.copy_from_slice(&v[0..11]);
        let mut ch = [BlsScalar::zero(); 4];
        ch.copy_from_slice(&v[11..15]);
        let mut w = [BlsScalar::zero(); 4];
        w.copy_from_slice(&v[15..19]);
        let mut wn = [BlsScalar::zero(); 3];
        wn.copy_from_slice(&v[19..22]);
        let r = verif::widget_terms(sel, ch, w, wn);
        let mut out = Vec::new();
        for wdg in r.iter() {
            for x in wdg.iter() {
                out.push(hex_of_fr(x));
            }
        }
        println!("T {} {}", t[1], out.join(" "));
    }
}
