use dusk_plonk::prelude::*;

pub fn fr_of_hex(s: &str) -> BlsScalar {
    // 64 hex chars, big-endian, canonical
    let mut bytes = [0u8; 32];
    let padded = format!("{:0>64}", s);
    let s = padded.as_bytes();
    assert!(s.len() == 64, "scalar must be at most 64 hex chars");
    for i in 0..32 {
        let hi = (s[2 * i] as char).to_digit(16).expect("hex") as u8;
        let lo = (s[2 * i + 1] as char).to_digit(16).expect("hex") as u8;
        bytes[31 - i] = (hi << 4) | lo;
    }
    Option::<BlsScalar>::from(BlsScalar::from_bytes(&bytes))
        .expect("canonical scalar")
}

pub fn hex_of_fr(x: &BlsScalar) -> String {
    let b = x.to_bytes();
    let mut s = String::with_capacity(64);
    for i in (0..32).rev() {
        s.push_str(&format!("{:02x}", b[i]));
    }
    let t = s.trim_start_matches('0');
    if t.is_empty() { "0".to_string() } else { t.to_string() }
}

pub fn panic_msg(e: Box<dyn std::any::Any + Send>) -> String {
    if let Some(s) = e.downcast_ref::<&str>() {
        s.to_string()
    } else if let Some(s) = e.downcast_ref::<String>() {
        s.clone()
    } else {
        "?".to_string()
    }
}
