//! Correspondence harness: runs line-oriented scripts against dusk-plonk built
//! from /repo's working tree (with `--cfg plonk_verif`) and prints canonical
//! text that is diffed against the extracted Gallina model.

mod composer_script;
mod dispatch;
mod kernels;
mod merlin_script;
mod kzg;
mod protocol;
mod util;
mod widgets;

/// Counting allocator: current and peak live bytes (C15/C17 allocation bounds).
pub struct Counting;
pub static LIVE: std::sync::atomic::AtomicUsize = std::sync::atomic::AtomicUsize::new(0);
pub static PEAK: std::sync::atomic::AtomicUsize = std::sync::atomic::AtomicUsize::new(0);
unsafe impl std::alloc::GlobalAlloc for Counting {
    unsafe fn alloc(&self, l: std::alloc::Layout) -> *mut u8 {
        use std::sync::atomic::Ordering::Relaxed;
        let p = unsafe { std::alloc::System.alloc(l) };
        if !p.is_null() {
            let live = LIVE.fetch_add(l.size(), Relaxed) + l.size();
            PEAK.fetch_max(live, Relaxed);
        }
        p
    }
    unsafe fn dealloc(&self, p: *mut u8, l: std::alloc::Layout) {
        LIVE.fetch_sub(l.size(), std::sync::atomic::Ordering::Relaxed);
        unsafe { std::alloc::System.dealloc(p, l) }
    }
}
#[global_allocator]
static GLOBAL: Counting = Counting;

pub fn peak_reset() -> usize {
    use std::sync::atomic::Ordering::Relaxed;
    let live = LIVE.load(Relaxed);
    PEAK.store(live, Relaxed);
    live
}
pub fn peak_since(base: usize) -> usize {
    PEAK.load(std::sync::atomic::Ordering::Relaxed).saturating_sub(base)
}

fn main() {
    let args: Vec<String> = std::env::args().collect();
    if args.len() < 3 {
        eprintln!("usage: plonk-harness <mode> <script>");
        std::process::exit(2);
    }
    // silence the default panic message; panics are reported per op
    std::panic::set_hook(Box::new(|_| {}));
    let text = std::fs::read_to_string(&args[2]).expect("read script");
    match args[1].as_str() {
        "composer" => composer_script::run(&text),
        "widgets" => widgets::run(&text),
        "kernels" => kernels::run(&text),
        "kzg" => kzg::run(&text),
        "merlin" => merlin_script::run(&text),
        "protocol" => protocol::run(&text),
        m => {
            eprintln!("unknown mode {m}");
            std::process::exit(2);
        }
    }
}
