//! Correspondence harness: runs line-oriented scripts against dusk-plonk built
//! from /repo's working tree (with `--cfg plonk_verif`) and prints canonical
//! text that is diffed against the extracted Gallina model.

mod composer_script;
mod dispatch;
mod kernels;
mod kzg;
mod protocol;
mod util;
mod widgets;

fn main() {
    let args: Vec<String> = std::env::args().collect();
    if args.len() < 3 {
        eprintln!("usage: plonk-harness <mode> <script>");
        std::process::exit(2);
    }
    // silence the default panic message; panics are reported per op
    std::panic::set_hook(Box::new(|_| {}));
    let text = std::fs::read_to_string(&args[2]).expect("read script");
    match args[1].as_str() {
        "composer" => composer_script::run(&text),
        "widgets" => widgets::run(&text),
        "kernels" => kernels::run(&text),
        "kzg" => kzg::run(&text),
        "protocol" => protocol::run(&text),
        m => {
            eprintln!("unknown mode {m}");
            std::process::exit(2);
        }
    }
}
