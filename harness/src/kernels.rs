//! C19/C20 kernels through the verif wrappers.
use dusk_plonk::prelude::*;
use dusk_plonk::verif;

use crate::util::*;

fn scalars(t: &[&str]) -> Vec<BlsScalar> {
    t.iter().map(|s| fr_of_hex(s)).collect()
}

fn out(name: &str, v: &[BlsScalar]) {
    let s: Vec<String> = v.iter().map(hex_of_fr).collect();
    println!("K {} {}", name, s.join(" "));
}

fn trim(mut v: Vec<BlsScalar>) -> Vec<BlsScalar> {
    while v.last().map(|x| *x == BlsScalar::zero()).unwrap_or(false) {
        v.pop();
    }
    v
}

pub fn run(text: &str) {
    for line in text.lines() {
        let t: Vec<&str> = line.split_whitespace().collect();
        if t.len() < 3 || t[0] != "K" {
            continue;
        }
        let name = t[1];
        let r = std::panic::catch_unwind(|| match t[2] {
            "fft" => {
                let kind: u8 = t[3].parse().unwrap();
                let n: usize = t[4].parse().unwrap();
                let threads: usize = t[5].parse().unwrap();
                let v = scalars(&t[6..]);
                let pool = rayon::ThreadPoolBuilder::new()
                    .num_threads(threads)
                    .build()
                    .unwrap();
                match pool.install(|| verif::fft(n, &v, kind)) {
                    Some(r) => out(name, &r),
                    None => println!("K {} ERR", name),
                }
            }
            "poly" => {
                let op: u8 = t[3].parse().unwrap();
                let s = fr_of_hex(t[4]);
                let rest = &t[5..];
                let bar = rest.iter().position(|x| *x == "|").unwrap();
                let a = scalars(&rest[..bar]);
                let b = scalars(&rest[bar + 1..]);
                let r = verif::poly_op(op, &a, &b, s);
                if op == 7 { out(name, &r) } else { out(name, &trim(r)) }
            }
            "binv" => out(name, &verif::batch_inversion(&scalars(&t[3..]))),
            "lagr" => {
                let n: usize = t[3].parse().unwrap();
                match verif::lagrange_all(n, fr_of_hex(t[4])) {
                    Some(r) => out(name, &r),
                    None => println!("K {} ERR", name),
                }
            }
            "vanish" => {
                let n: usize = t[3].parse().unwrap();
                match verif::vanishing_eval(n, fr_of_hex(t[4])) {
                    Some(r) => out(name, &[r]),
                    None => println!("K {} ERR", name),
                }
            }
            "vcos" => {
                let n: usize = t[3].parse().unwrap();
                let d: u64 = t[4].parse().unwrap();
                match verif::vanishing_over_coset(n, d) {
                    Some(r) => out(name, &r),
                    None => println!("K {} ERR", name),
                }
            }
            "mvan" => {
                let n: usize = t[3].parse().unwrap();
                let d: u64 = t[4].parse().unwrap();
                match verif::matches_vanishing_over_coset(n, d, &scalars(&t[5..])) {
                    Some(r) => println!("K {} {}", name, r),
                    None => println!("K {} ERR", name),
                }
            }
            "mlin" => {
                let n: usize = t[3].parse().unwrap();
                match verif::matches_linear_over_coset(n, &scalars(&t[4..])) {
                    Some(r) => println!("K {} {}", name, r),
                    None => println!("K {} ERR", name),
                }
            }
            "elems" => {
                let n: usize = t[3].parse().unwrap();
                match verif::domain_elements(n) {
                    Some(r) => out(name, &r),
                    None => println!("K {} ERR", name),
                }
            }
            "interp" => {
                let n: usize = t[3].parse().unwrap();
                match verif::interpolate(n, &scalars(&t[4..])) {
                    Some(r) => out(name, &trim(r)),
                    None => println!("K {} ERR", name),
                }
            }
            "pows" => {
                let d: usize = t[4].parse().unwrap();
                out(name, &verif::powers_of(fr_of_hex(t[3]), d))
            }
            "bary" => {
                let n: usize = t[3].parse().unwrap();
                let p = fr_of_hex(t[4]);
                match verif::barycentric_eval(n, &scalars(&t[5..]), p) {
                    Some(r) => out(name, &[r]),
                    None => println!("K {} ERR", name),
                }
            }
            "dom" => {
                let n: usize = t[3].parse().unwrap();
                match verif::domain_params(n) {
                    Some((size, g, inv)) => {
                        println!("K {} {} {} {}", name, size, hex_of_fr(&g), hex_of_fr(&inv))
                    }
                    None => println!("K {} ERR", name),
                }
            }
            _ => println!("K {} UNKNOWN", name),
        });
        if let Err(e) = r {
            println!("K {} PANIC {}", name, panic_msg(e));
        }
    }
}
