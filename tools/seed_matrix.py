#!/usr/bin/env python3
"""Detection matrix: run selected checks of a SCRATCH COPY of /verif against a scratch worktree of /repo
with each validated seed applied. Nothing here touches /repo or the registered evidence."""
import json, os, subprocess, sys, shutil, re
ROOT = "/tmp/m"; V = ROOT + "/verif"; RP = ROOT + "/repo"
PLAN = {"C01": ["C01", "C05", "C15"], "C02": ["C02", "C03", "C09"], "C03": ["C03", "C02", "C04"], "C04": ["C04", "C03"], "C05": ["C05", "C01", "C02"],
        "C06": ["C06"], "C07": ["C07", "C12"], "C08": ["C08", "C07"], "C09": ["C09", "C02", "C03"], "C10": ["C10", "C11"], "C11": ["C11", "C10"],
        "C11b": ["C11", "C07"], "C12": ["C12", "C13"], "C13": ["C13", "C14"], "C14": ["C14", "C03"], "C15": ["C15", "C01"], "C16": ["C16", "C01"],
        "C17": ["C17", "C16"], "C18": ["C18", "C19"], "C19": ["C19", "C18"], "C20": ["C20", "C01"]}
def sh(c, cwd=None, env=None):
    return subprocess.run(c, shell=True, cwd=cwd, env=env, stdout=subprocess.PIPE, stderr=subprocess.STDOUT, text=True)
def setup():
    os.makedirs(ROOT, exist_ok=True)
    sh(f"git -C /repo worktree remove --force {RP}"); shutil.rmtree(RP, ignore_errors=True)
    sh(f"git -C /repo worktree add --detach {RP} HEAD")
    shutil.rmtree(V, ignore_errors=True)
    sh(f"rsync -a --exclude replays --exclude work /verif/ {V}/")
    os.makedirs(V + "/work", exist_ok=True); os.makedirs(V + "/replays", exist_ok=True)
    for f in ("harness/Cargo.toml",):
        t = open(f"{V}/{f}").read().replace('path = "/repo"', f'path = "{RP}"'); open(f"{V}/{f}", "w").write(t)
def main(seeds):
    setup()
    env = dict(os.environ, VERIF_REPO=RP, CARGO_NET_OFFLINE="true")
    out = {}
    for sid in seeds:
        d = f"/verif/seeded/{sid}" if os.path.exists(f"/verif/seeded/{sid}/patch.diff") else f"/verif/seeded/_pending/{sid}"
        r = sh(f"git apply {d}/patch.diff", cwd=RP)
        if r.returncode != 0: out[sid] = {"error": "patch does not apply"}; continue
        res = {}
        for chk in PLAN[sid]:
            p = sh(f"./check {chk} --tier quick", cwd=V, env=env)
            v = [l for l in p.stdout.splitlines() if l.startswith("VIOLATION")]
            expl = [p.stdout.splitlines()[i + 1].strip()[:220] for i, l in enumerate(p.stdout.splitlines()) if l.startswith("VIOLATION") and i + 1 < len(p.stdout.splitlines())]
            res[chk] = {"exit": p.returncode, "violations": len(v), "concrete": any("no-failing-input-found" not in l for l in v), "first": expl[0] if expl else ""}
            print(sid, chk, res[chk], flush=True)
        out[sid] = res
        sh("git checkout -- .", cwd=RP)
        json.dump(out, open("/verif/seeded/matrix.json", "w"), indent=1)
    sh(f"git -C /repo worktree remove --force {RP}"); shutil.rmtree(ROOT, ignore_errors=True)
if __name__ == "__main__":
    main(sys.argv[1:] or list(PLAN))
