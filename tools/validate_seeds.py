#!/usr/bin/env python3
"""Validate sub-agent seeds in scratch worktrees: (a) demo passes on the pinned tree, (b) demo fails with
the patch, (c) the existing suite still passes with the patch.  Writes /verif/seeded/_pending/<id>/validation.json."""
import json, os, subprocess, sys, shutil, time
P = os.environ.get("SEED_DIR", "/verif/seeded/_pending")
INCRATE = {"C09": ("seed_demo.rs", "src/composer/tests/soundness/seed_demo.rs", "seed_demo"),
           "C10": ("seed_demo.rs", "src/composer/tests/soundness/seed_demo.rs", "seed_demo"),
           "C14": ("seed_c14.rs", "src/composer/tests/soundness/seed_c14.rs", "seed_c14"),
           "C20": ("seed_demo.rs", "src/commitment_scheme/kzg10/seed_demo.rs", "seed_demo"),
           "C12r2": ("seed_demo.rs", "src/composer/tests/seed_demo.rs", "seed_demo"),
           "C02r3": ("seed_demo.rs", "src/seed_demo.rs", "seed_demo"),
           "C19r4": ("seed_demo.rs", "src/seed_demo.rs", "seed_demo"),
           "C10r5": ("seed_demo.rs", "src/composer/seed_demo.rs", "seed_demo"),
           "C12r7": ("seed_demo.rs", "src/composer/tests/seed_demo.rs", "seed_demo"),
           "C20r11": ("seed_demo.rs", "src/seed_demo.rs", "seed_demo"),
           "C11r10": ("seed_demo.rs", "src/composer/tests/soundness/seed_demo.rs", "seed_demo"),
           "C13r9": ("seed_demo.rs", "src/composer/tests/soundness/seed_demo.rs", "seed_demo"),
           "C19r9": ("seed_demo.rs", "src/seed_demo.rs", "seed_demo"),
           "C14r7": ("seed_demo.rs", "src/composer/tests/soundness/seed_demo.rs", "seed_demo"),
           "C19r7": ("seed_demo.rs", "src/seed_demo.rs", "seed_demo"),
           "C09r6": ("seed_demo.rs", "src/composer/tests/soundness/seed_demo.rs", "seed_demo"),
           "C02r4": ("seed_demo.rs", "src/seed_demo.rs", "seed_demo"),
           "C14r4": ("seed_demo.rs", "src/composer/seed_demo.rs", "seed_demo_c14"),
           "C20r4": ("seed_demo.rs", "src/commitment_scheme/kzg10/seed_demo.rs", "seed_demo"),
           "C19r3": ("seed_demo.rs", "src/fft/seed_demo.rs", "seed_demo"),
           "C11r3": ("seed_demo.rs", "src/composer/tests/soundness/seed_demo.rs", "seed_demo"),
           "C09r2": ("seed_demo.rs", "src/composer/tests/soundness/seed_demo.rs", "seed2_c09"),
           "C10r2": ("seed_demo.rs", "src/composer/tests/soundness/seed_demo.rs", "seed_c10"),
           "C20r2": ("seed_demo.rs", "src/commitment_scheme/kzg10/seed_demo.rs", "seed_demo")}
RELEASE = {"C06r9", "C02r6", "C02r3", "C04r3", "C06r3", "C08r3", "C11r3", "C01r3", "C07r3", "C18r3", "C19r3", "C09r2", "C10r2", "C14r2", "C15r2", "C17r2", "C03r2", "C05r2", "C12r2", "C13r2", "C16r2", "C20r2", "C04", "C05", "C06", "C10", "C11", "C11b", "C12", "C13", "C15", "C16", "C18", "C19"}
THREADS = {"C18": 2, "C19": 1}
DEMO_OVERRIDE = {"C18r7": "cargo test --release --offline --no-default-features --features alloc --test seed_demo -- --test-threads 4"}

def sh(cmd, cwd, env, log):
    t = time.time()
    p = subprocess.run(cmd, shell=True, cwd=cwd, env=env, stdout=subprocess.PIPE, stderr=subprocess.STDOUT, text=True)
    open(log, "a").write(f"$ {cmd}\n{p.stdout[-6000:]}\n[exit {p.returncode}, {time.time()-t:.0f}s]\n")
    return p.returncode, p.stdout

def one(sid, lane):
    d = os.path.join(P, sid); wt = f"/tmp/swt_{sid}"; tgt = f"/tmp/seedtgt_{lane}"
    log = os.path.join(d, "validation.log"); open(log, "w").close()
    env = dict(os.environ, CARGO_TARGET_DIR=tgt, CARGO_NET_OFFLINE="true", CARGO_BUILD_JOBS="5")
    subprocess.run(f"git -C /repo worktree remove --force {wt}", shell=True, capture_output=True)
    shutil.rmtree(wt, ignore_errors=True)
    subprocess.run(f"git -C /repo worktree add --detach {wt} HEAD", shell=True, check=True, capture_output=True)
    res = {"seed": sid}
    try:
        rel = "--release " if sid in RELEASE else ""
        thr = f" -- --test-threads {THREADS.get(sid, 4)}"
        if sid in INCRATE:
            src, dst, flt = INCRATE[sid]
            shutil.copy(os.path.join(d, src), os.path.join(wt, dst))
            rc, out = sh(f"git apply {d}/demo.diff", wt, env, log)
            if rc != 0: # demo.diff may already contain the file
                os.remove(os.path.join(wt, dst)); rc, out = sh(f"git apply {d}/demo.diff", wt, env, log)
            demo = f"cargo test --offline {rel}--lib {flt}{thr}"
        else:
            shutil.copy(os.path.join(d, "seed_demo.rs"), os.path.join(wt, "tests/seed_demo.rs"))
            demo = f"cargo test --offline {rel}--test seed_demo{thr}"
            if sid in DEMO_OVERRIDE: demo = DEMO_OVERRIDE[sid]
        rc, out = sh(demo, wt, env, log); res["demo_without_patch"] = "pass" if rc == 0 else "FAIL"
        rc, out = sh(f"git apply {d}/patch.diff", wt, env, log); res["patch_applies"] = rc == 0
        rc, out = sh(demo, wt, env, log); res["demo_with_patch"] = "fail" if rc != 0 else "PASS"
        res["demo_cmd"] = demo
        # existing suite with the patch, demo removed
        if sid in INCRATE:
            sh(f"git apply -R {d}/demo.diff", wt, env, log)
            dst = os.path.join(wt, INCRATE[sid][1])
            if os.path.exists(dst): os.remove(dst)
        else:
            os.remove(os.path.join(wt, "tests/seed_demo.rs"))
        suite = "cargo nextest run --workspace --no-fail-fast --offline --test-threads 5"
        rc, out = sh(suite, wt, env, log)
        import re
        m = re.search(r"(\d+) tests run: (\d+) passed", out)
        res["suite_with_patch"] = f"{m.group(2)}/{m.group(1)} passed" if m else f"exit {rc}"
        res["suite_ok"] = bool(m and m.group(1) == m.group(2) and rc == 0)
        res["suite_cmd"] = suite
    finally:
        subprocess.run(f"git -C /repo worktree remove --force {wt}", shell=True, capture_output=True)
        shutil.rmtree(wt, ignore_errors=True)
    res["confirmed"] = res.get("demo_without_patch") == "pass" and res.get("demo_with_patch") == "fail" and res.get("suite_ok", False)
    json.dump(res, open(os.path.join(d, "validation.json"), "w"), indent=1)
    print(json.dumps(res), flush=True)

if __name__ == "__main__":
    lane = sys.argv[1]
    for sid in sys.argv[2:]:
        try: one(sid, lane)
        except Exception as ex: print(sid, "ERROR", ex, flush=True)
    shutil.rmtree(f"/tmp/seedtgt_{lane}", ignore_errors=True)
