(* Extraction of the executable model to OCaml (zarith-backed Z). *)
From Coq Require Import ZArith List.
From Coq Require Import ExtrOcamlBasic ExtrOcamlZBigInt.
From PlonkV Require Import Base.Fr Gates.Gate Gates.CS Composer.State Composer.Components Alg.Poly Alg.FFT Protocol.Kzg Protocol.Capacity Protocol.Keccak Protocol.G1 Protocol.RefVerifier Protocol.Blinding Curve.Jubjub Composer.PointComponents Composer.PointFacts Composer.FixedFacts.
Extraction Language OCaml.
Extraction "model.ml"
  r of_Z val fadd fsub fmul fopp finv feqb
  mkGate mkWires row_okb row_sum t_arith t_range t_logic t_fixed t_var
  satb first_bad block_satb npo2 pis rows
  mkC c_new mkCS initialized cs_empty wval
  append_witness append_custom_gate append_gate append_evaluated_output
  gate_add assert_equal assert_equal_constant append_constant append_public
  component_boolean component_decomposition component_select
  component_select_one component_select_zero
  range_check component_range_bits component_range
  component_truncate append_logic_and append_logic_xor
  peval padd psub pmul pscale ptrim ruffini dft resize distribute_powers powers
  fft ifft coset_fft coset_ifft domain_log domain_size domain_gen size_inv
  parallel_butterfly butterfly_range coset_gen vanishing_eval vanishing_over_coset lagrange_all interp_eval batch_inversion fpow_nat
  commit commit_guard mkOpening batch_all batch_check_u aggregate_witness flatten srs_powers
  direct_route_ok compressed_route_ok max_constraints
  transcript_new append_message append_u64 challenge_bytes keccak_f_bytes
  ed_add ed_neg ed_mul on_curveb torsion_freeb subgroupb prime_orderb wnaf2 honest_q classify_ext
  append_point_ext append_public_point_ext append_constant_point_ext assert_equal_point assert_equal_public_point_ext
  component_add_point component_sub_point component_neg_point component_mul_point component_select_identity component_select_point
  assert_torsion_free_point assert_torsion_free_gates component_mul_generator_ext append_fixed_base_signed_digits
  fb_block doublings canonical_blk torsion_rows var_rows
  ref_discrepancy ref_verify g1_decompress g1_mul g1_add g1_eqb g1_compress g1_lin wire_opening.
