(* Polynomials as coefficient lists (index i = coefficient of X^i), as in
   src/fft/polynomial.rs, with the schoolbook definitions the kernels are
   compared against. *)
From Coq Require Import ZArith List Bool Arith Lia.
From PlonkV Require Import Base.Fr.
Import ListNotations.
Local Open Scope fr_scope.

Definition poly := list Fr.

(* Horner evaluation *)
Fixpoint peval (p : poly) (x : Fr) : Fr :=
  match p with
  | [] => 0
  | c :: tl => c + x * peval tl x
  end.

Fixpoint padd (p q : poly) : poly :=
  match p, q with
  | [], _ => q
  | _, [] => p
  | a :: p', b :: q' => (a + b) :: padd p' q'
  end.

Definition pscale (s : Fr) (p : poly) : poly := map (fmul s) p.
Definition pneg (p : poly) : poly := map fopp p.
Definition psub (p q : poly) : poly := padd p (pneg q).

(* schoolbook product *)
Fixpoint pmul (p q : poly) : poly :=
  match p with
  | [] => []
  | a :: p' => padd (pscale a q) (0 :: pmul p' q)
  end.

(* trailing zeros removed (Polynomial::from_coefficients_vec truncates) *)
Fixpoint ptrim_rev (l : list Fr) : list Fr :=
  match l with
  | [] => []
  | c :: tl => if feqb c 0 then ptrim_rev tl else l
  end.
Definition ptrim (p : poly) : poly := rev (ptrim_rev (rev p)).

(* quotient of the division by (X - z), by the low-end recursion
   p = c0 + X p'  ==>  quot p = p'(z) :: quot p'
   (Polynomial::ruffini computes the same coefficients by Horner from the top;
   results are compared after trimming trailing zeros) *)
Fixpoint ruffini (p : poly) (z : Fr) : poly :=
  match p with
  | [] => []
  | _ :: p' => peval p' z :: ruffini p' z
  end.

Fixpoint fpow_nat (x : Fr) (n : nat) : Fr :=
  match n with O => 1 | S n' => x * fpow_nat x n' end.

(* powers 1, x, x^2, ..., x^(n-1) *)
Fixpoint powers_from (x acc : Fr) (n : nat) : list Fr :=
  match n with O => [] | S n' => acc :: powers_from x (acc * x) n' end.
Definition powers (x : Fr) (n : nat) : list Fr := powers_from x 1 n.

(* distribute_powers: c_i * g^i *)
Definition distribute_powers (p : poly) (g : Fr) : poly :=
  map (fun '(c, w) => c * w) (combine p (powers g (length p))).

(* resize to n: truncate or zero-pad *)
Definition resize (n : nat) (p : poly) : poly := firstn n p ++ repeat 0 (n - length p).

(* naive DFT on the powers of w *)
Definition dft (w : Fr) (n : nat) (p : poly) : list Fr := map (peval p) (powers w n).
