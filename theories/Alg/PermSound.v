(* Converse of the grand-product identity, with explicit counting (the deterministic core of the
   Schwartz-Zippel step of the permutation argument): if the product of numerators equals the
   product of denominators for more than N^2 values of beta and, for each, more than N values of
   gamma (N = number of wire positions), then every copy constraint holds.  Hence for violated copy
   constraints the grand product can close for at most N^2 values of beta (for all but N gammas). *)
From Coq Require Import ZArith List Bool Arith Lia Ring Field Permutation.
From PlonkV Require Import Base.Fr Base.FrFacts Alg.Poly Alg.PolyFacts Alg.FFTFacts Alg.RootBound Alg.Divisibility Alg.PermArg.
Import ListNotations.
Local Open Scope fr_scope.

Section PermSound.
Context {PR : PrimeR}.
Add Field FrFieldPS : fr_field_theory.

(* ---- products of linear factors as polynomials ---- *)
Fixpoint lin_prod (rs : list Fr) : poly :=
  match rs with [] => [1] | r :: tl => pmul [r; 1] (lin_prod tl) end.

Definition lin_val (rs : list Fr) (x : Fr) : Fr := fprod (map (fun r => x + r) rs).

Lemma lin_prod_eval rs x : peval (lin_prod rs) x = lin_val rs x.
Proof.
  unfold lin_val. induction rs as [|r tl IH]; cbn [lin_prod map fprod fold_right]; [cbn; ring|].
  rewrite peval_pmul, IH. cbn [peval]. unfold fprod. ring.
Qed.

Lemma pscale_length s p : length (pscale s p) = length p.
Proof. unfold pscale. apply map_length. Qed.

Lemma lin_prod_length rs : length (lin_prod rs) = S (length rs).
Proof.
  induction rs as [|r tl IH]; [reflexivity|].
  cbn [lin_prod pmul length]. rewrite !padd_length. cbn [length]. rewrite !pscale_length, padd_length, pscale_length.
  cbn [length]. rewrite IH. lia.
Qed.

Lemma pneg_length p : length (pneg p) = length p.
Proof. unfold pneg. apply map_length. Qed.

(* agreement on m+1 points => agreement everywhere *)
Lemma agree_on_many r s pts : length r = length s -> NoDup pts -> length pts = S (length r) ->
  (forall x, In x pts -> lin_val r x = lin_val s x) -> forall x, lin_val r x = lin_val s x.
Proof.
  intros L ND Lp H x.
  set (D := psub (lin_prod r) (lin_prod s)).
  assert (Z : all_zero D).
  { apply (roots_all_zero (S (length r)) D pts); [|exact ND|exact Lp|].
    - unfold D, psub. rewrite padd_length, pneg_length, !lin_prod_length. lia.
    - intros z Hz. unfold D. rewrite peval_psub, !lin_prod_eval, (H z Hz). ring. }
  pose proof (all_zero_peval D x Z) as E. unfold D in E. rewrite peval_psub, !lin_prod_eval in E.
  transitivity (lin_val r x - lin_val s x + lin_val s x); [ring|rewrite E; ring].
Qed.

Lemma fprod_zero_in l : fprod l = 0 -> exists x, In x l /\ x = 0.
Proof.
  induction l as [|a l IH]; cbn [fprod fold_right]; intros H.
  - exfalso. exact (fone_neq_fzero H).
  - apply fmul_integral in H. destruct H as [H|H]; [exists a; split; [left; reflexivity|exact H]|].
    destruct (IH H) as [x [I E]]. exists x. split; [right; exact I|exact E].
Qed.

Lemma fprod_app' l l' : fprod (l ++ l') = fprod l * fprod l'.
Proof. unfold fprod. induction l as [|x l IH]; cbn [app fold_right]; [ring|]. rewrite IH. ring. Qed.

Lemma lin_val_app a b x : lin_val (a ++ b) x = lin_val a x * lin_val b x.
Proof. unfold lin_val. rewrite map_app. apply fprod_app'. Qed.

Lemma lin_val_cons r tl x : lin_val (r :: tl) x = (x + r) * lin_val tl x.
Proof. reflexivity. Qed.

Lemma firstn_In_ps {A} (x : A) : forall n l, In x (firstn n l) -> In x l.
Proof. induction n as [|n IH]; intros [|a l] H; cbn [firstn] in H; try contradiction. destruct H as [H|H]; [left; exact H|right; apply IH; exact H]. Qed.

Lemma NoDup_firstn_ps {A} : forall n (l : list A), NoDup l -> NoDup (firstn n l).
Proof.
  induction n as [|n IH]; intros [|a l] H; cbn [firstn]; try constructor.
  - inversion H as [|? ? Hn Hd]; subst. intros I. apply Hn. eapply firstn_In_ps. exact I.
  - inversion H; subst. apply IH. assumption.
Qed.

Lemma filter_id_ps {A} (f : A -> bool) l : (forall y, In y l -> f y = true) -> filter f l = l.
Proof.
  induction l as [|a l IH]; intros H; [reflexivity|]. cbn [filter]. rewrite (H a (or_introl eq_refl)).
  f_equal. apply IH. intros y Hy. apply H. right. exact Hy.
Qed.

(* enough distinct field elements *)
Definition supply (m : nat) : list Fr := map (fun i => F (Z.of_nat i)) (seq 0 m).

Lemma supply_nodup m : (Z.of_nat m <= r)%Z -> NoDup (supply m).
Proof.
  intros Hm. unfold supply. apply nodup_map_inj; [|apply seq_NoDup].
  intros i j Hi Hj E. apply in_seq in Hi, Hj.
  assert (V : val (F (Z.of_nat i)) = val (F (Z.of_nat j))) by (rewrite E; reflexivity).
  unfold F in V. rewrite !val_of_Z, !Z.mod_small in V by lia. lia.
Qed.

Lemma supply_length m : length (supply m) = m.
Proof. unfold supply. rewrite map_length, seq_length. reflexivity. Qed.

Lemma filter_neq_length (a : Fr) l : NoDup l ->
  (length l <= S (length (filter (fun x => negb (feqb x a)) l)))%nat.
Proof.
  induction 1 as [|x l Hx ND IH]; cbn [filter length]; [lia|].
  destruct (feqb_spec x a) as [E|NE]; cbn [negb length].
  - subst x. rewrite filter_id_ps; [lia|].
    intros y Hy. destruct (feqb_spec y a) as [E|_]; [subst; contradiction|reflexivity].
  - lia.
Qed.

(* equal products of linear factors everywhere => the root lists are permutations of each other *)
Lemma roots_perm : forall n rs ss, length rs = n -> length ss = n -> (Z.of_nat (S n) <= r)%Z ->
  (forall x, lin_val rs x = lin_val ss x) -> Permutation rs ss.
Proof.
  induction n as [|n IH]; intros rs ss Lr Ls Hn H.
  - destruct rs, ss; try discriminate. constructor.
  - destruct rs as [|r0 rs']; [discriminate|]. injection Lr as Lr.
    (* r0 is a root of the right-hand side *)
    pose proof (H (- r0)) as H0. rewrite lin_val_cons in H0.
    assert (Z : lin_val ss (- r0) = 0) by (rewrite <- H0; ring).
    apply fprod_zero_in in Z. destruct Z as [v [Iv Ev]]. apply in_map_iff in Iv.
    destruct Iv as [sj [Esj Isj]].
    assert (sj = r0) by (transitivity (- r0 + sj + r0); [ring|rewrite Esj, Ev; ring]). subst sj.
    destruct (in_split _ _ Isj) as [s1 [s2 ->]].
    rewrite app_length in Ls. cbn [length] in Ls.
    assert (Ls' : length (s1 ++ s2) = n) by (rewrite app_length; lia).
    assert (Hx : forall x, x <> - r0 -> lin_val rs' x = lin_val (s1 ++ s2) x).
    { intros x Nx. pose proof (H x) as E. rewrite lin_val_cons, lin_val_app, lin_val_cons in E.
      rewrite lin_val_app.
      assert (N0 : x + r0 <> 0) by (intros Z; apply Nx; transitivity (x + r0 - r0); [ring|rewrite Z; ring]).
      transitivity ((x + r0) * lin_val rs' x * finv (x + r0)); [field; exact N0|].
      rewrite E. field. exact N0. }
    (* enough points different from -r0 *)
    set (U := filter (fun x => negb (feqb x (- r0))) (supply (S (S n)))).
    assert (NU : NoDup U) by (apply NoDup_filter, supply_nodup; exact Hn).
    assert (LU : (S n <= length U)%nat).
    { pose proof (filter_neq_length (- r0) (supply (S (S n))) (supply_nodup _ Hn)) as F.
      rewrite supply_length in F. fold U in F. lia. }
    assert (All : forall x, lin_val rs' x = lin_val (s1 ++ s2) x).
    { apply (agree_on_many rs' (s1 ++ s2) (firstn (S n) U)).
      - lia.
      - apply NoDup_firstn_ps. exact NU.
      - rewrite firstn_length. lia.
      - intros x Ix. apply Hx. apply firstn_In_ps in Ix. unfold U in Ix. apply filter_In in Ix.
        destruct Ix as [_ Fx]. destruct (feqb_spec x (- r0)); [discriminate|assumption]. }
    eapply Permutation_trans; [apply perm_skip; apply (IH rs' (s1 ++ s2) Lr Ls' ltac:(lia) All)|].
    apply Permutation_middle.
Qed.

Lemma pigeon (l l' : list Fr) : NoDup l -> (length l' < length l)%nat -> exists x, In x l /\ ~ In x l'.
Proof.
  intros ND L.
  destruct (find (fun x => negb (existsb (feqb x) l')) l) as [x|] eqn:Fd.
  - apply find_some in Fd. destruct Fd as [I Hx]. exists x. split; [exact I|].
    intros I'. apply negb_true_iff in Hx. assert (T : existsb (feqb x) l' = true).
    { apply existsb_exists. exists x. split; [exact I'|]. destruct (feqb_spec x x); [reflexivity|congruence]. }
    congruence.
  - exfalso. assert (Inc : incl l l').
    { intros x I. pose proof (find_none _ _ Fd x I) as Hx. apply negb_false_iff in Hx.
      apply existsb_exists in Hx. destruct Hx as [y [Iy E]]. destruct (feqb_spec x y); [subst; exact Iy|discriminate]. }
    pose proof (NoDup_incl_length ND Inc). lia.
Qed.

Lemma nodup_map_injective {A B} (f : A -> B) : forall l, NoDup (map f l) ->
  forall a b, In a l -> In b l -> f a = f b -> a = b.
Proof.
  induction l as [|x l IH]; intros ND a b Ia Ib E; [contradiction|].
  cbn [map] in ND. inversion ND as [|? ? Hn Hd]; subst.
  destruct Ia as [->|Ia], Ib as [->|Ib].
  - reflexivity.
  - exfalso. apply Hn. rewrite E. apply in_map. exact Ib.
  - exfalso. apply Hn. rewrite <- E. apply in_map. exact Ia.
  - apply IH; assumption.
Qed.

Section Copy.
Variable pos : Type.
Variable ps : list pos.
Variable sigma : pos -> pos.
Variable ident : pos -> Fr.
Variable wv : pos -> Fr.

Hypothesis ps_nodup : NoDup ps.
Hypothesis sigma_perm : Permutation (map sigma ps) ps.
Hypothesis ident_inj : forall p q, In p ps -> In q ps -> ident p = ident q -> p = q.

Let N := length ps.

(* the values of beta for which two different (value, label) pairs collide *)
Definition bad_betas : list Fr :=
  flat_map (fun p => map (fun q => (wv q - wv p) * finv (ident p - ident (sigma q))) ps) ps.

Lemma bad_betas_length : length bad_betas = (N * N)%nat.
Proof.
  unfold bad_betas, N.
  assert (G : forall (g : pos -> pos -> Fr) (l l' : list pos), length (flat_map (fun p => map (g p) l') l) = (length l * length l')%nat).
  { intros g l l'. induction l as [|a l IH]; [reflexivity|].
    cbn [flat_map length]. rewrite app_length, map_length, IH. cbn [Nat.mul]. reflexivity. }
  apply (G (fun p q => (wv q - wv p) * finv (ident p - ident (sigma q)))).
Qed.

Lemma sigma_in p : In p ps -> In (sigma p) ps.
Proof. intros I. eapply Permutation_in; [exact sigma_perm|]. apply in_map. exact I. Qed.

Lemma sigma_injective a b : In a ps -> In b ps -> sigma a = sigma b -> a = b.
Proof.
  apply nodup_map_injective. eapply Permutation_NoDup; [apply Permutation_sym; exact sigma_perm|exact ps_nodup].
Qed.

Lemma products_as_lin_val beta gamma :
  fprod (map (numerator pos ident wv beta gamma) ps) = lin_val (map (fun p => wv p + beta * ident p) ps) gamma /\
  fprod (map (denominator pos sigma ident wv beta gamma) ps) = lin_val (map (fun p => wv p + beta * ident (sigma p)) ps) gamma.
Proof.
  unfold lin_val. rewrite !map_map. split; f_equal; apply map_ext; intros p; unfold numerator, denominator; ring.
Qed.

Theorem closing_forces_copies (Bs Gs : list Fr) :
  (Z.of_nat (S N) <= r)%Z ->
  NoDup Bs -> (N * N < length Bs)%nat ->
  NoDup Gs -> (N < length Gs)%nat ->
  (forall beta gamma, In beta Bs -> In gamma Gs ->
     fprod (map (numerator pos ident wv beta gamma) ps) = fprod (map (denominator pos sigma ident wv beta gamma) ps)) ->
  forall p, In p ps -> wv (sigma p) = wv p.
Proof.
  intros Hsize NB LB NG LG Hclose.
  destruct (pigeon Bs bad_betas NB ltac:(rewrite bad_betas_length; exact LB)) as [beta [IB Ngood]].
  set (A := map (fun p => wv p + beta * ident p) ps).
  set (B := map (fun p => wv p + beta * ident (sigma p)) ps).
  assert (LA : length A = N) by (unfold A; apply map_length).
  assert (LBb : length B = N) by (unfold B; apply map_length).
  assert (All : forall x, lin_val A x = lin_val B x).
  { apply (agree_on_many A B (firstn (S N) Gs)).
    - lia.
    - apply NoDup_firstn_ps. exact NG.
    - rewrite firstn_length, LA. lia.
    - intros x Ix. apply firstn_In_ps in Ix. destruct (products_as_lin_val beta x) as [E1 E2].
      unfold A, B. rewrite <- E1, <- E2. apply Hclose; assumption. }
  pose proof (roots_perm N A B LA LBb Hsize All) as P.
  intros q Iq.
  set (p := sigma q). assert (Ip : In p ps) by (apply sigma_in; exact Iq).
  assert (IA : In (wv p + beta * ident p) A) by (unfold A; apply in_map_iff; exists p; split; [reflexivity|exact Ip]).
  apply (Permutation_in _ P) in IA. unfold B in IA. apply in_map_iff in IA. destruct IA as [q' [E Iq']].
  (* beta is not the collision value of (p, q') *)
  assert (Eid : ident p = ident (sigma q')).
  { destruct (feqb_spec (ident p) (ident (sigma q'))) as [Y|Nid]; [exact Y|exfalso].
    apply Ngood. unfold bad_betas. apply in_flat_map. exists p. split; [exact Ip|].
    apply in_map_iff. exists q'. split; [|exact Iq'].
    assert (Dn : ident p - ident (sigma q') <> 0) by (intros Z; apply Nid; transitivity (ident p - ident (sigma q') + ident (sigma q')); [ring|rewrite Z; ring]).
    transitivity ((beta * (ident p - ident (sigma q'))) * finv (ident p - ident (sigma q'))); [|field; exact Dn].
    f_equal. transitivity ((wv q' + beta * ident (sigma q')) - beta * ident (sigma q') - wv p); [ring|]. rewrite E. ring. }
  assert (Ew : wv q' = wv p).
  { transitivity ((wv q' + beta * ident (sigma q')) - beta * ident (sigma q')); [ring|]. rewrite E, Eid. ring. }
  assert (Epq : p = sigma q') by (apply ident_inj; [exact Ip|apply sigma_in; exact Iq'|exact Eid]).
  assert (q = q') by (apply sigma_injective; [exact Iq|exact Iq'|exact Epq]). subst q'.
  fold p. symmetry. exact Ew.
Qed.
End Copy.
End PermSound.
Print Assumptions closing_forces_copies.
