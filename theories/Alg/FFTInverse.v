(* C19: the inverse transform undoes the forward transform.
   Decimation-in-frequency view of the recursive FFT: no double sums. *)
From Coq Require Import ZArith List Bool Arith Lia Ring Field.
From PlonkV Require Import Base.Fr Base.FrFacts Alg.Poly Alg.FFT Alg.PolyFacts Alg.FFTFacts.
Import ListNotations.
Local Open Scope fr_scope.

Section Inverse.
Context {PR : PrimeR}.
Add Field FrFieldInv : fr_field_theory.

(* ---- even / odd entries of a tabulated function ---- *)
Lemma evens_map_seq (f : nat -> Fr) : forall m s,
  evens (map f (seq s (2 * m))) = map (fun t => f (s + 2 * t)%nat) (seq 0 m).
Proof.
  induction m as [|m IH]; intros s; [reflexivity|].
  replace (2 * S m)%nat with (S (S (2 * m))) by lia. cbn [seq map]. rewrite evens_cons2, IH.
  f_equal; [f_equal; lia|]. rewrite <- seq_shift, map_map. apply map_ext. intros t. f_equal. lia.
Qed.

Lemma odds_map_seq (f : nat -> Fr) : forall m s,
  odds (map f (seq s (2 * m))) = map (fun t => f (s + 2 * t + 1)%nat) (seq 0 m).
Proof.
  induction m as [|m IH]; intros s; [reflexivity|].
  replace (2 * S m)%nat with (S (S (2 * m))) by lia. cbn [seq map]. rewrite odds_cons2, IH.
  f_equal; [f_equal; lia|]. rewrite <- seq_shift, map_map. apply map_ext. intros t. f_equal. lia.
Qed.

Lemma fpow_nat_sq w t : fpow_nat (w * w) t = fpow_nat w (2 * t).
Proof. rewrite fpow_nat_mul_base, <- fpow_nat_add. f_equal. lia. Qed.

Lemma fpow_pow_one w a t : fpow_nat w a = 1 -> fpow_nat w (a * t) = 1.
Proof. intros H. rewrite fpow_nat_mul, H. apply fpow_nat_one. Qed.

(* ---- the DFT of a ++ b, split by parity of the index ---- *)
Lemma dft_evens w m lo hi : length lo = m -> length hi = m -> fpow_nat w (2 * m) = 1 ->
  evens (dft w (2 * m) (lo ++ hi)) = dft (w * w) m (padd lo hi).
Proof.
  intros Hlo Hhi Hw. unfold dft. rewrite !powers_spec, !map_map, evens_map_seq.
  apply map_ext. intros t. cbn [Nat.add].
  rewrite peval_app, peval_padd, Hlo, fpow_nat_sq.
  replace (fpow_nat (fpow_nat w (2 * t)) m) with 1; [ring|].
  rewrite <- fpow_nat_mul. replace (2 * t * m)%nat with (2 * m * t)%nat by lia.
  symmetry. apply fpow_pow_one. exact Hw.
Qed.

Lemma dft_odds w m lo hi : length lo = m -> length hi = m -> fpow_nat w m = - (1) ->
  odds (dft w (2 * m) (lo ++ hi)) = dft (w * w) m (distribute_powers (psub lo hi) w).
Proof.
  intros Hlo Hhi Hw. unfold dft. rewrite !powers_spec, !map_map, odds_map_seq.
  apply map_ext. intros t. cbn [Nat.add].
  rewrite peval_distribute, peval_psub, peval_app, Hlo, fpow_nat_sq.
  replace (w * fpow_nat w (2 * t)) with (fpow_nat w (2 * t + 1))
    by (rewrite fpow_nat_add; cbn [fpow_nat]; ring).
  replace (fpow_nat (fpow_nat w (2 * t + 1)) m) with (- (1)); [ring|].
  rewrite <- fpow_nat_mul. replace ((2 * t + 1) * m)%nat with (m * (2 * t) + m)%nat by lia.
  rewrite fpow_nat_add, fpow_nat_mul, Hw.
  assert (E : fpow_nat (- (1)) (2 * t) = 1).
  { rewrite <- fpow_nat_sq. replace (- (1) * - (1)) with 1 by ring. apply fpow_nat_one. }
  rewrite E. ring.
Qed.

(* ---- element-wise access ---- *)
Lemma nth_map_lt {A} (g : A -> Fr) l i d d' : (i < length l)%nat -> nth i (map g l) d = g (nth i l d').
Proof. intros H. rewrite (nth_indep _ d (g d')) by (rewrite map_length; exact H). apply map_nth. Qed.

Lemma nth_zip (g : Fr -> Fr -> Fr) l1 l2 i :
  (i < length l1)%nat -> length l1 = length l2 ->
  nth i (map (fun '(x, y) => g x y) (combine l1 l2)) 0 = g (nth i l1 0) (nth i l2 0).
Proof.
  intros H E. rewrite (nth_map_lt (fun '(x, y) => g x y) (combine l1 l2) i 0 (0, 0)) by (rewrite combine_length; lia).
  rewrite combine_nth by exact E. reflexivity.
Qed.

Lemma nth_powers x m i : (i < m)%nat -> nth i (powers x m) 0 = fpow_nat x i.
Proof.
  intros H. rewrite powers_spec, (nth_map_lt (fpow_nat x) (seq 0 m) i 0 O) by (rewrite seq_length; exact H).
  rewrite seq_nth by exact H. reflexivity.
Qed.

Lemma nth_padd : forall p q i, length p = length q -> nth i (padd p q) 0 = nth i p 0 + nth i q 0.
Proof.
  induction p as [|a p IH]; intros [|b q] i H; cbn [length] in H; try lia.
  - destruct i; cbn; ring.
  - destruct i; cbn [padd nth]; [reflexivity|]. apply IH. lia.
Qed.

Lemma nth_pneg q i : nth i (pneg q) 0 = - nth i q 0.
Proof.
  unfold pneg. destruct (Nat.lt_ge_cases i (length q)) as [H|H].
  - apply nth_map_lt. exact H.
  - rewrite !nth_overflow by (rewrite ?map_length; exact H). ring.
Qed.

Lemma nth_distribute p g i : (i < length p)%nat -> nth i (distribute_powers p g) 0 = nth i p 0 * fpow_nat g i.
Proof.
  intros H. unfold distribute_powers. rewrite (nth_zip fmul) by (rewrite ?powers_length; auto).
  rewrite nth_powers by exact H. reflexivity.
Qed.

Lemma F_pow2_S k : F (2 ^ Z.of_nat (S k)) = (1 + 1) * F (2 ^ Z.of_nat k).
Proof.
  rewrite Nat2Z.inj_succ, Z.pow_succ_r by lia. unfold F. rewrite of_Z_mul.
  replace (of_Z 2) with (1 + 1); [reflexivity|]. apply fr_eq. vm_compute. reflexivity.
Qed.

(* ---- the inverse ---- *)
Theorem fft_rec_inverse : forall k w a,
  length a = Nat.pow 2 k -> w <> 0 ->
  ((0 < k)%nat -> fpow_nat w (Nat.pow 2 (k - 1)) = - (1)) ->
  fft_rec k (finv w) (fft_rec k w a) = map (fmul (F (2 ^ Z.of_nat k))) a.
Proof.
  induction k as [|k IH]; intros w a Hlen Hw0 Hw.
  - cbn [fft_rec]. change (Z.of_nat 0) with 0%Z. rewrite Z.pow_0_r.
    rewrite <- (map_id a) at 1. apply map_ext. intros x. unfold F. change (of_Z 1) with fone. ring.
  - set (m := Nat.pow 2 k).
    assert (Hm : Nat.pow 2 (S k) = (2 * m)%nat) by (cbn [Nat.pow]; unfold m; lia).
    assert (Hw1 : fpow_nat w m = - (1)).
    { specialize (Hw ltac:(lia)). replace (S k - 1)%nat with k in Hw by lia. exact Hw. }
    assert (Hw2m : fpow_nat w (2 * m) = 1).
    { replace (2 * m)%nat with (m + m)%nat by lia. rewrite fpow_nat_add, Hw1. ring. }
    assert (Hsq : (0 < k)%nat -> fpow_nat (w * w) (Nat.pow 2 (k - 1)) = - (1)).
    { intros Hj. rewrite fpow_nat_sq. replace (2 * Nat.pow 2 (k - 1))%nat with m; [exact Hw1|].
      unfold m. destruct k; [lia|]. cbn [Nat.pow]. replace (S k - 1)%nat with k by lia. lia. }
    assert (Hww : w * w <> 0) by (intros E; apply fmul_integral in E; destruct E; contradiction).
    assert (Hinv : finv w * finv w = finv (w * w)) by (field; auto).
    (* split the input *)
    set (lo := firstn m a). set (hi := skipn m a).
    assert (Ea : a = lo ++ hi) by (unfold lo, hi; symmetry; apply firstn_skipn).
    assert (Llo : length lo = m) by (unfold lo; rewrite firstn_length, Hlen, Hm; lia).
    assert (Lhi : length hi = m) by (unfold hi; rewrite skipn_length, Hlen, Hm; lia).
    rewrite (fft_rec_is_dft (S k) w a Hlen Hw). rewrite Hm, Ea.
    cbn [fft_rec]. rewrite Hinv.
    rewrite (dft_evens w m lo hi Llo Lhi Hw2m), (dft_odds w m lo hi Llo Lhi Hw1).
    assert (Lp : length (padd lo hi) = m) by (rewrite padd_length, Llo, Lhi; lia).
    assert (Ls : length (psub lo hi) = m).
    { unfold psub. rewrite padd_length. unfold pneg. rewrite map_length, Llo, Lhi. lia. }
    assert (Ld : length (distribute_powers (psub lo hi) w) = m).
    { unfold distribute_powers. rewrite map_length, combine_length, powers_length, Ls. lia. }
    assert (D1 : dft (w * w) m (padd lo hi) = fft_rec k (w * w) (padd lo hi))
      by (symmetry; apply fft_rec_is_dft; assumption).
    assert (D2 : dft (w * w) m (distribute_powers (psub lo hi) w) = fft_rec k (w * w) (distribute_powers (psub lo hi) w))
      by (symmetry; apply fft_rec_is_dft; assumption).
    rewrite D1, D2.
    rewrite (IH (w * w) (padd lo hi) Lp Hww Hsq).
    rewrite (IH (w * w) (distribute_powers (psub lo hi) w) Ld Hww Hsq).
    set (c := F (2 ^ Z.of_nat k)).
    rewrite map_length, Ld. rewrite map_app.
    set (e := map (fmul c) (padd lo hi)).
    set (o := map (fmul c) (distribute_powers (psub lo hi) w)).
    set (t := map (fun '(x, wk) => x * wk) (combine o (powers (finv w) m))).
    assert (Le : length e = m) by (unfold e; rewrite map_length; exact Lp).
    assert (Lo : length o = m) by (unfold o; rewrite map_length; exact Ld).
    assert (Lt : length t = m) by (unfold t; rewrite map_length, combine_length, powers_length, Lo; lia).
    assert (Winv : forall i, fpow_nat w i * fpow_nat (finv w) i = 1).
    { intros i. rewrite <- fpow_nat_mul_base. replace (w * finv w) with 1 by (field; auto). apply fpow_nat_one. }
    assert (Et : forall i, (i < m)%nat -> nth i t 0 = c * (nth i lo 0 - nth i hi 0)).
    { intros i Hi. unfold t. rewrite (nth_zip fmul) by (rewrite ?powers_length; lia).
      rewrite nth_powers by exact Hi. unfold o. rewrite (nth_map_lt (fmul c) _ i 0 0) by lia.
      rewrite nth_distribute by lia. unfold psub. rewrite nth_padd by (unfold pneg; rewrite map_length; lia).
      rewrite nth_pneg.
      transitivity (c * (nth i lo 0 + - nth i hi 0) * (fpow_nat w i * fpow_nat (finv w) i)); [ring|rewrite Winv; ring]. }
    assert (Ee : forall i, (i < m)%nat -> nth i e 0 = c * (nth i lo 0 + nth i hi 0)).
    { intros i Hi. unfold e. rewrite (nth_map_lt (fmul c) _ i 0 0) by lia. rewrite nth_padd by lia. reflexivity. }
    f_equal.
    + apply (nth_ext _ _ 0 0); [rewrite !map_length, combine_length; lia|].
      intros i Hi. rewrite map_length, combine_length, Le, Lt in Hi.
      rewrite (nth_zip fadd) by lia. rewrite Ee, Et by lia.
      rewrite (nth_map_lt (fmul (F (2 ^ Z.of_nat (S k)))) lo i 0 0) by lia. rewrite F_pow2_S. fold c. ring.
    + apply (nth_ext _ _ 0 0); [rewrite !map_length, combine_length; lia|].
      intros i Hi. rewrite map_length, combine_length, Le, Lt in Hi.
      rewrite (nth_zip fsub) by lia. rewrite Ee, Et by lia.
      rewrite (nth_map_lt (fmul (F (2 ^ Z.of_nat (S k)))) hi i 0 0) by lia. rewrite F_pow2_S. fold c. ring.
Qed.
End Inverse.

Section DomainInverse.
Context {PR : PrimeR}.
Add Field FrFieldInv2 : fr_field_theory.

Lemma fft_rec_length k w a :
  length a = Nat.pow 2 k -> ((0 < k)%nat -> fpow_nat w (Nat.pow 2 (k - 1)) = - (1)) ->
  length (fft_rec k w a) = Nat.pow 2 k.
Proof. intros H Hw. rewrite fft_rec_is_dft by assumption. unfold dft. now rewrite map_length, powers_length. Qed.

Lemma resize_id n p : length p = n -> resize n p = p.
Proof. intros H. unfold resize. rewrite H, Nat.sub_diag, firstn_all2 by lia. cbn. apply app_nil_r. Qed.

Lemma F_pow2_nonzero k : (k <= 32)%nat -> F (2 ^ Z.of_nat k) <> 0.
Proof.
  intros Hk E. assert (Hv : val (F (2 ^ Z.of_nat k)) = 0%Z) by (rewrite E; reflexivity).
  unfold F in Hv. rewrite val_of_Z in Hv.
  assert (B : (0 < 2 ^ Z.of_nat k <= 2 ^ 32)%Z).
  { split; [apply Z.pow_pos_nonneg; lia|apply Z.pow_le_mono_r; lia]. }
  pose proof r_bound_lo as Rl. assert (2 ^ 32 < 2 ^ 254)%Z by reflexivity.
  rewrite Z.mod_small in Hv by lia. lia.
Qed.

Lemma size_inv_spec k : (k <= 32)%nat -> size_inv k * F (2 ^ Z.of_nat k) = 1.
Proof. intros Hk. unfold size_inv. field. apply F_pow2_nonzero. exact Hk. Qed.

Lemma scale_unscale k l : (k <= 32)%nat ->
  map (fmul (size_inv k)) (map (fmul (F (2 ^ Z.of_nat k))) l) = l.
Proof.
  intros Hk. rewrite map_map. rewrite <- (map_id l) at 2. apply map_ext. intros x.
  transitivity (size_inv k * F (2 ^ Z.of_nat k) * x); [ring|rewrite size_inv_spec by exact Hk; ring].
Qed.

(* interpolation after evaluation returns the (folded) coefficients *)
Theorem ifft_fft num_coeffs p :
  (domain_log num_coeffs <= 32)%nat ->
  let k := domain_log num_coeffs in
  ifft num_coeffs (fft num_coeffs p) = fold_mod (Nat.pow 2 k) p.
Proof.
  intros Hk k. unfold ifft, fft. fold k.
  set (q := fold_mod (Nat.pow 2 k) p).
  assert (Lq : length q = Nat.pow 2 k) by (unfold q, fold_mod; apply resize_length).
  assert (Hg : (0 < k)%nat -> fpow_nat (domain_gen k) (Nat.pow 2 (k - 1)) = - (1))
    by (intros; apply domain_gen_half; lia).
  rewrite resize_id by (apply fft_rec_length; assumption).
  rewrite fft_rec_inverse; [|exact Lq|apply domain_gen_nonzero; exact Hk|exact Hg].
  apply scale_unscale. exact Hk.
Qed.

Lemma fft_rec_scale k w s a :
  length a = Nat.pow 2 k -> ((0 < k)%nat -> fpow_nat w (Nat.pow 2 (k - 1)) = - (1)) ->
  fft_rec k w (map (fmul s) a) = map (fmul s) (fft_rec k w a).
Proof.
  intros H Hw. rewrite !fft_rec_is_dft by (rewrite ?map_length; assumption).
  unfold dft. rewrite map_map. apply map_ext. intros x. apply (peval_pscale s a x).
Qed.

Lemma fold_mod_id n p : (0 < n)%nat -> length p = n -> fold_mod n p = p.
Proof.
  intros Hn H. unfold fold_mod. destruct p as [|c p']; [cbn in H; lia|].
  cbn [length chunks]. rewrite <- H. rewrite firstn_all, skipn_all.
  destruct (length p'); cbn [chunks fold_right]; rewrite ?chunks_nil; cbn [fold_right];
    (replace (padd (c :: p') []) with (c :: p') by (destruct p'; reflexivity)); apply resize_id; reflexivity.
Qed.

(* evaluation after interpolation returns the (resized) evaluations *)
Theorem fft_ifft num_coeffs ev :
  (domain_log num_coeffs <= 32)%nat ->
  let k := domain_log num_coeffs in
  fft num_coeffs (ifft num_coeffs ev) = resize (Nat.pow 2 k) ev.
Proof.
  intros Hk k. unfold ifft, fft. fold k.
  set (y := resize (Nat.pow 2 k) ev).
  assert (Ly : length y = Nat.pow 2 k) by (unfold y; apply resize_length).
  set (gi := finv (domain_gen k)).
  assert (Hgi : (0 < k)%nat -> fpow_nat gi (Nat.pow 2 (k - 1)) = - (1))
    by (intros; apply domain_gen_inv_half; lia).
  assert (Hg : (0 < k)%nat -> fpow_nat (domain_gen k) (Nat.pow 2 (k - 1)) = - (1))
    by (intros; apply domain_gen_half; lia).
  assert (G0 : domain_gen k <> 0) by (apply domain_gen_nonzero; exact Hk).
  assert (Lx : length (fft_rec k gi y) = Nat.pow 2 k) by (apply fft_rec_length; assumption).
  assert (P : (0 < Nat.pow 2 k)%nat) by (apply Nat.neq_0_lt_0, Nat.pow_nonzero; lia).
  rewrite fold_mod_id by (rewrite ?map_length; assumption).
  rewrite fft_rec_scale by assumption.
  assert (Gi0 : gi <> 0).
  { intros E. assert (I : domain_gen k * gi = 1) by (apply finv_spec; exact G0). rewrite E in I.
    apply fone_neq_fzero. rewrite <- I. ring. }
  assert (Egi : finv gi = domain_gen k).
  { assert (I : domain_gen k * gi = 1) by (apply finv_spec; exact G0).
    transitivity (domain_gen k * (gi * finv gi)); [|rewrite finv_spec by exact Gi0; ring].
    transitivity (domain_gen k * gi * finv gi); [rewrite I; ring|ring]. }
  rewrite <- Egi. rewrite fft_rec_inverse by assumption.
  apply scale_unscale. exact Hk.
Qed.
End DomainInverse.
