(* C19: the radix-2 FFT computes the DFT; thread-split butterflies equal the
   serial butterfly. *)
From Coq Require Import ZArith List Bool Arith Lia Ring Field.
From PlonkV Require Import Base.Fr Base.FrFacts Alg.Poly Alg.PolyFacts Alg.FFT.
Import ListNotations.
Local Open Scope fr_scope.

(* ---- even/odd split of a polynomial ---- *)
Lemma evens_odds_ind (P : list Fr -> Prop) :
  P [] -> (forall a, P [a]) -> (forall a b l, P l -> P (a :: b :: l)) -> forall l, P l.
Proof.
  intros H0 H1 H2. fix IH 1. intros [|a [|b l]]; [exact H0|apply H1|apply H2, IH].
Qed.

Lemma evens_cons2 a b l : evens (a :: b :: l) = a :: evens l. Proof. reflexivity. Qed.
Lemma odds_cons2 a b l : odds (a :: b :: l) = b :: odds l. Proof. destruct l; reflexivity. Qed.

Lemma peval_split a x : peval a x = peval (evens a) (x * x) + x * peval (odds a) (x * x).
Proof.
  induction a as [|c|c d l IH] using evens_odds_ind.
  - cbn [peval evens odds]. ring.
  - cbn [peval evens odds]. ring.
  - rewrite evens_cons2, odds_cons2. cbn [peval]. rewrite IH. ring.
Qed.

Lemma evens_length a : forall n, length a = (2 * n)%nat -> length (evens a) = n /\ length (odds a) = n.
Proof.
  induction a as [|c|c d l IH] using evens_odds_ind; intros n H; cbn [length] in H.
  - assert (n = 0)%nat by lia. subst. split; reflexivity.
  - lia.
  - destruct n as [|n]; [lia|]. destruct (IH n ltac:(lia)) as [E O].
    rewrite evens_cons2, odds_cons2. cbn [length]. split; lia.
Qed.

(* ---- map fusion helpers ---- *)
Lemma map_combine_map {A B C D} (f : B * C -> D) (g : A -> B) (h : A -> C) (l : list A) :
  map f (combine (map g l) (map h l)) = map (fun x => f (g x, h x)) l.
Proof. induction l; cbn; [reflexivity|]. f_equal. exact IHl. Qed.

Lemma map_combine_map_r {A B D} (f : B * A -> D) (g : A -> B) (l : list A) :
  map f (combine (map g l) l) = map (fun x => f (g x, x)) l.
Proof. induction l; cbn; [reflexivity|]. f_equal. exact IHl. Qed.

Lemma powers_sq w n : powers (w * w) n = map (fun x => x * x) (powers w n).
Proof.
  rewrite !powers_spec, map_map. apply map_ext. intros j. rewrite fpow_nat_mul_base. reflexivity.
Qed.

(* ---- the recursive FFT is the DFT ---- *)
Theorem fft_rec_is_dft : forall k w a,
  length a = Nat.pow 2 k ->
  ((0 < k)%nat -> fpow_nat w (Nat.pow 2 (k - 1)) = - (1)) ->
  fft_rec k w a = dft w (Nat.pow 2 k) a.
Proof.
  induction k as [|k IH]; intros w a Hlen Hw.
  - destruct a as [|c [|d l]]; cbn [length Nat.pow] in Hlen; try lia.
    unfold dft, powers. cbn [fft_rec Nat.pow powers_from map peval]. f_equal. ring.
  - cbn [fft_rec]. set (m := Nat.pow 2 k).
    assert (Hm : Nat.pow 2 (S k) = (m + m)%nat) by (cbn [Nat.pow]; unfold m; lia).
    destruct (evens_length a m ltac:(rewrite Hlen, Hm; lia)) as [Le Lo].
    assert (Hw1 : fpow_nat w m = - (1)).
    { specialize (Hw ltac:(lia)). replace (S k - 1)%nat with k in Hw by lia. exact Hw. }
    assert (Hw2 : (0 < k)%nat -> fpow_nat (w * w) (Nat.pow 2 (k - 1)) = - (1)).
    { intros Hj. rewrite fpow_nat_mul_base, <- fpow_nat_add.
      replace (Nat.pow 2 (k - 1) + Nat.pow 2 (k - 1))%nat with m; [exact Hw1|].
      unfold m. destruct k; [lia|]. cbn [Nat.pow]. replace (S k - 1)%nat with k by lia. lia. }
    rewrite (IH (w * w) (evens a) Le Hw2), (IH (w * w) (odds a) Lo Hw2).
    unfold dft. fold m. rewrite map_length, powers_length.
    rewrite Hm, powers_app, map_app. rewrite powers_sq.
    rewrite !map_map.
    (* the twiddled odd part *)
    rewrite (map_combine_map_r (fun '(x, wk) => x * wk) (fun x => peval (odds a) (x * x)) (powers w m)).
    rewrite !(map_combine_map _ (fun x => peval (evens a) (x * x)) (fun x => peval (odds a) (x * x) * x) (powers w m)).
    f_equal.
    + apply map_ext. intros x. rewrite (peval_split a x). ring.
    + apply map_ext. intros x. rewrite (peval_split a (fpow_nat w m * x)).
      rewrite Hw1. replace (- (1) * x * (- (1) * x)) with (x * x) by ring. ring.
Qed.

(* ---- roots of unity of the evaluation domains ---- *)
Lemma sq_iter_pow x : forall n y, y = x -> sq_iter y n = fpow_nat x (Nat.pow 2 n).
Proof.
  intros n. revert x. induction n as [|n IH]; intros x y ->.
  - cbn. ring.
  - cbn [sq_iter]. rewrite (IH (x * x) (x * x) eq_refl).
    rewrite fpow_nat_mul_base, <- fpow_nat_add. f_equal. cbn [Nat.pow]. lia.
Qed.

Lemma root_half : sq_iter root_of_unity 31 = - (1).
Proof. apply fr_eq. vm_compute. reflexivity. Qed.

Lemma domain_gen_half k : (1 <= k <= 32)%nat ->
  fpow_nat (domain_gen k) (Nat.pow 2 (k - 1)) = - (1).
Proof.
  intros Hk. unfold domain_gen. rewrite (sq_iter_pow root_of_unity _ _ eq_refl).
  rewrite <- fpow_nat_mul, <- Nat.pow_add_r.
  replace (32 - k + (k - 1))%nat with 31%nat by lia.
  rewrite <- (sq_iter_pow root_of_unity 31 _ eq_refl). exact root_half.
Qed.

Lemma sq_iter_S x n : sq_iter x (S n) = sq_iter x n * sq_iter x n.
Proof.
  revert x. induction n as [|n IH]; intros x; [reflexivity|].
  change (sq_iter x (S (S n))) with (sq_iter (x * x) (S n)). rewrite IH. reflexivity.
Qed.

Lemma domain_gen_order k : (k <= 32)%nat -> fpow_nat (domain_gen k) (Nat.pow 2 k) = 1.
Proof.
  intros Hk. destruct k as [|k].
  - cbn [Nat.pow fpow_nat]. unfold domain_gen. change (32 - 0)%nat with (S 31).
    rewrite sq_iter_S, root_half. ring.
  - replace (Nat.pow 2 (S k)) with (Nat.pow 2 (S k - 1) + Nat.pow 2 (S k - 1))%nat
      by (replace (S k - 1)%nat with k by lia; rewrite Nat.pow_succ_r'; lia).
    rewrite fpow_nat_add, domain_gen_half by lia. ring.
Qed.

(* ---- folding modulo X^n - 1 ---- *)
Lemma peval_firstn_skipn n p x :
  peval p x = peval (firstn n p) x + fpow_nat x (length (firstn n p)) * peval (skipn n p) x.
Proof. rewrite <- (firstn_skipn n p) at 1. apply peval_app. Qed.

Lemma chunks_peval x n : (0 < n)%nat -> fpow_nat x n = 1 ->
  forall fuel p, (length p <= fuel)%nat ->
  peval (fold_right padd [] (chunks fuel n p)) x = peval p x.
Proof.
  intros Hn Hx. induction fuel as [|f IH]; intros p Hp.
  - destruct p; [reflexivity|cbn in Hp; lia].
  - cbn [chunks]. destruct p as [|c p']; [reflexivity|]. set (p := c :: p') in *.
    cbn [fold_right]. rewrite peval_padd, IH.
    2:{ rewrite skipn_length. unfold p in *. cbn [length] in *. lia. }
    rewrite (peval_firstn_skipn n p x).
    destruct (Nat.le_gt_cases n (length p)) as [Hle|Hgt].
    + rewrite firstn_length_le by exact Hle. rewrite Hx. ring.
    + rewrite (skipn_all2 p) by lia. cbn [peval]. ring.
Qed.

Lemma peval_resize n p x : (length p <= n)%nat -> peval (resize n p) x = peval p x.
Proof.
  intros H. unfold resize. rewrite firstn_all2 by exact H. rewrite peval_app, peval_repeat0. ring.
Qed.

Lemma padd_length p : forall q, length (padd p q) = Nat.max (length p) (length q).
Proof.
  induction p as [|a p IH]; intros q; cbn [padd length]; [reflexivity|].
  destruct q; cbn [length]; [lia|]. rewrite IH. lia.
Qed.

Lemma chunks_fold_length n : forall fuel p,
  (length (fold_right padd [] (chunks fuel n p)) <= n)%nat.
Proof.
  induction fuel as [|f IH]; intros p; cbn [chunks fold_right length]; [lia|].
  destruct p; cbn [fold_right length]; [lia|]. rewrite padd_length.
  pose proof (firstn_le_length n (f0 :: p)). specialize (IH (skipn n (f0 :: p))). lia.
Qed.

Lemma peval_fold_mod n p x : (0 < n)%nat -> fpow_nat x n = 1 -> peval (fold_mod n p) x = peval p x.
Proof.
  intros Hn Hx. unfold fold_mod. rewrite peval_resize by apply chunks_fold_length.
  apply chunks_peval; [exact Hn|exact Hx|lia].
Qed.

Lemma resize_length n p : length (resize n p) = n.
Proof.
  unfold resize. rewrite app_length, repeat_length, firstn_length. lia.
Qed.

(* ---- C19: the forward FFT of ANY coefficient vector is its direct
   evaluation on the subgroup ---- *)
Theorem fft_is_evaluation num_coeffs p :
  (domain_log num_coeffs <= 32)%nat ->
  let k := domain_log num_coeffs in
  fft num_coeffs p = map (peval p) (powers (domain_gen k) (Nat.pow 2 k)).
Proof.
  intros Hk k. unfold fft. fold k.
  rewrite fft_rec_is_dft.
  - unfold dft. apply map_ext_in. intros x Hx.
    apply peval_fold_mod; [apply Nat.neq_0_lt_0, Nat.pow_nonzero; lia|].
    rewrite powers_spec in Hx. apply in_map_iff in Hx. destruct Hx as (j & <- & _).
    rewrite <- fpow_nat_mul, Nat.mul_comm, fpow_nat_mul, domain_gen_order by exact Hk.
    apply fpow_nat_one.
  - unfold fold_mod. apply resize_length.
  - intros Hpos. apply domain_gen_half. lia.
Qed.

(* coset variant: evaluation on g * H *)
Lemma peval_distribute p g x : peval (distribute_powers p g) x = peval p (g * x).
Proof.
  unfold distribute_powers. rewrite powers_spec.
  assert (G : forall q n, peval (map (fun '(c, w) => c * w) (combine q (map (fpow_nat g) (seq n (length q))))) x
                         = fpow_nat g n * peval q (g * x)).
  { induction q as [|c q IH]; intros n; cbn [length seq map combine peval]; [ring|].
    rewrite IH. cbn [fpow_nat]. ring. }
  rewrite G. cbn [fpow_nat]. ring.
Qed.

Theorem coset_fft_is_evaluation num_coeffs p :
  (domain_log num_coeffs <= 32)%nat ->
  let k := domain_log num_coeffs in
  coset_fft num_coeffs p =
    map (fun w => peval p (coset_gen * w)) (powers (domain_gen k) (Nat.pow 2 k)).
Proof.
  intros Hk k. unfold coset_fft. rewrite fft_is_evaluation by exact Hk.
  apply map_ext. intros w. apply peval_distribute.
Qed.

(* ---- thread-split butterflies ---- *)
Lemma butterfly_range_app wm : forall l1 r1 l2 r2 w,
  length l1 = length r1 ->
  butterfly_range (l1 ++ l2) (r1 ++ r2) wm w =
    (fst (butterfly_range l1 r1 wm w) ++ fst (butterfly_range l2 r2 wm (w * fpow_nat wm (length l1))),
     snd (butterfly_range l1 r1 wm w) ++ snd (butterfly_range l2 r2 wm (w * fpow_nat wm (length l1)))).
Proof.
  induction l1 as [|a l1 IH]; intros r1 l2 r2 w Hlen.
  - destruct r1; [|discriminate]. cbn [app length fpow_nat butterfly_range fst snd].
    replace (w * 1) with w by ring. destruct (butterfly_range l2 r2 wm w); reflexivity.
  - destruct r1 as [|b r1]; [discriminate|]. cbn [app butterfly_range length].
    injection Hlen as Hlen. rewrite (IH r1 l2 r2 (w * wm) Hlen).
    destruct (butterfly_range l1 r1 wm (w * wm)) as [x y].
    cbn [fpow_nat fst snd]. replace (w * wm * fpow_nat wm (length l1)) with (w * (wm * fpow_nat wm (length l1))) by ring.
    destruct (butterfly_range l2 r2 wm (w * (wm * fpow_nat wm (length l1)))) as [u v]. reflexivity.
Qed.

Lemma butterfly_range_nil_l r wm w : butterfly_range [] r wm w = ([], []).
Proof. reflexivity. Qed.

Lemma chunks_nil {A} fuel n : @chunks A fuel n [] = [].
Proof. destruct fuel; reflexivity. Qed.

Lemma split_parts_eq wm n : (0 < n)%nat -> forall fuel l r s,
  length l = length r -> (length l <= fuel)%nat ->
  let parts := map (fun '(lr, sd) => butterfly_range (fst lr) (snd lr) wm sd)
                   (combine (combine (chunks fuel n l) (chunks fuel n r))
                            (powers_from (fpow_nat wm n) s (length (chunks fuel n l)))) in
  (concat (map fst parts), concat (map snd parts)) = butterfly_range l r wm s.
Proof.
  intros Hn. induction fuel as [|f IH]; intros l r s Hlen Hf; cbv zeta.
  - destruct l; [|cbn in Hf; lia]. destruct r; [|discriminate]. reflexivity.
  - destruct l as [|a l'].
    + destruct r; [|discriminate]. reflexivity.
    + destruct r as [|b r']; [discriminate|].
      set (l := a :: l') in *. set (r := b :: r') in *.
      change (chunks (S f) n l) with (firstn n l :: chunks f n (skipn n l)).
      change (chunks (S f) n r) with (firstn n r :: chunks f n (skipn n r)).
      cbn [length powers_from combine map concat fst snd].
      specialize (IH (skipn n l) (skipn n r) (s * fpow_nat wm n)).
      rewrite !skipn_length in IH.
      specialize (IH ltac:(lia) ltac:(unfold l in *; cbn [length] in *; lia)). cbv zeta in IH.
      assert (E : butterfly_range l r wm s =
                  butterfly_range (firstn n l ++ skipn n l) (firstn n r ++ skipn n r) wm s)
        by (now rewrite !firstn_skipn).
      rewrite E, butterfly_range_app by (rewrite !firstn_length; lia).
      destruct (Nat.le_gt_cases n (length l)) as [Hle|Hgt].
      * rewrite (firstn_length_le l) by exact Hle.
        rewrite <- IH. cbn [fst snd]. reflexivity.
      * (* the last (short) range: nothing follows *)
        rewrite (skipn_all2 l) by lia. rewrite (skipn_all2 r) by lia.
        rewrite chunks_nil. cbn [length powers_from combine map concat].
        rewrite butterfly_range_nil_l. cbn [fst snd]. reflexivity.
Qed.

(* C18/C19: for every number of worker threads the split butterfly equals the
   serial one *)
Theorem parallel_butterfly_serial threads left right wm :
  (1 <= threads)%nat -> length left = length right ->
  parallel_butterfly threads left right wm = butterfly_range left right wm 1.
Proof.
  intros Ht Hlen. unfold parallel_butterfly.
  destruct left as [|a left'].
  - destruct right; [|discriminate]. reflexivity.
  - set (left := a :: left') in *.
    assert (Hn : (0 < (length left + threads - 1) / threads)%nat).
    { apply Nat.div_str_pos. unfold left. cbn [length]. lia. }
    unfold powers.
    exact (split_parts_eq wm _ Hn (length left) left right 1 Hlen (le_n _)).
Qed.

Section WithPrime.
Context {PR : PrimeR}.

Lemma domain_gen_nonzero k : (k <= 32)%nat -> domain_gen k <> 0.
Proof.
  intros Hk E. pose proof (domain_gen_order k Hk) as H. rewrite E in H.
  assert (Z0 : fpow_nat 0 (Nat.pow 2 k) = 0).
  { assert (P : (0 < Nat.pow 2 k)%nat) by (apply Nat.neq_0_lt_0, Nat.pow_nonzero; lia).
    destruct (Nat.pow 2 k); [lia|]. cbn [fpow_nat]. ring. }
  rewrite Z0 in H. symmetry in H. now apply fone_neq_fzero in H.
Qed.

Lemma domain_gen_inv_half k : (1 <= k <= 32)%nat ->
  fpow_nat (finv (domain_gen k)) (Nat.pow 2 (k - 1)) = - (1).
Proof.
  intros Hk. pose proof (domain_gen_half k Hk) as H.
  assert (I : domain_gen k * finv (domain_gen k) = 1) by (apply finv_spec, domain_gen_nonzero; lia).
  assert (P : fpow_nat (finv (domain_gen k)) (Nat.pow 2 (k - 1)) * fpow_nat (domain_gen k) (Nat.pow 2 (k - 1)) = 1).
  { rewrite <- fpow_nat_mul_base. replace (finv (domain_gen k) * domain_gen k) with 1 by (rewrite <- I; ring).
    apply fpow_nat_one. }
  rewrite H in P.
  transitivity (- (fpow_nat (finv (domain_gen k)) (Nat.pow 2 (k - 1)) * - (1))); [ring|rewrite P; ring].
Qed.

(* the inverse transform is the scaled DFT at the inverse root *)
Theorem ifft_is_scaled_dft num_coeffs ev :
  (domain_log num_coeffs <= 32)%nat ->
  let k := domain_log num_coeffs in
  ifft num_coeffs ev =
    map (fun x => size_inv k * peval (resize (Nat.pow 2 k) ev) x)
        (powers (finv (domain_gen k)) (Nat.pow 2 k)).
Proof.
  intros Hk k. unfold ifft. fold k. rewrite fft_rec_is_dft.
  - unfold dft. rewrite map_map. reflexivity.
  - apply resize_length.
  - intros Hpos. apply domain_gen_inv_half. lia.
Qed.

End WithPrime.
