(* C05 / C01: the prover's degree test.  Division by X^n - 1, divisibility iff
   vanishing on the n-th roots of unity, and the test on the interpolated
   quotient. *)
From Coq Require Import ZArith List Bool Arith Lia Ring Field.
From PlonkV Require Import Base.Fr Base.FrFacts Alg.Poly Alg.PolyFacts Alg.FFT Alg.FFTFacts Alg.RootBound
  Protocol.VerifierFacts.
Import ListNotations.
Local Open Scope fr_scope.

(* N = lo + X^n hi = (X^n - 1) hi + (lo + hi): divide the shorter lo + hi again *)
Fixpoint div_xn1 (fuel n : nat) (p : poly) : poly * poly :=
  match fuel with
  | O => ([], p)
  | S f =>
      if (length p <=? n)%nat then ([], p)
      else let lo := firstn n p in let hi := skipn n p in
           let '(q', r') := div_xn1 f n (padd lo hi) in
           (padd hi q', r')
  end.

Section Div.
Context {PR : PrimeR}.
Add Field FrFieldDiv : fr_field_theory.

Lemma peval_firstn_skipn' n p x : peval p x = peval (firstn n p) x + fpow_nat x (length (firstn n p)) * peval (skipn n p) x.
Proof. rewrite <- (firstn_skipn n p) at 1. apply peval_app. Qed.

Theorem div_xn1_spec : forall fuel n p, (0 < n)%nat -> (length p <= fuel * n + n)%nat ->
  let '(q, r) := div_xn1 fuel n p in
  (forall x, peval p x = (fpow_nat x n - 1) * peval q x + peval r x)
  /\ (length q <= length p - n)%nat /\ (length r <= n)%nat.
Proof.
  induction fuel as [|f IH]; intros n p Hn Hlen.
  - cbn [div_xn1]. repeat split; [intros x; cbn [peval]; ring|cbn; lia|lia].
  - cbn [div_xn1]. destruct (Nat.leb_spec (length p) n) as [Hle|Hgt].
    + repeat split; [intros x; cbn [peval]; ring|cbn; lia|exact Hle].
    + set (lo := firstn n p). set (hi := skipn n p).
      assert (Llo : length lo = n) by (unfold lo; rewrite firstn_length; lia).
      assert (Lhi : length hi = (length p - n)%nat) by (unfold hi; apply skipn_length).
      assert (Lsum : length (padd lo hi) = Nat.max n (length p - n)) by (rewrite padd_length, Llo, Lhi; reflexivity).
      specialize (IH n (padd lo hi) Hn ltac:(rewrite Lsum; cbn [Nat.mul] in Hlen; lia)).
      destruct (div_xn1 f n (padd lo hi)) as [q' r']. destruct IH as (E & Lq & Lr).
      repeat split.
      * intros x. rewrite peval_padd. rewrite (peval_firstn_skipn' n p x). fold lo hi. rewrite Llo.
        specialize (E x). rewrite peval_padd in E.
        transitivity ((fpow_nat x n - 1) * peval hi x + (peval lo x + peval hi x)); [ring|]. rewrite E. ring.
      * rewrite padd_length, Lhi. rewrite Lsum in Lq. lia.
      * exact Lr.
Qed.

(* ---- distinctness of the powers of a primitive 2^k-th root ---- *)
Lemma fpow_m1 d : fpow_nat (- (1)) d = if Nat.even d then 1 else - (1).
Proof.
  induction d as [|d IH]; [reflexivity|]. cbn [fpow_nat]. rewrite IH, Nat.even_succ, <- Nat.negb_even.
  destruct (Nat.even d); cbn [negb]; ring.
Qed.

Lemma m1_neq_1 : - (1) <> 1.
Proof.
  intros E. assert (Hv : val (- (1)) = val 1) by (rewrite E; reflexivity). vm_compute in Hv. discriminate Hv.
Qed.

Lemma primitive_no_small_order : forall k w d,
  (1 <= k)%nat -> fpow_nat w (Nat.pow 2 (k - 1)) = - (1) ->
  (0 < d < Nat.pow 2 k)%nat -> fpow_nat w d <> 1.
Proof.
  induction k as [|k IH]; intros w d Hk Hw Hd E; [lia|].
  replace (S k - 1)%nat with k in Hw by lia.
  destruct (Nat.even d) eqn:He.
  - (* even exponent: descend to w^2 *)
    apply Nat.even_spec in He. destruct He as [m Hm]. subst d.
    destruct k as [|k'].
    + cbn [Nat.pow] in Hd. lia.
    + apply (IH (w * w) m ltac:(lia)).
      * replace (S k' - 1)%nat with k' by lia. rewrite fpow_nat_mul_base, <- fpow_nat_add.
        replace (Nat.pow 2 k' + Nat.pow 2 k')%nat with (Nat.pow 2 (S k')) by (cbn [Nat.pow]; lia). exact Hw.
      * cbn [Nat.pow] in Hd |- *. lia.
      * rewrite fpow_nat_mul_base, <- fpow_nat_add. replace (m + m)%nat with (2 * m)%nat by lia. exact E.
  - (* odd exponent: raise to 2^k *)
    assert (X : fpow_nat (fpow_nat w d) (Nat.pow 2 k) = 1) by (rewrite E; apply fpow_nat_one).
    rewrite <- fpow_nat_mul in X. rewrite Nat.mul_comm, fpow_nat_mul, Hw, fpow_m1, He in X.
    exact (m1_neq_1 X).
Qed.

Lemma nodup_map_inj {A B} (f : A -> B) (l : list A) :
  (forall x y, In x l -> In y l -> f x = f y -> x = y) -> NoDup l -> NoDup (map f l).
Proof.
  intros Hinj Hnd. induction Hnd as [|a l Hna Hnd IH]; cbn [map]; constructor.
  - intros Hin. apply in_map_iff in Hin. destruct Hin as (y & Ey & Hy).
    assert (y = a) by (apply Hinj; [right; exact Hy|left; reflexivity|exact Ey]). subst y. contradiction.
  - apply IH. intros x y Hx Hy. apply Hinj; right; assumption.
Qed.

Lemma powers_nodup k w : (1 <= k)%nat -> fpow_nat w (Nat.pow 2 (k - 1)) = - (1) -> w <> 0 ->
  NoDup (powers w (Nat.pow 2 k)).
Proof.
  intros Hk Hw W0. rewrite powers_spec. apply nodup_map_inj; [|apply seq_NoDup].
  intros i j Hi Hj E. apply in_seq in Hi, Hj.
  destruct (Nat.lt_trichotomy i j) as [L|[L|L]]; [exfalso|exact L|exfalso].
  - apply (primitive_no_small_order k w (j - i) Hk Hw ltac:(lia)).
    assert (Hi0 : fpow_nat w i <> 0).
    { clear -W0 PR. induction i; cbn [fpow_nat]; [apply fone_neq_fzero|]. intros X. apply fmul_integral in X. destruct X; contradiction. }
    replace j with (i + (j - i))%nat in E by lia. rewrite fpow_nat_add in E.
    assert (fpow_nat w i * (fpow_nat w (j - i) - 1) = 0)
      by (transitivity (fpow_nat w i * fpow_nat w (j - i) - fpow_nat w i); [ring|rewrite <- E; ring]).
    apply fmul_integral in H. destruct H as [H|H]; [contradiction|].
    transitivity (fpow_nat w (j - i) - 1 + 1); [ring|rewrite H; ring].
  - apply (primitive_no_small_order k w (i - j) Hk Hw ltac:(lia)).
    assert (Hj0 : fpow_nat w j <> 0).
    { clear -W0 PR. induction j; cbn [fpow_nat]; [apply fone_neq_fzero|]. intros X. apply fmul_integral in X. destruct X; contradiction. }
    replace i with (j + (i - j))%nat in E by lia. rewrite fpow_nat_add in E.
    assert (fpow_nat w j * (fpow_nat w (i - j) - 1) = 0)
      by (transitivity (fpow_nat w j * fpow_nat w (i - j) - fpow_nat w j); [ring|rewrite E; ring]).
    apply fmul_integral in H. destruct H as [H|H]; [contradiction|].
    transitivity (fpow_nat w (i - j) - 1 + 1); [ring|rewrite H; ring].
Qed.
End Div.
