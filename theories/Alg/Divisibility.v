(* C05 / C01: the prover's degree test.  Division by X^n - 1, divisibility iff
   vanishing on the n-th roots of unity, and the test on the interpolated
   quotient. *)
From Coq Require Import ZArith List Bool Arith Lia Ring Field.
From PlonkV Require Import Base.Fr Base.FrFacts Alg.Poly Alg.PolyFacts Alg.FFT Alg.FFTFacts Alg.RootBound
  Protocol.VerifierFacts.
Import ListNotations.
Local Open Scope fr_scope.

(* N = lo + X^n hi = (X^n - 1) hi + (lo + hi): divide the shorter lo + hi again *)
Fixpoint div_xn1 (fuel n : nat) (p : poly) : poly * poly :=
  match fuel with
  | O => ([], p)
  | S f =>
      if (length p <=? n)%nat then ([], p)
      else let lo := firstn n p in let hi := skipn n p in
           let '(q', r') := div_xn1 f n (padd lo hi) in
           (padd hi q', r')
  end.

Section Div.
Context {PR : PrimeR}.
Add Field FrFieldDiv : fr_field_theory.

Lemma peval_firstn_skipn' n p x : peval p x = peval (firstn n p) x + fpow_nat x (length (firstn n p)) * peval (skipn n p) x.
Proof. rewrite <- (firstn_skipn n p) at 1. apply peval_app. Qed.

Theorem div_xn1_spec : forall fuel n p, (0 < n)%nat -> (length p <= fuel * n + n)%nat ->
  let '(q, r) := div_xn1 fuel n p in
  (forall x, peval p x = (fpow_nat x n - 1) * peval q x + peval r x)
  /\ (length q <= length p - n)%nat /\ (length r <= n)%nat.
Proof.
  induction fuel as [|f IH]; intros n p Hn Hlen.
  - cbn [div_xn1]. repeat split; [intros x; cbn [peval]; ring|cbn; lia|lia].
  - cbn [div_xn1]. destruct (Nat.leb_spec (length p) n) as [Hle|Hgt].
    + repeat split; [intros x; cbn [peval]; ring|cbn; lia|exact Hle].
    + set (lo := firstn n p). set (hi := skipn n p).
      assert (Llo : length lo = n) by (unfold lo; rewrite firstn_length; lia).
      assert (Lhi : length hi = (length p - n)%nat) by (unfold hi; apply skipn_length).
      assert (Lsum : length (padd lo hi) = Nat.max n (length p - n)) by (rewrite padd_length, Llo, Lhi; reflexivity).
      specialize (IH n (padd lo hi) Hn ltac:(rewrite Lsum; cbn [Nat.mul] in Hlen; lia)).
      destruct (div_xn1 f n (padd lo hi)) as [q' r']. destruct IH as (E & Lq & Lr).
      repeat split.
      * intros x. rewrite peval_padd. rewrite (peval_firstn_skipn' n p x). fold lo hi. rewrite Llo.
        specialize (E x). rewrite peval_padd in E.
        transitivity ((fpow_nat x n - 1) * peval hi x + (peval lo x + peval hi x)); [ring|]. rewrite E. ring.
      * rewrite padd_length, Lhi. rewrite Lsum in Lq. lia.
      * exact Lr.
Qed.

(* ---- distinctness of the powers of a primitive 2^k-th root ---- *)
Lemma fpow_m1 d : fpow_nat (- (1)) d = if Nat.even d then 1 else - (1).
Proof.
  induction d as [|d IH]; [reflexivity|]. cbn [fpow_nat]. rewrite IH, Nat.even_succ, <- Nat.negb_even.
  destruct (Nat.even d); cbn [negb]; ring.
Qed.

Lemma m1_neq_1 : - (1) <> 1.
Proof.
  intros E. assert (Hv : val (- (1)) = val 1) by (rewrite E; reflexivity). vm_compute in Hv. discriminate Hv.
Qed.

Lemma primitive_no_small_order : forall k w d,
  (1 <= k)%nat -> fpow_nat w (Nat.pow 2 (k - 1)) = - (1) ->
  (0 < d < Nat.pow 2 k)%nat -> fpow_nat w d <> 1.
Proof.
  induction k as [|k IH]; intros w d Hk Hw Hd E; [lia|].
  replace (S k - 1)%nat with k in Hw by lia.
  destruct (Nat.even d) eqn:He.
  - (* even exponent: descend to w^2 *)
    apply Nat.even_spec in He. destruct He as [m Hm]. subst d.
    destruct k as [|k'].
    + cbn [Nat.pow] in Hd. lia.
    + apply (IH (w * w) m ltac:(lia)).
      * replace (S k' - 1)%nat with k' by lia. rewrite fpow_nat_mul_base, <- fpow_nat_add.
        replace (Nat.pow 2 k' + Nat.pow 2 k')%nat with (Nat.pow 2 (S k')) by (cbn [Nat.pow]; lia). exact Hw.
      * cbn [Nat.pow] in Hd |- *. lia.
      * rewrite fpow_nat_mul_base, <- fpow_nat_add. replace (m + m)%nat with (2 * m)%nat by lia. exact E.
  - (* odd exponent: raise to 2^k *)
    assert (X : fpow_nat (fpow_nat w d) (Nat.pow 2 k) = 1) by (rewrite E; apply fpow_nat_one).
    rewrite <- fpow_nat_mul in X. rewrite Nat.mul_comm, fpow_nat_mul, Hw, fpow_m1, He in X.
    exact (m1_neq_1 X).
Qed.

Lemma nodup_map_inj {A B} (f : A -> B) (l : list A) :
  (forall x y, In x l -> In y l -> f x = f y -> x = y) -> NoDup l -> NoDup (map f l).
Proof.
  intros Hinj Hnd. induction Hnd as [|a l Hna Hnd IH]; cbn [map]; constructor.
  - intros Hin. apply in_map_iff in Hin. destruct Hin as (y & Ey & Hy).
    assert (y = a) by (apply Hinj; [right; exact Hy|left; reflexivity|exact Ey]). subst y. contradiction.
  - apply IH. intros x y Hx Hy. apply Hinj; right; assumption.
Qed.

Lemma powers_nodup k w : (1 <= k)%nat -> fpow_nat w (Nat.pow 2 (k - 1)) = - (1) -> w <> 0 ->
  NoDup (powers w (Nat.pow 2 k)).
Proof.
  intros Hk Hw W0. rewrite powers_spec. apply nodup_map_inj; [|apply seq_NoDup].
  intros i j Hi Hj E. apply in_seq in Hi, Hj.
  destruct (Nat.lt_trichotomy i j) as [L|[L|L]]; [exfalso|exact L|exfalso].
  - apply (primitive_no_small_order k w (j - i) Hk Hw ltac:(lia)).
    assert (Hi0 : fpow_nat w i <> 0).
    { clear -W0 PR. induction i; cbn [fpow_nat]; [apply fone_neq_fzero|]. intros X. apply fmul_integral in X. destruct X; contradiction. }
    replace j with (i + (j - i))%nat in E by lia. rewrite fpow_nat_add in E.
    assert (fpow_nat w i * (fpow_nat w (j - i) - 1) = 0)
      by (transitivity (fpow_nat w i * fpow_nat w (j - i) - fpow_nat w i); [ring|rewrite <- E; ring]).
    apply fmul_integral in H. destruct H as [H|H]; [contradiction|].
    transitivity (fpow_nat w (j - i) - 1 + 1); [ring|rewrite H; ring].
  - apply (primitive_no_small_order k w (i - j) Hk Hw ltac:(lia)).
    assert (Hj0 : fpow_nat w j <> 0).
    { clear -W0 PR. induction j; cbn [fpow_nat]; [apply fone_neq_fzero|]. intros X. apply fmul_integral in X. destruct X; contradiction. }
    replace i with (j + (i - j))%nat in E by lia. rewrite fpow_nat_add in E.
    assert (fpow_nat w j * (fpow_nat w (i - j) - 1) = 0)
      by (transitivity (fpow_nat w j * fpow_nat w (i - j) - fpow_nat w j); [ring|rewrite E; ring]).
    apply fmul_integral in H. destruct H as [H|H]; [contradiction|].
    transitivity (fpow_nat w (i - j) - 1 + 1); [ring|rewrite H; ring].
Qed.
End Div.

Section DegreeTest.
Context {PR : PrimeR}.
Add Field FrFieldDT : fr_field_theory.

Lemma fpow_root_n k w : (1 <= k)%nat -> fpow_nat w (Nat.pow 2 (k - 1)) = - (1) -> fpow_nat w (Nat.pow 2 k) = 1.
Proof.
  intros Hk Hw. replace (Nat.pow 2 k) with (Nat.pow 2 (k - 1) + Nat.pow 2 (k - 1))%nat.
  - rewrite fpow_nat_add, Hw. ring.
  - destruct k; [lia|]. cbn [Nat.pow]. replace (S k - 1)%nat with k by lia. lia.
Qed.

(* vanishing on the n-th roots of unity <=> divisible by X^n - 1, with the degree of the quotient *)
Theorem vanishing_iff_divisible k w p :
  (1 <= k)%nat -> fpow_nat w (Nat.pow 2 (k - 1)) = - (1) -> w <> 0 ->
  let n := Nat.pow 2 k in
  (forall i, (i < n)%nat -> peval p (fpow_nat w i) = 0) <->
  exists q, (length q <= length p - n)%nat /\ forall x, peval p x = (fpow_nat x n - 1) * peval q x.
Proof.
  intros Hk Hw W0 n. assert (Hn : (0 < n)%nat) by (apply Nat.neq_0_lt_0, Nat.pow_nonzero; lia).
  pose proof (fpow_root_n k w Hk Hw) as Hwn. fold n in Hwn.
  split.
  - intros Hv. pose proof (div_xn1_spec (length p) n p Hn ltac:(nia)) as S.
    destruct (div_xn1 (length p) n p) as [q r]. destruct S as (E & Lq & Lr).
    exists q. split; [exact Lq|]. intros x.
    assert (Z0 : all_zero r).
    { apply (roots_all_zero n r (powers w n) Lr (powers_nodup k w Hk Hw W0) (powers_length w n)).
      intros z Hz. rewrite powers_spec in Hz. apply in_map_iff in Hz. destruct Hz as (i & <- & Hi). apply in_seq in Hi.
      specialize (E (fpow_nat w i)). rewrite Hv in E by lia.
      assert (X : fpow_nat (fpow_nat w i) n = 1).
      { rewrite <- fpow_nat_mul, Nat.mul_comm, fpow_nat_mul, Hwn. apply fpow_nat_one. }
      rewrite X in E. transitivity ((1 - 1) * peval q (fpow_nat w i) + peval r (fpow_nat w i)); [ring|]. symmetry. exact E. }
    rewrite (E x), (all_zero_peval r x Z0). ring.
  - intros (q & _ & E) i Hi. rewrite E.
    assert (X : fpow_nat (fpow_nat w i) n = 1).
    { rewrite <- fpow_nat_mul, Nat.mul_comm, fpow_nat_mul, Hwn. apply fpow_nat_one. }
    rewrite X. ring.
Qed.

(* trailing coefficients that vanish do not survive trimming *)
Lemma ptrim_rev_length l : (length (ptrim_rev l) <= length l)%nat.
Proof. induction l as [|c tl IH]; cbn [ptrim_rev length]; [lia|]. destruct (feqb c 0); cbn [length]; lia. Qed.

Lemma ptrim_rev_drop z l : all_zero z -> ptrim_rev (z ++ l) = ptrim_rev l.
Proof.
  induction 1 as [|c z Hc _ IH]; cbn [app ptrim_rev]; [reflexivity|].
  rewrite Hc. destruct (feqb_spec 0 0) as [_|N]; [exact IH|contradiction].
Qed.

Lemma nth_skipn_plus {A} (l : list A) : forall n i d, nth i (skipn n l) d = nth (n + i) l d.
Proof.
  induction l as [|a l IH]; intros n i d.
  - rewrite skipn_nil. destruct i, n; reflexivity.
  - destruct n; [reflexivity|]. cbn [skipn Nat.add nth]. apply IH.
Qed.

Lemma ptrim_length_le p L : (forall i, (L <= i)%nat -> nth i p 0 = 0) -> (length (ptrim p) <= L)%nat.
Proof.
  intros H. unfold ptrim. rewrite rev_length.
  rewrite <- (firstn_skipn L p), rev_app_distr.
  rewrite ptrim_rev_drop.
  - eapply Nat.le_trans; [apply ptrim_rev_length|]. rewrite rev_length, firstn_length. lia.
  - apply Forall_rev. apply Forall_forall. intros c Hc. apply In_nth with (d := 0) in Hc.
    destruct Hc as (i & Hi & <-). rewrite nth_skipn_plus. apply H. lia.
Qed.

Lemma all_zero_nth p i : all_zero p -> nth i p 0 = 0.
Proof.
  intros H. destruct (Nat.lt_ge_cases i (length p)) as [L|L]; [|now apply nth_overflow].
  unfold all_zero in H. rewrite Forall_forall in H. apply H. now apply nth_In.
Qed.

Lemma nth_padd_gen : forall p q i, nth i (padd p q) 0 = nth i p 0 + nth i q 0.
Proof.
  induction p as [|a p IH]; intros q i; cbn [padd].
  - destruct i; cbn [nth]; ring.
  - destruct q as [|b q]; [destruct i; cbn [nth]; ring|].
    destruct i; cbn [nth]; [reflexivity|apply IH].
Qed.

(* the prover's test: T interpolates N / Z_H on m distinct points off the domain *)
Theorem degree_test k w N T pts m :
  (1 <= k)%nat -> fpow_nat w (Nat.pow 2 (k - 1)) = - (1) -> w <> 0 ->
  let n := Nat.pow 2 k in
  (n <= m)%nat -> (length N <= m)%nat -> (length T <= m)%nat ->
  NoDup pts -> length pts = m ->
  (forall x, In x pts -> fpow_nat x n - 1 <> 0 /\ peval T x * (fpow_nat x n - 1) = peval N x) ->
  ((length (ptrim T) <= m - n)%nat <-> forall i, (i < n)%nat -> peval N (fpow_nat w i) = 0).
Proof.
  intros Hk Hw W0 n Hnm LN LT Hnd Lp Hpts.
  assert (Hn : (0 < n)%nat) by (apply Nat.neq_0_lt_0, Nat.pow_nonzero; lia).
  split.
  - (* a short quotient multiplies back to N exactly *)
    intros Hshort. set (T' := ptrim T).
    set (P := psub (repeat 0 n ++ T') T').
    assert (EP : forall x, peval P x = (fpow_nat x n - 1) * peval T x).
    { intros x. unfold P. rewrite peval_psub, peval_app, peval_repeat0, repeat_length. unfold T'. rewrite peval_ptrim. ring. }
    assert (LP : (length P <= m)%nat).
    { unfold P, psub. rewrite padd_length. unfold pneg. rewrite map_length, app_length, repeat_length. fold T' in Hshort. lia. }
    assert (EQ : forall x, peval P x = peval N x).
    { apply (agree_on_n_points_equal m P N pts LP LN Hnd Lp). intros z Hz. rewrite EP.
      destruct (Hpts z Hz) as [_ E]. rewrite <- E. ring. }
    intros i Hi. rewrite <- EQ, EP.
    assert (X : fpow_nat (fpow_nat w i) n = 1).
    { rewrite <- fpow_nat_mul, Nat.mul_comm, fpow_nat_mul. unfold n. rewrite (fpow_root_n k w Hk Hw). apply fpow_nat_one. }
    rewrite X. ring.
  - intros Hv. destruct (proj1 (vanishing_iff_divisible k w N Hk Hw W0) Hv) as (q & Lq & E). fold n in Lq, E.
    assert (Lq' : (length q <= m - n)%nat) by lia.
    (* T and q agree on the m points, hence everywhere, hence coefficient-wise *)
    assert (EQ : forall x, peval T x = peval q x).
    { apply (agree_on_n_points_equal m T q pts LT ltac:(lia) Hnd Lp). intros z Hz.
      destruct (Hpts z Hz) as [NZ Ez]. rewrite E in Ez.
      assert (X : (fpow_nat z n - 1) * (peval T z - peval q z) = 0) by (transitivity (peval T z * (fpow_nat z n - 1) - (fpow_nat z n - 1) * peval q z); [ring|rewrite Ez; ring]).
      apply fmul_integral in X. destruct X as [X|X]; [contradiction|].
      transitivity (peval T z - peval q z + peval q z); [ring|rewrite X; ring]. }
    set (D := psub T q).
    assert (LD : (length D <= m)%nat) by (unfold D, psub; rewrite padd_length; unfold pneg; rewrite map_length; lia).
    assert (ZD : all_zero D).
    { apply (roots_all_zero m D pts LD Hnd Lp). intros z Hz. unfold D. rewrite peval_psub, EQ. ring. }
    apply ptrim_length_le. intros i Hi.
    pose proof (all_zero_nth D i ZD) as Hi0. unfold D, psub in Hi0. rewrite nth_padd_gen in Hi0.
    assert (Nq : nth i (pneg q) 0 = 0) by (apply nth_overflow; unfold pneg; rewrite map_length; lia).
    rewrite Nq in Hi0. transitivity (nth i T 0 + 0); [ring|exact Hi0].
Qed.
End DegreeTest.
