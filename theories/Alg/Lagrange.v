(* The closed forms of src/fft/domain.rs equal their definitions:
   - the vanishing polynomial X^n - 1 vanishes exactly on the domain;
   - evaluate_all_lagrange_coefficients(tau)[i] is the i-th Lagrange basis polynomial
     (the interpolant of the i-th unit vector) evaluated at tau;
   - barycentric evaluation = evaluating the interpolating polynomial (ifft) at the point. *)
From Coq Require Import ZArith List Bool Arith Lia Ring Field.
From PlonkV Require Import Base.Fr Base.FrFacts Alg.Poly Alg.PolyFacts Alg.FFT Alg.FFTFacts Alg.FFTInverse
  Alg.RootBound Alg.Divisibility.
Import ListNotations.
Local Open Scope fr_scope.

Section Lagrange.
Context {PR : PrimeR}.
Add Field FrFieldLag : fr_field_theory.

(* geometric sum *)
Definition geo (x : Fr) (n : nat) : Fr := peval (repeat 1 n) x.

Lemma geo_S x n : geo x (S n) = 1 + x * geo x n.
Proof. reflexivity. Qed.

Lemma geo_closed x n : (x - 1) * geo x n = fpow_nat x n - 1.
Proof.
  induction n as [|n IH]; [unfold geo; cbn [repeat peval fpow_nat]; ring|].
  rewrite geo_S. cbn [fpow_nat].
  transitivity ((x - 1) + x * ((x - 1) * geo x n)); [ring|]. rewrite IH. ring.
Qed.

Lemma F_of_nat_S n : F (Z.of_nat (S n)) = 1 + F (Z.of_nat n).
Proof. rewrite Nat2Z.inj_succ. unfold F. replace (Z.succ (Z.of_nat n)) with (1 + Z.of_nat n)%Z by lia. rewrite of_Z_add. reflexivity. Qed.

Lemma geo_one n : geo 1 n = F (Z.of_nat n).
Proof.
  induction n as [|n IH]; [reflexivity|]. rewrite geo_S, IH, F_of_nat_S. ring.
Qed.

(* sums over an index range, as evaluation of a mapped sequence *)
Lemma peval_map_add (f g : nat -> Fr) x : forall n s,
  peval (map (fun j => f j + g j) (seq s n)) x = peval (map f (seq s n)) x + peval (map g (seq s n)) x.
Proof. induction n as [|n IH]; intros s; cbn [seq map peval]; [ring|]. rewrite IH. ring. Qed.

Lemma peval_map_const c x : forall n s, peval (map (fun _ => c) (seq s n)) x = c * geo x n.
Proof.
  induction n as [|n IH]; intros s; cbn [seq map peval]; [unfold geo; cbn; ring|].
  rewrite IH, geo_S. ring.
Qed.

Lemma peval_map_twist (f : nat -> Fr) u x : forall n s,
  peval (map (fun j => fpow_nat u j * f j) (seq s n)) x = fpow_nat u s * peval (map f (seq s n)) (u * x).
Proof.
  induction n as [|n IH]; intros s; cbn [seq map peval]; [ring|].
  rewrite IH. cbn [fpow_nat]. ring.
Qed.

Lemma peval_map_scale (f : nat -> Fr) c x : forall n s,
  peval (map (fun j => c * f j) (seq s n)) x = c * peval (map f (seq s n)) x.
Proof. induction n as [|n IH]; intros s; cbn [seq map peval]; [ring|]. rewrite IH. ring. Qed.

Lemma peval_map_ext (f g : nat -> Fr) x n s : (forall j, f j = g j) ->
  peval (map f (seq s n)) x = peval (map g (seq s n)) x.
Proof. intros E. f_equal. apply map_ext. exact E. Qed.

(* sum_j tau^j * ev(u^j)  =  sum_i ev_i * geo(tau * u^i)   (no double sum: induction on ev) *)
Definition weighted (ev us : list Fr) (tau : Fr) (n : nat) : Fr :=
  fold_right fadd 0 (map (fun '(e, ui) => e * geo (tau * ui) n) (combine ev us)).

Lemma powers_S u m : powers u (S m) = 1 :: map (fmul u) (powers u m).
Proof.
  rewrite !powers_spec. cbn [seq map fpow_nat]. f_equal.
  rewrite <- seq_shift, !map_map. apply map_ext. intros j. reflexivity.
Qed.

Lemma weighted_shift ev us u tau n :
  weighted ev (map (fmul u) us) tau n = weighted ev us (u * tau) n.
Proof.
  unfold weighted. revert us. induction ev as [|e ev IH]; intros us; [reflexivity|].
  destruct us as [|x us]; [reflexivity|]. cbn [map combine fold_right]. rewrite IH.
  f_equal. f_equal. f_equal. ring.
Qed.

Lemma swap_sums u n : forall ev tau,
  peval (map (fun j => peval ev (fpow_nat u j)) (seq 0 n)) tau = weighted ev (powers u (length ev)) tau n.
Proof.
  induction ev as [|e ev IH]; intros tau.
  - cbn [peval length]. unfold weighted. cbn. rewrite (peval_map_const 0). ring.
  - cbn [length]. rewrite powers_S. unfold weighted. cbn [combine map fold_right]. fold (weighted ev (map (fmul u) (powers u (length ev))) tau n).
    rewrite weighted_shift, <- IH.
    rewrite (peval_map_ext _ (fun j => e + fpow_nat u j * peval ev (fpow_nat u j))) by (intros j; reflexivity).
    rewrite peval_map_add, peval_map_const, peval_map_twist. cbn [fpow_nat]. f_equal; [f_equal; f_equal; ring|ring].
Qed.

(* ---- the i-th Lagrange value ---- *)
Definition lagrange_val (k : nat) (tau wi : Fr) : Fr :=
  let zh := vanishing_eval k tau in
  if feqb tau wi then 1
  else if feqb zh 0 then 0
  else zh * wi * finv (F (Z.of_nat (Nat.pow 2 k)) * (tau - wi)).

Lemma lagrange_all_map k tau :
  lagrange_all k tau = map (lagrange_val k tau) (powers (domain_gen k) (Nat.pow 2 k)).
Proof. reflexivity. Qed.

Lemma F_nat_pow2 k : F (Z.of_nat (Nat.pow 2 k)) = F (2 ^ Z.of_nat k).
Proof. f_equal. rewrite Nat2Z.inj_pow. reflexivity. Qed.

(* for wi = w^i an n-th root of unity with inverse ui:
   (1/n) * geo(tau * ui) = L_i(tau) in closed form *)
Lemma lagrange_val_geo k tau wi ui : (k <= 32)%nat ->
  wi * ui = 1 -> fpow_nat ui (Nat.pow 2 k) = 1 ->
  size_inv k * geo (tau * ui) (Nat.pow 2 k) = lagrange_val k tau wi.
Proof.
  intros Hk Hinv Hord. unfold lagrange_val. cbv zeta.
  pose proof (size_inv_spec k Hk) as Hs. pose proof (F_pow2_nonzero k Hk) as Hn.
  destruct (feqb_spec tau wi) as [E|NE].
  - subst tau. rewrite Hinv, geo_one, F_nat_pow2. exact Hs.
  - assert (Hy : tau * ui - 1 <> 0).
    { intros Z. apply NE. transitivity (tau * (wi * ui)); [rewrite Hinv; ring|].
      transitivity ((tau * ui - 1) * wi + wi); [ring|rewrite Z; ring]. }
    assert (Hd : tau - wi <> 0) by (intros Z; apply NE; transitivity (tau - wi + wi); [ring|rewrite Z; ring]).
    assert (Hwi : wi <> 0) by (intros Z; rewrite Z in Hinv; apply fone_neq_fzero; rewrite <- Hinv; ring).
    pose proof (geo_closed (tau * ui) (Nat.pow 2 k)) as G.
    rewrite fpow_nat_mul_base, Hord in G.
    assert (G' : geo (tau * ui) (Nat.pow 2 k) = vanishing_eval k tau * finv (tau * ui - 1)).
    { unfold vanishing_eval. transitivity ((tau * ui - 1) * geo (tau * ui) (Nat.pow 2 k) * finv (tau * ui - 1)); [field; exact Hy|].
      rewrite G. ring. }
    rewrite G'. rewrite F_nat_pow2.
    assert (Si : size_inv k = finv (F (2 ^ Z.of_nat k))) by reflexivity.
    assert (Ui : ui = finv wi) by (transitivity (ui * (wi * finv wi)); [rewrite finv_spec by exact Hwi; ring|transitivity ((wi * ui) * finv wi); [ring|rewrite Hinv; ring]]).
    destruct (feqb_spec (vanishing_eval k tau) 0) as [Z|NZ]; [rewrite Z; ring|].
    rewrite Si, Ui. field. repeat split; assumption.
Qed.

Lemma fmul_comm' (a b : Fr) : a * b = 1 -> b * a = 1.
Proof. intros H. rewrite <- H. ring. Qed.

(* ---- vanishing polynomial: zero exactly on the domain ---- *)
Lemma vanishing_on_domain k i : (k <= 32)%nat ->
  vanishing_eval k (fpow_nat (domain_gen k) i) = 0.
Proof.
  intros Hk. unfold vanishing_eval. rewrite <- fpow_nat_mul, Nat.mul_comm, fpow_nat_mul, domain_gen_order by exact Hk.
  rewrite fpow_nat_one. ring.
Qed.

Lemma xn1_eval n x : peval (repeat 0 n ++ [1]) x = fpow_nat x n.
Proof. rewrite peval_app, peval_repeat0, repeat_length. cbn [peval]. ring. Qed.

Theorem vanishing_iff_domain k tau : (1 <= k <= 32)%nat ->
  vanishing_eval k tau = 0 <-> In tau (powers (domain_gen k) (Nat.pow 2 k)).
Proof.
  intros Hk. set (n := Nat.pow 2 k). set (w := domain_gen k). split.
  - intros Hz.
    destruct (in_dec (fun a b => match feqb_spec a b with ReflectT _ e => left e | ReflectF _ ne => right ne end) tau (powers w n)) as [I|NI]; [exact I|exfalso].
    (* X^n - 1 would have n+1 distinct roots *)
    set (p := (- (1)) :: repeat 0 (n - 1) ++ [1]).
    assert (Np : (1 <= n)%nat) by (unfold n; pose proof (Nat.pow_nonzero 2 k); lia).
    assert (Pe : forall x, peval p x = fpow_nat x n - 1).
    { intros x. unfold p. cbn [peval]. rewrite xn1_eval. replace n with (S (n - 1)) at 2 by lia. cbn [fpow_nat]. ring. }
    assert (Z : all_zero p).
    { apply (roots_all_zero (S n) p (tau :: powers w n)).
      - unfold p. cbn [length]. rewrite app_length, repeat_length. cbn [length]. lia.
      - constructor; [exact NI|]. apply powers_nodup; [lia| |apply domain_gen_nonzero; lia].
        apply domain_gen_half. lia.
      - cbn [length]. rewrite powers_length. reflexivity.
      - intros z [<-|Iz]; rewrite Pe; [exact Hz|].
        rewrite powers_spec in Iz. apply in_map_iff in Iz. destruct Iz as [i [<- _]].
        apply (vanishing_on_domain k i). lia. }
    inversion Z as [|? ? H1 _]. apply fone_neq_fzero. transitivity (- - (1)); [ring|rewrite H1; ring].
  - intros I. rewrite powers_spec in I. apply in_map_iff in I. destruct I as [i [<- _]].
    apply vanishing_on_domain. lia.
Qed.

(* the table of X^d - 1 over the coset, computed by repeated multiplication, is the evaluation
   of X^d - 1 at g * w^i *)
Theorem vanishing_over_coset_spec k d i : (i < Nat.pow 2 k)%nat ->
  nth i (vanishing_over_coset k d) 0 = fpow_nat (coset_gen * fpow_nat (domain_gen k) i) d - 1.
Proof.
  intros Hi. unfold vanishing_over_coset.
  rewrite (nth_map_lt _ _ _ _ 0) by (rewrite powers_length; exact Hi).
  rewrite nth_powers by exact Hi. rewrite fpow_nat_mul_base.
  rewrite <- !fpow_nat_mul. rewrite (Nat.mul_comm d i). reflexivity.
Qed.

(* ---- barycentric evaluation = evaluation of the interpolating polynomial ---- *)
Lemma inv_root_props k : (k <= 32)%nat ->
  forall i, fpow_nat (domain_gen k) i * fpow_nat (finv (domain_gen k)) i = 1 /\
            fpow_nat (fpow_nat (finv (domain_gen k)) i) (Nat.pow 2 k) = 1.
Proof.
  intros Hk i. pose proof (domain_gen_nonzero k Hk) as Wn.
  assert (E : domain_gen k * finv (domain_gen k) = 1) by (apply finv_spec; exact Wn).
  split.
  - rewrite <- fpow_nat_mul_base, E. apply fpow_nat_one.
  - rewrite <- fpow_nat_mul, Nat.mul_comm, fpow_nat_mul.
    assert (O : fpow_nat (finv (domain_gen k)) (Nat.pow 2 k) = 1).
    { transitivity (fpow_nat (finv (domain_gen k)) (Nat.pow 2 k) * fpow_nat (domain_gen k) (Nat.pow 2 k)); [rewrite domain_gen_order by exact Hk; ring|].
      rewrite <- fpow_nat_mul_base. rewrite (fmul_comm' _ _ E). apply fpow_nat_one. }
    rewrite O. apply fpow_nat_one.
Qed.

Lemma Forall2_map_seq {A B} (R : A -> B -> Prop) (f : nat -> A) (g : nat -> B) l :
  (forall j, R (f j) (g j)) -> Forall2 R (map f l) (map g l).
Proof. intros H. induction l; cbn [map]; constructor; auto. Qed.

Lemma weighted_lagrange k tau : forall ev us ws,
  Forall2 (fun ui wi => size_inv k * geo (tau * ui) (Nat.pow 2 k) = lagrange_val k tau wi) us ws ->
  size_inv k * weighted ev us tau (Nat.pow 2 k)
  = fold_right fadd 0 (map (fun '(e, l) => e * l) (combine ev (map (lagrange_val k tau) ws))).
Proof.
  unfold weighted. induction ev as [|e ev IH]; intros us ws F2; [cbn; ring|].
  destruct F2 as [|ui wi us ws R F2]; [cbn; ring|].
  cbn [combine map fold_right]. rewrite <- (IH us ws F2), <- R. ring.
Qed.

Theorem interp_eval_is_interpolant num_coeffs evals point :
  (domain_log num_coeffs <= 32)%nat ->
  let k := domain_log num_coeffs in
  length evals = Nat.pow 2 k ->
  interp_eval k evals point = peval (ifft num_coeffs evals) point.
Proof.
  intros Hk k L. rewrite ifft_is_scaled_dft by exact Hk. fold k.
  rewrite resize_id by exact L. rewrite powers_spec, map_map.
  rewrite (peval_map_scale (fun j => peval evals (fpow_nat (finv (domain_gen k)) j))).
  rewrite swap_sums, L.
  unfold interp_eval. rewrite lagrange_all_map. symmetry.
  apply weighted_lagrange. rewrite !powers_spec. apply Forall2_map_seq.
  intros j. destruct (inv_root_props k Hk j) as [I O].
  apply lagrange_val_geo; assumption.
Qed.

(* the i-th Lagrange coefficient is the interpolant of the i-th unit vector *)
Definition unit_vec (n i : nat) : list Fr := map (fun j => if Nat.eqb j i then 1 else 0) (seq 0 n).

Lemma unit_fold (ls : list Fr) : forall s i, (s <= i < s + length ls)%nat ->
  fold_right fadd 0 (map (fun '(e, l) => e * l) (combine (map (fun j => if Nat.eqb j i then 1 else 0) (seq s (length ls))) ls))
  = nth (i - s) ls 0.
Proof.
  induction ls as [|l ls IH]; intros s i Hi; cbn [length] in *; [lia|].
  cbn [seq map combine fold_right]. destruct (Nat.eqb_spec s i) as [E|NE].
  - subst s. rewrite Nat.sub_diag. cbn [nth].
    assert (Z : forall (ls : list Fr) t, (i < t)%nat ->
      fold_right fadd 0 (map (fun '(e, l) => e * l) (combine (map (fun j => if Nat.eqb j i then 1 else 0) (seq t (length ls))) ls)) = 0).
    { clear -PR. induction ls as [|l ls IH]; intros t Ht; [reflexivity|]. cbn [length seq map combine fold_right].
      destruct (Nat.eqb_spec t i); [lia|]. rewrite IH by lia. ring. }
    rewrite Z by lia. ring.
  - rewrite IH by lia. replace (i - s)%nat with (S (i - S s)) by lia. cbn [nth]. ring.
Qed.

Theorem lagrange_is_interpolant num_coeffs tau i :
  (domain_log num_coeffs <= 32)%nat ->
  let k := domain_log num_coeffs in
  (i < Nat.pow 2 k)%nat ->
  nth i (lagrange_all k tau) 0 = peval (ifft num_coeffs (unit_vec (Nat.pow 2 k) i)) tau.
Proof.
  intros Hk k Hi. rewrite <- interp_eval_is_interpolant by (try exact Hk; unfold unit_vec; rewrite map_length, seq_length; reflexivity).
  fold k. unfold interp_eval, unit_vec.
  assert (Ll : length (lagrange_all k tau) = Nat.pow 2 k) by (rewrite lagrange_all_map, map_length, powers_length; reflexivity).
  rewrite <- Ll at 1. rewrite unit_fold by lia. f_equal. lia.
Qed.

(* ---- batch inversion: Montgomery's trick as coded in util.rs equals the entry-wise definition ---- *)
(* forward pass carries the product [pre] of the non-zero entries seen so far; the
   return value carries tmp = (that product)^-1 backwards; an entry f becomes
   tmp * (product before f), then tmp := tmp * f *)
Fixpoint montgomery (v : list Fr) (pre : Fr) : list Fr * Fr :=
  match v with
  | [] => ([], finv pre)
  | f :: tl =>
      if feqb f 0 then let '(out, tmp) := montgomery tl pre in (0 :: out, tmp)
      else let '(out, tmp) := montgomery tl (pre * f) in ((tmp * pre) :: out, tmp * f)
  end.

Theorem montgomery_spec : forall v pre, pre <> 0 ->
  montgomery v pre = (batch_inversion v, finv pre).
Proof.
  induction v as [|f tl IH]; intros pre Hp; [reflexivity|].
  cbn [montgomery batch_inversion map]. fold (batch_inversion tl).
  destruct (feqb_spec f 0) as [Z|NZ].
  - rewrite (IH pre Hp). reflexivity.
  - assert (Hpf : pre * f <> 0) by (intros Z; apply fmul_integral in Z; destruct Z; contradiction).
    rewrite (IH (pre * f) Hpf). f_equal; [f_equal|]; field; split; assumption.
Qed.

Corollary batch_inversion_montgomery v : fst (montgomery v 1) = batch_inversion v.
Proof. rewrite montgomery_spec by exact fone_neq_fzero. reflexivity. Qed.

Lemma batch_inversion_inverts v i : nth i v 0 <> 0 -> nth i v 0 * nth i (batch_inversion v) 0 = 1.
Proof.
  revert i. induction v as [|f tl IH]; intros i H; [destruct i; cbn in H; contradiction|].
  destruct i as [|i]; cbn [nth batch_inversion map] in *.
  - destruct (feqb_spec f 0); [contradiction|]. apply finv_spec. assumption.
  - apply IH. exact H.
Qed.

Lemma batch_inversion_zeros v i : nth i v 0 = 0 -> nth i (batch_inversion v) 0 = 0.
Proof.
  revert i. induction v as [|f tl IH]; intros i H; [destruct i; reflexivity|].
  destruct i as [|i]; cbn [nth batch_inversion map] in *.
  - destruct (feqb_spec f 0); [reflexivity|contradiction].
  - apply IH. exact H.
Qed.
End Lagrange.
Print Assumptions interp_eval_is_interpolant.
Print Assumptions lagrange_is_interpolant.
Print Assumptions vanishing_iff_domain.
Print Assumptions montgomery_spec.
