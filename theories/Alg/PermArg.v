(* The grand-product identity behind the permutation argument: if the wire
   values are invariant under a permutation sigma of the positions, the
   product of the numerators equals the product of the denominators, for every
   beta and gamma. *)
From Coq Require Import ZArith List Bool Arith Lia Ring Permutation.
From PlonkV Require Import Base.Fr Base.FrFacts.
Import ListNotations.
Local Open Scope fr_scope.

Definition fprod (l : list Fr) : Fr := fold_right fmul 1 l.

Lemma fprod_perm l l' : Permutation l l' -> fprod l = fprod l'.
Proof.
  induction 1 as [|x l l' _ IH|x y l|l l' l'' _ IH1 _ IH2]; cbn [fprod fold_right].
  - reflexivity.
  - fold (fprod l) (fprod l'). rewrite IH. reflexivity.
  - fold (fprod l). ring.
  - congruence.
Qed.

Section PermArg.
Variable pos : Type.
Variable positions : list pos.       (* the 4n wire positions *)
Variable sigma : pos -> pos.         (* the compiled copy permutation *)
Variable ident : pos -> Fr.          (* k_j * omega^i: the identity labels *)
Variable wv : pos -> Fr.             (* wire value at a position *)
Variables beta gamma : Fr.

Hypothesis sigma_perm : Permutation (map sigma positions) positions.
Hypothesis copy_respected : forall p, In p positions -> wv (sigma p) = wv p.

Definition numerator (p : pos) : Fr := wv p + beta * ident p + gamma.
Definition denominator (p : pos) : Fr := wv p + beta * ident (sigma p) + gamma.

Theorem grand_product_closes :
  fprod (map numerator positions) = fprod (map denominator positions).
Proof.
  assert (E : map denominator positions = map numerator (map sigma positions)).
  { rewrite map_map. apply map_ext_in. intros p Hp. unfold denominator, numerator.
    rewrite (copy_respected p Hp). reflexivity. }
  rewrite E. apply fprod_perm. apply Permutation_map. apply Permutation_sym. exact sigma_perm.
Qed.

End PermArg.
