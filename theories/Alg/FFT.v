(* Model of src/fft/domain.rs: evaluation domains and the FFT kernels. *)
From Coq Require Import ZArith List Bool Arith Lia.
From PlonkV Require Import Base.Fr Alg.Poly.
Import ListNotations.
Local Open Scope fr_scope.

(* ROOT_OF_UNITY = 7^((r-1)/2^32), GENERATOR = 7 *)
Definition root_of_unity : Fr :=
  F 0x16a2a19edfe81f20d09b681922c813b4b63683508c2280b93829971f439f0d2b.
Definition coset_gen : Fr := F 7.

Fixpoint sq_iter (x : Fr) (n : nat) : Fr :=
  match n with O => x | S n' => sq_iter (x * x) n' end.

(* EvaluationDomain::new(num_coeffs): size = next power of two, log < 32 *)
Fixpoint log2_up_nat (fuel n p k : nat) : nat :=
  match fuel with
  | O => k
  | S f => if (n <=? p)%nat then k else log2_up_nat f n (2 * p) (S k)
  end.
Definition domain_log (num_coeffs : nat) : nat := log2_up_nat num_coeffs num_coeffs 1 0.
Definition domain_size (num_coeffs : nat) : nat := Nat.pow 2 (domain_log num_coeffs).
Definition domain_gen (logn : nat) : Fr := sq_iter root_of_unity (32 - logn).

(* recursive radix-2 FFT on a list whose length is 2^k (k = fuel) *)
Fixpoint evens (l : list Fr) : list Fr :=
  match l with [] => [] | a :: tl => a :: match tl with [] => [] | _ :: tl' => evens tl' end end.
Definition odds (l : list Fr) : list Fr :=
  match l with [] => [] | _ :: tl => evens tl end.

Fixpoint fft_rec (k : nat) (w : Fr) (a : list Fr) : list Fr :=
  match k with
  | O => a
  | S k' =>
      let e := fft_rec k' (w * w) (evens a) in
      let o := fft_rec k' (w * w) (odds a) in
      let t := map (fun '(x, wk) => x * wk) (combine o (powers w (length o))) in
      map (fun '(x, y) => x + y) (combine e t) ++ map (fun '(x, y) => x - y) (combine e t)
  end.

Fixpoint chunks {A} (fuel n : nat) (l : list A) : list (list A) :=
  match fuel with
  | O => []
  | S f => match l with [] => [] | _ => firstn n l :: chunks f n (skipn n l) end
  end.

(* coefficients beyond the domain are folded back: reduction modulo X^n - 1 *)
Definition fold_mod (n : nat) (p : poly) : poly :=
  resize n (fold_right padd [] (chunks (length p) n p)).

(* the domain operations *)
Definition fft (num_coeffs : nat) (p : poly) : list Fr :=
  let k := domain_log num_coeffs in
  fft_rec k (domain_gen k) (fold_mod (Nat.pow 2 k) p).

Definition size_inv (k : nat) : Fr := finv (F (2 ^ Z.of_nat k)).

Definition ifft (num_coeffs : nat) (ev : list Fr) : list Fr :=
  let k := domain_log num_coeffs in
  map (fmul (size_inv k)) (fft_rec k (finv (domain_gen k)) (resize (Nat.pow 2 k) ev)).

Definition coset_fft (num_coeffs : nat) (p : poly) : list Fr :=
  fft num_coeffs (distribute_powers p coset_gen).

Definition coset_ifft (num_coeffs : nat) (ev : list Fr) : list Fr :=
  distribute_powers (ifft num_coeffs ev) (finv coset_gen).

(* ---- the thread-dependent butterfly of best_fft ---- *)
(* butterfly_range(left, right, w_m, w0): positions t use twiddle w0 * w_m^t *)
Fixpoint butterfly_range (left right : list Fr) (wm w : Fr) : list Fr * list Fr :=
  match left, right with
  | l :: ls, r :: rs =>
      let t := r * w in
      let '(ls', rs') := butterfly_range ls rs wm (w * wm) in
      ((l + t) :: ls', (l - t) :: rs')
  | _, _ => ([], [])
  end.

(* parallel_butterfly_chunk: ranges of length ceil(m / threads), range j seeded
   with w_m^(range_len * j) *)
Definition parallel_butterfly (threads : nat) (left right : list Fr) (wm : Fr) : list Fr * list Fr :=
  let m := length left in
  let range_len := ((m + threads - 1) / threads)%nat in
  let ls := chunks m range_len left in
  let rs := chunks m range_len right in
  let seeds := powers (fpow_nat wm range_len) (length ls) in
  let parts := map (fun '(lr, s) => butterfly_range (fst lr) (snd lr) wm s) (combine (combine ls rs) seeds) in
  (concat (map fst parts), concat (map snd parts)).

(* ---- closed forms ---- *)
Definition vanishing_eval (k : nat) (tau : Fr) : Fr := fpow_nat tau (Nat.pow 2 k) - 1.

(* compute_vanishing_poly_over_coset(d): X^d - 1 on the coset g*H, as coded:
   point_0 = g^d, point_{i+1} = point_i * (w^d) *)
Definition vanishing_over_coset (k d : nat) : list Fr :=
  map (fun s => fpow_nat coset_gen d * s - 1) (powers (fpow_nat (domain_gen k) d) (Nat.pow 2 k)).

(* Lagrange basis polynomials of the domain evaluated at tau, by definition:
   L_i(tau) = Z_H(tau) * w^i / (n * (tau - w^i)) for tau outside H, else indicator *)
Definition lagrange_all (k : nat) (tau : Fr) : list Fr :=
  let n := Nat.pow 2 k in
  let w := domain_gen k in
  let zh := vanishing_eval k tau in
  map (fun wi => if feqb tau wi then 1
                 else if feqb zh 0 then 0
                 else zh * wi * finv (F (Z.of_nat n) * (tau - wi)))
      (powers w n).

(* barycentric evaluation by definition: sum_i e_i L_i(point) *)
Definition interp_eval (k : nat) (evals : list Fr) (point : Fr) : Fr :=
  fold_right fadd 0 (map (fun '(e, l) => e * l) (combine evals (lagrange_all k point))).

Definition batch_inversion (v : list Fr) : list Fr :=
  map (fun x => if feqb x 0 then 0 else finv x) v.
