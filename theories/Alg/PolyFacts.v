(* Schoolbook facts: the list operations of Poly.v act on evaluations as the
   ring operations; Ruffini division; powers. *)
From Coq Require Import ZArith List Bool Arith Lia Ring Field.
From PlonkV Require Import Base.Fr Base.FrFacts Alg.Poly.
Import ListNotations.
Local Open Scope fr_scope.

Lemma peval_nil x : peval [] x = 0. Proof. reflexivity. Qed.
Lemma peval_cons c p x : peval (c :: p) x = c + x * peval p x. Proof. reflexivity. Qed.

Lemma peval_padd p : forall q x, peval (padd p q) x = peval p x + peval q x.
Proof.
  induction p as [|a p IH]; intros q x; cbn [padd peval].
  - ring.
  - destruct q as [|b q]; cbn [peval]; [ring|]. rewrite IH. ring.
Qed.

Lemma peval_pscale s p x : peval (pscale s p) x = s * peval p x.
Proof. induction p as [|a p IH]; cbn [pscale map peval]; [ring|]. fold (pscale s p). rewrite IH. ring. Qed.

Lemma peval_pneg p x : peval (pneg p) x = - peval p x.
Proof. induction p as [|a p IH]; cbn [pneg map peval]; [ring|]. fold (pneg p). rewrite IH. ring. Qed.

Lemma peval_psub p q x : peval (psub p q) x = peval p x - peval q x.
Proof. unfold psub. rewrite peval_padd, peval_pneg. ring. Qed.

Lemma peval_pmul p : forall q x, peval (pmul p q) x = peval p x * peval q x.
Proof.
  induction p as [|a p IH]; intros q x; cbn [pmul peval]; [ring|].
  rewrite peval_padd, peval_pscale, peval_cons, IH. ring.
Qed.

Lemma peval_app p q x : peval (p ++ q) x = peval p x + fpow_nat x (length p) * peval q x.
Proof.
  induction p as [|a p IH]; cbn [app peval length fpow_nat]; [ring|]. rewrite IH. ring.
Qed.

Lemma peval_repeat0 n x : peval (repeat 0 n) x = 0.
Proof. induction n; cbn [repeat peval]; [reflexivity|]. rewrite IHn. ring. Qed.

(* trailing zeros do not matter *)
Lemma ptrim_rev_spec l x : peval (rev (ptrim_rev l)) x = peval (rev l) x.
Proof.
  induction l as [|c l IH]; cbn [ptrim_rev]; [reflexivity|].
  destruct (feqb_spec c 0) as [->|N]; [|reflexivity].
  cbn [rev]. rewrite peval_app, IH. cbn [peval]. ring.
Qed.
Lemma peval_ptrim p x : peval (ptrim p) x = peval p x.
Proof. unfold ptrim. rewrite ptrim_rev_spec, rev_involutive. reflexivity. Qed.

(* Ruffini: p(x) = (x - z) q(x) + p(z) *)
Lemma ruffini_spec p z x : peval p x = (x - z) * peval (ruffini p z) x + peval p z.
Proof.
  induction p as [|c p IH]; cbn [ruffini peval]; [ring|]. rewrite IH at 1. ring.
Qed.

(* ---- powers ---- *)
Lemma fpow_nat_add x a b : fpow_nat x (a + b) = fpow_nat x a * fpow_nat x b.
Proof. induction a; cbn [Nat.add fpow_nat]; [ring|]. rewrite IHa. ring. Qed.
Lemma fpow_nat_mul x a b : fpow_nat x (a * b) = fpow_nat (fpow_nat x a) b.
Proof.
  induction b; [rewrite Nat.mul_0_r; reflexivity|].
  rewrite Nat.mul_succ_r, Nat.add_comm, fpow_nat_add, IHb. cbn [fpow_nat]. ring.
Qed.
Lemma fpow_nat_mul_base x y n : fpow_nat (x * y) n = fpow_nat x n * fpow_nat y n.
Proof. induction n; cbn [fpow_nat]; [ring|]. rewrite IHn. ring. Qed.
Lemma fpow_nat_one n : fpow_nat 1 n = 1.
Proof. induction n; cbn [fpow_nat]; [reflexivity|]. rewrite IHn. ring. Qed.

Lemma powers_from_spec x : forall n acc, powers_from x acc n = map (fun j => acc * fpow_nat x j) (seq 0 n).
Proof.
  induction n as [|n IH]; intros acc; cbn [powers_from seq map]; [reflexivity|].
  f_equal; [cbn; ring|]. rewrite IH, <- seq_shift, map_map. apply map_ext. intros j. cbn [fpow_nat]. ring.
Qed.
Lemma powers_spec x n : powers x n = map (fpow_nat x) (seq 0 n).
Proof. unfold powers. rewrite powers_from_spec. apply map_ext. intros. ring. Qed.
Lemma powers_length x n : length (powers x n) = n.
Proof. rewrite powers_spec, map_length, seq_length. reflexivity. Qed.

Lemma seq_plus n : forall m, seq m n = map (Nat.add m) (seq 0 n).
Proof.
  induction n as [|n IH]; intros m; cbn [seq map]; [reflexivity|].
  f_equal; [lia|]. rewrite (IH (S m)), <- seq_shift, map_map. apply map_ext. intros; lia.
Qed.

Lemma powers_app x m n : powers x (m + n) = powers x m ++ map (fmul (fpow_nat x m)) (powers x n).
Proof.
  rewrite !powers_spec, seq_app, map_app. f_equal. cbn [Nat.add].
  rewrite (seq_plus n m), !map_map. apply map_ext. intros j. rewrite fpow_nat_add. ring.
Qed.
