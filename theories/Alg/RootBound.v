(* A coefficient list that vanishes at as many distinct points as it has
   entries is identically zero (root bound over the prime field). *)
From Coq Require Import ZArith List Bool Arith Lia Ring Field.
From PlonkV Require Import Base.Fr Base.FrFacts Alg.Poly Alg.PolyFacts.
Import ListNotations.
Local Open Scope fr_scope.

Definition all_zero (p : poly) : Prop := Forall (fun c => c = 0) p.

Lemma all_zero_peval p x : all_zero p -> peval p x = 0.
Proof. induction 1 as [|c p Hc _ IH]; cbn [peval]; [reflexivity|]. rewrite Hc, IH. ring. Qed.

Lemma ruffini_length p z : length (ruffini p z) = length p.
Proof. induction p; cbn [ruffini length]; [reflexivity|]. now rewrite IHp. Qed.

(* if the Ruffini quotient is zero and p(z) = 0, every coefficient is zero *)
Lemma ruffini_all_zero p z : all_zero (ruffini p z) -> peval p z = 0 -> all_zero p.
Proof.
  induction p as [|c p IH]; intros Hq Hz; [constructor|].
  cbn [ruffini] in Hq. inversion Hq as [|? ? H1 H2]; subst.
  specialize (IH H2 H1). constructor; [|exact IH].
  cbn [peval] in Hz. rewrite H1 in Hz. rewrite <- Hz. ring.
Qed.

(* the top entry of the Ruffini list is always zero *)
Lemma ruffini_split p z : p <> [] -> exists q, ruffini p z = q ++ [0] /\ length q = (length p - 1)%nat.
Proof.
  induction p as [|c p IH]; intros H; [contradiction|].
  destruct p as [|d p'].
  - exists []. split; reflexivity.
  - destruct (IH ltac:(discriminate)) as (q & E & L).
    exists (peval (d :: p') z :: q). cbn [ruffini] in *. rewrite E. split; [reflexivity|].
    cbn [length] in *. lia.
Qed.

Lemma all_zero_app p q : all_zero (p ++ q) <-> all_zero p /\ all_zero q.
Proof. apply Forall_app. Qed.

Section WithPrime.
Context {PR : PrimeR}.

Theorem roots_all_zero : forall n p roots,
  (length p <= n)%nat -> NoDup roots -> length roots = n ->
  (forall z, In z roots -> peval p z = 0) -> all_zero p.
Proof.
  induction n as [|n IH]; intros p roots Hlen Hnd Hroots Hz.
  - destruct p; [constructor|cbn in Hlen; lia].
  - destruct roots as [|z rs]; [discriminate|]. injection Hroots as Hroots.
    inversion Hnd as [|? ? Hnotin Hnd']; subst.
    destruct p as [|c p']; [constructor|]. set (p := c :: p') in *.
    destruct (ruffini_split p z ltac:(discriminate)) as (q & Eq & Lq).
    assert (Hq : all_zero q).
    { apply (IH q rs); [unfold p in *; cbn [length] in *; lia|exact Hnd'|reflexivity|].
      intros y Hy.
      assert (Hy0 : peval p y = 0) by (apply Hz; right; exact Hy).
      rewrite (ruffini_spec p z y), (Hz z (or_introl eq_refl)) in Hy0.
      assert (E : (y - z) * peval (ruffini p z) y = 0) by (rewrite <- Hy0; ring).
      apply fmul_integral in E. destruct E as [E|E].
      - exfalso. apply Hnotin. replace z with y; [exact Hy|].
        symmetry. apply (fr_from_zero' _ _ _ E). ring.
      - rewrite Eq, peval_app in E. cbn [peval] in E. rewrite <- E. ring. }
    apply (ruffini_all_zero p z); [|apply Hz; left; reflexivity].
    rewrite Eq. apply all_zero_app. split; [exact Hq|repeat constructor].
Qed.

End WithPrime.
