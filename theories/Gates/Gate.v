(* Gates and the row identities of the five widgets, component by component
   and combined with the separation challenges exactly as
   src/proof_system/widget/*/proverkey.rs::compute_quotient_i combines them. *)
From Coq Require Import ZArith List Bool.
From PlonkV Require Import Base.Fr.
Local Open Scope fr_scope.

Record gate : Set := mkGate {
  q_m : Fr; q_l : Fr; q_r : Fr; q_o : Fr; q_f : Fr; q_c : Fr;
  q_arith : Fr; q_range : Fr; q_logic : Fr; q_fixed : Fr; q_var : Fr;
  w_a : nat; w_b : nat; w_c : nat; w_d : nat }.

Definition zero_gate : gate :=
  mkGate 0 0 0 0 0 0 0 0 0 0 0 O O O O.

(* wire values of one row and the shifted values of the next *)
Record wires : Set := mkWires { va : Fr; vb : Fr; vc : Fr; vd : Fr }.
Definition zero_wires : wires := mkWires 0 0 0 0.

Definition f2 : Fr := F 2.
Definition f3 : Fr := F 3.
Definition f4 : Fr := F 4.
Definition f9 : Fr := F 9.
Definition f18 : Fr := F 18.
Definition f81 : Fr := F 81.
Definition f83 : Fr := F 83.

Definition ed_d : Fr :=
  F 0x2a9318e74bfa2b48f5fd9207e6bd7fd4292d7f6d37579d2601065fd6d6343eb1.

Definition fsq (x : Fr) : Fr := x * x.

(* range/proverkey.rs, logic/proverkey.rs : delta *)
Definition delta (f : Fr) : Fr := f * (f - 1) * (f - f2) * (f - f3).

(* logic/proverkey.rs : delta_xor_and *)
Definition delta_xor_and (a b w c qc : Fr) : Fr :=
  let F_ := w * (w * (f4 * w - f18 * (a + b) + f81)
                 + f18 * (fsq a + fsq b) - f81 * (a + b) + f83) in
  let E := f3 * (a + b + c) - f2 * F_ in
  let B := qc * (f9 * c - f3 * (a + b)) in
  B + E.

(* fixed_base/proverkey.rs *)
Definition extract_bit (acc acc_w : Fr) : Fr := acc_w - acc - acc.
Definition check_bit_consistency (bit : Fr) : Fr := bit * (bit - 1) * (bit + 1).

(* ---- components ---- *)
Section Row.
Variable g : gate.
Variable w : wires.   (* this row *)
Variable n : wires.   (* next row *)

Definition arith_core : Fr :=
  va w * vb w * q_m g + va w * q_l g + vb w * q_r g + vc w * q_o g
  + vd w * q_f g + q_c g.

(* range: four quads *)
Definition range_c1 : Fr := delta (vc w - f4 * vd w).
Definition range_c2 : Fr := delta (vb w - f4 * vc w).
Definition range_c3 : Fr := delta (va w - f4 * vb w).
Definition range_c4 : Fr := delta (vd n - f4 * va w).

(* logic *)
Definition logic_a : Fr := va n - f4 * va w.
Definition logic_b : Fr := vb n - f4 * vb w.
Definition logic_d : Fr := vd n - f4 * vd w.
Definition logic_c0 : Fr := delta logic_a.
Definition logic_c1 : Fr := delta logic_b.
Definition logic_c2 : Fr := delta logic_d.
Definition logic_c3 : Fr := vc w - logic_a * logic_b.
Definition logic_c4 : Fr := delta_xor_and logic_a logic_b (vc w) logic_d (q_c g).

(* fixed base: q_l = x_beta, q_r = y_beta, q_c = xy_beta *)
Definition fb_bit : Fr := extract_bit (vd w) (vd n).
Definition fb_y_alpha : Fr := fsq fb_bit * (q_r g - 1) + 1.
Definition fb_x_alpha : Fr := fb_bit * q_l g.
Definition fb_bitc : Fr := check_bit_consistency fb_bit.
Definition fb_xy : Fr := fb_bit * q_c g - vc w.
Definition fb_x : Fr :=
  (va n + va n * vc w * va w * vb w * ed_d) - (va w * fb_y_alpha + vb w * fb_x_alpha).
Definition fb_y : Fr :=
  (vb n - vb n * vc w * va w * vb w * ed_d) - (vb w * fb_y_alpha + va w * fb_x_alpha).

(* variable base: a=x1 b=y1 c=x2 d=y2, next: a=x3 b=y3 d=x1*y2 *)
Definition vb_xy : Fr := va w * vd w - vd n.
Definition vb_x3 : Fr :=
  (vd n + vb w * vc w) - (va n + va n * ed_d * vd n * (vb w * vc w)).
Definition vb_y3 : Fr :=
  (vb w * vd w + va w * vc w) - (vb n - vb n * ed_d * vd n * (vb w * vc w)).

(* ---- combined exactly as compute_quotient_i ---- *)
Definition t_arith : Fr := arith_core * q_arith g.

Definition t_range (k : Fr) : Fr :=
  let kappa := fsq k in let kappa_sq := fsq kappa in let kappa_cu := kappa_sq * kappa in
  (range_c1 + range_c2 * kappa + range_c3 * kappa_sq + range_c4 * kappa_cu) * q_range g * k.

Definition t_logic (k : Fr) : Fr :=
  let kappa := fsq k in let kappa_sq := fsq kappa in
  let kappa_cu := kappa_sq * kappa in let kappa_qu := kappa_cu * kappa in
  q_logic g * (logic_c3 * kappa_cu + logic_c0 + logic_c1 * kappa + logic_c2 * kappa_sq
               + logic_c4 * kappa_qu) * k.

Definition t_fixed (k : Fr) : Fr :=
  let kappa := fsq k in let kappa_sq := fsq kappa in let kappa_cu := kappa_sq * kappa in
  (fb_bitc + fb_x * kappa_sq + fb_y * kappa_cu + fb_xy * kappa) * q_fixed g * k.

Definition t_var (k : Fr) : Fr :=
  let kappa := fsq k in
  (vb_xy + vb_x3 * kappa + vb_y3 * fsq kappa) * q_var g * k.

(* quotient_poly.rs::compute_circuit_satisfiability_equation, one row *)
Definition row_sum (kr kl kf kv pi : Fr) : Fr :=
  t_arith + t_range kr + t_logic kl + t_fixed kf + t_var kv + pi.

(* component-wise satisfaction of one row (boolean, executable) *)
Definition fz (x : Fr) : bool := feqb x 0.

Definition row_okb (pi : Fr) : bool :=
  fz (t_arith + pi)
  && fz (q_range g * range_c1) && fz (q_range g * range_c2)
  && fz (q_range g * range_c3) && fz (q_range g * range_c4)
  && fz (q_logic g * logic_c0) && fz (q_logic g * logic_c1) && fz (q_logic g * logic_c2)
  && fz (q_logic g * logic_c3) && fz (q_logic g * logic_c4)
  && fz (q_fixed g * fb_bitc) && fz (q_fixed g * fb_xy)
  && fz (q_fixed g * fb_x) && fz (q_fixed g * fb_y)
  && fz (q_var g * vb_xy) && fz (q_var g * vb_x3) && fz (q_var g * vb_y3).

Definition row_ok (pi : Fr) : Prop :=
  t_arith + pi = 0
  /\ (q_range g * range_c1 = 0 /\ q_range g * range_c2 = 0
      /\ q_range g * range_c3 = 0 /\ q_range g * range_c4 = 0)
  /\ (q_logic g * logic_c0 = 0 /\ q_logic g * logic_c1 = 0 /\ q_logic g * logic_c2 = 0
      /\ q_logic g * logic_c3 = 0 /\ q_logic g * logic_c4 = 0)
  /\ (q_fixed g * fb_bitc = 0 /\ q_fixed g * fb_xy = 0
      /\ q_fixed g * fb_x = 0 /\ q_fixed g * fb_y = 0)
  /\ (q_var g * vb_xy = 0 /\ q_var g * vb_x3 = 0 /\ q_var g * vb_y3 = 0).

End Row.

(* a row that reads nothing of the next row *)
Definition no_next (g : gate) : Prop :=
  q_range g = 0 /\ q_logic g = 0 /\ q_fixed g = 0 /\ q_var g = 0.
