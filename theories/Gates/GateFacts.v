(* Zero sets of the widget helpers. *)
From Coq Require Import ZArith List Bool Arith Lia Ring Field.
From PlonkV Require Import Base.Fr Base.FrFacts Gates.Gate.
Local Open Scope fr_scope.

Lemma F_add a b : F (a + b) = F a + F b. Proof. apply of_Z_add. Qed.
Lemma F_mul a b : F (a * b) = F a * F b. Proof. apply of_Z_mul. Qed.
Lemma F_val x : F (val x) = x. Proof. apply of_Z_val. Qed.
Lemma F_0 : F 0 = 0. Proof. reflexivity. Qed.
Lemma F_1 : F 1 = 1. Proof. reflexivity. Qed.
Lemma val_F_small z : (0 <= z < r)%Z -> val (F z) = z.
Proof. apply val_of_Z_small. Qed.

Section WithPrime.
Context {PR : PrimeR}.

Lemma fsub_zero x y : x - y = 0 -> x = y.
Proof. intros H. apply (fr_from_zero _ _ _ H). ring. Qed.

Lemma delta_zero_iff f : delta f = 0 <-> (f = 0 \/ f = 1 \/ f = f2 \/ f = f3).
Proof.
  unfold delta. split.
  - intros H. apply fmul_integral in H. destruct H as [H|H].
    + apply fmul_integral in H. destruct H as [H|H].
      * apply fmul_integral in H. destruct H as [H|H]; [left; exact H|].
        right; left. now apply fsub_zero.
      * right; right; left. now apply fsub_zero.
    + right; right; right. now apply fsub_zero.
  - intros [H|[H|[H|H]]]; rewrite H; ring.
Qed.

(* one quad step over the integers: no wrap below 2^254 *)
Lemma quad_step x x' bound :
  delta (x' - f4 * x) = 0 ->
  (val x < bound)%Z -> (4 * bound <= 2 ^ 254)%Z ->
  (val x' < 4 * bound)%Z /\ exists q, (0 <= q < 4)%Z /\ val x' = (4 * val x + q)%Z.
Proof.
  intros Hd Hx Hb. apply delta_zero_iff in Hd.
  pose proof (val_range x) as Rx. pose proof r_bound_lo as Rlo.
  assert (E : exists q, (0 <= q < 4)%Z /\ x' = F (4 * val x + q)).
  { assert (G : forall c q, x' - f4 * x = c -> c = F q -> x' = F (4 * val x + q)).
    { intros c q H Hc. rewrite F_add, F_mul, F_val, <- Hc, <- H. unfold f4. ring. }
    destruct Hd as [H|[H|[H|H]]].
    - exists 0%Z. split; [lia|]. apply (G _ _ H). reflexivity.
    - exists 1%Z. split; [lia|]. apply (G _ _ H). reflexivity.
    - exists 2%Z. split; [lia|]. apply (G _ _ H). reflexivity.
    - exists 3%Z. split; [lia|]. apply (G _ _ H). reflexivity. }
  destruct E as (q & Hq & E). subst x'.
  rewrite val_F_small by lia. split; [lia|]. exists q. split; [exact Hq|reflexivity].
Qed.

End WithPrime.
