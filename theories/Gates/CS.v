(* Constraint systems: gates, sparse public inputs, satisfaction over the
   padded cyclic domain, and satisfaction of a contiguous block of rows. *)
From Coq Require Import ZArith List Bool Arith Lia.
From PlonkV Require Import Base.Fr Gates.Gate.
Import ListNotations.
Local Open Scope nat_scope.

(* usize::next_power_of_two on naturals (0 and 1 give 1) *)
Fixpoint npo2_aux (fuel : nat) (p n : nat) : nat :=
  match fuel with
  | O => p
  | S f => if n <=? p then p else npo2_aux f (2 * p) n
  end.
Definition npo2 (n : nat) : nat := npo2_aux n 1 n.

Definition assignment := nat -> Fr.

Definition wires_of (asg : assignment) (g : gate) : wires :=
  mkWires (asg (w_a g)) (asg (w_b g)) (asg (w_c g)) (asg (w_d g)).

Definition pi_val (o : option Fr) : Fr := match o with Some v => v | None => fzero end.

Section Sat.
Variable rows : list (gate * option Fr).
Variable asg : assignment.

Definition nrows : nat := npo2 (length rows).

(* wire values on the padded domain: real rows read the assignment, padding
   rows hold literal zeros (compiler/prover.rs round 1) *)
Definition row_wires (i : nat) : wires :=
  match nth_error rows i with
  | Some (g, _) => wires_of asg g
  | None => zero_wires
  end.
Definition row_gate (i : nat) : gate :=
  match nth_error rows i with Some (g, _) => g | None => zero_gate end.
Definition row_pi (i : nat) : Fr :=
  match nth_error rows i with Some (_, o) => pi_val o | None => fzero end.
Definition next_row (i : nat) : nat := (i + 1) mod nrows.

Definition row_ok_at (i : nat) : Prop :=
  row_ok (row_gate i) (row_wires i) (row_wires (next_row i)) (row_pi i).
Definition row_okb_at (i : nat) : bool :=
  row_okb (row_gate i) (row_wires i) (row_wires (next_row i)) (row_pi i).

(* every row of the padded domain *)
Definition sat : Prop := forall i, i < nrows -> row_ok_at i.
Definition satb : bool := forallb row_okb_at (seq 0 nrows).
(* first failing row, for diagnostics *)
Definition first_bad : option nat := find (fun i => negb (row_okb_at i)) (seq 0 nrows).

End Sat.

(* A block of rows seen in isolation: row i reads row i+1 of the block; the
   last row reads zeros (it must not depend on them: see [no_next]). *)
Section Block.
Variable blk : list (gate * option Fr).
Variable asg : assignment.

Definition blk_wires (i : nat) : wires :=
  match nth_error blk i with
  | Some (g, _) => wires_of asg g
  | None => zero_wires
  end.

Definition block_row_ok (i : nat) : Prop :=
  match nth_error blk i with
  | Some (g, o) => row_ok g (wires_of asg g) (blk_wires (S i)) (pi_val o)
  | None => True
  end.

Definition block_sat : Prop := forall i, i < length blk -> block_row_ok i.

Definition block_row_okb (i : nat) : bool :=
  match nth_error blk i with
  | Some (g, o) => row_okb g (wires_of asg g) (blk_wires (S i)) (pi_val o)
  | None => true
  end.
Definition block_satb : bool := forallb block_row_okb (seq 0 (length blk)).

End Block.
