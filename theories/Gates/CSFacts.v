(* Facts about row satisfaction: the boolean evaluator is sound and complete
   for [row_ok]; arithmetic-only rows; locality of blocks inside [sat]. *)
From Coq Require Import ZArith List Bool Arith Lia Ring.
From PlonkV Require Import Base.Fr Base.FrFacts Gates.Gate Gates.CS.
Import ListNotations.
Local Open Scope nat_scope.

Lemma fz_spec x : reflect (x = fzero) (fz x).
Proof. unfold fz. apply feqb_spec. Qed.

Lemma fz_true x : fz x = true <-> x = fzero.
Proof. destruct (fz_spec x); split; intros; congruence. Qed.

Lemma row_okb_true g w n pi : row_okb g w n pi = true <-> row_ok g w n pi.
Proof.
  unfold row_ok, row_okb. rewrite !andb_true_iff, !fz_true. tauto.
Qed.

Lemma row_okb_spec g w n pi : reflect (row_ok g w n pi) (row_okb g w n pi).
Proof. apply iff_reflect. symmetry. apply row_okb_true. Qed.

Lemma npo2_aux_ge fuel : forall p n, n <= p * 2 ^ fuel -> n <= npo2_aux fuel p n.
Proof.
  induction fuel as [|f IH]; intros p n H; cbn [npo2_aux].
  - cbn in H. lia.
  - destruct (Nat.leb_spec n p); [assumption|]. apply IH.
    rewrite Nat.pow_succ_r' in H. lia.
Qed.

Lemma npo2_ge n : n <= npo2 n.
Proof.
  unfold npo2. apply npo2_aux_ge. rewrite Nat.mul_1_l.
  apply Nat.lt_le_incl, Nat.pow_gt_lin_r. lia.
Qed.

Section RowFacts.
Local Open Scope fr_scope.

Lemma fmul_0_l x : 0 * x = 0. Proof. ring. Qed.

(* a row whose four next-row selectors vanish is an arithmetic row *)
Lemma row_ok_no_next g w n pi :
  no_next g -> (row_ok g w n pi <-> t_arith g w + pi = 0).
Proof.
  intros (Hr & Hl & Hf & Hv). unfold row_ok. rewrite Hr, Hl, Hf, Hv, !fmul_0_l.
  tauto.
Qed.

Lemma row_ok_next_irrel g w n n' pi :
  no_next g -> row_ok g w n pi -> row_ok g w n' pi.
Proof.
  intros H. rewrite !(row_ok_no_next g w _ pi H). tauto.
Qed.

End RowFacts.

(* ---- blocks inside a satisfied system ---- *)
Definition closed_block (blk : list (gate * option Fr)) : Prop :=
  match rev blk with
  | [] => True
  | (g, _) :: _ => no_next g
  end.

Lemma nth_error_app_mid {A} (pre blk post : list A) i :
  i < length blk -> nth_error (pre ++ blk ++ post) (length pre + i) = nth_error blk i.
Proof.
  intros H. rewrite nth_error_app2 by lia.
  replace (length pre + i - length pre) with i by lia.
  now rewrite nth_error_app1.
Qed.

Lemma last_closed blk g o :
  closed_block blk -> nth_error blk (length blk - 1) = Some (g, o) -> no_next g.
Proof.
  unfold closed_block. intros H E.
  destruct blk as [|x xs] using rev_ind; [cbn in E; discriminate E|].
  rewrite rev_app_distr in H. cbn in H.
  rewrite app_length in E. cbn in E.
  rewrite nth_error_app2 in E by lia.
  replace (length xs + 1 - 1 - length xs) with 0 in E by lia.
  cbn in E. inversion E; subst. exact H.
Qed.

Theorem sat_block pre blk post asg :
  sat (pre ++ blk ++ post) asg -> closed_block blk -> block_sat blk asg.
Proof.
  intros Hsat Hcl i Hi.
  set (rows := pre ++ blk ++ post) in *.
  assert (Hlen : length pre + i < length rows).
  { unfold rows. rewrite !app_length. lia. }
  pose proof (npo2_ge (length rows)) as Hn.
  specialize (Hsat (length pre + i) ltac:(unfold nrows; lia)).
  assert (Hnth : nth_error rows (length pre + i) = nth_error blk i)
    by (apply nth_error_app_mid; exact Hi).
  unfold row_ok_at, row_gate, row_wires, row_pi in Hsat.
  rewrite !Hnth in Hsat.
  unfold block_row_ok.
  destruct (nth_error blk i) as [[g o]|] eqn:E; [|exact I].
  destruct (Nat.eq_dec (S i) (length blk)) as [Hlast|Hmid].
  - assert (no_next g) as Hnn.
    { eapply last_closed; [exact Hcl|]. replace (length blk - 1) with i by lia. exact E. }
    eapply row_ok_next_irrel; [exact Hnn|exact Hsat].
  - assert (Hnext : next_row rows (length pre + i) = length pre + S i).
    { unfold next_row, nrows. rewrite Nat.mod_small; [lia|].
      unfold rows in *. rewrite !app_length in *. lia. }
    rewrite Hnext in Hsat.
    assert (Hnth' : nth_error rows (length pre + S i) = nth_error blk (S i))
      by (apply nth_error_app_mid; lia).
    rewrite Hnth' in Hsat.
    unfold blk_wires. exact Hsat.
Qed.

(* the same locality inside a larger block *)
Theorem sat_block_inner pre blk post asg :
  block_sat (pre ++ blk ++ post) asg -> closed_block blk -> block_sat blk asg.
Proof.
  intros Hsat Hcl i Hi.
  set (rows := pre ++ blk ++ post) in *.
  assert (Hlen : length pre + i < length rows).
  { unfold rows. rewrite !app_length. lia. }
  specialize (Hsat (length pre + i) Hlen).
  assert (Hnth : nth_error rows (length pre + i) = nth_error blk i)
    by (apply nth_error_app_mid; exact Hi).
  unfold block_row_ok in *. rewrite Hnth in Hsat.
  destruct (nth_error blk i) as [[g o]|] eqn:E; [|exact I].
  destruct (Nat.eq_dec (S i) (length blk)) as [Hlast|Hmid].
  - assert (no_next g) as Hnn.
    { eapply last_closed; [exact Hcl|]. replace (length blk - 1) with i by lia. exact E. }
    eapply row_ok_next_irrel; [exact Hnn|exact Hsat].
  - unfold blk_wires in *.
    assert (Hnth' : nth_error rows (S (length pre + i)) = nth_error blk (S i)).
    { replace (S (length pre + i)) with (length pre + S i) by lia. apply nth_error_app_mid; lia. }
    rewrite Hnth' in Hsat. exact Hsat.
Qed.

Lemma block_row_okb_true blk asg i :
  block_row_okb blk asg i = true <-> block_row_ok blk asg i.
Proof.
  unfold block_row_ok, block_row_okb.
  destruct (nth_error blk i) as [[g o]|]; [apply row_okb_true|tauto].
Qed.

Lemma block_satb_spec blk asg : block_satb blk asg = true <-> block_sat blk asg.
Proof.
  unfold block_satb, block_sat. rewrite forallb_forall. split; intros H i Hi.
  - apply block_row_okb_true. apply H. apply in_seq. lia.
  - apply in_seq in Hi. apply block_row_okb_true. apply H. lia.
Qed.

Lemma satb_spec rows asg : satb rows asg = true <-> sat rows asg.
Proof.
  unfold satb, sat. rewrite forallb_forall. split; intros H i Hi.
  - unfold row_ok_at. apply row_okb_true. change (row_okb_at rows asg i = true).
    apply (H i). apply in_seq. lia.
  - apply in_seq in Hi. unfold row_okb_at. apply row_okb_true.
    change (row_ok_at rows asg i). apply (H i). lia.
Qed.
