(* Composition of blocks and a few list facts. *)
From Coq Require Import ZArith List Bool Arith Lia.
From PlonkV Require Import Base.Fr Base.FrFacts Gates.Gate Gates.CS Gates.CSFacts.
Import ListNotations.
Local Open Scope nat_scope.

Lemma nth_error_map_seq {A} (f : nat -> A) n k :
  k < n -> nth_error (map f (seq 0 n)) k = Some (f k).
Proof.
  intros H. rewrite nth_error_map, nth_error_nth' with (d := 0) by (rewrite seq_length; lia).
  rewrite seq_nth by lia. reflexivity.
Qed.

Lemma closed_block_app b1 b2 : b2 <> [] -> closed_block b2 -> closed_block (b1 ++ b2).
Proof.
  unfold closed_block. intros Hne H. rewrite rev_app_distr.
  destruct (rev b2) as [|x xs] eqn:E; [|exact H].
  apply (f_equal (@rev _)) in E. rewrite rev_involutive in E. cbn in E. contradiction.
Qed.

Lemma closed_block_last b g o : no_next g -> closed_block (b ++ [(g, o)]).
Proof. intros H. unfold closed_block. rewrite rev_app_distr. cbn. exact H. Qed.

(* splitting a block after a closed prefix *)
Lemma block_sat_app b1 b2 asg :
  closed_block b1 ->
  (block_sat (b1 ++ b2) asg <-> block_sat b1 asg /\ block_sat b2 asg).
Proof.
  intros Hcl. split.
  - intros H. split.
    + apply (sat_block_inner [] b1 b2 asg); [exact H|exact Hcl].
    + intros i Hi. specialize (H (length b1 + i)). rewrite app_length in H.
      specialize (H ltac:(lia)). unfold block_row_ok in *.
      rewrite nth_error_app2 in H by lia.
      replace (length b1 + i - length b1) with i in H by lia.
      destruct (nth_error b2 i) as [[g o]|]; [|exact I].
      unfold blk_wires in *. rewrite nth_error_app2 in H by lia.
      replace (S (length b1 + i) - length b1) with (S i) in H by lia. exact H.
  - intros [H1 H2] i Hi. rewrite app_length in Hi. unfold block_row_ok.
    destruct (Nat.lt_ge_cases i (length b1)) as [Hlt|Hge].
    + specialize (H1 i Hlt). unfold block_row_ok in H1.
      rewrite nth_error_app1 by exact Hlt.
      destruct (nth_error b1 i) as [[g o]|] eqn:E; [|exact I].
      destruct (Nat.eq_dec (S i) (length b1)) as [Hl|Hm].
      * eapply row_ok_next_irrel; [|exact H1].
        eapply last_closed; [exact Hcl|]. replace (length b1 - 1) with i by lia. exact E.
      * unfold blk_wires in *. rewrite nth_error_app1 by lia. exact H1.
    + specialize (H2 (i - length b1) ltac:(lia)). unfold block_row_ok in H2.
      rewrite nth_error_app2 by lia.
      destruct (nth_error b2 (i - length b1)) as [[g o]|]; [|exact I].
      unfold blk_wires in *. rewrite nth_error_app2 by lia.
      replace (S i - length b1) with (S (i - length b1)) by lia. exact H2.
Qed.
