(* C05/C02/C03: the separation challenges. If the challenge-combined row
   identity (exactly as compute_quotient_i combines it) vanishes on a grid of
   challenge values that is larger than the degrees involved, every component
   identity of the row holds. *)
From Coq Require Import ZArith List Bool Arith Lia Ring Field.
From PlonkV Require Import Base.Fr Base.FrFacts Gates.Gate Alg.Poly Alg.PolyFacts Alg.RootBound.
Import ListNotations.
Local Open Scope fr_scope.

Section Row.
Variables (g : gate) (w n : wires).

(* each widget term is a polynomial in its separation challenge *)
Definition range_poly (c0 : Fr) : poly :=
  [c0; q_range g * range_c1 w; 0; q_range g * range_c2 w; 0; q_range g * range_c3 w; 0; q_range g * range_c4 w n].
Definition logic_poly (c0 : Fr) : poly :=
  [c0; q_logic g * logic_c0 w n; 0; q_logic g * logic_c1 w n; 0; q_logic g * logic_c2 w n; 0;
   q_logic g * logic_c3 w n; 0; q_logic g * logic_c4 g w n].
Definition fixed_poly (c0 : Fr) : poly :=
  [c0; q_fixed g * fb_bitc w n; 0; q_fixed g * fb_xy g w n; 0; q_fixed g * fb_x g w n; 0; q_fixed g * fb_y g w n].
Definition var_poly (c0 : Fr) : poly :=
  [c0; q_var g * vb_xy w n; 0; q_var g * vb_x3 w n; 0; q_var g * vb_y3 w n].

Lemma range_poly_eval c0 k : peval (range_poly c0) k = c0 + t_range g w n k.
Proof. unfold range_poly, t_range, fsq. cbn [peval]. ring. Qed.
Lemma logic_poly_eval c0 k : peval (logic_poly c0) k = c0 + t_logic g w n k.
Proof. unfold logic_poly, t_logic, fsq. cbn [peval]. ring. Qed.
Lemma fixed_poly_eval c0 k : peval (fixed_poly c0) k = c0 + t_fixed g w n k.
Proof. unfold fixed_poly, t_fixed, fsq. cbn [peval]. ring. Qed.
Lemma var_poly_eval c0 k : peval (var_poly c0) k = c0 + t_var g w n k.
Proof. unfold var_poly, t_var, fsq. cbn [peval]. ring. Qed.

End Row.

Section WithPrime.
Context {PR : PrimeR}.

Ltac zero_of H := inversion H; subst; clear H.

(* the grid theorem *)
Theorem row_sum_grid_row_ok g w n pi Sr Sl Sf Sv :
  NoDup Sr -> NoDup Sl -> NoDup Sf -> NoDup Sv ->
  length Sr = 8%nat -> length Sl = 10%nat -> length Sf = 8%nat -> length Sv = 6%nat ->
  (forall kr kl kf kv, In kr Sr -> In kl Sl -> In kf Sf -> In kv Sv ->
     row_sum g w n kr kl kf kv pi = 0) ->
  row_ok g w n pi.
Proof.
  intros Dr Dl Df Dv Lr Ll Lf Lv H.
  assert (Ex : forall S : list Fr, (0 < length S)%nat -> exists x, In x S).
  { intros [|x S'] HS; [cbn in HS; lia|]. exists x. left. reflexivity. }
  destruct (Ex Sl ltac:(lia)) as [kl0 Il].
  destruct (Ex Sf ltac:(lia)) as [kf0 If].
  destruct (Ex Sv ltac:(lia)) as [kv0 Iv].
  (* range: vary kr *)
  assert (Pr : forall kl kf kv, In kl Sl -> In kf Sf -> In kv Sv ->
             all_zero (range_poly g w n (t_arith g w + t_logic g w n kl + t_fixed g w n kf + t_var g w n kv + pi))).
  { intros kl kf kv Hl Hf Hv. apply (roots_all_zero 8 _ Sr); [reflexivity|exact Dr|exact Lr|].
    intros kr Hr. rewrite range_poly_eval. rewrite <- (H kr kl kf kv Hr Hl Hf Hv). unfold row_sum. ring. }
  pose proof (Pr kl0 kf0 kv0 Il If Iv) as Z. unfold all_zero, range_poly in Z.
  repeat match goal with Hx : Forall _ (_ :: _) |- _ => inversion Hx; subst; clear Hx end.
  (* logic: vary kl, constant part is zero for every (kf, kv) *)
  assert (Pl : forall kf kv, In kf Sf -> In kv Sv ->
             all_zero (logic_poly g w n (t_arith g w + t_fixed g w n kf + t_var g w n kv + pi))).
  { intros kf kv Hf Hv. apply (roots_all_zero 10 _ Sl); [reflexivity|exact Dl|exact Ll|].
    intros kl Hl. rewrite logic_poly_eval.
    pose proof (Pr kl kf kv Hl Hf Hv) as Zc. unfold all_zero, range_poly in Zc.
    inversion Zc as [|? ? Zc0 _]; subst. rewrite <- Zc0. ring. }
  pose proof (Pl kf0 kv0 If Iv) as Zl. unfold all_zero, logic_poly in Zl.
  repeat match goal with Hx : Forall _ (_ :: _) |- _ => inversion Hx; subst; clear Hx end.
  (* fixed base: vary kf *)
  assert (Pf : forall kv, In kv Sv -> all_zero (fixed_poly g w n (t_arith g w + t_var g w n kv + pi))).
  { intros kv Hv. apply (roots_all_zero 8 _ Sf); [reflexivity|exact Df|exact Lf|].
    intros kf Hf. rewrite fixed_poly_eval.
    pose proof (Pl kf kv Hf Hv) as Zc. unfold all_zero, logic_poly in Zc.
    inversion Zc as [|? ? Zc0 _]; subst. rewrite <- Zc0. ring. }
  pose proof (Pf kv0 Iv) as Zf. unfold all_zero, fixed_poly in Zf.
  repeat match goal with Hx : Forall _ (_ :: _) |- _ => inversion Hx; subst; clear Hx end.
  (* variable base: vary kv *)
  assert (Pv : all_zero (var_poly g w n (t_arith g w + pi))).
  { apply (roots_all_zero 6 _ Sv); [reflexivity|exact Dv|exact Lv|].
    intros kv Hv. rewrite var_poly_eval.
    pose proof (Pf kv Hv) as Zc. unfold all_zero, fixed_poly in Zc.
    inversion Zc as [|? ? Zc0 _]; subst. rewrite <- Zc0. ring. }
  unfold all_zero, var_poly in Pv.
  repeat match goal with Hx : Forall _ (_ :: _) |- _ => inversion Hx; subst; clear Hx end.
  unfold row_ok. repeat split; assumption.
Qed.

(* conversely the component-wise identities give the combined one for all challenges *)
Theorem row_ok_row_sum g w n pi kr kl kf kv :
  row_ok g w n pi -> row_sum g w n kr kl kf kv pi = 0.
Proof.
  intros (Ha & (R1 & R2 & R3 & R4) & (L0 & L1 & L2 & L3 & L4) & (F1 & F2 & F3 & F4) & (V1 & V2 & V3)).
  unfold row_sum.
  assert (Er : t_range g w n kr = 0).
  { transitivity (peval (range_poly g w n 0) kr); [rewrite range_poly_eval; ring|].
    apply all_zero_peval. unfold range_poly. rewrite R1, R2, R3, R4. repeat constructor. }
  assert (El : t_logic g w n kl = 0).
  { transitivity (peval (logic_poly g w n 0) kl); [rewrite logic_poly_eval; ring|].
    apply all_zero_peval. unfold logic_poly. rewrite L0, L1, L2, L3, L4. repeat constructor. }
  assert (Ef : t_fixed g w n kf = 0).
  { transitivity (peval (fixed_poly g w n 0) kf); [rewrite fixed_poly_eval; ring|].
    apply all_zero_peval. unfold fixed_poly. rewrite F1, F2, F3, F4. repeat constructor. }
  assert (Ev : t_var g w n kv = 0).
  { transitivity (peval (var_poly g w n 0) kv); [rewrite var_poly_eval; ring|].
    apply all_zero_peval. unfold var_poly. rewrite V1, V2, V3. repeat constructor. }
  rewrite Er, El, Ef, Ev. etransitivity; [|exact Ha]. ring.
Qed.

End WithPrime.
