(* Completeness of the verification equation at the level of exponents: instantiate the generic
   verify_eq (the very definition run against the real verifier with BLS12-381 G1) with the additive
   group of Fr, every "point" being the value of its polynomial at the SRS secret.  If the two opening
   witnesses are honest quotients and the quotient identity holds at z, the verdict is Accept, for all
   challenges and all values. *)
From Coq Require Import ZArith List Bool Arith Ring.
From PlonkV Require Import Base.Fr Base.FrFacts Gates.Gate Alg.Poly Alg.FFT Protocol.Keccak Protocol.G1 Protocol.Labels Protocol.RefVerifier.
Import ListNotations.
Local Open Scope fr_scope.

Definition exp_group : group_ops Fr :=
  mkGroupOps Fr 0 fadd fopp (fun P s => P * F s) (fun P => feqb P 0).

Section Complete.
Context {PR : PrimeR}.
Add Ring FrRingVC : fr_ring_theory.

Lemma F_val s : F (val s) = s.
Proof. unfold F. apply of_Z_val. Qed.

Lemma exp_msm_cons (P s : Fr) l acc :
  fold_left (fun acc '(P, s) => gr_add exp_group acc (gr_mul exp_group P s)) ((P, val s) :: l) acc
  = fold_left (fun acc '(P, s) => gr_add exp_group acc (gr_mul exp_group P s)) l (acc + P * s).
Proof. cbn [fold_left gr_add gr_mul exp_group]. rewrite F_val. reflexivity. Qed.

(* values at the secret (x suffix) and at z (z suffix) of the committed polynomials *)
Variables qm_x ql_x qr_x qo_x qf_x qc_x qarith_x qlogic_x qrange_x qfixed_x qvar_x s1_x s2_x s3_x s4_x : Fr.
Variables qm_z qo_z qf_z qlogic_z qrange_z qfixed_z qvar_z s4_z zp_z t1_z t2_z t3_z t4_z : Fr.
Variables a_x b_x c_x d_x zp_x t1_x t2_x t3_x t4_x wz wzw : Fr.
Variables a_e b_e c_e d_e aw_e bw_e dw_e qa_e qc_e ql_e qr_e s1_e s2_e s3_e z_e : Fr.
Variables beta gamma alpha k_range k_logic k_fixed k_var z v vw u : Fr.
Variables (pis : list Fr) (pi_idx : list Z) (vk_n : Z) (tau : Fr).

Let vkp := [qm_x; ql_x; qr_x; qo_x; qf_x; qc_x; qarith_x; qlogic_x; qrange_x; qfixed_x; qvar_x; s1_x; s2_x; s3_x; s4_x].
Let pp := [a_x; b_x; c_x; d_x; zp_x; t1_x; t2_x; t3_x; t4_x; wz; wzw].
Let ev := [a_e; b_e; c_e; d_e; aw_e; bw_e; dw_e; qa_e; qc_e; ql_e; qr_e; s1_e; s2_e; s3_e; z_e].
Let chs := [beta; gamma; alpha; k_range; k_logic; k_fixed; k_var; z; v; vw; u].

(* the verifier's scalars *)
Let k := domain_log (Z.to_nat vk_n).
Let nF := F (2 ^ Z.of_nat k).
Let omega := domain_gen k.
Let z_n := fpow z (N.of_nat (Nat.pow 2 k)).
Let z_h := z_n - 1.
Let den0 := nF * (z - 1).
Let nz := filter (fun '(_, e) => negb (feqb e 0)) (combine pi_idx pis).
Let dens := map (fun '(i, _) => fpow (finv omega) (Z.to_N i) * z - 1) nz.
Let l1 := z_h * finv den0.
Let pi_eval := fsum_list (map (fun '((_, e), d) => finv d * e) (combine nz dens)) * z_h * finv nF.
Let r0 := pi_eval - l1 * (alpha * alpha)
          - alpha * (a_e + beta * s1_e + gamma) * (b_e + beta * s2_e + gamma) * (c_e + beta * s3_e + gamma) * (d_e + gamma) * z_e.
Let gsel := mkGate 0 ql_e qr_e 0 0 qc_e 0 1 1 1 1 O O O O.
Let w := mkWires a_e b_e c_e d_e.
Let nx := mkWires aw_e bw_e 0 dw_e.
Let perm_id := (a_e + beta * z + gamma) * (b_e + beta * F 7 * z + gamma) * (c_e + beta * F 13 * z + gamma)
               * ((d_e + beta * F 17 * z + gamma) * alpha) + l1 * (alpha * alpha).
Let perm_cp := - ((a_e + beta * s1_e + gamma) * (b_e + beta * s2_e + gamma) * (c_e + beta * s3_e + gamma) * (beta * z_e * alpha)).

(* the linearisation combination, with its polynomials taken at a point given by their values *)
Definition lin (qm ql qr qo qf qc qrange qlogic qfixed qvar zp s4 t1 t2 t3 t4 : Fr) : Fr :=
  qm * (a_e * b_e * qa_e) + ql * (a_e * qa_e) + qr * (b_e * qa_e) + qo * (c_e * qa_e) + qf * (d_e * qa_e) + qc * qa_e
  + qrange * t_range gsel w nx k_range + qlogic * t_logic gsel w nx k_logic
  + qfixed * t_fixed gsel w nx k_fixed + qvar * t_var gsel w nx k_var
  + zp * perm_id + s4 * perm_cp
  - z_h * (t1 + z_n * t2 + z_n * z_n * t3 + z_n * z_n * z_n * t4).

Definition result := verify_eq exp_group vkp pp 1 chs ev pis pi_idx vk_n tau.

Theorem verify_eq_complete :
  (* the two opening witnesses are the honest quotients *)
  wz * (tau - z)
    = (lin qm_x ql_x qr_x qo_x qf_x qc_x qrange_x qlogic_x qfixed_x qvar_x zp_x s4_x t1_x t2_x t3_x t4_x + r0)
      + v * (a_x - a_e) + v * v * (b_x - b_e) + v * v * v * (c_x - c_e) + v * v * v * v * (d_x - d_e)
      + fpow_nat v 5 * (s1_x - s1_e) + fpow_nat v 6 * (s2_x - s2_e) + fpow_nat v 7 * (s3_x - s3_e)
      + fpow_nat v 8 * (qarith_x - qa_e) + fpow_nat v 9 * (qc_x - qc_e) + fpow_nat v 10 * (ql_x - ql_e) + fpow_nat v 11 * (qr_x - qr_e) ->
  wzw * (tau - z * omega)
    = (zp_x - z_e) + vw * (a_x - aw_e) + vw * vw * (b_x - bw_e) + vw * vw * vw * (d_x - dw_e) ->
  (* not rejected for a zero denominator *)
  feqb den0 0 || existsb (fun d => feqb d 0) dens = false ->
  result = (Accept, chs, 0).
Proof.
  intros O1 O2 Hden. unfold result, verify_eq.
  cbv zeta. unfold vkp, pp, ev, chs, nths. cbn [nth].
  fold k. fold nF. fold omega. fold z_n. fold z_h. fold den0. fold nz. fold dens.
  rewrite Hden. fold gsel w nx.
  unfold lin in O1.
  set (TR := t_range gsel w nx k_range) in *. set (TL := t_logic gsel w nx k_logic) in *.
  set (TF := t_fixed gsel w nx k_fixed) in *. set (TV := t_var gsel w nx k_var) in *.
  fold l1. fold pi_eval. fold r0.
  unfold gr_msm. cbn [map]. rewrite !exp_msm_cons. cbn [fold_left].
  cbn [gr_id gr_add gr_neg gr_mul gr_is_id exp_group]. rewrite !F_val.
  cbn [powers_from nth fpow_nat] in *.
  unfold fsum_list. cbn [app combine map fold_right].
  match goal with |- (if feqb ?D 0 then _ else _) = _ => assert (E : D = 0) end.
  { match type of O1 with _ = ?R1 => match type of O2 with _ = ?R2 =>
      transitivity (- (wz * (tau - z) - R1) - u * (wzw * (tau - z * omega) - R2)) end end.
    - unfold perm_id, perm_cp. ring.
    - rewrite O1, O2. ring. }
  rewrite E. destruct (feqb_spec 0 0) as [_|N]; [reflexivity|congruence].
Qed.

(* the same with the quotient identity at z stated separately *)
Theorem verify_eq_complete_from_quotient_identity :
  (* quotient identity at z: linearisation with every polynomial at z, plus r0, is zero *)
  lin qm_z ql_e qr_e qo_z qf_z qc_e qrange_z qlogic_z qfixed_z qvar_z zp_z s4_z t1_z t2_z t3_z t4_z + r0 = 0 ->
  (* W_z opens the linearisation polynomial and the eleven batched polynomials at z *)
  wz * (tau - z)
    = (lin qm_x ql_x qr_x qo_x qf_x qc_x qrange_x qlogic_x qfixed_x qvar_x zp_x s4_x t1_x t2_x t3_x t4_x
       - lin qm_z ql_e qr_e qo_z qf_z qc_e qrange_z qlogic_z qfixed_z qvar_z zp_z s4_z t1_z t2_z t3_z t4_z)
      + v * (a_x - a_e) + v * v * (b_x - b_e) + v * v * v * (c_x - c_e) + v * v * v * v * (d_x - d_e)
      + fpow_nat v 5 * (s1_x - s1_e) + fpow_nat v 6 * (s2_x - s2_e) + fpow_nat v 7 * (s3_x - s3_e)
      + fpow_nat v 8 * (qarith_x - qa_e) + fpow_nat v 9 * (qc_x - qc_e) + fpow_nat v 10 * (ql_x - ql_e) + fpow_nat v 11 * (qr_x - qr_e) ->
  (* W_zw opens z, a, b, d at z*omega *)
  wzw * (tau - z * omega)
    = (zp_x - z_e) + vw * (a_x - aw_e) + vw * vw * (b_x - bw_e) + vw * vw * vw * (d_x - dw_e) ->
  feqb den0 0 || existsb (fun d => feqb d 0) dens = false ->
  result = (Accept, chs, 0).
Proof.
  intros Q O1 O2 Hden. apply verify_eq_complete; [|exact O2|exact Hden].
  rewrite O1.
  set (LX := lin qm_x ql_x qr_x qo_x qf_x qc_x qrange_x qlogic_x qfixed_x qvar_x zp_x s4_x t1_x t2_x t3_x t4_x) in *.
  set (LZ := lin qm_z ql_e qr_e qo_z qf_z qc_e qrange_z qlogic_z qfixed_z qvar_z zp_z s4_z t1_z t2_z t3_z t4_z) in *.
  assert (E : r0 = - LZ) by (transitivity (LZ + r0 - LZ); [ring|rewrite Q; ring]).
  rewrite E. ring.
Qed.

(* that identity is the prover's quotient identity N(z) = t(z) Z_H(z): with the selector polynomials at z as the
   gate of a row, the wire evaluations as its wires, and PI(z) as its public input,
     lin(z) + r0  =  row_sum + alpha * (permutation identity at z) + alpha^2 * L1(z) * (z(z) - 1)  -  Z_H(z) * t(z) *)
Theorem quotient_identity_is_row_identity :
  let G := mkGate qm_z ql_e qr_e qo_z qf_z qc_e qa_e qrange_z qlogic_z qfixed_z qvar_z O O O O in
  lin qm_z ql_e qr_e qo_z qf_z qc_e qrange_z qlogic_z qfixed_z qvar_z zp_z s4_z t1_z t2_z t3_z t4_z + r0
  = row_sum G w nx k_range k_logic k_fixed k_var pi_eval
    + alpha * ((a_e + beta * z + gamma) * (b_e + beta * F 7 * z + gamma) * (c_e + beta * F 13 * z + gamma) * (d_e + beta * F 17 * z + gamma) * zp_z
               - (a_e + beta * s1_e + gamma) * (b_e + beta * s2_e + gamma) * (c_e + beta * s3_e + gamma) * (d_e + beta * s4_z + gamma) * z_e)
    + alpha * alpha * l1 * (zp_z - 1)
    - z_h * (t1_z + z_n * t2_z + z_n * z_n * t3_z + z_n * z_n * z_n * t4_z).
Proof.
  cbv zeta. unfold lin, r0, perm_id, perm_cp, row_sum, t_arith, arith_core.
  assert (ER : t_range (mkGate qm_z ql_e qr_e qo_z qf_z qc_e qa_e qrange_z qlogic_z qfixed_z qvar_z O O O O) w nx k_range = qrange_z * t_range gsel w nx k_range).
  { unfold t_range, range_c1, range_c2, range_c3, range_c4, gsel. cbn [q_range]. ring. }
  assert (EL : t_logic (mkGate qm_z ql_e qr_e qo_z qf_z qc_e qa_e qrange_z qlogic_z qfixed_z qvar_z O O O O) w nx k_logic = qlogic_z * t_logic gsel w nx k_logic).
  { unfold t_logic, logic_c0, logic_c1, logic_c2, logic_c3, logic_c4, logic_a, logic_b, logic_d, gsel. cbn [q_logic q_c]. ring. }
  assert (EF : t_fixed (mkGate qm_z ql_e qr_e qo_z qf_z qc_e qa_e qrange_z qlogic_z qfixed_z qvar_z O O O O) w nx k_fixed = qfixed_z * t_fixed gsel w nx k_fixed).
  { unfold t_fixed, fb_bitc, fb_xy, fb_x, fb_y, fb_x_alpha, fb_y_alpha, fb_bit, gsel. cbn [q_fixed q_c q_l q_r]. ring. }
  assert (EV : t_var (mkGate qm_z ql_e qr_e qo_z qf_z qc_e qa_e qrange_z qlogic_z qfixed_z qvar_z O O O O) w nx k_var = qvar_z * t_var gsel w nx k_var).
  { unfold t_var, vb_xy, vb_x3, vb_y3, gsel. cbn [q_var]. ring. }
  rewrite ER, EL, EF, EV. unfold w. cbn [q_m q_l q_r q_o q_f q_c q_arith va vb vc vd]. ring.
Qed.
End Complete.



