(* C06: blinding. Prover::blind_poly_with_blinders subtracts the blinders from
   the low coefficients and appends them on top: the result is the unmasked
   polynomial plus (sum b_i X^i) * (X^n - 1).  The quotient shares are
   re-randomised so that they recombine to the quotient. *)
From Coq Require Import ZArith List Bool Arith Lia Ring.
From PlonkV Require Import Base.Fr Base.FrFacts Alg.Poly Alg.PolyFacts Alg.FFT.
Import ListNotations.
Local Open Scope fr_scope.

(* coefficients[i] -= b_i ; coefficients.push(b_i), for coefficient vectors of
   length n (the domain size) and at most n blinders *)
Definition blind (coeffs bs : poly) : poly := psub coeffs bs ++ bs.

Lemma psub_length_ge p q : (length q <= length p)%nat -> length (psub p q) = length p.
Proof.
  unfold psub. revert q. induction p as [|a p IH]; intros q H.
  - destruct q; [reflexivity|cbn in H; lia].
  - destruct q as [|b q]; [reflexivity|]. cbn [pneg map padd length] in *. f_equal. apply IH. lia.
Qed.

Theorem blind_is_mask coeffs bs x :
  (length bs <= length coeffs)%nat ->
  peval (blind coeffs bs) x = peval coeffs x + peval bs x * (fpow_nat x (length coeffs) - 1).
Proof.
  intros H. unfold blind. rewrite peval_app, peval_psub, psub_length_ge by exact H. ring.
Qed.

(* hence the opening at any point is the unmasked value plus the prescribed mask,
   and on the domain (x^n = 1) the mask vanishes *)
Corollary blind_on_domain coeffs bs x :
  (length bs <= length coeffs)%nat -> fpow_nat x (length coeffs) = 1 ->
  peval (blind coeffs bs) x = peval coeffs x.
Proof. intros H Hx. rewrite blind_is_mask by exact H. rewrite Hx. ring. Qed.

(* two blindings of the same polynomial open to the same value at x only if
   the difference of the masks vanishes at x *)
Theorem fresh_mask_changes_opening coeffs bs bs' x :
  (length bs <= length coeffs)%nat -> (length bs' <= length coeffs)%nat ->
  peval (blind coeffs bs) x - peval (blind coeffs bs') x =
  (peval bs x - peval bs' x) * (fpow_nat x (length coeffs) - 1).
Proof. intros H H'. rewrite !blind_is_mask by assumption. ring. Qed.

(* quotient shares: t_low + b12 X^n, t_mid - b12 + b13 X^n, t_high - b13 + b14 X^n,
   t_fourth - b14, each share of length n (the last one arbitrary) *)
Definition xn (n : nat) (p : poly) : poly := repeat 0 n ++ p.

Lemma peval_xn n p x : peval (xn n p) x = fpow_nat x n * peval p x.
Proof. unfold xn. rewrite peval_app, peval_repeat0, repeat_length. ring. Qed.

Theorem split_rerandomised n tl tm th t4 b12 b13 b14 x :
  let tl' := padd tl (xn n [b12]) in
  let tm' := padd (psub tm [b12]) (xn n [b13]) in
  let th' := padd (psub th [b13]) (xn n [b14]) in
  let t4' := psub t4 [b14] in
  let xN := fpow_nat x n in
  peval tl' x + xN * peval tm' x + xN * xN * peval th' x + xN * xN * xN * peval t4' x
  = peval tl x + xN * peval tm x + xN * xN * peval th x + xN * xN * xN * peval t4 x.
Proof.
  cbv zeta. rewrite !peval_padd, !peval_psub, !peval_xn. cbn [peval]. ring.
Qed.

(* executable: the opening of a blinded wire polynomial at [point], computed
   from the column of wire values by its definition (Lagrange interpolation
   over the domain plus the mask) *)
Definition wire_opening (k : nat) (column : list Fr) (b0 b1 point : Fr) : Fr :=
  interp_eval k (resize (Nat.pow 2 k) column) point
  + (b0 + b1 * point) * vanishing_eval k point.
