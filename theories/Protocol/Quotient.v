(* The prover's quotient numerator on the proving domain (quotient_poly.rs,
   permutation/proverkey.rs, composer/permutation.rs): at the domain element w^i
   it is   row identity(i)  +  alpha * (permutation identity at i)  +  alpha^2 * (z_i - 1) * L1(w^i).
   For a satisfied system whose copy constraints hold, every such value is zero,
   so (with C05_degree_test) the interpolated quotient is short and proving succeeds. *)
From Coq Require Import ZArith List Bool Arith Lia Ring Field Permutation.
From PlonkV Require Import Base.Fr Base.FrFacts Gates.Gate Gates.CS Gates.GateFacts Gates.Separation Alg.Poly Alg.PolyFacts Alg.PermArg
  Alg.FFT Alg.FFTFacts Alg.FFTInverse Alg.Lagrange Alg.Divisibility Alg.PermSound.
Import ListNotations.
Local Open Scope fr_scope.

Definition K1 : Fr := F 7.
Definition K2 : Fr := F 13.
Definition K3 : Fr := F 17.

Lemma fprod_app l l' : fprod (l ++ l') = fprod l * fprod l'.
Proof. unfold fprod. induction l as [|x l IH]; cbn [app fold_right]; [ring|]. rewrite IH. ring. Qed.

Section Quot.
Context {PR : PrimeR}.
Add Field FrFieldQuot : fr_field_theory.

Variable n : nat.                         (* size of the proving domain *)
Variable w : Fr.                          (* its generator *)
Variables wa wb wc wd : nat -> Fr.        (* wire columns on the padded domain *)
Variables s1 s2 s3 s4 : nat -> Fr.        (* sigma evaluations *)
Variables alpha beta gamma : Fr.

(* Permutation::permutation_numerators / permutation_denominators *)
Definition pnum (i : nat) : Fr :=
  let br := beta * fpow_nat w i in
  (wa i + br + gamma) * (wb i + br * K1 + gamma) * (wc i + br * K2 + gamma) * (wd i + br * K3 + gamma).
Definition pden (i : nat) : Fr :=
  (wa i + beta * s1 i + gamma) * (wb i + beta * s2 i + gamma) * (wc i + beta * s3 i + gamma) * (wd i + beta * s4 i + gamma).

(* compute_permutation_vec: z_0 = 1, z_{i+1} = z_i * num_i * den_i^-1 *)
Fixpoint zval (i : nat) : Fr :=
  match i with O => 1 | S j => zval j * (pnum j * finv (pden j)) end.
Definition z_vec : list Fr := map zval (seq 0 n).

(* ProverKey::compute_quotient_i at a domain element: L1(w^i) = [i = 0] *)
Definition perm_at (i : nat) (z_i z_next : Fr) : Fr :=
  pnum i * z_i * alpha + - (pden i * z_next * alpha) + (z_i - 1) * ((if Nat.eqb i 0 then 1 else 0) * (alpha * alpha)).

Lemma fprod_nonzero l : Forall (fun x => x <> 0) l -> fprod l <> 0.
Proof.
  induction 1 as [|x l Hx _ IH]; cbn [fprod fold_right]; [exact fone_neq_fzero|].
  intros Z. apply fmul_integral in Z. destruct Z; contradiction.
Qed.

Lemma zval_prod m : (forall j, (j < m)%nat -> pden j <> 0) ->
  zval m * fprod (map pden (seq 0 m)) = fprod (map pnum (seq 0 m)).
Proof.
  induction m as [|m IH]; intros Hd; [cbn; ring|].
  rewrite seq_S, !map_app, !fprod_app. cbn [map fprod fold_right zval Nat.add].
  rewrite <- IH by (intros j Hj; apply Hd; lia).
  field. apply Hd. lia.
Qed.

Lemma zval_closes : (forall j, (j < n)%nat -> pden j <> 0) ->
  fprod (map pnum (seq 0 n)) = fprod (map pden (seq 0 n)) -> zval n = 1.
Proof.
  intros Hd E. pose proof (zval_prod n Hd) as P. rewrite E in P.
  assert (NZ : fprod (map pden (seq 0 n)) <> 0).
  { apply fprod_nonzero. apply Forall_forall. intros x Hx. apply in_map_iff in Hx.
    destruct Hx as [j [<- Hj]]. apply in_seq in Hj. apply Hd. lia. }
  transitivity (zval n * fprod (map pden (seq 0 n)) * finv (fprod (map pden (seq 0 n)))); [field; exact NZ|].
  rewrite P. field. exact NZ.
Qed.

Theorem perm_at_vanishes : (0 < n)%nat -> (forall j, (j < n)%nat -> pden j <> 0) -> zval n = 1 ->
  forall i, (i < n)%nat -> perm_at i (zval i) (zval ((i + 1) mod n)) = 0.
Proof.
  intros Hn Hd Hc i Hi. unfold perm_at.
  assert (Nx : zval ((i + 1) mod n) = zval (S i)).
  { destruct (Nat.eq_dec (S i) n) as [E|NE].
    - replace (i + 1)%nat with n by lia. rewrite Nat.mod_same by lia. rewrite E, Hc. reflexivity.
    - rewrite Nat.mod_small by lia. f_equal. lia. }
  rewrite Nx. cbn [zval].
  assert (L : (zval i - 1) * ((if Nat.eqb i 0 then 1 else 0) * (alpha * alpha)) = 0).
  { destruct i as [|i]; cbn [Nat.eqb zval]; ring. }
  rewrite L. field. apply Hd. exact Hi.
Qed.

(* conversely the identity at the wrap-around row holds only if the product closes *)
Theorem perm_at_closing_iff : (2 <= n)%nat -> alpha <> 0 -> (forall j, (j < n)%nat -> pden j <> 0) ->
  perm_at (n - 1) (zval (n - 1)) (zval 0) = 0 <-> zval n = 1.
Proof.
  intros Hn Ha Hd.
  assert (Dn : pden (n - 1) <> 0) by (apply Hd; lia).
  assert (E0 : Nat.eqb (n - 1) 0 = false) by (apply Nat.eqb_neq; lia).
  assert (Zn : zval n = zval (n - 1) * (pnum (n - 1) * finv (pden (n - 1)))).
  { replace n with (S (n - 1)) at 1 by lia. reflexivity. }
  unfold perm_at. rewrite E0, Zn. cbn [zval]. split.
  - intros H.
    assert (E : alpha * (pnum (n - 1) * zval (n - 1) - pden (n - 1)) = 0) by (etransitivity; [|exact H]; ring).
    apply fmul_integral in E. destruct E as [E|E]; [contradiction|].
    transitivity ((pnum (n - 1) * zval (n - 1) - pden (n - 1)) * finv (pden (n - 1)) + 1); [field; exact Dn|].
    rewrite E. ring.
  - intros H.
    assert (E : pnum (n - 1) * zval (n - 1) = pden (n - 1)).
    { transitivity (pden (n - 1) * (zval (n - 1) * (pnum (n - 1) * finv (pden (n - 1))))); [field; exact Dn|]. rewrite H. ring. }
    transitivity ((pnum (n - 1) * zval (n - 1) - pden (n - 1)) * alpha); [ring|]. rewrite E. ring.
Qed.
End Quot.

(* ---- the columns of a padded constraint system and its copy permutation ---- *)
Definition wpos : Set := (nat * nat)%type.   (* (wire 0..3, row) *)
Definition positions (n : nat) : list wpos := flat_map (fun i => [(0, i); (1, i); (2, i); (3, i)]%nat) (seq 0 n).
Definition kcoef (j : nat) : Fr := match j with O => fone | 1%nat => K1 | 2%nat => K2 | _ => K3 end.

Section System.
Context {PR : PrimeR}.
Add Ring FrRingSys : fr_ring_theory.
Variable rows : list (gate * option Fr).
Variable asg : assignment.
Variable w : Fr.
Variable sigma : wpos -> wpos.
Variables alpha beta gamma : Fr.

Let n := nrows rows.
Definition col_a i := va (row_wires rows asg i).
Definition col_b i := vb (row_wires rows asg i).
Definition col_c i := vc (row_wires rows asg i).
Definition col_d i := vd (row_wires rows asg i).
Definition wv (p : wpos) : Fr :=
  match fst p with O => col_a (snd p) | 1%nat => col_b (snd p) | 2%nat => col_c (snd p) | _ => col_d (snd p) end.
Definition ident (p : wpos) : Fr := kcoef (fst p) * fpow_nat w (snd p).
(* the sigma polynomials interpolate the labels of the images *)
Definition sg (j i : nat) : Fr := ident (sigma (j, i)).

Lemma fprod_rows (f : wpos -> Fr) m :
  fprod (map f (positions m)) = fprod (map (fun i => f (0%nat, i) * f (1%nat, i) * f (2%nat, i) * f (3%nat, i)) (seq 0 m)).
Proof.
  unfold positions. induction (seq 0 m) as [|i l IH]; [reflexivity|].
  cbn [flat_map map app]. cbn [fprod fold_right] in *. fold (fprod (map f (flat_map (fun i => [(0, i); (1, i); (2, i); (3, i)]%nat) l))).
  rewrite IH. unfold fprod. ring.
Qed.

Lemma numerators_by_row :
  fprod (map (numerator wpos ident wv beta gamma) (positions n))
  = fprod (map (pnum w col_a col_b col_c col_d beta gamma) (seq 0 n)).
Proof.
  rewrite fprod_rows. f_equal. apply map_ext. intros i.
  unfold numerator, pnum, wv, ident, kcoef. cbn [fst snd]. ring.
Qed.

Lemma denominators_by_row :
  fprod (map (denominator wpos sigma ident wv beta gamma) (positions n))
  = fprod (map (pden col_a col_b col_c col_d (sg 0) (sg 1) (sg 2) (sg 3) beta gamma) (seq 0 n)).
Proof.
  rewrite fprod_rows. f_equal; try (apply map_ext; intros i; unfold denominator, pden, wv, sg; cbn [fst snd]; ring).
Qed.

(* satisfied rows + respected copy constraints: the numerator of the quotient is zero at
   every element of the proving domain, for all challenges *)
Theorem numerator_zero_on_domain kr kl kf kv :
  (0 < n)%nat ->
  sat rows asg ->
  Permutation (map sigma (positions n)) (positions n) ->
  (forall p, In p (positions n) -> wv (sigma p) = wv p) ->
  (forall j, (j < n)%nat -> pden col_a col_b col_c col_d (sg 0) (sg 1) (sg 2) (sg 3) beta gamma j <> 0) ->
  let z := zval w col_a col_b col_c col_d (sg 0) (sg 1) (sg 2) (sg 3) beta gamma in
  forall i, (i < n)%nat ->
    row_sum (row_gate rows i) (row_wires rows asg i) (row_wires rows asg (next_row rows i)) kr kl kf kv (row_pi rows i)
    + perm_at w col_a col_b col_c col_d (sg 0) (sg 1) (sg 2) (sg 3) alpha beta gamma i (z i) (z (next_row rows i)) = 0.
Proof.
  intros Hn Hsat Hperm Hcopy Hd z i Hi.
  rewrite (row_ok_row_sum _ _ _ _ kr kl kf kv (Hsat i Hi)).
  unfold next_row. fold n.
  rewrite (perm_at_vanishes n w col_a col_b col_c col_d (sg 0) (sg 1) (sg 2) (sg 3) alpha beta gamma Hn Hd); [ring| |exact Hi].
  apply zval_closes; [exact Hd|].
  rewrite <- numerators_by_row, <- denominators_by_row.
  apply grand_product_closes; assumption.
Qed.
End System.
Print Assumptions numerator_zero_on_domain.
Print Assumptions perm_at_closing_iff.

(* ---- interpolation: the polynomials the prover builds take the table values on the domain,
   with or without the blinding multiple of the vanishing polynomial ---- *)
Section Interp.
Context {PR : PrimeR}.
Add Ring FrRingInterp : fr_ring_theory.

Theorem interpolant_at_domain num_coeffs ev i :
  (domain_log num_coeffs <= 32)%nat ->
  let k := domain_log num_coeffs in
  length ev = Nat.pow 2 k -> (i < Nat.pow 2 k)%nat ->
  peval (ifft num_coeffs ev) (fpow_nat (domain_gen k) i) = nth i ev 0.
Proof.
  intros Hk k L Hi.
  pose proof (fft_ifft num_coeffs ev Hk) as E. cbv zeta in E. fold k in E.
  rewrite (fft_is_evaluation num_coeffs _ Hk) in E. fold k in E.
  rewrite resize_id in E by exact L.
  transitivity (nth i (map (peval (ifft num_coeffs ev)) (powers (domain_gen k) (Nat.pow 2 k))) 0); [|rewrite E; reflexivity].
  rewrite powers_spec, map_map.
  rewrite (nth_map_lt _ _ _ _ O) by (rewrite seq_length; exact Hi).
  rewrite seq_nth by exact Hi. reflexivity.
Qed.

(* a blinded wire polynomial  ifft(values) + (b0 + b1 X)(X^n - 1)  still takes the wire values on the domain *)
Theorem blinded_at_domain num_coeffs ev b i :
  (domain_log num_coeffs <= 32)%nat ->
  let k := domain_log num_coeffs in
  length ev = Nat.pow 2 k -> (i < Nat.pow 2 k)%nat ->
  let x := fpow_nat (domain_gen k) i in
  peval (ifft num_coeffs ev) x + peval b x * vanishing_eval k x = nth i ev 0.
Proof.
  intros Hk k L Hi x. unfold x. rewrite interpolant_at_domain by assumption.
  rewrite (vanishing_on_domain k i Hk). ring.
Qed.
End Interp.
Print Assumptions blinded_at_domain.

(* ---- the labels k_j * w^i of the 4n wire positions are pairwise distinct: the cosets H, 7H, 13H, 17H
   of the 2-power subgroups are disjoint and w is primitive ---- *)
Section Labels.
Context {PR : PrimeR}.
Add Field FrFieldLabels : fr_field_theory.

Lemma pow2k_one_pow32 x k : (k <= 32)%nat -> fpow_nat x (Nat.pow 2 k) = 1 -> sq_iter x 32 = 1.
Proof.
  intros Hk E. rewrite (sq_iter_pow x 32 x eq_refl).
  replace (Nat.pow 2 32) with (Nat.pow 2 k * Nat.pow 2 (32 - k))%nat by (rewrite <- Nat.pow_add_r; f_equal; lia).
  rewrite fpow_nat_mul, E. apply fpow_nat_one.
Qed.

Lemma cosets_disjoint j j' : (j < 4)%nat -> (j' < 4)%nat -> j <> j' ->
  sq_iter (kcoef j * finv (kcoef j')) 32 <> 1.
Proof.
  intros Hj Hj' Ne.
  destruct j as [|[|[|[|j]]]]; try lia; destruct j' as [|[|[|[|j']]]]; try lia;
    intros Y; apply (f_equal val) in Y; vm_compute in Y; discriminate Y.
Qed.

Lemma positions_in n j i : In (j, i) (positions n) <-> (j < 4)%nat /\ (i < n)%nat.
Proof.
  unfold positions. rewrite in_flat_map. split.
  - intros [x [Hx H]]. apply in_seq in Hx. cbn [In] in H.
    repeat (destruct H as [H|H]; [injection H as <- <-; lia|]). contradiction.
  - intros [Hj Hi]. exists i. split; [apply in_seq; lia|].
    destruct j as [|[|[|[|j]]]]; cbn [In]; try lia; tauto.
Qed.

Lemma positions_length n : length (positions n) = (4 * n)%nat.
Proof.
  unfold positions. rewrite <- (seq_length n 0) at 2.
  induction (seq 0 n) as [|a l IH]; [reflexivity|]. cbn [flat_map length app]. rewrite IH. cbn [length]. lia.
Qed.

Lemma positions_nodup n : NoDup (positions n).
Proof.
  unfold positions. pose proof (seq_NoDup n 0) as ND.
  assert (G : forall l : list nat, NoDup l -> NoDup (flat_map (fun i => [(0, i); (1, i); (2, i); (3, i)]%nat) l)).
  { induction l as [|a l IH]; intros H; [constructor|]. inversion H as [|? ? Hn Hd]; subst.
    cbn [flat_map app].
    assert (Out : forall j, ~ In (j, a) (flat_map (fun i => [(0, i); (1, i); (2, i); (3, i)]%nat) l)).
    { intros j I. apply in_flat_map in I. destruct I as [x [Hx I]]. cbn [In] in I.
      repeat (destruct I as [I|I]; [injection I as _ <-; contradiction|]). contradiction. }
    repeat constructor; try apply IH; try exact Hd; cbn [In]; intros I;
      repeat (destruct I as [I|I]; [discriminate|]); try (eapply Out; exact I). }
  apply G. exact ND.
Qed.

Lemma kcoef_nonzero j : kcoef j <> 0.
Proof.
  destruct j as [|[|[|j]]]; cbn [kcoef]; intros Z; apply (f_equal val) in Z; vm_compute in Z; discriminate Z.
Qed.

Lemma ident_injective k : (1 <= k <= 32)%nat ->
  forall p q, In p (positions (Nat.pow 2 k)) -> In q (positions (Nat.pow 2 k)) ->
  ident (domain_gen k) p = ident (domain_gen k) q -> p = q.
Proof.
  intros Hk [j i] [j' i'] Ip Iq E. apply positions_in in Ip, Iq. destruct Ip as [Hj Hi], Iq as [Hj' Hi'].
  unfold ident in E. cbn [fst snd] in E. set (w := domain_gen k) in *.
  assert (Wn : w <> 0) by (apply domain_gen_nonzero; lia).
  assert (Half : fpow_nat w (Nat.pow 2 (k - 1)) = - (1)) by (apply domain_gen_half; exact Hk).
  assert (Ord : fpow_nat w (Nat.pow 2 k) = 1) by (apply domain_gen_order; lia).
  assert (Pnz : forall m, fpow_nat w m <> 0).
  { induction m as [|m IH]; cbn [fpow_nat]; [exact fone_neq_fzero|]. intros Z. apply fmul_integral in Z. destruct Z; contradiction. }
  assert (Same : j = j' -> i = i').
  { intros <-. pose proof (kcoef_nonzero j) as Kn.
    assert (Ew : fpow_nat w i = fpow_nat w i').
    { transitivity (finv (kcoef j) * (kcoef j * fpow_nat w i)); [field; exact Kn|]. rewrite E. field. exact Kn. }
    pose proof (powers_nodup k w ltac:(lia) Half Wn) as ND. rewrite powers_spec in ND.
    apply (nodup_map_injective (fpow_nat w) _ ND); [apply in_seq; lia|apply in_seq; lia|exact Ew]. }
  destruct (Nat.eq_dec j j') as [Ej|Nj]; [rewrite (Same Ej), Ej; reflexivity|exfalso].
  (* different cosets *)
  apply (cosets_disjoint j j' Hj Hj' Nj).
  apply (pow2k_one_pow32 _ k ltac:(lia)).
  pose proof (kcoef_nonzero j') as Kn'.
  assert (R : kcoef j * finv (kcoef j') = fpow_nat w i' * finv (fpow_nat w i)).
  { transitivity ((kcoef j * fpow_nat w i) * finv (kcoef j') * finv (fpow_nat w i)); [field; split; [apply Pnz|exact Kn']|].
    rewrite E. field. split; [apply Pnz|exact Kn']. }
  rewrite R, fpow_nat_mul_base.
  assert (P1 : forall m, fpow_nat (fpow_nat w m) (Nat.pow 2 k) = 1).
  { intros m. rewrite <- fpow_nat_mul, Nat.mul_comm, fpow_nat_mul, Ord. apply fpow_nat_one. }
  rewrite P1.
  assert (P2 : fpow_nat (finv (fpow_nat w i)) (Nat.pow 2 k) = 1).
  { transitivity (fpow_nat (finv (fpow_nat w i)) (Nat.pow 2 k) * fpow_nat (fpow_nat w i) (Nat.pow 2 k)); [rewrite P1; ring|].
    rewrite <- fpow_nat_mul_base. replace (finv (fpow_nat w i) * fpow_nat w i) with 1 by (field; apply Pnz). apply fpow_nat_one. }
  rewrite P2. ring.
Qed.
End Labels.

(* ---- converse for the copy constraints, with explicit counting: if the products close for more than
   (4n)^2 values of beta and, for each, more than 4n values of gamma, every copy constraint holds ---- *)
Section CopySound.
Context {PR : PrimeR}.

Theorem copies_from_closing rows asg k sigma (Bs Gs : list Fr) :
  (1 <= k <= 32)%nat -> nrows rows = Nat.pow 2 k ->
  let n := Nat.pow 2 k in
  let w := domain_gen k in
  Permutation (map sigma (positions n)) (positions n) ->
  NoDup Bs -> (4 * n * (4 * n) < length Bs)%nat ->
  NoDup Gs -> (4 * n < length Gs)%nat ->
  (forall beta gamma, In beta Bs -> In gamma Gs ->
     fprod (map (pnum w (col_a rows asg) (col_b rows asg) (col_c rows asg) (col_d rows asg) beta gamma) (seq 0 n))
     = fprod (map (pden (col_a rows asg) (col_b rows asg) (col_c rows asg) (col_d rows asg)
                        (sg w sigma 0) (sg w sigma 1) (sg w sigma 2) (sg w sigma 3) beta gamma) (seq 0 n))) ->
  forall p, In p (positions n) -> wv rows asg (sigma p) = wv rows asg p.
Proof.
  intros Hk Hn n w Hperm NB LB NG LG Hclose.
  apply (closing_forces_copies wpos (positions n) sigma (ident w) (wv rows asg) (positions_nodup n) Hperm
           (ident_injective k Hk) Bs Gs).
  - rewrite positions_length. unfold n.
    assert (B : (Z.of_nat (Nat.pow 2 k) <= 2 ^ 32)%Z).
    { rewrite Nat2Z.inj_pow. change (Z.of_nat 2) with 2%Z. apply Z.pow_le_mono_r; lia. }
    assert (E : (4 * 2 ^ 32 + 1 <= r)%Z) by (vm_compute; discriminate).
    lia.
  - exact NB.
  - rewrite positions_length. exact LB.
  - exact NG.
  - rewrite positions_length. exact LG.
  - intros beta gamma Ib Ig.
    pose proof (numerators_by_row rows asg w beta gamma) as E1.
    pose proof (denominators_by_row rows asg w sigma beta gamma) as E2.
    rewrite Hn in E1, E2. fold n in E1, E2. rewrite E1, E2. apply Hclose; assumption.
Qed.
End CopySound.
Print Assumptions copies_from_closing.
