(* C03: an independent reference verifier. It is given only
   Verifier::to_bytes(), Proof::to_bytes(), the public inputs, the protocol
   version and -- in place of the pairing -- the secret of the (scripted) SRS:
   with a bilinear non-degenerate pairing,
     e(-(W_z + u W_zw), x h) e(R, h) = 1   <=>   x (-(W_z + u W_zw)) + R = O.
   Everything else (transcript, challenges, scalars, the 30-term combination)
   is recomputed here from the protocol description. *)
From Coq Require Import ZArith List Bool Arith.
From PlonkV Require Import Base.Fr Gates.Gate Alg.Poly Alg.FFT Protocol.Keccak Protocol.G1 Protocol.Labels.
Import ListNotations.
Local Open Scope fr_scope.

Inductive verdict : Set := Accept | Reject | RejectPiLen | Malformed.

Definition str (l : list Z) := l.
(* labels *)
Definition L (s : list Z) := s.

(* bytes helpers (all Z in 0..255) *)
Definition take (n : nat) (b : list Z) := firstn n b.
Definition drop (n : nat) (b : list Z) := skipn n b.
Definition be64 (b : list Z) : Z := be_to_z (firstn 8 b) 0%Z.

Definition scalar_of_bytes (b : list Z) : option Fr :=
  let v := le_to_z b in if (v <? r)%Z then Some (of_Z v) else None.
Definition scalar_bytes (x : Fr) : list Z := z_to_le 32 (val x).
Definition scalar_wide (b : list Z) : Fr := of_Z (le_to_z b).

Fixpoint decode_points (n : nat) (b : list Z) : option (list g1) :=
  match n with
  | O => Some []
  | S n' => match g1_decompress (firstn 48 b) with
            | Some P => match decode_points n' (skipn 48 b) with Some l => Some (P :: l) | None => None end
            | None => None
            end
  end.
Fixpoint decode_scalars (n : nat) (b : list Z) : option (list Fr) :=
  match n with
  | O => Some []
  | S n' => match scalar_of_bytes (firstn 32 b) with
            | Some s => match decode_scalars n' (skipn 32 b) with Some l => Some (s :: l) | None => None end
            | None => None
            end
  end.
Fixpoint decode_u64s (n : nat) (b : list Z) : list Z :=
  match n with O => [] | S n' => be64 b :: decode_u64s n' (skipn 8 b) end.

Definition ascii_of (s : list nat) : list Z := map Z.of_nat s.

(* transcript operations *)
Definition app_point (label : list Z) (raw : list Z) (t : strobe) : strobe := append_message label raw t.
Definition app_scalar (label : list Z) (x : Fr) (t : strobe) : strobe := append_message label (scalar_bytes x) t.
Definition chal (label : list Z) (t : strobe) : Fr * strobe :=
  let '(b, t') := challenge_bytes label 64 t in (scalar_wide b, t').

Definition nthp (l : list g1) (i : nat) : g1 := nth i l g1_id.
Definition nths (l : list Fr) (i : nat) : Fr := nth i l 0.
Definition nthb (l : list (list Z)) (i : nat) : list Z := nth i l [].

Fixpoint split48 (n : nat) (b : list Z) : list (list Z) :=
  match n with O => [] | S n' => firstn 48 b :: split48 n' (skipn 48 b) end.

Definition fsum_list (l : list Fr) : Fr := fold_right fadd 0 l.

Section Labels.
(* ASCII labels, given as byte lists by the driver-independent definition below *)
Variable lbl : nat -> list Z.   (* indexed table of labels, see [labels] *)
End Labels.

(* label strings as byte lists *)
Definition s_ (l : list Z) := l.

(* ---- the verification equation, generic in the group: instantiated with BLS12-381 G1 (run against the
   real verifier) and with the additive group of exponents (Protocol/VerifierComplete.v) ---- *)
Record group_ops (G : Type) := mkGroupOps {
  gr_id : G; gr_add : G -> G -> G; gr_neg : G -> G; gr_mul : G -> Z -> G; gr_is_id : G -> bool }.
Arguments gr_id {G}. Arguments gr_add {G}. Arguments gr_neg {G}. Arguments gr_mul {G}. Arguments gr_is_id {G}.
Definition gr_msm {G} (ops : group_ops G) (l : list (G * Z)) : G :=
  fold_left (fun acc '(P, s) => gr_add ops acc (gr_mul ops P s)) l (gr_id ops).
Definition g1_group : group_ops g1 := mkGroupOps g1 g1_id g1_add g1_neg g1_mul g1_is_id.

Definition verify_eq {G} (ops : group_ops G) (vkp pp : list G) (g : G) (chs ev pis : list Fr) (pi_idx : list Z)
                     (vk_n : Z) (x_secret : Fr) : verdict * list Fr * G :=
    let nthp := fun (l : list G) (i : nat) => nth i l (gr_id ops) in
    let q_m := 0%nat in let q_l := 1%nat in let q_r := 2%nat in let q_o := 3%nat in let q_f := 4%nat in
    let q_c := 5%nat in let q_arith := 6%nat in let q_logic := 7%nat in let q_range := 8%nat in
    let q_fixed := 9%nat in let q_var := 10%nat in let s1 := 11%nat in let s2 := 12%nat in let s3 := 13%nat in let s4 := 14%nat in
    let a_e := nths ev 0%nat in let b_e := nths ev 1%nat in let c_e := nths ev 2%nat in let d_e := nths ev 3%nat in
    let aw_e := nths ev 4%nat in let bw_e := nths ev 5%nat in let dw_e := nths ev 6%nat in
    let qa_e := nths ev 7%nat in let qc_e := nths ev 8%nat in let ql_e := nths ev 9%nat in let qr_e := nths ev 10%nat in
    let s1_e := nths ev 11%nat in let s2_e := nths ev 12%nat in let s3_e := nths ev 13%nat in let z_e := nths ev 14%nat in
    let beta := nths chs 0%nat in let gamma := nths chs 1%nat in let alpha := nths chs 2%nat in
    let k_range := nths chs 3%nat in let k_logic := nths chs 4%nat in let k_fixed := nths chs 5%nat in let k_var := nths chs 6%nat in
    let z := nths chs 7%nat in let v := nths chs 8%nat in let vw := nths chs 9%nat in let u := nths chs 10%nat in
    (* ---- scalars ---- *)
    let k := domain_log (Z.to_nat vk_n) in
    let nF := F (2 ^ Z.of_nat k) in
    let omega := domain_gen k in
    let z_n := fpow z (N.of_nat (Nat.pow 2 k)) in
    let z_h := z_n - 1 in
    let den0 := nF * (z - 1) in
    let nz := filter (fun '(_, e) => negb (feqb e 0)) (combine pi_idx pis) in
    let dens := map (fun '(i, _) => fpow (finv omega) (Z.to_N i) * z - 1) nz in
    if feqb den0 0 || existsb (fun d => feqb d 0) dens then (Reject, chs, gr_id ops) else
    let l1 := z_h * finv den0 in
    let pi_eval := fsum_list (map (fun '((_, e), d) => finv d * e) (combine nz dens)) * z_h * finv nF in
    let r0 := pi_eval - l1 * (alpha * alpha)
              - alpha * (a_e + beta * s1_e + gamma) * (b_e + beta * s2_e + gamma)
                      * (c_e + beta * s3_e + gamma) * (d_e + gamma) * z_e in
    let vp := powers_from v v 11%nat in                           (* v^1 .. v^11 *)
    let c11 := vw * u in let c12 := c11 * vw in let c13 := c12 * vw in
    let e_evals := [a_e; b_e; c_e; d_e; s1_e; s2_e; s3_e; qa_e; qc_e; ql_e; qr_e; aw_e; bw_e; dw_e] in
    let e_coeffs := vp ++ [c11; c12; c13] in
    let e_scalar := fsum_list (map (fun '(e, c) => e * c) (combine e_evals e_coeffs)) - r0 + u * z_e in
    (* widget scalars through the row formulas of Gates/Gate.v on the evaluations *)
    let gsel := mkGate 0 ql_e qr_e 0 0 qc_e 0 1 1 1 1 O O O O in
    let w := mkWires a_e b_e c_e d_e in
    let nx := mkWires aw_e bw_e 0 dw_e in
    let K1 := F 7 in let K2 := F 13 in let K3 := F 17 in
    let perm1 := (a_e + beta * z + gamma) * (b_e + beta * K1 * z + gamma) * (c_e + beta * K2 * z + gamma)
                 * ((d_e + beta * K3 * z + gamma) * alpha) + l1 * (alpha * alpha) + u in
    let perm2 := - ((a_e + beta * s1_e + gamma) * (b_e + beta * s2_e + gamma) * (c_e + beta * s3_e + gamma)
                    * (beta * z_e * alpha)) in
    let nzh := - z_h in
    let f0 := nths vp 0%nat + c11 in let f1 := nths vp 1%nat + c12 in let f3 := nths vp 3%nat + c13 in
    let terms : list (G * Fr) :=
      [ (nthp vkp q_m, a_e * b_e * qa_e); (nthp vkp q_l, a_e * qa_e); (nthp vkp q_r, b_e * qa_e);
        (nthp vkp q_o, c_e * qa_e); (nthp vkp q_f, d_e * qa_e); (nthp vkp q_c, qa_e);
        (nthp vkp q_range, t_range gsel w nx k_range);
        (nthp vkp q_logic, t_logic gsel w nx k_logic);
        (nthp vkp q_fixed, t_fixed gsel w nx k_fixed);
        (nthp vkp q_var, t_var gsel w nx k_var);
        (nthp pp 4%nat, perm1); (nthp vkp s4, perm2);
        (nthp pp 5%nat, nzh); (nthp pp 6%nat, z_n * nzh); (nthp pp 7%nat, z_n * z_n * nzh); (nthp pp 8%nat, z_n * z_n * nzh * z_n);
        (nthp pp 0%nat, f0); (nthp pp 1%nat, f1); (nthp pp 2%nat, nths vp 2%nat); (nthp pp 3%nat, f3);
        (nthp vkp s1, nths vp 4%nat); (nthp vkp s2, nths vp 5%nat); (nthp vkp s3, nths vp 6%nat);
        (nthp vkp q_arith, nths vp 7%nat); (nthp vkp q_c, nths vp 8%nat); (nthp vkp q_l, nths vp 9%nat); (nthp vkp q_r, nths vp 10%nat);
        (g, - e_scalar); (nthp pp 9%nat, z); (nthp pp 10%nat, u * z * omega) ] in
    let right := gr_msm ops (map (fun '(P, s) => (P, val s)) terms) in
    let left := gr_neg ops (gr_add ops (nthp pp 9%nat) (gr_mul ops (nthp pp 10%nat) (val u))) in
    let disc := gr_add ops (gr_mul ops left (val x_secret)) right in
    if gr_is_id ops disc then (Accept, chs, disc) else (Reject, chs, disc)
.

(* also returns the discrepancy point  x*left + right  of the final check (identity iff accepted) *)
Definition verify_v23_gen (v3 : bool) (x_secret : Fr) (vbytes pbytes : list Z) (pis : list Fr)
                      (labels : list (list Z)) : verdict * list Fr * g1 :=
  let lab := fun i => nth i labels [] in
  (* ---- verifier bytes ---- *)
  let label_len := Z.to_nat (be64 vbytes) in
  let vk_len := Z.to_nat (be64 (drop 8%nat vbytes)) in
  let ok_len := Z.to_nat (be64 (drop 16%nat vbytes)) in
  let npi := Z.to_nat (be64 (drop 24%nat vbytes)) in
  let constraints := be64 (drop 40%nat vbytes) in
  let body := drop 48%nat vbytes in
  let label := take label_len body in
  let vk := take vk_len (drop label_len body) in
  let ok := take ok_len (drop (label_len + vk_len) body) in
  let pi_idx := decode_u64s npi (drop (label_len + vk_len + ok_len) body) in
  let vk_n := le_to_z (take 8%nat vk) in
  let vk_raw := split48 15%nat (drop 8%nat vk) in
  match decode_points 15%nat (drop 8%nat vk), g1_decompress (take 48%nat ok), decode_points 11%nat pbytes, decode_scalars 15%nat (drop 528%nat pbytes) with
  | Some vkp, Some g, Some pp, Some ev =>
    if negb (Nat.eqb (length pis) npi) then (RejectPiLen, [], g1_id) else
    let praw := split48 11%nat pbytes in
    (* VerifierKey order: q_m q_l q_r q_o q_f q_c q_arith q_logic q_range q_fixed q_var s1 s2 s3 s4 *)
    let q_m := 0%nat in let q_l := 1%nat in let q_r := 2%nat in let q_o := 3%nat in let q_f := 4%nat in
    let q_c := 5%nat in let q_arith := 6%nat in let q_logic := 7%nat in let q_range := 8%nat in
    let q_fixed := 9%nat in let q_var := 10%nat in let s1 := 11%nat in let s2 := 12%nat in let s3 := 13%nat in let s4 := 14%nat in
    (* proof order: a b c d z t_low t_mid t_high t_fourth w_z w_zw ; evals:
       a b c d a_w b_w d_w q_arith q_c q_l q_r s1 s2 s3 z *)
    let a_e := nths ev 0%nat in let b_e := nths ev 1%nat in let c_e := nths ev 2%nat in let d_e := nths ev 3%nat in
    let aw_e := nths ev 4%nat in let bw_e := nths ev 5%nat in let dw_e := nths ev 6%nat in
    let qa_e := nths ev 7%nat in let qc_e := nths ev 8%nat in let ql_e := nths ev 9%nat in let qr_e := nths ev 10%nat in
    let s1_e := nths ev 11%nat in let s2_e := nths ev 12%nat in let s3_e := nths ev 13%nat in let z_e := nths ev 14%nat in
    (* ---- transcript: label, size, verifier key, size again, public inputs ---- *)
    let t := transcript_new label in
    let t := append_message (lab 0%nat) (lab 1%nat) t in                 (* "dom-sep" "circuit_size" *)
    let t := append_u64 (lab 2%nat) constraints t in                  (* "n" *)
    let t := app_point (lab 3%nat) (nthb vk_raw q_m) t in
    let t := app_point (lab 4%nat) (nthb vk_raw q_l) t in
    let t := app_point (lab 5%nat) (nthb vk_raw q_r) t in
    let t := app_point (lab 6%nat) (nthb vk_raw q_o) t in
    let t := app_point (lab 7%nat) (nthb vk_raw q_c) t in
    let t := app_point (lab 8%nat) (nthb vk_raw q_f) t in
    let t := app_point (lab 9%nat) (nthb vk_raw q_arith) t in
    let t := app_point (lab 10%nat) (nthb vk_raw q_range) t in
    let t := app_point (lab 11%nat) (nthb vk_raw q_logic) t in
    let t := app_point (lab 12%nat) (nthb vk_raw q_var) t in
    let t := app_point (lab 13%nat) (nthb vk_raw q_fixed) t in
    let t := app_point (lab 14%nat) (nthb vk_raw s1) t in
    let t := app_point (lab 15%nat) (nthb vk_raw s2) t in
    let t := app_point (lab 16%nat) (nthb vk_raw s3) t in
    let t := app_point (lab 17%nat) (nthb vk_raw (if v3 then s4 else s1)) t in
    let t := append_message (lab 0%nat) (lab 1%nat) t in
    let t := append_u64 (lab 2%nat) vk_n t in
    let t := fold_left (fun t p => app_scalar (lab 18%nat) p t) pis t in       (* "pi" *)
    (* ---- proof elements and challenges, in the protocol's order ---- *)
    let t := app_point (lab 19%nat) (nthb praw 0%nat) t in
    let t := app_point (lab 20%nat) (nthb praw 1%nat) t in
    let t := app_point (lab 21%nat) (nthb praw 2%nat) t in
    let t := app_point (lab 22%nat) (nthb praw 3%nat) t in
    let '(beta, t) := chal (lab 23%nat) t in
    let t := app_scalar (lab 23%nat) beta t in
    let '(gamma, t) := chal (lab 24%nat) t in
    let t := app_point (lab 25%nat) (nthb praw 4%nat) t in
    let '(alpha, t) := chal (lab 26%nat) t in
    let '(k_range, t) := chal (lab 27%nat) t in
    let '(k_logic, t) := chal (lab 28%nat) t in
    let '(k_fixed, t) := chal (lab 29%nat) t in
    let '(k_var, t) := chal (lab 30%nat) t in
    let t := app_point (lab 31%nat) (nthb praw 5%nat) t in
    let t := app_point (lab 32%nat) (nthb praw 6%nat) t in
    let t := app_point (lab 33%nat) (nthb praw 7%nat) t in
    let t := app_point (lab 34%nat) (nthb praw 8%nat) t in
    let '(z, t) := chal (lab 35%nat) t in
    let t := app_scalar (lab 36%nat) a_e t in
    let t := app_scalar (lab 37%nat) b_e t in
    let t := app_scalar (lab 38%nat) c_e t in
    let t := app_scalar (lab 39%nat) d_e t in
    let t := app_scalar (lab 40%nat) s1_e t in
    let t := app_scalar (lab 41%nat) s2_e t in
    let t := app_scalar (lab 42%nat) s3_e t in
    let t := app_scalar (lab 43%nat) z_e t in
    let t := app_scalar (lab 44%nat) aw_e t in
    let t := app_scalar (lab 45%nat) bw_e t in
    let t := app_scalar (lab 46%nat) dw_e t in
    let t := app_scalar (lab 47%nat) qa_e t in
    let t := app_scalar (lab 48%nat) qc_e t in
    let t := app_scalar (lab 49%nat) ql_e t in
    let t := app_scalar (lab 50%nat) qr_e t in
    let '(v, t) := chal (lab 51%nat) t in
    let '(vw, t) := chal (lab 52%nat) t in
    let t := app_point (lab 53%nat) (nthb praw 9%nat) t in
    let t := app_point (lab 54%nat) (nthb praw 10%nat) t in
    let '(u, t) := chal (lab 55%nat) t in
    let chs := [beta; gamma; alpha; k_range; k_logic; k_fixed; k_var; z; v; vw; u] in
    verify_eq g1_group vkp pp g chs ev pis pi_idx vk_n x_secret
  | _, _, _, _ => (Malformed, [], g1_id)
  end.

Definition verify_v23 (v3 : bool) (x_secret : Fr) (vbytes pbytes : list Z) (pis : list Fr)
                      (labels : list (list Z)) : verdict * list Fr :=
  fst (verify_v23_gen v3 x_secret vbytes pbytes pis labels).

Definition ref_discrepancy (v3 : bool) (x_secret : Fr) (vbytes pbytes : list Z) (pis : list Fr) : list Z :=
  g1_compress (snd (verify_v23_gen v3 x_secret vbytes pbytes pis protocol_labels)).

Definition ref_verify (v3 : bool) (x_secret : Fr) (vbytes pbytes : list Z) (pis : list Fr) : verdict * list Fr :=
  verify_v23 v3 x_secret vbytes pbytes pis protocol_labels.
