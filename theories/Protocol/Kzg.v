(* C20: KZG10 at the exponent level. A G1 element is represented by its
   discrete logarithm with respect to the SRS generator g; [x] is the SRS
   secret. With a bilinear, non-degenerate pairing, the check
   e(-W, x h) e(C + z W - v g, h) = 1 is the exponent identity below. *)
From Coq Require Import ZArith List Bool Arith Lia Ring.
From PlonkV Require Import Base.Fr Base.FrFacts Alg.Poly Alg.PolyFacts Alg.RootBound.
Import ListNotations.
Local Open Scope fr_scope.

(* setup: the powers x^0 .. x^d *)
Definition srs_powers (x : Fr) (d : nat) : list Fr := powers x (S d).

(* commit = linear image of the coefficient vector *)
Definition commit (x : Fr) (p : poly) : Fr := peval p x.

(* degree guard of CommitKey::commit: degree = len - 1 of the trimmed vector *)
Definition commit_guard (key_degree : nat) (p : poly) : bool :=
  (length (ptrim p) - 1 <=? key_degree)%nat.

(* one opening: point z, witness exponent w, claimed value v, commitment exponent c *)
Record opening := mkOpening { o_z : Fr; o_w : Fr; o_v : Fr; o_c : Fr }.

Definition delta_of (x : Fr) (o : opening) : Fr := o_c o + o_w o * o_z o - o_v o - x * o_w o.

Definition single_check (x : Fr) (o : opening) : bool := feqb (delta_of x o) 0.

(* batch_check with batching challenge u: sum_i u^i delta_i = 0 *)
Definition batch_check_u (x u : Fr) (os : list opening) : bool :=
  feqb (peval (map (delta_of x) os) u) 0.

(* the verdict the property asks for *)
Definition batch_all (x : Fr) (os : list opening) : bool :=
  negb (Nat.eqb (length os) 0) && forallb (single_check x) os.

(* compute_aggregate_witness *)
Fixpoint agg_poly (ps : list poly) (pw v : Fr) : poly :=
  match ps with
  | [] => []
  | p :: tl => padd (pscale pw p) (agg_poly tl (pw * v) v)
  end.
Definition aggregate_witness (ps : list poly) (z v : Fr) : poly := ruffini (agg_poly ps 1 v) z.

(* AggregateProof::flatten on (evaluation, commitment exponent) parts *)
Definition flatten (parts : list (Fr * Fr)) (v : Fr) : Fr * Fr :=
  (peval (map fst parts) v, peval (map snd parts) v).

(* ---------------- theorems ---------------- *)
Lemma srs_powers_spec x d i : (i <= d)%nat -> nth i (srs_powers x d) 0 = fpow_nat x i.
Proof.
  intros H. unfold srs_powers. rewrite powers_spec.
  rewrite nth_indep with (d' := fpow_nat x 0) by (rewrite map_length, seq_length; lia).
  rewrite map_nth, seq_nth by lia. reflexivity.
Qed.

Lemma commit_linear x p q s :
  commit x (padd p q) = commit x p + commit x q /\ commit x (pscale s p) = s * commit x p.
Proof. unfold commit. split; [apply peval_padd|apply peval_pscale]. Qed.

Lemma commit_zero x n : commit x (repeat 0 n) = 0.
Proof. apply peval_repeat0. Qed.

Lemma commit_trim x p : commit x (ptrim p) = commit x p.
Proof. apply peval_ptrim. Qed.

(* completeness of a single opening produced by Ruffini division *)
Theorem open_complete x p z :
  single_check x (mkOpening z (commit x (ruffini p z)) (peval p z) (commit x p)) = true.
Proof.
  unfold single_check, delta_of, commit. cbn [o_z o_w o_v o_c].
  destruct (feqb_spec (peval p x + peval (ruffini p z) x * z - peval p z - x * peval (ruffini p z) x) 0) as [|N];
    [reflexivity|]. exfalso. apply N. rewrite (ruffini_spec p z x). ring.
Qed.

(* exactness when the witness is an actual polynomial and the identity holds
   as a polynomial identity in the secret (the algebraic-group-model reading) *)
Theorem open_exact p q z v :
  (forall x, peval p x - v = (x - z) * peval q x) -> v = peval p z.
Proof.
  intros H. specialize (H z).
  assert (E : peval p z - v = 0) by (rewrite H; ring).
  symmetry. apply (fr_from_zero _ _ _ E). ring.
Qed.

Lemma combine_map_r_seq {A B} (f : (A * nat) -> B) (ps : list A) n :
  map f (combine ps (map S (seq 0 n))) = map (fun '(p, k) => f (p, S k)) (combine ps (seq 0 n)).
Proof.
  revert ps. generalize 0%nat. induction n as [|n IH]; intros m ps; cbn [seq map]; [destruct ps; reflexivity|].
  destruct ps as [|p ps]; [reflexivity|]. cbn [combine map]. f_equal. apply IH.
Qed.

Lemma agg_poly_eval ps : forall pw v x,
  peval (agg_poly ps pw v) x =
  fold_right fadd 0 (map (fun '(p, k) => pw * fpow_nat v k * peval p x) (combine ps (seq 0 (length ps)))).
Proof.
  induction ps as [|p ps IH]; intros pw v x; cbn [agg_poly length seq combine map fold_right peval]; [reflexivity|].
  rewrite peval_padd, peval_pscale, IH. cbn [fpow_nat]. f_equal; [ring|].
  f_equal. rewrite <- seq_shift. rewrite combine_map_r_seq. apply map_ext. intros [q k]. cbn [fpow_nat]. ring.
Qed.

Section WithPrime.
Context {PR : PrimeR}.

(* the batched check passes for as many distinct challenges as there are
   openings only if every individual check passes; the converse holds for
   every challenge *)
Theorem batch_check_iff_all x os us :
  NoDup us -> length us = length os -> os <> [] ->
  (forall u, In u us -> batch_check_u x u os = true) ->
  batch_all x os = true.
Proof.
  intros Hnd Hlen Hne H. unfold batch_all.
  destruct os as [|o os']; [contradiction|]. cbn [length Nat.eqb negb andb].
  set (os := o :: os') in *.
  assert (Z : all_zero (map (delta_of x) os)).
  { apply (roots_all_zero (length os) _ us); [rewrite map_length; lia|exact Hnd|exact Hlen|].
    intros u Hu. specialize (H u Hu). unfold batch_check_u in H.
    destruct (feqb_spec (peval (map (delta_of x) os) u) 0); [assumption|discriminate]. }
  apply forallb_forall. intros o' Ho'. unfold single_check.
  unfold all_zero in Z. rewrite Forall_forall in Z.
  rewrite (Z (delta_of x o') (in_map _ _ _ Ho')). reflexivity.
Qed.

End WithPrime.

Theorem batch_all_passes x u os : batch_all x os = true -> batch_check_u x u os = true.
Proof.
  unfold batch_all, batch_check_u. intros H. apply andb_prop in H. destruct H as [_ H].
  rewrite forallb_forall in H.
  rewrite all_zero_peval; [reflexivity|].
  unfold all_zero. rewrite Forall_forall. intros d Hd. apply in_map_iff in Hd. destruct Hd as (o & <- & Ho).
  specialize (H o Ho). unfold single_check in H. destruct (feqb_spec (delta_of x o) 0); [assumption|discriminate].
Qed.
