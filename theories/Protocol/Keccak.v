(* Keccak-f[1600], STROBE-128 as used by Merlin, and the Merlin transcript
   operations -- executable reference (no theorem depends on Keccak being a
   good hash; framing lemmas are in TranscriptFacts.v). *)
From Coq Require Import ZArith List Bool Arith Lia.
Import ListNotations.
Local Open Scope Z_scope.

Definition mask64 : Z := 2 ^ 64 - 1.
Definition rotl (x : Z) (n : Z) : Z :=
  if n =? 0 then x else Z.land (Z.lor (Z.shiftl x n) (Z.shiftr x (64 - n))) mask64.

Definition round_constants : list Z :=
  [0x0000000000000001; 0x0000000000008082; 0x800000000000808A; 0x8000000080008000;
   0x000000000000808B; 0x0000000080000001; 0x8000000080008081; 0x8000000000008009;
   0x000000000000008A; 0x0000000000000088; 0x0000000080008009; 0x000000008000000A;
   0x000000008000808B; 0x800000000000008B; 0x8000000000008089; 0x8000000000008003;
   0x8000000000008002; 0x8000000000000080; 0x000000000000800A; 0x800000008000000A;
   0x8000000080008081; 0x8000000000008080; 0x0000000080000001; 0x8000000080008008].

(* rotation offsets r[x + 5 y] *)
Definition rho_offsets : list Z :=
  [0; 1; 62; 28; 27;  36; 44; 6; 55; 20;  3; 10; 43; 25; 39;  41; 45; 15; 21; 8;  18; 2; 61; 56; 14].

Definition lane (st : list Z) (x y : nat) : Z := nth (x mod 5 + 5 * (y mod 5)) st 0.

Definition keccak_round (st : list Z) (rc : Z) : list Z :=
  let c := map (fun x => fold_left Z.lxor (map (fun y => lane st x y) (seq 0 5)) 0) (seq 0 5) in
  let d := map (fun x => Z.lxor (nth ((x + 4) mod 5) c 0) (rotl (nth ((x + 1) mod 5) c 0) 1)) (seq 0 5) in
  let a := map (fun i => Z.lxor (nth i st 0) (nth (i mod 5) d 0)) (seq 0 25) in
  (* rho and pi: B[y, 2x+3y] = rot(A[x,y]) *)
  let b := map (fun j => (* j = X + 5 Y with X = y, Y = 2x + 3y: invert *)
                  let X := (j mod 5)%nat in let Y := (j / 5)%nat in
                  (* y = X, 2x + 3y = Y mod 5 -> x = (Y + 2 X) * 3 mod 5 ... solve by search *)
                  let x := hd 0%nat (filter (fun x => Nat.eqb ((2 * x + 3 * X) mod 5) Y) (seq 0 5)) in
                  rotl (nth (x + 5 * X) a 0) (nth (x + 5 * X) rho_offsets 0)) (seq 0 25) in
  let chi := map (fun i => let x := (i mod 5)%nat in let y := (i / 5)%nat in
                  Z.lxor (nth i b 0)
                    (Z.land (Z.lxor (nth ((x + 1) mod 5 + 5 * y) b 0) mask64) (nth ((x + 2) mod 5 + 5 * y) b 0)))
                 (seq 0 25) in
  match chi with
  | h :: tl => Z.lxor h rc :: tl
  | [] => []
  end.

Definition keccak_f (st : list Z) : list Z := fold_left keccak_round round_constants st.

(* bytes <-> lanes (little endian) *)
Fixpoint le_to_z (b : list Z) : Z := match b with [] => 0 | x :: tl => x + 256 * le_to_z tl end.
Fixpoint z_to_le (n : nat) (v : Z) : list Z := match n with O => [] | S n' => (v mod 256) :: z_to_le n' (v / 256) end.
Fixpoint chunks8 (n : nat) (b : list Z) : list (list Z) :=
  match n with O => [] | S n' => firstn 8 b :: chunks8 n' (skipn 8 b) end.
Definition bytes_to_lanes (b : list Z) : list Z := map le_to_z (chunks8 25 b).
Definition lanes_to_bytes (l : list Z) : list Z := flat_map (z_to_le 8) l.
Definition keccak_f_bytes (b : list Z) : list Z := lanes_to_bytes (keccak_f (bytes_to_lanes b)).

(* ---- STROBE-128 (merlin/src/strobe.rs) ---- *)
Definition STROBE_R : nat := 166.
Definition FLAG_I : Z := 1.  Definition FLAG_A : Z := 2.  Definition FLAG_C : Z := 4.
Definition FLAG_M : Z := 16. Definition FLAG_K : Z := 32.

Record strobe : Set := mkStrobe { st_bytes : list Z; st_pos : nat; st_pos_begin : nat; st_flags : Z }.

Definition upd (l : list Z) (i : nat) (f : Z -> Z) : list Z :=
  firstn i l ++ f (nth i l 0) :: skipn (S i) l.

Definition run_f (s : strobe) : strobe :=
  let b := upd (st_bytes s) (st_pos s) (fun x => Z.lxor x (Z.of_nat (st_pos_begin s))) in
  let b := upd b (S (st_pos s)) (fun x => Z.lxor x 4) in
  let b := upd b (S STROBE_R) (fun x => Z.lxor x 128) in
  mkStrobe (keccak_f_bytes b) 0 0 (st_flags s).

Fixpoint absorb (data : list Z) (s : strobe) : strobe :=
  match data with
  | [] => s
  | x :: tl =>
      let s1 := mkStrobe (upd (st_bytes s) (st_pos s) (fun y => Z.lxor y x)) (S (st_pos s)) (st_pos_begin s) (st_flags s) in
      absorb tl (if Nat.eqb (st_pos s1) STROBE_R then run_f s1 else s1)
  end.

Fixpoint squeeze (n : nat) (s : strobe) : list Z * strobe :=
  match n with
  | O => ([], s)
  | S n' =>
      let x := nth (st_pos s) (st_bytes s) 0 in
      let s1 := mkStrobe (upd (st_bytes s) (st_pos s) (fun _ => 0)) (S (st_pos s)) (st_pos_begin s) (st_flags s) in
      let '(rest, s2) := squeeze n' (if Nat.eqb (st_pos s1) STROBE_R then run_f s1 else s1) in
      (x :: rest, s2)
  end.

Definition begin_op (flags : Z) (more : bool) (s : strobe) : strobe :=
  if more then s
  else
    let old_begin := st_pos_begin s in
    let s1 := mkStrobe (st_bytes s) (st_pos s) (S (st_pos s)) flags in
    let s2 := absorb [Z.of_nat old_begin; flags] s1 in
    if negb (Z.land flags (Z.lor FLAG_C FLAG_K) =? 0) && negb (Nat.eqb (st_pos s2) 0) then run_f s2 else s2.

Definition meta_ad (data : list Z) (more : bool) (s : strobe) : strobe := absorb data (begin_op (Z.lor FLAG_M FLAG_A) more s).
Definition ad (data : list Z) (more : bool) (s : strobe) : strobe := absorb data (begin_op FLAG_A more s).
Definition prf (n : nat) (s : strobe) : list Z * strobe := squeeze n (begin_op (Z.lor FLAG_I (Z.lor FLAG_A FLAG_C)) false s).

Definition ascii (s : list Z) := s.

Definition strobe_new (protocol_label : list Z) : strobe :=
  let init := [1; Z.of_nat STROBE_R + 2; 1; 0; 1; 96] ++ [83;84;82;79;66;69;118;49;46;48;46;50] (* "STROBEv1.0.2" *) ++ repeat 0 182 in
  meta_ad protocol_label false (mkStrobe (keccak_f_bytes init) 0 0 0).

(* ---- Merlin transcript ---- *)
Definition merlin_label : list Z := [77;101;114;108;105;110;32;118;49;46;48].   (* "Merlin v1.0" *)
Definition le32 (n : nat) : list Z := z_to_le 4 (Z.of_nat n).

Definition append_message (label msg : list Z) (s : strobe) : strobe :=
  ad msg false (meta_ad (le32 (length msg)) true (meta_ad label false s)).

Definition challenge_bytes (label : list Z) (n : nat) (s : strobe) : list Z * strobe :=
  prf n (meta_ad (le32 n) true (meta_ad label false s)).

Definition transcript_new (label : list Z) : strobe :=
  append_message [100;111;109;45;115;101;112] (* "dom-sep" *) label (strobe_new merlin_label).

Definition append_u64 (label : list Z) (x : Z) (s : strobe) : strobe := append_message label (z_to_le 8 x) s.
