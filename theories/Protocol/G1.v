(* Executable BLS12-381 G1 reference (Fp, Jacobian arithmetic, compressed
   decoding with all validity checks). Unverified: it is a test oracle of the
   reference verifier; a bug here shows up as a disagreement with the real
   verifier on the unchanged tree. *)
From Coq Require Import ZArith List Bool.
From PlonkV Require Import Base.Fr.
Import ListNotations.
Local Open Scope Z_scope.

Definition fp_p : Z :=
  0x1a0111ea397fe69a4b1ba7b6434bacd764774b84f38512bf6730d2a0f6b0f6241eabfffeb153ffffb9feffffffffaaab.

Definition fp (z : Z) : Z := z mod fp_p.
Definition fp_add a b := fp (a + b).
Definition fp_sub a b := fp (a - b).
Definition fp_mul a b := fp (a * b).

Fixpoint fp_pow_pos (x : Z) (e : positive) : Z :=
  match e with
  | xH => x
  | xO e' => let y := fp_pow_pos x e' in fp_mul y y
  | xI e' => let y := fp_pow_pos x e' in fp_mul x (fp_mul y y)
  end.
Definition fp_pow (x : Z) (e : Z) : Z := match e with Zpos q => fp_pow_pos x q | _ => 1 end.
Definition fp_inv (x : Z) : Z := fp_pow x (fp_p - 2).

(* Jacobian points; Z = 0 is the identity *)
Record g1 : Set := mkG1 { gx : Z; gy : Z; gz : Z }.
Definition g1_id : g1 := mkG1 0 1 0.
Definition g1_is_id (P : g1) : bool := gz P =? 0.

Definition g1_double (P : g1) : g1 :=
  if g1_is_id P then P else
  let a := fp_mul (gx P) (gx P) in
  let b := fp_mul (gy P) (gy P) in
  let c := fp_mul b b in
  let xb := fp_add (gx P) b in
  let d := fp_mul 2 (fp_sub (fp_sub (fp_mul xb xb) a) c) in
  let e := fp_mul 3 a in
  let f := fp_mul e e in
  let x3 := fp_sub f (fp_mul 2 d) in
  let y3 := fp_sub (fp_mul e (fp_sub d x3)) (fp_mul 8 c) in
  let z3 := fp_mul 2 (fp_mul (gy P) (gz P)) in
  mkG1 x3 y3 z3.

Definition g1_add (P Q : g1) : g1 :=
  if g1_is_id P then Q else if g1_is_id Q then P else
  let z1z1 := fp_mul (gz P) (gz P) in
  let z2z2 := fp_mul (gz Q) (gz Q) in
  let u1 := fp_mul (gx P) z2z2 in
  let u2 := fp_mul (gx Q) z1z1 in
  let s1 := fp_mul (gy P) (fp_mul (gz Q) z2z2) in
  let s2 := fp_mul (gy Q) (fp_mul (gz P) z1z1) in
  if u1 =? u2 then (if s1 =? s2 then g1_double P else g1_id) else
  let h := fp_sub u2 u1 in
  let i := fp_mul 4 (fp_mul h h) in
  let j := fp_mul h i in
  let rr := fp_mul 2 (fp_sub s2 s1) in
  let v := fp_mul u1 i in
  let x3 := fp_sub (fp_sub (fp_mul rr rr) j) (fp_mul 2 v) in
  let y3 := fp_sub (fp_mul rr (fp_sub v x3)) (fp_mul 2 (fp_mul s1 j)) in
  let zz := fp_add (gz P) (gz Q) in
  let z3 := fp_mul (fp_sub (fp_sub (fp_mul zz zz) z1z1) z2z2) h in
  mkG1 x3 y3 z3.

Definition g1_neg (P : g1) : g1 := mkG1 (gx P) (fp (- gy P)) (gz P).

Fixpoint g1_mul_pos (P : g1) (e : positive) : g1 :=
  match e with
  | xH => P
  | xO e' => g1_double (g1_mul_pos P e')
  | xI e' => g1_add P (g1_double (g1_mul_pos P e'))
  end.
Definition g1_mul (P : g1) (s : Z) : g1 := match s with Zpos q => g1_mul_pos P q | _ => g1_id end.

Definition g1_eqb (P Q : g1) : bool :=
  match g1_is_id P, g1_is_id Q with
  | true, true => true
  | false, false =>
      let z1z1 := fp_mul (gz P) (gz P) in let z2z2 := fp_mul (gz Q) (gz Q) in
      (fp_mul (gx P) z2z2 =? fp_mul (gx Q) z1z1) &&
      (fp_mul (gy P) (fp_mul (gz Q) z2z2) =? fp_mul (gy Q) (fp_mul (gz P) z1z1))
  | _, _ => false
  end.

Definition g1_msm (l : list (g1 * Z)) : g1 :=
  fold_left (fun acc '(P, s) => g1_add acc (g1_mul P s)) l g1_id.

(* big-endian bytes *)
Fixpoint be_to_z (b : list Z) (acc : Z) : Z := match b with [] => acc | x :: tl => be_to_z tl (acc * 256 + x) end.

(* G1Affine::from_bytes (compressed, 48 bytes): flags, canonical x, on curve,
   sign of y, prime-order subgroup *)
Definition g1_decompress (b : list Z) : option g1 :=
  match b with
  | [] => None
  | b0 :: tl =>
    if negb (Nat.eqb (length b) 48) then None else
    let compression := Z.testbit b0 7 in
    let infinity := Z.testbit b0 6 in
    let sort := Z.testbit b0 5 in
    let x := be_to_z tl (Z.land b0 31) in
    if negb compression then None
    else if infinity then (if (x =? 0) && negb sort then Some g1_id else None)
    else if fp_p <=? x then None
    else
      let rhs := fp_add (fp_mul x (fp_mul x x)) 4 in
      let y := fp_pow rhs ((fp_p + 1) / 4) in
      if negb (fp_mul y y =? rhs) then None
      else
        let largest := (fp_p - 1) / 2 <? y in
        let y' := if Bool.eqb largest sort then y else fp (- y) in
        let P := mkG1 x y' 1 in
        if g1_is_id (g1_mul P r) then Some P else None
  end.

(* affine coordinates and compressed encoding (for adversarial proof construction) *)
Definition g1_affine (P : g1) : Z * Z :=
  let zi := fp_inv (gz P) in let zi2 := fp_mul zi zi in
  (fp_mul (gx P) zi2, fp_mul (gy P) (fp_mul zi2 zi)).

Fixpoint z_to_be (n : nat) (v : Z) (acc : list Z) : list Z :=
  match n with O => acc | S n' => z_to_be n' (v / 256) ((v mod 256) :: acc) end.

Definition g1_compress (P : g1) : list Z :=
  if g1_is_id P then 192 :: repeat 0 47
  else
    let '(x, y) := g1_affine P in
    match z_to_be 48 x [] with
    | b0 :: tl => (Z.lor b0 (if (fp_p - 1) / 2 <? y then 160 else 128)) :: tl
    | [] => []
    end.

(* base + s * g on compressed encodings *)
Definition g1_lin (base : list Z) (s : Z) (g : list Z) : option (list Z) :=
  match g1_decompress base, g1_decompress g with
  | Some B, Some G => Some (g1_compress (g1_add B (g1_mul G (s mod r))))
  | _, _ => None
  end.
