(* C01/C15/C20: sizes. Compiler::compile_with_composer pads to
   n = npo2(constraints + 6) and trims the SRS to n + 6; the compressed route
   first bounds the description by max_constraints(pp).  Both succeed for
   exactly the same parameter capacities. *)
From Coq Require Import Arith Lia List.
From PlonkV Require Import Gates.CS Gates.CSFacts.
Local Open Scope nat_scope.

Definition is_pow2 (x : nat) : Prop := exists k, x = 2 ^ k.

Lemma npo2_aux_pow2 fuel : forall p n, is_pow2 p -> is_pow2 (npo2_aux fuel p n).
Proof.
  induction fuel as [|f IH]; intros p n Hp; cbn [npo2_aux]; [exact Hp|].
  destruct (Nat.leb n p); [exact Hp|]. apply IH. destruct Hp as [k ->]. exists (S k). cbn. lia.
Qed.

Lemma npo2_pow2 n : is_pow2 (npo2 n).
Proof. apply npo2_aux_pow2. exists 0. reflexivity. Qed.

(* minimality among powers of two *)
Lemma npo2_aux_min fuel : forall j n m, 2 ^ j <= 2 ^ m -> n <= 2 ^ m -> npo2_aux fuel (2 ^ j) n <= 2 ^ m.
Proof.
  induction fuel as [|f IH]; intros j n m Hj Hn; cbn [npo2_aux]; [exact Hj|].
  destruct (Nat.leb_spec n (2 ^ j)); [exact Hj|].
  replace (2 * 2 ^ j) with (2 ^ S j) by (cbn; lia). apply IH; [|exact Hn].
  assert (j < m) by (apply (Nat.pow_lt_mono_r_iff 2); lia).
  apply Nat.pow_le_mono_r; lia.
Qed.

Lemma npo2_min n m : n <= 2 ^ m -> npo2 n <= 2 ^ m.
Proof.
  intros H. unfold npo2. change 1 with (2 ^ 0). apply npo2_aux_min; [|exact H].
  apply Nat.pow_le_mono_r; lia.
Qed.

(* largest power of two <= d (0 for d = 0): `1 << (BITS - leading_zeros - 1)` *)
Fixpoint fpo2_aux (fuel p d : nat) : nat :=
  match fuel with
  | O => p
  | S f => if 2 * p <=? d then fpo2_aux f (2 * p) d else p
  end.
Definition fpo2 (d : nat) : nat := if d =? 0 then 0 else fpo2_aux d 1 d.

Lemma fpo2_aux_spec fuel : forall j d, 2 ^ j <= d -> d < 2 ^ j * 2 ^ S fuel ->
  exists k, fpo2_aux fuel (2 ^ j) d = 2 ^ k /\ 2 ^ k <= d < 2 ^ S k.
Proof.
  induction fuel as [|f IH]; intros j d Hlo Hhi; cbn [fpo2_aux].
  - exists j. split; [reflexivity|]. cbn in *. lia.
  - destruct (Nat.leb_spec (2 * 2 ^ j) d).
    + replace (2 * 2 ^ j) with (2 ^ S j) by (cbn; lia). apply IH; [cbn; lia|].
      cbn [Nat.pow] in *. lia.
    + exists j. split; [reflexivity|]. cbn [Nat.pow]. lia.
Qed.

Lemma fpo2_spec d : 0 < d -> exists k, fpo2 d = 2 ^ k /\ 2 ^ k <= d < 2 ^ S k.
Proof.
  intros Hd. unfold fpo2. destruct (Nat.eqb_spec d 0); [lia|].
  change 1 with (2 ^ 0). apply fpo2_aux_spec; [cbn; lia|].
  cbn [Nat.pow]. pose proof (Nat.pow_gt_lin_r 2 d ltac:(lia)). cbn [Nat.pow] in *. lia.
Qed.

(* Galois connection between the two roundings *)
Theorem npo2_le_iff x d : 1 <= x -> (npo2 x <= d <-> x <= fpo2 d).
Proof.
  intros Hx. split.
  - intros H. assert (Hd : 0 < d) by (pose proof (npo2_ge x); lia).
    destruct (fpo2_spec d Hd) as (k & -> & Hk1 & Hk2).
    destruct (npo2_pow2 x) as [j Hj]. pose proof (npo2_ge x) as Hge. rewrite Hj in *.
    assert (j <= k).
    { destruct (Nat.le_gt_cases j k); [assumption|exfalso].
      assert (2 ^ S k <= 2 ^ j) by (apply Nat.pow_le_mono_r; lia). lia. }
    assert (2 ^ j <= 2 ^ k) by (apply Nat.pow_le_mono_r; lia). lia.
  - intros H. destruct (Nat.eq_dec d 0) as [->|Hd]; [cbn in H; lia|].
    destruct (fpo2_spec d ltac:(lia)) as (k & E & Hk1 & Hk2). rewrite E in H.
    pose proof (npo2_min x k H). lia.
Qed.

(* model of the two capacity tests; deg = PublicParameters::max_degree() - 6,
   i.e. the degree passed to setup *)
Definition direct_route_ok (constraints deg : nat) : bool := npo2 (constraints + 6) <=? deg.
Definition max_constraints (deg : nat) : nat := fpo2 deg - 6.
Definition compressed_route_ok (constraints deg : nat) : bool := constraints <=? max_constraints deg.

Theorem capacity_equiv constraints deg : 1 <= constraints ->
  direct_route_ok constraints deg = compressed_route_ok constraints deg.
Proof.
  intros Hc. unfold direct_route_ok, compressed_route_ok, max_constraints.
  apply Bool.eq_iff_eq_true. rewrite !Nat.leb_le.
  rewrite (npo2_le_iff (constraints + 6) deg ltac:(lia)). lia.
Qed.

(* the trimmed key (degree npo2(c+6) + 6) is long enough for every polynomial
   of degree at most domain size + 6 *)
Theorem trimmed_key_covers constraints : npo2 constraints + 6 <= npo2 (constraints + 6) + 6.
Proof.
  destruct (npo2_pow2 (constraints + 6)) as [k Hk].
  pose proof (npo2_ge (constraints + 6)). rewrite Hk in *.
  pose proof (npo2_min constraints k ltac:(lia)). lia.
Qed.
