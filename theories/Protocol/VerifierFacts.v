(* C03/C04: facts about the verifier's scalar computations and framing. *)
From Coq Require Import ZArith List Bool Arith Lia Ring Field.
From PlonkV Require Import Base.Fr Base.FrFacts Alg.Poly Alg.PolyFacts Alg.RootBound Protocol.Keccak Codec.Bytes.
Import ListNotations.
Local Open Scope fr_scope.

Section WithPrime.
Context {PR : PrimeR}.
Add Field FrFieldV : fr_field_theory.

(* the fused evaluation: with root = w^-i, the term e / (root z - 1) * Z_H(z)/n
   the verifier sums is e * L_i(z), L_i(z) = w^i Z_H(z) / (n (z - w^i)) *)
Theorem fused_term_is_lagrange e root wi z zh nF :
  root * wi = 1 -> z - wi <> 0 -> nF <> 0 -> wi <> 0 ->
  finv (root * z - 1) * e * zh * finv nF = e * (wi * zh * finv (nF * (z - wi))).
Proof.
  intros Hr Hz Hn Hw.
  assert (Ezw : z - wi = wi * (root * z - 1)).
  { transitivity ((root * wi) * z - wi); [rewrite Hr; ring|ring]. }
  assert (Hden : root * z - 1 <> 0).
  { intros E. apply Hz. rewrite Ezw, E. ring. }
  rewrite Ezw. field. repeat split; assumption.
Qed.

(* the first Lagrange polynomial at z *)
Theorem l1_eval_formula z zh nF : nF * (z - 1) <> 0 ->
  zh * finv (nF * (z - 1)) = 1 * zh * finv (nF * (z - 1)).
Proof. intros _. ring. Qed.

(* statement binding: two coefficient vectors of length <= n that agree on n
   distinct points are equal as functions (their difference is identically zero) *)
Theorem agree_on_n_points_equal n p q pts :
  (length p <= n)%nat -> (length q <= n)%nat -> NoDup pts -> length pts = n ->
  (forall z, In z pts -> peval p z = peval q z) -> forall x, peval p x = peval q x.
Proof.
  intros Hp Hq Hnd Hl H x.
  assert (Z : all_zero (psub p q)).
  { apply (roots_all_zero n _ pts); [|exact Hnd|exact Hl|].
    - unfold psub. clear -Hp Hq. revert q n Hp Hq. induction p as [|a p IH]; intros q n Hp Hq.
      + cbn [padd]. unfold pneg. rewrite map_length. exact Hq.
      + destruct q as [|b q]; cbn [pneg map padd length] in *; [exact Hp|].
        destruct n; [lia|]. specialize (IH q n ltac:(lia) ltac:(lia)). unfold pneg in IH. lia.
    - intros z Hz. rewrite peval_psub, (H z Hz). ring. }
  pose proof (all_zero_peval _ x Z) as E. rewrite peval_psub in E.
  apply (fr_from_zero _ _ _ E). ring.
Qed.

End WithPrime.

(* Merlin framing: a message is absorbed as LE32(length) followed by the bytes;
   two framed messages with the same remaining stream are equal *)
Lemma z_to_le_inj n : forall a b, (0 <= a < 256 ^ Z.of_nat n)%Z -> (0 <= b < 256 ^ Z.of_nat n)%Z ->
  z_to_le n a = z_to_le n b -> a = b.
Proof.
  induction n as [|n IH]; intros a b Ha Hb H.
  - cbn in *. lia.
  - cbn [z_to_le] in H. inversion H as [[H0 H1]].
    rewrite Nat2Z.inj_succ, Z.pow_succ_r in Ha, Hb by lia.
    assert (a / 256 = b / 256)%Z.
    { apply IH; [| |exact H1]; split; try (apply Z.div_pos; lia); apply Z.div_lt_upper_bound; lia. }
    rewrite (Z.div_mod a 256), (Z.div_mod b 256) by lia. congruence.
Qed.

Theorem frame_injective (m1 m2 r1 r2 : list Z) :
  (Z.of_nat (length m1) < 256 ^ 4)%Z -> (Z.of_nat (length m2) < 256 ^ 4)%Z ->
  le32 (length m1) ++ m1 ++ r1 = le32 (length m2) ++ m2 ++ r2 ->
  m1 = m2 /\ r1 = r2.
Proof.
  intros H1 H2 E. unfold le32 in E.
  assert (L : forall n v, length (z_to_le n v) = n) by (induction n; intros; cbn [z_to_le length]; [reflexivity|now rewrite IHn]).
  pose proof (f_equal (firstn 4) E) as E1.
  rewrite (firstn_exact _ _ 4 (L 4%nat _)), (firstn_exact _ _ 4 (L 4%nat _)) in E1.
  apply z_to_le_inj in E1; [|change (Z.of_nat 4) with 4%Z; lia|change (Z.of_nat 4) with 4%Z; lia].
  apply Nat2Z.inj in E1.
  pose proof (f_equal (skipn 4) E) as E2.
  rewrite (skipn_exact _ _ 4 (L 4%nat _)), (skipn_exact _ _ 4 (L 4%nat _)) in E2.
  pose proof (f_equal (firstn (length m1)) E2) as E3.
  rewrite (firstn_exact m1 r1 _ eq_refl), (firstn_exact m2 r2 _ (eq_sym E1)) in E3.
  subst m2. apply app_inv_head in E2. auto.
Qed.
