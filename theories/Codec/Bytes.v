(* C16/C17: length-prefixed byte layouts (the shape of ProverKey / Polynomial /
   Evaluations / CommitKey encodings): round trip, exact size, and the bound
   "a decoder never builds more than its input holds". *)
From Coq Require Import NArith List Bool Arith Lia.
Import ListNotations.
Local Open Scope nat_scope.

Definition byte := N.
Definition bytes := list byte.

(* little-endian fixed-width integers *)
Fixpoint le_bytes (n : nat) (v : N) : bytes :=
  match n with O => [] | S n' => (v mod 256)%N :: le_bytes n' (v / 256)%N end.
Fixpoint le_value (b : bytes) : N :=
  match b with [] => 0%N | x :: tl => (x + 256 * le_value tl)%N end.

Lemma le_bytes_length n v : length (le_bytes n v) = n.
Proof. revert v. induction n; intros v; cbn [le_bytes length]; [reflexivity|]. now rewrite IHn. Qed.

Lemma le_roundtrip n : forall v, (v < 256 ^ N.of_nat n)%N -> le_value (le_bytes n v) = v.
Proof.
  induction n as [|n IH]; intros v Hv.
  - cbn in *. lia.
  - cbn [le_bytes le_value]. rewrite IH.
    + pose proof (N.div_mod v 256 ltac:(lia)). lia.
    + rewrite Nat2N.inj_succ, N.pow_succ_r' in Hv. apply N.div_lt_upper_bound; lia.
Qed.

Lemma firstn_exact {A} (l r : list A) k : length l = k -> firstn k (l ++ r) = l.
Proof. intros <-. rewrite firstn_app, Nat.sub_diag, firstn_O, app_nil_r. apply firstn_all. Qed.
Lemma skipn_exact {A} (l r : list A) k : length l = k -> skipn k (l ++ r) = r.
Proof. intros <-. rewrite skipn_app, Nat.sub_diag, skipn_all. reflexivity. Qed.

Section Vec.
Context {A : Type}.
Variable k : nat.                       (* element size in bytes *)
Variable enc : A -> bytes.
Variable dec : bytes -> option A.
Hypothesis enc_len : forall x, length (enc x) = k.
Hypothesis dec_enc : forall x, dec (enc x) = Some x.

Fixpoint take_elems (n : nat) (b : bytes) : option (list A * bytes) :=
  match n with
  | O => Some ([], b)
  | S n' =>
      match dec (firstn k b) with
      | Some x => match take_elems n' (skipn k b) with
                  | Some (xs, rest) => Some (x :: xs, rest)
                  | None => None
                  end
      | None => None
      end
  end.

Definition encode_vec (xs : list A) : bytes :=
  le_bytes 8 (N.of_nat (length xs)) ++ concat (map enc xs).

(* the length field is validated against the remaining input BEFORE anything
   is built (the "checked" decoders: NotEnoughBytes) *)
Definition decode_vec (b : bytes) : option (list A * bytes) :=
  if length b <? 8 then None
  else
    let n := N.to_nat (le_value (firstn 8 b)) in
    let body := skipn 8 b in
    if length body <? n * k then None else take_elems n body.

Lemma take_elems_enc xs : forall rest,
  take_elems (length xs) (concat (map enc xs) ++ rest) = Some (xs, rest).
Proof.
  induction xs as [|x xs IH]; intros rest; cbn [length take_elems map concat app]; [reflexivity|].
  rewrite <- app_assoc.
  rewrite (firstn_exact (enc x) _ k (enc_len x)), dec_enc.
  rewrite (skipn_exact (enc x) _ k (enc_len x)). now rewrite IH.
Qed.

Lemma concat_enc_length xs : length (concat (map enc xs)) = length xs * k.
Proof. induction xs; cbn [map concat length]; [reflexivity|]. rewrite app_length, enc_len, IHxs. lia. Qed.

Theorem vec_roundtrip xs rest :
  (N.of_nat (length xs) < 256 ^ 8)%N ->
  decode_vec (encode_vec xs ++ rest) = Some (xs, rest).
Proof.
  intros Hlen. unfold decode_vec, encode_vec. rewrite <- app_assoc.
  rewrite !app_length, le_bytes_length.
  replace (8 + _ <? 8) with false by (symmetry; apply Nat.ltb_ge; lia).
  rewrite (firstn_exact _ _ 8 (le_bytes_length 8 _)), (skipn_exact _ _ 8 (le_bytes_length 8 _)).
  rewrite (le_roundtrip 8) by exact Hlen. rewrite Nat2N.id.
  rewrite app_length, concat_enc_length.
  replace (length xs * k + length rest <? length xs * k) with false by (symmetry; apply Nat.ltb_ge; lia).
  apply take_elems_enc.
Qed.

(* exact size: 8 + k * len, for every length (the post-F1 serialization_size) *)
Theorem vec_size xs : length (encode_vec xs) = 8 + k * length xs.
Proof. unfold encode_vec. rewrite app_length, le_bytes_length, concat_enc_length. lia. Qed.

(* boundedness: whatever is accepted was paid for by input bytes *)
Lemma take_elems_length n : forall b xs rest, take_elems n b = Some (xs, rest) -> length xs = n.
Proof.
  induction n as [|n IH]; intros b xs rest H; cbn [take_elems] in H.
  - inversion H; reflexivity.
  - destruct (dec (firstn k b)); [|discriminate].
    destruct (take_elems n (skipn k b)) as [[ys r]|] eqn:E; [|discriminate].
    inversion H; subst. cbn [length]. f_equal. eapply IH; exact E.
Qed.

Theorem decode_vec_bounded b xs rest :
  decode_vec b = Some (xs, rest) -> 8 + k * length xs <= length b.
Proof.
  unfold decode_vec. destruct (Nat.ltb_spec (length b) 8); [discriminate|].
  destruct (Nat.ltb_spec (length (skipn 8 b)) (N.to_nat (le_value (firstn 8 b)) * k)); [discriminate|].
  intros E. apply take_elems_length in E. rewrite skipn_length in *. nia.
Qed.

(* a sequence of vectors (the fifteen polynomials of a prover key): the total
   size is the sum of the actual sizes *)
Definition encode_vecs (vs : list (list A)) : bytes := concat (map encode_vec vs).

Theorem vecs_size vs :
  length (encode_vecs vs) = fold_right (fun v acc => 8 + k * length v + acc) 0 vs.
Proof.
  unfold encode_vecs. induction vs as [|v vs IH]; cbn [map concat fold_right length]; [reflexivity|].
  rewrite app_length, vec_size, IH. lia.
Qed.

Fixpoint decode_vecs (n : nat) (b : bytes) : option (list (list A) * bytes) :=
  match n with
  | O => Some ([], b)
  | S n' => match decode_vec b with
            | Some (v, rest) => match decode_vecs n' rest with
                                | Some (vs, r) => Some (v :: vs, r)
                                | None => None
                                end
            | None => None
            end
  end.

Theorem vecs_roundtrip vs : forall rest,
  Forall (fun v => (N.of_nat (length v) < 256 ^ 8)%N) vs ->
  decode_vecs (length vs) (encode_vecs vs ++ rest) = Some (vs, rest).
Proof.
  induction vs as [|v vs IH]; intros rest H; cbn [length decode_vecs]; [reflexivity|].
  inversion H as [|? ? Hv Hvs]; subst.
  unfold encode_vecs. cbn [map concat]. rewrite <- app_assoc.
  rewrite vec_roundtrip by exact Hv. fold (encode_vecs vs). now rewrite IH.
Qed.

End Vec.
