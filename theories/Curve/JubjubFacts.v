(* Facts about the embedded curve: completeness of the addition law for
   on-curve points (d a non-square, -1 a square), closure, neutral element,
   inverses.  [NonSquareD] is a hypothesis carried by the statements. *)
From Coq Require Import ZArith List Bool Ring Field nsatz.NsatzTactic.
From PlonkV Require Import Base.Fr Base.FrFacts Base.FrNsatz Gates.Gate Gates.CSFacts Curve.Jubjub.
Import ListNotations.
Local Open Scope fr_scope.

Class NonSquareD : Prop := nonsquare_d : forall s : Fr, s * s <> ed_d.

(* a square root of -1 in Fr *)
Definition im : Fr := F 0x8d51ccce760304d0ec030002760300000001000000000000.
Lemma im_sq : im * im = - (1).
Proof. apply fr_eq. vm_compute. reflexivity. Qed.

(* Euler's criterion value for d: with Fermat's little theorem (not built here)
   this is exactly [NonSquareD]; recorded as a closed computation *)
Lemma ed_d_euler : fpow ed_d (Z.to_N ((r - 1) / 2)) = - (1).
Proof. apply fr_eq. vm_compute. reflexivity. Qed.

Section Curve.
Context {PR : PrimeR} {ND : NonSquareD}.
Add Field FrFieldJ : fr_field_theory.

Lemma on_curveb_spec p : on_curveb p = true <-> on_curve p.
Proof. unfold on_curveb, on_curve. destruct (feqb_spec (curve_lhs (fst p) (snd p)) (curve_rhs (fst p) (snd p))); split; intros; congruence. Qed.

Lemma key_plus (d i x1 y1 x2 y2 : Fr) :
  y1 * y1 - x1 * x1 = 1 + d * (x1 * x1) * (y1 * y1) ->
  y2 * y2 - x2 * x2 = 1 + d * (x2 * x2) * (y2 * y2) ->
  i * i = - (1) ->
  (d * (x1 * y2) * (y1 * x2)) * (d * (x1 * y2) * (y1 * x2)) = 1 ->
  (i * x1 + (d * (x1 * y2) * (y1 * x2)) * y1) * (i * x1 + (d * (x1 * y2) * (y1 * x2)) * y1)
  = d * (x1 * y1 * (i * x2 + y2)) * (x1 * y1 * (i * x2 + y2)).
Proof. intros. nsatz. Qed.
Lemma key_minus (d i x1 y1 x2 y2 : Fr) :
  y1 * y1 - x1 * x1 = 1 + d * (x1 * x1) * (y1 * y1) ->
  y2 * y2 - x2 * x2 = 1 + d * (x2 * x2) * (y2 * y2) ->
  i * i = - (1) ->
  (d * (x1 * y2) * (y1 * x2)) * (d * (x1 * y2) * (y1 * x2)) = 1 ->
  (i * x1 - (d * (x1 * y2) * (y1 * x2)) * y1) * (i * x1 - (d * (x1 * y2) * (y1 * x2)) * y1)
  = d * (x1 * y1 * (i * x2 - y2)) * (x1 * y1 * (i * x2 - y2)).
Proof. intros. nsatz. Qed.

Lemma on_curve_eq x y : on_curve (x, y) <-> y * y - x * x = 1 + ed_d * (x * x) * (y * y).
Proof. reflexivity. Qed.

(* if t^2 = 1 for two on-curve points then d is a square *)
Lemma complete_aux x1 y1 x2 y2 :
  on_curve (x1, y1) -> on_curve (x2, y2) ->
  let t := ed_d * (x1 * y2) * (y1 * x2) in
  t * t = 1 -> False.
Proof.
  intros C1 C2 t Ht. rewrite on_curve_eq in C1, C2. subst t.
  pose proof im_sq as I.
  set (t := ed_d * (x1 * y2) * (y1 * x2)) in *.
  assert (Kp : (im * x1 + t * y1) * (im * x1 + t * y1)
               = ed_d * (x1 * y1 * (im * x2 + y2)) * (x1 * y1 * (im * x2 + y2))).
  { subst t. apply key_plus; assumption. }
  assert (Km : (im * x1 - t * y1) * (im * x1 - t * y1)
               = ed_d * (x1 * y1 * (im * x2 - y2)) * (x1 * y1 * (im * x2 - y2))).
  { subst t. apply key_minus; assumption. }
  assert (Hx1y1 : x1 * y1 <> 0).
  { intros E. assert (t = 0) by (subst t; transitivity (ed_d * x2 * y2 * (x1 * y1)); [ring|rewrite E; ring]).
    rewrite H in Ht. apply fone_neq_fzero. rewrite <- Ht. ring. }
  assert (Hy2 : y2 <> 0).
  { intros E. assert (t = 0) by (subst t; rewrite E; ring).
    rewrite H in Ht. apply fone_neq_fzero. rewrite <- Ht. ring. }
  destruct (feqb_spec (im * x2 + y2) 0) as [Ep|Np].
  - destruct (feqb_spec (im * x2 - y2) 0) as [Em|Nm].
    + apply Hy2. assert (E2 : (1 + 1) * y2 = 0) by (transitivity ((im * x2 + y2) - (im * x2 - y2)); [ring|rewrite Ep, Em; ring]).
      apply fmul_integral in E2. destruct E2 as [E2|E2]; [|exact E2].
      exfalso. assert (Hv : val (1 + 1) = val 0) by (rewrite E2; reflexivity). vm_compute in Hv. discriminate Hv.
    + set (u := x1 * y1 * (im * x2 - y2)) in *.
      assert (Hu : u <> 0).
      { intros E. apply fmul_integral in E. destruct E as [E|E]; [exact (Hx1y1 E)|exact (Nm E)]. }
      apply (nonsquare_d ((im * x1 - t * y1) * finv u)).
      transitivity ((im * x1 - t * y1) * (im * x1 - t * y1) * (finv u * finv u)); [ring|].
      rewrite Km. field. exact Hu.
  - set (u := x1 * y1 * (im * x2 + y2)) in *.
    assert (Hu : u <> 0).
    { intros E. apply fmul_integral in E. destruct E as [E|E]; [exact (Hx1y1 E)|exact (Np E)]. }
    apply (nonsquare_d ((im * x1 + t * y1) * finv u)).
    transitivity ((im * x1 + t * y1) * (im * x1 + t * y1) * (finv u * finv u)); [ring|].
    rewrite Kp. field. exact Hu.
Qed.

(* completeness: the denominators never vanish on the curve *)
Theorem ed_complete p q : on_curve p -> on_curve q -> (1 + ed_t p q) * (1 - ed_t p q) <> 0.
Proof.
  destruct p as [x1 y1], q as [x2 y2]. intros C1 C2 H.
  apply (complete_aux x1 y1 x2 y2 C1 C2). unfold ed_t in H. cbn [fst snd] in H.
  apply (fr_from_zero' _ _ _ (eq_sym (eq_sym H))). ring.
Qed.

Lemma ed_denoms p q : on_curve p -> on_curve q -> 1 + ed_t p q <> 0 /\ 1 - ed_t p q <> 0.
Proof.
  intros C1 C2. pose proof (ed_complete p q C1 C2) as H. split; intros E; apply H; rewrite E; ring.
Qed.

Lemma ed_add_on p q : on_curve p -> on_curve q ->
  ed_add p q = ((fst p * snd q + snd p * fst q) * finv (1 + ed_t p q),
                (snd p * snd q + fst p * fst q) * finv (1 - ed_t p q)).
Proof.
  intros C1 C2. unfold ed_add. destruct (feqb_spec ((1 + ed_t p q) * (1 - ed_t p q)) 0) as [E|N]; [|reflexivity].
  exfalso. exact (ed_complete p q C1 C2 E).
Qed.

(* closure: polynomial core, then cancellation of the (non-zero) denominators *)
Lemma closure_base (d x1 y1 x2 y2 : Fr) :
  y1 * y1 - x1 * x1 = 1 + d * (x1 * x1) * (y1 * y1) ->
  y2 * y2 - x2 * x2 = 1 + d * (x2 * x2) * (y2 * y2) ->
  let T := d * (x1 * y2) * (y1 * x2) in
  let Nx := x1 * y2 + y1 * x2 in let Ny := y1 * y2 + x1 * x2 in
  (1 + T) * (1 + T) * (Ny * Ny) - (1 - T) * (1 - T) * (Nx * Nx)
  - (1 + T) * (1 + T) * ((1 - T) * (1 - T)) - d * (Nx * Nx) * (Ny * Ny) = 0.
Proof.
  intros C1 C2 T Nx Ny. subst T Nx Ny.
  set (h1 := y1 * y1 - x1 * x1 - (1 + d * (x1 * x1) * (y1 * y1))).
  set (h2 := y2 * y2 - x2 * x2 - (1 + d * (x2 * x2) * (y2 * y2))).
  assert (E1 : h1 = 0) by (subst h1; rewrite C1; ring).
  assert (E2 : h2 = 0) by (subst h2; rewrite C2; ring).
  transitivity ((0 + 1 * (d*d*d*x1*x1*x2*x2*x2*x2*y1*y1*y2*y2*y2*y2) - 1 * (d*d*x1*x1*x2*x2*x2*x2*y2*y2*y2*y2) + 1 * (d*d*x2*x2*x2*x2*y1*y1*y2*y2*y2*y2) - 1 * (d*d*x2*x2*x2*x2*y2*y2*y2*y2) - 1 * (d*x1*x1*x2*x2*x2*x2*y2*y2) + 1 * (d*x1*x1*x2*x2*y2*y2*y2*y2) + 1 * (d*x2*x2*x2*x2*y1*y1*y2*y2) - (1+1) * (d*x2*x2*x2*x2*y2*y2*y2*y2) - 1 * (d*x2*x2*y1*y1*y2*y2*y2*y2) - (1+1) * (d*x2*x2*y2*y2) - (1+1) * (x2*x2*x2*x2*y2*y2) + 1 * (x2*x2*x2*x2) + (1+1) * (x2*x2*y2*y2*y2*y2) - ((1+1)*(1+1)) * (x2*x2*y2*y2) + 1 * (y2*y2*y2*y2)) * h1 + (0 + 1 * (d*x1*x1*x1*x1*x2*x2*y2*y2) + (1+1) * (d*x1*x1*x2*x2*y2*y2) + 1 * (d*x2*x2*y1*y1*y1*y1*y2*y2) - (1+1) * (d*x2*x2*y1*y1*y2*y2) + 1 * (d*x2*x2*y2*y2) + (1+1) * (x1*x1*x2*x2*y2*y2) - 1 * (x1*x1*x2*x2) + 1 * (x1*x1*y2*y2) - (1+1) * (x2*x2*y1*y1*y2*y2) + 1 * (x2*x2*y1*y1) + (1+1) * (x2*x2*y2*y2) - 1 * (x2*x2) - 1 * (y1*y1*y2*y2) + 1 * (y2*y2) + 1 * (1)) * h2).
  - subst h1 h2. ring.
  - rewrite E1, E2. ring.
Qed.

Lemma closure_core (d x1 y1 x2 y2 x3 y3 : Fr) :
  y1 * y1 - x1 * x1 = 1 + d * (x1 * x1) * (y1 * y1) ->
  y2 * y2 - x2 * x2 = 1 + d * (x2 * x2) * (y2 * y2) ->
  x3 * (1 + d * (x1 * y2) * (y1 * x2)) = x1 * y2 + y1 * x2 ->
  y3 * (1 - d * (x1 * y2) * (y1 * x2)) = y1 * y2 + x1 * x2 ->
  ((1 + d * (x1 * y2) * (y1 * x2)) * (1 - d * (x1 * y2) * (y1 * x2)))
  * ((1 + d * (x1 * y2) * (y1 * x2)) * (1 - d * (x1 * y2) * (y1 * x2)))
  * (y3 * y3 - x3 * x3 - (1 + d * (x3 * x3) * (y3 * y3))) = 0.
Proof.
  intros C1 C2 Hx Hy. pose proof (closure_base d x1 y1 x2 y2 C1 C2) as B. cbv zeta in B.
  set (T := d * (x1 * y2) * (y1 * x2)) in *.
  transitivity ((1 + T) * (1 + T) * ((y3 * (1 - T)) * (y3 * (1 - T)))
                - (1 - T) * (1 - T) * ((x3 * (1 + T)) * (x3 * (1 + T)))
                - (1 + T) * (1 + T) * ((1 - T) * (1 - T))
                - d * ((x3 * (1 + T)) * (x3 * (1 + T))) * ((y3 * (1 - T)) * (y3 * (1 - T)))); [ring|].
  rewrite Hx, Hy. exact B.
Qed.

(* the two equations of the variable-base / fixed-base widgets determine the sum *)
Theorem ed_add_unique p q x3 y3 :
  on_curve p -> on_curve q ->
  x3 * (1 + ed_t p q) = fst p * snd q + snd p * fst q ->
  y3 * (1 - ed_t p q) = snd p * snd q + fst p * fst q ->
  (x3, y3) = ed_add p q.
Proof.
  intros C1 C2 Hx Hy. rewrite ed_add_on by assumption.
  destruct (ed_denoms p q C1 C2) as [D1 D2].
  f_equal.
  - rewrite <- Hx. field. exact D1.
  - rewrite <- Hy. field. exact D2.
Qed.

Lemma ed_add_eqs p q : on_curve p -> on_curve q ->
  fst (ed_add p q) * (1 + ed_t p q) = fst p * snd q + snd p * fst q /\
  snd (ed_add p q) * (1 - ed_t p q) = snd p * snd q + fst p * fst q.
Proof.
  intros C1 C2. rewrite ed_add_on by assumption. destruct (ed_denoms p q C1 C2) as [D1 D2].
  cbn [fst snd]. split; field; assumption.
Qed.

Theorem ed_add_closed p q : on_curve p -> on_curve q -> on_curve (ed_add p q).
Proof.
  intros C1 C2. destruct (ed_add_eqs p q C1 C2) as [Hx Hy].
  destruct p as [x1 y1], q as [x2 y2]. set (s := ed_add (x1, y1) (x2, y2)) in *.
  destruct s as [x3 y3]. unfold ed_t in *. cbn [fst snd] in *.
  pose proof (ed_complete (x1, y1) (x2, y2) C1 C2) as Hc. unfold ed_t in Hc. cbn [fst snd] in Hc.
  rewrite on_curve_eq in *.
  pose proof (closure_core ed_d x1 y1 x2 y2 x3 y3 C1 C2 Hx Hy) as K.
  apply fmul_integral in K. destruct K as [K|K].
  - apply fmul_integral in K. destruct K as [K|K]; contradiction.
  - apply (fr_from_zero _ _ _ (eq_refl 0)). exact K.
Qed.

Lemma ed_id_on_curve : on_curve ed_id.
Proof. unfold on_curve, ed_id, curve_lhs, curve_rhs. cbn [fst snd]. ring. Qed.

Lemma ed_neg_on_curve p : on_curve p -> on_curve (ed_neg p).
Proof.
  unfold on_curve, ed_neg, curve_lhs, curve_rhs. cbn [fst snd]. intros H.
  transitivity (snd p * snd p - fst p * fst p); [ring|]. rewrite H. ring.
Qed.

Lemma ed_add_id_r p : on_curve p -> ed_add p ed_id = p.
Proof.
  intros C. symmetry. destruct p as [x y]. apply ed_add_unique; [exact C|exact ed_id_on_curve| |];
    unfold ed_t, ed_id; cbn [fst snd]; ring.
Qed.

Lemma ed_add_id_l p : on_curve p -> ed_add ed_id p = p.
Proof.
  intros C. symmetry. destruct p as [x y]. apply ed_add_unique; [exact ed_id_on_curve|exact C| |];
    unfold ed_t, ed_id; cbn [fst snd]; ring.
Qed.

Lemma ed_add_comm p q : on_curve p -> on_curve q -> ed_add p q = ed_add q p.
Proof.
  intros C1 C2. destruct (ed_add_eqs q p C2 C1) as [Hx Hy].
  rewrite (surjective_pairing (ed_add q p)). symmetry. apply ed_add_unique; try assumption.
  - (transitivity (fst (ed_add q p) * (1 + ed_t q p)); [unfold ed_t; ring|rewrite Hx; ring]).
  - transitivity (snd (ed_add q p) * (1 - ed_t q p)); [unfold ed_t; ring|rewrite Hy; ring].
Qed.

Theorem ed_add_neg p : on_curve p -> ed_add p (ed_neg p) = ed_id.
Proof.
  intros C. symmetry. apply ed_add_unique; [exact C|apply ed_neg_on_curve; exact C| |].
  - unfold ed_id, ed_neg, ed_t. cbn [fst snd]. ring.
  - unfold ed_id, ed_neg, ed_t. cbn [fst snd]. unfold on_curve, curve_lhs, curve_rhs in C.
    transitivity (1 + ed_d * (fst p * fst p) * (snd p * snd p)); [ring|]. rewrite <- C. ring.
Qed.

End Curve.
