(* Associativity of the twisted Edwards law on the curve, hence scalar
   multiplication by repeated addition is a homomorphism and the composer's
   MSB-first double-and-add IS the scalar multiple.
   The polynomial identities (numerator of (P+Q)+R - (P+(Q+R)) in the ideal of
   the three curve equations) carry explicit cofactors computed outside Coq and
   checked here by [ring]. *)
From Coq Require Import ZArith List Bool Ring Field Lia nsatz.NsatzTactic.
From PlonkV Require Import Base.Fr Base.FrFacts Base.FrNsatz Gates.Gate Gates.CSFacts Curve.Jubjub Curve.JubjubFacts.
Import ListNotations.
Local Open Scope fr_scope.

Definition cof_x1 (d x1 y1 x2 y2 x3 y3 : Fr) : Fr :=
  (0 + y1*x2*y2*y2*y2*y2*x3*x3*y3*d + y1*x2*x2*y2*y2*y2*x3*d + y1*x2*x2*y2*y2*y2*x3*x3*x3*d + y1*x2*x2*x2*y2*y2*y3*d - y1*x2*x2*x2*y2*y2*y3*y3*y3*d - y1*x2*x2*x2*y2*y2*y2*y2*x3*x3*y3*d*d - y1*x2*x2*x2*x2*y2*x3*y3*y3*d - y1*x2*x2*x2*x2*y2*y2*y2*x3*y3*y3*d*d - x1*x2*y2*y2*y2*y2*x3*y3*y3*d + x1*x2*x2*y2*y2*y2*y3*d - x1*x2*x2*y2*y2*y2*y3*y3*y3*d + x1*x2*x2*x2*y2*y2*x3*d + x1*x2*x2*x2*y2*y2*x3*x3*x3*d + x1*x2*x2*x2*y2*y2*y2*y2*x3*y3*y3*d*d + x1*x2*x2*x2*x2*y2*x3*x3*y3*d + x1*x2*x2*x2*x2*y2*y2*y2*x3*x3*y3*d*d).

Definition cof_x2 (d x1 y1 x2 y2 x3 y3 : Fr) : Fr :=
  (0 - y1*y2*x3 + y1*y2*x3*y3*y3 - y1*y2*x3*x3*x3 - y1*y2*x3*x3*x3*y3*y3*d - y1*x2*y3 + y1*x2*y3*y3*y3 - y1*x2*x3*x3*y3 - y1*x2*x3*x3*y3*y3*y3*d + y1*x2*y2*y2*x3*x3*y3*d + y1*x2*x2*y2*x3*y3*y3*d + y1*y1*y1*y2*x3 - y1*y1*y1*y2*x3*y3*y3 + y1*y1*y1*y2*x3*x3*x3 + y1*y1*y1*y2*x3*x3*x3*y3*y3*d + y1*y1*y1*x2*y3 - y1*y1*y1*x2*y3*y3*y3 + y1*y1*y1*x2*x3*x3*y3 + y1*y1*y1*x2*x3*x3*y3*y3*y3*d - y1*y1*y1*x2*y2*y2*x3*x3*y3*d - y1*y1*y1*x2*x2*y2*x3*y3*y3*d - x1*y2*y3 + x1*y2*y3*y3*y3 - x1*y2*x3*x3*y3 - x1*y2*x3*x3*y3*y3*y3*d - x1*x2*x3 + x1*x2*x3*y3*y3 - x1*x2*x3*x3*x3 - x1*x2*x3*x3*x3*y3*y3*d - x1*x2*y2*y2*x3*y3*y3*d - x1*x2*x2*y2*x3*x3*y3*d + x1*y1*y1*y2*y3 - x1*y1*y1*y2*y3*y3*y3 + x1*y1*y1*y2*x3*x3*y3 + x1*y1*y1*y2*x3*x3*y3*y3*y3*d + x1*y1*y1*x2*x3 - x1*y1*y1*x2*x3*y3*y3 + x1*y1*y1*x2*x3*x3*x3 + x1*y1*y1*x2*x3*x3*x3*y3*y3*d + x1*y1*y1*x2*y2*y2*x3*y3*y3*d - x1*y1*y1*x2*y2*y2*x3*x3*x3*y3*y3*d*d + x1*y1*y1*x2*x2*y2*x3*x3*y3*d + x1*y1*y1*x2*x2*y2*x3*x3*y3*y3*y3*d*d - x1*x1*y1*y2*x3 + x1*x1*y1*y2*x3*y3*y3 - x1*x1*y1*y2*x3*x3*x3 - x1*x1*y1*y2*x3*x3*x3*y3*y3*d - x1*x1*y1*x2*y3 + x1*x1*y1*x2*y3*y3*y3 - x1*x1*y1*x2*x3*x3*y3 - x1*x1*y1*x2*x3*x3*y3*y3*y3*d + x1*x1*y1*x2*y2*y2*x3*x3*y3*d + x1*x1*y1*x2*y2*y2*x3*x3*y3*y3*y3*d*d + x1*x1*y1*x2*x2*y2*x3*y3*y3*d - x1*x1*y1*x2*x2*y2*x3*x3*x3*y3*y3*d*d - x1*x1*x1*y2*y3 + x1*x1*x1*y2*y3*y3*y3 - x1*x1*x1*y2*x3*x3*y3 - x1*x1*x1*y2*x3*x3*y3*y3*y3*d - x1*x1*x1*x2*x3 + x1*x1*x1*x2*x3*y3*y3 - x1*x1*x1*x2*x3*x3*x3 - x1*x1*x1*x2*x3*x3*x3*y3*y3*d - x1*x1*x1*x2*y2*y2*x3*y3*y3*d - x1*x1*x1*x2*x2*y2*x3*x3*y3*d).

Definition cof_x3 (d x1 y1 x2 y2 x3 y3 : Fr) : Fr :=
  (0 + y1*y2*x3 - y1*y2*y2*y2*x3 + y1*x2*y3 - y1*x2*y2*y2*y3 + y1*x2*x2*y2*x3 + y1*x2*x2*x2*y3 - y1*y1*y1*y2*x3 + y1*y1*y1*y2*y2*y2*x3 - y1*y1*y1*x2*y3 + y1*y1*y1*x2*y2*y2*y3 - y1*y1*y1*x2*x2*y2*x3 - y1*y1*y1*x2*x2*x2*y3 + x1*y2*y3 - x1*y2*y2*y2*y3 + x1*x2*x3 - x1*x2*y2*y2*x3 + x1*x2*x2*y2*y3 + x1*x2*x2*x2*x3 - x1*y1*y1*y2*y3 + x1*y1*y1*y2*y2*y2*y3 - x1*y1*y1*x2*x3 + x1*y1*y1*x2*y2*y2*x3 + x1*y1*y1*x2*y2*y2*x3*d - x1*y1*y1*x2*x2*y2*y3 - x1*y1*y1*x2*x2*y2*y3*d - x1*y1*y1*x2*x2*x2*x3 + x1*x1*y1*y2*x3 - x1*x1*y1*y2*y2*y2*x3 + x1*x1*y1*x2*y3 - x1*x1*y1*x2*y2*y2*y3 - x1*x1*y1*x2*y2*y2*y3*d + x1*x1*y1*x2*x2*y2*x3 + x1*x1*y1*x2*x2*y2*x3*d + x1*x1*y1*x2*x2*x2*y3 + x1*x1*x1*y2*y3 - x1*x1*x1*y2*y2*y2*y3 + x1*x1*x1*x2*x3 - x1*x1*x1*x2*y2*y2*x3 + x1*x1*x1*x2*x2*y2*y3 + x1*x1*x1*x2*x2*x2*x3).

Definition cof_y1 (d x1 y1 x2 y2 x3 y3 : Fr) : Fr :=
  (0 - y1*x2*y2*y2*y2*y2*x3*y3*y3*d + y1*x2*x2*y2*y2*y2*y3*d - y1*x2*x2*y2*y2*y2*y3*y3*y3*d + y1*x2*x2*x2*y2*y2*x3*d + y1*x2*x2*x2*y2*y2*x3*x3*x3*d + y1*x2*x2*x2*y2*y2*y2*y2*x3*y3*y3*d*d + y1*x2*x2*x2*x2*y2*x3*x3*y3*d + y1*x2*x2*x2*x2*y2*y2*y2*x3*x3*y3*d*d + x1*x2*y2*y2*y2*y2*x3*x3*y3*d + x1*x2*x2*y2*y2*y2*x3*d + x1*x2*x2*y2*y2*y2*x3*x3*x3*d + x1*x2*x2*x2*y2*y2*y3*d - x1*x2*x2*x2*y2*y2*y3*y3*y3*d - x1*x2*x2*x2*y2*y2*y2*y2*x3*x3*y3*d*d - x1*x2*x2*x2*x2*y2*x3*y3*y3*d - x1*x2*x2*x2*x2*y2*y2*y2*x3*y3*y3*d*d).

Definition cof_y2 (d x1 y1 x2 y2 x3 y3 : Fr) : Fr :=
  (0 - y1*y2*y3 + y1*y2*y3*y3*y3 - y1*y2*x3*x3*y3 - y1*y2*x3*x3*y3*y3*y3*d - y1*x2*x3 + y1*x2*x3*y3*y3 - y1*x2*x3*x3*x3 - y1*x2*x3*x3*x3*y3*y3*d - y1*x2*y2*y2*x3*y3*y3*d - y1*x2*x2*y2*x3*x3*y3*d + y1*y1*y1*y2*y3 - y1*y1*y1*y2*y3*y3*y3 + y1*y1*y1*y2*x3*x3*y3 + y1*y1*y1*y2*x3*x3*y3*y3*y3*d + y1*y1*y1*x2*x3 - y1*y1*y1*x2*x3*y3*y3 + y1*y1*y1*x2*x3*x3*x3 + y1*y1*y1*x2*x3*x3*x3*y3*y3*d + y1*y1*y1*x2*y2*y2*x3*y3*y3*d + y1*y1*y1*x2*x2*y2*x3*x3*y3*d - x1*y2*x3 + x1*y2*x3*y3*y3 - x1*y2*x3*x3*x3 - x1*y2*x3*x3*x3*y3*y3*d - x1*x2*y3 + x1*x2*y3*y3*y3 - x1*x2*x3*x3*y3 - x1*x2*x3*x3*y3*y3*y3*d + x1*x2*y2*y2*x3*x3*y3*d + x1*x2*x2*y2*x3*y3*y3*d + x1*y1*y1*y2*x3 - x1*y1*y1*y2*x3*y3*y3 + x1*y1*y1*y2*x3*x3*x3 + x1*y1*y1*y2*x3*x3*x3*y3*y3*d + x1*y1*y1*x2*y3 - x1*y1*y1*x2*y3*y3*y3 + x1*y1*y1*x2*x3*x3*y3 + x1*y1*y1*x2*x3*x3*y3*y3*y3*d - x1*y1*y1*x2*y2*y2*x3*x3*y3*d - x1*y1*y1*x2*y2*y2*x3*x3*y3*y3*y3*d*d - x1*y1*y1*x2*x2*y2*x3*y3*y3*d + x1*y1*y1*x2*x2*y2*x3*x3*x3*y3*y3*d*d - x1*x1*y1*y2*y3 + x1*x1*y1*y2*y3*y3*y3 - x1*x1*y1*y2*x3*x3*y3 - x1*x1*y1*y2*x3*x3*y3*y3*y3*d - x1*x1*y1*x2*x3 + x1*x1*y1*x2*x3*y3*y3 - x1*x1*y1*x2*x3*x3*x3 - x1*x1*y1*x2*x3*x3*x3*y3*y3*d - x1*x1*y1*x2*y2*y2*x3*y3*y3*d + x1*x1*y1*x2*y2*y2*x3*x3*x3*y3*y3*d*d - x1*x1*y1*x2*x2*y2*x3*x3*y3*d - x1*x1*y1*x2*x2*y2*x3*x3*y3*y3*y3*d*d - x1*x1*x1*y2*x3 + x1*x1*x1*y2*x3*y3*y3 - x1*x1*x1*y2*x3*x3*x3 - x1*x1*x1*y2*x3*x3*x3*y3*y3*d - x1*x1*x1*x2*y3 + x1*x1*x1*x2*y3*y3*y3 - x1*x1*x1*x2*x3*x3*y3 - x1*x1*x1*x2*x3*x3*y3*y3*y3*d + x1*x1*x1*x2*y2*y2*x3*x3*y3*d + x1*x1*x1*x2*x2*y2*x3*y3*y3*d).

Definition cof_y3 (d x1 y1 x2 y2 x3 y3 : Fr) : Fr :=
  (0 + y1*y2*y3 - y1*y2*y2*y2*y3 + y1*x2*x3 - y1*x2*y2*y2*x3 + y1*x2*x2*y2*y3 + y1*x2*x2*x2*x3 - y1*y1*y1*y2*y3 + y1*y1*y1*y2*y2*y2*y3 - y1*y1*y1*x2*x3 + y1*y1*y1*x2*y2*y2*x3 - y1*y1*y1*x2*x2*y2*y3 - y1*y1*y1*x2*x2*x2*x3 + x1*y2*x3 - x1*y2*y2*y2*x3 + x1*x2*y3 - x1*x2*y2*y2*y3 + x1*x2*x2*y2*x3 + x1*x2*x2*x2*y3 - x1*y1*y1*y2*x3 + x1*y1*y1*y2*y2*y2*x3 - x1*y1*y1*x2*y3 + x1*y1*y1*x2*y2*y2*y3 + x1*y1*y1*x2*y2*y2*y3*d - x1*y1*y1*x2*x2*y2*x3 - x1*y1*y1*x2*x2*y2*x3*d - x1*y1*y1*x2*x2*x2*y3 + x1*x1*y1*y2*y3 - x1*x1*y1*y2*y2*y2*y3 + x1*x1*y1*x2*x3 - x1*x1*y1*x2*y2*y2*x3 - x1*x1*y1*x2*y2*y2*x3*d + x1*x1*y1*x2*x2*y2*y3 + x1*x1*y1*x2*x2*y2*y3*d + x1*x1*y1*x2*x2*x2*x3 + x1*x1*x1*y2*x3 - x1*x1*x1*y2*y2*y2*x3 + x1*x1*x1*x2*y3 - x1*x1*x1*x2*y2*y2*y3 + x1*x1*x1*x2*x2*y2*x3 + x1*x1*x1*x2*x2*x2*y3).

Section Assoc.
Context {PR : PrimeR} {ND : NonSquareD}.
Add Field FrFieldAssoc : fr_field_theory.

Definition cv (d x y : Fr) : Fr := 1 + d * x * x * y * y + x * x - y * y.
Definition nX (x1 y1 x2 y2 : Fr) : Fr := x1 * y2 + y1 * x2.
Definition nY (x1 y1 x2 y2 : Fr) : Fr := y1 * y2 + x1 * x2.
Definition dP (d x1 y1 x2 y2 : Fr) : Fr := 1 + d * (x1 * y2) * (y1 * x2).
Definition dM (d x1 y1 x2 y2 : Fr) : Fr := 1 - d * (x1 * y2) * (y1 * x2).

(* (P+Q)+R : numerators and denominators over the common denominators of P+Q *)
Definition NLx d x1 y1 x2 y2 x3 y3 := nX x1 y1 x2 y2 * dM d x1 y1 x2 y2 * y3 + nY x1 y1 x2 y2 * dP d x1 y1 x2 y2 * x3.
Definition NLy d x1 y1 x2 y2 x3 y3 := nY x1 y1 x2 y2 * dP d x1 y1 x2 y2 * y3 + nX x1 y1 x2 y2 * dM d x1 y1 x2 y2 * x3.
Definition DLx d x1 y1 x2 y2 x3 y3 := dP d x1 y1 x2 y2 * dM d x1 y1 x2 y2 + d * nX x1 y1 x2 y2 * nY x1 y1 x2 y2 * x3 * y3.
Definition DLy d x1 y1 x2 y2 x3 y3 := dP d x1 y1 x2 y2 * dM d x1 y1 x2 y2 - d * nX x1 y1 x2 y2 * nY x1 y1 x2 y2 * x3 * y3.
(* P+(Q+R) *)
Definition NMx d x1 y1 x2 y2 x3 y3 := x1 * nY x2 y2 x3 y3 * dP d x2 y2 x3 y3 + y1 * nX x2 y2 x3 y3 * dM d x2 y2 x3 y3.
Definition NMy d x1 y1 x2 y2 x3 y3 := y1 * nY x2 y2 x3 y3 * dP d x2 y2 x3 y3 + x1 * nX x2 y2 x3 y3 * dM d x2 y2 x3 y3.
Definition DMx d x1 y1 x2 y2 x3 y3 := dP d x2 y2 x3 y3 * dM d x2 y2 x3 y3 + d * x1 * y1 * nX x2 y2 x3 y3 * nY x2 y2 x3 y3.
Definition DMy d x1 y1 x2 y2 x3 y3 := dP d x2 y2 x3 y3 * dM d x2 y2 x3 y3 - d * x1 * y1 * nX x2 y2 x3 y3 * nY x2 y2 x3 y3.

Lemma assoc_poly_x d x1 y1 x2 y2 x3 y3 :
  NLx d x1 y1 x2 y2 x3 y3 * DMx d x1 y1 x2 y2 x3 y3 - NMx d x1 y1 x2 y2 x3 y3 * DLx d x1 y1 x2 y2 x3 y3
  = cof_x1 d x1 y1 x2 y2 x3 y3 * cv d x1 y1 + cof_x2 d x1 y1 x2 y2 x3 y3 * cv d x2 y2 + cof_x3 d x1 y1 x2 y2 x3 y3 * cv d x3 y3.
Proof. unfold NLx, DMx, NMx, DLx, cof_x1, cof_x2, cof_x3, cv, nX, nY, dP, dM. ring. Qed.

Lemma assoc_poly_y d x1 y1 x2 y2 x3 y3 :
  NLy d x1 y1 x2 y2 x3 y3 * DMy d x1 y1 x2 y2 x3 y3 - NMy d x1 y1 x2 y2 x3 y3 * DLy d x1 y1 x2 y2 x3 y3
  = cof_y1 d x1 y1 x2 y2 x3 y3 * cv d x1 y1 + cof_y2 d x1 y1 x2 y2 x3 y3 * cv d x2 y2 + cof_y3 d x1 y1 x2 y2 x3 y3 * cv d x3 y3.
Proof. unfold NLy, DMy, NMy, DLy, cof_y1, cof_y2, cof_y3, cv, nX, nY, dP, dM. ring. Qed.

(* clearing the inner denominators *)
Lemma lift_L d x1 y1 x2 y2 x3 y3 xa ya xl yl :
  xa * dP d x1 y1 x2 y2 = nX x1 y1 x2 y2 ->
  ya * dM d x1 y1 x2 y2 = nY x1 y1 x2 y2 ->
  xl * dP d xa ya x3 y3 = nX xa ya x3 y3 ->
  yl * dM d xa ya x3 y3 = nY xa ya x3 y3 ->
  xl * DLx d x1 y1 x2 y2 x3 y3 = NLx d x1 y1 x2 y2 x3 y3 /\
  yl * DLy d x1 y1 x2 y2 x3 y3 = NLy d x1 y1 x2 y2 x3 y3 /\
  DLx d x1 y1 x2 y2 x3 y3 = dP d x1 y1 x2 y2 * dM d x1 y1 x2 y2 * dP d xa ya x3 y3 /\
  DLy d x1 y1 x2 y2 x3 y3 = dP d x1 y1 x2 y2 * dM d x1 y1 x2 y2 * dM d xa ya x3 y3.
Proof.
  intros Hxa Hya Hxl Hyl. unfold DLx, DLy, NLx, NLy.
  rewrite <- Hxa, <- Hya.
  assert (E1 : dP d x1 y1 x2 y2 * dM d x1 y1 x2 y2 + d * (xa * dP d x1 y1 x2 y2) * (ya * dM d x1 y1 x2 y2) * x3 * y3
               = dP d x1 y1 x2 y2 * dM d x1 y1 x2 y2 * dP d xa ya x3 y3) by (unfold dP, dM; ring).
  assert (E2 : dP d x1 y1 x2 y2 * dM d x1 y1 x2 y2 - d * (xa * dP d x1 y1 x2 y2) * (ya * dM d x1 y1 x2 y2) * x3 * y3
               = dP d x1 y1 x2 y2 * dM d x1 y1 x2 y2 * dM d xa ya x3 y3) by (unfold dP, dM; ring).
  rewrite E1, E2. repeat split.
  - transitivity (dP d x1 y1 x2 y2 * dM d x1 y1 x2 y2 * (xl * dP d xa ya x3 y3)); [ring|]. rewrite Hxl. unfold nX. ring.
  - transitivity (dP d x1 y1 x2 y2 * dM d x1 y1 x2 y2 * (yl * dM d xa ya x3 y3)); [ring|]. rewrite Hyl. unfold nY. ring.
Qed.

Lemma lift_M d x1 y1 x2 y2 x3 y3 xb yb xm ym :
  xb * dP d x2 y2 x3 y3 = nX x2 y2 x3 y3 ->
  yb * dM d x2 y2 x3 y3 = nY x2 y2 x3 y3 ->
  xm * dP d x1 y1 xb yb = nX x1 y1 xb yb ->
  ym * dM d x1 y1 xb yb = nY x1 y1 xb yb ->
  xm * DMx d x1 y1 x2 y2 x3 y3 = NMx d x1 y1 x2 y2 x3 y3 /\
  ym * DMy d x1 y1 x2 y2 x3 y3 = NMy d x1 y1 x2 y2 x3 y3 /\
  DMx d x1 y1 x2 y2 x3 y3 = dP d x2 y2 x3 y3 * dM d x2 y2 x3 y3 * dP d x1 y1 xb yb /\
  DMy d x1 y1 x2 y2 x3 y3 = dP d x2 y2 x3 y3 * dM d x2 y2 x3 y3 * dM d x1 y1 xb yb.
Proof.
  intros Hxb Hyb Hxm Hym. unfold DMx, DMy, NMx, NMy.
  rewrite <- Hxb, <- Hyb.
  assert (E1 : dP d x2 y2 x3 y3 * dM d x2 y2 x3 y3 + d * x1 * y1 * (xb * dP d x2 y2 x3 y3) * (yb * dM d x2 y2 x3 y3)
               = dP d x2 y2 x3 y3 * dM d x2 y2 x3 y3 * dP d x1 y1 xb yb) by (unfold dP, dM; ring).
  assert (E2 : dP d x2 y2 x3 y3 * dM d x2 y2 x3 y3 - d * x1 * y1 * (xb * dP d x2 y2 x3 y3) * (yb * dM d x2 y2 x3 y3)
               = dP d x2 y2 x3 y3 * dM d x2 y2 x3 y3 * dM d x1 y1 xb yb) by (unfold dP, dM; ring).
  rewrite E1, E2. repeat split.
  - transitivity (dP d x2 y2 x3 y3 * dM d x2 y2 x3 y3 * (xm * dP d x1 y1 xb yb)); [ring|]. rewrite Hxm. unfold nX. ring.
  - transitivity (dP d x2 y2 x3 y3 * dM d x2 y2 x3 y3 * (ym * dM d x1 y1 xb yb)); [ring|]. rewrite Hym. unfold nY. ring.
Qed.

Lemma cancel_frac (u v D E N M : Fr) : D <> 0 -> E <> 0 -> u * D = N -> v * E = M -> N * E - M * D = 0 -> u = v.
Proof.
  intros HD HE Hu Hv H.
  assert (Z : (u - v) * (D * E) = 0) by (transitivity ((u * D) * E - (v * E) * D); [ring|rewrite Hu, Hv; exact H]).
  apply fmul_integral in Z. destruct Z as [Z|Z].
  - transitivity (u - v + v); [ring|rewrite Z; ring].
  - apply fmul_integral in Z. destruct Z; contradiction.
Qed.

Lemma on_curve_cv x y : on_curve (x, y) -> cv ed_d x y = 0.
Proof.
  unfold on_curve, curve_lhs, curve_rhs, cv. cbn [fst snd]. intros H.
  transitivity ((1 + ed_d * (x * x) * (y * y)) - (y * y - x * x)); [ring|]. rewrite H. ring.
Qed.

Theorem ed_add_assoc p q s : on_curve p -> on_curve q -> on_curve s ->
  ed_add (ed_add p q) s = ed_add p (ed_add q s).
Proof.
  intros Cp Cq Cs.
  pose proof (ed_add_closed p q Cp Cq) as Ca. pose proof (ed_add_closed q s Cq Cs) as Cb.
  destruct (ed_add_eqs p q Cp Cq) as [Hxa Hya]. destruct (ed_add_eqs q s Cq Cs) as [Hxb Hyb].
  destruct (ed_add_eqs _ s Ca Cs) as [Hxl Hyl]. destruct (ed_add_eqs p _ Cp Cb) as [Hxm Hym].
  destruct (ed_denoms p q Cp Cq) as [D1 D2]. destruct (ed_denoms q s Cq Cs) as [D3 D4].
  destruct (ed_denoms _ s Ca Cs) as [D5 D6]. destruct (ed_denoms p _ Cp Cb) as [D7 D8].
  set (A := ed_add p q) in *. set (B := ed_add q s) in *.
  set (L := ed_add A s) in *. set (M := ed_add p B) in *.
  clearbody L M. clearbody A B.
  destruct p as [x1 y1], q as [x2 y2], s as [x3 y3], A as [xa ya], B as [xb yb], L as [xl yl], M as [xm ym].
  unfold ed_t in *. cbn [fst snd] in *.
  destruct (lift_L ed_d x1 y1 x2 y2 x3 y3 xa ya xl yl Hxa Hya Hxl Hyl) as [L1 [L2 [L3 L4]]].
  destruct (lift_M ed_d x1 y1 x2 y2 x3 y3 xb yb xm ym Hxb Hyb Hxm Hym) as [M1 [M2 [M3 M4]]].
  pose proof (on_curve_cv _ _ Cp) as E1. pose proof (on_curve_cv _ _ Cq) as E2. pose proof (on_curve_cv _ _ Cs) as E3.
  assert (NZ : forall a b c : Fr, a <> 0 -> b <> 0 -> c <> 0 -> a * b * c <> 0).
  { intros a b c Ha Hb Hc Z. apply fmul_integral in Z. destruct Z as [Z|Z]; [|contradiction].
    apply fmul_integral in Z. destruct Z; contradiction. }
  assert (N1 : DLx ed_d x1 y1 x2 y2 x3 y3 <> 0) by (rewrite L3; apply NZ; assumption).
  assert (N2 : DLy ed_d x1 y1 x2 y2 x3 y3 <> 0) by (rewrite L4; apply NZ; assumption).
  assert (N3 : DMx ed_d x1 y1 x2 y2 x3 y3 <> 0) by (rewrite M3; apply NZ; assumption).
  assert (N4 : DMy ed_d x1 y1 x2 y2 x3 y3 <> 0) by (rewrite M4; apply NZ; assumption).
  f_equal.
  - apply (cancel_frac xl xm _ _ _ _ N1 N3 L1 M1). rewrite assoc_poly_x, E1, E2, E3. ring.
  - apply (cancel_frac yl ym _ _ _ _ N2 N4 L2 M2). rewrite assoc_poly_y, E1, E2, E3. ring.
Qed.
End Assoc.
Print Assumptions ed_add_assoc.
