(* The embedded curve (JubJub: -x^2 + y^2 = 1 + d x^2 y^2 over Fr) as the
   composer uses it: affine addition with the "no affine image -> identity"
   fallback of add_point_gates, MSB-first double-and-add, width-2 NAF. *)
From Coq Require Import ZArith List Bool.
From PlonkV Require Import Base.Fr Gates.Gate.
Import ListNotations.
Local Open Scope fr_scope.

Definition pt : Set := (Fr * Fr)%type.
Definition ed_id : pt := (0, 1).

Definition curve_lhs (x y : Fr) : Fr := y * y - x * x.
Definition curve_rhs (x y : Fr) : Fr := 1 + ed_d * (x * x) * (y * y).
Definition on_curve (p : pt) : Prop := curve_lhs (fst p) (snd p) = curve_rhs (fst p) (snd p).
Definition on_curveb (p : pt) : bool := feqb (curve_lhs (fst p) (snd p)) (curve_rhs (fst p) (snd p)).

(* d * (x1 y2) * (y1 x2) *)
Definition ed_t (p q : pt) : Fr := ed_d * (fst p * snd q) * (snd p * fst q).

(* JubJubExtended::from(p) + q projected back; add_point_gates substitutes the
   identity when the extended sum has Z = 4 (1 + t)(1 - t) = 0 *)
Definition ed_add (p q : pt) : pt :=
  let t := ed_t p q in
  if feqb ((1 + t) * (1 - t)) 0 then ed_id
  else ((fst p * snd q + snd p * fst q) * finv (1 + t),
        (snd p * snd q + fst p * fst q) * finv (1 - t)).

Definition ed_neg (p : pt) : pt := (- fst p, snd p).
Definition ed_double (p : pt) : pt := ed_add p p.

(* ExtendedPoint::multiply: bits most significant first *)
Fixpoint ed_mul_bits (bits : list bool) (acc p : pt) : pt :=
  match bits with
  | [] => acc
  | b :: tl => let acc := ed_double acc in
               ed_mul_bits tl (if b then ed_add acc p else acc) p
  end.
Definition bits_msb (k : Z) (n : nat) : list bool :=
  map (fun i => Z.testbit k (Z.of_nat (n - 1 - i))) (seq 0 n).
Definition ed_mul (k : Z) (p : pt) : pt := ed_mul_bits (bits_msb k 252) ed_id p.

(* order of the prime-order subgroup and 8^-1 modulo it *)
Definition rj : Z := 0x0e7db4ea6533afa906673b0101343b00a6682093ccc81082d0970e5ed6f72cb7.
Definition eight_inv : Z := 0x01cfb69d4ca675f520cce7602026876014cd0412799902105a12e1cbdadee597.

Definition pt_eqb (p q : pt) : bool := feqb (fst p) (fst q) && feqb (snd p) (snd q).
Definition torsion_freeb (p : pt) : bool := pt_eqb (ed_mul rj p) ed_id.
Definition subgroupb (p : pt) : bool := on_curveb p && torsion_freeb p.
Definition prime_orderb (p : pt) : bool := subgroupb p && negb (pt_eqb p ed_id).

(* Fr::compute_windowed_naf(2), least significant digit first, 256 entries *)
Fixpoint wnaf2 (n : nat) (k : Z) : list Z :=
  match n with
  | O => []
  | S n' =>
      if Z.odd k then
        let m := (k mod 4)%Z in
        let d := if (m <? 2)%Z then m else (m - 4)%Z in
        d :: wnaf2 n' ((k - d) / 2)%Z
      else 0%Z :: wnaf2 n' (k / 2)%Z
  end.

(* extended representation (U, V, Z, T1, T2) handed to an entry point *)
Inductive ext_class := ExtDegenerate | ExtOff | ExtOn (p : pt).
Definition classify_ext (u v z t1 t2 : Fr) : ext_class :=
  if feqb z 0 then ExtDegenerate
  else let p := (u * finv z, v * finv z) in
       if on_curveb p && feqb (fst p * snd p * z) (t1 * t2) then ExtOn p else ExtOff.
Definition affine_of_ext (u v z : Fr) : pt := (u * finv z, v * finv z).
