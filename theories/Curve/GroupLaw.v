(* Scalar multiples in the group of the embedded curve: repeated addition is a
   homomorphism; dusk-jubjub's MSB-first double-and-add (ed_mul) and the
   signed-digit combination of the fixed-base component are the scalar multiple. *)
From Coq Require Import ZArith List Bool Ring Lia.
From PlonkV Require Import Base.Fr Base.FrFacts Gates.Gate Curve.Jubjub Curve.JubjubFacts.
From PlonkV Require Import Curve.Assoc.
Import ListNotations.
Local Open Scope fr_scope.

Fixpoint nsmul (n : nat) (p : pt) : pt :=
  match n with O => ed_id | S k => ed_add p (nsmul k p) end.
Definition zsmul (k : Z) (p : pt) : pt :=
  match k with
  | Z0 => ed_id
  | Zpos q => nsmul (Pos.to_nat q) p
  | Zneg q => ed_neg (nsmul (Pos.to_nat q) p)
  end.

Section Group.
Context {PR : PrimeR} {ND : NonSquareD}.
Add Ring FrRingGL : fr_ring_theory.

Local Hint Resolve ed_add_closed ed_id_on_curve ed_neg_on_curve : oc.

Lemma nsmul_on n p : on_curve p -> on_curve (nsmul n p).
Proof. intros C. induction n as [|n IH]; cbn [nsmul]; auto with oc. Qed.
Local Hint Resolve nsmul_on : oc.

Lemma nsmul_add a b p : on_curve p -> nsmul (a + b) p = ed_add (nsmul a p) (nsmul b p).
Proof.
  intros C. induction a as [|a IH]; cbn [nsmul Nat.add].
  - rewrite ed_add_id_l by auto with oc. reflexivity.
  - rewrite IH, ed_add_assoc by auto with oc. reflexivity.
Qed.

Lemma nsmul_1 p : on_curve p -> nsmul 1 p = p.
Proof. intros C. cbn [nsmul]. apply ed_add_id_r. exact C. Qed.

Lemma nsmul_double a p : on_curve p -> ed_double (nsmul a p) = nsmul (2 * a) p.
Proof. intros C. unfold ed_double. rewrite <- nsmul_add by exact C. f_equal. lia. Qed.

Lemma nsmul_of_double a p : on_curve p -> nsmul a (ed_double p) = nsmul (2 * a) p.
Proof.
  intros C. induction a as [|a IH]; [reflexivity|].
  replace (2 * S a)%nat with (S (S (2 * a))) by lia. cbn [nsmul]. rewrite IH.
  unfold ed_double. rewrite ed_add_assoc by auto with oc. reflexivity.
Qed.

Lemma nsmul_mul a b p : on_curve p -> nsmul a (nsmul b p) = nsmul (a * b) p.
Proof.
  intros C. induction a as [|a IH]; [reflexivity|].
  cbn [nsmul Nat.mul]. rewrite IH, nsmul_add by exact C. reflexivity.
Qed.

(* commutative-monoid rearrangement *)
Lemma ed_add_swap4 a b c d : on_curve a -> on_curve b -> on_curve c -> on_curve d ->
  ed_add (ed_add a b) (ed_add c d) = ed_add (ed_add a c) (ed_add b d).
Proof.
  intros Ca Cb Cc Cd.
  rewrite (ed_add_assoc a b (ed_add c d)) by auto with oc.
  rewrite <- (ed_add_assoc b c d) by auto with oc.
  rewrite (ed_add_comm b c) by auto with oc.
  rewrite (ed_add_assoc c b d) by auto with oc.
  rewrite <- (ed_add_assoc a c (ed_add b d)) by auto with oc. reflexivity.
Qed.

Lemma ed_neg_id : ed_neg ed_id = ed_id.
Proof. unfold ed_neg, ed_id. cbn [fst snd]. f_equal; ring. Qed.

Lemma ed_neg_neg p : ed_neg (ed_neg p) = p.
Proof. destruct p as [x y]. unfold ed_neg. cbn [fst snd]. f_equal; ring. Qed.

Lemma ed_neg_add p q : on_curve p -> on_curve q -> ed_neg (ed_add p q) = ed_add (ed_neg p) (ed_neg q).
Proof.
  intros Cp Cq. destruct (ed_add_eqs p q Cp Cq) as [Hx Hy].
  assert (T : ed_t (ed_neg p) (ed_neg q) = ed_t p q) by (unfold ed_t, ed_neg; cbn [fst snd]; ring).
  unfold ed_neg at 1. apply ed_add_unique; auto with oc; rewrite T.
  - transitivity (- (fst (ed_add p q) * (1 + ed_t p q))); [ring|]. rewrite Hx. unfold ed_neg. cbn [fst snd]. ring.
  - rewrite Hy. unfold ed_neg. cbn [fst snd]. ring.
Qed.

Lemma ed_add_neg_l p : on_curve p -> ed_add (ed_neg p) p = ed_id.
Proof. intros C. rewrite ed_add_comm by auto with oc. apply ed_add_neg. exact C. Qed.

(* integer multiples through differences of naturals *)
Definition nz (a b : nat) (p : pt) : pt := ed_add (nsmul a p) (ed_neg (nsmul b p)).

Lemma zsmul_of_nat c p : zsmul (Z.of_nat c) p = nsmul c p.
Proof. destruct c as [|c]; [reflexivity|]. cbn [Z.of_nat zsmul]. rewrite SuccNat2Pos.id_succ. reflexivity. Qed.
Lemma zsmul_opp_nat c p : zsmul (- Z.of_nat c) p = ed_neg (nsmul c p).
Proof. destruct c as [|c]; [cbn; rewrite ed_neg_id; reflexivity|]. cbn [Z.of_nat Z.opp zsmul]. rewrite SuccNat2Pos.id_succ. reflexivity. Qed.

Lemma zsmul_nz a b p : on_curve p -> zsmul (Z.of_nat a - Z.of_nat b) p = nz a b p.
Proof.
  intros C. unfold nz. destruct (Nat.le_gt_cases b a) as [L|L].
  - replace (Z.of_nat a - Z.of_nat b)%Z with (Z.of_nat (a - b)) by lia. rewrite zsmul_of_nat.
    replace a with ((a - b) + b)%nat at 2 by lia. rewrite nsmul_add by exact C.
    rewrite ed_add_assoc, ed_add_neg, ed_add_id_r by auto with oc. reflexivity.
  - replace (Z.of_nat a - Z.of_nat b)%Z with (- Z.of_nat (b - a))%Z by lia. rewrite zsmul_opp_nat.
    replace b with (a + (b - a))%nat at 2 by lia. rewrite nsmul_add, ed_neg_add by auto with oc.
    rewrite <- ed_add_assoc, ed_add_neg, ed_add_id_l by auto with oc. reflexivity.
Qed.

Lemma zsmul_on k p : on_curve p -> on_curve (zsmul k p).
Proof. intros C. destruct k; cbn [zsmul]; auto with oc. Qed.
Local Hint Resolve zsmul_on : oc.

Theorem zsmul_add j k p : on_curve p -> zsmul (j + k) p = ed_add (zsmul j p) (zsmul k p).
Proof.
  intros C.
  assert (R : forall z : Z, exists a b, z = (Z.of_nat a - Z.of_nat b)%Z).
  { intros z. exists (Z.to_nat z), (Z.to_nat (- z)). lia. }
  destruct (R j) as [a1 [b1 ->]]. destruct (R k) as [a2 [b2 ->]].
  replace (Z.of_nat a1 - Z.of_nat b1 + (Z.of_nat a2 - Z.of_nat b2))%Z
    with (Z.of_nat (a1 + a2) - Z.of_nat (b1 + b2))%Z by lia.
  rewrite !zsmul_nz by exact C. unfold nz.
  rewrite !nsmul_add, ed_neg_add by auto with oc.
  apply ed_add_swap4; auto with oc.
Qed.

Lemma zsmul_neg k p : zsmul (- k) p = ed_neg (zsmul k p).
Proof. destruct k; cbn [Z.opp zsmul]; [rewrite ed_neg_id|idtac|rewrite ed_neg_neg]; reflexivity. Qed.

Lemma zsmul_1 p : on_curve p -> zsmul 1 p = p.
Proof. intros C. cbn [zsmul]. rewrite Pos2Nat.inj_1. apply nsmul_1. exact C. Qed.

(* ---- the double-and-add ladder is the scalar multiple ---- *)
Definition ladder_step (a : nat) (b : bool) : nat := (2 * a + (if b then 1 else 0))%nat.

Lemma ed_mul_bits_nsmul bits : forall a p, on_curve p ->
  ed_mul_bits bits (nsmul a p) p = nsmul (fold_left ladder_step bits a) p.
Proof.
  induction bits as [|b tl IH]; intros a p C; [reflexivity|].
  cbn [ed_mul_bits fold_left]. rewrite nsmul_double by exact C.
  destruct b.
  - rewrite ed_add_comm by auto with oc. change (ed_add p (nsmul (2 * a) p)) with (nsmul (S (2 * a)) p).
    rewrite IH by exact C. f_equal. f_equal. unfold ladder_step. lia.
  - rewrite IH by exact C. f_equal. f_equal. unfold ladder_step. lia.
Qed.

Lemma bits_msb_S k n : bits_msb k (S n) = Z.testbit k (Z.of_nat n) :: bits_msb k n.
Proof.
  unfold bits_msb. cbn [seq map]. f_equal; [f_equal; lia|].
  rewrite <- seq_shift, map_map. apply map_ext_in. intros i Hi. f_equal. lia.
Qed.

Lemma ladder_bits k : (0 <= k)%Z -> forall n a,
  Z.of_nat (fold_left ladder_step (bits_msb k n) a) = (Z.of_nat a * 2 ^ Z.of_nat n + k mod 2 ^ Z.of_nat n)%Z.
Proof.
  intros Hk. induction n as [|n IH]; intros a.
  - cbn [bits_msb seq map fold_left]. change (Z.of_nat 0) with 0%Z. rewrite Z.pow_0_r, Z.mod_1_r. lia.
  - rewrite bits_msb_S. cbn [fold_left]. rewrite IH. unfold ladder_step.
    rewrite Nat2Z.inj_succ, Z.pow_succ_r by lia.
    rewrite (Z.mul_comm 2 (2 ^ Z.of_nat n)), Z.rem_mul_r by lia.
    rewrite Z.testbit_odd, Z.shiftr_div_pow2, Zodd_mod by lia.
    pose proof (Z.mod_pos_bound (k / 2 ^ Z.of_nat n) 2 ltac:(lia)) as B.
    unfold Zeq_bool. destruct (Z.compare_spec ((k / 2 ^ Z.of_nat n) mod 2) 1) as [E|E|E]; lia.
Qed.

Theorem ed_mul_is_scalar_multiple k p : on_curve p -> (0 <= k < 2 ^ 252)%Z ->
  ed_mul k p = zsmul k p.
Proof.
  intros C Hk. unfold ed_mul. change ed_id with (nsmul 0 p). rewrite ed_mul_bits_nsmul by exact C.
  rewrite <- (Z2Nat.id k) at 2 by lia. rewrite zsmul_of_nat. f_equal.
  apply Nat2Z.inj. rewrite ladder_bits by lia. change (Z.of_nat 252) with 252%Z.
  rewrite Z.mod_small by lia. lia.
Qed.
End Group.
Print Assumptions ed_mul_is_scalar_multiple.
Print Assumptions zsmul_add.
