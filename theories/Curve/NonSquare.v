(* NonSquareD discharged under PrimeR: Fermat's little theorem (MathComp's
   fermat_little through Base/Fermat.v) and the Euler criterion value of d. *)
From Coq Require Import ZArith Znumtheory List Bool Lia Ring.
From PlonkV Require Import Base.Fr Base.FrFacts Base.Fermat Gates.Gate Alg.Poly Alg.PolyFacts Curve.Jubjub Curve.JubjubFacts.
Local Open Scope fr_scope.

Section NonSquare.
Context {PR : PrimeR}.
Add Ring FrRingNS : fr_ring_theory.

Lemma val_fpow_nat s n : val (fpow_nat s n) = ((val s ^ Z.of_nat n) mod r)%Z.
Proof.
  induction n as [|n IH].
  - cbn [fpow_nat]. change (Z.of_nat 0) with 0%Z. rewrite Z.pow_0_r. reflexivity.
  - cbn [fpow_nat]. rewrite val_mul, IH, Nat2Z.inj_succ, Z.pow_succ_r by lia.
    rewrite Zmult_mod_idemp_r. reflexivity.
Qed.

Theorem fermat_fr s : fpow_nat s (Z.to_nat r) = s.
Proof.
  apply fr_eq. rewrite val_fpow_nat. pose proof r_pos. rewrite Z2Nat.id by lia.
  pose proof (val_range s) as R. rewrite (fermat_Z r PR (val s)) by lia. apply Z.mod_small. exact R.
Qed.

Theorem fermat_unit s : s <> 0 -> fpow_nat s (Z.to_nat (r - 1)) = 1.
Proof.
  intros Hs. pose proof (fermat_fr s) as F. pose proof r_gt_1.
  replace (Z.to_nat r) with (S (Z.to_nat (r - 1))) in F by lia. cbn [fpow_nat] in F.
  assert (E : s * (fpow_nat s (Z.to_nat (r - 1)) - 1) = 0) by (transitivity (s * fpow_nat s (Z.to_nat (r - 1)) - s); [ring|rewrite F; ring]).
  apply fmul_integral in E. destruct E as [E|E]; [contradiction|].
  transitivity (fpow_nat s (Z.to_nat (r - 1)) - 1 + 1); [ring|rewrite E; ring].
Qed.

(* binary and unary exponentiation agree *)
Lemma fpow_pos_nat x p : fpow_pos x p = fpow_nat x (Pos.to_nat p).
Proof.
  induction p as [p IH|p IH|].
  - cbn [fpow_pos]. rewrite IH, Pos2Nat.inj_xI. cbn [fpow_nat]. rewrite <- fpow_nat_add.
    replace (Pos.to_nat p + Pos.to_nat p)%nat with (2 * Pos.to_nat p)%nat by lia. reflexivity.
  - cbn [fpow_pos]. rewrite IH, Pos2Nat.inj_xO, <- fpow_nat_add.
    replace (Pos.to_nat p + Pos.to_nat p)%nat with (2 * Pos.to_nat p)%nat by lia. reflexivity.
  - cbn [fpow_pos fpow_nat]. rewrite Pos2Nat.inj_1. cbn [fpow_nat]. ring.
Qed.

Lemma fpow_N_nat x n : fpow x n = fpow_nat x (N.to_nat n).
Proof. destruct n as [|p]; [reflexivity|]. cbn [fpow N.to_nat]. apply fpow_pos_nat. Qed.

Lemma half_order : (2 * Z.to_nat ((r - 1) / 2) = Z.to_nat (r - 1))%nat.
Proof.
  assert (E : (2 * ((r - 1) / 2) = r - 1)%Z) by (vm_compute; reflexivity).
  assert (P : (0 <= (r - 1) / 2)%Z) by (vm_compute; discriminate).
  rewrite <- E at 2. rewrite Z2Nat.inj_mul by lia. reflexivity.
Qed.

(* the curve parameter d is not a square: a square root s would give d^((r-1)/2) = s^(r-1) = 1, but it is -1 *)
Global Instance nonsquare_d_holds : NonSquareD.
Proof.
  intros s Hs.
  assert (Hd0 : ed_d <> 0).
  { intros E. assert (Hv : val ed_d = val 0) by (rewrite E; reflexivity). vm_compute in Hv. discriminate Hv. }
  assert (Hs0 : s <> 0) by (intros E; apply Hd0; rewrite <- Hs, E; ring).
  pose proof ed_d_euler as Eu. rewrite fpow_N_nat in Eu.
  replace (N.to_nat (Z.to_N ((r - 1) / 2))) with (Z.to_nat ((r - 1) / 2)) in Eu by (rewrite Z_N_nat; reflexivity).
  rewrite <- Hs in Eu. rewrite fpow_nat_mul_base, <- fpow_nat_add in Eu.
  replace (Z.to_nat ((r - 1) / 2) + Z.to_nat ((r - 1) / 2))%nat with (Z.to_nat (r - 1)) in Eu by (rewrite <- half_order; lia).
  rewrite (fermat_unit s Hs0) in Eu.
  assert (Hv : val 1 = val (- (1))) by (f_equal; exact Eu). vm_compute in Hv. discriminate Hv.
Qed.
End NonSquare.
Print Assumptions nonsquare_d_holds.
