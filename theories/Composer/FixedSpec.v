(* C14: the model of append_fixed_base_signed_digits emits exactly the blocks
   the soundness theorems of FixedFacts.v speak about, and the end-to-end
   statement over those rows. *)
From Coq Require Import ZArith List Bool Arith Lia.
From PlonkV Require Import Base.Fr Base.FrFacts Gates.Gate Gates.CS Gates.CSFacts Gates.BlockFacts
  Composer.State Composer.Components Composer.ArithFacts Composer.BasicFacts Composer.RangeFacts
  Curve.Jubjub Curve.JubjubFacts Composer.PointComponents Composer.PointFacts Composer.FixedFacts.
Import ListNotations.
Local Open Scope nat_scope.

Lemma c_fixed_row_shift m n k : c_fixed_row m (n + 4) k = c_fixed_row m n (S k).
Proof.
  unfold c_fixed_row, fb_wx, fb_wy, fb_wb, fb_wc.
  replace (n + 4 + 4 * k) with (n + 4 * S k) by lia. reflexivity.
Qed.

Lemma lead_step i len n lead : 1 <= i ->
  (if (S i <=? 3) && (3 <? S i + len) then fb_wb (n + 4) (3 - S i) else (if i =? 3 then n + 1 + 1 else lead))
  = (if (i <=? 3) && (3 <? i + S len) then fb_wb n (3 - i) else lead).
Proof.
  intros Hi. unfold fb_wb.
  destruct (Nat.leb_spec (S i) 3), (Nat.ltb_spec 3 (S i + len)), (Nat.eqb_spec i 3),
           (Nat.leb_spec i 3), (Nat.ltb_spec 3 (i + S len)); cbn [andb]; lia.
Qed.

Lemma fb_rows_spec : forall ms st i lead s, 1 <= i -> length st = S (length ms) ->
  let n := length (wits s) in
  let r := fb_rows i st ms lead s in
  rows (snd r) = rows s ++ map (fun k => crow (c_fixed_row (nth k ms ed_id) n k)) (seq 0 (length ms))
  /\ length (wits (snd r)) = n + 4 * length ms
  /\ fst r = (if (i <=? 3) && (3 <? i + length ms) then fb_wb n (3 - i) else lead).
Proof.
  induction ms as [|m mt IH]; intros st i lead s Hi Hl; cbv zeta.
  - destruct st as [|x [|y tl]]; cbn [length] in Hl; try lia.
    destruct x as [[sa pa] xya]. cbn [fb_rows fst snd length seq map]. rewrite app_nil_r.
    repeat split; [lia|]. rewrite Nat.add_0_r.
    destruct (i <=? 3) eqn:E1; [|reflexivity]. apply Nat.leb_le in E1.
    replace (3 <? i) with false by (symmetry; apply Nat.ltb_ge; lia). reflexivity.
  - destruct st as [|[[sa pa] xya] tl]; cbn [length] in Hl; [lia|].
    cbn [fb_rows]. unfold append_witness. cbn [fst snd rows wits].
    replace (i =? 0) with false by (symmetry; apply Nat.eqb_neq; lia).
    cbn [fst snd rows wits]. rewrite !app_length. cbn [length rows wits]. rewrite ?app_length. cbn [length].
    set (n := length (wits s)).
    match goal with |- context [fb_rows (S i) tl mt ?ld ?st] => set (ld' := ld); set (s' := st) end.
    assert (Ls' : length (wits s') = n + 4).
    { unfold s', append_custom_gate. cbn [wits]. rewrite !app_length. cbn [length]. fold n. lia. }
    assert (Rs' : rows s' = rows s ++ [crow (c_fixed_row m n 0)]).
    { unfold s', append_custom_gate, crow, c_fixed_row, fb_wx, fb_wy, fb_wb, fb_wc. cbn [rows wits].
      replace (n + 4 * 0) with n by lia. replace (n + 1 + 1 + 1) with (n + 3) by lia.
      replace (n + 1 + 1) with (n + 2) by lia. unfold pi_opt. cbn [c_has_pi set_d set_c set_b set_a set_constant set_right set_left c_group_fixed set_sel_fixed from_external c_new c_pi]. reflexivity. }
    specialize (IH tl (S i) ld' s' ltac:(lia) ltac:(lia)).
    cbv zeta in IH. destruct IH as (R & L & F). rewrite Ls' in R, L, F.
    repeat split.
    + rewrite R, Rs', <- app_assoc. f_equal. cbn [length seq map nth app]. f_equal.
      rewrite <- seq_shift, map_map. apply map_ext. intros k. cbn [nth]. now rewrite c_fixed_row_shift.
    + rewrite L. cbn [length]. lia.
    + rewrite F. cbn [length]. unfold ld'. apply lead_step. exact Hi.
Qed.

Lemma doublings_length n : forall g, length (doublings n g) = n.
Proof. induction n as [|n IH]; intros g; cbn [doublings length]; [reflexivity|now rewrite IH]. Qed.

Lemma fb_accs_length : forall ds ms sacc pacc, length ds = length ms ->
  length (fb_accs ds ms sacc pacc) = S (length ms).
Proof.
  induction ds as [|d dt IH]; intros [|m mt] sacc pacc H; cbn [length] in H; try lia; cbn [fb_accs length].
  - reflexivity.
  - rewrite IH by lia. reflexivity.
Qed.

Definition mulgen_rows (jubjub : nat) (g : pt) (n : nat) : list (gate * option Fr) :=
  let base := n + 253 in
  let ms := rev (doublings 256 g) in
  canonical_blk jubjub n
  ++ map arith_row [c_assert_equal_constant base fzero None;
                    c_assert_equal_constant (base + 1) fone None;
                    c_assert_equal_constant (base + 2) fzero None]
  ++ fb_block ms base
  ++ map arith_row [c_assert_equal_constant (fb_wb base 3) fzero None;
                    c_assert_equal (fb_wb base 256) jubjub].

Lemma fb_block_cons m ms base :
  fb_block (m :: ms) base =
  crow (c_fixed_row m base 0)
  :: map (fun k => crow (c_fixed_row (nth k ms ed_id) (base + 4) k)) (seq 0 (length ms))
  ++ [arith_row (c_fb_anchor base (S (length ms)))].
Proof.
  unfold fb_block. cbn [length seq map nth app]. f_equal. f_equal.
  rewrite <- seq_shift, map_map. apply map_ext. intros k. cbn [nth]. now rewrite c_fixed_row_shift.
Qed.

(* first round (i = 0): three witnesses, the three opening equalities, the
   xy_alpha witness, the first selected row *)
Definition fb_first_state (s1 : cs) (m0 : pt) (sa0 : Fr) (pa0 : pt) (xya0 : Fr) : cs :=
  let base := length (wits s1) in
  mkCS (rows s1 ++ map arith_row [c_assert_equal_constant base fzero None;
                                   c_assert_equal_constant (base + 1) fone None;
                                   c_assert_equal_constant (base + 2) fzero None]
               ++ [crow (c_fixed_row m0 base 0)])
       (wits s1 ++ [fst pa0; snd pa0; sa0; xya0]).

Lemma fb_rows_first s1 m0 ms' sa0 pa0 xya0 tl lead :
  fb_rows 0 ((sa0, pa0, xya0) :: tl) (m0 :: ms') lead s1
  = fb_rows 1 tl ms' lead (fb_first_state s1 m0 sa0 pa0 xya0).
Proof.
  cbn [fb_rows Nat.eqb]. unfold append_witness, assert_equal_constant. cbv beta iota zeta.
  cbn [fst snd rows wits]. f_equal.
  unfold fb_first_state, append_custom_gate, append_gate, append_custom_gate. cbn [rows wits].
  rewrite !app_length. cbn [length]. set (base := length (wits s1)).
  f_equal.
  - unfold crow, c_fixed_row, fb_wx, fb_wy, fb_wb, fb_wc, c_assert_equal_constant, arith_row. cbn [map].
    replace (base + 4 * 0) with base by lia. replace (base + 1 + 1 + 1) with (base + 3) by lia.
    replace (base + 1 + 1) with (base + 2) by lia. rewrite <- !app_assoc. cbn [app].
    unfold pi_opt. cbn [c_has_pi set_d set_c set_b set_a set_constant set_right set_left c_group_fixed set_sel_fixed from_external c_new c_pi c_arithmetic set_sel_arith].
    reflexivity.
  - rewrite <- !app_assoc. reflexivity.
Qed.

(* closing part: final accumulator witnesses, anchor row, leading-zero pin, closing equality *)
Definition fb_finish (lead jubjub : nat) (sa : Fr) (pa : pt) (s3 : cs) : (perr + wpt) * cs :=
  let n3 := length (wits s3) in
  (inr (n3, n3 + 1),
   mkCS (rows s3 ++ map arith_row [set_d (n3 + 2) (set_b (n3 + 1) (set_a n3 c_new));
                                   c_assert_equal_constant lead fzero None;
                                   c_assert_equal (n3 + 2) jubjub])
        (wits s3 ++ [fst pa; snd pa; sa])).

Lemma fb_finish_eq lead jubjub sa pa s3 :
  (let '(acc_x, s) := append_witness (fst pa) s3 in
   let '(acc_y, s) := append_witness (snd pa) s in
   let '(last_b, s) := append_witness sa s in
   let s := append_gate (set_d last_b (set_b acc_y (set_a acc_x c_new))) s in
   let s := assert_equal_constant lead fzero None s in
   let s := assert_equal last_b jubjub s in
   (@inr perr wpt (acc_x, acc_y), s)) = fb_finish lead jubjub sa pa s3.
Proof.
  unfold append_witness, assert_equal_constant, assert_equal, fb_finish. cbv beta iota zeta.
  cbn [fst snd rows wits]. rewrite !app_length. cbn [length].
  set (n3 := length (wits s3)).
  replace (n3 + 1 + 1) with (n3 + 2) by lia.
  f_equal. unfold append_gate, append_custom_gate. cbn [rows wits]. f_equal.
  - rewrite <- !app_assoc. reflexivity.
  - rewrite <- !app_assoc. reflexivity.
Qed.

Theorem append_fixed_base_rows jubjub g digits s :
  length digits = 256 -> forallb digit_ok digits = true ->
  let n := length (wits s) in
  exists s', append_fixed_base_signed_digits jubjub g digits s
             = (inr (fb_wx (n + 253) 256, fb_wy (n + 253) 256), s')
          /\ rows s' = rows s ++ mulgen_rows jubjub g n.
Proof.
  intros Hd Hok. cbv zeta. unfold append_fixed_base_signed_digits, mulgen_rows.
  destruct (assert_canonical_rows jubjub s) as [Rc Lc].
  set (s1 := assert_canonical_jubjub_scalar jubjub s) in *.
  rewrite Hok. cbn [negb].
  set (n := length (wits s)) in *. set (base := n + 253).
  set (ms := rev (doublings 256 g)).
  assert (Lms : length ms = 256) by (unfold ms; rewrite rev_length; apply doublings_length).
  set (st := fb_accs (rev digits) ms fzero ed_id).
  assert (Lst : length st = 257).
  { unfold st. rewrite fb_accs_length by (rewrite rev_length, Hd, Lms; reflexivity). now rewrite Lms. }
  clearbody ms st.
  destruct ms as [|m0 ms']; [cbn in Lms; discriminate Lms|].
  destruct st as [|[[sa0 pa0] xya0] tl]; [cbn in Lst; discriminate Lst|].
  cbn [length] in Lms, Lst.
  rewrite fb_rows_first.
  set (s2 := fb_first_state s1 m0 sa0 pa0 xya0).
  assert (L2 : length (wits s2) = base + 4).
  { unfold s2, fb_first_state. cbn [wits]. rewrite app_length. cbn [length]. rewrite Lc. unfold base. lia. }
  assert (R2 : rows s2 = rows s1 ++ map arith_row [c_assert_equal_constant base fzero None;
                    c_assert_equal_constant (base + 1) fone None;
                    c_assert_equal_constant (base + 2) fzero None] ++ [crow (c_fixed_row m0 base 0)]).
  { unfold s2, fb_first_state. cbn [rows]. rewrite Lc. reflexivity. }
  destruct (fb_rows_spec ms' tl 1 W_ZERO s2 ltac:(lia) ltac:(lia)) as (R3 & L3 & F3). cbv zeta in R3, L3, F3.
  destruct (fb_rows 1 tl ms' W_ZERO s2) as [lead s3]. cbn [fst snd] in R3, L3, F3.
  rewrite L2 in R3, L3, F3.
  destruct (last (_ :: tl) (fzero, ed_id, fzero)) as [[sa pa] xyl].
  rewrite fb_finish_eq. unfold fb_finish.
  assert (Hlen : length ms' = 255) by lia.
  rewrite L3, Hlen.
  replace (base + 4 + 4 * 255) with (fb_wx base 256) by (unfold fb_wx; lia).
  replace (fb_wx base 256 + 1) with (fb_wy base 256) by (unfold fb_wx, fb_wy; lia).
  eexists. split; [reflexivity|].
  cbn [rows].
  rewrite R3, R2, Rc. rewrite fb_block_cons. rewrite <- !app_assoc. cbn [app map]. rewrite Hlen.
  assert (Elead : lead = fb_wb base 3).
  { rewrite F3, Hlen. cbn [Nat.leb Nat.ltb Nat.add andb]. unfold fb_wb. lia. }
  rewrite Elead.
  replace (fb_wx base 256 + 2) with (fb_wb base 256) by (unfold fb_wx, fb_wb; lia).
  unfold c_fb_anchor, c_assert_equal, c_assert_equal_constant.
  replace (fb_wy base 256) with (fb_wx base 256 + 1) by (unfold fb_wx, fb_wy; lia).
  unfold fb_wy. reflexivity.
Qed.

(* ---- end to end over the emitted rows ---- *)
Section EndToEnd.
Context {PR : PrimeR} {ND : NonSquareD}.
Local Open Scope fr_scope.

Lemma doublings_on_curve n : forall g, on_curve g -> Forall on_curve (doublings n g).
Proof.
  induction n as [|n IH]; intros g C; cbn [doublings]; constructor; [exact C|].
  apply IH. unfold ed_double. apply ed_add_closed; exact C.
Qed.

Lemma canonical_blk_closed scalar base : closed_block (canonical_blk scalar base).
Proof.
  unfold canonical_blk. rewrite app_assoc. apply closed_block_app; [|apply range_blk_closed].
  unfold range_blk. cbn [Nat.even]. unfold range_even_blk. intros E. apply app_eq_nil in E. destruct E as [_ E]. discriminate E.
Qed.

Theorem mulgen_sound asg jubjub g n :
  asg W_ZERO = 0 -> on_curve g ->
  block_sat (mulgen_rows jubjub g n) asg ->
  let base := (n + 253)%nat in
  (val (asg jubjub) < rj)%Z /\
  exists ds, length ds = 256%nat /\ Forall is_digit ds /\ firstn 3 ds = [0; 0; 0]%Z /\
    sd_val 0 ds = val (asg jubjub) /\
    (asg (fb_wx base 256), asg (fb_wy base 256)) = sd_point ed_id ds (rev (doublings 256 g)).
Proof.
  intros Hz Cg H. cbv zeta. unfold mulgen_rows in H. cbv zeta in H.
  apply block_sat_app in H; [|apply canonical_blk_closed]. destruct H as [Hc H].
  apply block_sat_app in H; [|apply closed_arith_block]. destruct H as [He H].
  apply block_sat_app in H; [|apply fb_block_closed]. destruct H as [Hf Hl].
  destruct (canonical_scalar_sound asg jubjub n Hz Hc) as [B252 Brj]. split; [exact Brj|].
  apply block_sat_arith in He. apply block_sat_arith in Hl.
  inversion He as [|? ? E0 He1]; subst. inversion He1 as [|? ? E1 He2]; subst. inversion He2 as [|? ? E2 _]; subst.
  inversion Hl as [|? ? L0 Hl1]; subst. inversion Hl1 as [|? ? L1 _]; subst.
  apply (proj1 (assert_equal_constant_iff asg _ 0 None)) in E0.
  apply (proj1 (assert_equal_constant_iff asg _ 1 None)) in E1.
  apply (proj1 (assert_equal_constant_iff asg _ 0 None)) in E2.
  apply (proj1 (assert_equal_constant_iff asg _ 0 None)) in L0.
  apply assert_equal_iff in L1.
  cbn [pi_val] in E0, E1, E2, L0.
  apply (fixed_base_sound asg (rev (doublings 256 g)) (n + 253) jubjub).
  - rewrite rev_length. apply doublings_length.
  - apply Forall_rev. apply doublings_on_curve. exact Cg.
  - exact Hf.
  - unfold fb_wx. replace (n + 253 + 4 * 0)%nat with (n + 253)%nat by lia. rewrite E0. ring.
  - unfold fb_wy. replace (n + 253 + 4 * 0 + 1)%nat with (n + 253 + 1)%nat by lia. rewrite E1. ring.
  - unfold fb_wb. replace (n + 253 + 4 * 0 + 2)%nat with (n + 253 + 2)%nat by lia. rewrite E2. ring.
  - rewrite L0. ring.
  - exact L1.
  - exact B252.
Qed.
End EndToEnd.
