(* C08: equality, constants, public inputs, boolean and selection components. *)
From Coq Require Import ZArith List Bool Arith Lia Ring Field.
From PlonkV Require Import Base.Fr Base.FrFacts Gates.Gate Gates.CS Gates.CSFacts
  Composer.State Composer.Components Composer.ArithFacts.
Import ListNotations.
Local Open Scope fr_scope.

(* [s'] extends [s] by the arithmetic rows [cl] and the witnesses [ws] *)
Definition emits (s s' : cs) (cl : list constraint) (ws : list Fr) : Prop :=
  rows s' = rows s ++ map arith_row cl /\ wits s' = wits s ++ ws.

Lemma emits_refl s : emits s s [] [].
Proof. split; cbn; now rewrite app_nil_r. Qed.

Lemma emits_trans s1 s2 s3 cl1 ws1 cl2 ws2 :
  emits s1 s2 cl1 ws1 -> emits s2 s3 cl2 ws2 -> emits s1 s3 (cl1 ++ cl2) (ws1 ++ ws2).
Proof.
  intros [R1 W1] [R2 W2]. split.
  - rewrite R2, R1, map_app, app_assoc. reflexivity.
  - rewrite W2, W1, app_assoc. reflexivity.
Qed.

Lemma wval_prefix s s' ws w :
  wits s' = wits s ++ ws -> (w < length (wits s))%nat -> wval s' w = wval s w.
Proof. intros E H. unfold wval. rewrite E. now apply app_nth1. Qed.

Lemma wval_new s s' v ws :
  wits s' = (wits s ++ [v]) ++ ws -> wval s' (length (wits s)) = v.
Proof.
  intros E. unfold wval. rewrite E, <- app_assoc. rewrite app_nth2 by lia.
  now rewrite Nat.sub_diag.
Qed.

Lemma ext_value_ext f g c :
  f (c_wa c) = g (c_wa c) -> f (c_wb c) = g (c_wb c) -> f (c_wd c) = g (c_wd c) ->
  ext_value f c = ext_value g c.
Proof. intros A B D. unfold ext_value. now rewrite A, B, D. Qed.

Ltac unfold_gadgets :=
  unfold component_boolean, assert_equal, assert_equal_constant, append_constant,
    append_public, component_select_one, append_gate, append_custom_gate, append_witness.
Ltac emits_simple :=
  split; unfold_gadgets; unfold arith_row; cbn [rows wits map fst snd];
  [reflexivity | try reflexivity; symmetry; apply app_nil_r].

Section WithPrime.
Context {PR : PrimeR}.
Add Field FrField2 : fr_field_theory.

(* one gate_add step as an [emits] fact plus its two semantic halves *)
Lemma gate_add_emits c s :
  let o := length (wits s) in
  emits s (snd (gate_add c s)) [set_c o (set_output fm1 c)] [ext_value (wval s) c]
  /\ fst (gate_add c s) = o.
Proof. cbv zeta. rewrite gate_add_spec. cbn [fst snd]. split; [emits_simple|reflexivity]. Qed.

(* the row of a gate_add is satisfied by every later honest witness table *)
Lemma gate_add_honest c s sf ws :
  pi_coherent c ->
  (c_wa c < length (wits s))%nat -> (c_wb c < length (wits s))%nat ->
  (c_wd c < length (wits s))%nat ->
  wits sf = (wits s ++ [ext_value (wval s) c]) ++ ws ->
  arith_rel (wval sf) (set_c (length (wits s)) (set_output fm1 c)).
Proof.
  intros Hpi Ha Hb Hd E. apply gate_add_rel; [exact Hpi|].
  rewrite (wval_new _ _ _ _ E). rewrite <- app_assoc in E.
  apply ext_value_ext; symmetry; eapply wval_prefix; eauto.
Qed.

(* ---------------- assert_equal ---------------- *)
Definition c_assert_equal (a b : nat) : constraint :=
  set_b b (set_a a (set_right fm1 (set_left 1 c_new))).

Theorem assert_equal_emits a b s :
  emits s (assert_equal a b s) [c_assert_equal a b] [].
Proof. unfold c_assert_equal. emits_simple. Qed.

Theorem assert_equal_iff asg a b :
  arith_rel asg (c_assert_equal a b) <-> asg a = asg b.
Proof.
  unfold arith_rel, c_assert_equal, fm1. cbn. split; intros H.
  - apply (fr_from_zero _ _ _ H). ring.
  - rewrite H. ring.
Qed.

(* ---------------- assert_equal_constant ---------------- *)
Definition c_assert_equal_constant (a : nat) (k : Fr) (pub : option Fr) : constraint :=
  let c := set_constant k (set_a a (set_left fm1 c_new)) in
  match pub with Some p => set_public p c | None => c end.

Theorem assert_equal_constant_emits a k pub s :
  emits s (assert_equal_constant a k pub s) [c_assert_equal_constant a k pub] [].
Proof. unfold c_assert_equal_constant. emits_simple. Qed.

(* a = constant + pi *)
Theorem assert_equal_constant_iff asg a k pub :
  arith_rel asg (c_assert_equal_constant a k pub) <-> asg a = k + pi_val pub.
Proof.
  unfold arith_rel, c_assert_equal_constant, fm1. destruct pub as [p|]; cbn; split; intros H.
  - apply (fr_from_zero' _ _ _ H). ring.
  - rewrite H. ring.
  - apply (fr_from_zero' _ _ _ H). ring.
  - rewrite H. ring.
Qed.

(* ---------------- append_constant / append_public ---------------- *)
Theorem append_constant_emits k s :
  let w := length (wits s) in
  fst (append_constant k s) = w /\
  emits s (snd (append_constant k s)) [c_assert_equal_constant w k None] [k].
Proof. cbv zeta. unfold c_assert_equal_constant. unfold_gadgets. cbn [fst snd]. split; [reflexivity|emits_simple]. Qed.

Definition c_append_public (w : nat) (p : Fr) : constraint :=
  set_public p (set_a w (set_left fm1 c_new)).

Theorem append_public_emits p s :
  let w := length (wits s) in
  fst (append_public p s) = w /\
  emits s (snd (append_public p s)) [c_append_public w p] [p].
Proof. cbv zeta. unfold c_append_public. unfold_gadgets. cbn [fst snd]. split; [reflexivity|emits_simple]. Qed.

Theorem append_public_iff asg w p :
  arith_rel asg (c_append_public w p) <-> asg w = p.
Proof.
  unfold arith_rel, c_append_public, fm1. cbn. split; intros H.
  - apply (fr_from_zero' _ _ _ H). ring.
  - rewrite H. ring.
Qed.

(* ---------------- component_boolean ---------------- *)
Definition c_boolean (a : nat) : constraint :=
  set_d W_ZERO (set_c a (set_b a (set_a a (set_output fm1 (set_mult 1 c_new))))).

Theorem component_boolean_emits a s :
  emits s (component_boolean a s) [c_boolean a] [].
Proof. unfold c_boolean. emits_simple. Qed.

Theorem component_boolean_iff asg a :
  arith_rel asg (c_boolean a) <-> asg a = 0 \/ asg a = 1.
Proof.
  unfold arith_rel, c_boolean, fm1. cbn. split.
  - intros H. assert (E : asg a * (asg a - 1) = 0) by (rewrite <- H; ring).
    apply fmul_integral in E. destruct E as [E|E]; [left; exact E|right].
    transitivity (asg a - 1 + 1); [ring|rewrite E; ring].
  - intros [H|H]; rewrite H; ring.
Qed.

(* ---------------- component_select_zero / _one / select ---------------- *)
Definition c_mul (a b : nat) : constraint := set_b b (set_a a (set_mult 1 c_new)).

Theorem component_select_zero_emits bit value s :
  let o := length (wits s) in
  fst (component_select_zero bit value s) = o /\
  emits s (snd (component_select_zero bit value s))
        [set_c o (set_output fm1 (c_mul bit value))]
        [wval s bit * wval s value].
Proof.
  cbv zeta. unfold component_select_zero, gate_mul. rewrite gate_add_spec. cbn [fst snd].
  split; [reflexivity|split; cbn [rows wits map]; [reflexivity|]]. f_equal. f_equal.
  unfold ext_value, c_mul. cbn [c_m c_l c_r c_f c_c c_pi c_wa c_wb c_wd set_b set_a set_mult c_new]. ring.
Qed.

Theorem component_select_zero_iff asg bit value o :
  arith_rel asg (set_c o (set_output fm1 (c_mul bit value))) <-> asg o = asg bit * asg value.
Proof.
  rewrite gate_add_rel by (intros _; reflexivity).
  unfold ext_value. cbn. split; intros H; rewrite H; ring.
Qed.

Definition c_select_one (bit value f_x : nat) : constraint :=
  set_c f_x (set_b value (set_a bit
    (set_constant 1 (set_output fm1 (set_left fm1 (set_mult 1 c_new)))))).

Theorem component_select_one_emits bit value s :
  let o := length (wits s) in
  fst (component_select_one bit value s) = o /\
  emits s (snd (component_select_one bit value s)) [c_select_one bit value o]
        [1 - wval s bit + wval s bit * wval s value].
Proof. cbv zeta. unfold c_select_one. unfold_gadgets. cbn [fst snd]. split; [reflexivity|emits_simple]. Qed.

(* f_x = 1 - bit + bit * value *)
Theorem component_select_one_iff asg bit value o :
  arith_rel asg (c_select_one bit value o) <-> asg o = 1 - asg bit + asg bit * asg value.
Proof.
  unfold arith_rel, c_select_one, fm1. cbn. split; intros H.
  - apply (fr_from_zero' _ _ _ H). ring.
  - rewrite H. ring.
Qed.

(* component_select: four rows *)
Definition select_rows (bit a b n : nat) : list constraint :=
  [ set_c n (set_output fm1 (c_mul bit a));
    set_c (S n) (set_output fm1 (set_a bit (set_constant 1 (set_left fm1 c_new))));
    set_c (S (S n)) (set_output fm1 (c_mul (S n) b));
    set_c (S (S (S n))) (set_output fm1
      (set_b n (set_a (S (S n)) (set_right 1 (set_left 1 c_new))))) ].

Theorem component_select_emits bit a b s :
  let n := length (wits s) in
  fst (component_select bit a b s) = S (S (S n)) /\
  exists ws, length ws = 4%nat /\
    emits s (snd (component_select bit a b s)) (select_rows bit a b n) ws.
Proof.
  cbv zeta. unfold component_select, gate_mul.
  rewrite gate_add_spec. cbn [fst snd].
  match goal with |- context [gate_add ?c ?s1] => rewrite (gate_add_spec c s1) end.
  cbn [fst snd wits rows]. rewrite !app_length. cbn [length].
  match goal with |- context [gate_add ?c ?s1] => rewrite (gate_add_spec c s1) end.
  cbn [fst snd wits rows]. rewrite !app_length. cbn [length].
  match goal with |- context [gate_add ?c ?s1] => rewrite (gate_add_spec c s1) end.
  cbn [fst snd wits rows]. rewrite !app_length. cbn [length].
  replace (length (wits s) + 1)%nat with (S (length (wits s))) by lia.
  replace (S (length (wits s)) + 1)%nat with (S (S (length (wits s)))) by lia.
  replace (S (S (length (wits s))) + 1)%nat with (S (S (S (length (wits s))))) by lia.
  split; [reflexivity|].
  eexists. split; [|split].
  2:{ cbn [rows]. rewrite <- !app_assoc. cbn [app]. reflexivity. }
  2:{ cbn [wits]. rewrite <- !app_assoc. cbn [app]. reflexivity. }
  reflexivity.
Qed.

(* soundness and uniqueness: any assignment satisfying the four rows has
   out = bit * a + (1 - bit) * b *)
Theorem component_select_sound asg bit a b n :
  Forall (arith_rel asg) (select_rows bit a b n) ->
  asg (S (S (S n))) = asg bit * asg a + (1 - asg bit) * asg b.
Proof.
  unfold select_rows. intros H.
  rewrite !Forall_cons_iff in H. destruct H as (H1 & H2 & H3 & H4 & _).
  apply gate_add_rel in H1; [|intros _; reflexivity].
  apply gate_add_rel in H2; [|intros _; reflexivity].
  apply gate_add_rel in H3; [|intros _; reflexivity].
  apply gate_add_rel in H4; [|intros _; reflexivity].
  unfold ext_value in *. cbn in *. rewrite H4, H3, H2, H1. unfold fm1. ring.
Qed.

End WithPrime.
