(* C14: the fixed-base signed-digit block. *)
From Coq Require Import ZArith List Bool Arith Lia Ring Field.
From PlonkV Require Import Base.Fr Base.FrFacts Gates.Gate Gates.CS Gates.CSFacts Gates.BlockFacts
  Composer.State Composer.Components Composer.ArithFacts Composer.BasicFacts Composer.RangeFacts
  Composer.TruncFacts Curve.Jubjub Curve.JubjubFacts Composer.PointComponents Composer.PointFacts.
Import ListNotations.
Local Open Scope fr_scope.

Definition fb_wx (base i : nat) : nat := (base + 4 * i)%nat.
Definition fb_wy (base i : nat) : nat := (base + 4 * i + 1)%nat.
Definition fb_wb (base i : nat) : nat := (base + 4 * i + 2)%nat.
Definition fb_wc (base i : nat) : nat := (base + 4 * i + 3)%nat.

Definition c_fixed_row (m : pt) (base i : nat) : constraint :=
  set_d (fb_wb base i) (set_c (fb_wc base i) (set_b (fb_wy base i) (set_a (fb_wx base i)
    (set_constant (fst m * snd m) (set_right (snd m) (set_left (fst m) (c_group_fixed c_new))))))).
Definition c_fb_anchor (base n : nat) : constraint :=
  set_d (fb_wb base n) (set_b (fb_wy base n) (set_a (fb_wx base n) c_new)).

Definition fb_block (ms : list pt) (base : nat) : list (gate * option Fr) :=
  map (fun i => crow (c_fixed_row (nth i ms ed_id) base i)) (seq 0 (length ms))
  ++ [arith_row (c_fb_anchor base (length ms))].

(* one round: digit, product wire, and the two addition equations *)
Definition fb_step (asg : assignment) (m : pt) (base i : nat) : Prop :=
  let bit := asg (fb_wb base (S i)) - asg (fb_wb base i) - asg (fb_wb base i) in
  let x := asg (fb_wx base i) in let y := asg (fb_wy base i) in
  let c := asg (fb_wc base i) in
  let xa := bit * fst m in let ya := bit * bit * (snd m - 1) + 1 in
  bit * (bit - 1) * (bit + 1) = 0 /\
  c = bit * (fst m * snd m) /\
  asg (fb_wx base (S i)) * (1 + ed_d * c * x * y) = x * ya + y * xa /\
  asg (fb_wy base (S i)) * (1 - ed_d * c * x * y) = y * ya + x * xa.

Section Fixed.
Context {PR : PrimeR}.
Add Field FrFieldFx : fr_field_theory.

Lemma row_ok_only_fixed g w n :
  q_arith g = 0 -> q_range g = 0 -> q_logic g = 0 -> q_var g = 0 -> q_fixed g = 1 ->
  (row_ok g w n 0 <-> fb_bitc w n = 0 /\ fb_xy g w n = 0 /\ fb_x g w n = 0 /\ fb_y g w n = 0).
Proof.
  intros Ha Hr Hl Hv Hf. unfold row_ok, t_arith. rewrite Ha, Hr, Hl, Hf, Hv. split.
  - intros (_ & _ & _ & (A & B & C & D) & _). repeat split; apply one_mul_zero; assumption.
  - intros (A & B & C & D). rewrite A, B, C, D. repeat split; ring.
Qed.

Lemma fb_block_closed ms base : closed_block (fb_block ms base).
Proof. unfold fb_block. apply closed_block_last. apply arith_gate_no_next. Qed.

Lemma fb_block_nth ms base i : (i < length ms)%nat ->
  nth_error (fb_block ms base) i = Some (crow (c_fixed_row (nth i ms ed_id) base i)).
Proof.
  intros H. unfold fb_block. rewrite nth_error_app1 by (rewrite map_length, seq_length; exact H).
  apply (nth_error_map_seq (fun i => crow (c_fixed_row (nth i ms ed_id) base i))). exact H.
Qed.

Lemma fb_block_next ms base asg i : (i < length ms)%nat ->
  let w := blk_wires (fb_block ms base) asg (S i) in
  va w = asg (fb_wx base (S i)) /\ vb w = asg (fb_wy base (S i)) /\ vd w = asg (fb_wb base (S i)).
Proof.
  intros H. cbv zeta. unfold blk_wires.
  destruct (Nat.eq_dec (S i) (length ms)) as [E|N].
  - unfold fb_block. rewrite nth_error_app2 by (rewrite map_length, seq_length; lia).
    rewrite map_length, seq_length, E, Nat.sub_diag. cbn [nth_error]. rewrite <- E.
    unfold arith_row, wires_of. cbn. repeat split.
  - rewrite fb_block_nth by lia. unfold crow, wires_of. cbn. repeat split.
Qed.

Lemma fixed_row_sem g w n xb yb :
  q_arith g = 0 -> q_range g = 0 -> q_logic g = 0 -> q_var g = 0 -> q_fixed g = 1 ->
  q_l g = xb -> q_r g = yb -> q_c g = xb * yb ->
  row_ok g w n 0 ->
  let bit := vd n - vd w - vd w in
  bit * (bit - 1) * (bit + 1) = 0 /\
  vc w = bit * (xb * yb) /\
  va n * (1 + ed_d * vc w * va w * vb w) = va w * (bit * bit * (yb - 1) + 1) + vb w * (bit * xb) /\
  vb n * (1 - ed_d * vc w * va w * vb w) = vb w * (bit * bit * (yb - 1) + 1) + va w * (bit * xb).
Proof.
  intros Ha Hr Hl Hv Hf Hql Hqr Hqc H.
  apply (proj1 (row_ok_only_fixed g w n Ha Hr Hl Hv Hf)) in H. destruct H as (A & B & C & D).
  unfold fb_bitc, fb_xy, fb_x, fb_y, fb_y_alpha, fb_x_alpha, fb_bit, extract_bit, check_bit_consistency, fsq in A, B, C, D.
  rewrite Hqc in B. rewrite Hql, Hqr in C. rewrite Hql, Hqr in D. cbv zeta. repeat split.
  - exact A.
  - apply (fr_from_zero _ _ _ (eq_refl 0)) in B. symmetry. exact B.
  - apply (fr_from_zero _ _ _ (eq_refl 0)) in C. rewrite <- C. ring.
  - apply (fr_from_zero _ _ _ (eq_refl 0)) in D. rewrite <- D. ring.
Qed.

Lemma fixed_row_wires asg m base i :
  wires_of asg (gate_of (c_fixed_row m base i))
  = mkWires (asg (fb_wx base i)) (asg (fb_wy base i)) (asg (fb_wc base i)) (asg (fb_wb base i)).
Proof. reflexivity. Qed.

Lemma fb_block_row asg ms base i :
  block_sat (fb_block ms base) asg -> (i < length ms)%nat ->
  row_ok (gate_of (c_fixed_row (nth i ms ed_id) base i))
         (wires_of asg (gate_of (c_fixed_row (nth i ms ed_id) base i)))
         (blk_wires (fb_block ms base) asg (S i)) 0.
Proof.
  intros H Hi. specialize (H i). unfold fb_block in H at 1. rewrite app_length, map_length, seq_length in H.
  specialize (H ltac:(lia)). unfold block_row_ok in H. rewrite fb_block_nth in H by exact Hi.
  unfold crow in H. replace (pi_val (pi_opt (c_fixed_row (nth i ms ed_id) base i))) with fzero in H by reflexivity.
  exact H.
Qed.

Theorem fb_block_steps asg ms base :
  block_sat (fb_block ms base) asg ->
  forall i, (i < length ms)%nat -> fb_step asg (nth i ms ed_id) base i.
Proof.
  intros H i Hi. pose proof (fb_block_next ms base asg i Hi) as (Na & Nb & Nd).
  pose proof (fb_block_row asg ms base i H Hi) as R.
  set (m := nth i ms ed_id) in *.
  pose proof (fixed_row_sem (gate_of (c_fixed_row m base i)) _ _ (fst m) (snd m)
                eq_refl eq_refl eq_refl eq_refl eq_refl eq_refl eq_refl eq_refl R) as K.
  cbv zeta in K. rewrite Na, Nb, Nd, fixed_row_wires in K. cbn [va vb vc vd] in K.
  exact K.
Qed.

(* ---- semantics of one round ---- *)
Lemma digit_cases bit : bit * (bit - 1) * (bit + 1) = 0 -> bit = 0 \/ bit = 1 \/ bit = fm1.
Proof.
  intros H. apply fmul_integral in H. destruct H as [H|H].
  - apply fmul_integral in H. destruct H as [H|H]; [left; exact H|right; left].
    transitivity (bit - 1 + 1); [ring|rewrite H; ring].
  - right; right. unfold fm1. transitivity (bit + 1 - 1); [ring|rewrite H; ring].
Qed.

Lemma digit_point_0 m : digit_point 0 m = ed_id. Proof. reflexivity. Qed.
Lemma digit_point_1 m : digit_point 1 m = m. Proof. reflexivity. Qed.
Lemma digit_point_m1 m : digit_point (-1) m = ed_neg m. Proof. reflexivity. Qed.
Lemma digit_scalar_0 : digit_scalar 0 = 0. Proof. reflexivity. Qed.
Lemma digit_scalar_1 : digit_scalar 1 = 1. Proof. reflexivity. Qed.
Lemma digit_scalar_m1 : digit_scalar (-1) = fm1. Proof. reflexivity. Qed.

Lemma f2_eq : f2 = 1 + 1.
Proof. apply fr_eq. vm_compute. reflexivity. Qed.

Lemma digit_point_on_curve d m : on_curve m -> on_curve (digit_point d m).
Proof.
  intros H. unfold digit_point. destruct (d =? 0)%Z; [apply ed_id_on_curve|].
  destruct (d =? 1)%Z; [exact H|apply ed_neg_on_curve; exact H].
Qed.

Context {ND : NonSquareD}.

Theorem fb_step_sound asg m base i :
  on_curve m -> on_curve (asg (fb_wx base i), asg (fb_wy base i)) ->
  fb_step asg m base i ->
  exists d : Z, (d = 0 \/ d = 1 \/ d = -1)%Z /\
    asg (fb_wb base (S i)) = f2 * asg (fb_wb base i) + digit_scalar d /\
    (asg (fb_wx base (S i)), asg (fb_wy base (S i)))
      = ed_add (asg (fb_wx base i), asg (fb_wy base i)) (digit_point d m).
Proof.
  intros Cm Cp (A & B & C & D).
  set (bit := asg (fb_wb base (S i)) - asg (fb_wb base i) - asg (fb_wb base i)) in *.
  assert (Hacc : asg (fb_wb base (S i)) = f2 * asg (fb_wb base i) + bit)
    by (subst bit; rewrite f2_eq; ring).
  destruct (digit_cases bit A) as [E|[E|E]].
  - exists 0%Z. split; [lia|]. rewrite digit_point_0, digit_scalar_0. split; [rewrite Hacc, E; reflexivity|].
    apply ed_add_unique; [exact Cp|apply ed_id_on_curve| |]; unfold ed_t, ed_id; cbn [fst snd].
    + transitivity (asg (fb_wx base (S i)) * (1 + ed_d * asg (fb_wc base i) * asg (fb_wx base i) * asg (fb_wy base i))); [rewrite B, E; ring|rewrite C, E; ring].
    + transitivity (asg (fb_wy base (S i)) * (1 - ed_d * asg (fb_wc base i) * asg (fb_wx base i) * asg (fb_wy base i))); [rewrite B, E; ring|rewrite D, E; ring].
  - exists 1%Z. split; [lia|]. rewrite digit_point_1, digit_scalar_1. split; [rewrite Hacc, E; reflexivity|].
    apply ed_add_unique; [exact Cp|exact Cm| |]; unfold ed_t; cbn [fst snd].
    + transitivity (asg (fb_wx base (S i)) * (1 + ed_d * asg (fb_wc base i) * asg (fb_wx base i) * asg (fb_wy base i))); [rewrite B, E; ring|rewrite C, E; ring].
    + transitivity (asg (fb_wy base (S i)) * (1 - ed_d * asg (fb_wc base i) * asg (fb_wx base i) * asg (fb_wy base i))); [rewrite B, E; ring|rewrite D, E; ring].
  - exists (-1)%Z. split; [lia|]. rewrite digit_point_m1, digit_scalar_m1. split; [rewrite Hacc, E; reflexivity|].
    apply ed_add_unique; [exact Cp|apply ed_neg_on_curve; exact Cm| |]; unfold ed_t, ed_neg; cbn [fst snd].
    + transitivity (asg (fb_wx base (S i)) * (1 + ed_d * asg (fb_wc base i) * asg (fb_wx base i) * asg (fb_wy base i))); [rewrite B, E; unfold fm1; ring|rewrite C, E; unfold fm1; ring].
    + transitivity (asg (fb_wy base (S i)) * (1 - ed_d * asg (fb_wc base i) * asg (fb_wx base i) * asg (fb_wy base i))); [rewrite B, E; unfold fm1; ring|rewrite D, E; unfold fm1; ring].
Qed.
End Fixed.

(* ---- the whole chain ---- *)
Definition is_digit (d : Z) : Prop := (d = 0 \/ d = 1 \/ d = -1)%Z.

(* signed-digit value and point, most significant digit first *)
Fixpoint sd_val (acc : Z) (ds : list Z) : Z :=
  match ds with [] => acc | d :: tl => sd_val (2 * acc + d) tl end.
Fixpoint sd_point (acc : pt) (ds : list Z) (ms : list pt) : pt :=
  match ds, ms with
  | d :: dt, m :: mt => sd_point (ed_add acc (digit_point d m)) dt mt
  | _, _ => acc
  end.

Lemma digit_scalar_F d : is_digit d -> digit_scalar d = F d.
Proof.
  intros [->|[->| ->]]; [reflexivity|reflexivity|].
  rewrite digit_scalar_m1. apply fr_eq. vm_compute. reflexivity.
Qed.

Lemma sd_val_bound ds : Forall is_digit ds -> forall acc,
  (Z.abs (sd_val acc ds) <= (Z.abs acc + 1) * 2 ^ Z.of_nat (length ds) - 1)%Z.
Proof.
  induction 1 as [|d tl Hd _ IH]; intros acc; cbn [sd_val length].
  - cbn. lia.
  - specialize (IH (2 * acc + d)%Z). rewrite Nat2Z.inj_succ, Z.pow_succ_r by lia.
    assert (Z.abs (2 * acc + d) + 1 <= 2 * (Z.abs acc + 1))%Z by (destruct Hd as [->|[->| ->]]; lia).
    assert (0 < 2 ^ Z.of_nat (length tl))%Z by (apply Z.pow_pos_nonneg; lia). nia.
Qed.

Section Chain.
Context {PR : PrimeR} {ND : NonSquareD}.
Add Field FrFieldCh : fr_field_theory.

Theorem fb_chain_sound asg base : forall ms i acc0,
  Forall on_curve ms ->
  (forall k, (k < length ms)%nat -> fb_step asg (nth k ms ed_id) base (i + k)) ->
  on_curve (asg (fb_wx base i), asg (fb_wy base i)) ->
  asg (fb_wb base i) = F acc0 ->
  exists ds, length ds = length ms /\ Forall is_digit ds /\
    (forall j, (j <= length ms)%nat -> asg (fb_wb base (i + j)) = F (sd_val acc0 (firstn j ds))) /\
    (asg (fb_wx base (i + length ms)), asg (fb_wy base (i + length ms)))
      = sd_point (asg (fb_wx base i), asg (fb_wy base i)) ds ms /\
    on_curve (asg (fb_wx base (i + length ms)), asg (fb_wy base (i + length ms))).
Proof.
  induction ms as [|m ms IH]; intros i acc0 Hm Hst Hp Hs.
  - exists []. cbn [length]. rewrite Nat.add_0_r. repeat split; auto.
    intros j Hj. replace j with O by lia. rewrite Nat.add_0_r. exact Hs.
  - inversion Hm as [|m' ms' Cm Cms]; subst.
    pose proof (Hst O ltac:(cbn; lia)) as H0. cbn [nth] in H0. rewrite Nat.add_0_r in H0.
    destruct (fb_step_sound asg m base i Cm Hp H0) as (d & Hd & Hacc & Hpt).
    assert (Hp' : on_curve (asg (fb_wx base (S i)), asg (fb_wy base (S i)))).
    { rewrite Hpt. apply ed_add_closed; [exact Hp|apply digit_point_on_curve; exact Cm]. }
    assert (Hs' : asg (fb_wb base (S i)) = F (2 * acc0 + d)).
    { rewrite Hacc, Hs, (digit_scalar_F d Hd). unfold f2, F. rewrite of_Z_add, of_Z_mul. reflexivity. }
    destruct (IH (S i) (2 * acc0 + d)%Z Cms) as (ds & Hl & Hds & Hb & Hq & Hc); try assumption.
    { intros k Hk. replace (S i + k)%nat with (i + S k)%nat by lia.
      apply (Hst (S k)). cbn [length]. lia. }
    exists (d :: ds). cbn [length sd_point].
    replace (i + S (length ms))%nat with (S i + length ms)%nat by lia.
    repeat split.
    + now rewrite Hl.
    + constructor; assumption.
    + intros j Hj. destruct j as [|j]; [rewrite Nat.add_0_r; exact Hs|].
      cbn [firstn sd_val]. replace (i + S j)%nat with (S i + j)%nat by lia. apply Hb. lia.
    + rewrite Hq, Hpt. reflexivity.
    + exact Hc.
Qed.

Lemma sd_val_zeros3 acc rest : sd_val acc (0 :: 0 :: 0 :: rest)%Z = sd_val (8 * acc) rest.
Proof. cbn [sd_val]. f_equal. lia. Qed.

(* the closing equalities turn the field equation into an integer equation *)
Theorem fixed_base_sound asg ms base scalar :
  length ms = 256%nat -> Forall on_curve ms ->
  block_sat (fb_block ms base) asg ->
  asg (fb_wx base 0) = 0 -> asg (fb_wy base 0) = 1 -> asg (fb_wb base 0) = 0 ->
  asg (fb_wb base 3) = 0 ->
  asg (fb_wb base 256) = asg scalar ->
  (val (asg scalar) < 2 ^ 252)%Z ->
  exists ds, length ds = 256%nat /\ Forall is_digit ds /\ firstn 3 ds = [0; 0; 0]%Z /\
    sd_val 0 ds = val (asg scalar) /\
    (asg (fb_wx base 256), asg (fb_wy base 256)) = sd_point ed_id ds ms.
Proof.
  intros Hlen Hm Hsat Hx0 Hy0 Hb0 Hlead Hclose Hrange.
  pose proof (fb_block_steps asg ms base Hsat) as Hst.
  destruct (fb_chain_sound asg base ms 0 0%Z Hm) as (ds & Hl & Hds & Hb & Hq & _).
  { intros k Hk. cbn [Nat.add]. apply Hst. exact Hk. }
  { rewrite Hx0, Hy0. apply ed_id_on_curve. }
  { rewrite Hb0. reflexivity. }
  rewrite Hlen in *. cbn [Nat.add] in Hb, Hq. rewrite Hx0, Hy0 in Hq.
  destruct ds as [|d0 [|d1 [|d2 rest]]]; try (cbn in Hl; discriminate Hl).
  inversion Hds as [|? ? D0 Hds1]; subst. inversion Hds1 as [|? ? D1 Hds2]; subst.
  inversion Hds2 as [|? ? D2 Hrest]; subst.
  assert (H3 : (4 * d0 + 2 * d1 + d2 = 0)%Z).
  { pose proof (Hb 3%nat ltac:(lia)) as E. cbn [firstn sd_val] in E. rewrite Hlead in E.
    apply (F_inj_range _ 0%Z); [symmetry; replace (2 * (2 * (2 * 0 + d0) + d1) + d2)%Z with (4 * d0 + 2 * d1 + d2)%Z in E by lia; exact E|].
    pose proof r_bound_lo. assert (8 < 2 ^ 254)%Z by reflexivity.
    destruct D0 as [->|[->| ->]], D1 as [->|[->| ->]], D2 as [->|[->| ->]]; lia. }
  assert (Z0 : d0 = 0%Z /\ d1 = 0%Z /\ d2 = 0%Z)
    by (destruct D0 as [->|[->| ->]], D1 as [->|[->| ->]], D2 as [->|[->| ->]]; lia).
  destruct Z0 as (-> & -> & ->).
  exists (0 :: 0 :: 0 :: rest)%Z. repeat split; try assumption.
  - pose proof (Hb 256%nat ltac:(lia)) as E. rewrite firstn_all2 in E by (rewrite Hl; lia).
    rewrite Hclose in E. rewrite <- (of_Z_val (asg scalar)) in E.
    symmetry. apply F_inj_range; [exact E|].
    rewrite sd_val_zeros3. pose proof (sd_val_bound rest Hrest (8 * 0)%Z) as B.
    assert (Lr : length rest = 253%nat) by (cbn [length] in Hl; lia). rewrite Lr in B.
    change (Z.of_nat 253) with 253%Z in B.
    pose proof (val_range (asg scalar)). pose proof r_bound_lo.
    assert (2 ^ 253 + 2 ^ 252 < 2 ^ 254)%Z by reflexivity. assert (0 < 2 ^ 253)%Z by reflexivity. assert (0 < 2 ^ 252)%Z by reflexivity.
    change (8 * 0)%Z with 0%Z in *. change (Z.abs 0) with 0%Z in B. lia.
Qed.
End Chain.

(* ---- assert_canonical_jubjub_scalar ---- *)
Definition c_dist (scalar o : nat) : constraint :=
  set_c o (set_output fm1 (set_constant rj_minus_1 (set_a scalar (set_left fm1 c_new)))).

Definition canonical_blk (scalar base : nat) : list (gate * option Fr) :=
  range_blk scalar 252 base
  ++ [arith_row (c_dist scalar (base + 126))]
  ++ range_blk (base + 126) 252 (S (base + 126)).

Lemma range_check_252_len w s :
  length (wits (range_check w 252 s)) = (length (wits s) + 126)%nat.
Proof. unfold range_check. cbn [Nat.even]. rewrite range_check_even_len. reflexivity. Qed.

Theorem assert_canonical_rows scalar s :
  rows (assert_canonical_jubjub_scalar scalar s) = rows s ++ canonical_blk scalar (length (wits s))
  /\ length (wits (assert_canonical_jubjub_scalar scalar s)) = (length (wits s) + 253)%nat.
Proof.
  unfold assert_canonical_jubjub_scalar, canonical_blk.
  set (s1 := range_check scalar 252 s).
  assert (L1 : length (wits s1) = (length (wits s) + 126)%nat) by apply range_check_252_len.
  assert (R1 : rows s1 = rows s ++ range_blk scalar 252 (length (wits s))) by apply range_check_rows.
  rewrite gate_add_spec. cbn [fst snd].
  set (s2 := mkCS _ _).
  assert (L2 : length (wits s2) = S (length (wits s) + 126)).
  { unfold s2. cbn [wits]. rewrite app_length, L1. cbn [length]. lia. }
  split.
  - rewrite range_check_rows. unfold s2 at 1. cbn [rows]. rewrite R1, L1, L2, <- !app_assoc. reflexivity.
  - rewrite range_check_252_len, L2. lia.
Qed.

Section Canonical.
Context {PR : PrimeR}.
Add Field FrFieldCa : fr_field_theory.

Lemma canonical_blk_split asg scalar base :
  block_sat (canonical_blk scalar base) asg ->
  block_sat (range_blk scalar 252 base) asg /\ arith_rel asg (c_dist scalar (base + 126))
  /\ block_sat (range_blk (base + 126) 252 (S (base + 126))) asg.
Proof.
  unfold canonical_blk. intros H.
  apply block_sat_app in H; [|apply range_blk_closed]. destruct H as [H1 H].
  change [arith_row (c_dist scalar (base + 126))] with (map arith_row [c_dist scalar (base + 126)]) in H.
  apply block_sat_app in H; [|apply closed_arith_block]. destruct H as [H2 H3].
  apply block_sat_arith in H2. inversion H2; subst. repeat split; assumption.
Qed.

Theorem canonical_scalar_sound asg scalar base :
  asg W_ZERO = 0 -> block_sat (canonical_blk scalar base) asg ->
  (val (asg scalar) < 2 ^ 252 /\ val (asg scalar) < rj)%Z.
Proof.
  intros Hz H. apply canonical_blk_split in H. destruct H as (H1 & H2 & H3).
  pose proof (range_sound scalar 252 base asg ltac:(lia) Hz H1) as B1.
  pose proof (range_sound (base + 126) 252 (S (base + 126)) asg ltac:(lia) Hz H3) as B2.
  change (Z.of_nat 252) with 252%Z in *. split; [exact B1|].
  unfold c_dist in H2. apply gate_add_rel in H2; [|intros _; reflexivity].
  unfold ext_value in H2.
  cbn [c_m c_l c_r c_f c_c c_pi c_wa c_wb c_wd set_constant set_a set_left c_new] in H2.
  set (v := val (asg scalar)) in *.
  assert (Ev : asg scalar = F v) by (subst v; symmetry; apply of_Z_val).
  assert (Ed : asg (base + 126)%nat = F (rj - 1 - v)).
  { rewrite H2, Ev. unfold rj_minus_1, fm1, F. rewrite !of_Z_sub. change (of_Z 1) with fone. ring. }
  rewrite Ed in B2. unfold F in B2. rewrite val_of_Z in B2.
  pose proof (val_range (asg scalar)) as Rv. fold v in Rv.
  pose proof r_bound_lo as Rl. pose proof r_bound_hi as Rh.
  assert (Hrj : (0 < rj < 2 ^ 252)%Z) by (split; reflexivity).
  assert (P252 : (2 ^ 254 = 4 * 2 ^ 252)%Z) by reflexivity.
  destruct (Z_lt_ge_dec v rj) as [Hlt|Hge]; [exact Hlt|exfalso].
  assert (Em : ((rj - 1 - v) mod r = rj - 1 - v + r)%Z).
  { symmetry. apply (Z.mod_unique _ _ (-1)%Z); lia. }
  rewrite Em in B2. lia.
Qed.
End Canonical.
