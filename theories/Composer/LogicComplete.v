(* C10, completeness: honest accumulators, products and truncation helpers
   satisfy every row of the logic block. *)
From Coq Require Import ZArith List Bool Arith Lia Ring.
From PlonkV Require Import Base.Fr Base.FrFacts Base.Bits Gates.Gate Gates.GateFacts Gates.CS Gates.CSFacts
  Gates.BlockFacts Composer.State Composer.Components Composer.ArithFacts Composer.BasicFacts
  Composer.RangeFacts Composer.RangeComplete Composer.TruncFacts Composer.TruncComplete Composer.LogicFacts.
Import ListNotations.
Local Open Scope fr_scope.

Section LogicComplete.
Context {PR : PrimeR}.
Add Ring FrRingLC : fr_ring_theory.

(* the table identity holds for the honest output quad *)
Lemma logic_table_complete is_xor p q :
  (0 <= p < 4)%Z -> (0 <= q < 4)%Z ->
  delta_xor_and (F p) (F q) (F p * F q) (F (bop is_xor p q)) (qsel is_xor) = 0.
Proof.
  intros Hp Hq. pose proof (table_all is_xor) as T. rewrite forallb_forall in T.
  pose proof (bop_quad_range is_xor p q Hp Hq) as Ht.
  specialize (T (p, q, bop is_xor p q)).
  assert (I : In (p, q, bop is_xor p q) quad_triples).
  { unfold quad_triples. apply in_flat_map. exists p. split; [now apply in_quads|].
    apply in_flat_map. exists q. split; [now apply in_quads|].
    apply in_map. now apply in_quads. }
  specialize (T I). unfold table_ok in T.
  assert (E : (bop is_xor p q =? (if is_xor then Z.lxor p q else Z.land p q))%Z = true)
    by (destruct is_xor; apply Z.eqb_refl).
  rewrite E in T. apply eqb_prop in T.
  destruct (feqb_spec (delta_xor_and (F p) (F q) (F p * F q) (F (bop is_xor p q)) (qsel is_xor)) 0) as [Z0|NZ];
    [exact Z0|discriminate T].
Qed.

(* converse of logic_row_ok *)
Lemma logic_row_ok_conv is_xor asg a b c d n :
  let la := va n - f4 * asg a in let lb := vb n - f4 * asg b in let ld := vd n - f4 * asg d in
  delta la = 0 -> delta lb = 0 -> delta ld = 0 -> asg c = la * lb ->
  delta_xor_and la lb (asg c) ld (qsel is_xor) = 0 ->
  row_ok (logic_gate is_xor a b c d) (wires_of asg (logic_gate is_xor a b c d)) n 0.
Proof.
  cbv zeta. intros H0 H1 H2 H3 H4.
  unfold row_ok, t_arith, arith_core, range_c1, range_c2, range_c3, range_c4,
    logic_c0, logic_c1, logic_c2, logic_c3, logic_c4, logic_a, logic_b, logic_d,
    fb_bitc, fb_xy, fb_x, fb_y, vb_xy, vb_x3, vb_y3.
  cbn [q_m q_l q_r q_o q_f q_c q_arith q_range q_logic q_fixed q_var logic_gate wires_of va vb vc vd w_a w_b w_c w_d].
  rewrite H0, H1, H2, H4, H3. repeat split; ring.
Qed.

Lemma block_sat_cons g o l asg :
  row_ok g (wires_of asg g) (blk_wires l asg 0) (pi_val o) -> block_sat l asg ->
  block_sat ((g, o) :: l) asg.
Proof.
  intros Hr Hl i Hi. destruct i as [|i].
  - unfold block_row_ok. cbn [nth_error]. unfold blk_wires in *. cbn [nth_error]. exact Hr.
  - specialize (Hl i ltac:(cbn [length] in Hi; lia)).
    unfold block_row_ok, blk_wires in *. cbn [nth_error]. exact Hl.
Qed.

(* honest accumulators along a list of quad pairs, most significant first *)
Fixpoint accs (is_xor : bool) (ps qs : list Z) (A B D : Z) : list (Z * Z * Z * Z) :=
  match ps, qs with
  | p :: pt, q :: qt =>
      let A' := (4 * A + p)%Z in let B' := (4 * B + q)%Z in let D' := (4 * D + bop is_xor p q)%Z in
      (A', B', (p * q)%Z, D') :: accs is_xor pt qt A' B' D'
  | _, _ => []
  end.

Lemma F4 x : F (4 * x) = f4 * F x.
Proof. rewrite F_mul. reflexivity. Qed.

Theorem logic_rows_complete is_xor asg : forall ps qs a b d base A B D,
  length ps = length qs ->
  Forall (fun p => 0 <= p < 4)%Z ps -> Forall (fun q => 0 <= q < 4)%Z qs ->
  asg a = F A -> asg b = F B -> asg d = F D ->
  (forall t x, nth_error (accs is_xor ps qs A B D) t = Some x ->
     let '(At, Bt, Ct, Dt) := x in
     asg (base + 4 * t)%nat = F At /\ asg (base + 4 * t + 1)%nat = F Bt /\
     asg (base + 4 * t + 2)%nat = F Ct /\ asg (base + 4 * t + 3)%nat = F Dt) ->
  let n := length ps in
  let '(la, ra, dd) := logic_last a b d base n in
  block_sat (logic_rows is_xor a b d base n ++ [(plain_gate la ra dd, None)]) asg.
Proof.
  induction ps as [|p pt IH]; intros qs a b d base A B D Hlen Hps Hqs Ea Eb Ed Hacc; cbv zeta.
  - cbn [length logic_last logic_rows app]. apply block_sat_cons; [|intros i Hi; cbn in Hi; lia].
    apply row_ok_no_next; [apply plain_gate_no_next|]. unfold t_arith. cbn [q_arith plain_gate pi_val]. ring.
  - destruct qs as [|q qt]; [cbn in Hlen; lia|]. cbn [length] in Hlen.
    inversion Hps as [|? ? Hp Hpt]; subst. inversion Hqs as [|? ? Hq Hqt]; subst.
    cbn [length logic_rows]. 
    pose proof (Hacc O _ eq_refl) as H0. cbn [accs nth_error] in H0.
    replace (base + 4 * 0)%nat with base in H0 by lia. destruct H0 as (Ea' & Eb' & Ec' & Ed').
    replace (base + 0 + 1)%nat with (base + 1)%nat in * by lia.
    assert (IHs := IH qt base (base + 1)%nat (base + 3)%nat (base + 4)%nat
                     (4 * A + p)%Z (4 * B + q)%Z (4 * D + bop is_xor p q)%Z ltac:(lia) Hpt Hqt).
    replace (base + 4 * 0 + 1)%nat with (base + 1)%nat in Eb' by lia.
    replace (base + 4 * 0 + 2)%nat with (base + 2)%nat in Ec' by lia.
    replace (base + 4 * 0 + 3)%nat with (base + 3)%nat in Ed' by lia.
    specialize (IHs Ea' Eb' Ed').
    assert (Hacc' : forall t x, nth_error (accs is_xor pt qt (4 * A + p) (4 * B + q) (4 * D + bop is_xor p q)) t = Some x ->
              let '(At, Bt, Ct, Dt) := x in
              asg (base + 4 + 4 * t)%nat = F At /\ asg (base + 4 + 4 * t + 1)%nat = F Bt /\
              asg (base + 4 + 4 * t + 2)%nat = F Ct /\ asg (base + 4 + 4 * t + 3)%nat = F Dt).
    { intros t x Hx. specialize (Hacc (S t) x). cbn [accs nth_error] in Hacc. specialize (Hacc Hx).
      destruct x as [[[At Bt] Ct] Dt].
      replace (base + 4 * S t)%nat with (base + 4 + 4 * t)%nat in Hacc by lia. exact Hacc. }
    specialize (IHs Hacc'). cbv zeta in IHs.
    (* the closing row of the tail is the closing row of the whole *)
    assert (EL : logic_last a b d base (S (length pt)) = logic_last base (base + 1) (base + 3) (base + 4) (length pt)).
    { unfold logic_last. destruct (length pt) as [|m]; [f_equal; [f_equal|]; lia|].
      f_equal; [f_equal|]; lia. }
    rewrite EL. destruct (logic_last base (base + 1) (base + 3) (base + 4) (length pt)) as [[la ra] dd] eqn:EL2.
    cbn [app]. apply block_sat_cons; [|exact IHs]. cbn [pi_val].
    (* the wires of the next row: either the next logic row or the closing row carry (base, base+1, _, base+3) *)
    assert (Hn : let nx := blk_wires (logic_rows is_xor base (base + 1) (base + 3) (base + 4) (length pt) ++ [(plain_gate la ra dd, None)]) asg 0 in
                 va nx = asg base /\ vb nx = asg (base + 1)%nat /\ vd nx = asg (base + 3)%nat).
    { cbv zeta. unfold blk_wires. destruct pt as [|p2 pt2].
      - cbn [length logic_rows app nth_error]. cbn [length logic_last] in EL2. inversion EL2; subst.
        unfold wires_of. cbn [va vb vd plain_gate w_a w_b w_d]. repeat split.
      - cbn [length logic_rows app nth_error]. unfold wires_of. cbn [va vb vd logic_gate w_a w_b w_d]. repeat split. }
    cbv zeta in Hn. destruct Hn as (Na & Nb & Nd).
    apply logic_row_ok_conv; rewrite ?Na, ?Nb, ?Nd, ?Ea, ?Eb, ?Ed, ?Ea', ?Eb', ?Ec', ?Ed'.
    + replace (F (4 * A + p) - f4 * F A) with (F p) by (rewrite F_add, F4; ring). apply delta_F_quad; exact Hp.
    + replace (F (4 * B + q) - f4 * F B) with (F q) by (rewrite F_add, F4; ring). apply delta_F_quad; exact Hq.
    + replace (F (4 * D + bop is_xor p q) - f4 * F D) with (F (bop is_xor p q)) by (rewrite F_add, F4; ring).
      apply delta_F_quad. apply bop_quad_range; assumption.
    + replace (F (4 * A + p) - f4 * F A) with (F p) by (rewrite F_add, F4; ring).
      replace (F (4 * B + q) - f4 * F B) with (F q) by (rewrite F_add, F4; ring). apply F_mul.
    + replace (F (4 * A + p) - f4 * F A) with (F p) by (rewrite F_add, F4; ring).
      replace (F (4 * B + q) - f4 * F B) with (F q) by (rewrite F_add, F4; ring).
      replace (F (4 * D + bop is_xor p q) - f4 * F D) with (F (bop is_xor p q)) by (rewrite F_add, F4; ring).
      rewrite F_mul. apply logic_table_complete; assumption.
Qed.

(* the whole logic block: honest accumulator rows plus the two (honest) truncation bindings *)
Theorem logic_complete is_xor asg P a b base ps qs :
  (1 <= P)%nat -> length ps = P -> length qs = P ->
  Forall (fun p => 0 <= p < 4)%Z ps -> Forall (fun q => 0 <= q < 4)%Z qs ->
  asg W_ZERO = 0 ->
  (forall t x, nth_error (accs is_xor ps qs 0 0 0) t = Some x ->
     let '(At, Bt, Ct, Dt) := x in
     asg (base + 4 * t)%nat = F At /\ asg (base + 4 * t + 1)%nat = F Bt /\
     asg (base + 4 * t + 2)%nat = F Ct /\ asg (base + 4 * t + 3)%nat = F Dt) ->
  let '(la, ra, d) := logic_last W_ZERO W_ZERO W_ZERO base P in
  block_sat (split_blk a la (2 * P) (base + 4 * P)) asg ->
  block_sat (split_blk b ra (2 * P) (base + 4 * P + split_nw (2 * P))) asg ->
  block_sat (logic_blk is_xor P a b base) asg.
Proof.
  intros HP Lp Lq Hps Hqs Hz Hacc. unfold logic_blk.
  pose proof (logic_rows_complete is_xor asg ps qs W_ZERO W_ZERO W_ZERO base 0 0 0 ltac:(lia) Hps Hqs Hz Hz Hz Hacc) as Hrows.
  cbv zeta in Hrows. rewrite Lp in Hrows.
  destruct (logic_last W_ZERO W_ZERO W_ZERO base P) as [[la ra] d].
  intros Ha Hb. destruct P as [|P']; [lia|].
  rewrite app_assoc.
  apply block_sat_app; [apply closed_block_last, plain_gate_no_next|]. split; [exact Hrows|].
  apply block_sat_app; [apply split_blk_closed|]. split; assumption.
Qed.
End LogicComplete.
