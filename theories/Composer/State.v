(* Model of src/composer.rs and src/composer/constraint_system/constraint.rs:
   the Constraint builder, the composer state and its three primitives. *)
From Coq Require Import ZArith List Bool Arith Lia.
From PlonkV Require Import Base.Fr Gates.Gate.
Import ListNotations.
Local Open Scope fr_scope.

Definition fm1 : Fr := fopp fone.

(* Constraint: 12 coefficients in Selector order, the public-input flag, 4 wires *)
Record constraint : Set := mkC {
  c_m : Fr; c_l : Fr; c_r : Fr; c_o : Fr; c_f : Fr; c_c : Fr; c_pi : Fr;
  c_arith : Fr; c_range : Fr; c_logic : Fr; c_fixed : Fr; c_var : Fr;
  c_has_pi : bool;
  c_wa : nat; c_wb : nat; c_wc : nat; c_wd : nat }.

(* Witness::ZERO = 0, Witness::ONE = 1 *)
Definition W_ZERO : nat := O.
Definition W_ONE : nat := 1%nat.

Definition c_new : constraint :=
  mkC 0 0 0 0 0 0 0 0 0 0 0 0 false W_ZERO W_ZERO W_ZERO W_ZERO.

(* public setters *)
Definition set_mult (v : Fr) (c : constraint) := mkC v (c_l c) (c_r c) (c_o c) (c_f c) (c_c c) (c_pi c) (c_arith c) (c_range c) (c_logic c) (c_fixed c) (c_var c) (c_has_pi c) (c_wa c) (c_wb c) (c_wc c) (c_wd c).
Definition set_left (v : Fr) (c : constraint) := mkC (c_m c) v (c_r c) (c_o c) (c_f c) (c_c c) (c_pi c) (c_arith c) (c_range c) (c_logic c) (c_fixed c) (c_var c) (c_has_pi c) (c_wa c) (c_wb c) (c_wc c) (c_wd c).
Definition set_right (v : Fr) (c : constraint) := mkC (c_m c) (c_l c) v (c_o c) (c_f c) (c_c c) (c_pi c) (c_arith c) (c_range c) (c_logic c) (c_fixed c) (c_var c) (c_has_pi c) (c_wa c) (c_wb c) (c_wc c) (c_wd c).
Definition set_output (v : Fr) (c : constraint) := mkC (c_m c) (c_l c) (c_r c) v (c_f c) (c_c c) (c_pi c) (c_arith c) (c_range c) (c_logic c) (c_fixed c) (c_var c) (c_has_pi c) (c_wa c) (c_wb c) (c_wc c) (c_wd c).
Definition set_fourth (v : Fr) (c : constraint) := mkC (c_m c) (c_l c) (c_r c) (c_o c) v (c_c c) (c_pi c) (c_arith c) (c_range c) (c_logic c) (c_fixed c) (c_var c) (c_has_pi c) (c_wa c) (c_wb c) (c_wc c) (c_wd c).
Definition set_constant (v : Fr) (c : constraint) := mkC (c_m c) (c_l c) (c_r c) (c_o c) (c_f c) v (c_pi c) (c_arith c) (c_range c) (c_logic c) (c_fixed c) (c_var c) (c_has_pi c) (c_wa c) (c_wb c) (c_wc c) (c_wd c).
Definition set_public (v : Fr) (c : constraint) := mkC (c_m c) (c_l c) (c_r c) (c_o c) (c_f c) (c_c c) v (c_arith c) (c_range c) (c_logic c) (c_fixed c) (c_var c) true (c_wa c) (c_wb c) (c_wc c) (c_wd c).
Definition set_a (w : nat) (c : constraint) := mkC (c_m c) (c_l c) (c_r c) (c_o c) (c_f c) (c_c c) (c_pi c) (c_arith c) (c_range c) (c_logic c) (c_fixed c) (c_var c) (c_has_pi c) w (c_wb c) (c_wc c) (c_wd c).
Definition set_b (w : nat) (c : constraint) := mkC (c_m c) (c_l c) (c_r c) (c_o c) (c_f c) (c_c c) (c_pi c) (c_arith c) (c_range c) (c_logic c) (c_fixed c) (c_var c) (c_has_pi c) (c_wa c) w (c_wc c) (c_wd c).
Definition set_c (w : nat) (c : constraint) := mkC (c_m c) (c_l c) (c_r c) (c_o c) (c_f c) (c_c c) (c_pi c) (c_arith c) (c_range c) (c_logic c) (c_fixed c) (c_var c) (c_has_pi c) (c_wa c) (c_wb c) w (c_wd c).
Definition set_d (w : nat) (c : constraint) := mkC (c_m c) (c_l c) (c_r c) (c_o c) (c_f c) (c_c c) (c_pi c) (c_arith c) (c_range c) (c_logic c) (c_fixed c) (c_var c) (c_has_pi c) (c_wa c) (c_wb c) (c_wc c) w.

(* from_external: copy the 7 external coefficients, flag and wires; clear the
   internal selectors *)
Definition from_external (c : constraint) : constraint :=
  mkC (c_m c) (c_l c) (c_r c) (c_o c) (c_f c) (c_c c) (c_pi c) 0 0 0 0 0
      (c_has_pi c) (c_wa c) (c_wb c) (c_wc c) (c_wd c).

Definition set_sel_arith (v : Fr) (c : constraint) := mkC (c_m c) (c_l c) (c_r c) (c_o c) (c_f c) (c_c c) (c_pi c) v (c_range c) (c_logic c) (c_fixed c) (c_var c) (c_has_pi c) (c_wa c) (c_wb c) (c_wc c) (c_wd c).
Definition set_sel_range (v : Fr) (c : constraint) := mkC (c_m c) (c_l c) (c_r c) (c_o c) (c_f c) (c_c c) (c_pi c) (c_arith c) v (c_logic c) (c_fixed c) (c_var c) (c_has_pi c) (c_wa c) (c_wb c) (c_wc c) (c_wd c).
Definition set_sel_logic (v : Fr) (c : constraint) := mkC (c_m c) (c_l c) (c_r c) (c_o c) (c_f c) (c_c c) (c_pi c) (c_arith c) (c_range c) v (c_fixed c) (c_var c) (c_has_pi c) (c_wa c) (c_wb c) (c_wc c) (c_wd c).
Definition set_sel_fixed (v : Fr) (c : constraint) := mkC (c_m c) (c_l c) (c_r c) (c_o c) (c_f c) (c_c c) (c_pi c) (c_arith c) (c_range c) (c_logic c) v (c_var c) (c_has_pi c) (c_wa c) (c_wb c) (c_wc c) (c_wd c).
Definition set_sel_var (v : Fr) (c : constraint) := mkC (c_m c) (c_l c) (c_r c) (c_o c) (c_f c) (c_c c) (c_pi c) (c_arith c) (c_range c) (c_logic c) (c_fixed c) v (c_has_pi c) (c_wa c) (c_wb c) (c_wc c) (c_wd c).

Definition c_arithmetic (c : constraint) := set_sel_arith 1 (from_external c).
Definition c_rangesel (c : constraint) := set_sel_range 1 (from_external c).
Definition c_logic_and (c : constraint) := set_sel_logic 1 (set_constant 1 (from_external c)).
Definition c_logic_xor (c : constraint) := set_sel_logic fm1 (set_constant fm1 (from_external c)).
Definition c_group_fixed (c : constraint) := set_sel_fixed 1 (from_external c).
Definition c_group_var (c : constraint) := set_sel_var 1 (from_external c).

Definition gate_of (c : constraint) : gate :=
  mkGate (c_m c) (c_l c) (c_r c) (c_o c) (c_f c) (c_c c)
         (c_arith c) (c_range c) (c_logic c) (c_fixed c) (c_var c)
         (c_wa c) (c_wb c) (c_wc c) (c_wd c).

(* ---- composer state ---- *)
(* [rows]: the gates in order, each with its public input if the row has one
   (Composer.public_inputs is a map keyed by the row index; a zero-valued
   public input is still recorded).  [wits]: witness values by index. *)
Record cs : Set := mkCS {
  rows : list (gate * option Fr);
  wits : list Fr }.

Definition cs_empty : cs := mkCS [] [].

Definition gates (s : cs) : list gate := map fst (rows s).

Definition wval (s : cs) (w : nat) : Fr := nth w (wits s) 0.

Definition append_witness (v : Fr) (s : cs) : nat * cs :=
  (length (wits s), mkCS (rows s) (wits s ++ [v])).

Definition append_custom_gate (c : constraint) (s : cs) : cs :=
  mkCS (rows s ++ [(gate_of c, if c_has_pi c then Some (c_pi c) else None)]) (wits s).

Definition append_gate (c : constraint) (s : cs) : cs :=
  append_custom_gate (c_arithmetic c) s.

(* append_evaluated_output *)
Definition eval_output_value (c : constraint) (s : cs) : option Fr :=
  let a := wval s (c_wa c) in let b := wval s (c_wb c) in let d := wval s (c_wd c) in
  let x := c_m c * a * b + c_l c * a + c_r c * b + c_f c * d + c_c c + c_pi c in
  let y := c_o c in
  if feqb y 1 then Some (- x)
  else if feqb y fm1 then Some x
  else if feqb y 0 then None
  else Some (x * (- finv y)).

Definition append_evaluated_output (c : constraint) (s : cs) : option nat * cs :=
  match eval_output_value c s with
  | Some v =>
      let '(o, s1) := append_witness v s in
      (Some o, append_gate (set_c o c) s1)
  | None => (None, append_gate c s)
  end.

Definition gate_add (c : constraint) (s : cs) : nat * cs :=
  match append_evaluated_output (set_output fm1 (c_arithmetic c)) s with
  | (Some o, s') => (o, s')
  | (None, s') => (W_ZERO, s')   (* unreachable: q_O = -1 *)
  end.
Definition gate_mul := gate_add.

Definition assert_equal (a b : nat) (s : cs) : cs :=
  append_gate (set_b b (set_a a (set_right fm1 (set_left 1 c_new)))) s.

Definition assert_equal_constant (a : nat) (k : Fr) (pub : option Fr) (s : cs) : cs :=
  let c := set_constant k (set_a a (set_left fm1 c_new)) in
  append_gate (match pub with Some p => set_public p c | None => c end) s.

Definition append_constant (k : Fr) (s : cs) : nat * cs :=
  let '(w, s1) := append_witness k s in
  (w, assert_equal_constant w k None s1).

Definition append_public (p : Fr) (s : cs) : nat * cs :=
  let '(w, s1) := append_witness p s in
  (w, append_gate (set_public p (set_a w (set_left fm1 c_new))) s1).

Definition append_dummy_gates (s : cs) : cs :=
  let '(six, s) := append_witness (F 6) s in
  let '(one, s) := append_witness (F 1) s in
  let '(seven, s) := append_witness (F 7) s in
  let '(min_twenty, s) := append_witness (- F 20) s in
  let s := append_gate
    (set_c min_twenty (set_d one (set_b seven (set_a six
      (set_output (F 4) (set_constant (F 4) (set_fourth (F 1)
        (set_right (F 3) (set_left (F 2) (set_mult (F 1) c_new)))))))))) s in
  append_gate
    (set_c seven (set_b six (set_a min_twenty
      (set_output (F 1) (set_constant (F 127)
        (set_right (F 1) (set_left (F 1) (set_mult (F 1) c_new)))))))) s.

Definition initialized : cs :=
  let '(zero, s) := append_witness 0 cs_empty in
  let '(one, s) := append_witness 1 s in
  let s := assert_equal_constant zero 0 None s in
  let s := assert_equal_constant one 1 None s in
  append_dummy_gates s.

(* Composer::public_input_indexes / public_inputs: rows carrying a public
   input, in increasing row order, and their values *)
Fixpoint pis_from (i : nat) (l : list (gate * option Fr)) : list (nat * Fr) :=
  match l with
  | [] => []
  | (_, Some v) :: tl => (i, v) :: pis_from (S i) tl
  | (_, None) :: tl => pis_from (S i) tl
  end.
Definition pis (s : cs) : list (nat * Fr) := pis_from O (rows s).
Definition public_input_indexes (s : cs) : list nat := map fst (pis s).
Definition public_inputs (s : cs) : list Fr := map snd (pis s).
