(* Arithmetic rows: what a block of arithmetic gates says about an
   assignment, and the exact relation enforced by the general gate and by
   append_evaluated_output / gate_add / gate_mul. *)
From Coq Require Import ZArith List Bool Arith Lia Ring Field.
From PlonkV Require Import Base.Fr Base.FrFacts Gates.Gate Gates.CS Gates.CSFacts Composer.State.
Import ListNotations.
Local Open Scope fr_scope.

(* the row appended for an external constraint [c] *)
Definition pi_opt (c : constraint) : option Fr :=
  if c_has_pi c then Some (c_pi c) else None.
Definition arith_row (c : constraint) : gate * option Fr :=
  (gate_of (c_arithmetic c), pi_opt c).

(* q_M a b + q_L a + q_R b + q_O c + q_F d + q_C + PI = 0 *)
Definition arith_rel (asg : assignment) (c : constraint) : Prop :=
  c_m c * asg (c_wa c) * asg (c_wb c) + c_l c * asg (c_wa c) + c_r c * asg (c_wb c)
  + c_o c * asg (c_wc c) + c_f c * asg (c_wd c) + c_c c + pi_val (pi_opt c) = 0.

Lemma arith_gate_no_next c : no_next (gate_of (c_arithmetic c)).
Proof. repeat split. Qed.

Lemma arith_row_ok asg c n :
  row_ok (fst (arith_row c)) (wires_of asg (fst (arith_row c))) n (pi_val (snd (arith_row c)))
  <-> arith_rel asg c.
Proof.
  rewrite row_ok_no_next by apply arith_gate_no_next.
  unfold arith_rel, t_arith, arith_core, arith_row, wires_of. cbn.
  split; intros H; rewrite <- H; ring.
Qed.

Lemma append_gate_rows c s : rows (append_gate c s) = rows s ++ [arith_row c].
Proof. reflexivity. Qed.
Lemma append_gate_wits c s : wits (append_gate c s) = wits s.
Proof. reflexivity. Qed.

(* internal selectors of the argument never reach the gate *)
Lemma arith_row_from_external c : arith_row (from_external c) = arith_row c.
Proof. reflexivity. Qed.
Lemma arith_row_arithmetic c : arith_row (c_arithmetic c) = arith_row c.
Proof. reflexivity. Qed.

(* ---- blocks made of arithmetic rows ---- *)
Lemma block_sat_arith asg (cl : list constraint) :
  block_sat (map arith_row cl) asg <-> Forall (arith_rel asg) cl.
Proof.
  unfold block_sat, block_row_ok. rewrite map_length, Forall_forall. split.
  - intros H c Hc. apply In_nth_error in Hc. destruct Hc as [i Hi].
    assert (Hlt : (i < length cl)%nat) by (apply nth_error_Some; congruence).
    specialize (H i Hlt). rewrite nth_error_map, Hi in H. cbn [option_map] in H.
    change (gate_of (c_arithmetic c), pi_opt c) with (arith_row c) in H.
    destruct (arith_row c) as [g o] eqn:E.
    pose proof (arith_row_ok asg c (blk_wires (map arith_row cl) asg (S i))) as A.
    rewrite E in A. cbn [fst snd] in A. apply A. exact H.
  - intros H i Hi. rewrite nth_error_map.
    destruct (nth_error cl i) as [c|] eqn:E; [|exact I]. cbn [option_map].
    change (gate_of (c_arithmetic c), pi_opt c) with (arith_row c).
    destruct (arith_row c) as [g o] eqn:E'.
    pose proof (arith_row_ok asg c (blk_wires (map arith_row cl) asg (S i))) as A.
    rewrite E' in A. cbn [fst snd] in A. apply A. apply H. eapply nth_error_In; exact E.
Qed.

Lemma closed_arith_block cl : closed_block (map arith_row cl).
Proof.
  unfold closed_block. rewrite <- map_rev. destruct (rev cl); cbn; [exact I|].
  apply arith_gate_no_next.
Qed.

(* a block of arithmetic rows inside a satisfied constraint system *)
Theorem sat_arith_block pre cl post asg :
  sat (pre ++ map arith_row cl ++ post) asg -> Forall (arith_rel asg) cl.
Proof.
  intros H. apply block_sat_arith. eapply sat_block; [exact H|apply closed_arith_block].
Qed.

(* ---- witness bookkeeping ---- *)
Lemma wval_app_old ws v w : (w < length ws)%nat -> nth w (ws ++ [v]) 0 = nth w ws 0.
Proof. intros. now rewrite app_nth1. Qed.
Lemma wval_app_new ws v : nth (length ws) (ws ++ [v]) 0 = v.
Proof. rewrite app_nth2, Nat.sub_diag by lia. reflexivity. Qed.

(* ---- append_evaluated_output ---- *)
Definition ext_value (val_of : nat -> Fr) (c : constraint) : Fr :=
  c_m c * val_of (c_wa c) * val_of (c_wb c) + c_l c * val_of (c_wa c)
  + c_r c * val_of (c_wb c) + c_f c * val_of (c_wd c) + c_c c + c_pi c.

Lemma fm1_neq_1 : feqb fm1 1 = false. Proof. vm_compute. reflexivity. Qed.
Lemma fm1_eq : feqb fm1 fm1 = true. Proof. vm_compute. reflexivity. Qed.

Section WithPrime.
Context {PR : PrimeR}.
Add Field FrField : fr_field_theory.

(* the value the code solves for satisfies q_O * v = - x *)
Lemma eval_output_value_spec c s v :
  eval_output_value c s = Some v ->
  c_o c <> 0 /\ c_o c * v + ext_value (wval s) c = 0.
Proof.
  unfold eval_output_value. fold (ext_value (wval s) c).
  destruct (feqb_spec (c_o c) 1) as [E1|N1].
  { intros H; inversion H; subst. rewrite E1. split; [apply fone_neq_fzero|ring]. }
  destruct (feqb_spec (c_o c) fm1) as [E2|N2].
  { intros H; inversion H; subst. rewrite E2. split.
    - intros E. apply (f_equal val) in E. vm_compute in E. discriminate E.
    - unfold fm1. ring. }
  destruct (feqb_spec (c_o c) 0) as [E3|N3]; [discriminate|].
  intros H; inversion H; subst. split; [exact N3|]. field. exact N3.
Qed.

Lemma eval_output_value_none c s :
  eval_output_value c s = None <-> c_o c = 0.
Proof.
  unfold eval_output_value.
  destruct (feqb_spec (c_o c) 1) as [E1|N1].
  { split; [discriminate|]. intros E. rewrite E in E1. exfalso. now apply fone_neq_fzero. }
  destruct (feqb_spec (c_o c) fm1) as [E2|N2].
  { split; [discriminate|]. intros E. rewrite E in E2.
    apply (f_equal val) in E2. vm_compute in E2. discriminate E2. }
  destruct (feqb_spec (c_o c) 0) as [E3|N3]; [tauto|].
  split; [discriminate|tauto].
Qed.

(* pi of a constraint as a field value: c_pi is only meaningful with the flag;
   the public API sets both together (Constraint::public) *)
Definition pi_coherent (c : constraint) : Prop :=
  c_has_pi c = false -> c_pi c = 0.

Theorem append_evaluated_output_some c s :
  c_o c <> 0 ->
  exists v,
    let o := length (wits s) in
    append_evaluated_output c s =
      (Some o, mkCS (rows s ++ [arith_row (set_c o c)]) (wits s ++ [v]))
    /\ c_o c * v + ext_value (wval s) c = 0.
Proof.
  intros Ho. unfold append_evaluated_output.
  destruct (eval_output_value c s) as [v|] eqn:E.
  - exists v. split; [reflexivity|]. apply (eval_output_value_spec _ _ _ E).
  - apply eval_output_value_none in E. contradiction.
Qed.

Theorem append_evaluated_output_none c s :
  c_o c = 0 ->
  append_evaluated_output c s = (None, mkCS (rows s ++ [arith_row c]) (wits s)).
Proof.
  intros Ho. unfold append_evaluated_output.
  apply (eval_output_value_none c s) in Ho. rewrite Ho. reflexivity.
Qed.

(* uniqueness: with q_O invertible the row determines the output wire *)
Lemma arith_rel_output_unique asg c :
  c_o c <> 0 -> pi_coherent c ->
  arith_rel asg c ->
  c_o c * asg (c_wc c) + ext_value asg c = 0.
Proof.
  intros Ho Hpi H. unfold arith_rel in H. unfold ext_value.
  assert (Epi : pi_val (pi_opt c) = c_pi c).
  { unfold pi_opt. destruct (c_has_pi c) eqn:E; [reflexivity|]. cbn. symmetry. now apply Hpi. }
  rewrite Epi in H. rewrite <- H. ring.
Qed.

Lemma fmul_cancel_l a x y : a <> 0 -> a * x = a * y -> x = y.
Proof.
  intros Ha H. assert (E : a * (x - y) = 0) by (transitivity (a * x - a * y); [ring|rewrite H; ring]).
  apply fmul_integral in E. destruct E as [E|E]; [contradiction|].
  transitivity (x - y + y); [ring|rewrite E; ring].
Qed.

(* gate_add / gate_mul: q_O := -1, output allocated and wired to c *)
Theorem gate_add_spec c s :
  let o := length (wits s) in
  let c' := set_c o (set_output fm1 c) in
  gate_add c s = (o, mkCS (rows s ++ [arith_row c']) (wits s ++ [ext_value (wval s) c])).
Proof.
  cbv zeta. unfold gate_add, append_evaluated_output, eval_output_value.
  cbn [c_o set_output c_arithmetic set_sel_arith from_external].
  rewrite fm1_neq_1, fm1_eq. reflexivity.
Qed.

Lemma gate_add_rel asg c o :
  pi_coherent c ->
  (arith_rel asg (set_c o (set_output fm1 c)) <-> asg o = ext_value asg c).
Proof.
  intros Hpi. unfold arith_rel, ext_value. cbn.
  assert (Epi : pi_val (pi_opt (set_c o (set_output fm1 c))) = c_pi c).
  { unfold pi_opt. cbn. destruct (c_has_pi c) eqn:E; [reflexivity|]. cbn. symmetry. now apply Hpi. }
  rewrite Epi. unfold fm1. split; intros H.
  - apply (fr_from_zero' _ _ _ H). ring.
  - rewrite H. ring.
Qed.

End WithPrime.
