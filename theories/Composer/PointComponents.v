(* Model of src/composer/point.rs and src/composer/fixed_base.rs. *)
From Coq Require Import ZArith List Bool Arith Lia.
From PlonkV Require Import Base.Fr Gates.Gate Composer.State Composer.Components Curve.Jubjub.
Import ListNotations.
Local Open Scope fr_scope.

Definition wpt : Set := (nat * nat)%type.          (* WitnessPoint: (x, y) witnesses *)
Definition pval (s : cs) (p : wpt) : pt := (wval s (fst p), wval s (snd p)).
Definition W_IDENTITY : wpt := (W_ZERO, W_ONE).

Definition append_affine_point (p : pt) (s : cs) : wpt * cs :=
  let '(x, s) := append_witness (fst p) s in
  let '(y, s) := append_witness (snd p) s in
  ((x, y), s).

Definition append_constant_point_affine (p : pt) (s : cs) : wpt * cs :=
  let '(x, s) := append_constant (fst p) s in
  let '(y, s) := append_constant (snd p) s in
  ((x, y), s).

Definition assert_equal_public_point_affine (w : wpt) (p : pt) (s : cs) : cs :=
  let s := assert_equal_constant (fst w) 0 (Some (fst p)) s in
  assert_equal_constant (snd w) 0 (Some (snd p)) s.

Definition append_public_point_affine (p : pt) (s : cs) : wpt * cs :=
  let '(w, s) := append_affine_point p s in
  (w, assert_equal_public_point_affine w p s).

Definition assert_equal_point (a b : wpt) (s : cs) : cs :=
  assert_equal (snd a) (snd b) (assert_equal (fst a) (fst b) s).

(* error kinds of the entry points *)
Inductive perr := PDegenerate | PNotTorsionFree | PGeneratorNotPrimeOrder | PScalarMalformed | PUnsupportedWnaf.

Definition append_point_ext (u v z : Fr) (s : cs) : (perr + wpt) * cs :=
  if feqb z 0 then (inl PDegenerate, s)
  else let '(w, s) := append_affine_point (affine_of_ext u v z) s in (inr w, s).

Definition append_public_point_ext (u v z : Fr) (s : cs) : (perr + wpt) * cs :=
  if feqb z 0 then (inl PDegenerate, s)
  else let '(w, s) := append_public_point_affine (affine_of_ext u v z) s in (inr w, s).

Definition assert_equal_public_point_ext (w : wpt) (u v z : Fr) (s : cs) : option perr * cs :=
  if feqb z 0 then (Some PDegenerate, s)
  else (None, assert_equal_public_point_affine w (affine_of_ext u v z) s).

Definition append_constant_point_ext (u v z t1 t2 : Fr) (s : cs) : (perr + wpt) * cs :=
  match classify_ext u v z t1 t2 with
  | ExtDegenerate => (inl PDegenerate, s)
  | ExtOff => (inl PNotTorsionFree, s)
  | ExtOn p => if torsion_freeb p
               then let '(w, s) := append_constant_point_affine p s in (inr w, s)
               else (inl PNotTorsionFree, s)
  end.

(* add_point_gates *)
Definition add_point_gates (a b : wpt) (s : cs) : wpt * cs :=
  let p1 := pval s a in let p2 := pval s b in
  let sum := ed_add p1 p2 in
  let '(x1y2, s) := append_witness (fst p1 * snd p2) s in
  let '(x3, s) := append_witness (fst sum) s in
  let '(y3, s) := append_witness (snd sum) s in
  let s := append_custom_gate
             (c_group_var (set_d (snd b) (set_c (fst b) (set_b (snd a) (set_a (fst a) c_new))))) s in
  let s := append_custom_gate (set_d x1y2 (set_b y3 (set_a x3 c_new))) s in
  ((x3, y3), s).

Definition component_add_point := add_point_gates.

Definition component_neg_point (p : wpt) (s : cs) : wpt * cs :=
  let '(nx, s) := gate_mul (set_a (fst p) (set_left fm1 c_new)) s in
  ((nx, snd p), s).

Definition component_sub_point (a b : wpt) (s : cs) : wpt * cs :=
  let '(nb, s) := component_neg_point b s in
  component_add_point a nb s.

Definition select_identity_gates (bit : nat) (a : wpt) (s : cs) : wpt * cs :=
  let '(x, s) := component_select_zero bit (fst a) s in
  let '(y, s) := component_select_one bit (snd a) s in
  ((x, y), s).

Definition component_select_identity (bit : nat) (a : wpt) (s : cs) : wpt * cs :=
  select_identity_gates bit a (component_boolean bit s).

Definition component_select_point (bit : nat) (a b : wpt) (s : cs) : wpt * cs :=
  let '(x, s) := component_select bit (fst a) (fst b) s in
  let '(y, s) := component_select bit (snd a) (snd b) s in
  ((x, y), s).

(* component_mul_point: bits most significant first *)
Fixpoint mul_point_loop (bits_rev : list nat) (point result : wpt) (s : cs) : wpt * cs :=
  match bits_rev with
  | [] => (result, s)
  | bit :: tl =>
      let '(result, s) := add_point_gates result result s in
      let '(to_add, s) := select_identity_gates bit point s in
      let '(result, s) := add_point_gates result to_add s in
      mul_point_loop tl point result s
  end.

Definition component_mul_point (jubjub : nat) (point : wpt) (s : cs) : wpt * cs :=
  let '(bits, s) := component_decomposition 252 jubjub s in
  mul_point_loop (rev bits) point W_IDENTITY s.

(* assert_torsion_free_gates / assert_torsion_free_point *)
Definition assert_torsion_free_gates (point : wpt) (q : pt) (s : cs) : cs :=
  let '(qw, s) := append_affine_point q s in
  let qu := fst qw in let qv := snd qw in
  let '(u2, s) := gate_mul (set_b qu (set_a qu (set_mult 1 c_new))) s in
  let '(v2, s) := gate_mul (set_b qv (set_a qv (set_mult 1 c_new))) s in
  let '(u2v2, s) := gate_mul (set_b v2 (set_a u2 (set_mult 1 c_new))) s in
  let s := append_gate
    (set_constant fm1 (set_c u2v2 (set_output (- ed_d) (set_b v2 (set_right 1
       (set_a u2 (set_left fm1 c_new))))))) s in
  let '(q2, s) := add_point_gates qw qw s in
  let '(q4, s) := add_point_gates q2 q2 s in
  let '(q8, s) := add_point_gates q4 q4 s in
  assert_equal_point point q8 s.

Definition honest_q (p : pt) : pt := if on_curveb p then ed_mul eight_inv p else ed_id.

Definition assert_torsion_free_point (point : wpt) (s : cs) : cs :=
  assert_torsion_free_gates point (honest_q (pval s point)) s.

(* ---- fixed_base.rs ---- *)
Definition rj_minus_1 : Fr := of_Z (rj - 1).

Definition assert_canonical_jubjub_scalar (scalar : nat) (s : cs) : cs :=
  let s := range_check scalar 252 s in
  let '(dist, s) := gate_add (set_constant rj_minus_1 (set_a scalar (set_left fm1 c_new))) s in
  range_check dist 252 s.

(* [2^i] generator for i = 0..n-1 *)
Fixpoint doublings (n : nat) (g : pt) : list pt :=
  match n with O => [] | S n' => g :: doublings n' (ed_double g) end.

Definition digit_point (d : Z) (m : pt) : pt :=
  if (d =? 0)%Z then ed_id else if (d =? 1)%Z then m else ed_neg m.
Definition digit_scalar (d : Z) : Fr :=
  if (d =? 0)%Z then 0 else if (d =? 1)%Z then 1 else fm1.
Definition digit_ok (d : Z) : bool := (d =? 0)%Z || (d =? 1)%Z || (d =? -1)%Z.

(* accumulators: lists of length 257 (state before each of the 256 rounds and after the last) *)
Fixpoint fb_accs (ds : list Z) (ms : list pt) (sacc : Fr) (pacc : pt) : list (Fr * pt * Fr) :=
  (* per round: (scalar acc, point acc, xy_alpha); final state appended with xy_alpha 0 *)
  match ds, ms with
  | d :: dt, m :: mt =>
      let pa := digit_point d m in
      (sacc, pacc, fst pa * snd pa) :: fb_accs dt mt (f2 * sacc + digit_scalar d) (ed_add pacc pa)
  | _, _ => [(sacc, pacc, 0)]
  end.

Fixpoint fb_rows (i : nat) (st : list (Fr * pt * Fr)) (ms : list pt) (lead : nat) (s : cs)
  : nat * cs :=
  match st, ms with
  | (sa, pa, xya) :: tl, m :: mt =>
      let '(acc_x, s) := append_witness (fst pa) s in
      let '(acc_y, s) := append_witness (snd pa) s in
      let '(acc_b, s) := append_witness sa s in
      let lead := if (i =? 3)%nat then acc_b else lead in
      let s := if (i =? 0)%nat
               then assert_equal_constant acc_b 0 None
                      (assert_equal_constant acc_y 1 None (assert_equal_constant acc_x 0 None s))
               else s in
      let '(xy_alpha, s) := append_witness xya s in
      let s := append_custom_gate
        (set_d acc_b (set_c xy_alpha (set_b acc_y (set_a acc_x
           (set_constant (fst m * snd m) (set_right (snd m) (set_left (fst m)
              (c_group_fixed c_new)))))))) s in
      fb_rows (S i) tl mt lead s
  | _, _ => (lead, s)
  end.

Definition append_fixed_base_signed_digits (jubjub : nat) (g : pt) (digits : list Z) (s : cs)
  : (perr + wpt) * cs :=
  let s := assert_canonical_jubjub_scalar jubjub s in
  if negb (forallb digit_ok digits) then (inl PUnsupportedWnaf, s) else
  let ms := rev (doublings 256 g) in
  let st := fb_accs (rev digits) ms 0 ed_id in
  let '(lead, s) := fb_rows 0 st ms W_ZERO s in
  let '(sa, pa, _) := last st (0, ed_id, 0) in
  let '(acc_x, s) := append_witness (fst pa) s in
  let '(acc_y, s) := append_witness (snd pa) s in
  let '(last_b, s) := append_witness sa s in
  let s := append_gate (set_d last_b (set_b acc_y (set_a acc_x c_new))) s in
  let s := assert_equal_constant lead 0 None s in
  let s := assert_equal last_b jubjub s in
  (inr (acc_x, acc_y), s).

Definition component_mul_generator_ext (jubjub : nat) (u v z t1 t2 : Fr) (s : cs)
  : (perr + wpt) * cs :=
  match classify_ext u v z t1 t2 with
  | ExtOn g =>
      if prime_orderb g then
        let k := val (wval s jubjub) in
        if (k <? rj)%Z then append_fixed_base_signed_digits jubjub g (wnaf2 256 k) s
        else (inl PScalarMalformed, s)
      else (inl PGeneratorNotPrimeOrder, s)
  | _ => (inl PGeneratorNotPrimeOrder, s)
  end.
