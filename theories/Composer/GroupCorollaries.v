(* With associativity (Curve/Assoc.v) the curve components compute scalar
   multiples in the group: component_mul_point returns [s]P, the fixed-base
   component returns [s]G, and the honest auxiliary point of the torsion check
   exists for every point of the prime-order subgroup. *)
From Coq Require Import ZArith List Bool Ring Lia.
From PlonkV Require Import Base.Fr Base.FrFacts Gates.Gate Gates.CS Gates.CSFacts Gates.BlockFacts
  Composer.State Composer.Components Composer.ArithFacts Composer.BasicFacts Composer.RangeFacts
  Curve.Jubjub Curve.JubjubFacts Curve.Assoc Curve.GroupLaw
  Composer.PointComponents Composer.PointFacts Composer.FixedFacts Composer.FixedSpec.
Import ListNotations.
Local Open Scope fr_scope.

Section Corollaries.
Context {PR : PrimeR} {ND : NonSquareD}.

(* ---- variable-base multiplication ---- *)
Theorem mul_point_scalar_multiple asg jubjub point n :
  let P := (asg (fst point), asg (snd point)) in
  asg W_ZERO = 0 -> asg W_ONE = 1 -> on_curve P ->
  block_sat (mul_point_rows jubjub point n) asg ->
  let res := mul_point_result point n in
  (val (asg jubjub) < 2 ^ 252)%Z /\
  (asg (fst res), asg (snd res)) = zsmul (val (asg jubjub)) P.
Proof.
  cbv zeta. intros Hz Ho C H.
  destruct (mul_point_sound asg jubjub point n Hz Ho C H) as [B [E _]].
  split; [exact B|]. rewrite E. apply ed_mul_is_scalar_multiple; [exact C|].
  pose proof (val_range (asg jubjub)). lia.
Qed.

(* ---- fixed-base multiplication ---- *)
Lemma doublings_map n : forall g, on_curve g ->
  doublings n g = map (fun j => nsmul (2 ^ j) g) (seq 0 n).
Proof.
  induction n as [|n IH]; intros g C; [reflexivity|].
  cbn [doublings seq map]. f_equal.
  - cbn [Nat.pow]. rewrite nsmul_1 by exact C. reflexivity.
  - rewrite IH by (unfold ed_double; apply ed_add_closed; exact C). rewrite <- seq_shift, map_map.
    apply map_ext. intros j. rewrite nsmul_of_double by exact C. f_equal.
Qed.

Lemma rev_doublings_S n g : on_curve g ->
  rev (doublings (S n) g) = nsmul (2 ^ n) g :: rev (doublings n g).
Proof.
  intros C. rewrite !doublings_map by exact C. rewrite seq_S, map_app, rev_app_distr. reflexivity.
Qed.

Lemma digit_point_zsmul d j g : on_curve g -> is_digit d ->
  digit_point d (nsmul (2 ^ j) g) = zsmul (d * 2 ^ Z.of_nat j) g.
Proof.
  intros C Hd.
  assert (E : zsmul (2 ^ Z.of_nat j) g = nsmul (2 ^ j) g).
  { rewrite <- zsmul_of_nat. f_equal. rewrite Nat2Z.inj_pow. reflexivity. }
  destruct Hd as [->|[->| ->]]; unfold digit_point; cbn [Z.eqb Pos.eqb].
  - rewrite Z.mul_0_l. reflexivity.
  - rewrite Z.mul_1_l. symmetry. exact E.
  - replace (-1 * 2 ^ Z.of_nat j)%Z with (- (2 ^ Z.of_nat j))%Z by lia. rewrite zsmul_neg, E. reflexivity.
Qed.

Lemma sd_val_shift ds : forall acc, sd_val acc ds = (acc * 2 ^ Z.of_nat (length ds) + sd_val 0 ds)%Z.
Proof.
  induction ds as [|d tl IH]; intros acc; cbn [sd_val length].
  - change (Z.of_nat 0) with 0%Z. rewrite Z.pow_0_r. lia.
  - rewrite IH. rewrite (IH (2 * 0 + d)%Z). rewrite Nat2Z.inj_succ, Z.pow_succ_r by lia. lia.
Qed.

Lemma sd_point_zsmul g : on_curve g -> forall n ds A, length ds = n -> Forall is_digit ds ->
  sd_point (zsmul A g) ds (rev (doublings n g)) = zsmul (A + sd_val 0 ds) g.
Proof.
  intros C. induction n as [|n IH]; intros ds A L F.
  - destruct ds; [|discriminate]. cbn [sd_point sd_val]. f_equal. lia.
  - destruct ds as [|d tl]; [discriminate|]. inversion F as [|? ? Hd Ft]; subst.
    rewrite rev_doublings_S by exact C. cbn [sd_point].
    rewrite digit_point_zsmul, <- zsmul_add by assumption.
    rewrite IH by (try assumption; cbn [length] in L; lia).
    f_equal. cbn [sd_val]. rewrite (sd_val_shift tl (2 * 0 + d)%Z).
    cbn [length] in L. replace (length tl) with n by lia. lia.
Qed.

Theorem mulgen_scalar_multiple asg jubjub g n :
  asg W_ZERO = 0 -> on_curve g ->
  block_sat (mulgen_rows jubjub g n) asg ->
  let base := (n + 253)%nat in
  (val (asg jubjub) < rj)%Z /\
  (asg (fb_wx base 256), asg (fb_wy base 256)) = zsmul (val (asg jubjub)) g.
Proof.
  cbv zeta. intros Hz C H.
  destruct (mulgen_sound asg jubjub g n Hz C H) as [B [ds [L [F [_ [V E]]]]]].
  split; [exact B|]. rewrite E. change ed_id with (zsmul 0 g).
  rewrite (sd_point_zsmul g C 256 ds 0 L F). f_equal. rewrite V. lia.
Qed.

(* ---- torsion check ---- *)
Lemma double3_zsmul k p : on_curve p ->
  ed_double (ed_double (ed_double (zsmul k p))) = zsmul (8 * k) p.
Proof.
  intros C. unfold ed_double. rewrite <- !zsmul_add by exact C. f_equal. lia.
Qed.

Theorem torsion_sound_multiple asg point n :
  block_sat (torsion_rows point n) asg ->
  let Q := (asg n, asg (S n)) in
  on_curve Q /\ (asg (fst point), asg (snd point)) = zsmul 8 Q.
Proof.
  cbv zeta. intros H. destruct (torsion_sound asg point n H) as [CQ E]. split; [exact CQ|].
  rewrite E. rewrite <- (zsmul_1 (asg n, asg (S n))) at 1 by exact CQ. rewrite double3_zsmul by exact CQ. reflexivity.
Qed.

(* every point of the prime-order subgroup has the auxiliary point the gadget
   computes: Q = [8^-1 mod rj] P is on the curve and [8] Q = P *)
Theorem honest_q_works p : on_curve p -> zsmul rj p = ed_id ->
  on_curve (honest_q p) /\ ed_double (ed_double (ed_double (honest_q p))) = p.
Proof.
  intros C T. unfold honest_q. destruct (on_curveb p) eqn:B; [|apply on_curveb_spec in C; congruence].
  assert (Hr : (0 <= eight_inv < 2 ^ 252)%Z) by (vm_compute; split; [discriminate|reflexivity]).
  rewrite (ed_mul_is_scalar_multiple eight_inv p C Hr). split; [apply zsmul_on; exact C|].
  rewrite double3_zsmul by exact C.
  replace (8 * eight_inv)%Z with (1 + rj)%Z by (vm_compute; reflexivity).
  rewrite zsmul_add, T, zsmul_1, ed_add_id_r by assumption. reflexivity.
Qed.

(* conditional on the group order of the curve (8 * rj; not mechanised: it needs
   point counting), the constrained point lies in the prime-order subgroup *)
Theorem torsion_sound_subgroup_assuming_order asg point n :
  (forall q, on_curve q -> zsmul (8 * rj) q = ed_id) ->
  block_sat (torsion_rows point n) asg ->
  zsmul rj (asg (fst point), asg (snd point)) = ed_id.
Proof.
  intros Ord H. destruct (torsion_sound_multiple asg point n H) as [CQ E]. rewrite E.
  assert (R : forall k : nat, forall q, on_curve q -> zsmul (Z.of_nat k) (zsmul 8 q) = zsmul (8 * Z.of_nat k) q).
  { intros k q Cq. induction k as [|k IH]; [reflexivity|].
    rewrite Nat2Z.inj_succ. replace (Z.succ (Z.of_nat k)) with (1 + Z.of_nat k)%Z by lia.
    rewrite zsmul_add, IH, zsmul_1 by (apply zsmul_on; exact Cq).
    rewrite <- zsmul_add by exact Cq. f_equal. lia. }
  assert (Pj : (0 <= rj)%Z) by (vm_compute; discriminate).
  rewrite <- (Z2Nat.id rj Pj), R by exact CQ. rewrite Z2Nat.id by exact Pj. apply Ord. exact CQ.
Qed.
End Corollaries.
Print Assumptions mul_point_scalar_multiple.
Print Assumptions mulgen_scalar_multiple.
Print Assumptions honest_q_works.
