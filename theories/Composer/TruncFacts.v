(* C11 (first half) and the binding used by C10: canonical truncation. *)
From Coq Require Import ZArith List Bool Arith Lia Ring Field.
From PlonkV Require Import Base.Fr Base.FrFacts Gates.Gate Gates.GateFacts Gates.CS Gates.CSFacts
  Gates.BlockFacts Composer.State Composer.Components Composer.ArithFacts Composer.BasicFacts
  Composer.RangeFacts.
Import ListNotations.
Local Open Scope nat_scope.

(* witnesses allocated by range_check *)
Definition range_nw (nb : nat) : nat :=
  if Nat.even nb then range_count nb else range_count (nb - 1) + 3.

Lemma range_check_len w nb s :
  length (wits (range_check w nb s)) = length (wits s) + range_nw nb.
Proof.
  unfold range_check, range_nw. destruct (Nat.even nb).
  - apply range_check_even_len.
  - unfold append_witness. cbn [fst snd].
    unfold component_boolean, assert_equal, append_gate, append_custom_gate. cbn [rows wits].
    rewrite gate_add_spec. cbn [fst snd rows wits].
    rewrite !app_length. cbn [length]. rewrite range_check_even_len. cbn [wits].
    rewrite app_length. cbn [length]. lia.
Qed.

Definition r_high (N : nat) : Fr := recompose r_minus_1 N 256.
Definition r_low (N : nat) : Fr := recompose r_minus_1 0 N.

(* rows of one gate_add with output wire o *)
Definition gadd_row (o : nat) (c : constraint) : gate * option Fr :=
  arith_row (set_c o (set_output fm1 c)).

Definition c_diff (high : nat) (N : nat) : constraint :=
  set_constant (r_high N) (set_a high (set_left fm1 c_new)).
Definition c_one_minus (p : nat) : constraint :=
  set_constant fone (set_a p (set_left fm1 c_new)).
Definition c_rlml (low N : nat) : constraint :=
  set_constant (r_low N) (set_a low (set_left fm1 c_new)).

(* assert_canonical_truncation, base = witnesses allocated before the call *)
Definition canon_blk (high low N base : nat) : list (gate * option Fr) :=
  let hb := 255 - N in
  let diff := base in
  let b4 := S base + range_nw hb in      (* inverse *)
  let product := S b4 in
  let is_top := S (S b4) in
  let rlml := S (S (S b4)) in
  let guard := S (S (S (S b4))) in
  [gadd_row diff (c_diff high N)] ++
  range_blk diff hb (S base) ++
  [ gadd_row product (c_mul diff b4);
    gadd_row is_top (c_one_minus product);
    arith_row (c_mul diff is_top);
    gadd_row rlml (c_rlml low N);
    gadd_row guard (c_mul is_top rlml) ] ++
  range_blk guard N (S guard).

Definition canon_nw (N : nat) : nat := 1 + range_nw (255 - N) + 5 + range_nw N.

Lemma canon_rows high low N s :
  rows (assert_canonical_truncation high low N s) =
    rows s ++ canon_blk high low N (length (wits s))
  /\ length (wits (assert_canonical_truncation high low N s)) = length (wits s) + canon_nw N.
Proof.
  unfold assert_canonical_truncation, canon_blk, canon_nw.
  rewrite gate_add_spec. cbn [fst snd].
  set (s1 := mkCS _ _).
  assert (L1 : length (wits s1) = S (length (wits s))) by (unfold s1; cbn [wits]; rewrite app_length; cbn; lia).
  set (s2 := range_check (length (wits s)) (255 - N) s1).
  assert (L2 : length (wits s2) = S (length (wits s)) + range_nw (255 - N))
    by (unfold s2; rewrite range_check_len, L1; reflexivity).
  assert (R2 : rows s2 = rows s1 ++ range_blk (length (wits s)) (255 - N) (S (length (wits s))))
    by (unfold s2; rewrite range_check_rows, L1; reflexivity).
  unfold append_witness. cbn [fst snd].
  unfold gate_mul. rewrite gate_add_spec. cbn [fst snd rows wits]. rewrite !app_length. cbn [length].
  rewrite gate_add_spec. cbn [fst snd rows wits]. rewrite !app_length. cbn [length].
  unfold append_gate, append_custom_gate. cbn [rows wits].
  rewrite gate_add_spec. cbn [fst snd rows wits]. rewrite !app_length. cbn [length].
  rewrite gate_add_spec. cbn [fst snd rows wits]. rewrite !app_length. cbn [length].
  rewrite range_check_rows, range_check_len. cbn [rows wits]. rewrite !app_length. cbn [length].
  rewrite L2, R2. unfold s1. cbn [rows].
  rewrite !Nat.add_1_r.
  split; [|lia].
  rewrite <- !app_assoc. cbn [app]. unfold gadd_row, c_diff, c_mul, c_one_minus, c_rlml, r_high, r_low.
  reflexivity.
Qed.

(* bind_truncation_split *)
Definition c_recomp (high low N : nat) : constraint :=
  set_b low (set_a high (set_right fone (set_left (pow2 N) c_new))).

Definition split_blk (input low N base : nat) : list (gate * option Fr) :=
  let hb := 255 - N in
  let high := base in
  let b2 := S base + range_nw hb in    (* recomposed *)
  range_blk high hb (S base) ++
  [ gadd_row b2 (c_recomp high low N); arith_row (c_assert_equal b2 input) ] ++
  canon_blk high low N (S b2).

Definition split_nw (N : nat) : nat := 1 + range_nw (255 - N) + 1 + canon_nw N.

Lemma split_rows input low N s :
  rows (bind_truncation_split input low N s) =
    rows s ++ split_blk input low N (length (wits s))
  /\ length (wits (bind_truncation_split input low N s)) = length (wits s) + split_nw N.
Proof.
  unfold bind_truncation_split, split_blk, split_nw.
  unfold append_witness. cbn [fst snd].
  set (s1 := mkCS _ _).
  assert (L1 : length (wits s1) = S (length (wits s))) by (unfold s1; cbn [wits]; rewrite app_length; cbn; lia).
  set (s2 := range_check (length (wits s)) (255 - N) s1).
  assert (L2 : length (wits s2) = S (length (wits s)) + range_nw (255 - N))
    by (unfold s2; rewrite range_check_len, L1; reflexivity).
  assert (R2 : rows s2 = rows s ++ range_blk (length (wits s)) (255 - N) (S (length (wits s))))
    by (unfold s2; rewrite range_check_rows, L1; reflexivity).
  rewrite gate_add_spec. cbn [fst snd].
  unfold assert_equal, append_gate, append_custom_gate. cbn [rows wits].
  match goal with |- context [assert_canonical_truncation ?h ?l ?n ?st] =>
    destruct (canon_rows h l n st) as [RC LC]; rewrite RC, LC end.
  cbn [rows wits]. rewrite !app_length. cbn [length]. rewrite L2, R2.
  rewrite !Nat.add_1_r.
  split; [|lia].
  rewrite <- !app_assoc. cbn [app]. unfold gadd_row, c_recomp. reflexivity.
Qed.

(* component_truncate *)
Definition truncate_blk (w N base : nat) : list (gate * option Fr) :=
  range_blk base N (S base) ++ split_blk w base N (S base + range_nw N).

Lemma truncate_rows N w s :
  rows (snd (component_truncate N w s)) = rows s ++ truncate_blk w N (length (wits s))
  /\ fst (component_truncate N w s) = length (wits s).
Proof.
  unfold component_truncate, truncate_blk. unfold append_witness. cbn [fst snd].
  set (s1 := mkCS _ _).
  assert (L1 : length (wits s1) = S (length (wits s))) by (unfold s1; cbn [wits]; rewrite app_length; cbn; lia).
  destruct (split_rows w (length (wits s)) N (range_check (length (wits s)) N s1)) as [RS _].
  split; [|reflexivity]. rewrite RS, range_check_rows, range_check_len, L1.
  unfold s1. cbn [rows]. rewrite <- app_assoc. reflexivity.
Qed.

Lemma range_blk_nonempty w nb base : range_blk w nb base <> [].
Proof.
  unfold range_blk. destruct (Nat.even nb).
  - unfold range_even_blk. destruct nb; [discriminate|]. destruct (range_rows _ _); discriminate.
  - destruct (range_even_blk _ _ _); discriminate.
Qed.

Lemma canon_blk_closed high low N base : closed_block (canon_blk high low N base).
Proof.
  unfold canon_blk. rewrite !app_assoc.
  apply closed_block_app; [apply range_blk_nonempty|apply range_blk_closed].
Qed.

Lemma canon_blk_nonempty high low N base : canon_blk high low N base <> [].
Proof. unfold canon_blk. cbn [app]. discriminate. Qed.

Lemma split_blk_closed input low N base : closed_block (split_blk input low N base).
Proof.
  unfold split_blk. rewrite !app_assoc.
  apply closed_block_app; [apply canon_blk_nonempty|apply canon_blk_closed].
Qed.

(* ---------------- arithmetic facts about r - 1 = r_high * 2^N + r_low ---------------- *)
Local Open Scope Z_scope.

Definition rhZ (N : nat) : Z := (r - 1) / 2 ^ Z.of_nat N.
Definition rlZ (N : nat) : Z := (r - 1) mod 2 ^ Z.of_nat N.

Lemma rh_rl N : rhZ N * 2 ^ Z.of_nat N + rlZ N = r - 1.
Proof.
  unfold rhZ, rlZ. pose proof (Z.div_mod (r - 1) (2 ^ Z.of_nat N)) as H.
  assert (0 < 2 ^ Z.of_nat N) by (apply Z.pow_pos_nonneg; lia). lia.
Qed.

Lemma rlZ_range N : 0 <= rlZ N < 2 ^ Z.of_nat N.
Proof. unfold rlZ. apply Z.mod_pos_bound. apply Z.pow_pos_nonneg; lia. Qed.

Lemma rhZ_range N : (N <= 255)%nat -> 0 <= rhZ N < 2 ^ Z.of_nat (255 - N).
Proof.
  intros HN. unfold rhZ. assert (P : 0 < 2 ^ Z.of_nat N) by (apply Z.pow_pos_nonneg; lia).
  pose proof r_pos. pose proof r_bound_hi as Hhi.
  split; [apply Z.div_pos; lia|].
  apply Z.div_lt_upper_bound; [exact P|].
  rewrite <- Z.pow_add_r by lia. replace (Z.of_nat N + Z.of_nat (255 - N)) with 255 by lia. lia.
Qed.

Lemma val_r_high N : (N <= 255)%nat -> val (r_high N) = rhZ N.
Proof.
  intros HN. unfold r_high, recompose, r_minus_1. fold (rhZ N).
  pose proof (rhZ_range N HN) as R.
  assert (B : 2 ^ Z.of_nat (255 - N) <= 2 ^ Z.of_nat (256 - N)) by (apply Z.pow_le_mono_r; lia).
  rewrite Z.mod_small by lia.
  apply val_of_Z_small. pose proof r_bound_hi. pose proof r_pos.
  split; [lia|]. unfold rhZ in *.
  assert (0 < 2 ^ Z.of_nat N) by (apply Z.pow_pos_nonneg; lia).
  eapply Z.le_lt_trans; [apply Z.div_le_upper_bound with (q := r - 1); nia|lia].
Qed.

Lemma val_r_low N : (N <= 254)%nat -> val (r_low N) = rlZ N.
Proof.
  intros HN. unfold r_low, recompose, r_minus_1. cbn [Z.of_nat]. rewrite Z.pow_0_r, Z.div_1_r.
  replace (N - 0)%nat with N by lia. fold (rlZ N).
  apply val_of_Z_small. pose proof (rlZ_range N). pose proof r_bound_lo.
  assert (2 ^ Z.of_nat N <= 2 ^ 254) by (apply Z.pow_le_mono_r; lia). lia.
Qed.

(* numeric facts for the two extreme widths *)
Lemma r_num_1 : 2 ^ 255 <= r + (r - 1) / 2.
Proof. apply Z.leb_le. vm_compute. reflexivity. Qed.
Lemma r_num_254 : 2 ^ 255 <= r + (r - 1) mod 2 ^ 254.
Proof. apply Z.leb_le. vm_compute. reflexivity. Qed.

(* a field equation between small integers is an integer equation *)
Lemma F_inj_range a b : F a = F b -> - r < a - b < r -> a = b.
Proof.
  intros H Hr. apply (f_equal val) in H. unfold F in H. cbn [val of_Z] in H.
  pose proof r_pos. assert (E : (a - b) mod r = 0).
  { rewrite Zminus_mod, H, Z.sub_diag. apply Z.mod_0_l. lia. }
  apply Z.mod_divide in E; [|lia]. destruct E as [k E].
  assert (k = 0) by nia. nia.
Qed.

Local Open Scope nat_scope.

Section WithPrime.
Context {PR : PrimeR}.
Local Open Scope fr_scope.

Lemma gadd_rel asg o c :
  pi_coherent c ->
  block_sat [gadd_row o c] asg -> asg o = ext_value asg c.
Proof.
  intros Hpi H. apply (block_sat_arith asg [set_c o (set_output fm1 c)]) in H.
  rewrite Forall_cons_iff in H. destruct H as [H _]. now apply gate_add_rel in H.
Qed.

Lemma c_mul_rel asg a b : arith_rel asg (c_mul a b) -> asg a * asg b = 0.
Proof.
  unfold arith_rel, c_mul.
  cbn [c_m c_l c_r c_o c_f c_c c_wa c_wb c_wc c_wd pi_opt c_has_pi c_pi set_b set_a set_mult c_new pi_val].
  intros H. etransitivity; [|exact H]. ring.
Qed.

(* the guard: given range-checked high and low, the rows force
   high * 2^N + low < r *)
Theorem canon_sound asg high low N base :
  (1 <= N <= 254)%nat -> asg W_ZERO = 0 ->
  (val (asg high) < 2 ^ Z.of_nat (255 - N))%Z ->
  (val (asg low) < 2 ^ Z.of_nat N)%Z ->
  block_sat (canon_blk high low N base) asg ->
  (val (asg high) * 2 ^ Z.of_nat N + val (asg low) < r)%Z.
Proof.
  intros HN Hz HH HL Hsat. unfold canon_blk in Hsat.
  set (hb := (255 - N)%nat) in *.
  set (b4 := (S base + range_nw hb)%nat) in *.
  (* split the block *)
  apply block_sat_app in Hsat; [|apply (closed_arith_block [_])].
  destruct Hsat as [Hdiff Hsat].
  apply block_sat_app in Hsat; [|apply range_blk_closed].
  destruct Hsat as [Hrd Hsat].
  apply block_sat_app in Hsat; [|apply (closed_arith_block [_; _; _; _; _])].
  destruct Hsat as [Hmid Hrg].
  apply gadd_rel in Hdiff; [|intros _; reflexivity].
  apply (range_sound base hb (S base) asg ltac:(lia) Hz) in Hrd.
  apply (range_sound _ N _ asg ltac:(lia) Hz) in Hrg.
  apply (block_sat_arith asg [_; _; _; _; _]) in Hmid.
  rewrite !Forall_cons_iff in Hmid. destruct Hmid as (Hprod & Htop & Hzero & Hrl & Hguard & _).
  apply gate_add_rel in Hprod; [|intros _; reflexivity].
  apply gate_add_rel in Htop; [|intros _; reflexivity].
  apply gate_add_rel in Hrl; [|intros _; reflexivity].
  apply gate_add_rel in Hguard; [|intros _; reflexivity].
  unfold ext_value, c_diff, c_mul, c_one_minus, c_rlml in *.
  cbn [c_m c_l c_r c_f c_c c_pi c_wa c_wb c_wd set_b set_a set_constant set_left set_mult c_new] in *.
  apply c_mul_rel in Hzero.
  set (vdiff := asg base) in *. set (vinv := asg b4) in *.
  set (vprod := asg (S b4)) in *. set (vtop := asg (S (S b4))) in *.
  set (vrl := asg (S (S (S b4)))) in *. set (vg := asg (S (S (S (S b4))))) in *.
  set (H := val (asg high)) in *. set (L := val (asg low)) in *.
  pose proof (val_range (asg high)) as RH. pose proof (val_range (asg low)) as RL.
  pose proof (val_range vdiff) as RD. pose proof (val_range vg) as RG.
  fold H in RH. fold L in RL.
  pose proof (rhZ_range N ltac:(lia)) as Rrh. fold hb in Rrh. pose proof (rlZ_range N) as Rrl.
  pose proof (rh_rl N) as Hsum. pose proof r_bound_lo as Rlo. pose proof r_bound_hi as Rhi.
  assert (P255 : (2 ^ Z.of_nat hb * 2 ^ Z.of_nat N = 2 ^ 255)%Z).
  { rewrite <- Z.pow_add_r by lia. f_equal. unfold hb. lia. }
  assert (PN : (0 < 2 ^ Z.of_nat N)%Z) by (apply Z.pow_pos_nonneg; lia).
  assert (Phb : (0 < 2 ^ Z.of_nat hb)%Z) by (apply Z.pow_pos_nonneg; lia).
  assert (EH : asg high = F H) by (symmetry; apply F_val).
  assert (EL : asg low = F L) by (symmetry; apply F_val).
  (* diff = r_high - high over the integers *)
  assert (ED : vdiff = F (rhZ N - H)).
  { rewrite Hdiff, EH. rewrite <- (F_val (r_high N)), val_r_high by lia.
    unfold fm1, F. rewrite of_Z_sub. ring. }
  assert (EDz : (val vdiff = rhZ N - H)%Z).
  { apply F_inj_range; [rewrite F_val; exact ED|].
    destruct (Nat.eq_dec N 1) as [E1|N1].
    - subst N. unfold hb in *. cbn [Nat.sub] in *. pose proof r_num_1.
      unfold rhZ in *. change (2 ^ Z.of_nat 1)%Z with 2%Z in *.
      change (Z.of_nat 254) with 254%Z in *. lia.
    - assert (2 ^ Z.of_nat hb <= 2 ^ 253)%Z by (apply Z.pow_le_mono_r; unfold hb; lia). lia. }
  (* is_top = [diff = 0] *)
  assert (Etop : (vdiff = 0 /\ vtop = 1) \/ (vdiff <> 0 /\ vtop = 0)).
  { destruct (fr_eq_dec vdiff 0) as [E0|NE0].
    - left. split; [exact E0|]. rewrite Htop, Hprod, E0. unfold fm1. ring.
    - right. split; [exact NE0|].
      assert (Z0 : vdiff * vtop = 0) by exact Hzero.
      apply fmul_integral in Z0. destruct Z0; [contradiction|assumption]. }
  destruct Etop as [[E0 E1]|[NE0 E1]].
  - (* high = r_high: the guard bounds low by r_low *)
    assert (HH' : H = rhZ N).
    { rewrite E0 in EDz. change (val 0) with 0%Z in EDz. lia. }
    assert (EG : vg = F (rlZ N - L)).
    { rewrite Hguard, Hrl, E1, EL. rewrite <- (F_val (r_low N)), val_r_low by lia.
      unfold fm1, F. rewrite of_Z_sub. ring. }
    assert (EGz : (val vg = rlZ N - L)%Z).
    { apply F_inj_range; [rewrite F_val; exact EG|].
      destruct (Nat.eq_dec N 254) as [E254|N254].
      - subst N. pose proof r_num_254. unfold rlZ in *.
        change (Z.of_nat 254) with 254%Z in *. lia.
      - assert (2 ^ Z.of_nat N <= 2 ^ 253)%Z by (apply Z.pow_le_mono_r; lia). lia. }
    rewrite HH'. lia.
  - (* high < r_high *)
    assert (H < rhZ N)%Z.
    { assert (val vdiff <> 0)%Z.
      { intros E. apply NE0. apply fr_eq. rewrite E. reflexivity. }
      lia. }
    nia.
Qed.


(* the truncation split binds an already bounded [low] to the low N bits of [input] *)
Theorem split_sound asg input low N base :
  (1 <= N <= 254)%nat -> asg W_ZERO = 0 ->
  (val (asg low) < 2 ^ Z.of_nat N)%Z ->
  block_sat (split_blk input low N base) asg ->
  val (asg low) = (val (asg input) mod 2 ^ Z.of_nat N)%Z.
Proof.
  intros HN Hz HL Hsat. unfold split_blk in Hsat.
  set (hb := (255 - N)%nat) in *.
  apply block_sat_app in Hsat; [|apply range_blk_closed]. destruct Hsat as [Hrh Hsat].
  apply block_sat_app in Hsat; [|apply (closed_arith_block [_; _])]. destruct Hsat as [Hmid Hcan].
  apply (range_sound base hb (S base) asg ltac:(unfold hb; lia) Hz) in Hrh.
  apply (block_sat_arith asg [_; _]) in Hmid. rewrite !Forall_cons_iff in Hmid.
  destruct Hmid as (Hrec & Heq & _).
  apply gate_add_rel in Hrec; [|intros _; reflexivity]. apply assert_equal_iff in Heq.
  pose proof (canon_sound asg base low N _ HN Hz Hrh HL Hcan) as Hlt.
  unfold ext_value, c_recomp in Hrec.
  cbn [c_m c_l c_r c_f c_c c_pi c_wa c_wb c_wd set_b set_a set_right set_left c_new] in Hrec.
  set (H := val (asg base)) in *. set (L := val (asg low)) in *.
  pose proof (val_range (asg base)) as RH. pose proof (val_range (asg low)) as RL. fold H in RH. fold L in RL.
  assert (PN : (0 < 2 ^ Z.of_nat N)%Z) by (apply Z.pow_pos_nonneg; lia).
  assert (E : asg input = F (H * 2 ^ Z.of_nat N + L)).
  { rewrite <- Heq, Hrec. rewrite F_add, F_mul. unfold H, L. rewrite !F_val. unfold pow2, F. ring. }
  rewrite E, val_F_small by nia.
  rewrite Z.add_comm, Z.mod_add by lia. symmetry. apply Z.mod_small. lia.
Qed.

(* C11: component_truncate returns exactly the canonical value mod 2^N *)
Theorem truncate_sound asg w N base :
  (N <= 254)%nat -> asg W_ZERO = 0 ->
  block_sat (truncate_blk w N base) asg ->
  val (asg base) = (val (asg w) mod 2 ^ Z.of_nat N)%Z.
Proof.
  intros HN Hz Hsat. unfold truncate_blk in Hsat.
  apply block_sat_app in Hsat; [|apply range_blk_closed]. destruct Hsat as [Hlow Hsplit].
  apply (range_sound base N (S base) asg HN Hz) in Hlow.
  destruct N as [|N'].
  - cbn [Z.of_nat] in *. rewrite Z.pow_0_r in *. rewrite Z.mod_1_r.
    pose proof (val_range (asg base)). lia.
  - eapply split_sound; [lia|exact Hz|exact Hlow|exact Hsplit].
Qed.

End WithPrime.
