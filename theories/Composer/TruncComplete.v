(* C11 / C10, completeness: the witnesses the gadgets compute for a canonical
   input satisfy the canonical-truncation, split and truncate blocks. *)
From Coq Require Import ZArith List Bool Arith Lia Ring Field.
From PlonkV Require Import Base.Fr Base.FrFacts Gates.Gate Gates.GateFacts Gates.CS Gates.CSFacts
  Gates.BlockFacts Composer.State Composer.Components Composer.ArithFacts Composer.BasicFacts
  Composer.RangeFacts Composer.RangeComplete Composer.TruncFacts.
Import ListNotations.
Local Open Scope fr_scope.

Section TruncComplete.
Context {PR : PrimeR}.
Add Field FrFieldTC : fr_field_theory.

Lemma gadd_row_sat asg o c :
  pi_coherent c -> asg o = ext_value asg c -> block_sat [gadd_row o c] asg.
Proof.
  intros Hpi H. apply (block_sat_arith asg [set_c o (set_output fm1 c)]).
  constructor; [|constructor]. apply gate_add_rel; assumption.
Qed.

Lemma F_small_nonzero z : (0 < z < r)%Z -> F z <> 0.
Proof.
  intros H E. assert (Hv : val (F z) = 0%Z) by (rewrite E; reflexivity).
  rewrite val_F_small in Hv by lia. lia.
Qed.

Lemma r_high_F N : (N <= 255)%nat -> r_high N = F (rhZ N).
Proof. intros H. rewrite <- (F_val (r_high N)), val_r_high by exact H. reflexivity. Qed.
Lemma r_low_F N : (N <= 254)%nat -> r_low N = F (rlZ N).
Proof. intros H. rewrite <- (F_val (r_low N)), val_r_low by exact H. reflexivity. Qed.

Lemma F_sub a b : F (a - b) = F a - F b. Proof. apply of_Z_sub. Qed.

Theorem canon_complete asg high low N base H L :
  (1 <= N <= 254)%nat -> asg W_ZERO = 0 ->
  asg high = F H -> asg low = F L ->
  (0 <= H)%Z -> (0 <= L < 2 ^ Z.of_nat N)%Z -> (H * 2 ^ Z.of_nat N + L < r)%Z ->
  let hb := (255 - N)%nat in
  let b4 := (S base + range_nw hb)%nat in
  let dv := (rhZ N - H)%Z in
  let gv := (if (dv =? 0)%Z then rlZ N - L else 0)%Z in
  asg base = F dv -> range_honest asg hb (S base) dv ->
  asg b4 = (if (dv =? 0)%Z then 0 else finv (F dv)) ->
  asg (S b4) = (if (dv =? 0)%Z then 0 else 1) ->
  asg (S (S b4)) = (if (dv =? 0)%Z then 1 else 0) ->
  asg (S (S (S b4))) = F (rlZ N - L) ->
  asg (S (S (S (S b4)))) = F gv -> range_honest asg N (S (S (S (S (S b4))))) gv ->
  block_sat (canon_blk high low N base) asg.
Proof.
  intros HN Hz Hh Hl H0 HL Hlt hb b4 dv gv Ed Rd Eb4 Ep Et Er Eg Rg.
  assert (PN : (0 < 2 ^ Z.of_nat N)%Z) by (apply Z.pow_pos_nonneg; lia).
  pose proof (rh_rl N) as Hr. pose proof (rlZ_range N) as Rl. pose proof (rhZ_range N ltac:(lia)) as Rh.
  fold hb in Rh.
  assert (HleH : (H <= rhZ N)%Z) by nia.
  assert (Rdv : (0 <= dv < 2 ^ Z.of_nat hb)%Z) by (unfold dv; lia).
  assert (Rgv : (0 <= gv < 2 ^ Z.of_nat N)%Z).
  { unfold gv. destruct (Z.eqb_spec dv 0) as [E|E]; [|lia]. unfold dv in E. assert (H = rhZ N) by lia. subst H. nia. }
  pose proof r_bound_lo as Rlo.
  assert (Hb255 : (2 ^ Z.of_nat hb <= 2 ^ 254)%Z) by (apply Z.pow_le_mono_r; unfold hb; lia).
  unfold canon_blk. fold hb. fold b4.
  apply block_sat_app; [apply (closed_arith_block [_])|]. split.
  { apply gadd_row_sat; [intros _; reflexivity|]. unfold ext_value, c_diff.
    cbn [c_m c_l c_r c_f c_c c_pi c_wa c_wb c_wd set_constant set_a set_left c_new].
    rewrite Ed, Hh, r_high_F by lia. unfold dv. rewrite F_sub. unfold fm1. ring. }
  apply block_sat_app; [apply range_blk_closed|]. split.
  { apply (range_complete_h base hb (S base) asg dv Rdv Hz Ed Rd). }
  apply block_sat_app; [apply (closed_arith_block [_; _; _; _; _])|]. split.
  { apply (block_sat_arith asg [_; _; _; _; _]).
    repeat (constructor; [|]); [| | | | |constructor].
    - apply gate_add_rel; [intros _; reflexivity|]. unfold ext_value, c_mul.
      cbn [c_m c_l c_r c_f c_c c_pi c_wa c_wb c_wd set_b set_a set_mult c_new].
      rewrite Ep, Ed, Eb4. destruct (Z.eqb_spec dv 0) as [E|E].
      + rewrite E. change (F 0) with fzero. ring.
      + assert (NZ : F dv <> 0) by (apply F_small_nonzero; lia).
        transitivity (F dv * finv (F dv)); [rewrite finv_spec by exact NZ; reflexivity|ring].
    - apply gate_add_rel; [intros _; reflexivity|]. unfold ext_value, c_one_minus.
      cbn [c_m c_l c_r c_f c_c c_pi c_wa c_wb c_wd set_constant set_a set_left c_new].
      rewrite Et, Ep. destruct (dv =? 0)%Z; unfold fm1; ring.
    - unfold arith_rel, c_mul.
      cbn [c_m c_l c_r c_o c_f c_c c_wa c_wb c_wc c_wd pi_opt c_has_pi c_pi set_b set_a set_mult c_new pi_val].
      rewrite Ed, Et. destruct (Z.eqb_spec dv 0) as [E|E]; [rewrite E; change (F 0) with fzero; ring|ring].
    - apply gate_add_rel; [intros _; reflexivity|]. unfold ext_value, c_rlml.
      cbn [c_m c_l c_r c_f c_c c_pi c_wa c_wb c_wd set_constant set_a set_left c_new].
      rewrite Er, Hl, r_low_F by lia. rewrite F_sub. unfold fm1. ring.
    - apply gate_add_rel; [intros _; reflexivity|]. unfold ext_value, c_mul.
      cbn [c_m c_l c_r c_f c_c c_pi c_wa c_wb c_wd set_b set_a set_mult c_new].
      rewrite Eg, Et, Er. unfold gv. destruct (dv =? 0)%Z; [ring|change (F 0) with fzero; ring]. }
  apply (range_complete_h _ N _ asg gv Rgv Hz Eg Rg).
Qed.

(* bind_truncation_split for a canonical input v: high = v / 2^N, low = v mod 2^N *)
Theorem split_complete asg input low N base v :
  (1 <= N <= 254)%nat -> asg W_ZERO = 0 -> (0 <= v < r)%Z ->
  asg input = F v -> asg low = F (v mod 2 ^ Z.of_nat N) ->
  let hb := (255 - N)%nat in
  let Hv := (v / 2 ^ Z.of_nat N)%Z in let Lv := (v mod 2 ^ Z.of_nat N)%Z in
  let b2 := (S base + range_nw hb)%nat in
  let cb := S b2 in
  let b4 := (S cb + range_nw hb)%nat in
  let dv := (rhZ N - Hv)%Z in
  let gv := (if (dv =? 0)%Z then rlZ N - Lv else 0)%Z in
  asg base = F Hv -> range_honest asg hb (S base) Hv ->
  asg b2 = F v ->
  asg cb = F dv -> range_honest asg hb (S cb) dv ->
  asg b4 = (if (dv =? 0)%Z then 0 else finv (F dv)) ->
  asg (S b4) = (if (dv =? 0)%Z then 0 else 1) ->
  asg (S (S b4)) = (if (dv =? 0)%Z then 1 else 0) ->
  asg (S (S (S b4))) = F (rlZ N - Lv) ->
  asg (S (S (S (S b4)))) = F gv -> range_honest asg N (S (S (S (S (S b4))))) gv ->
  block_sat (split_blk input low N base) asg.
Proof.
  intros HN Hz Rv Ein El hb Hv Lv b2 cb b4 dv gv Eh Rh Eb2 Ed Rd Eb4 Ep Et Er Eg Rg.
  assert (PN : (0 < 2 ^ Z.of_nat N)%Z) by (apply Z.pow_pos_nonneg; lia).
  assert (Esplit : (v = Hv * 2 ^ Z.of_nat N + Lv)%Z) by (unfold Hv, Lv; rewrite Z.mul_comm; apply Z.div_mod; lia).
  assert (RL : (0 <= Lv < 2 ^ Z.of_nat N)%Z) by (apply Z.mod_pos_bound; lia).
  assert (RH0 : (0 <= Hv)%Z) by (apply Z.div_pos; lia).
  assert (RH : (Hv < 2 ^ Z.of_nat hb)%Z).
  { apply Z.div_lt_upper_bound; [lia|]. rewrite <- Z.pow_add_r by lia.
    replace (Z.of_nat N + Z.of_nat hb)%Z with 255%Z by (unfold hb; lia). pose proof r_bound_hi. lia. }
  unfold split_blk. fold hb. fold b2.
  apply block_sat_app; [apply range_blk_closed|]. split.
  { apply (range_complete_h base hb (S base) asg Hv ltac:(lia) Hz Eh Rh). }
  apply block_sat_app; [apply (closed_arith_block [_; _])|]. split.
  { apply (block_sat_arith asg [_; _]). constructor; [|constructor; [|constructor]].
    - apply gate_add_rel; [intros _; reflexivity|]. unfold ext_value, c_recomp.
      cbn [c_m c_l c_r c_f c_c c_pi c_wa c_wb c_wd set_b set_a set_right set_left c_new].
      rewrite Eb2, Eh, El. fold Lv. rewrite Esplit at 1. rewrite F_add, F_mul. unfold pow2, F. ring.
    - apply assert_equal_iff. rewrite Eb2, Ein. reflexivity. }
  fold cb.
  apply (canon_complete asg base low N cb Hv Lv HN Hz Eh El RH0 RL ltac:(lia) Ed Rd Eb4 Ep Et Er Eg Rg).
Qed.

(* component_truncate::<N> on a canonical input v *)
Theorem truncate_complete asg w N base v :
  (1 <= N <= 254)%nat -> asg W_ZERO = 0 -> (0 <= v < r)%Z -> asg w = F v ->
  let Lv := (v mod 2 ^ Z.of_nat N)%Z in
  asg base = F Lv -> range_honest asg N (S base) Lv ->
  block_sat (split_blk w base N (S base + range_nw N)) asg ->
  block_sat (truncate_blk w N base) asg.
Proof.
  intros HN Hz Rv Hw Lv El Rl Hsplit. unfold truncate_blk.
  assert (PN : (0 < 2 ^ Z.of_nat N)%Z) by (apply Z.pow_pos_nonneg; lia).
  apply block_sat_app; [apply range_blk_closed|]. split; [|exact Hsplit].
  apply (range_complete_h base N (S base) asg Lv); [apply Z.mod_pos_bound; lia|exact Hz|exact El|exact Rl].
Qed.
End TruncComplete.
