(* C09, completeness: the honest accumulators of a value below 2^nb satisfy
   every row of the range block (even widths, then odd widths). *)
From Coq Require Import ZArith List Bool Arith Lia Ring.
From PlonkV Require Import Base.Fr Base.FrFacts Gates.Gate Gates.GateFacts Gates.CS Gates.CSFacts Gates.BlockFacts
  Composer.State Composer.Components Composer.ArithFacts Composer.BasicFacts Composer.RangeFacts.
Import ListNotations.
Local Open Scope fr_scope.

Section RangeComplete.
Context {PR : PrimeR}.
Add Ring FrRingRC : fr_ring_theory.

Lemma row_ok_only_range g w n :
  q_arith g = 0 -> q_range g = 1 -> q_logic g = 0 -> q_fixed g = 0 -> q_var g = 0 ->
  (row_ok g w n 0 <-> range_c1 w = 0 /\ range_c2 w = 0 /\ range_c3 w = 0 /\ range_c4 w n = 0).
Proof.
  intros Ha Hr Hl Hf Hv. unfold row_ok, t_arith. rewrite Ha, Hr, Hl, Hf, Hv. split.
  - intros (_ & (A & B & C & D) & _). repeat split; apply one_mul_zero; assumption.
  - intros (A & B & C & D). rewrite A, B, C, D. repeat split; ring.
Qed.

Lemma row_ok_all_off g w n :
  q_arith g = 0 -> q_range g = 0 -> q_logic g = 0 -> q_fixed g = 0 -> q_var g = 0 -> row_ok g w n 0.
Proof.
  intros Ha Hr Hl Hf Hv. unfold row_ok, t_arith. rewrite Ha, Hr, Hl, Hf, Hv. repeat split; ring.
Qed.

(* converse of range_chain: the chain of quad conditions and the closing
   equality give satisfaction of the whole even-width block *)
Lemma range_even_blk_from_chain w nb base asg :
  (0 < nb)%nat ->
  let f := range_slot base (range_pad nb) (4 * range_num_gates nb) in
  (forall i, (i < 4 * range_num_gates nb)%nat -> delta (asg (f (S i)) - f4 * asg (f i)) = 0) ->
  asg (base + (range_count nb - 1))%nat = asg w ->
  block_sat (range_even_blk w nb base) asg.
Proof.
  intros Hp f Hch Heq. unfold range_even_blk. destruct nb as [|nb']; [lia|]. set (nb := S nb') in *.
  set (ng := range_num_gates nb) in *.
  apply block_sat_app; [apply range_rows_closed|]. split.
  - intros k Hk. rewrite range_rows_length in Hk. fold ng in Hk.
    unfold block_row_ok. rewrite range_rows_nth by (fold ng; lia). fold ng. fold f.
    unfold crow.
    destruct (Nat.ltb_spec k ng) as [Hlt|Hge].
    + replace (pi_val (pi_opt (range_row true f k))) with fzero by reflexivity.
      apply (proj2 (row_ok_only_range (gate_of (range_row true f k)) _ _ eq_refl eq_refl eq_refl eq_refl eq_refl)).
      assert (Hd' : vd (blk_wires (range_rows nb base) asg (S k)) = asg (f (4 * S k)%nat)).
      { unfold blk_wires. rewrite range_rows_nth by (fold ng; lia). fold ng. fold f. unfold crow, wires_of. cbn [vd].
        rewrite range_row_wd. reflexivity. }
      unfold range_c1, range_c2, range_c3, range_c4. rewrite Hd'.
      unfold wires_of. cbn [va vb vc vd gate_of range_row w_a w_b w_c w_d set_a set_b set_c set_d c_rangesel set_sel_range from_external c_new
                              c_wa c_wb c_wc c_wd].
      repeat split.
      * pose proof (Hch (4 * k)%nat ltac:(lia)) as H. replace (S (4 * k)) with (4 * k + 1)%nat in H by lia. exact H.
      * pose proof (Hch (4 * k + 1)%nat ltac:(lia)) as H. replace (S (4 * k + 1)) with (4 * k + 2)%nat in H by lia. exact H.
      * pose proof (Hch (4 * k + 2)%nat ltac:(lia)) as H. replace (S (4 * k + 2)) with (4 * k + 3)%nat in H by lia. exact H.
      * pose proof (Hch (4 * k + 3)%nat ltac:(lia)) as H. replace (S (4 * k + 3)) with (4 * S k)%nat in H by lia. exact H.
    + replace (pi_val (pi_opt (range_row false f k))) with fzero by reflexivity.
      apply row_ok_all_off; reflexivity.
  - apply (block_sat_arith asg [c_assert_equal (base + (range_count nb - 1)) w]).
    constructor; [|constructor]. apply assert_equal_iff. exact Heq.
Qed.

(* the honest accumulator values as integers *)
Definition acc_Z (v : Z) (count j : nat) : Z := ((v / 4 ^ Z.of_nat (count - 1 - j)) mod 4 ^ Z.of_nat (S j))%Z.

Lemma acc_Z_step v count j : (S j < count)%nat -> (0 <= v)%Z ->
  exists q, (0 <= q < 4)%Z /\ acc_Z v count (S j) = (4 * acc_Z v count j + q)%Z.
Proof.
  intros Hj Hv. unfold acc_Z.
  replace (count - 1 - j)%nat with (S (count - 1 - S j)) by lia.
  set (e := (count - 1 - S j)%nat). rewrite (Nat2Z.inj_succ e), Z.pow_succ_r by lia.
  set (V := (v / 4 ^ Z.of_nat e)%Z).
  assert (HV : (v / (4 * 4 ^ Z.of_nat e) = V / 4)%Z).
  { unfold V. rewrite Z.mul_comm. rewrite <- Z.div_div by (try lia; apply Z.pow_pos_nonneg; lia). reflexivity. }
  rewrite HV. rewrite (Nat2Z.inj_succ (S j)), Z.pow_succ_r by lia.
  exists (V mod 4)%Z. split; [apply Z.mod_pos_bound; lia|].
  rewrite Z.rem_mul_r by (try lia; apply Z.pow_nonzero; lia). lia.
Qed.

Lemma acc_Z_first v count : (0 < count)%nat -> (0 <= acc_Z v count 0 < 4)%Z.
Proof. intros H. unfold acc_Z. change (Z.of_nat 1) with 1%Z. change (4 ^ 1)%Z with 4%Z. apply Z.mod_pos_bound. lia. Qed.

Lemma acc_Z_last v count : (0 < count)%nat -> (0 <= v < 4 ^ Z.of_nat count)%Z -> acc_Z v count (count - 1) = v.
Proof.
  intros Hc Hv. unfold acc_Z. replace (count - 1 - (count - 1))%nat with O by lia.
  replace (S (count - 1)) with count by lia. change (Z.of_nat 0) with 0%Z.
  rewrite Z.pow_0_r, Z.div_1_r. apply Z.mod_small. exact Hv.
Qed.

Lemma delta_F_quad q : (0 <= q < 4)%Z -> delta (F q) = 0.
Proof.
  intros H. apply delta_zero_iff.
  assert (q = 0 \/ q = 1 \/ q = 2 \/ q = 3)%Z as [->|[->|[->| ->]]] by lia; auto.
Qed.

(* C09 completeness, even widths *)
Theorem range_even_complete w nb base asg v :
  Nat.even nb = true -> (0 < nb)%nat -> (0 <= v < 2 ^ Z.of_nat nb)%Z ->
  asg W_ZERO = 0 -> asg w = F v ->
  (forall j, (j < range_count nb)%nat -> asg (base + j)%nat = F (acc_Z v (range_count nb) j)) ->
  block_sat (range_even_blk w nb base) asg.
Proof.
  intros He Hp Hv Hz Hw Hacc.
  destruct (range_layout nb He Hp) as (Hlay & Hc1 & Hc2).
  pose proof (range_pad_pos nb) as Hpad.
  set (count := range_count nb) in *. set (pad := range_pad nb) in *. set (ng := range_num_gates nb) in *.
  assert (Hpow : (2 ^ Z.of_nat nb = 4 ^ Z.of_nat count)%Z).
  { replace 4%Z with (2 ^ 2)%Z by reflexivity. rewrite <- Z.pow_mul_r by lia. f_equal.
    unfold count, range_count. apply Nat.even_spec in He. destruct He as [m Hm]. rewrite Hm.
    replace (2 * m / 2)%nat with m by (symmetry; rewrite Nat.mul_comm; apply Nat.div_mul; lia). lia. }
  apply range_even_blk_from_chain; [exact Hp| |].
  - intros i Hi. fold pad ng. unfold range_slot.
    destruct (Nat.leb_spec pad (S i)) as [H1|H1].
    + replace (S i <=? 4 * ng)%nat with true by (symmetry; apply Nat.leb_le; lia). cbn [andb].
      destruct (Nat.leb_spec pad i) as [H2|H2].
      * replace (i <=? 4 * ng)%nat with true by (symmetry; apply Nat.leb_le; lia). cbn [andb].
        rewrite !Hacc by (unfold count in *; lia).
        destruct (acc_Z_step v count (i - pad) ltac:(unfold count in *; lia) ltac:(lia)) as (q & Hq & E).
        replace (S i - pad)%nat with (S (i - pad)) by lia. fold count. rewrite E.
        replace (F (4 * acc_Z v count (i - pad) + q) - f4 * F (acc_Z v count (i - pad))) with (F q).
        { apply delta_F_quad. exact Hq. }
        unfold f4, F. rewrite of_Z_add, of_Z_mul. ring.
      * cbn [andb]. assert (S i = pad) by lia. replace (S i - pad)%nat with O by lia.
        rewrite Hacc by (unfold count in *; lia). rewrite Hz. fold count.
        replace (F (acc_Z v count 0) - f4 * 0) with (F (acc_Z v count 0)) by ring.
        apply delta_F_quad. apply acc_Z_first. unfold count in *; lia.
    + replace (pad <=? i)%nat with false by (symmetry; apply Nat.leb_gt; lia). cbn [andb].
      rewrite Hz. replace (0 - f4 * 0) with (F 0) by (unfold F; change (of_Z 0) with fzero; ring).
      apply delta_F_quad. lia.
  - fold count. rewrite Hacc by (unfold count in *; lia). rewrite Hw. f_equal.
    apply acc_Z_last; [unfold count in *; lia|]. rewrite <- Hpow. exact Hv.
Qed.
End RangeComplete.

Section RangeCompleteAny.
Context {PR : PrimeR}.
Add Ring FrRingRC2 : fr_ring_theory.

(* C09 completeness, every width: the assignment the gadget computes *)
Theorem range_complete w nb base asg v :
  (0 <= v < 2 ^ Z.of_nat nb)%Z ->
  asg W_ZERO = 0 -> asg w = F v ->
  (if Nat.even nb then
     forall j, (j < range_count nb)%nat -> asg (base + j)%nat = F (acc_Z v (range_count nb) j)
   else
     let top := (nb - 1)%nat in let lo := (v mod 2 ^ Z.of_nat top)%Z in
     asg base = F lo /\
     (forall j, (j < range_count top)%nat -> asg (S base + j)%nat = F (acc_Z lo (range_count top) j)) /\
     asg (S base + range_count top)%nat = F (v / 2 ^ Z.of_nat top) /\
     asg (S (S base + range_count top)) = F v) ->
  block_sat (range_blk w nb base) asg.
Proof.
  intros Hv Hz Hw H. unfold range_blk. destruct (Nat.even nb) eqn:He.
  - destruct nb as [|nb'].
    + (* width 0 *)
      unfold range_even_blk. apply (block_sat_arith asg [set_a w (set_left 1 c_new)]).
      constructor; [|constructor]. unfold arith_rel. cbn.
      assert (v = 0)%Z by (cbn in Hv; lia). subst v. rewrite Hw. unfold F. change (of_Z 0) with fzero. ring.
    + apply (range_even_complete w (S nb') base asg v He ltac:(lia) Hv Hz Hw H).
  - cbv zeta in H. destruct H as (Hlo & Hacc & Hbit & Hrec).
    assert (Hodd : Nat.odd nb = true) by (rewrite <- Nat.negb_even, He; reflexivity).
    apply Nat.odd_spec in Hodd. destruct Hodd as [m Hm].
    set (top := (nb - 1)%nat) in *.
    assert (Htop : Nat.even top = true) by (apply Nat.even_spec; exists m; lia).
    assert (Hp2 : (0 < 2 ^ Z.of_nat top)%Z) by (apply Z.pow_pos_nonneg; lia).
    assert (Hnb : (2 ^ Z.of_nat nb = 2 * 2 ^ Z.of_nat top)%Z).
    { replace nb with (S top) by (unfold top; lia). rewrite Nat2Z.inj_succ, Z.pow_succ_r by lia. reflexivity. }
    set (lo := (v mod 2 ^ Z.of_nat top)%Z) in *. set (hi := (v / 2 ^ Z.of_nat top)%Z) in *.
    assert (Hlo_r : (0 <= lo < 2 ^ Z.of_nat top)%Z) by (apply Z.mod_pos_bound; lia).
    assert (Hhi : (hi = 0 \/ hi = 1)%Z).
    { assert (0 <= hi < 2)%Z; [|lia]. unfold hi. split; [apply Z.div_pos; lia|apply Z.div_lt_upper_bound; lia]. }
    assert (Hsplit : (v = lo + 2 ^ Z.of_nat top * hi)%Z) by (unfold lo, hi; rewrite Z.add_comm; apply Z.div_mod; lia).
    apply block_sat_app; [apply range_even_blk_closed|]. split.
    + destruct top as [|top'] eqn:Et.
      * unfold range_even_blk. apply (block_sat_arith asg [set_a base (set_left 1 c_new)]).
        constructor; [|constructor]. unfold arith_rel. cbn.
        assert (lo = 0)%Z by (cbn in Hlo_r; lia). rewrite Hlo, H. unfold F. change (of_Z 0) with fzero. ring.
      * apply (range_even_complete base (S top') (S base) asg lo Htop ltac:(lia) Hlo_r Hz Hlo Hacc).
    + apply block_sat_arith. constructor; [|constructor; [|constructor; [|constructor]]].
      * apply component_boolean_iff. rewrite Hbit. destruct Hhi as [-> | ->]; [left|right]; reflexivity.
      * apply gate_add_rel; [intros _; reflexivity|]. unfold ext_value, c_recompose.
        cbn [c_m c_l c_r c_f c_c c_pi c_wa c_wb c_wd set_b set_a set_right set_left c_new].
        rewrite Hrec, Hlo, Hbit. rewrite Hsplit at 1. unfold F, pow2. rewrite of_Z_add, of_Z_mul. ring.
      * apply assert_equal_iff. rewrite Hrec, Hw. reflexivity.
Qed.
End RangeCompleteAny.

(* the honest-accumulator hypothesis of [range_complete], named *)
Definition range_honest (asg : assignment) (nb base : nat) (v : Z) : Prop :=
  if Nat.even nb then
    forall j, (j < range_count nb)%nat -> asg (base + j)%nat = F (acc_Z v (range_count nb) j)
  else
    let top := (nb - 1)%nat in let lo := (v mod 2 ^ Z.of_nat top)%Z in
    asg base = F lo /\
    (forall j, (j < range_count top)%nat -> asg (S base + j)%nat = F (acc_Z lo (range_count top) j)) /\
    asg (S base + range_count top)%nat = F (v / 2 ^ Z.of_nat top) /\
    asg (S (S base + range_count top)) = F v.

Lemma range_complete_h {PR : PrimeR} w nb base asg v :
  (0 <= v < 2 ^ Z.of_nat nb)%Z -> asg W_ZERO = 0 -> asg w = F v -> range_honest asg nb base v ->
  block_sat (range_blk w nb base) asg.
Proof. intros Hv Hz Hw H. exact (range_complete w nb base asg v Hv Hz Hw H). Qed.
