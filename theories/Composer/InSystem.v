(* The gadget theorems of C12-C14 inside any larger satisfied constraint system
   (padded cyclic domain): the blocks are closed, so satisfaction of the whole
   system implies satisfaction of the block (CSFacts.sat_block). *)
From Coq Require Import ZArith List Bool Arith Lia.
From PlonkV Require Import Base.Fr Base.FrFacts Gates.Gate Gates.CS Gates.CSFacts Gates.BlockFacts
  Composer.State Composer.Components Composer.ArithFacts Composer.BasicFacts Composer.RangeFacts Composer.DecompFacts
  Curve.Jubjub Curve.JubjubFacts Composer.PointComponents Composer.PointFacts Composer.FixedFacts Composer.FixedSpec.
Import ListNotations.
Local Open Scope fr_scope.

Lemma var_rows_closed' a b t x3 y3 : closed_block (var_rows a b t x3 y3).
Proof. apply var_rows_closed. Qed.

Lemma torsion_rows_closed point n : closed_block (torsion_rows point n).
Proof.
  unfold torsion_rows. rewrite !app_assoc. apply closed_block_app; [discriminate|apply closed_arith_block].
Qed.

Lemma mulgen_rows_closed jubjub g n : closed_block (mulgen_rows jubjub g n).
Proof.
  unfold mulgen_rows. cbv zeta. rewrite !app_assoc. apply closed_block_app; [discriminate|apply closed_arith_block].
Qed.

Lemma mul_loop_rows_nonempty bit tl point result n : fst (mul_loop_rows (bit :: tl) point result n) <> [].
Proof.
  cbn [mul_loop_rows]. destruct (mul_loop_rows tl point _ _) as [rest final]. cbn [fst]. unfold var_rows. discriminate.
Qed.

Lemma mul_point_rows_closed jubjub point n : closed_block (mul_point_rows jubjub point n).
Proof.
  unfold mul_point_rows. apply closed_block_app; [|apply mul_loop_rows_closed].
  unfold decomp_bit_wires. change 252%nat with (S 251). rewrite seq_S, map_app, rev_app_distr. cbn [map rev app].
  apply mul_loop_rows_nonempty.
Qed.

Section InSystem.
Context {PR : PrimeR} {ND : NonSquareD}.

Theorem torsion_sound_in_system pre post asg point n :
  sat (pre ++ torsion_rows point n ++ post) asg ->
  let Q := (asg n, asg (S n)) in
  on_curve Q /\ (asg (fst point), asg (snd point)) = ed_double (ed_double (ed_double Q)).
Proof. intros H. apply torsion_sound. exact (sat_block pre _ post asg H (torsion_rows_closed point n)). Qed.

Theorem add_sound_in_system pre post asg a b t x3 y3 :
  let p := (asg (fst a), asg (snd a)) in let q := (asg (fst b), asg (snd b)) in
  on_curve p -> on_curve q ->
  sat (pre ++ var_rows a b t x3 y3 ++ post) asg ->
  (asg x3, asg y3) = ed_add p q /\ on_curve (asg x3, asg y3).
Proof.
  cbv zeta. intros C1 C2 H. apply (var_rel_sound asg a b t x3 y3 C1 C2).
  apply var_rows_iff. exact (sat_block pre _ post asg H (var_rows_closed a b t x3 y3)).
Qed.

Theorem mul_point_sound_in_system pre post asg jubjub point n :
  let P := (asg (fst point), asg (snd point)) in
  asg W_ZERO = 0 -> asg W_ONE = 1 -> on_curve P ->
  sat (pre ++ mul_point_rows jubjub point n ++ post) asg ->
  let res := mul_point_result point n in
  (val (asg jubjub) < 2 ^ 252)%Z /\
  (asg (fst res), asg (snd res)) = ed_mul (val (asg jubjub)) P /\
  on_curve (asg (fst res), asg (snd res)).
Proof.
  cbv zeta. intros Hz Ho CP H. apply (mul_point_sound asg jubjub point n Hz Ho CP).
  exact (sat_block pre _ post asg H (mul_point_rows_closed jubjub point n)).
Qed.

Theorem mulgen_sound_in_system pre post asg jubjub g n :
  asg W_ZERO = 0 -> on_curve g ->
  sat (pre ++ mulgen_rows jubjub g n ++ post) asg ->
  let base := (n + 253)%nat in
  (val (asg jubjub) < rj)%Z /\
  exists ds, length ds = 256%nat /\ Forall is_digit ds /\ firstn 3 ds = [0; 0; 0]%Z /\
    sd_val 0 ds = val (asg jubjub) /\
    (asg (fb_wx base 256), asg (fb_wy base 256)) = sd_point ed_id ds (rev (doublings 256 g)).
Proof.
  intros Hz Cg H. apply (mulgen_sound asg jubjub g n Hz Cg).
  exact (sat_block pre _ post asg H (mulgen_rows_closed jubjub g n)).
Qed.
End InSystem.
