(* C07: the emitted shape (rows, number of witnesses, returned witness
   indices) of every modelled component depends only on the call's static
   parameters and on the shape of the state it is called in -- never on a
   witness value. *)
From Coq Require Import ZArith List Bool Arith Lia.
From PlonkV Require Import Base.Fr Base.FrFacts Gates.Gate Gates.CS Gates.CSFacts Gates.BlockFacts
  Composer.State Composer.Components Composer.ArithFacts Composer.BasicFacts Composer.RangeFacts
  Composer.DecompFacts Composer.TruncFacts Composer.LogicFacts.
Import ListNotations.
Local Open Scope nat_scope.

Definition shape (s : cs) : list (gate * option Fr) * nat := (rows s, length (wits s)).

Definition shape_indep {A} (f : cs -> A * cs) : Prop :=
  forall s s', shape s = shape s' ->
    fst (f s) = fst (f s') /\ shape (snd (f s)) = shape (snd (f s')).

Definition unit_run (f : cs -> cs) : cs -> unit * cs := fun s => (tt, f s).

Lemma shape_eq s s' : shape s = shape s' -> rows s = rows s' /\ length (wits s) = length (wits s').
Proof. unfold shape. intros H. inversion H. auto. Qed.

(* generic: a component whose rows and witness count are functions of the
   witness count before the call *)
Lemma shape_indep_of {A} (f : cs -> A * cs) (blk : nat -> list (gate * option Fr)) (nw : nat -> nat) (res : nat -> A) :
  (forall s, rows (snd (f s)) = rows s ++ blk (length (wits s))) ->
  (forall s, length (wits (snd (f s))) = length (wits s) + nw (length (wits s))) ->
  (forall s, fst (f s) = res (length (wits s))) ->
  shape_indep f.
Proof.
  intros R L F s s' H. apply shape_eq in H. destruct H as [Hr Hl].
  split; [now rewrite !F, Hl|]. unfold shape. now rewrite !R, !L, Hr, Hl.
Qed.

Theorem append_witness_shape v v' s s' :
  shape s = shape s' ->
  fst (append_witness v s) = fst (append_witness v' s') /\
  shape (snd (append_witness v s)) = shape (snd (append_witness v' s')).
Proof.
  intros H. apply shape_eq in H. destruct H as [Hr Hl]. unfold append_witness, shape. cbn [fst snd rows wits].
  rewrite !app_length, Hr, Hl. auto.
Qed.

Theorem append_gate_shape c : shape_indep (unit_run (append_gate c)).
Proof.
  apply (shape_indep_of _ (fun _ => [arith_row c]) (fun _ => 0) (fun _ => tt)); intros s; unfold unit_run; cbn [fst snd].
  - apply append_gate_rows. - rewrite append_gate_wits. lia. - reflexivity.
Qed.

(* the only value-dependent branch of append_evaluated_output is on the
   selector constant q_O *)
Theorem append_evaluated_output_shape c : shape_indep (append_evaluated_output c).
Proof.
  intros s s' H. apply shape_eq in H. destruct H as [Hr Hl].
  unfold append_evaluated_output, eval_output_value.
  destruct (feqb (c_o c) fone); [|destruct (feqb (c_o c) fm1); [|destruct (feqb (c_o c) fzero)]];
    unfold append_witness, append_gate, append_custom_gate, shape; cbn [fst snd rows wits];
    rewrite ?app_length, Hr, Hl; auto.
Qed.

Theorem gate_add_shape c : shape_indep (gate_add c).
Proof.
  intros s s' H. apply shape_eq in H. destruct H as [Hr Hl].
  rewrite !gate_add_spec. unfold shape. cbn [fst snd rows wits]. rewrite !app_length, Hr, Hl. auto.
Qed.

Theorem range_check_shape w nb : shape_indep (unit_run (range_check w nb)).
Proof.
  apply (shape_indep_of _ (range_blk w nb) (fun _ => range_nw nb) (fun _ => tt)); intros s; unfold unit_run; cbn [fst snd].
  - apply range_check_rows. - apply range_check_len. - reflexivity.
Qed.

Theorem component_boolean_shape a : shape_indep (unit_run (component_boolean a)).
Proof. apply append_gate_shape. Qed.
Theorem assert_equal_shape a b : shape_indep (unit_run (assert_equal a b)).
Proof. apply append_gate_shape. Qed.
Theorem assert_equal_constant_shape a k p : shape_indep (unit_run (assert_equal_constant a k p)).
Proof. apply append_gate_shape. Qed.

Theorem component_select_shape bit a b : shape_indep (component_select bit a b).
Proof.
  intros s s' H. apply shape_eq in H. destruct H as [Hr Hl].
  destruct (component_select_emits bit a b s) as (F1 & ws1 & L1 & R1 & W1).
  destruct (component_select_emits bit a b s') as (F2 & ws2 & L2 & R2 & W2).
  split; [rewrite F1, F2, Hl; reflexivity|]. unfold shape.
  rewrite R1, R2, W1, W2, !app_length, L1, L2, Hr, Hl. reflexivity.
Qed.

Lemma decomposition_len N scalar s :
  length (wits (snd (component_decomposition N scalar s))) = length (wits s) + 2 * N.
Proof.
  unfold component_decomposition.
  pose proof (decomposition_loop_spec (val (wval s scalar)) N 0 W_ZERO s) as H.
  destruct (decomposition_loop (val (wval s scalar)) 0 N W_ZERO s) as [[bits acc] s'].
  destruct H as (_ & L & _). cbn [snd]. unfold assert_equal, append_gate, append_custom_gate. cbn [wits]. exact L.
Qed.

Theorem component_decomposition_shape N scalar : shape_indep (component_decomposition N scalar).
Proof.
  apply (shape_indep_of _ (fun b => map arith_row (decomp_rows N scalar b)) (fun _ => 2 * N) (decomp_bit_wires N)); intros s.
  - apply component_decomposition_rows. - apply decomposition_len. - apply component_decomposition_rows.
Qed.

Lemma truncate_len N w s :
  length (wits (snd (component_truncate N w s))) = length (wits s) + (1 + range_nw N + split_nw N).
Proof.
  unfold component_truncate, append_witness. cbn [fst snd].
  match goal with |- context [bind_truncation_split ?i ?l ?n ?st] =>
    destruct (split_rows i l n st) as [_ LS]; rewrite LS end.
  rewrite range_check_len. cbn [wits]. rewrite app_length. cbn [length]. lia.
Qed.

Theorem component_truncate_shape N w : shape_indep (component_truncate N w).
Proof.
  apply (shape_indep_of _ (truncate_blk w N) (fun _ => 1 + range_nw N + split_nw N) (fun b => b)); intros s.
  - apply truncate_rows. - apply truncate_len. - apply truncate_rows.
Qed.

Lemma logic_len P a b x s :
  length (wits (snd (append_logic_component P a b x s))) =
    length (wits s) + (4 * P + match P with O => 0 | _ => 2 * split_nw (2 * P) end).
Proof.
  unfold append_logic_component.
  pose proof (logic_loop_spec x (val (wval s a)) (val (wval s b)) P P 0 0%Z
                (if x then c_logic_xor c_new else c_logic_and c_new) s (logic_sel_init x)) as H.
  destruct (logic_loop x (val (wval s a)) (val (wval s b)) P 0 P 0%Z
              (if x then c_logic_xor c_new else c_logic_and c_new) s) as [c s1].
  destruct H as (_ & L & _). cbn [snd].
  destruct P as [|P'].
  - unfold append_custom_gate. cbn [wits]. lia.
  - match goal with |- context [bind_truncation_split ?i ?l ?n (bind_truncation_split ?i2 ?l2 ?n2 ?st)] =>
      destruct (split_rows i l n (bind_truncation_split i2 l2 n2 st)) as [_ L2];
      destruct (split_rows i2 l2 n2 st) as [_ L1]; rewrite L2, L1 end.
    unfold append_custom_gate. cbn [wits]. lia.
Qed.

Theorem logic_component_shape P a b x : shape_indep (append_logic_component P a b x).
Proof.
  apply (shape_indep_of _ (logic_blk x P a b)
           (fun _ => 4 * P + match P with O => 0 | _ => 2 * split_nw (2 * P) end)
           (fun base => snd (logic_last W_ZERO W_ZERO W_ZERO base P))); intros s.
  - apply logic_component_rows. - apply logic_len. - apply logic_component_rows.
Qed.

(* composition: running two shape-independent components in sequence *)
Theorem shape_indep_seq {A B} (f : cs -> A * cs) (g : A -> cs -> B * cs) :
  shape_indep f -> (forall a, shape_indep (g a)) ->
  shape_indep (fun s => let '(a, s1) := f s in g a s1).
Proof.
  intros Hf Hg s s' H. destruct (Hf s s' H) as [Ha Hs].
  destruct (f s) as [a s1], (f s') as [a' s1']. cbn [fst snd] in *. subst a'.
  exact (Hg a s1 s1' Hs).
Qed.
