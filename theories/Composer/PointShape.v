(* C07 for the curve-point components: rows, witness count and returned wires
   are functions of the witness count before the call (never of a value). *)
From Coq Require Import ZArith List Bool Arith Lia.
From PlonkV Require Import Base.Fr Base.FrFacts Gates.Gate Gates.CS Gates.CSFacts
  Composer.State Composer.Components Composer.ArithFacts Composer.BasicFacts Composer.RangeFacts
  Composer.DecompFacts Composer.ShapeFacts Curve.Jubjub Curve.JubjubFacts
  Composer.PointComponents Composer.PointFacts Composer.FixedFacts.
Import ListNotations.
Local Open Scope nat_scope.

Section PointShape.
Context {PR : PrimeR}.

Theorem add_point_gates_shape_indep a b : shape_indep (add_point_gates a b).
Proof.
  apply (shape_indep_of _ (fun n => var_rows a b n (S n) (S (S n))) (fun _ => 3) (fun n => (S n, S (S n)))); intros s;
    destruct (add_point_gates_shape a b s) as (F & R & L); cbv zeta in *.
  - exact R. - etransitivity; [exact L|lia]. - exact F.
Qed.

Theorem component_neg_point_shape_indep p : shape_indep (component_neg_point p).
Proof.
  apply (shape_indep_of _ (fun n => [arith_row (c_neg (fst p) n)]) (fun _ => 1) (fun n => (n, snd p))); intros s;
    destruct (component_neg_point_rows p s) as (F & R & L); cbv zeta in *.
  - exact R. - etransitivity; [exact L|lia]. - exact F.
Qed.

Theorem select_identity_gates_shape_indep bit a : shape_indep (select_identity_gates bit a).
Proof.
  apply (shape_indep_of _ (fun n => map arith_row (selid_rows bit a n)) (fun _ => 2) (fun n => (n, S n))); intros s;
    destruct (select_identity_gates_rows bit a s) as (F & R & L); cbv zeta in *.
  - exact R. - etransitivity; [exact L|lia]. - exact F.
Qed.

(* whatever auxiliary point is supplied (the honest 8^-1 P, the identity fallback, a forged one) *)
Theorem assert_torsion_free_gates_shape_indep point q q' s s' :
  shape s = shape s' ->
  shape (assert_torsion_free_gates point q s) = shape (assert_torsion_free_gates point q' s').
Proof.
  intros H. apply shape_eq in H. destruct H as [Hr Hl].
  destruct (assert_torsion_free_gates_rows point q s) as [R L].
  destruct (assert_torsion_free_gates_rows point q' s') as [R' L'].
  unfold shape. rewrite R, R', L, L', Hr, Hl. reflexivity.
Qed.

Theorem assert_torsion_free_point_shape_indep point : shape_indep (unit_run (assert_torsion_free_point point)).
Proof.
  intros s s' H. unfold unit_run. cbn [fst snd]. split; [reflexivity|].
  unfold assert_torsion_free_point. apply assert_torsion_free_gates_shape_indep. exact H.
Qed.

Theorem assert_canonical_shape_indep scalar : shape_indep (unit_run (assert_canonical_jubjub_scalar scalar)).
Proof.
  apply (shape_indep_of _ (canonical_blk scalar) (fun _ => 253) (fun _ => tt)); intros s; unfold unit_run; cbn [fst snd];
    destruct (assert_canonical_rows scalar s) as [R L].
  - exact R. - exact L. - reflexivity.
Qed.

Theorem component_mul_point_shape_indep jubjub point : shape_indep (component_mul_point jubjub point).
Proof.
  apply (shape_indep_of _ (mul_point_rows jubjub point) (fun _ => 2520) (mul_point_result point)); intros s.
  - apply component_mul_point_rows. - apply component_mul_point_len. - apply component_mul_point_rows.
Qed.
End PointShape.
