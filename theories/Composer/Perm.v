(* C15/C18: the copy permutation sigma is built by iterating over a hash map
   of witness classes; the result does not depend on the iteration order. *)
From Coq Require Import List Bool Arith Lia Permutation.
From PlonkV Require Import Base.Fr Base.FrFacts.
Import ListNotations.

Definition pos : Set := (nat * nat)%type.       (* (wire 0..3, row) *)
Definition pos_eqb (p q : pos) : bool := Nat.eqb (fst p) (fst q) && Nat.eqb (snd p) (snd q).

Lemma pos_eqb_spec p q : reflect (p = q) (pos_eqb p q).
Proof.
  unfold pos_eqb. destruct p as [a b], q as [c d]. cbn.
  destruct (Nat.eqb_spec a c), (Nat.eqb_spec b d); constructor; congruence.
Qed.

(* index of p in a class *)
Fixpoint index_of (p : pos) (cls : list pos) : option nat :=
  match cls with
  | [] => None
  | q :: tl => if pos_eqb p q then Some 0 else option_map S (index_of p tl)
  end.

(* successor of p in the cycle of its class (wire_data[next_index]) *)
Definition next_in (cls : list pos) (p : pos) : option pos :=
  match index_of p cls with
  | Some k => Some (nth (if Nat.eqb (S k) (length cls) then 0 else S k) cls p)
  | None => None
  end.

(* one iteration of the loop over the hash map *)
Definition apply_class (sigma : pos -> pos) (cls : list pos) : pos -> pos :=
  fun p => match next_in cls p with Some q => q | None => sigma p end.

Definition sigma_of (classes : list (list pos)) : pos -> pos :=
  fold_left apply_class classes (fun p => p).

Lemma index_of_in p cls : In p cls <-> index_of p cls <> None.
Proof.
  induction cls as [|q tl IH]; cbn [In index_of]; [split; [tauto|congruence]|].
  destruct (pos_eqb_spec p q) as [->|N]; [split; [discriminate|auto]|].
  split.
  - intros [E|H]; [congruence|]. apply IH in H. destruct (index_of p tl); [discriminate|contradiction].
  - intros H. right. apply IH. destruct (index_of p tl); [discriminate|contradiction].
Qed.

Lemma next_in_none p cls : ~ In p cls -> next_in cls p = None.
Proof.
  intros H. unfold next_in. destruct (index_of p cls) eqn:E; [|reflexivity].
  exfalso. apply H. apply index_of_in. congruence.
Qed.

Lemma nodup_app_r {A} (l1 l2 : list A) : NoDup (l1 ++ l2) -> NoDup l2.
Proof. induction l1 as [|a l1 IH]; cbn [app]; [auto|]. intros H. inversion H; subst. auto. Qed.

Lemma nodup_app_disjoint {A} (l1 l2 : list A) x : NoDup (l1 ++ l2) -> In x l1 -> In x l2 -> False.
Proof.
  induction l1 as [|a l1 IH]; cbn [app]; intros Hnd H1 H2; [contradiction|].
  inversion Hnd as [|? ? Hna Hnd2]; subst. destruct H1 as [->|H1].
  - apply Hna. apply in_or_app. right. exact H2.
  - eapply IH; eassumption.
Qed.

(* the value at p: decided by the unique class that contains p *)
Lemma fold_apply_not_in classes : forall sigma p,
  (forall c, In c classes -> ~ In p c) -> fold_left apply_class classes sigma p = sigma p.
Proof.
  induction classes as [|c cs IH]; intros sigma p H; cbn [fold_left]; [reflexivity|].
  rewrite IH by (intros c' Hc'; apply H; right; exact Hc').
  unfold apply_class. rewrite next_in_none; [reflexivity|]. apply H. left. reflexivity.
Qed.

Lemma fold_apply_in classes : forall sigma p c,
  NoDup (concat classes) -> In c classes -> In p c ->
  exists q, next_in c p = Some q /\ fold_left apply_class classes sigma p = q.
Proof.
  induction classes as [|c0 cs IH]; intros sigma p c Hnd Hc Hp; [contradiction|].
  cbn [concat] in Hnd. pose proof (nodup_app_r _ _ Hnd) as Hnd'.
  cbn [fold_left]. destruct Hc as [->|Hc].
  - assert (Hq : exists q, next_in c p = Some q).
    { unfold next_in. apply index_of_in in Hp. destruct (index_of p c); [eexists; reflexivity|contradiction]. }
    destruct Hq as [q Hq]. exists q. split; [exact Hq|].
    rewrite fold_apply_not_in.
    + unfold apply_class. rewrite Hq. reflexivity.
    + intros c' Hc' Hpc'. apply (nodup_app_disjoint c (concat cs) p Hnd Hp).
      apply in_concat. exists c'. split; assumption.
  - apply (IH (apply_class sigma c0) p c Hnd' Hc Hp).
Qed.

Lemma pos_eq_dec (p q : pos) : {p = q} + {p <> q}.
Proof. destruct (pos_eqb_spec p q); [left|right]; assumption. Defined.

Lemma Permutation_concat_helper {A} (l l' : list (list A)) :
  Permutation l l' -> Permutation (concat l) (concat l').
Proof.
  induction 1 as [|x l l' _ IH|x y l|l l' l'' _ IH1 _ IH2]; cbn [concat].
  - constructor.
  - apply Permutation_app_head. exact IH.
  - rewrite !app_assoc. apply Permutation_app_tail. apply Permutation_app_comm.
  - eapply Permutation_trans; eassumption.
Qed.

(* C18: any iteration order of the hash map gives the same sigma *)
Theorem sigma_order_independent classes classes' :
  NoDup (concat classes) -> Permutation classes classes' ->
  forall p, sigma_of classes p = sigma_of classes' p.
Proof.
  intros Hnd Hperm p. unfold sigma_of.
  assert (Hnd' : NoDup (concat classes')).
  { eapply Permutation_NoDup; [|exact Hnd]. apply Permutation_concat_helper. exact Hperm. }
  destruct (in_dec pos_eq_dec p (concat classes)) as [Hin|Hnin].
  - apply in_concat in Hin. destruct Hin as (c & Hc & Hp).
    destruct (fold_apply_in classes (fun q => q) p c Hnd Hc Hp) as (q & Hq & E).
    assert (Hc' : In c classes') by (eapply Permutation_in; eassumption).
    destruct (fold_apply_in classes' (fun q => q) p c Hnd' Hc' Hp) as (q' & Hq' & E').
    congruence.
  - rewrite !fold_apply_not_in; [reflexivity| |].
    + intros c Hc Hp. apply Hnin. apply in_concat. exists c. split; [|exact Hp].
      eapply Permutation_in; [apply Permutation_sym; exact Hperm|exact Hc].
    + intros c Hc Hp. apply Hnin. apply in_concat. exists c. split; assumption.
Qed.

(* sums of field elements do not depend on the order (parallel `sum()`) *)
Definition fsum (l : list Fr) : Fr := fold_right fadd fzero l.
Theorem fsum_perm l l' : Permutation l l' -> fsum l = fsum l'.
Proof.
  induction 1 as [|x l l' _ IH|x y l|l l' l'' _ IH1 _ IH2]; cbn [fsum fold_right].
  - reflexivity.
  - fold (fsum l) (fsum l'). rewrite IH. reflexivity.
  - fold (fsum l). ring.
  - congruence.
Qed.
