(* The copy permutation built from the witness classes (Composer/Perm.v, modelling
   Permutation::compute_sigma_permutations): it rotates every class by one step, hence is a
   permutation of the positions, and wire values are invariant under it exactly when they are
   constant on every class - the meaning of "the compiled copy constraints hold". *)
From Coq Require Import List Bool Arith Lia Permutation.
From PlonkV Require Import Base.Fr Base.FrFacts Composer.Perm.
Import ListNotations.

Definition rot {A} (l : list A) : list A := match l with [] => [] | h :: t => t ++ [h] end.

Lemma rot_perm {A} (l : list A) : Permutation (rot l) l.
Proof. destruct l as [|h t]; [constructor|]. cbn [rot]. apply Permutation_sym, Permutation_cons_append. Qed.

Lemma rot_length {A} (l : list A) : length (rot l) = length l.
Proof. destruct l as [|h t]; [reflexivity|]. cbn [rot length]. rewrite app_length. cbn [length]. lia. Qed.

Lemma index_of_nth cls : NoDup cls -> forall i d, i < length cls -> index_of (nth i cls d) cls = Some i.
Proof.
  induction 1 as [|q tl Hq ND IH]; intros i d Hi; [cbn in Hi; lia|].
  destruct i as [|i]; cbn [nth index_of].
  - destruct (pos_eqb_spec q q); [reflexivity|congruence].
  - cbn [length] in Hi. destruct (pos_eqb_spec (nth i tl d) q) as [E|N].
    + exfalso. apply Hq. rewrite <- E. apply nth_In. lia.
    + rewrite IH by lia. reflexivity.
Qed.

Lemma next_in_rot cls : NoDup cls -> forall i d, i < length cls ->
  next_in cls (nth i cls d) = Some (nth i (rot cls) d).
Proof.
  intros ND i d Hi. unfold next_in. rewrite (index_of_nth cls ND i d Hi). f_equal.
  destruct cls as [|h t]; [cbn in Hi; lia|]. cbn [rot length] in *.
  destruct (Nat.eqb_spec (S i) (S (length t))) as [E|N].
  - injection E as E. subst i. rewrite app_nth2 by lia. rewrite Nat.sub_diag. reflexivity.
  - rewrite app_nth1 by lia. cbn [nth]. apply nth_indep. lia.
Qed.

Lemma nodup_app_l {A} (l1 l2 : list A) : NoDup (l1 ++ l2) -> NoDup l1.
Proof.
  induction l1 as [|a l1 IH]; cbn [app]; intros H; [constructor|]. inversion H as [|? ? Hn Hd]; subst.
  constructor; [intros I; apply Hn; apply in_or_app; left; exact I|apply IH; exact Hd].
Qed.

Section Sigma.
Variable classes : list (list pos).
Hypothesis classes_nodup : NoDup (concat classes).

Lemma class_nodup c : In c classes -> NoDup c.
Proof.
  intros Hc. apply in_split in Hc. destruct Hc as [l1 [l2 ->]].
  rewrite concat_app in classes_nodup. cbn [concat] in classes_nodup.
  apply nodup_app_r in classes_nodup. apply nodup_app_l in classes_nodup. exact classes_nodup.
Qed.

(* on every class sigma is the rotation by one step *)
Theorem sigma_rotates c : In c classes -> map (sigma_of classes) c = rot c.
Proof.
  intros Hc. pose proof (class_nodup c Hc) as ND.
  apply (nth_ext _ _ (0, 0) (0, 0)); [rewrite map_length, rot_length; reflexivity|].
  intros i Hi. rewrite map_length in Hi.
  rewrite (nth_indep _ _ (sigma_of classes (0, 0))) by (rewrite map_length; exact Hi). rewrite map_nth.
  destruct (fold_apply_in classes (fun q => q) (nth i c (0, 0)) c classes_nodup Hc (nth_In _ _ Hi)) as [q [Hq E]].
  unfold sigma_of. rewrite E. rewrite (next_in_rot c ND i (0, 0) Hi) in Hq. injection Hq as Hq. symmetry. exact Hq.
Qed.

Lemma concat_map_perm {A} (f g : list A -> list A) (ls : list (list A)) :
  (forall l, In l ls -> Permutation (f l) (g l)) -> Permutation (concat (map f ls)) (concat (map g ls)).
Proof.
  induction ls as [|l ls IH]; intros H; [constructor|]. cbn [map concat].
  apply Permutation_app; [apply H; left; reflexivity|apply IH; intros l' Hl'; apply H; right; exact Hl'].
Qed.

(* sigma permutes the positions that occur in the classes *)
Theorem sigma_permutes : Permutation (map (sigma_of classes) (concat classes)) (concat classes).
Proof.
  rewrite concat_map.
  eapply Permutation_trans; [apply (concat_map_perm (map (sigma_of classes)) rot)|].
  - intros c Hc. rewrite (sigma_rotates c Hc). apply Permutation_refl.
  - rewrite <- (map_id classes) at 2. apply concat_map_perm. intros c _. apply rot_perm.
Qed.

Lemma rot_fixed_all_equal {A} (h : A) t : t ++ [h] = h :: t -> forall x, In x t -> x = h.
Proof.
  revert h. induction t as [|a t IH]; intros h E x Hx; [contradiction|].
  cbn [app] in E. injection E as E1 E2. subst a. destruct Hx as [<-|Hx]; [reflexivity|]. apply (IH h E2 x Hx).
Qed.

(* invariance under sigma = constancy on every class *)
Theorem copy_constraints_meaning {V} (wv : pos -> V) :
  (forall p, In p (concat classes) -> wv (sigma_of classes p) = wv p) <->
  (forall c, In c classes -> forall p q, In p c -> In q c -> wv p = wv q).
Proof.
  split.
  - intros H c Hc.
    assert (E : map wv (rot c) = map wv c).
    { rewrite <- (sigma_rotates c Hc), map_map. apply map_ext_in. intros p Hp. apply H. apply in_concat. exists c. split; assumption. }
    destruct c as [|h t]; [intros p q []|]. cbn [rot] in E. rewrite map_app in E. cbn [map] in E.
    assert (All : forall x, In x (map wv t) -> x = wv h) by (apply rot_fixed_all_equal; exact E).
    assert (Eqh : forall p, In p (h :: t) -> wv p = wv h).
    { intros p [<-|Hp]; [reflexivity|]. apply All. apply in_map. exact Hp. }
    intros p q Hp Hq. rewrite (Eqh p Hp), (Eqh q Hq). reflexivity.
  - intros H p Hp. apply in_concat in Hp. destruct Hp as [c [Hc Hpc]].
    apply (H c Hc); [|exact Hpc].
    eapply Permutation_in; [apply rot_perm|]. rewrite <- (sigma_rotates c Hc). apply in_map. exact Hpc.
Qed.
End Sigma.

(* when the classes partition a list of positions, sigma permutes that list *)
Theorem sigma_permutes_positions classes (ps : list pos) :
  NoDup (concat classes) -> Permutation (concat classes) ps ->
  Permutation (map (sigma_of classes) ps) ps.
Proof.
  intros ND P.
  eapply Permutation_trans; [apply Permutation_map, Permutation_sym, P|].
  eapply Permutation_trans; [apply sigma_permutes; exact ND|exact P].
Qed.
Print Assumptions copy_constraints_meaning.
Print Assumptions sigma_permutes_positions.
