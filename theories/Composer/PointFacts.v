(* C12/C13: the rows emitted by the curve-point components and what they
   enforce. *)
From Coq Require Import ZArith List Bool Arith Lia Ring Field.
From PlonkV Require Import Base.Fr Base.FrFacts Gates.Gate Gates.CS Gates.CSFacts Gates.BlockFacts
  Composer.State Composer.Components Composer.ArithFacts Composer.BasicFacts Composer.RangeFacts
  Curve.Jubjub Curve.JubjubFacts Composer.PointComponents.
Import ListNotations.
Local Open Scope fr_scope.

Section Rows.
Context {PR : PrimeR}.
Add Field FrFieldP : fr_field_theory.

(* ---- single-widget rows ---- *)
Lemma row_ok_only_var g w n :
  q_arith g = 0 -> q_range g = 0 -> q_logic g = 0 -> q_fixed g = 0 -> q_var g = 1 ->
  (row_ok g w n 0 <-> vb_xy w n = 0 /\ vb_x3 w n = 0 /\ vb_y3 w n = 0).
Proof.
  intros Ha Hr Hl Hf Hv. unfold row_ok, t_arith. rewrite Ha, Hr, Hl, Hf, Hv. split.
  - intros (_ & _ & _ & _ & (A & B & C)). repeat split; apply one_mul_zero; assumption.
  - intros (A & B & C). rewrite A, B, C. repeat split; ring.
Qed.

Lemma row_ok_unselected g w n :
  q_arith g = 0 -> q_range g = 0 -> q_logic g = 0 -> q_fixed g = 0 -> q_var g = 0 -> row_ok g w n 0.
Proof.
  intros Ha Hr Hl Hf Hv. unfold row_ok, t_arith. rewrite Ha, Hr, Hl, Hf, Hv. repeat split; ring.
Qed.

(* ---- variable-base addition: two rows ---- *)
Definition c_var_sel (a b : wpt) : constraint :=
  c_group_var (set_d (snd b) (set_c (fst b) (set_b (snd a) (set_a (fst a) c_new)))).
Definition c_var_next (t x3 y3 : nat) : constraint := set_d t (set_b y3 (set_a x3 c_new)).
Definition var_rows (a b : wpt) (t x3 y3 : nat) : list (gate * option Fr) :=
  [crow (c_var_sel a b); crow (c_var_next t x3 y3)].

Definition var_rel (asg : assignment) (a b : wpt) (t x3 y3 : nat) : Prop :=
  let x1 := asg (fst a) in let y1 := asg (snd a) in
  let x2 := asg (fst b) in let y2 := asg (snd b) in
  asg t = x1 * y2 /\
  asg x3 * (1 + ed_d * asg t * (y1 * x2)) = asg t + y1 * x2 /\
  asg y3 * (1 - ed_d * asg t * (y1 * x2)) = y1 * y2 + x1 * x2.

Lemma var_rows_closed a b t x3 y3 : closed_block (var_rows a b t x3 y3).
Proof. repeat split. Qed.

Theorem var_rows_iff asg a b t x3 y3 :
  block_sat (var_rows a b t x3 y3) asg <-> var_rel asg a b t x3 y3.
Proof.
  unfold block_sat, var_rel. cbn [var_rows length]. split.
  - intros H. specialize (H O ltac:(lia)). unfold block_row_ok in H. cbn [nth_error var_rows crow] in H.
    change (pi_val (pi_opt (c_var_sel a b))) with fzero in H.
    apply (proj1 (row_ok_only_var (gate_of (c_var_sel a b)) _ _ eq_refl eq_refl eq_refl eq_refl eq_refl)) in H.
    destruct H as (A & B & C). unfold vb_xy, vb_x3, vb_y3, blk_wires, wires_of, var_rows in A, B, C.
    cbn [nth_error va vb vc vd gate_of c_var_sel c_var_next c_group_var from_external set_sel_var set_a set_b set_c set_d c_new
         w_a w_b w_c w_d c_wa c_wb c_wc c_wd crow fst snd] in A, B, C.
    repeat split.
    + apply (fr_from_zero' _ _ _ A). reflexivity.
    + apply (fr_from_zero' _ _ _ B). ring.
    + apply (fr_from_zero' _ _ _ C). ring.
  - intros (A & B & C) i Hi. destruct i as [|[|i]]; [| |lia]; unfold block_row_ok; cbn [nth_error var_rows crow].
    + change (pi_val (pi_opt (c_var_sel a b))) with fzero.
      apply (proj2 (row_ok_only_var (gate_of (c_var_sel a b)) _ _ eq_refl eq_refl eq_refl eq_refl eq_refl)).
      unfold vb_xy, vb_x3, vb_y3, blk_wires, wires_of, var_rows.
      cbn [nth_error va vb vc vd gate_of c_var_sel c_var_next c_group_var from_external set_sel_var set_a set_b set_c set_d c_new
           w_a w_b w_c w_d c_wa c_wb c_wc c_wd crow fst snd].
      repeat split.
      * rewrite A. ring.
      * transitivity ((asg t + asg (snd a) * asg (fst b)) - asg x3 * (1 + ed_d * asg t * (asg (snd a) * asg (fst b)))); [ring|rewrite B; ring].
      * transitivity ((asg (snd a) * asg (snd b) + asg (fst a) * asg (fst b)) - asg y3 * (1 - ed_d * asg t * (asg (snd a) * asg (fst b)))); [ring|rewrite C; ring].
    + change (pi_val (pi_opt (c_var_next t x3 y3))) with fzero. apply row_ok_unselected; reflexivity.
Qed.

(* what add_point_gates appends *)
Theorem add_point_gates_spec a b s :
  let n := length (wits s) in
  let p1 := pval s a in let p2 := pval s b in
  add_point_gates a b s =
    ((S n, S (S n)),
     mkCS (rows s ++ var_rows a b n (S n) (S (S n)))
          (wits s ++ [fst p1 * snd p2; fst (ed_add p1 p2); snd (ed_add p1 p2)])).
Proof.
  cbv zeta. unfold add_point_gates, append_witness, append_custom_gate, var_rows, crow, c_var_sel, c_var_next.
  cbn [rows wits fst snd]. rewrite !app_length. cbn [length].
  rewrite !Nat.add_1_r. rewrite <- !app_assoc. cbn [app]. reflexivity.
Qed.

Context {ND : NonSquareD}.

(* soundness: on-curve inputs force the third point to be the Edwards sum *)
Theorem var_rel_sound asg a b t x3 y3 :
  let p := (asg (fst a), asg (snd a)) in let q := (asg (fst b), asg (snd b)) in
  on_curve p -> on_curve q -> var_rel asg a b t x3 y3 ->
  (asg x3, asg y3) = ed_add p q /\ on_curve (asg x3, asg y3).
Proof.
  cbv zeta. intros C1 C2 (A & B & C).
  assert (E : (asg x3, asg y3) = ed_add (asg (fst a), asg (snd a)) (asg (fst b), asg (snd b))).
  { apply ed_add_unique; try assumption; unfold ed_t; cbn [fst snd].
    - rewrite A in B. rewrite <- B. ring.
    - rewrite A in C. rewrite <- C. ring. }
  split; [exact E|]. rewrite E. apply ed_add_closed; assumption.
Qed.

(* completeness: the honest values satisfy the relation *)
Theorem var_rel_complete asg a b t x3 y3 :
  let p := (asg (fst a), asg (snd a)) in let q := (asg (fst b), asg (snd b)) in
  on_curve p -> on_curve q ->
  asg t = fst p * snd q -> (asg x3, asg y3) = ed_add p q -> var_rel asg a b t x3 y3.
Proof.
  cbv zeta. cbn [fst snd]. intros C1 C2 A E. destruct (ed_add_eqs _ _ C1 C2) as [Hx Hy].
  rewrite <- E in Hx, Hy. unfold ed_t in Hx, Hy. cbn [fst snd] in Hx, Hy.
  repeat split.
  - exact A.
  - rewrite A. rewrite <- Hx. ring.
  - rewrite A. rewrite <- Hy. ring.
Qed.
End Rows.

(* ---- C13: assert_torsion_free_gates ---- *)
Definition c_sq (a o : nat) : constraint := set_c o (set_output fm1 (c_mul a a)).
Definition c_prod (a b o : nat) : constraint := set_c o (set_output fm1 (c_mul a b)).
Definition c_curve (u2 v2 u2v2 : nat) : constraint :=
  set_constant fm1 (set_c u2v2 (set_output (- ed_d) (set_b v2 (set_right 1
    (set_a u2 (set_left fm1 c_new)))))).

Definition torsion_rows (point : wpt) (n : nat) : list (gate * option Fr) :=
  map arith_row [c_sq n (S (S (n))); c_sq (S (n)) (S (S (S (n)))); c_prod (S (S (n))) (S (S (S (n)))) (S (S (S (S (n))))); c_curve (S (S (n))) (S (S (S (n)))) (S (S (S (S (n)))))]
  ++ var_rows (n, S (n)) (n, S (n)) (S (S (S (S (S (n)))))) (S (S (S (S (S (S (n))))))) (S (S (S (S (S (S (S (n))))))))
  ++ var_rows (S (S (S (S (S (S (n)))))), S (S (S (S (S (S (S (n)))))))) (S (S (S (S (S (S (n)))))), S (S (S (S (S (S (S (n)))))))) (S (S (S (S (S (S (S (S (n))))))))) (S (S (S (S (S (S (S (S (S (n)))))))))) (S (S (S (S (S (S (S (S (S (S (n)))))))))))
  ++ var_rows (S (S (S (S (S (S (S (S (S (n))))))))), S (S (S (S (S (S (S (S (S (S (n))))))))))) (S (S (S (S (S (S (S (S (S (n))))))))), S (S (S (S (S (S (S (S (S (S (n))))))))))) (S (S (S (S (S (S (S (S (S (S (S (n)))))))))))) (S (S (S (S (S (S (S (S (S (S (S (S (n))))))))))))) (S (S (S (S (S (S (S (S (S (S (S (S (S (n))))))))))))))
  ++ map arith_row [c_assert_equal (fst point) (S (S (S (S (S (S (S (S (S (S (S (S (n))))))))))))); c_assert_equal (snd point) (S (S (S (S (S (S (S (S (S (S (S (S (S (n))))))))))))))].

Section Torsion.
Context {PR : PrimeR}.
Add Field FrFieldT : fr_field_theory.

(* shapes: rows appended and number of fresh witnesses *)
Lemma gate_mul_shape c s :
  fst (gate_mul c s) = length (wits s) /\
  rows (snd (gate_mul c s)) = rows s ++ [arith_row (set_c (length (wits s)) (set_output fm1 c))] /\
  length (wits (snd (gate_mul c s))) = S (length (wits s)).
Proof.
  unfold gate_mul. rewrite gate_add_spec. cbn [fst snd rows wits]. rewrite app_length. cbn [length].
  repeat split. lia.
Qed.

Lemma add_point_gates_shape a b s :
  let n := length (wits s) in
  fst (add_point_gates a b s) = (S n, S (S n)) /\
  rows (snd (add_point_gates a b s)) = rows s ++ var_rows a b n (S n) (S (S n)) /\
  length (wits (snd (add_point_gates a b s))) = S (S (S n)).
Proof.
  cbv zeta. rewrite add_point_gates_spec. cbn [fst snd rows wits]. rewrite app_length. cbn [length].
  repeat split. lia.
Qed.

Theorem assert_torsion_free_gates_rows point q s :
  rows (assert_torsion_free_gates point q s) = rows s ++ torsion_rows point (length (wits s))
  /\ length (wits (assert_torsion_free_gates point q s)) = (length (wits s) + 14)%nat.
Proof.
  unfold assert_torsion_free_gates, append_affine_point, append_witness. cbn [fst snd rows wits].
  set (n := length (wits s)).
  set (s0 := mkCS (rows s) ((wits s ++ [fst q]) ++ [snd q])).
  assert (L0 : length (wits s0) = S (S n)).
  { unfold s0, n. cbn [wits]. rewrite !app_length. cbn [length]. lia. }
  assert (R0 : rows s0 = rows s) by reflexivity.
  replace (length (wits s ++ [fst q])) with (S n) by (rewrite app_length; cbn [length]; lia).
  destruct (gate_mul_shape (set_b n (set_a n (set_mult 1 c_new))) s0) as (F1 & R1 & L1).
  destruct (gate_mul (set_b n (set_a n (set_mult 1 c_new))) s0) as [u2 s1]. cbn [fst snd] in F1, R1, L1.
  destruct (gate_mul_shape (set_b (S n) (set_a (S n) (set_mult 1 c_new))) s1) as (F2 & R2 & L2).
  destruct (gate_mul (set_b (S n) (set_a (S n) (set_mult 1 c_new))) s1) as [v2 s2]. cbn [fst snd] in F2, R2, L2.
  destruct (gate_mul_shape (set_b v2 (set_a u2 (set_mult 1 c_new))) s2) as (F3 & R3 & L3).
  destruct (gate_mul (set_b v2 (set_a u2 (set_mult 1 c_new))) s2) as [u2v2 s3]. cbn [fst snd] in F3, R3, L3.
  set (s4 := append_gate (set_constant fm1 (set_c u2v2 (set_output (- ed_d) (set_b v2 (set_right 1 (set_a u2 (set_left fm1 c_new))))))) s3).
  assert (R4 : rows s4 = rows s3 ++ [arith_row (c_curve u2 v2 u2v2)]) by (unfold s4, c_curve; apply append_gate_rows).
  assert (L4 : length (wits s4) = length (wits s3)) by reflexivity.
  destruct (add_point_gates_shape (n, S n) (n, S n) s4) as (F5 & R5 & L5).
  destruct (add_point_gates (n, S n) (n, S n) s4) as [q2 s5]. cbn [fst snd] in F5, R5, L5.
  destruct (add_point_gates_shape q2 q2 s5) as (F6 & R6 & L6).
  destruct (add_point_gates q2 q2 s5) as [q4 s6]. cbn [fst snd] in F6, R6, L6.
  destruct (add_point_gates_shape q4 q4 s6) as (F7 & R7 & L7).
  destruct (add_point_gates q4 q4 s6) as [q8 s7]. cbn [fst snd] in F7, R7, L7.
  unfold assert_equal_point, assert_equal. rewrite !append_gate_rows, !append_gate_wits.
  rewrite L1, L0 in *. subst u2. rewrite L2 in *. subst v2. rewrite L3 in *. subst u2v2.
  rewrite L4 in *. rewrite L5 in *. subst q2. rewrite L6 in *. subst q4. subst q8. cbn [fst snd].
  split; [|rewrite L7; lia].
  rewrite R7, R6, R5, R4, R3, R2, R1, R0.
  unfold torsion_rows, c_sq, c_prod, c_assert_equal, c_mul. rewrite <- !app_assoc. cbn [map app].
  reflexivity.
Qed.

Context {ND : NonSquareD}.

Theorem torsion_sound asg point n :
  block_sat (torsion_rows point n) asg ->
  let Q := (asg n, asg (S n)) in
  on_curve Q /\
  (asg (fst point), asg (snd point)) = ed_double (ed_double (ed_double Q)).
Proof.
  intros H. cbv zeta. unfold torsion_rows in H.
  apply block_sat_app in H; [|apply closed_arith_block]. destruct H as [Ha H].
  apply block_sat_app in H; [|apply var_rows_closed]. destruct H as [H2 H].
  apply block_sat_app in H; [|apply var_rows_closed]. destruct H as [H4 H].
  apply block_sat_app in H; [|apply var_rows_closed]. destruct H as [H8 He].
  apply block_sat_arith in Ha. apply block_sat_arith in He.
  inversion Ha as [|? ? A1 Ha1]; subst. inversion Ha1 as [|? ? A2 Ha2]; subst.
  inversion Ha2 as [|? ? A3 Ha3]; subst. inversion Ha3 as [|? ? A4 _]; subst.
  inversion He as [|? ? E1 He1]; subst. inversion He1 as [|? ? E2 _]; subst.
  apply gate_add_rel in A1; [|intros _; reflexivity]. apply gate_add_rel in A2; [|intros _; reflexivity].
  apply gate_add_rel in A3; [|intros _; reflexivity].
  unfold ext_value, c_mul in A1, A2, A3.
  cbn [c_m c_l c_r c_f c_c c_pi c_wa c_wb c_wd set_b set_a set_mult c_new] in A1, A2, A3.
  apply assert_equal_iff in E1. apply assert_equal_iff in E2.
  unfold arith_rel, c_curve in A4.
  cbn [c_m c_l c_r c_o c_f c_c c_pi c_wa c_wb c_wc c_wd set_constant set_c set_output set_b set_right set_a set_left c_new pi_opt c_has_pi pi_val] in A4.
  assert (CQ : on_curve (asg n, asg (S n))).
  { unfold on_curve, curve_lhs, curve_rhs. cbn [fst snd].
    apply (fr_from_zero _ _ _ (eq_refl 0)). rewrite <- A4, A3, A1, A2. unfold fm1. ring. }
  apply var_rows_iff in H2. apply var_rows_iff in H4. apply var_rows_iff in H8.
  match type of H2 with var_rel _ ?a ?b _ _ _ => destruct (var_rel_sound asg a b _ _ _ CQ CQ H2) as [S2 C2] end. cbn [fst snd] in S2, C2.
  match type of H4 with var_rel _ ?a ?b _ _ _ => destruct (var_rel_sound asg a b _ _ _ C2 C2 H4) as [S4 C4] end. cbn [fst snd] in S4, C4.
  match type of H8 with var_rel _ ?a ?b _ _ _ => destruct (var_rel_sound asg a b _ _ _ C4 C4 H8) as [S8 C8] end. cbn [fst snd] in S8.
  split; [exact CQ|]. unfold ed_double. rewrite <- S2, <- S4, <- S8, E1, E2. reflexivity.
Qed.

(* completeness of the torsion block: the honest intermediate values of an
   on-curve Q with point = [8]Q satisfy every row *)
Theorem torsion_complete asg point n :
  let Q := (asg n, asg (S (n))) in
  let Q2 := (asg (S (S (S (S (S (S (n))))))), asg (S (S (S (S (S (S (S (n))))))))) in let Q4 := (asg (S (S (S (S (S (S (S (S (S (n)))))))))), asg (S (S (S (S (S (S (S (S (S (S (n)))))))))))) in
  let Q8 := (asg (S (S (S (S (S (S (S (S (S (S (S (S (n))))))))))))), asg (S (S (S (S (S (S (S (S (S (S (S (S (S (n))))))))))))))) in
  on_curve Q ->
  asg (S (S (n))) = asg n * asg n -> asg (S (S (S (n)))) = asg (S (n)) * asg (S (n)) -> asg (S (S (S (S (n))))) = asg (S (S (n))) * asg (S (S (S (n)))) ->
  asg (S (S (S (S (S (n)))))) = fst Q * snd Q -> Q2 = ed_add Q Q ->
  asg (S (S (S (S (S (S (S (S (n))))))))) = fst Q2 * snd Q2 -> Q4 = ed_add Q2 Q2 ->
  asg (S (S (S (S (S (S (S (S (S (S (S (n)))))))))))) = fst Q4 * snd Q4 -> Q8 = ed_add Q4 Q4 ->
  (asg (fst point), asg (snd point)) = Q8 ->
  block_sat (torsion_rows point n) asg.
Proof.
  cbv zeta. cbn [fst snd]. intros CQ A1 A2 A3 T2 E2 T4 E4 T8 E8 EP.
  assert (C2 : on_curve (asg (S (S (S (S (S (S (n))))))), asg (S (S (S (S (S (S (S (n)))))))))) by (rewrite E2; apply ed_add_closed; exact CQ).
  assert (C4 : on_curve (asg (S (S (S (S (S (S (S (S (S (n)))))))))), asg (S (S (S (S (S (S (S (S (S (S (n))))))))))))) by (rewrite E4; apply ed_add_closed; exact C2).
  unfold torsion_rows.
  apply block_sat_app; [apply closed_arith_block|]. split.
  { apply block_sat_arith. repeat constructor.
    - apply gate_add_rel; [intros _; reflexivity|]. unfold ext_value, c_mul.
      cbn [c_m c_l c_r c_f c_c c_pi c_wa c_wb c_wd set_b set_a set_mult c_new]. rewrite A1. ring.
    - apply gate_add_rel; [intros _; reflexivity|]. unfold ext_value, c_mul.
      cbn [c_m c_l c_r c_f c_c c_pi c_wa c_wb c_wd set_b set_a set_mult c_new]. rewrite A2. ring.
    - apply gate_add_rel; [intros _; reflexivity|]. unfold ext_value, c_mul.
      cbn [c_m c_l c_r c_f c_c c_pi c_wa c_wb c_wd set_b set_a set_mult c_new]. rewrite A3. ring.
    - unfold arith_rel, c_curve.
      cbn [c_m c_l c_r c_o c_f c_c c_pi c_wa c_wb c_wc c_wd set_constant set_c set_output set_b set_right set_a set_left c_new pi_opt c_has_pi pi_val].
      rewrite A3, A1, A2. unfold on_curve, curve_lhs, curve_rhs in CQ. cbn [fst snd] in CQ.
      transitivity ((asg (S (n)) * asg (S (n)) - asg n * asg n) - (1 + ed_d * (asg n * asg n) * (asg (S (n)) * asg (S (n))))); [unfold fm1; ring|].
      rewrite CQ. ring. }
  apply block_sat_app; [apply var_rows_closed|]. split.
  { apply var_rows_iff. apply var_rel_complete; cbn [fst snd]; assumption. }
  apply block_sat_app; [apply var_rows_closed|]. split.
  { apply var_rows_iff. apply var_rel_complete; cbn [fst snd]; assumption. }
  apply block_sat_app; [apply var_rows_closed|]. split.
  { apply var_rows_iff. apply var_rel_complete; cbn [fst snd]; assumption. }
  apply block_sat_arith. inversion EP as [[X Y]]. repeat constructor; apply assert_equal_iff; assumption.
Qed.
End Torsion.

(* ---- C12: negation, identity selection, scalar multiplication ---- *)
Definition c_neg (x o : nat) : constraint := set_c o (set_output fm1 (set_a x (set_left fm1 c_new))).
Definition selid_rows (bit : nat) (a : wpt) (n : nat) : list constraint :=
  [set_c n (set_output fm1 (c_mul bit (fst a))); c_select_one bit (snd a) (S n)].

Section Group.
Context {PR : PrimeR}.
Add Field FrFieldG : fr_field_theory.

Theorem component_neg_point_rows p s :
  let n := length (wits s) in
  fst (component_neg_point p s) = (n, snd p) /\
  rows (snd (component_neg_point p s)) = rows s ++ [arith_row (c_neg (fst p) n)] /\
  length (wits (snd (component_neg_point p s))) = S n.
Proof.
  cbv zeta. unfold component_neg_point.
  destruct (gate_mul_shape (set_a (fst p) (set_left fm1 c_new)) s) as (F1 & R1 & L1).
  destruct (gate_mul (set_a (fst p) (set_left fm1 c_new)) s) as [nx s1]. cbn [fst snd] in *.
  subst nx. repeat split; assumption.
Qed.

Theorem neg_rel asg x o : arith_rel asg (c_neg x o) <-> asg o = - asg x.
Proof.
  unfold c_neg. rewrite gate_add_rel by (intros _; reflexivity). unfold ext_value.
  cbn [c_m c_l c_r c_f c_c c_pi c_wa c_wb c_wd set_a set_left c_new].
  split; intros H; rewrite H; unfold fm1; ring.
Qed.

Theorem select_identity_gates_rows bit a s :
  let n := length (wits s) in
  fst (select_identity_gates bit a s) = (n, S n) /\
  rows (snd (select_identity_gates bit a s)) = rows s ++ map arith_row (selid_rows bit a n) /\
  length (wits (snd (select_identity_gates bit a s))) = S (S n).
Proof.
  cbv zeta. unfold select_identity_gates.
  destruct (component_select_zero_emits bit (fst a) s) as (F1 & R1 & W1).
  destruct (component_select_zero bit (fst a) s) as [x s1]. cbn [fst snd] in *.
  assert (L1 : length (wits s1) = S (length (wits s))) by (rewrite W1, app_length; cbn [length]; lia).
  destruct (component_select_one_emits bit (snd a) s1) as (F2 & R2 & W2).
  destruct (component_select_one bit (snd a) s1) as [y s2]. cbn [fst snd] in *.
  subst x y. rewrite L1 in *. repeat split.
  - rewrite R2, R1, <- app_assoc. reflexivity.
  - rewrite W2, app_length, L1. cbn [length]. lia.
Qed.

Theorem selid_rel asg bit a n :
  Forall (arith_rel asg) (selid_rows bit a n) <->
  asg n = asg bit * asg (fst a) /\ asg (S n) = 1 - asg bit + asg bit * asg (snd a).
Proof.
  unfold selid_rows. rewrite !Forall_cons_iff, component_select_zero_iff, component_select_one_iff.
  split; [intros (A & B & _); split; assumption|intros (A & B); repeat split; try assumption; constructor].
Qed.

(* with a boolean bit the selected point is the input or the identity *)
Theorem selid_point asg bit a n :
  asg bit = 0 \/ asg bit = 1 ->
  Forall (arith_rel asg) (selid_rows bit a n) ->
  (asg n, asg (S n)) = if feqb (asg bit) 1 then (asg (fst a), asg (snd a)) else ed_id.
Proof.
  intros Hb H. apply selid_rel in H. destruct H as (A & B). rewrite A, B.
  destruct Hb as [E|E]; rewrite E.
  - destruct (feqb_spec 0 1) as [X|_]; [exfalso; apply fone_neq_fzero; symmetry; exact X|].
    unfold ed_id. f_equal; ring.
  - destruct (feqb_spec 1 1) as [_|X]; [|contradiction]. f_equal; ring.
Qed.

(* ---- the double-and-add loop of component_mul_point ---- *)
Fixpoint mul_loop_rows (bits_rev : list nat) (point result : wpt) (n : nat)
  : list (gate * option Fr) * wpt :=
  match bits_rev with
  | [] => ([], result)
  | bit :: tl =>
      let d := (S n, S (S n)) in
      let sel := (S (S (S n)), S (S (S (S n)))) in
      let n5 := S (S (S (S (S n)))) in
      let r' := (S n5, S (S n5)) in
      let '(rest, final) := mul_loop_rows tl point r' (S (S (S n5))) in
      (var_rows result result n (S n) (S (S n))
       ++ map arith_row (selid_rows bit point (S (S (S n))))
       ++ var_rows d sel n5 (S n5) (S (S n5)) ++ rest, final)
  end.

Theorem mul_point_loop_rows : forall bits_rev point result s,
  let n := length (wits s) in
  fst (mul_point_loop bits_rev point result s) = snd (mul_loop_rows bits_rev point result n) /\
  rows (snd (mul_point_loop bits_rev point result s)) = rows s ++ fst (mul_loop_rows bits_rev point result n) /\
  length (wits (snd (mul_point_loop bits_rev point result s))) = (n + 8 * length bits_rev)%nat.
Proof.
  induction bits_rev as [|bit tl IH]; intros point result s; cbv zeta.
  - cbn [mul_point_loop mul_loop_rows fst snd length]. rewrite app_nil_r. repeat split. lia.
  - cbn [mul_point_loop mul_loop_rows].
    destruct (add_point_gates_shape result result s) as (F1 & R1 & L1).
    destruct (add_point_gates result result s) as [d s1]. cbn [fst snd] in F1, R1, L1.
    destruct (select_identity_gates_rows bit point s1) as (F2 & R2 & L2).
    destruct (select_identity_gates bit point s1) as [sel s2]. cbn [fst snd] in F2, R2, L2.
    destruct (add_point_gates_shape d sel s2) as (F3 & R3 & L3).
    destruct (add_point_gates d sel s2) as [r' s3]. cbn [fst snd] in F3, R3, L3.
    specialize (IH point r' s3). cbv zeta in IH. destruct IH as (F4 & R4 & L4).
    rewrite L1 in *. rewrite L2 in *. rewrite L3 in *. subst d sel r'.
    destruct (mul_loop_rows tl point _ _) as [rest final] eqn:E. cbn [fst snd] in *.
    repeat split.
    + exact F4.
    + rewrite R4, R3, R2, R1, <- !app_assoc. reflexivity.
    + rewrite L4. cbn [length]. lia.
Qed.

Lemma mul_loop_rows_closed : forall bits_rev point result n,
  closed_block (fst (mul_loop_rows bits_rev point result n)) .
Proof.
  induction bits_rev as [|bit tl IH]; intros point result n; cbn [mul_loop_rows]; [exact I|].
  destruct (mul_loop_rows tl point _ _) as [rest final] eqn:E. cbn [fst].
  specialize (IH point (S (S (S (S (S (S n))))), S (S (S (S (S (S (S n))))))) (S (S (S (S (S (S (S (S n))))))))).
  rewrite E in IH. cbn [fst] in IH.
  destruct rest as [|x xs].
  - rewrite app_nil_r. rewrite !app_assoc. apply closed_block_app; [discriminate|apply var_rows_closed].
  - rewrite !app_assoc. apply closed_block_app; [discriminate|exact IH].
Qed.

Context {ND : NonSquareD}.

(* soundness of the loop: every bit wire boolean, base point and running
   result on the curve => the final point is the double-and-add result *)
Theorem mul_loop_sound asg : forall bits_rev point result n,
  let P := (asg (fst point), asg (snd point)) in
  on_curve P -> on_curve (asg (fst result), asg (snd result)) ->
  Forall (fun b => asg b = 0 \/ asg b = 1) bits_rev ->
  block_sat (fst (mul_loop_rows bits_rev point result n)) asg ->
  let final := snd (mul_loop_rows bits_rev point result n) in
  (asg (fst final), asg (snd final))
    = ed_mul_bits (map (fun b => feqb (asg b) 1) bits_rev) (asg (fst result), asg (snd result)) P
  /\ on_curve (asg (fst final), asg (snd final)).
Proof.
  induction bits_rev as [|bit tl IH]; intros point result n; cbv zeta; intros CP CR Hb H.
  - cbn [mul_loop_rows snd map ed_mul_bits]. split; [reflexivity|exact CR].
  - cbn [mul_loop_rows] in *.
    destruct (mul_loop_rows tl point _ _) as [rest final] eqn:E. cbn [fst snd] in *.
    apply block_sat_app in H; [|apply var_rows_closed]. destruct H as [H1 H].
    apply block_sat_app in H; [|apply closed_arith_block]. destruct H as [H2 H].
    apply block_sat_app in H; [|apply var_rows_closed]. destruct H as [H3 H4].
    inversion Hb as [|? ? Hbit Htl]; subst.
    apply var_rows_iff in H1.
    destruct (var_rel_sound asg result result _ _ _ CR CR H1) as [S1 C1]. cbn [fst snd] in S1, C1.
    apply block_sat_arith in H2. pose proof (selid_point asg bit point _ Hbit H2) as S2.
    assert (C2 : on_curve (asg (S (S (S n))), asg (S (S (S (S n)))))).
    { rewrite S2. destruct (feqb (asg bit) 1); [exact CP|apply ed_id_on_curve]. }
    apply var_rows_iff in H3.
    destruct (var_rel_sound asg (S n, S (S n)) (S (S (S n)), S (S (S (S n)))) _ _ _ C1 C2 H3) as [S3 C3].
    cbn [fst snd] in S3, C3.
    specialize (IH point (S (S (S (S (S (S n))))), S (S (S (S (S (S (S n))))))) (S (S (S (S (S (S (S (S n))))))))).
    cbv zeta in IH. rewrite E in IH. cbn [fst snd] in IH.
    destruct (IH CP C3 Htl H4) as [S4 C4]. split; [|exact C4].
    rewrite S4. cbn [map ed_mul_bits]. f_equal. rewrite S3, S2, S1. unfold ed_double.
    destruct (feqb (asg bit) 1); [reflexivity|].
    apply ed_add_id_r. rewrite <- S1. exact C1.
Qed.
End Group.

(* ---- component_mul_point as a whole ---- *)
From PlonkV Require Import Composer.DecompFacts.

Lemma component_decomposition_len N scalar s :
  length (wits (snd (component_decomposition N scalar s))) = (length (wits s) + 2 * N)%nat.
Proof.
  unfold component_decomposition.
  pose proof (decomposition_loop_spec (val (wval s scalar)) N 0 W_ZERO s) as H.
  destruct (decomposition_loop (val (wval s scalar)) 0 N W_ZERO s) as [[bits acc] s'].
  destruct H as (R & L & A & B). cbn [fst snd]. exact L.
Qed.

Definition mul_point_rows (jubjub : nat) (point : wpt) (n : nat) : list (gate * option Fr) :=
  map arith_row (decomp_rows 252 jubjub n)
  ++ fst (mul_loop_rows (rev (decomp_bit_wires 252 n)) point W_IDENTITY (n + 504)).
Definition mul_point_result (point : wpt) (n : nat) : wpt :=
  snd (mul_loop_rows (rev (decomp_bit_wires 252 n)) point W_IDENTITY (n + 504)).

Lemma testbit_zbit v j : Z.testbit v (Z.of_nat j) = (zbit v j =? 1)%Z.
Proof.
  rewrite Z.testbit_odd, Z.shiftr_div_pow2 by lia. unfold zbit. rewrite Zodd_mod.
  unfold Zeq_bool. destruct (Z.compare_spec ((v / 2 ^ Z.of_nat j) mod 2) 1) as [E|E|E];
    destruct (Z.eqb_spec ((v / 2 ^ Z.of_nat j) mod 2) 1); try reflexivity; lia.
Qed.

Section MulPoint.
Context {PR : PrimeR} {ND : NonSquareD}.

Theorem component_mul_point_rows jubjub point s :
  let n := length (wits s) in
  rows (snd (component_mul_point jubjub point s)) = rows s ++ mul_point_rows jubjub point n
  /\ fst (component_mul_point jubjub point s) = mul_point_result point n.
Proof.
  cbv zeta. unfold component_mul_point, mul_point_rows, mul_point_result.
  pose proof (component_decomposition_rows 252 jubjub s) as [R B].
  pose proof (component_decomposition_len 252 jubjub s) as L.
  destruct (component_decomposition 252 jubjub s) as [bits s1]. cbn [fst snd] in *.
  destruct (mul_point_loop_rows (rev bits) point W_IDENTITY s1) as (F1 & R1 & _).
  rewrite L in F1, R1. subst bits. change (2 * 252)%nat with 504%nat in *.
  split; [rewrite R1, R, <- app_assoc; reflexivity|exact F1].
Qed.

Theorem component_mul_point_len jubjub point s :
  length (wits (snd (component_mul_point jubjub point s))) = (length (wits s) + 2520)%nat.
Proof.
  unfold component_mul_point.
  pose proof (component_decomposition_rows 252 jubjub s) as [_ B].
  pose proof (component_decomposition_len 252 jubjub s) as L.
  destruct (component_decomposition 252 jubjub s) as [bits s1]. cbn [fst snd] in *.
  destruct (mul_point_loop_rows (rev bits) point W_IDENTITY s1) as (_ & _ & L2). cbv zeta in L2.
  rewrite L2, L, rev_length. subst bits. unfold decomp_bit_wires. rewrite map_length, seq_length. lia.
Qed.

Theorem mul_point_sound asg jubjub point n :
  let P := (asg (fst point), asg (snd point)) in
  asg W_ZERO = 0 -> asg W_ONE = 1 -> on_curve P ->
  block_sat (mul_point_rows jubjub point n) asg ->
  let res := mul_point_result point n in
  (val (asg jubjub) < 2 ^ 252)%Z /\
  (asg (fst res), asg (snd res)) = ed_mul (val (asg jubjub)) P /\
  on_curve (asg (fst res), asg (snd res)).
Proof.
  cbv zeta. intros Hz Ho CP H. unfold mul_point_rows in H.
  apply block_sat_app in H; [|apply closed_arith_block]. destruct H as [Hd Hl].
  apply block_sat_arith in Hd.
  destruct (decomposition_sound asg 252 jubjub n ltac:(lia) Hz Hd) as [Hr Hbits].
  change (Z.of_nat 252) with 252%Z in Hr. split; [exact Hr|].
  assert (Hbool : Forall (fun b => asg b = 0 \/ asg b = 1) (rev (decomp_bit_wires 252 n))).
  { apply Forall_rev. unfold decomp_bit_wires. apply Forall_forall. intros b Hb.
    apply in_map_iff in Hb. destruct Hb as (j & <- & Hj). apply in_seq in Hj.
    specialize (Hbits j ltac:(lia)). pose proof (zbit_is_bit (val (asg jubjub)) j) as [Z0|Z1].
    - left. rewrite <- (of_Z_val (asg (n + 2 * j)%nat)), Hbits, Z0. reflexivity.
    - right. rewrite <- (of_Z_val (asg (n + 2 * j)%nat)), Hbits, Z1. reflexivity. }
  assert (CI : on_curve (asg (fst W_IDENTITY), asg (snd W_IDENTITY))).
  { unfold W_IDENTITY. cbn [fst snd]. rewrite Hz, Ho. apply ed_id_on_curve. }
  destruct (mul_loop_sound asg _ point W_IDENTITY (n + 504) CP CI Hbool Hl) as [S C].
  split; [|exact C]. unfold mul_point_result. rewrite S. unfold ed_mul, W_IDENTITY. cbn [fst snd].
  rewrite Hz, Ho. f_equal.
  unfold bits_msb, decomp_bit_wires. rewrite <- map_rev, map_map.
  (* rev (seq 0 252) = map (fun i => 251 - i) (seq 0 252) *)
  assert (Hrev : forall m, rev (seq 0 m) = map (fun i => (m - 1 - i)%nat) (seq 0 m)).
  { induction m as [|m IHm]; [reflexivity|].
    rewrite seq_S at 1. rewrite rev_app_distr. cbn [rev app Nat.add]. rewrite IHm.
    cbn [seq map]. f_equal; [f_equal; lia|]. rewrite <- seq_shift, map_map.
    apply map_ext_in. intros a Ha. apply in_seq in Ha. lia. }
  rewrite Hrev, map_map. apply map_ext_in. intros i Hi. apply in_seq in Hi.
  rewrite testbit_zbit. specialize (Hbits (252 - 1 - i)%nat ltac:(lia)).
  pose proof (zbit_is_bit (val (asg jubjub)) (252 - 1 - i)) as [Z0|Z1].
  - rewrite Z0. rewrite <- (of_Z_val (asg (n + 2 * (252 - 1 - i))%nat)), Hbits, Z0.
    destruct (feqb_spec (of_Z 0) 1) as [X|_]; [exfalso; apply fone_neq_fzero; symmetry; exact X|reflexivity].
  - rewrite Z1. rewrite <- (of_Z_val (asg (n + 2 * (252 - 1 - i))%nat)), Hbits, Z1.
    destruct (feqb_spec (of_Z 1) 1) as [_|X]; [reflexivity|exfalso; apply X; reflexivity].
Qed.
End MulPoint.

(* ---- remaining C12 components: what they emit, and subtraction ---- *)
Section MoreComponents.
Context {PR : PrimeR}.

Theorem component_sub_point_rows a b s :
  let n := length (wits s) in
  fst (component_sub_point a b s) = (S (S n), S (S (S n))) /\
  rows (snd (component_sub_point a b s)) =
    rows s ++ [arith_row (c_neg (fst b) n)] ++ var_rows a (n, snd b) (S n) (S (S n)) (S (S (S n))) /\
  length (wits (snd (component_sub_point a b s))) = S (S (S (S n))).
Proof.
  cbv zeta. unfold component_sub_point, component_add_point.
  destruct (component_neg_point_rows b s) as (F1 & R1 & L1). cbv zeta in F1, R1, L1.
  destruct (component_neg_point b s) as [nb s1]. cbn [fst snd] in F1, R1, L1. subst nb.
  destruct (add_point_gates_shape a (length (wits s), snd b) s1) as (F2 & R2 & L2). cbv zeta in F2, R2, L2.
  rewrite L1 in F2, R2, L2. repeat split.
  - exact F2.
  - rewrite R2, R1, <- app_assoc. reflexivity.
  - exact L2.
Qed.

Theorem component_select_identity_rows bit a s :
  let n := length (wits s) in
  fst (component_select_identity bit a s) = (n, S n) /\
  rows (snd (component_select_identity bit a s)) =
    rows s ++ map arith_row (c_boolean bit :: selid_rows bit a n) /\
  length (wits (snd (component_select_identity bit a s))) = S (S n).
Proof.
  cbv zeta. unfold component_select_identity.
  destruct (component_boolean_emits bit s) as [Rb Wb]. cbn [map] in Rb. rewrite app_nil_r in Wb.
  destruct (select_identity_gates_rows bit a (component_boolean bit s)) as (F & R & L). cbv zeta in F, R, L.
  rewrite Wb in F, R, L.
  repeat split; [exact F| |exact L].
  rewrite R, Rb, <- app_assoc. reflexivity.
Qed.

Context {ND : NonSquareD}.

(* subtraction: the negation row followed by an addition block *)
Theorem sub_point_sound asg a b n :
  let P := (asg (fst a), asg (snd a)) in let Q := (asg (fst b), asg (snd b)) in
  on_curve P -> on_curve Q ->
  block_sat ([arith_row (c_neg (fst b) n)] ++ var_rows a (n, snd b) (S n) (S (S n)) (S (S (S n)))) asg ->
  (asg (S (S n)), asg (S (S (S n)))) = ed_add P (ed_neg Q).
Proof.
  cbv zeta. intros CP CQ H.
  change [arith_row (c_neg (fst b) n)] with (map arith_row [c_neg (fst b) n]) in H.
  apply block_sat_app in H; [|apply closed_arith_block]. destruct H as [H1 H2].
  apply block_sat_arith in H1. inversion H1 as [|? ? N _]; subst. apply neg_rel in N.
  apply var_rows_iff in H2.
  assert (CN : on_curve (asg (fst (n, snd b)), asg (snd (n, snd b)))).
  { cbn [fst snd]. rewrite N. apply (ed_neg_on_curve (asg (fst b), asg (snd b))). exact CQ. }
  destruct (var_rel_sound asg a (n, snd b) _ _ _ CP CN H2) as [S _]. cbn [fst snd] in S.
  rewrite S, N. reflexivity.
Qed.
End MoreComponents.
