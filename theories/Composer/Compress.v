(* C15: the dictionary encoding of CompressedCircuit (scalars and selector
   tuples are interned into insertion-ordered dictionaries; witnesses are
   relabelled by first use) loses nothing about the gates. *)
From Coq Require Import List Bool Arith Lia.
Import ListNotations.

Section Dict.
Context {K : Type} (eqb : K -> K -> bool).
Hypothesis eqb_spec : forall x y, reflect (x = y) (eqb x y).

Fixpoint index_of (k : K) (d : list K) : option nat :=
  match d with
  | [] => None
  | x :: tl => if eqb k x then Some 0 else option_map S (index_of k tl)
  end.

(* HashMap::entry(k).or_insert(len) on a map whose values are insertion ranks *)
Definition intern (d : list K) (k : K) : list K * nat :=
  match index_of k d with
  | Some i => (d, i)
  | None => (d ++ [k], length d)
  end.

Lemma index_of_nth k d i : index_of k d = Some i -> nth_error d i = Some k.
Proof.
  revert i. induction d as [|x tl IH]; intros i H; cbn [index_of] in H; [discriminate|].
  destruct (eqb_spec k x) as [->|N].
  - inversion H; subst. reflexivity.
  - destruct (index_of k tl) as [j|]; [|discriminate]. inversion H; subst. cbn. apply IH. reflexivity.
Qed.

Lemma intern_nth d k : nth_error (fst (intern d k)) (snd (intern d k)) = Some k.
Proof.
  unfold intern. destruct (index_of k d) as [i|] eqn:E; cbn [fst snd].
  - now apply index_of_nth.
  - rewrite nth_error_app2 by lia. rewrite Nat.sub_diag. reflexivity.
Qed.

Lemma intern_prefix d k : exists ext, fst (intern d k) = d ++ ext.
Proof.
  unfold intern. destruct (index_of k d); cbn [fst]; [exists []; now rewrite app_nil_r|exists [k]; reflexivity].
Qed.

(* interning a list of keys, threading the dictionary *)
Fixpoint intern_all (d : list K) (ks : list K) : list K * list nat :=
  match ks with
  | [] => (d, [])
  | k :: tl => let '(d1, i) := intern d k in
               let '(d2, is) := intern_all d1 tl in (d2, i :: is)
  end.

Lemma intern_all_prefix ks : forall d, exists ext, fst (intern_all d ks) = d ++ ext.
Proof.
  induction ks as [|k tl IH]; intros d; cbn [intern_all].
  - exists []. cbn. now rewrite app_nil_r.
  - destruct (intern d k) as [d1 i] eqn:E1. destruct (intern_prefix d k) as [e1 P1]. rewrite E1 in P1. cbn [fst] in P1.
    destruct (IH d1) as [e2 P2]. destruct (intern_all d1 tl) as [d2 is]. cbn [fst] in *.
    exists (e1 ++ e2). rewrite P2, P1, app_assoc. reflexivity.
Qed.

Lemma nth_error_prefix {A} (l ext : list A) i x : nth_error l i = Some x -> nth_error (l ++ ext) i = Some x.
Proof. intros H. rewrite nth_error_app1; [exact H|]. apply nth_error_Some. congruence. Qed.

(* every interned key is found again under its index in the FINAL dictionary *)
Theorem intern_all_lookup ks : forall d,
  let '(d', is) := intern_all d ks in
  map (nth_error d') is = map Some ks.
Proof.
  induction ks as [|k tl IH]; intros d; cbn [intern_all]; [reflexivity|].
  destruct (intern d k) as [d1 i] eqn:E1.
  pose proof (intern_nth d k) as N1. rewrite E1 in N1. cbn [fst snd] in N1.
  specialize (IH d1). destruct (intern_all_prefix tl d1) as [ext P].
  destruct (intern_all d1 tl) as [d2 is]. cbn [fst] in P. cbn [map]. f_equal; [|exact IH].
  rewrite P. now apply nth_error_prefix.
Qed.

(* entries already present (the built-in table) keep their index *)
Lemma intern_keeps d k i x : nth_error d i = Some x -> nth_error (fst (intern d k)) i = Some x.
Proof. intros H. destruct (intern_prefix d k) as [ext ->]. now apply nth_error_prefix. Qed.

(* the insertion-ordered dictionary never holds a key twice *)
Lemma index_of_none_notin k d : index_of k d = None -> ~ In k d.
Proof.
  induction d as [|x tl IH]; cbn [index_of In]; [tauto|].
  destruct (eqb_spec k x) as [->|N]; [discriminate|].
  intros H [E|Hin]; [congruence|]. destruct (index_of k tl); [discriminate|]. now apply IH.
Qed.

Lemma nodup_snoc (d : list K) k : NoDup d -> ~ In k d -> NoDup (d ++ [k]).
Proof.
  induction d as [|x tl IH]; cbn [app In]; intros H Hn; [repeat constructor; intros []|].
  inversion H as [|? ? Hx Htl]; subst. constructor.
  - intros Hin. apply in_app_or in Hin. destruct Hin as [Hin|[E|[]]]; [contradiction|]. apply Hn. left. symmetry. exact E.
  - apply IH; [exact Htl|]. intros Hin. apply Hn. right. exact Hin.
Qed.

Lemma intern_nodup d k : NoDup d -> NoDup (fst (intern d k)).
Proof.
  intros H. unfold intern. destruct (index_of k d) eqn:E; cbn [fst]; [exact H|].
  apply nodup_snoc; [exact H|]. now apply index_of_none_notin.
Qed.

Lemma intern_all_nodup ks : forall d, NoDup d -> NoDup (fst (intern_all d ks)).
Proof.
  induction ks as [|k tl IH]; intros d H; cbn [intern_all]; [exact H|].
  pose proof (intern_nodup d k H) as H1. destruct (intern d k) as [d1 i]. cbn [fst] in H1.
  specialize (IH d1 H1). destruct (intern_all d1 tl) as [d2 is]. exact IH.
Qed.

End Dict.

(* first-use relabelling of witness labels (remap_witness) *)
Definition relabel (seen : list nat) (w : nat) : list nat * nat := intern Nat.eqb seen w.

Theorem relabel_consistent ws : forall seen,
  let '(seen', is) := intern_all Nat.eqb seen ws in
  map (nth_error seen') is = map Some ws.
Proof. intros seen. apply intern_all_lookup. apply Nat.eqb_spec. Qed.

(* equal labels get equal new indices, distinct labels distinct ones: the copy
   classes of the decompressed circuit are those of the original *)
Theorem relabel_injective seen ws i j a b :
  NoDup seen ->
  let '(seen', is) := intern_all Nat.eqb seen ws in
  nth_error is i = Some a -> nth_error is j = Some b ->
  (a = b <-> nth_error ws i = nth_error ws j).
Proof.
  intros Hnd.
  pose proof (relabel_consistent ws seen) as H.
  pose proof (intern_all_nodup Nat.eqb Nat.eqb_spec ws seen Hnd) as Hnd'.
  destruct (intern_all Nat.eqb seen ws) as [seen' is]. cbn [fst] in Hnd'. intros Ha Hb.
  assert (Hi : nth_error (map (nth_error seen') is) i = Some (nth_error seen' a)) by (rewrite nth_error_map, Ha; reflexivity).
  assert (Hj : nth_error (map (nth_error seen') is) j = Some (nth_error seen' b)) by (rewrite nth_error_map, Hb; reflexivity).
  rewrite H, nth_error_map in Hi, Hj.
  destruct (nth_error ws i) as [wi|] eqn:Ei; [|discriminate]. destruct (nth_error ws j) as [wj|] eqn:Ej; [|discriminate].
  cbn in Hi, Hj. inversion Hi as [Hi']. inversion Hj as [Hj'].
  split.
  - intros ->. congruence.
  - intros E. inversion E; subst.
    apply (proj1 (NoDup_nth_error seen') Hnd'); [apply nth_error_Some; congruence|congruence].
Qed.
