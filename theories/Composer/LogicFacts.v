(* C10: the logic gadget (bitwise AND / XOR on 2*P bits). *)
From Coq Require Import ZArith List Bool Arith Lia Ring Field.
From PlonkV Require Import Base.Fr Base.FrFacts Base.Bits Gates.Gate Gates.GateFacts Gates.CS Gates.CSFacts
  Gates.BlockFacts Composer.State Composer.Components Composer.ArithFacts Composer.BasicFacts
  Composer.RangeFacts Composer.TruncFacts.
Import ListNotations.
Local Open Scope nat_scope.

Definition qsel (is_xor : bool) : Fr := if is_xor then fm1 else fone.

(* a logic-selected row: q_c = q_logic = +-1 *)
Definition logic_gate (is_xor : bool) (a b c d : nat) : gate :=
  mkGate fzero fzero fzero fzero fzero (qsel is_xor) fzero fzero (qsel is_xor) fzero fzero a b c d.
(* the unselected closing row *)
Definition plain_gate (a b d : nat) : gate :=
  mkGate fzero fzero fzero fzero fzero fzero fzero fzero fzero fzero fzero a b W_ZERO d.

(* iteration i allocates a,b,c,d = base+4i .. base+4i+3 *)
Fixpoint logic_rows (is_xor : bool) (a b d base n : nat) : list (gate * option Fr) :=
  match n with
  | O => []
  | S n' => (logic_gate is_xor a b (base + 2) d, None)
            :: logic_rows is_xor base (base + 1) (base + 3) (base + 4) n'
  end.

Definition logic_last (a b d base n : nat) : nat * nat * nat :=
  match n with
  | O => (a, b, d)
  | S _ => (base + 4 * (n - 1), base + 4 * (n - 1) + 1, base + 4 * (n - 1) + 3)
  end.

(* selector part of a constraint equals that of the initial logic constraint *)
Definition logic_sel (x : bool) (c : constraint) : Prop :=
  c_m c = fzero /\ c_l c = fzero /\ c_r c = fzero /\ c_o c = fzero /\ c_f c = fzero /\
  c_c c = qsel x /\ c_arith c = fzero /\ c_range c = fzero /\ c_logic c = qsel x /\
  c_fixed c = fzero /\ c_var c = fzero /\ c_has_pi c = false.

Lemma logic_sel_init is_xor :
  logic_sel is_xor (if is_xor then c_logic_xor c_new else c_logic_and c_new).
Proof. destruct is_xor; repeat split; reflexivity. Qed.

Lemma logic_sel_set is_xor c a b cc d :
  logic_sel is_xor c -> logic_sel is_xor (set_d d (set_b b (set_a a (set_c cc c)))).
Proof. intros H. exact H. Qed.

Lemma gate_of_logic_sel x c : logic_sel x c ->
  gate_of c = logic_gate x (c_wa c) (c_wb c) (c_wc c) (c_wd c) /\ pi_opt c = None.
Proof.
  intros (H1 & H2 & H3 & H4 & H5 & H6 & H7 & H8 & H9 & H10 & H11 & H12).
  unfold gate_of, logic_gate, pi_opt.
  rewrite H1, H2, H3, H4, H5, H6, H7, H8, H9, H10, H11, H12. split; reflexivity.
Qed.

Lemma logic_loop_spec is_xor va vb P : forall n i oacc c s,
  logic_sel is_xor c ->
  let '(c', s') := logic_loop is_xor va vb P i n oacc c s in
  rows s' = rows s ++ logic_rows is_xor (c_wa c) (c_wb c) (c_wd c) (length (wits s)) n
  /\ length (wits s') = length (wits s) + 4 * n
  /\ (c_wa c', c_wb c', c_wd c') = logic_last (c_wa c) (c_wb c) (c_wd c) (length (wits s)) n
  /\ logic_sel is_xor c'.
Proof.
  induction n as [|n IH]; intros i oacc c s Hsel; cbn [logic_loop].
  - cbn [logic_rows logic_last]. rewrite app_nil_r. split; [reflexivity|split; [lia|split; [reflexivity|exact Hsel]]].
  - unfold append_witness. cbn [fst snd wits rows]. rewrite !app_length. cbn [length].
    rewrite !Nat.add_1_r.
    set (b0 := length (wits s)).
    match goal with |- context [logic_loop is_xor va vb P (S i) n ?oa ?cc ?st] =>
      specialize (IH (S i) oa cc st); destruct (logic_loop is_xor va vb P (S i) n oa cc st) as [c' s'] end.
    assert (Hsel' : logic_sel is_xor
              (set_d (S (S (S b0))) (set_b (S b0) (set_a b0 (set_c (S (S b0)) c)))))
      by (apply logic_sel_set; exact Hsel).
    specialize (IH Hsel').
    unfold append_custom_gate in IH. cbn [rows wits] in IH.
    rewrite !app_length in IH. cbn [length] in IH. rewrite !Nat.add_1_r in IH. fold b0 in IH.
    destruct IH as (R & L & W & S').
    cbn [c_wa c_wb c_wd set_d set_b set_a set_c] in R, W.
    split; [|split; [|split]].
    + rewrite R. cbn [logic_rows]. rewrite <- app_assoc. cbn [app]. f_equal. f_equal.
      * destruct (gate_of_logic_sel is_xor (set_c (S (S b0)) c) Hsel) as [G Pi].
        fold (pi_opt (set_c (S (S b0)) c)). rewrite G, Pi.
        cbn [c_wa c_wb c_wc c_wd set_c]. f_equal. f_equal. lia.
      * f_equal; lia.
    + lia.
    + rewrite W. unfold logic_last. destruct n.
      * f_equal; [f_equal|]; lia.
      * f_equal; [f_equal|]; lia.
    + exact S'.
Qed.

Definition logic_blk (is_xor : bool) (P a b base : nat) : list (gate * option Fr) :=
  let '(la, ra, d) := logic_last W_ZERO W_ZERO W_ZERO base P in
  logic_rows is_xor W_ZERO W_ZERO W_ZERO base P ++
  [(plain_gate la ra d, None)] ++
  match P with
  | O => []
  | _ => split_blk a la (2 * P) (base + 4 * P) ++
         split_blk b ra (2 * P) (base + 4 * P + split_nw (2 * P))
  end.

Lemma logic_component_rows P a b is_xor s :
  rows (snd (append_logic_component P a b is_xor s)) =
    rows s ++ logic_blk is_xor P a b (length (wits s))
  /\ fst (append_logic_component P a b is_xor s) =
       snd (logic_last W_ZERO W_ZERO W_ZERO (length (wits s)) P).
Proof.
  unfold append_logic_component, logic_blk.
  pose proof (logic_loop_spec is_xor (val (wval s a)) (val (wval s b)) P P 0 0%Z
                (if is_xor then c_logic_xor c_new else c_logic_and c_new) s (logic_sel_init is_xor)) as H.
  destruct (logic_loop is_xor (val (wval s a)) (val (wval s b)) P 0 P 0%Z
              (if is_xor then c_logic_xor c_new else c_logic_and c_new) s) as [c s1].
  destruct H as (R & L & W & _).
  assert (W0 : forall x : bool, c_wa (if x then c_logic_xor c_new else c_logic_and c_new) = W_ZERO
                      /\ c_wb (if x then c_logic_xor c_new else c_logic_and c_new) = W_ZERO
                      /\ c_wd (if x then c_logic_xor c_new else c_logic_and c_new) = W_ZERO)
    by (intros []; repeat split).
  destruct (W0 is_xor) as (Ea & Eb & Ed). rewrite Ea, Eb, Ed in R, W.
  destruct (logic_last W_ZERO W_ZERO W_ZERO (length (wits s)) P) as [[la ra] d] eqn:EL.
  inversion W; subst. cbn [fst snd].
  split; [|reflexivity].
  set (s2 := append_custom_gate _ s1).
  assert (R2 : rows s2 = rows s ++ logic_rows is_xor W_ZERO W_ZERO W_ZERO (length (wits s)) P
                               ++ [(plain_gate (c_wa c) (c_wb c) (c_wd c), None)]).
  { unfold s2, append_custom_gate. cbn [rows]. rewrite R, <- app_assoc. reflexivity. }
  assert (L2 : length (wits s2) = length (wits s) + 4 * P) by (unfold s2; cbn [wits append_custom_gate]; exact L).
  destruct P as [|P'].
  - rewrite R2. cbn [logic_rows app]. reflexivity.
  - set (P := S P') in *.
    destruct (split_rows a (c_wa c) (2 * P) s2) as [RS1 LS1].
    destruct (split_rows b (c_wb c) (2 * P) (bind_truncation_split a (c_wa c) (2 * P) s2)) as [RS2 _].
    rewrite RS2, RS1, LS1, R2, L2. rewrite <- !app_assoc. reflexivity.
Qed.

(* ---------------- the 16-case table of delta_xor_and ---------------- *)
Local Open Scope Z_scope.

Definition quads : list Z := [0; 1; 2; 3].
Definition quad_triples : list (Z * Z * Z) :=
  flat_map (fun p => flat_map (fun q => map (fun t => (p, q, t)) quads) quads) quads.

Definition table_ok (is_xor : bool) (x : Z * Z * Z) : bool :=
  let '(p, q, t) := x in
  Bool.eqb (feqb (delta_xor_and (F p) (F q) (fmul (F p) (F q)) (F t) (qsel is_xor)) fzero)
           (t =? (if is_xor then Z.lxor p q else Z.land p q)).

Lemma table_all : forall x, forallb (table_ok x) quad_triples = true.
Proof. intros []; vm_compute; reflexivity. Qed.

Lemma in_quads p : 0 <= p < 4 -> In p quads.
Proof. intros H. assert (p = 0 \/ p = 1 \/ p = 2 \/ p = 3) as [ -> | [ -> | [ -> | -> ] ] ] by lia; cbn; auto. Qed.

Lemma logic_table is_xor p q t :
  0 <= p < 4 -> 0 <= q < 4 -> 0 <= t < 4 ->
  delta_xor_and (F p) (F q) (fmul (F p) (F q)) (F t) (qsel is_xor) = fzero ->
  t = (if is_xor then Z.lxor p q else Z.land p q).
Proof.
  intros Hp Hq Ht H.
  pose proof (table_all is_xor) as T. rewrite forallb_forall in T.
  specialize (T (p, q, t)).
  assert (I : In (p, q, t) quad_triples).
  { unfold quad_triples. apply in_flat_map. exists p. split; [now apply in_quads|].
    apply in_flat_map. exists q. split; [now apply in_quads|].
    apply in_map. now apply in_quads. }
  specialize (T I). unfold table_ok in T.
  rewrite H in T. replace (feqb fzero fzero) with true in T by reflexivity.
  apply eqb_prop in T. symmetry in T. apply Z.eqb_eq in T. exact T.
Qed.

Local Open Scope nat_scope.

Lemma block_sat_tail x l asg : block_sat (x :: l) asg -> block_sat l asg.
Proof.
  intros H i Hi. specialize (H (S i)). cbn [length] in H. specialize (H ltac:(lia)).
  unfold block_row_ok, blk_wires in *. cbn [nth_error] in H. exact H.
Qed.

Definition bop (is_xor : bool) : Z -> Z -> Z := if is_xor then Z.lxor else Z.land.

Lemma bop_step is_xor x y p q : (0 <= p < 4)%Z -> (0 <= q < 4)%Z ->
  bop is_xor (4 * x + p) (4 * y + q) = (4 * bop is_xor x y + bop is_xor p q)%Z.
Proof. destruct is_xor; [apply lxor_step|apply land_step]. Qed.

Lemma bop_quad_range is_xor p q : (0 <= p < 4)%Z -> (0 <= q < 4)%Z -> (0 <= bop is_xor p q < 4)%Z.
Proof. destruct is_xor; [apply lxor_quad_range|apply land_quad_range]. Qed.

Section WithPrime.
Context {PR : PrimeR}.
Local Open Scope fr_scope.

Lemma qsel_cancel x y : qsel x * y = 0 -> y = 0.
Proof.
  intros H. assert (E : qsel x * qsel x = 1) by (destruct x; unfold qsel, fm1; ring).
  assert (Ey : y = (qsel x * qsel x) * y) by (rewrite E; ring).
  rewrite Ey. transitivity (qsel x * (qsel x * y)); [ring|rewrite H; ring].
Qed.

Lemma quad_step_F x x' bound :
  delta (x' - f4 * x) = 0 ->
  (val x < bound)%Z -> (4 * bound <= 2 ^ 254)%Z ->
  exists q, (0 <= q < 4)%Z /\ val x' = (4 * val x + q)%Z /\ x' - f4 * x = F q.
Proof.
  intros Hd Hx Hb. destruct (quad_step x x' bound Hd Hx Hb) as [_ (q & Hq & E)].
  exists q. split; [exact Hq|]. split; [exact E|].
  rewrite <- (F_val x'), E, F_add, F_mul, F_val. unfold f4. ring.
Qed.

(* one logic row followed by a row with wires (a', b', _, d') *)
Lemma logic_row_ok is_xor asg a b c d n :
  row_ok (logic_gate is_xor a b c d) (wires_of asg (logic_gate is_xor a b c d)) n 0 ->
  let la := va n - f4 * asg a in let lb := vb n - f4 * asg b in let ld := vd n - f4 * asg d in
  delta la = 0 /\ delta lb = 0 /\ delta ld = 0 /\ asg c = la * lb /\
  delta_xor_and la lb (asg c) ld (qsel is_xor) = 0.
Proof.
  intros (_ & _ & (H0 & H1 & H2 & H3 & H4) & _). cbv zeta.
  unfold logic_c0, logic_c1, logic_c2, logic_c3, logic_c4, logic_a, logic_b, logic_d in *.
  cbn [q_logic q_c logic_gate wires_of va vb vc vd w_a w_b w_c w_d] in *.
  apply qsel_cancel in H0, H1, H2, H3, H4.
  repeat split; try assumption. apply fsub_zero. exact H3.
Qed.

Theorem logic_rows_sound is_xor asg : forall n a b d base k,
  (k + n <= 127)%nat ->
  let '(la, ra, dd) := logic_last a b d base n in
  block_sat (logic_rows is_xor a b d base n ++ [(plain_gate la ra dd, None)]) asg ->
  (val (asg a) < 4 ^ Z.of_nat k)%Z -> (val (asg b) < 4 ^ Z.of_nat k)%Z ->
  val (asg d) = bop is_xor (val (asg a)) (val (asg b)) ->
  (val (asg la) < 4 ^ Z.of_nat (k + n))%Z /\ (val (asg ra) < 4 ^ Z.of_nat (k + n))%Z /\
  val (asg dd) = bop is_xor (val (asg la)) (val (asg ra)).
Proof.
  induction n as [|n IH]; intros a b d base k Hk.
  - cbn [logic_last]. intros _ Ha Hb Hd. rewrite Nat.add_0_r. auto.
  - assert (EL : logic_last a b d base (S n) =
                 logic_last base (base + 1) (base + 3) (base + 4) n).
    { unfold logic_last. destruct n; [f_equal; [f_equal|]; lia|]. f_equal; [f_equal|]; lia. }
    rewrite EL. specialize (IH base (base + 1)%nat (base + 3)%nat (base + 4)%nat (S k) ltac:(lia)).
    destruct (logic_last base (base + 1) (base + 3) (base + 4) n) as [[la ra] dd].
    cbn [logic_rows app]. intros Hsat Ha Hb Hd.
    pose proof (Hsat 0%nat ltac:(cbn; lia)) as H0. unfold block_row_ok in H0. cbn [nth_error pi_val] in H0.
    assert (Hnext : blk_wires ((logic_gate is_xor a b (base + 2) d, None)
                     :: logic_rows is_xor base (base + 1) (base + 3) (base + 4) n ++ [(plain_gate la ra dd, None)])
                     asg 1 = mkWires (asg base) (asg (base + 1)%nat)
                               (vc (blk_wires ((logic_gate is_xor a b (base + 2) d, None)
                     :: logic_rows is_xor base (base + 1) (base + 3) (base + 4) n ++ [(plain_gate la ra dd, None)]) asg 1))
                               (asg (base + 3)%nat)).
    { unfold blk_wires. cbn [nth_error]. destruct n.
      - cbn [logic_rows app nth_error]. unfold logic_last in EL.
        injection EL. intros. subst. unfold wires_of, plain_gate. cbn. f_equal; f_equal; lia.
      - cbn [logic_rows app nth_error]. reflexivity. }
    rewrite Hnext in H0. apply logic_row_ok in H0. cbv zeta in H0. cbn [va vb vd] in H0.
    destruct H0 as (Da & Db & Dd & Hc & Hx).
    assert (Hbnd : (4 * 4 ^ Z.of_nat k <= 2 ^ 254)%Z).
    { rewrite <- Z.pow_succ_r by lia. rewrite <- Nat2Z.inj_succ. apply pow4_254. lia. }
    destruct (quad_step_F _ _ _ Da Ha Hbnd) as (p & Hp & Ea & Fa).
    destruct (quad_step_F _ _ _ Db Hb Hbnd) as (q & Hq & Eb & Fb).
    pose proof (val_range (asg a)) as Ra. pose proof (val_range (asg b)) as Rb.
    assert (Hdr : (0 <= val (asg d) < 4 ^ Z.of_nat k)%Z).
    { split; [apply val_range|]. rewrite Hd. destruct is_xor; cbn [bop].
      - apply lxor_nonneg_bound; lia.
      - apply land_nonneg_bound; lia. }
    destruct (quad_step_F _ _ _ Dd (proj2 Hdr) Hbnd) as (t & Ht & Ed & Fd).
    rewrite Fa, Fb, Fd in Hx. rewrite Hc, Fa, Fb in Hx.
    apply logic_table in Hx; try assumption.
    assert (Hx' : t = bop is_xor p q) by (destruct is_xor; exact Hx). clear Hx.
    apply block_sat_tail in Hsat.
    replace (k + S n)%nat with (S k + n)%nat by lia.
    apply IH; [exact Hsat| | |].
    + rewrite Ea, Nat2Z.inj_succ, Z.pow_succ_r by lia. lia.
    + rewrite Eb, Nat2Z.inj_succ, Z.pow_succ_r by lia. lia.
    + rewrite Ed, Ea, Eb, Hd, Hx'. symmetry. apply bop_step; assumption.
Qed.


Lemma plain_gate_no_next a b d : no_next (plain_gate a b d).
Proof. repeat split. Qed.

Lemma bop_0_0 is_xor : bop is_xor 0 0 = 0%Z.
Proof. destruct is_xor; reflexivity. Qed.

(* C10: the returned witness is the bitwise op of the truncated inputs, for
   every assignment of accumulators, product wires and truncation helpers *)
Theorem logic_sound is_xor asg P a b base :
  (P <= 127)%nat -> asg W_ZERO = 0 ->
  block_sat (logic_blk is_xor P a b base) asg ->
  val (asg (snd (logic_last W_ZERO W_ZERO W_ZERO base P))) =
    bop is_xor (val (asg a) mod 2 ^ Z.of_nat (2 * P)) (val (asg b) mod 2 ^ Z.of_nat (2 * P)).
Proof.
  intros HP Hz Hsat. unfold logic_blk in Hsat.
  pose proof (logic_rows_sound is_xor asg P W_ZERO W_ZERO W_ZERO base 0 ltac:(lia)) as Hch.
  destruct (logic_last W_ZERO W_ZERO W_ZERO base P) as [[la ra] d] eqn:EL. cbn [snd].
  rewrite app_assoc in Hsat.
  apply block_sat_app in Hsat; [|apply closed_block_last, plain_gate_no_next].
  destruct Hsat as [Hrows Hsplits].
  specialize (Hch Hrows). rewrite Hz in Hch.
  assert (H01 : (val fzero < 4 ^ Z.of_nat 0)%Z) by (rewrite val_zero; cbn [Z.of_nat]; rewrite Z.pow_0_r; lia).
  specialize (Hch H01 H01). rewrite val_zero, bop_0_0 in Hch. specialize (Hch eq_refl).
  cbn [Nat.add] in Hch. destruct Hch as (HA & HB & HD).
  destruct P as [|P'].
  - cbn [logic_last] in EL. inversion EL; subst. rewrite Hz.
    cbn [Z.of_nat Nat.mul]. rewrite Z.pow_0_r, !Z.mod_1_r, bop_0_0. reflexivity.
  - set (P := S P') in *.
    assert (E4 : (4 ^ Z.of_nat P = 2 ^ Z.of_nat (2 * P))%Z).
    { replace 4%Z with (2 ^ 2)%Z by reflexivity. rewrite <- Z.pow_mul_r by lia. f_equal. lia. }
    rewrite E4 in HA, HB.
    apply block_sat_app in Hsplits; [|apply split_blk_closed].
    destruct Hsplits as [S1 S2].
    apply (split_sound asg a la (2 * P)) in S1; [|lia|exact Hz|exact HA].
    apply (split_sound asg b ra (2 * P)) in S2; [|lia|exact Hz|exact HB].
    rewrite HD, S1, S2. reflexivity.
Qed.

End WithPrime.
