(* Model of the composer components of src/composer/{bits,select,range,
   truncate,logic}.rs.  Loops over the width are written as closed forms of
   the values/wires they produce (see DESIGN.md section 4); the correspondence
   check sweeps every width. *)
From Coq Require Import ZArith List Bool Arith Lia.
From PlonkV Require Import Base.Fr Gates.Gate Composer.State.
Import ListNotations.
Local Open Scope fr_scope.

(* ---- bits of the canonical value ---- *)
Definition zbit (v : Z) (i : nat) : Z := ((v / 2 ^ Z.of_nat i) mod 2)%Z.
(* recompose_bits(bits, start, end) for bits = to_bits(v), end <= 256 *)
Definition recompose (v : Z) (start stop : nat) : Fr :=
  of_Z ((v / 2 ^ Z.of_nat start) mod 2 ^ Z.of_nat (stop - start))%Z.
Definition pow2 (i : nat) : Fr := of_Z (2 ^ Z.of_nat i).

(* ---- bits.rs ---- *)
Definition component_boolean (a : nat) (s : cs) : cs :=
  append_gate (set_d W_ZERO (set_c a (set_b a (set_a a
    (set_output fm1 (set_mult 1 c_new)))))) s.

(* component_decomposition::<N>, 0 < N <= 256 *)
Fixpoint decomposition_loop (v : Z) (i n : nat) (acc : nat) (s : cs)
  : list nat * nat * cs :=
  match n with
  | O => ([], acc, s)
  | S n' =>
      let '(wbit, s) := append_witness (of_Z (zbit v i)) s in
      let s := component_boolean wbit s in
      let '(acc', s) := gate_add (set_b acc (set_a wbit
                          (set_right 1 (set_left (pow2 i) c_new)))) s in
      let '(rest, accf, s) := decomposition_loop v (S i) n' acc' s in
      (wbit :: rest, accf, s)
  end.

Definition component_decomposition (N : nat) (scalar : nat) (s : cs) : list nat * cs :=
  let '(bits, acc, s) := decomposition_loop (val (wval s scalar)) O N W_ZERO s in
  (bits, assert_equal acc scalar s).

(* ---- select.rs ---- *)
Definition component_select (bit a b : nat) (s : cs) : nat * cs :=
  let '(bit_times_a, s) := gate_mul (set_b a (set_a bit (set_mult 1 c_new))) s in
  let '(one_min_bit, s) := gate_add (set_a bit (set_constant 1 (set_left fm1 c_new))) s in
  let '(one_min_bit_b, s) := gate_mul (set_b b (set_a one_min_bit (set_mult 1 c_new))) s in
  gate_add (set_b bit_times_a (set_a one_min_bit_b (set_right 1 (set_left 1 c_new)))) s.

Definition component_select_one (bit value : nat) (s : cs) : nat * cs :=
  let b := wval s bit in let v := wval s value in
  let '(f_x, s) := append_witness (1 - b + b * v) s in
  (f_x, append_gate (set_c f_x (set_b value (set_a bit
          (set_constant 1 (set_output fm1 (set_left fm1 (set_mult 1 c_new))))))) s).

Definition component_select_zero (bit value : nat) (s : cs) : nat * cs :=
  gate_mul (set_b value (set_a bit (set_mult 1 c_new))) s.

(* ---- range.rs ---- *)
(* range_check_even, num_bits even and > 0, <= 256: closed form.
   num_gates = ceil(num_bits/8), num_quads = 4*num_gates,
   pad = 1 + num_quads - num_bits/2; accumulator j (0-based) is flat slot
   pad + j and holds floor(v / 4^(count-1-j)) mod 4^(j+1) with
   count = num_bits/2. *)
Definition range_num_gates (num_bits : nat) : nat := (num_bits + 7) / 8.
Definition range_count (num_bits : nat) : nat := num_bits / 2.
Definition range_pad (num_bits : nat) : nat :=
  1 + 4 * range_num_gates num_bits - range_count num_bits.

Definition range_acc_value (v : Z) (count j : nat) : Fr :=
  of_Z ((v / 4 ^ Z.of_nat (count - 1 - j)) mod 4 ^ Z.of_nat (S j))%Z.

(* the witness sitting in flat slot i (slots run D,C,B,A row after row) *)
Definition range_slot (base pad nq : nat) (i : nat) : nat :=
  if (pad <=? i)%nat && (i <=? nq)%nat then (base + (i - pad))%nat else W_ZERO.

Definition range_row (sel : bool) (f : nat -> nat) (k : nat) : constraint :=
  let c := if sel then c_rangesel c_new else c_new in
  set_a (f (4 * k + 3)%nat) (set_b (f (4 * k + 2)%nat)
    (set_c (f (4 * k + 1)%nat) (set_d (f (4 * k)%nat) c))).

Fixpoint append_witnesses (vs : list Fr) (s : cs) : cs :=
  match vs with
  | [] => s
  | v :: tl => append_witnesses tl (snd (append_witness v s))
  end.

Fixpoint append_custom_gates (cl : list constraint) (s : cs) : cs :=
  match cl with
  | [] => s
  | c :: tl => append_custom_gates tl (append_custom_gate c s)
  end.

Definition range_check_even (witness : nat) (num_bits : nat) (s : cs) : cs :=
  match num_bits with
  | O => append_gate (set_a witness (set_left 1 c_new)) s
  | _ =>
    let v := val (wval s witness) in
    let ng := range_num_gates num_bits in
    let nq := (4 * ng)%nat in
    let count := range_count num_bits in
    let pad := range_pad num_bits in
    let base := length (wits s) in
    let s := append_witnesses (map (range_acc_value v count) (seq 0 count)) s in
    let f := range_slot base pad nq in
    let rows := map (fun k => range_row (k <? ng)%nat f k) (seq 0 (S ng)) in
    let s := append_custom_gates rows s in
    assert_equal (base + (count - 1))%nat witness s
  end.

Definition range_check (value : nat) (num_bits : nat) (s : cs) : cs :=
  if Nat.even num_bits then range_check_even value num_bits s
  else
    let top := (num_bits - 1)%nat in
    let v := val (wval s value) in
    let '(lower, s) := append_witness (recompose v 0 top) s in
    let s := range_check_even lower top s in
    let '(top_bit, s) := append_witness (of_Z (zbit v top)) s in
    let s := component_boolean top_bit s in
    let '(recomposed, s) := gate_add (set_b top_bit (set_a lower
                              (set_right (pow2 top) (set_left 1 c_new)))) s in
    assert_equal recomposed value s.

Definition component_range_bits (BITS : nat) (w : nat) (s : cs) : cs :=
  range_check w BITS s.
Definition component_range (BIT_PAIRS : nat) (w : nat) (s : cs) : cs :=
  range_check_even w (Nat.min (BIT_PAIRS * 2) 256) s.

(* ---- truncate.rs ---- *)
Definition r_minus_1 : Z := (r - 1)%Z.

Definition assert_canonical_truncation (high low : nat) (num_bits : nat) (s : cs) : cs :=
  let high_bits := (255 - num_bits)%nat in
  let r_low := recompose r_minus_1 0 num_bits in
  let r_high := recompose r_minus_1 num_bits 256 in
  let '(diff, s) := gate_add (set_constant r_high (set_a high (set_left fm1 c_new))) s in
  let s := range_check diff high_bits s in
  let dv := wval s diff in
  let '(inverse, s) := append_witness (if feqb dv 0 then 0 else finv dv) s in
  let '(product, s) := gate_mul (set_b inverse (set_a diff (set_mult 1 c_new))) s in
  let '(is_top, s) := gate_add (set_constant 1 (set_a product (set_left fm1 c_new))) s in
  let s := append_gate (set_b is_top (set_a diff (set_mult 1 c_new))) s in
  let '(r_low_minus_low, s) := gate_add (set_constant r_low (set_a low (set_left fm1 c_new))) s in
  let '(guard, s) := gate_mul (set_b r_low_minus_low (set_a is_top (set_mult 1 c_new))) s in
  range_check guard num_bits s.

Definition bind_truncation_split (input low : nat) (num_bits : nat) (s : cs) : cs :=
  let high_bits := (255 - num_bits)%nat in
  let v := val (wval s input) in
  let '(high, s) := append_witness (recompose v num_bits 256) s in
  let s := range_check high high_bits s in
  let '(recomposed, s) := gate_add (set_b low (set_a high
                            (set_right 1 (set_left (pow2 num_bits) c_new)))) s in
  let s := assert_equal recomposed input s in
  assert_canonical_truncation high low num_bits s.

(* component_truncate::<N>, N <= 254 *)
Definition component_truncate (N : nat) (witness : nat) (s : cs) : nat * cs :=
  let '(low, s) := append_witness (recompose (val (wval s witness)) 0 N) s in
  let s := range_check low N s in
  (low, bind_truncation_split witness low N s).

(* ---- logic.rs ---- *)
Definition quad_at (v : Z) (P i : nat) : Z := ((v / 4 ^ Z.of_nat (P - 1 - i)) mod 4)%Z.
Definition acc_at (v : Z) (P i : nat) : Z :=
  ((v mod 4 ^ Z.of_nat P) / 4 ^ Z.of_nat (P - 1 - i))%Z.

Fixpoint logic_loop (is_xor : bool) (va vb : Z) (P : nat) (i n : nat)
         (oacc : Z) (c : constraint) (s : cs) : constraint * cs :=
  match n with
  | O => (c, s)
  | S n' =>
      let lq := quad_at va P i in let rq := quad_at vb P i in
      let oq := if is_xor then Z.lxor lq rq else Z.land lq rq in
      let oacc := (oacc * 4 + oq)%Z in
      let '(wit_a, s) := append_witness (of_Z (acc_at va P i)) s in
      let '(wit_b, s) := append_witness (of_Z (acc_at vb P i)) s in
      let '(wit_c, s) := append_witness (of_Z (lq * rq)) s in
      let '(wit_d, s) := append_witness (of_Z oacc) s in
      let c := set_c wit_c c in
      let s := append_custom_gate c s in
      let c := set_d wit_d (set_b wit_b (set_a wit_a c)) in
      logic_loop is_xor va vb P (S i) n' oacc c s
  end.

(* append_logic_component::<BIT_PAIRS>, BIT_PAIRS <= 127 *)
Definition append_logic_component (P : nat) (a b : nat) (is_xor : bool) (s : cs) : nat * cs :=
  let va := val (wval s a) in let vb := val (wval s b) in
  let c0 := if is_xor then c_logic_xor c_new else c_logic_and c_new in
  let '(c, s) := logic_loop is_xor va vb P O P 0%Z c0 s in
  let la := c_wa c in let ra := c_wb c in let d := c_wd c in
  let s := append_custom_gate (set_d d (set_b ra (set_a la c_new))) s in
  let s := match P with
           | O => s
           | _ => bind_truncation_split b ra (2 * P)
                    (bind_truncation_split a la (2 * P) s)
           end in
  (d, s).

Definition append_logic_and (P a b : nat) := append_logic_component P a b false.
Definition append_logic_xor (P a b : nat) := append_logic_component P a b true.
