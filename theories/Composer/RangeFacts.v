(* C09: the range gadget. *)
From Coq Require Import ZArith List Bool Arith Lia Ring Field.
From PlonkV Require Import Base.Fr Base.FrFacts Gates.Gate Gates.GateFacts Gates.CS Gates.CSFacts
  Gates.BlockFacts Composer.State Composer.Components Composer.ArithFacts Composer.BasicFacts.
Import ListNotations.
Local Open Scope nat_scope.

(* a custom (non-arithmetic-forced) row *)
Definition crow (c : constraint) : gate * option Fr := (gate_of c, pi_opt c).

Lemma arith_row_crow c : arith_row c = crow (c_arithmetic c).
Proof. reflexivity. Qed.

Lemma append_custom_gates_rows cl : forall s,
  rows (append_custom_gates cl s) = rows s ++ map crow cl.
Proof.
  induction cl as [|c cl IH]; intros s; cbn [append_custom_gates map].
  - now rewrite app_nil_r.
  - rewrite IH. unfold append_custom_gate. cbn [rows]. rewrite <- app_assoc. reflexivity.
Qed.
Lemma append_custom_gates_wits cl : forall s, wits (append_custom_gates cl s) = wits s.
Proof. induction cl as [|c cl IH]; intros s; cbn [append_custom_gates]; [reflexivity|]. now rewrite IH. Qed.

Lemma append_witnesses_wits vs : forall s, wits (append_witnesses vs s) = wits s ++ vs.
Proof.
  induction vs as [|v vs IH]; intros s; cbn [append_witnesses].
  - now rewrite app_nil_r.
  - rewrite IH. unfold append_witness. cbn [snd wits]. rewrite <- app_assoc. reflexivity.
Qed.
Lemma append_witnesses_rows vs : forall s, rows (append_witnesses vs s) = rows s.
Proof. induction vs as [|v vs IH]; intros s; cbn [append_witnesses]; [reflexivity|]. now rewrite IH. Qed.

(* ---- the block emitted by range_check_even: a function of the wire, the
   width and the number of witnesses allocated before the call only ---- *)
Definition range_rows (nb base : nat) : list (gate * option Fr) :=
  let ng := range_num_gates nb in
  map (fun k => crow (range_row (k <? ng) (range_slot base (range_pad nb) (4 * ng)) k))
      (seq 0 (S ng)).

Definition range_even_blk (w nb base : nat) : list (gate * option Fr) :=
  match nb with
  | O => [arith_row (set_a w (set_left fone c_new))]
  | _ => range_rows nb base ++ [arith_row (c_assert_equal (base + (range_count nb - 1)) w)]
  end.

Lemma range_check_even_rows w nb s :
  rows (range_check_even w nb s) = rows s ++ range_even_blk w nb (length (wits s)).
Proof.
  unfold range_check_even, range_even_blk. destruct nb as [|nb']; [reflexivity|].
  set (nb := S nb').
  unfold assert_equal, append_gate, append_custom_gate. cbn [rows].
  rewrite append_custom_gates_rows, append_witnesses_rows.
  unfold range_rows. rewrite map_map, <- app_assoc. reflexivity.
Qed.

Lemma range_check_even_wits w nb s :
  exists ws, wits (range_check_even w nb s) = wits s ++ ws /\ length ws = range_count nb.
Proof.
  unfold range_check_even. destruct nb as [|nb'].
  - exists []. split; [cbn; now rewrite app_nil_r|reflexivity].
  - eexists. unfold assert_equal, append_gate, append_custom_gate. cbn [wits].
    rewrite append_custom_gates_wits, append_witnesses_wits. split; [reflexivity|].
    now rewrite map_length, seq_length.
Qed.

Lemma range_even_blk_closed w nb base : closed_block (range_even_blk w nb base).
Proof.
  unfold range_even_blk. destruct nb.
  - cbn. apply arith_gate_no_next.
  - apply closed_block_last. apply arith_gate_no_next.
Qed.

(* ---- arithmetic of the layout ---- *)
Lemma range_count_le nb : range_count nb <= 4 * range_num_gates nb.
Proof.
  unfold range_count, range_num_gates.
  pose proof (Nat.div_mod nb 2 ltac:(lia)). pose proof (Nat.mod_upper_bound nb 2 ltac:(lia)).
  pose proof (Nat.div_mod (nb + 7) 8 ltac:(lia)). pose proof (Nat.mod_upper_bound (nb + 7) 8 ltac:(lia)).
  lia.
Qed.

Lemma range_pad_pos nb : 1 <= range_pad nb.
Proof. unfold range_pad. pose proof (range_count_le nb). lia. Qed.

Lemma range_layout nb : Nat.even nb = true -> 0 < nb ->
  let ng := range_num_gates nb in
  range_pad nb + (range_count nb - 1) = 4 * ng /\ 1 <= range_count nb /\ range_count nb <= 4 * ng.
Proof.
  intros He Hp. cbv zeta. pose proof (range_count_le nb) as Hle.
  unfold range_pad. unfold range_count in *.
  apply Nat.even_spec in He. destruct He as [m ->].
  replace (2 * m / 2) with m in * by (symmetry; rewrite Nat.mul_comm; apply Nat.div_mul; lia).
  lia.
Qed.

(* both entry points: equal gates for equal widths; P > 128 clamps to 256 *)
Theorem range_entry_points_equal P w s :
  (P <= 128)%nat -> component_range P w s = component_range_bits (2 * P) w s.
Proof.
  intros H. unfold component_range, component_range_bits, range_check.
  replace (Nat.even (2 * P)) with true by (symmetry; apply Nat.even_spec; exists P; lia).
  f_equal. lia.
Qed.

Theorem range_entry_point_clamp P w s :
  (128 <= P)%nat -> component_range P w s = component_range_bits 256 w s.
Proof.
  intros H. unfold component_range, component_range_bits, range_check.
  change (Nat.even 256) with true. cbv iota. f_equal. lia.
Qed.

Section WithPrime.
Context {PR : PrimeR}.
Local Open Scope fr_scope.

Lemma one_mul_zero x : 1 * x = 0 -> x = 0.
Proof. intros H. rewrite <- H. ring. Qed.

(* a selected range row gives the four quad constraints *)
Lemma range_row_ok f k asg n :
  row_ok (gate_of (range_row true f k)) (wires_of asg (gate_of (range_row true f k))) n 0 ->
  delta (asg (f (4 * k + 1)%nat) - f4 * asg (f (4 * k)%nat)) = 0 /\
  delta (asg (f (4 * k + 2)%nat) - f4 * asg (f (4 * k + 1)%nat)) = 0 /\
  delta (asg (f (4 * k + 3)%nat) - f4 * asg (f (4 * k + 2)%nat)) = 0 /\
  delta (vd n - f4 * asg (f (4 * k + 3)%nat)) = 0.
Proof.
  intros (_ & (H1 & H2 & H3 & H4) & _).
  unfold range_c1, range_c2, range_c3, range_c4 in *. cbn in H1, H2, H3, H4.
  repeat split; apply one_mul_zero; assumption.
Qed.


Lemma range_rows_length nb base : length (range_rows nb base) = S (range_num_gates nb).
Proof. unfold range_rows. now rewrite map_length, seq_length. Qed.

Lemma range_rows_nth nb base k : (k <= range_num_gates nb)%nat ->
  nth_error (range_rows nb base) k =
  Some (crow (range_row (k <? range_num_gates nb)%nat
          (range_slot base (range_pad nb) (4 * range_num_gates nb)) k)).
Proof. intros H. unfold range_rows. rewrite nth_error_map_seq by lia. reflexivity. Qed.

Lemma range_row_wd sel f k : w_d (gate_of (range_row sel f k)) = f (4 * k)%nat.
Proof. destruct sel; reflexivity. Qed.

(* consecutive slots of the flattened D,C,B,A chain differ by one base-4 digit *)
Lemma range_chain w nb base asg i :
  (0 < nb)%nat ->
  block_sat (range_even_blk w nb base) asg ->
  (i < 4 * range_num_gates nb)%nat ->
  let f := range_slot base (range_pad nb) (4 * range_num_gates nb) in
  delta (asg (f (S i)) - f4 * asg (f i)) = 0.
Proof.
  intros Hp Hsat Hi f.
  unfold range_even_blk in Hsat. destruct nb as [|nb']; [lia|]. set (nb := S nb') in *.
  set (ng := range_num_gates nb) in *.
  pose proof (Nat.div_mod i 4 ltac:(lia)) as Hdm.
  pose proof (Nat.mod_upper_bound i 4 ltac:(lia)) as Hm.
  set (k := (i / 4)%nat) in *. set (j := (i mod 4)%nat) in *.
  assert (Hk : (k < ng)%nat) by lia.
  assert (Hrow := Hsat k). rewrite app_length, range_rows_length in Hrow.
  specialize (Hrow ltac:(fold ng; lia)).
  unfold block_row_ok in Hrow.
  rewrite nth_error_app1 in Hrow by (rewrite range_rows_length; fold ng; lia).
  rewrite range_rows_nth in Hrow by (fold ng; lia). fold ng in Hrow.
  replace (k <? ng)%nat with true in Hrow by (symmetry; apply Nat.ltb_lt; exact Hk).
  unfold crow in Hrow. cbn [pi_val pi_opt] in Hrow.
  replace (pi_val (pi_opt (range_row true (range_slot base (range_pad nb) (4 * ng)) k))) with fzero in Hrow by reflexivity.
  apply range_row_ok in Hrow. destruct Hrow as (H1 & H2 & H3 & H4).
  fold f in H1, H2, H3, H4.
  assert (Hd' : vd (blk_wires (range_rows nb base ++ [arith_row (c_assert_equal (base + (range_count nb - 1)) w)]) asg (S k))
               = asg (f (4 * S k)%nat)).
  { unfold blk_wires. rewrite nth_error_app1 by (rewrite range_rows_length; fold ng; lia).
    rewrite range_rows_nth by (fold ng; lia). unfold crow. unfold wires_of. cbn [vd].
    rewrite range_row_wd. reflexivity. }
  rewrite Hd' in H4.
  assert (Hj : (j = 0 \/ j = 1 \/ j = 2 \/ j = 3)%nat) by lia.
  destruct Hj as [Hj|[Hj|[Hj|Hj]]]; rewrite Hj in Hdm.
  - replace (S i) with (4 * k + 1)%nat by lia. replace i with (4 * k)%nat by lia. exact H1.
  - replace (S i) with (4 * k + 2)%nat by lia. replace i with (4 * k + 1)%nat by lia. exact H2.
  - replace (S i) with (4 * k + 3)%nat by lia. replace i with (4 * k + 2)%nat by lia. exact H3.
  - replace (S i) with (4 * S k)%nat by lia. replace i with (4 * k + 3)%nat by lia. exact H4.
Qed.


Lemma range_rows_closed nb base : closed_block (range_rows nb base).
Proof.
  unfold range_rows, closed_block. rewrite <- map_rev.
  rewrite seq_S, rev_app_distr. cbn [rev app map].
  replace (0 + range_num_gates nb <? range_num_gates nb)%nat with false
    by (symmetry; apply Nat.ltb_ge; lia).
  repeat split.
Qed.

Lemma pow4_254 j : (j <= 127)%nat -> (4 ^ Z.of_nat j <= 2 ^ 254)%Z.
Proof.
  intros H. replace 4%Z with (2 ^ 2)%Z by reflexivity. rewrite <- Z.pow_mul_r by lia.
  apply Z.pow_le_mono_r; lia.
Qed.

(* every accumulator is bounded by the number of quads consumed so far *)
Lemma range_prefix_bound w nb base asg :
  Nat.even nb = true -> (0 < nb)%nat -> (nb <= 254)%nat -> asg W_ZERO = 0 ->
  block_sat (range_even_blk w nb base) asg ->
  let f := range_slot base (range_pad nb) (4 * range_num_gates nb) in
  forall j, (j <= range_count nb)%nat ->
    (val (asg (f (range_pad nb - 1 + j)%nat)) < 4 ^ Z.of_nat j)%Z.
Proof.
  intros He Hp Hle Hz Hsat f.
  destruct (range_layout nb He Hp) as (Hlay & Hc1 & Hc2).
  pose proof (range_pad_pos nb) as Hpad.
  assert (Hcount : (range_count nb <= 127)%nat).
  { unfold range_count. apply Nat.div_le_upper_bound; lia. }
  induction j as [|j IH]; intros Hj.
  - replace (range_pad nb - 1 + 0)%nat with (range_pad nb - 1)%nat by lia.
    unfold f, range_slot.
    replace (range_pad nb <=? range_pad nb - 1)%nat with false by (symmetry; apply Nat.leb_gt; lia).
    cbn [andb]. rewrite Hz, val_zero. cbn [Z.of_nat]. rewrite Z.pow_0_r. lia.
  - specialize (IH ltac:(lia)).
    pose proof (range_chain w nb base asg (range_pad nb - 1 + j) Hp Hsat ltac:(lia)) as Hch.
    cbv zeta in Hch. fold f in Hch.
    replace (S (range_pad nb - 1 + j)) with (range_pad nb - 1 + S j)%nat in Hch by lia.
    destruct (quad_step _ _ (4 ^ Z.of_nat j) Hch IH) as [Hb _].
    { rewrite <- Z.pow_succ_r by lia. rewrite <- Nat2Z.inj_succ. apply pow4_254. lia. }
    rewrite Nat2Z.inj_succ, Z.pow_succ_r by lia. exact Hb.
Qed.

(* C09, even widths: soundness for every assignment of the accumulators *)
Theorem range_even_sound w nb base asg :
  Nat.even nb = true -> (nb <= 254)%nat -> asg W_ZERO = 0 ->
  block_sat (range_even_blk w nb base) asg ->
  (val (asg w) < 2 ^ Z.of_nat nb)%Z.
Proof.
  intros He Hle Hz Hsat.
  destruct nb as [|nb'].
  - (* width 0: one row forcing the wire to zero *)
    unfold range_even_blk in Hsat.
    apply (block_sat_arith asg [set_a w (set_left 1 c_new)]) in Hsat.
    rewrite Forall_cons_iff in Hsat. destruct Hsat as [H _].
    unfold arith_rel in H. cbn in H.
    assert (E : asg w = 0) by (rewrite <- H; ring). rewrite E, val_zero. cbn [Z.of_nat]. rewrite Z.pow_0_r. lia.
  - set (nb := S nb') in *. assert (Hp : (0 < nb)%nat) by lia.
    destruct (range_layout nb He Hp) as (Hlay & Hc1 & Hc2).
    pose proof (range_prefix_bound w nb base asg He Hp Hle Hz Hsat (range_count nb) ltac:(lia)) as Hb.
    cbv zeta in Hb.
    replace (range_pad nb - 1 + range_count nb)%nat with (4 * range_num_gates nb)%nat in Hb
      by (pose proof (range_pad_pos nb); lia).
    unfold range_slot in Hb.
    replace (range_pad nb <=? 4 * range_num_gates nb)%nat with true in Hb
      by (symmetry; apply Nat.leb_le; lia).
    rewrite Nat.leb_refl in Hb. cbn [andb] in Hb.
    replace (4 * range_num_gates nb - range_pad nb)%nat with (range_count nb - 1)%nat in Hb by lia.
    (* the closing assert_equal *)
    unfold range_even_blk in Hsat. fold nb in Hsat.
    change (match nb with O => _ | S _ => ?x end) with x in Hsat.
    assert (Haeq : asg (base + (range_count nb - 1))%nat = asg w).
    { unfold nb in Hsat. apply block_sat_app in Hsat; [|apply range_rows_closed].
      destruct Hsat as [_ H].
      apply (block_sat_arith asg [c_assert_equal (base + (range_count (S nb') - 1)) w]) in H.
      rewrite Forall_cons_iff in H. destruct H as [H _]. apply assert_equal_iff in H. exact H. }
    rewrite <- Haeq.
    replace (2 ^ Z.of_nat nb)%Z with (4 ^ Z.of_nat (range_count nb))%Z; [exact Hb|].
    replace 4%Z with (2 ^ 2)%Z by reflexivity. rewrite <- Z.pow_mul_r by lia. f_equal.
    unfold range_count. apply Nat.even_spec in He. destruct He as [m Hm]. rewrite Hm.
    replace (2 * m / 2)%nat with m by (symmetry; rewrite Nat.mul_comm; apply Nat.div_mul; lia). lia.
Qed.


(* ---------------- any width: range_check ---------------- *)
Lemma range_check_even_len w nb s :
  length (wits (range_check_even w nb s)) = (length (wits s) + range_count nb)%nat.
Proof.
  destruct (range_check_even_wits w nb s) as (ws & E & L). rewrite E, app_length. lia.
Qed.

Definition c_recompose (lower top_bit top : nat) : constraint :=
  set_b top_bit (set_a lower (set_right (pow2 top) (set_left 1 c_new))).

Definition range_blk (w nb base : nat) : list (gate * option Fr) :=
  if Nat.even nb then range_even_blk w nb base
  else
    let top := (nb - 1)%nat in
    let top_bit := (S base + range_count top)%nat in
    range_even_blk base top (S base) ++
    map arith_row [ c_boolean top_bit;
                    set_c (S top_bit) (set_output fm1 (c_recompose base top_bit top));
                    c_assert_equal (S top_bit) w ].

Lemma range_check_rows w nb s :
  rows (range_check w nb s) = rows s ++ range_blk w nb (length (wits s)).
Proof.
  unfold range_check, range_blk. destruct (Nat.even nb).
  - apply range_check_even_rows.
  - unfold append_witness. cbn [fst snd].
    set (s1 := mkCS (rows s) (wits s ++ [recompose (val (wval s w)) 0 (nb - 1)])).
    set (s2 := range_check_even (length (wits s)) (nb - 1) s1).
    assert (L2 : length (wits s2) = (S (length (wits s)) + range_count (nb - 1))%nat).
    { unfold s2. rewrite range_check_even_len. unfold s1. cbn [wits]. rewrite app_length. cbn. lia. }
    assert (R2 : rows s2 = rows s ++ range_even_blk (length (wits s)) (nb - 1) (S (length (wits s)))).
    { unfold s2. rewrite range_check_even_rows. unfold s1. cbn [rows wits].
      rewrite app_length. cbn [length]. replace (length (wits s) + 1)%nat with (S (length (wits s))) by lia.
      reflexivity. }
    set (s3 := mkCS (rows s2) (wits s2 ++ [of_Z (zbit (val (wval s w)) (nb - 1))])).
    unfold component_boolean, append_gate, append_custom_gate. cbn [rows wits].
    rewrite gate_add_spec. cbn [fst snd rows wits].
    unfold assert_equal, append_gate, append_custom_gate. cbn [rows wits].
    subst s3. cbn [rows wits]. rewrite !app_length. cbn [length].
    rewrite L2, R2. rewrite <- !app_assoc. cbn [map app].
    replace (S (length (wits s)) + range_count (nb - 1) + 1)%nat
      with (S (S (length (wits s)) + range_count (nb - 1)))%nat by lia.
    unfold arith_row, c_boolean, c_assert_equal, c_recompose, pi_opt.
    reflexivity.
Qed.

Lemma range_blk_closed w nb base : closed_block (range_blk w nb base).
Proof.
  unfold range_blk. destruct (Nat.even nb); [apply range_even_blk_closed|].
  apply closed_block_app; [discriminate|]. apply closed_arith_block.
Qed.

Lemma val_pow2 k : (k <= 254)%nat -> val (pow2 k) = (2 ^ Z.of_nat k)%Z.
Proof.
  intros H. unfold pow2. apply val_of_Z_small. split; [apply Z.pow_nonneg; lia|].
  eapply Z.le_lt_trans; [apply Z.pow_le_mono_r with (c := 254%Z); lia|apply r_bound_lo].
Qed.

(* C09: soundness of the range check for every width up to 254 *)
Theorem range_sound w nb base asg :
  (nb <= 254)%nat -> asg W_ZERO = 0 ->
  block_sat (range_blk w nb base) asg ->
  (val (asg w) < 2 ^ Z.of_nat nb)%Z.
Proof.
  intros Hle Hz Hsat. unfold range_blk in Hsat.
  destruct (Nat.even nb) eqn:He; [now apply (range_even_sound w nb base)|].
  assert (Hodd : Nat.odd nb = true) by (rewrite <- Nat.negb_even, He; reflexivity).
  apply Nat.odd_spec in Hodd. destruct Hodd as [m Hm].
  set (top := (nb - 1)%nat) in *.
  assert (Htop : Nat.even top = true) by (apply Nat.even_spec; exists m; lia).
  apply block_sat_app in Hsat; [|apply range_even_blk_closed].
  destruct Hsat as [Hlow Hrest].
  apply (range_even_sound base top (S base) asg Htop ltac:(lia) Hz) in Hlow.
  apply block_sat_arith in Hrest. rewrite !Forall_cons_iff in Hrest.
  destruct Hrest as (Hb & Hrec & Heq & _).
  apply component_boolean_iff in Hb.
  apply gate_add_rel in Hrec; [|intros _; reflexivity].
  apply assert_equal_iff in Heq. rewrite <- Heq, Hrec.
  unfold ext_value, c_recompose. cbn [c_m c_l c_r c_f c_c c_pi c_wa c_wb c_wd set_b set_a set_right set_left c_new].
  set (tb := (S base + range_count top)%nat) in *.
  assert (E : 0 * asg base * asg tb + 1 * asg base + pow2 top * asg tb + 0 * asg W_ZERO + 0 + 0
              = asg base + pow2 top * asg tb) by ring.
  rewrite E. clear E.
  pose proof (val_range (asg base)) as Rb. pose proof r_bound_lo as Rlo.
  assert (P : (2 ^ Z.of_nat nb = 2 * 2 ^ Z.of_nat top)%Z).
  { replace (Z.of_nat nb) with (Z.succ (Z.of_nat top)) by lia. rewrite Z.pow_succ_r by lia. reflexivity. }
  assert (Q : (2 * 2 ^ Z.of_nat top <= 2 ^ 254)%Z).
  { rewrite <- P. apply Z.pow_le_mono_r; lia. }
  destruct Hb as [Hb|Hb]; rewrite Hb.
  - replace (asg base + pow2 top * 0) with (asg base) by ring. lia.
  - replace (asg base + pow2 top * 1) with (F (val (asg base) + 2 ^ Z.of_nat top)).
    + rewrite val_F_small by lia. lia.
    + rewrite F_add, F_val. unfold pow2, F. ring.
Qed.

End WithPrime.

Theorem range_gate_count w nb base : Nat.even nb = true -> (0 < nb)%nat ->
  length (range_even_blk w nb base) = (range_num_gates nb + 2)%nat.
Proof.
  intros _ H. unfold range_even_blk. destruct nb; [lia|].
  rewrite app_length, range_rows_length. cbn [length]. lia.
Qed.

