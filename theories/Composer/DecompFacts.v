(* C11 (second half): component_decomposition. *)
From Coq Require Import ZArith List Bool Arith Lia Ring Field.
From PlonkV Require Import Base.Fr Base.FrFacts Gates.Gate Gates.GateFacts Gates.CS Gates.CSFacts
  Gates.BlockFacts Composer.State Composer.Components Composer.ArithFacts Composer.BasicFacts.
Import ListNotations.
Local Open Scope nat_scope.

(* little-endian binary sum *)
Fixpoint bsum (bs : list Z) : Z :=
  match bs with [] => 0%Z | b :: tl => (b + 2 * bsum tl)%Z end.

Definition is_bit (b : Z) : Prop := b = 0%Z \/ b = 1%Z.

Lemma bsum_bound bs : Forall is_bit bs -> (0 <= bsum bs < 2 ^ Z.of_nat (length bs))%Z.
Proof.
  induction 1 as [|b tl Hb _ IH]; cbn [bsum length].
  - cbn. lia.
  - rewrite Nat2Z.inj_succ, Z.pow_succ_r by lia. destruct Hb; subst; lia.
Qed.

Lemma bsum_bit bs : Forall is_bit bs -> forall j, (j < length bs)%nat ->
  zbit (bsum bs) j = nth j bs 0%Z.
Proof.
  unfold zbit. induction 1 as [|b tl Hb Htl IH]; intros j Hj; cbn [length] in Hj; [lia|].
  cbn [bsum nth]. destruct j as [|j].
  - cbn [Z.of_nat]. rewrite Z.pow_0_r, Z.div_1_r.
    destruct Hb; subst; (Z.div_mod_to_equations; lia).
  - rewrite Nat2Z.inj_succ, Z.pow_succ_r by lia.
    rewrite <- Z.div_div by (try apply Z.pow_pos_nonneg; lia).
    replace ((b + 2 * bsum tl) / 2)%Z with (bsum tl).
    + apply IH. lia.
    + destruct Hb; subst; (Z.div_mod_to_equations; lia).
Qed.

(* the rows of the loop: iteration [i] allocates bit [base] and accumulator [S base] *)
Fixpoint decomp_loop_rows (i k acc base : nat) : list constraint :=
  match k with
  | O => []
  | S k' =>
      c_boolean base ::
      set_c (S base) (set_output fm1 (set_b acc (set_a base (set_right fone (set_left (pow2 i) c_new))))) ::
      decomp_loop_rows (S i) k' (S base) (S (S base))
  end.

Definition decomp_final_acc (k acc base : nat) : nat :=
  match k with O => acc | S _ => base + 2 * k - 1 end.

Definition decomp_rows (N scalar base : nat) : list constraint :=
  decomp_loop_rows 0 N W_ZERO base ++ [c_assert_equal (decomp_final_acc N W_ZERO base) scalar].

Definition decomp_bit_wires (N base : nat) : list nat := map (fun j => base + 2 * j) (seq 0 N).

Lemma decomposition_loop_spec v : forall k i acc s,
  let '(bits, accf, s') := decomposition_loop v i k acc s in
  rows s' = rows s ++ map arith_row (decomp_loop_rows i k acc (length (wits s)))
  /\ length (wits s') = length (wits s) + 2 * k
  /\ accf = decomp_final_acc k acc (length (wits s))
  /\ bits = decomp_bit_wires k (length (wits s)).
Proof.
  induction k as [|k IH]; intros i acc s; cbn [decomposition_loop].
  - cbn. rewrite app_nil_r. repeat split; lia.
  - unfold append_witness. cbn [fst snd].
    unfold component_boolean, append_gate, append_custom_gate. cbn [rows wits].
    rewrite gate_add_spec. cbn [fst snd rows wits]. rewrite !app_length. cbn [length].
    match goal with |- context [decomposition_loop v (S i) k ?a ?st] =>
      specialize (IH (S i) a st); destruct (decomposition_loop v (S i) k a st) as [[rest accf] s'] end.
    cbn [rows wits] in IH. rewrite !app_length in IH. cbn [length] in IH.
    destruct IH as (R & L & A & B).
    replace (length (wits s) + 1 + 1) with (S (S (length (wits s)))) in * by lia.
    replace (length (wits s) + 1) with (S (length (wits s))) in * by lia.
    repeat split.
    + rewrite R. cbn [decomp_loop_rows map]. rewrite <- !app_assoc. cbn [app].
      unfold arith_row at 1 2. unfold c_boolean, pi_opt. reflexivity.
    + lia.
    + rewrite A. unfold decomp_final_acc. destruct k; lia.
    + rewrite B. unfold decomp_bit_wires. cbn [seq map]. f_equal; [lia|].
      rewrite <- seq_shift, map_map. apply map_ext. intros; lia.
Qed.

Theorem component_decomposition_rows N scalar s :
  rows (snd (component_decomposition N scalar s)) =
    rows s ++ map arith_row (decomp_rows N scalar (length (wits s)))
  /\ fst (component_decomposition N scalar s) = decomp_bit_wires N (length (wits s)).
Proof.
  unfold component_decomposition.
  pose proof (decomposition_loop_spec (val (wval s scalar)) N 0 W_ZERO s) as H.
  destruct (decomposition_loop (val (wval s scalar)) 0 N W_ZERO s) as [[bits acc] s'].
  destruct H as (R & L & A & B). cbn [fst snd]. split; [|exact B].
  unfold assert_equal, append_gate, append_custom_gate. cbn [rows].
  rewrite R, A. unfold decomp_rows. rewrite map_app, <- app_assoc. reflexivity.
Qed.

Section WithPrime.
Context {PR : PrimeR}.
Local Open Scope fr_scope.

Lemma pow2_S i : pow2 (S i) = pow2 i * F 2.
Proof. unfold pow2. rewrite Nat2Z.inj_succ, Z.pow_succ_r, Z.mul_comm by lia. apply of_Z_mul. Qed.

Lemma bit_val_of b : b = 0 \/ b = 1 -> is_bit (val b) /\ b = F (val b).
Proof. intros [H|H]; subst; split; try (left; reflexivity); try (right; reflexivity); reflexivity. Qed.

(* loop invariant: the final accumulator is the initial one plus 2^i times the
   binary sum of the bit wires, each of which is boolean *)
Lemma decomp_loop_sound asg : forall k i acc base,
  Forall (arith_rel asg) (decomp_loop_rows i k acc base) ->
  Forall is_bit (map (fun w => val (asg w)) (decomp_bit_wires k base))
  /\ asg (decomp_final_acc k acc base) =
       asg acc + pow2 i * F (bsum (map (fun w => val (asg w)) (decomp_bit_wires k base))).
Proof.
  induction k as [|k IH]; intros i acc base H.
  - cbn. split; [constructor|]. unfold F. change (of_Z 0) with fzero. ring.
  - cbn [decomp_loop_rows] in H. rewrite !Forall_cons_iff in H. destruct H as (Hb & Hacc & Hrest).
    apply component_boolean_iff in Hb. apply bit_val_of in Hb. destruct Hb as [Hbit Hbv].
    apply gate_add_rel in Hacc; [|intros _; reflexivity].
    unfold ext_value in Hacc. cbn [c_m c_l c_r c_f c_c c_pi c_wa c_wb c_wd set_b set_a set_right set_left c_new] in Hacc.
    specialize (IH (S i) (S base) (S (S base)) Hrest). destruct IH as [IHb IHa].
    assert (Ew : decomp_bit_wires (S k) base = base :: decomp_bit_wires k (S (S base))).
    { unfold decomp_bit_wires. cbn [seq map]. f_equal; [lia|].
      rewrite <- seq_shift, map_map. apply map_ext. intros; lia. }
    rewrite Ew. cbn [map bsum]. split; [constructor; assumption|].
    assert (Ef : decomp_final_acc (S k) acc base = decomp_final_acc k (S base) (S (S base))).
    { unfold decomp_final_acc. destruct k; lia. }
    rewrite Ef, IHa, Hacc, pow2_S.
    rewrite F_add, F_mul. rewrite <- Hbv. ring.
Qed.

(* C11: decomposition is sound and the bits are the canonical ones, N <= 254 *)
Theorem decomposition_sound asg N scalar base :
  (N <= 254)%nat -> asg W_ZERO = 0 ->
  Forall (arith_rel asg) (decomp_rows N scalar base) ->
  (val (asg scalar) < 2 ^ Z.of_nat N)%Z /\
  forall j, (j < N)%nat -> val (asg (base + 2 * j)%nat) = zbit (val (asg scalar)) j.
Proof.
  intros HN Hz H. unfold decomp_rows in H. apply Forall_app in H. destruct H as [Hloop Heq].
  rewrite Forall_cons_iff in Heq. destruct Heq as [Heq _]. apply assert_equal_iff in Heq.
  destruct (decomp_loop_sound asg N 0 W_ZERO base Hloop) as [Hbits Hacc].
  set (bs := map (fun w => val (asg w)) (decomp_bit_wires N base)) in *.
  assert (Lbs : length bs = N) by (unfold bs, decomp_bit_wires; now rewrite !map_length, seq_length).
  pose proof (bsum_bound bs Hbits) as Hb. rewrite Lbs in Hb.
  assert (E : asg scalar = F (bsum bs)).
  { rewrite <- Heq, Hacc, Hz. unfold pow2. cbn [Z.of_nat]. rewrite Z.pow_0_r.
    change (of_Z 1) with fone. ring. }
  assert (Hv : val (asg scalar) = bsum bs).
  { rewrite E. apply val_F_small. pose proof r_bound_lo.
    assert (2 ^ Z.of_nat N <= 2 ^ 254)%Z by (apply Z.pow_le_mono_r; lia). lia. }
  split; [lia|]. intros j Hj. rewrite Hv, bsum_bit by (assumption || lia).
  unfold bs, decomp_bit_wires. rewrite map_map. symmetry.
  apply nth_error_nth. rewrite nth_error_map_seq by lia. reflexivity.
Qed.


(* ---- completeness, for ANY integer z < 2^N whose residue is the scalar ---- *)
Lemma zbit_is_bit z i : is_bit (zbit z i).
Proof. unfold zbit, is_bit. pose proof (Z.mod_pos_bound (z / 2 ^ Z.of_nat i) 2 ltac:(lia)). lia. Qed.

Lemma decomp_loop_complete asg z : forall k i acc base,
  (forall j, (j < k)%nat -> asg (base + 2 * j)%nat = F (zbit z (i + j))) ->
  (forall j, (j < k)%nat -> asg (base + 2 * j + 1)%nat = F (z mod 2 ^ Z.of_nat (i + j + 1))) ->
  asg acc = F (z mod 2 ^ Z.of_nat i) ->
  Forall (arith_rel asg) (decomp_loop_rows i k acc base).
Proof.
  induction k as [|k IH]; intros i acc base Hb Ha Hacc; cbn [decomp_loop_rows]; [constructor|].
  pose proof (Hb 0%nat ltac:(lia)) as Hb0. pose proof (Ha 0%nat ltac:(lia)) as Ha0.
  replace (base + 2 * 0)%nat with base in * by lia.
  replace (base + 1)%nat with (S base) in * by lia.
  replace (i + 0)%nat with i in * by lia.
  constructor; [|constructor].
  - apply component_boolean_iff. rewrite Hb0. destruct (zbit_is_bit z i) as [E|E]; rewrite E; [left|right]; reflexivity.
  - apply gate_add_rel; [intros _; reflexivity|].
    unfold ext_value. cbn [c_m c_l c_r c_f c_c c_pi c_wa c_wb c_wd set_b set_a set_right set_left c_new].
    rewrite Ha0, Hb0, Hacc. unfold pow2.
    replace (z mod 2 ^ Z.of_nat (i + 1))%Z
      with (2 ^ Z.of_nat i * zbit z i + z mod 2 ^ Z.of_nat i)%Z.
    + rewrite F_add, F_mul. unfold F. ring.
    + unfold zbit. replace (Z.of_nat (i + 1)) with (Z.succ (Z.of_nat i)) by lia.
      rewrite Z.pow_succ_r, (Z.mul_comm 2) by lia.
      assert (0 < 2 ^ Z.of_nat i)%Z by (apply Z.pow_pos_nonneg; lia).
      rewrite Z.rem_mul_r by lia. lia.
  - apply IH.
    + intros j Hj. specialize (Hb (S j) ltac:(lia)).
      replace (S (S base) + 2 * j)%nat with (base + 2 * S j)%nat by lia.
      replace (S i + j)%nat with (i + S j)%nat by lia. exact Hb.
    + intros j Hj. specialize (Ha (S j) ltac:(lia)).
      replace (S (S base) + 2 * j + 1)%nat with (base + 2 * S j + 1)%nat by lia.
      replace (S i + j + 1)%nat with (i + S j + 1)%nat by lia. exact Ha.
    + rewrite Ha0. f_equal. f_equal. f_equal. lia.
Qed.

(* Any assignment carrying the binary digits and partial sums of an integer
   z < 2^N with scalar = z (mod r) satisfies the gadget.  For z < r this is
   completeness; for N in {255, 256} it also admits z = v + r (see Props/C11). *)
Theorem decomposition_complete_any asg z N scalar base :
  (1 <= N)%nat -> (0 <= z < 2 ^ Z.of_nat N)%Z -> asg W_ZERO = 0 ->
  (forall j, (j < N)%nat -> asg (base + 2 * j)%nat = F (zbit z j)) ->
  (forall j, (j < N)%nat -> asg (base + 2 * j + 1)%nat = F (z mod 2 ^ Z.of_nat (j + 1))) ->
  asg scalar = F z ->
  Forall (arith_rel asg) (decomp_rows N scalar base).
Proof.
  intros HN Hz H0 Hb Ha Hs. unfold decomp_rows. apply Forall_app. split.
  - apply (decomp_loop_complete asg z); [exact Hb|exact Ha|].
    rewrite H0. cbn [Z.of_nat]. rewrite Z.pow_0_r, Z.mod_1_r. reflexivity.
  - constructor; [|constructor]. apply assert_equal_iff.
    unfold decomp_final_acc. destruct N as [|N']; [lia|].
    replace (base + 2 * S N' - 1)%nat with (base + 2 * N' + 1)%nat by lia.
    rewrite (Ha N' ltac:(lia)), Hs. f_equal.
    replace (N' + 1)%nat with (S N') by lia. apply Z.mod_small. exact Hz.
Qed.


(* the assignment built from the digits of an integer z *)
Definition digits_asg (z : Z) (scalar base : nat) : assignment := fun w =>
  if Nat.eqb w 0 then 0
  else if Nat.eqb w scalar then F z
  else if Nat.ltb w base then 0
  else let k := (w - base)%nat in
       if Nat.even k then F (zbit z (k / 2)) else F (z mod 2 ^ Z.of_nat (k / 2 + 1)).

Lemma digits_asg_sat z N scalar base :
  (1 <= N)%nat -> (0 <= z < 2 ^ Z.of_nat N)%Z -> (0 < scalar < base)%nat ->
  Forall (arith_rel (digits_asg z scalar base)) (decomp_rows N scalar base).
Proof.
  intros HN Hz Hs. apply (decomposition_complete_any _ z); try assumption.
  - reflexivity.
  - intros j Hj. unfold digits_asg.
    replace (Nat.eqb (base + 2 * j) 0) with false by (symmetry; apply Nat.eqb_neq; lia).
    replace (Nat.eqb (base + 2 * j) scalar) with false by (symmetry; apply Nat.eqb_neq; lia).
    replace (Nat.ltb (base + 2 * j) base) with false by (symmetry; apply Nat.ltb_ge; lia).
    replace (base + 2 * j - base)%nat with (2 * j)%nat by lia.
    replace (Nat.even (2 * j)) with true by (symmetry; apply Nat.even_spec; exists j; lia).
    replace (2 * j / 2)%nat with j by (symmetry; rewrite Nat.mul_comm; apply Nat.div_mul; lia).
    reflexivity.
  - intros j Hj. unfold digits_asg.
    replace (Nat.eqb (base + 2 * j + 1) 0) with false by (symmetry; apply Nat.eqb_neq; lia).
    replace (Nat.eqb (base + 2 * j + 1) scalar) with false by (symmetry; apply Nat.eqb_neq; lia).
    replace (Nat.ltb (base + 2 * j + 1) base) with false by (symmetry; apply Nat.ltb_ge; lia).
    replace (base + 2 * j + 1 - base)%nat with (S (2 * j))%nat by lia.
    rewrite Nat.even_succ. replace (Nat.odd (2 * j)) with false
      by (symmetry; rewrite <- Nat.negb_even; replace (Nat.even (2 * j)) with true
            by (symmetry; apply Nat.even_spec; exists j; lia); reflexivity).
    replace (S (2 * j) / 2)%nat with j.
    + reflexivity.
    + apply Nat.div_unique with (r := 1%nat); lia.
  - unfold digits_asg.
    replace (Nat.eqb scalar 0) with false by (symmetry; apply Nat.eqb_neq; lia).
    rewrite Nat.eqb_refl. reflexivity.
Qed.

(* FINDING F4: for N = 256 the digits of 5 + r satisfy the gadget for the
   scalar 5, and they are not the canonical digits of 5. *)
Theorem decomposition_alias_256 :
  exists asg, asg W_ZERO = 0 /\
    Forall (arith_rel asg) (decomp_rows 256 6 7) /\
    val (asg 6%nat) = 5%Z /\ val (asg 7%nat) <> zbit (val (asg 6%nat)) 0.
Proof.
  exists (digits_asg (5 + r) 6 7).
  assert (Hr : (0 <= 5 + r < 2 ^ Z.of_nat 256)%Z).
  { pose proof r_pos. pose proof r_bound_hi. change (Z.of_nat 256) with 256%Z. lia. }
  split; [reflexivity|]. split; [apply digits_asg_sat; [lia|exact Hr|lia]|].
  assert (E6 : val (digits_asg (5 + r) 6 7 6%nat) = 5%Z) by (vm_compute; reflexivity).
  split; [exact E6|]. rewrite E6. vm_compute. discriminate.
Qed.

End WithPrime.
