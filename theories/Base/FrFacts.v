From Coq Require Import ZArith Lia Znumtheory Bool List Ring Field.
From PlonkV Require Import Base.Fr.
Local Open Scope Z_scope.

Global Opaque r.

Lemma r_nz : r <> 0. Proof. pose proof r_pos; lia. Qed.

Lemma val_zero : val fzero = 0. Proof. reflexivity. Qed.
Lemma val_one : val fone = 1. Proof. reflexivity. Qed.
Lemma val_add x y : val (fadd x y) = (val x + val y) mod r. Proof. reflexivity. Qed.
Lemma val_sub x y : val (fsub x y) = (val x - val y) mod r. Proof. reflexivity. Qed.
Lemma val_mul x y : val (fmul x y) = (val x * val y) mod r. Proof. reflexivity. Qed.
Lemma val_opp x : val (fopp x) = (- val x) mod r. Proof. reflexivity. Qed.

Lemma of_Z_eq a b : a mod r = b mod r -> of_Z a = of_Z b.
Proof. intros H. apply fr_eq. cbn [val of_Z]. exact H. Qed.

Lemma of_Z_add a b : of_Z (a + b) = fadd (of_Z a) (of_Z b).
Proof. apply of_Z_eq. cbn [val of_Z]. now rewrite <- Z.add_mod by apply r_nz. Qed.
Lemma of_Z_mul a b : of_Z (a * b) = fmul (of_Z a) (of_Z b).
Proof. apply of_Z_eq. cbn [val of_Z]. now rewrite <- Z.mul_mod by apply r_nz. Qed.
Lemma of_Z_sub a b : of_Z (a - b) = fsub (of_Z a) (of_Z b).
Proof. apply of_Z_eq. cbn [val of_Z]. now rewrite <- Zminus_mod. Qed.
Lemma of_Z_opp a : of_Z (- a) = fopp (of_Z a).
Proof.
  apply of_Z_eq. cbn [val of_Z].
  rewrite <- (Z.sub_0_l a), <- (Z.sub_0_l (a mod r)).
  rewrite Zminus_mod, (Zminus_mod 0 (a mod r)), Z.mod_mod by apply r_nz. reflexivity.
Qed.

Ltac fr_norm :=
  apply fr_eq; rewrite ?val_add, ?val_sub, ?val_mul, ?val_opp, ?val_zero, ?val_one.

Lemma fr_ring_theory :
  ring_theory fzero fone fadd fmul fsub fopp (@eq Fr).
Proof.
  constructor; intros.
  - apply fr_eq. rewrite val_add, val_zero. cbn. apply val_ok.
  - apply fr_eq. rewrite !val_add. f_equal. lia.
  - apply fr_eq. rewrite !val_add.
    rewrite Z.add_mod_idemp_r, Z.add_mod_idemp_l by apply r_nz. f_equal. lia.
  - apply fr_eq. rewrite val_mul, val_one, Z.mul_1_l. apply val_ok.
  - apply fr_eq. rewrite !val_mul. f_equal. lia.
  - apply fr_eq. rewrite !val_mul.
    rewrite Z.mul_mod_idemp_r, Z.mul_mod_idemp_l by apply r_nz. f_equal. lia.
  - apply fr_eq. rewrite val_mul, !val_add, val_mul, val_mul.
    rewrite Z.mul_mod_idemp_l by apply r_nz.
    rewrite <- Z.add_mod by apply r_nz. f_equal. lia.
  - apply fr_eq. rewrite val_sub, val_add, val_opp.
    rewrite Z.add_mod_idemp_r by apply r_nz. f_equal.
  - apply fr_eq. rewrite val_add, val_opp, val_zero.
    rewrite Z.add_mod_idemp_r by apply r_nz.
    replace (val x + - val x) with 0 by lia. reflexivity.
Qed.

Add Ring FrRing : fr_ring_theory.

(* ---- egcd ---- *)
Lemma egcd_bezout fuel : forall a b g u v,
  egcd fuel a b = Some (g, u, v) -> u * a + v * b = g.
Proof.
  induction fuel as [|f IH]; cbn [egcd]; intros a b g u v H; [discriminate|].
  destruct (Z.eqb_spec b 0) as [->|Hb].
  - inversion H; subst. lia.
  - destruct (egcd f b (a mod b)) as [[[g' u'] v']|] eqn:E; [|discriminate].
    inversion H; subst. apply IH in E.
    pose proof (Z.div_mod a b Hb). nia.
Qed.

Lemma egcd_divides fuel : forall a b g u v,
  egcd fuel a b = Some (g, u, v) -> (g | a) /\ (g | b).
Proof.
  induction fuel as [|f IH]; cbn [egcd]; intros a b g u v H; [discriminate|].
  destruct (Z.eqb_spec b 0) as [->|Hb].
  - inversion H; subst. split; [apply Z.divide_refl | apply Z.divide_0_r].
  - destruct (egcd f b (a mod b)) as [[[g' u'] v']|] eqn:E; [|discriminate].
    inversion H; subst. apply IH in E. destruct E as [Hgb Hgm]. split; [|exact Hgb].
    rewrite (Z.div_mod a b Hb).
    apply Z.divide_add_r; [apply Z.divide_mul_l; exact Hgb | exact Hgm].
Qed.

Lemma egcd_nonneg fuel : forall a b g u v,
  0 <= a -> 0 <= b -> egcd fuel a b = Some (g, u, v) -> 0 <= g.
Proof.
  induction fuel as [|f IH]; cbn [egcd]; intros a b g u v Ha Hb' H; [discriminate|].
  destruct (Z.eqb_spec b 0) as [->|Hb].
  - inversion H; subst. exact Ha.
  - destruct (egcd f b (a mod b)) as [[[g' u'] v']|] eqn:E; [|discriminate].
    inversion H; subst. eapply IH; [| |exact E]; [lia|].
    apply Z.mod_pos_bound. lia.
Qed.

Lemma egcd_fuel k : forall a b, 0 <= b < 2 ^ Z.of_nat k ->
  egcd (2 * k + 1) a b <> None.
Proof.
  induction k as [|k IH]; intros a b Hb.
  - cbn in Hb. assert (b = 0) by lia. subst. cbn. discriminate.
  - replace (2 * S k + 1)%nat with (S (S (2 * k + 1))) by lia.
    cbn [egcd].
    destruct (Z.eqb_spec b 0) as [->|Hb0]; [discriminate|].
    set (c := a mod b).
    assert (Hc : 0 <= c < b) by (apply Z.mod_pos_bound; lia).
    destruct (Z.eqb_spec c 0) as [Hc0|Hc0]; [discriminate|].
    assert (Hd : 0 <= b mod c < 2 ^ Z.of_nat k).
    { pose proof (Z.mod_pos_bound b c ltac:(lia)).
      pose proof (Z.div_mod b c Hc0).
      assert (1 <= b / c) by (apply Z.div_le_lower_bound; lia).
      rewrite Nat2Z.inj_succ, Z.pow_succ_r in Hb by lia. nia. }
    specialize (IH c (b mod c) Hd).
    destruct (egcd (2 * k + 1) c (b mod c)) as [[[g u] v]|]; [discriminate|congruence].
Qed.

Section WithPrime.
Context {PR : PrimeR}.

Lemma finv_spec x : x <> fzero -> fmul x (finv x) = fone.
Proof.
  intros Hx. unfold finv.
  pose proof (val_range x) as Hr.
  assert (Hv : val x <> 0).
  { intros E. apply Hx. apply fr_eq. rewrite E. reflexivity. }
  destruct (egcd (inv_fuel (val x)) r (val x)) as [[[g u] v]|] eqn:E.
  2:{ exfalso. unfold inv_fuel in E.
      apply (egcd_fuel (Z.to_nat (Z.log2 (val x)) + 1) r (val x)); [|exact E].
      split; [lia|]. rewrite Nat2Z.inj_add, Z2Nat.id by apply Z.log2_nonneg.
      change (Z.of_nat 1) with 1. apply Z.log2_spec. lia. }
  pose proof (egcd_bezout _ _ _ _ _ _ E) as Hbz.
  pose proof (egcd_divides _ _ _ _ _ _ E) as [Hgr Hgx].
  assert (Hg0 : 0 <= g).
  { apply (egcd_nonneg (inv_fuel (val x)) r (val x) g u v); [pose proof r_pos; lia|lia|exact E]. }
  assert (Hg : g = 1).
  { destruct (prime_divisors _ prime_r _ Hgr) as [H|[H|[H|H]]].
    - lia.
    - lia.
    - subst g. apply Z.divide_pos_le in Hgx; lia.
    - pose proof r_pos; lia. }
  subst g. apply fr_eq. rewrite val_mul, val_one. cbn [val of_Z].
  rewrite Z.mul_mod_idemp_r by apply r_nz.
  replace (val x * v) with (1 + (- u) * r) by lia.
  rewrite Z.mod_add by apply r_nz. apply Z.mod_small. pose proof r_gt_1. lia.
Qed.

Lemma fone_neq_fzero : fone <> fzero.
Proof. intros H. apply (f_equal val) in H. discriminate H. Qed.

Lemma fr_field_theory :
  field_theory fzero fone fadd fmul fsub fopp fdiv finv (@eq Fr).
Proof.
  constructor.
  - exact fr_ring_theory.
  - exact fone_neq_fzero.
  - reflexivity.
  - intros p Hp. rewrite (ARmul_comm (Rth_ARth (Eqsth _) (Eq_ext _ _ _) fr_ring_theory)).
    apply finv_spec; exact Hp.
Qed.

Lemma fmul_integral x y : fmul x y = fzero -> x = fzero \/ y = fzero.
Proof.
  intros H. destruct (fr_eq_dec x fzero) as [Hx|Hx]; [left; exact Hx|right].
  assert (E : fmul (finv x) (fmul x y) = y).
  { transitivity (fmul (fmul x (finv x)) y); [ring|]. rewrite finv_spec by exact Hx. ring. }
  rewrite H in E. rewrite <- E. ring.
Qed.

End WithPrime.

Lemma fr_from_zero e x y : e = fzero -> fsub x y = e -> x = y.
Proof.
  intros He H. rewrite He in H. transitivity (fadd (fsub x y) y); [ring|rewrite H; ring].
Qed.
Lemma fr_from_zero' e x y : e = fzero -> fsub y x = e -> x = y.
Proof. intros He H. symmetry. eapply fr_from_zero; eauto. Qed.

(* from here on the field operations are black boxes for conversion-based
   tactics; vm_compute still evaluates them *)
Global Opaque fadd fsub fmul fopp finv fdiv of_Z.
