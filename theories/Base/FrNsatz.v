(* nsatz instances for Fr (integral domain under PrimeR). *)
From Coq Require Import ZArith Ring Morphisms Setoid.
From Coq Require Import nsatz.NsatzTactic.
From PlonkV Require Import Base.Fr Base.FrFacts.
Local Open Scope fr_scope.

Global Instance Fr_ops : @Ring_ops Fr fzero fone fadd fmul fsub fopp (@eq Fr). Defined.

Section WithPrime.
Context {PR : PrimeR}.
Add Ring FrRingN : fr_ring_theory.

Global Instance Fr_ring : Ring (Ro := Fr_ops).
Proof.
  constructor.
  all: try (unfold respectful, Proper; unfold equality; unfold eq_notation in *;
            intros; subst; reflexivity).
  all: try exact eq_equivalence.
  all: intros; cbv [equality addition multiplication subtraction opposite zero one eq_notation add_notation mul_notation sub_notation opp_notation zero_notation one_notation Fr_ops]; ring.
Defined.

Global Instance Fr_cring : Cring (Rr := Fr_ring).
Proof. red. intros. cbv [equality addition multiplication subtraction opposite zero one eq_notation add_notation mul_notation sub_notation opp_notation zero_notation one_notation Fr_ops]. ring. Defined.

Global Instance Fr_domain : Integral_domain (Rcr := Fr_cring).
Proof. constructor. - exact fmul_integral. - exact fone_neq_fzero. Defined.
End WithPrime.
