From Coq Require Import ZArith Znumtheory List Lia.
From PlonkV Require Import Base.Fr.
From PlonkV Require Import Base.Primality.
Import ListNotations.
Local Open Scope Z_scope.

Definition r_minus_1_factors : list Z :=
  repeat 2 32 ++ [3; 11; 19; 10177; 125527; 859267; 906349; 906349; 2508409; 2529403; 52437899; 254760293; 254760293].

Global Instance prime_r_holds : PrimeR.
Proof.
  apply (lucas_sound r 7 r_minus_1_factors); [lia|].
  vm_compute. reflexivity.
Qed.
Print Assumptions prime_r_holds.
