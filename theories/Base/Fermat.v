(* Fermat's little theorem on Z, imported from MathComp's binomial.v (fermat_little on nat). *)
From Coq Require Import ZArith Znumtheory Lia.
From mathcomp Require Import all_ssreflect zify.

Lemma prime_bridge (p : nat) : Znumtheory.prime (Z.of_nat p) -> prime p.
Proof.
move=> Hp. apply/primeP; split.
- have := prime_ge_2 _ Hp. lia.
- move=> d /dvdnP [k Ek].
  have Hd : Z.divide (Z.of_nat d) (Z.of_nat p).
  { exists (Z.of_nat k). rewrite Ek. lia. }
  have := prime_divisors _ Hp _ Hd.
  have := prime_ge_2 _ Hp.
  case: (d =P 1%N) => [->|N1] //=; case: (d =P p) => [->|Np] //=; lia.
Qed.

Lemma of_nat_modn (m d : nat) : (0 < d)%N -> Z.of_nat (m %% d) = (Z.of_nat m mod Z.of_nat d)%Z.
Proof.
move=> Hd. have E := divn_eq m d. have L := ltn_pmod m Hd.
apply: (Z.mod_unique _ _ (Z.of_nat (m %/ d))).
- left. split; first by apply: Nat2Z.is_nonneg. apply/Nat2Z.inj_lt. by apply/ltP.
- rewrite {1}E Nat2Z.inj_add Nat2Z.inj_mul. ring.
Qed.

Lemma of_nat_expn (a n : nat) : Z.of_nat (a ^ n) = (Z.of_nat a ^ Z.of_nat n)%Z.
Proof.
elim: n => [|n IH]; first by rewrite expn0.
rewrite expnS Nat2Z.inj_mul IH Nat2Z.inj_succ Z.pow_succ_r //. lia.
Qed.

Lemma fermat_nat (a pn : nat) : prime pn ->
  ((Z.of_nat a ^ Z.of_nat pn) mod Z.of_nat pn = Z.of_nat a mod Z.of_nat pn)%Z.
Proof. move=> P. have F := fermat_little a P. have Hd := prime_gt0 P. by rewrite -of_nat_expn -!(of_nat_modn _ _ Hd) F. Qed.

Lemma fermat_Z (p : Z) : Znumtheory.prime p -> forall A : Z, (0 <= A)%Z -> ((A ^ p) mod p = A mod p)%Z.
Proof.
move=> Hp A HA.
have Hp2 := prime_ge_2 _ Hp.
have Ep : p = Z.of_nat (Z.to_nat p) by lia.
have EA : A = Z.of_nat (Z.to_nat A) by lia.
rewrite EA Ep. apply: fermat_nat. apply: prime_bridge. by rewrite -Ep.
Qed.
