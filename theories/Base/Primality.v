(* Lucas primality certificate over Z: the model's hypothesis PrimeR is a theorem.
   Uses Fermat's little theorem from Base/Fermat.v. *)
From Coq Require Import ZArith Znumtheory Zpow_facts List Lia.
From PlonkV Require Import Base.Fermat.
Import ListNotations.
Local Open Scope Z_scope.

(* ---- trial division ---- *)
Fixpoint trial (fuel : nat) (d n : Z) : bool :=
  match fuel with
  | O => false
  | S f => if n <? d * d then true
           else if n mod d =? 0 then false
           else trial f (d + 1) n
  end.

Lemma trial_sound fuel : forall d n, 1 < d -> 1 < n ->
  (forall k, 1 < k < d -> ~ (k | n)) ->
  trial fuel d n = true -> prime n.
Proof.
  induction fuel as [|f IH]; intros d n Hd Hn Hno T; [discriminate|].
  cbn [trial] in T. destruct (n <? d * d) eqn:E.
  - apply Z.ltb_lt in E. apply prime_alt. split; [exact Hn|].
    intros k Hk [e He].
    assert (He1 : 1 < e) by nia.
    destruct (Z_lt_le_dec k d) as [L|L].
    + apply (Hno k); [lia|exists e; exact He].
    + destruct (Z_lt_le_dec e d) as [L2|L2].
      * apply (Hno e); [lia|exists k; lia].
      * nia.
  - destruct (n mod d =? 0) eqn:E2; [discriminate|].
    apply Z.eqb_neq in E2. apply (IH (d + 1) n); [lia|exact Hn| |exact T].
    intros k Hk D. destruct (Z.eq_dec k d) as [->|N].
    + apply E2. apply Zdivide_mod. exact D.
    + apply (Hno k); [lia|exact D].
Qed.

Definition is_prime_small (n : Z) : bool :=
  (1 <? n) && trial (Z.to_nat (Z.sqrt n) + 2) 2 n.

Lemma is_prime_small_sound n : is_prime_small n = true -> prime n.
Proof.
  unfold is_prime_small. intros H. apply andb_prop in H. destruct H as [H1 H2].
  apply Z.ltb_lt in H1. apply (trial_sound (Z.to_nat (Z.sqrt n) + 2)%nat 2 n); [lia|exact H1| |exact H2].
  intros k Hk. lia.
Qed.

(* ---- powers modulo m ---- *)
Lemma pow_mod_1 a e m : 1 < m -> 0 <= e -> a mod m = 1 -> (a ^ e) mod m = 1.
Proof.
  intros Hm He Ha. revert e He. apply natlike_ind.
  - rewrite Z.pow_0_r. apply Z.mod_small. lia.
  - intros e He IH. rewrite Z.pow_succ_r by exact He.
    rewrite Zmult_mod, Ha, IH. apply Z.mod_small. lia.
Qed.

Lemma pow_gcd_aux a m : 1 < m -> forall k : nat, forall x y, 0 <= y < Z.of_nat k -> 0 <= x ->
  (a ^ x) mod m = 1 -> (a ^ y) mod m = 1 -> (a ^ Z.gcd x y) mod m = 1.
Proof.
  intros Hm. induction k as [|k IH]; intros x y Hy Hx Ex Ey; [lia|].
  destruct (Z.eq_dec y 0) as [->|Ny].
  - rewrite Z.gcd_0_r, Z.abs_eq by exact Hx. exact Ex.
  - rewrite Z.gcd_comm, <- Z.gcd_mod by exact Ny. rewrite Z.gcd_comm.
    pose proof (Z.mod_pos_bound x y ltac:(lia)) as B.
    apply IH; [lia|lia|exact Ey|].
    pose proof (Z.div_mod x y Ny) as D.
    assert (Q : 0 <= x / y) by (apply Z.div_pos; lia).
    rewrite D, Z.pow_add_r, Z.pow_mul_r in Ex by lia.
    rewrite Zmult_mod in Ex. rewrite (pow_mod_1 (a ^ y) (x / y) m Hm Q Ey) in Ex.
    rewrite Z.mul_1_l, Z.mod_mod in Ex by lia. exact Ex.
Qed.

Lemma pow_gcd a m x y : 1 < m -> 0 <= x -> 0 <= y ->
  (a ^ x) mod m = 1 -> (a ^ y) mod m = 1 -> (a ^ Z.gcd x y) mod m = 1.
Proof.
  intros Hm Hx Hy. apply (pow_gcd_aux a m Hm (S (Z.to_nat y))); lia.
Qed.

(* Fermat with exponent p-1 *)
Lemma fermat_unit_Z p a : prime p -> 0 <= a -> a mod p <> 0 -> (a ^ (p - 1)) mod p = 1.
Proof.
  intros Hp Ha Hn. pose proof (prime_ge_2 p Hp) as P2.
  pose proof (fermat_Z p Hp a Ha) as F.
  replace p with (Z.succ (p - 1)) in F at 1 by lia. rewrite Z.pow_succ_r in F by lia.
  assert (D : (p | a * (a ^ (p - 1) - 1))).
  { apply Zmod_divide; [lia|]. replace (a * (a ^ (p - 1) - 1)) with (a * a ^ (p - 1) - a) by ring.
    rewrite Zminus_mod, F, Z.sub_diag. apply Z.mod_0_l. lia. }
  apply prime_mult in D; [|exact Hp]. destruct D as [D|D].
  - exfalso. apply Hn. apply Zdivide_mod. exact D.
  - apply Zdivide_mod in D. rewrite Zminus_mod in D.
    rewrite (Z.mod_small 1 p) in D by lia.
    pose proof (Z.mod_pos_bound (a ^ (p - 1)) p ltac:(lia)) as B.
    set (x := (a ^ (p - 1)) mod p) in *. clearbody x. clear F.
    apply Zmod_divide in D; [|lia]. destruct D as [c Hc].
    assert (c = 0) by nia. lia.
Qed.

(* a divisor >1 of a product of primes is divisible by one of them *)
Definition prod (l : list Z) : Z := fold_right Z.mul 1 l.

Lemma divisor_of_primes qs : Forall prime qs -> forall m, 1 < m -> (m | prod qs) ->
  exists q, In q qs /\ (q | m).
Proof.
  induction 1 as [|q qs Hq _ IH]; intros m Hm D.
  - cbn in D. apply Z.divide_1_r_nonneg in D; lia.
  - cbn [prod fold_right] in D. fold (prod qs) in D.
    destruct (Zdivide_dec q m) as [Dq|Dq].
    + exists q. split; [left; reflexivity|exact Dq].
    + assert (R : rel_prime m q) by (apply rel_prime_sym, prime_rel_prime; assumption).
      apply Gauss in D; [|exact R]. destruct (IH m Hm D) as [q' [I D']].
      exists q'. split; [right; exact I|exact D'].
Qed.

Lemma prime_divisor : forall k : nat, forall n, 1 < n < Z.of_nat k -> exists p, prime p /\ (p | n).
Proof.
  induction k as [|k IH]; intros n Hn; [lia|].
  destruct (prime_dec n) as [P|NP].
  - exists n. split; [exact P|apply Z.divide_refl].
  - destruct (not_prime_divide n ltac:(lia) NP) as [d [Hd D]].
    destruct (IH d ltac:(lia)) as [p [Pp Dp]].
    exists p. split; [exact Pp|]. eapply Z.divide_trans; eassumption.
Qed.

(* ---- Lucas certificate ---- *)
Definition lucas_check (n a : Z) (qs : list Z) : bool :=
  (1 <? n) && (prod qs =? n - 1) && forallb is_prime_small (nodup Z.eq_dec qs) &&
  (Zpow_mod a (n - 1) n =? 1) &&
  forallb (fun q => Z.gcd (Zpow_mod a ((n - 1) / q) n - 1) n =? 1) (nodup Z.eq_dec qs).

Theorem lucas_sound n a qs : 0 <= a -> lucas_check n a qs = true -> prime n.
Proof.
  intros Ha C. unfold lucas_check in C.
  apply andb_prop in C; destruct C as [C Hg].
  apply andb_prop in C; destruct C as [C Hpow].
  apply andb_prop in C; destruct C as [C Hps].
  apply andb_prop in C; destruct C as [Hn Hprod].
  apply Z.ltb_lt in Hn. apply Z.eqb_eq in Hprod. apply Z.eqb_eq in Hpow.
  rewrite Zpow_mod_correct in Hpow by lia.
  assert (Hprimes : Forall prime qs).
  { apply Forall_forall. intros q I. apply is_prime_small_sound. rewrite forallb_forall in Hps. apply Hps. apply nodup_In. exact I. }
  assert (Key : forall p, prime p -> (p | n) -> p = n).
  { intros p Hp Dp. pose proof (prime_ge_2 p Hp) as P2.
    assert (Lp : p <= n) by (apply Z.divide_pos_le; [lia|exact Dp]).
    assert (Ep : (a ^ (n - 1)) mod p = 1).
    { rewrite (Zmod_div_mod p n) by (try lia; exact Dp). rewrite Hpow. apply Z.mod_small. lia. }
    assert (Nz : a mod p <> 0).
    { intros Z0. replace (n - 1) with (Z.succ (n - 2)) in Ep by lia.
      rewrite Z.pow_succ_r in Ep by lia. rewrite Zmult_mod, Z0, Z.mul_0_l, Z.mod_0_l in Ep by lia. lia. }
    pose proof (fermat_unit_Z p a Hp Ha Nz) as Fp.
    pose proof (pow_gcd a p (n - 1) (p - 1) ltac:(lia) ltac:(lia) ltac:(lia) Ep Fp) as G.
    set (g := Z.gcd (n - 1) (p - 1)) in *.
    assert (Gpos : 0 < g).
    { pose proof (Z.gcd_nonneg (n - 1) (p - 1)). destruct (Z.eq_dec g 0) as [E|E]; [|fold g in H; lia].
      apply Z.gcd_eq_0_l in E. lia. }
    assert (Gd : (g | n - 1)) by apply Z.gcd_divide_l.
    assert (Gd2 : (g | p - 1)) by apply Z.gcd_divide_r.
    clearbody g.
    destruct (Z.eq_dec g (n - 1)) as [E|NE].
    - rewrite E in Gd2. apply Z.divide_pos_le in Gd2; lia.
    - exfalso. destruct Gd as [m Hm].
      assert (M0 : 0 < m) by nia.
      assert (M1 : 1 < m) by (destruct (Z.eq_dec m 1) as [->|]; lia).
      destruct (divisor_of_primes qs Hprimes m M1) as [q [Iq Dq]].
      { rewrite Hprod. exists g. lia. }
      rewrite forallb_forall in Hg. specialize (Hg q (proj2 (nodup_In Z.eq_dec qs q) Iq)). apply Z.eqb_eq in Hg.
      rewrite Zpow_mod_correct in Hg by lia.
      destruct Dq as [m' Hm'].
      assert (Q2 : 2 <= q) by (apply prime_ge_2; rewrite Forall_forall in Hprimes; apply Hprimes; exact Iq).
      assert (Eq : (n - 1) / q = m' * g).
      { rewrite Hm, Hm'. replace (m' * q * g) with (m' * g * q) by ring. apply Z.div_mul. lia. }
      assert (M'pos : 0 <= m') by nia.
      assert (E1 : (a ^ ((n - 1) / q)) mod p = 1).
      { rewrite Eq, Z.mul_comm, Z.pow_mul_r by lia. apply pow_mod_1; [lia|exact M'pos|exact G]. }
      assert (Dg : (p | Z.gcd ((a ^ ((n - 1) / q)) mod n - 1) n)).
      { apply Z.gcd_greatest; [|exact Dp]. apply Zmod_divide; [lia|].
        rewrite Zminus_mod, <- (Zmod_div_mod p n) by (try lia; exact Dp).
        rewrite E1, (Z.mod_small 1 p), Z.sub_diag by lia. apply Z.mod_0_l. lia. }
      rewrite Hg in Dg. apply Z.divide_1_r_nonneg in Dg; lia. }
  destruct (prime_divisor (S (Z.to_nat n)) n ltac:(lia)) as [p [Pp Dp]].
  rewrite <- (Key p Pp Dp). exact Pp.
Qed.

Print Assumptions lucas_sound.
