(* Bitwise AND / XOR on base-4 digits. *)
From Coq Require Import ZArith Lia Bool.
Local Open Scope Z_scope.

Lemma mod4_land_3 z : z mod 4 = Z.land z 3.
Proof. change 3 with (Z.ones 2). rewrite Z.land_ones by lia. reflexivity. Qed.

Lemma div4_shiftr z : z / 4 = Z.shiftr z 2.
Proof. rewrite Z.shiftr_div_pow2 by lia. reflexivity. Qed.

Lemma land_div4 a b : Z.land a b / 4 = Z.land (a / 4) (b / 4).
Proof. rewrite !div4_shiftr. apply Z.shiftr_land. Qed.
Lemma lxor_div4 a b : Z.lxor a b / 4 = Z.lxor (a / 4) (b / 4).
Proof. rewrite !div4_shiftr. apply Z.shiftr_lxor. Qed.

Lemma land_mod4 a b : Z.land a b mod 4 = Z.land (a mod 4) (b mod 4).
Proof.
  rewrite !mod4_land_3. apply Z.bits_inj'. intros n Hn. rewrite !Z.land_spec.
  destruct (Z.testbit a n), (Z.testbit b n), (Z.testbit 3 n); reflexivity.
Qed.
Lemma lxor_mod4 a b : Z.lxor a b mod 4 = Z.lxor (a mod 4) (b mod 4).
Proof.
  rewrite !mod4_land_3. apply Z.bits_inj'. intros n Hn.
  rewrite !Z.land_spec, !Z.lxor_spec, !Z.land_spec.
  destruct (Z.testbit a n), (Z.testbit b n), (Z.testbit 3 n); reflexivity.
Qed.

Lemma split4 z : z = 4 * (z / 4) + z mod 4.
Proof. apply Z.div_mod. lia. Qed.

Lemma div_add4 x p : 0 <= p < 4 -> (4 * x + p) / 4 = x.
Proof. intros. Z.div_mod_to_equations. lia. Qed.
Lemma mod_add4 x p : 0 <= p < 4 -> (4 * x + p) mod 4 = p.
Proof. intros. Z.div_mod_to_equations. lia. Qed.

(* one base-4 digit step of a bitwise operation *)
Lemma land_step x y p q : 0 <= p < 4 -> 0 <= q < 4 ->
  Z.land (4 * x + p) (4 * y + q) = 4 * Z.land x y + Z.land p q.
Proof.
  intros Hp Hq. rewrite (split4 (Z.land (4 * x + p) (4 * y + q))).
  rewrite land_div4, land_mod4, !div_add4, !mod_add4 by assumption. reflexivity.
Qed.
Lemma lxor_step x y p q : 0 <= p < 4 -> 0 <= q < 4 ->
  Z.lxor (4 * x + p) (4 * y + q) = 4 * Z.lxor x y + Z.lxor p q.
Proof.
  intros Hp Hq. rewrite (split4 (Z.lxor (4 * x + p) (4 * y + q))).
  rewrite lxor_div4, lxor_mod4, !div_add4, !mod_add4 by assumption. reflexivity.
Qed.

Lemma land_quad_range p q : 0 <= p < 4 -> 0 <= q < 4 -> 0 <= Z.land p q < 4.
Proof.
  intros Hp Hq.
  assert (p = 0 \/ p = 1 \/ p = 2 \/ p = 3) as [ -> | [ -> | [ -> | -> ] ] ] by lia;
  assert (q = 0 \/ q = 1 \/ q = 2 \/ q = 3) as [ -> | [ -> | [ -> | -> ] ] ] by lia; cbn; lia.
Qed.
Lemma lxor_quad_range p q : 0 <= p < 4 -> 0 <= q < 4 -> 0 <= Z.lxor p q < 4.
Proof.
  intros Hp Hq.
  assert (p = 0 \/ p = 1 \/ p = 2 \/ p = 3) as [ -> | [ -> | [ -> | -> ] ] ] by lia;
  assert (q = 0 \/ q = 1 \/ q = 2 \/ q = 3) as [ -> | [ -> | [ -> | -> ] ] ] by lia; cbn; lia.
Qed.

Lemma land_nonneg_bound x y n : 0 <= x < 4 ^ n -> 0 <= y -> 0 <= n -> 0 <= Z.land x y < 4 ^ n.
Proof.
  intros Hx Hy Hn. split; [apply Z.land_nonneg; lia|].
  destruct (Z.eq_dec (Z.land x y) 0) as [E|NE]; [rewrite E; apply Z.pow_pos_nonneg; lia|].
  assert (0 < Z.land x y) by (pose proof (Z.land_nonneg x y); lia).
  replace 4 with (2 ^ 2) by reflexivity. rewrite <- Z.pow_mul_r by lia.
  apply Z.log2_lt_pow2; [assumption|].
  eapply Z.le_lt_trans; [apply Z.log2_land; lia|].
  destruct (Z.eq_dec x 0) as [->|Nx]; [cbn in *; lia|].
  apply Z.min_lt_iff. left. apply Z.log2_lt_pow2; [lia|].
  rewrite Z.pow_mul_r by lia. exact (proj2 Hx).
Qed.

Lemma lxor_nonneg_bound x y n : 0 <= x < 4 ^ n -> 0 <= y < 4 ^ n -> 0 <= n -> 0 <= Z.lxor x y < 4 ^ n.
Proof.
  intros Hx Hy Hn.
  assert (N0 : 0 <= Z.lxor x y) by (apply Z.lxor_nonneg; split; intros; lia).
  split; [exact N0|].
  destruct (Z.eq_dec (Z.lxor x y) 0) as [E|NE]; [rewrite E; apply Z.pow_pos_nonneg; lia|].
  assert (0 < Z.lxor x y) by lia.
  assert (Hn0 : 0 < n).
  { destruct (Z.eq_dec n 0) as [->|]; [|lia]. exfalso.
    rewrite Z.pow_0_r in *. assert (x = 0) by lia. assert (y = 0) by lia. subst. cbn in NE. lia. }
  replace 4 with (2 ^ 2) in * by reflexivity. rewrite <- Z.pow_mul_r in * by lia.
  apply Z.log2_lt_pow2; [assumption|].
  eapply Z.le_lt_trans; [apply Z.log2_lxor; lia|].
  apply Z.max_lub_lt.
  - destruct (Z.eq_dec x 0) as [->|Nx]; [change (Z.log2 0) with 0; lia|]. apply Z.log2_lt_pow2; lia.
  - destruct (Z.eq_dec y 0) as [->|Ny]; [change (Z.log2 0) with 0; lia|]. apply Z.log2_lt_pow2; lia.
Qed.
