(* The scalar field of BLS12-381 as canonical representatives in [0, r). *)
From Coq Require Import ZArith Lia Znumtheory Eqdep_dec Bool List.
Local Open Scope Z_scope.

Definition r : Z :=
  0x73eda753299d7d483339d80809a1d80553bda402fffe5bfeffffffff00000001.

Lemma r_pos : 0 < r. Proof. reflexivity. Qed.
Lemma r_gt_1 : 1 < r. Proof. reflexivity. Qed.
Lemma r_bound_lo : 2 ^ 254 < r. Proof. reflexivity. Qed.
Lemma r_bound_hi : r < 2 ^ 255. Proof. reflexivity. Qed.

(* primality of r is a hypothesis of every statement that needs it *)
Class PrimeR : Prop := prime_r : prime r.

Record Fr : Set := mkFr { val : Z; val_ok : val mod r = val }.

Lemma val_range (x : Fr) : 0 <= val x < r.
Proof. rewrite <- (val_ok x). apply Z.mod_pos_bound, r_pos. Qed.

Lemma fr_eq (x y : Fr) : val x = val y -> x = y.
Proof.
  destruct x as [a pa], y as [b pb]; cbn; intros ->.
  f_equal. apply UIP_dec, Z.eq_dec.
Qed.

Definition of_Z (z : Z) : Fr := mkFr (z mod r) (Z.mod_mod z r (Z.neq_sym _ _ (Z.lt_neq _ _ r_pos))).

Lemma val_of_Z z : val (of_Z z) = z mod r. Proof. reflexivity. Qed.
Lemma of_Z_val x : of_Z (val x) = x.
Proof. apply fr_eq. cbn. apply val_ok. Qed.
Lemma val_of_Z_small z : 0 <= z < r -> val (of_Z z) = z.
Proof. intros. cbn. apply Z.mod_small; assumption. Qed.

Definition fzero : Fr := of_Z 0.
Definition fone : Fr := of_Z 1.
Definition fadd (x y : Fr) : Fr := of_Z (val x + val y).
Definition fsub (x y : Fr) : Fr := of_Z (val x - val y).
Definition fmul (x y : Fr) : Fr := of_Z (val x * val y).
Definition fopp (x : Fr) : Fr := of_Z (- val x).

Definition feqb (x y : Fr) : bool := val x =? val y.
Lemma feqb_spec x y : reflect (x = y) (feqb x y).
Proof.
  unfold feqb. destruct (Z.eqb_spec (val x) (val y)); constructor.
  - now apply fr_eq.
  - intros ->. congruence.
Qed.
Lemma fr_eq_dec (x y : Fr) : {x = y} + {x <> y}.
Proof. destruct (feqb_spec x y); [left|right]; assumption. Defined.

(* extended Euclid with fuel; returns (g, u, v) with u*a + v*b = g *)
Fixpoint egcd (fuel : nat) (a b : Z) : option (Z * Z * Z) :=
  match fuel with
  | O => None
  | S f =>
    if b =? 0 then Some (a, 1, 0)
    else match egcd f b (a mod b) with
         | Some (g, u, v) => Some (g, v, u - (a / b) * v)
         | None => None
         end
  end.

(* the fuel depends on the argument so that [finv x] does not unfold on a
   neutral [x] (ring/field normalise with vm_compute) *)
Definition inv_fuel (v : Z) : nat := (2 * (Z.to_nat (Z.log2 v) + 1) + 1)%nat.

Definition finv (x : Fr) : Fr :=
  match egcd (inv_fuel (val x)) r (val x) with
  | Some (_, _, v) => of_Z v
  | None => fzero
  end.

Definition fdiv (x y : Fr) : Fr := fmul x (finv y).

Fixpoint fpow_pos (x : Fr) (p : positive) : Fr :=
  match p with
  | xH => x
  | xO p' => let y := fpow_pos x p' in fmul y y
  | xI p' => let y := fpow_pos x p' in fmul x (fmul y y)
  end.
Definition fpow (x : Fr) (n : N) : Fr :=
  match n with N0 => fone | Npos p => fpow_pos x p end.

Declare Scope fr_scope.
Delimit Scope fr_scope with F.
Bind Scope fr_scope with Fr.
Infix "+" := fadd : fr_scope.
Infix "-" := fsub : fr_scope.
Infix "*" := fmul : fr_scope.
Infix "/" := fdiv : fr_scope.
Notation "- x" := (fopp x) : fr_scope.
Notation "0" := fzero : fr_scope.
Notation "1" := fone : fr_scope.

Definition F (z : Z) : Fr := of_Z z.
