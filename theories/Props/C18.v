(* C18 — Compilation and proving are deterministic and schedule-independent
   (the parts a Gallina model can carry; see DESIGN.md for what is runtime). *)
From Coq Require Import List Bool Arith Permutation.
From PlonkV Require Import Base.Fr Alg.Poly Alg.FFT Alg.FFTFacts Composer.Perm.
Import ListNotations.

(* the copy permutation does not depend on the iteration order of the hash
   map of witness classes *)
Theorem C18_sigma_order_independent : forall classes classes',
  NoDup (concat classes) -> Permutation classes classes' ->
  forall p, sigma_of classes p = sigma_of classes' p.
Proof. exact sigma_order_independent. Qed.
Check C18_sigma_order_independent : forall classes classes',
  NoDup (concat classes) -> Permutation classes classes' ->
  forall p, sigma_of classes p = sigma_of classes' p.
Print Assumptions C18_sigma_order_independent.

(* a sum of field elements is the same for every order of the summands
   (parallel `sum()` over rayon iterators) *)
Theorem C18_field_sum_reassoc : forall l l', Permutation l l' -> fsum l = fsum l'.
Proof. exact fsum_perm. Qed.
Check C18_field_sum_reassoc : forall l l', Permutation l l' -> fsum l = fsum l'.
Print Assumptions C18_field_sum_reassoc.

(* for every number of worker threads the range-split butterfly of the final
   FFT stages equals the serial butterfly *)
Theorem C18_fft_threads_independent : forall threads left right wm,
  (1 <= threads)%nat -> length left = length right ->
  parallel_butterfly threads left right wm = butterfly_range left right wm fone.
Proof. exact parallel_butterfly_serial. Qed.
Check C18_fft_threads_independent : forall threads left right wm,
  (1 <= threads)%nat -> length left = length right ->
  parallel_butterfly threads left right wm = butterfly_range left right wm fone.
Print Assumptions C18_fft_threads_independent.
