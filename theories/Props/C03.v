(* C03 — the verifier decides exactly the protocol's equation and transcript. *)
From Coq Require Import ZArith List Bool Arith.
From PlonkV Require Import Base.Fr Base.FrFacts Gates.Gate Gates.Separation Alg.Poly Alg.RootBound
  Protocol.Keccak Protocol.VerifierFacts.
Import ListNotations.
Local Open Scope fr_scope.

(* the fused (L_1(z), PI(z)) evaluation: each summand is value * L_i(z) *)
Theorem C03_fused_term_is_lagrange : forall (PR : PrimeR) e root wi z zh nF,
  root * wi = 1 -> z - wi <> 0 -> nF <> 0 -> wi <> 0 ->
  finv (root * z - 1) * e * zh * finv nF = e * (wi * zh * finv (nF * (z - wi))).
Proof. exact @fused_term_is_lagrange. Qed.
Check C03_fused_term_is_lagrange : forall (PR : PrimeR) e root wi z zh nF,
  root * wi = 1 -> z - wi <> 0 -> nF <> 0 -> wi <> 0 ->
  finv (root * z - 1) * e * zh * finv nF = e * (wi * zh * finv (nF * (z - wi))).
Print Assumptions C03_fused_term_is_lagrange.

(* all five widget terms enter the equation: the combined row identity the
   linearisation evaluates is equivalent to the component identities (C05) *)
Theorem C03_all_widgets_in_equation : forall (PR : PrimeR) g w n pi Sr Sl Sf Sv,
  NoDup Sr -> NoDup Sl -> NoDup Sf -> NoDup Sv ->
  length Sr = 8%nat -> length Sl = 10%nat -> length Sf = 8%nat -> length Sv = 6%nat ->
  (forall kr kl kf kv, In kr Sr -> In kl Sl -> In kf Sf -> In kv Sv ->
     row_sum g w n kr kl kf kv pi = 0) ->
  row_ok g w n pi.
Proof. exact @row_sum_grid_row_ok. Qed.
Check C03_all_widgets_in_equation : forall (PR : PrimeR) g w n pi Sr Sl Sf Sv,
  NoDup Sr -> NoDup Sl -> NoDup Sf -> NoDup Sv ->
  length Sr = 8%nat -> length Sl = 10%nat -> length Sf = 8%nat -> length Sv = 6%nat ->
  (forall kr kl kf kv, In kr Sr -> In kl Sl -> In kf Sf -> In kv Sv ->
     row_sum g w n kr kl kf kv pi = 0) ->
  row_ok g w n pi.
Print Assumptions C03_all_widgets_in_equation.

(* Merlin's length framing of an absorbed message is injective *)
Theorem C03_frame_injective : forall (m1 m2 r1 r2 : list Z),
  (Z.of_nat (length m1) < 256 ^ 4)%Z -> (Z.of_nat (length m2) < 256 ^ 4)%Z ->
  le32 (length m1) ++ m1 ++ r1 = le32 (length m2) ++ m2 ++ r2 ->
  m1 = m2 /\ r1 = r2.
Proof. exact frame_injective. Qed.
Check C03_frame_injective : forall (m1 m2 r1 r2 : list Z),
  (Z.of_nat (length m1) < 256 ^ 4)%Z -> (Z.of_nat (length m2) < 256 ^ 4)%Z ->
  le32 (length m1) ++ m1 ++ r1 = le32 (length m2) ++ m2 ++ r2 ->
  m1 = m2 /\ r1 = r2.
Print Assumptions C03_frame_injective.
