(* C05 — Prover exactness: it proves iff the compiled constraints hold. *)
From Coq Require Import ZArith List Bool Arith Permutation.
From PlonkV Require Import Base.Fr Base.FrFacts Gates.Gate Gates.CS Gates.CSFacts Gates.Separation
  Alg.Poly Alg.RootBound Alg.PermArg.
Import ListNotations.
Local Open Scope fr_scope.

(* The oracle of the correspondence check: the extracted boolean evaluator
   decides satisfaction of every row of the padded, cyclic domain. *)
Theorem C05_row_evaluator_exact : forall rows asg, satb rows asg = true <-> sat rows asg.
Proof. exact satb_spec. Qed.
Check C05_row_evaluator_exact : forall rows asg, satb rows asg = true <-> sat rows asg.
Print Assumptions C05_row_evaluator_exact.

(* root bound used by the separation argument *)
Theorem C05_roots_all_zero : forall (PR : PrimeR) n p roots,
  (length p <= n)%nat -> NoDup roots -> length roots = n ->
  (forall z, In z roots -> peval p z = 0) -> all_zero p.
Proof. exact @roots_all_zero. Qed.
Check C05_roots_all_zero : forall (PR : PrimeR) n p roots,
  (length p <= n)%nat -> NoDup roots -> length roots = n ->
  (forall z, In z roots -> peval p z = 0) -> all_zero p.
Print Assumptions C05_roots_all_zero.

(* The identity the prover checks on a row (all five widgets combined with the
   four separation challenges exactly as compute_quotient_i does, plus the
   public input) is equivalent to the component-wise identities of the row:
   it follows from them for all challenges, and it implies them as soon as it
   holds on a grid of 8 x 10 x 8 x 6 distinct challenge values. *)
Theorem C05_components_imply_combined : forall g w n pi kr kl kf kv,
  row_ok g w n pi -> row_sum g w n kr kl kf kv pi = 0.
Proof. exact row_ok_row_sum. Qed.
Check C05_components_imply_combined : forall g w n pi kr kl kf kv,
  row_ok g w n pi -> row_sum g w n kr kl kf kv pi = 0.
Print Assumptions C05_components_imply_combined.

Theorem C05_combined_implies_components : forall (PR : PrimeR) g w n pi Sr Sl Sf Sv,
  NoDup Sr -> NoDup Sl -> NoDup Sf -> NoDup Sv ->
  length Sr = 8%nat -> length Sl = 10%nat -> length Sf = 8%nat -> length Sv = 6%nat ->
  (forall kr kl kf kv, In kr Sr -> In kl Sl -> In kf Sf -> In kv Sv ->
     row_sum g w n kr kl kf kv pi = 0) ->
  row_ok g w n pi.
Proof. exact @row_sum_grid_row_ok. Qed.
Check C05_combined_implies_components : forall (PR : PrimeR) g w n pi Sr Sl Sf Sv,
  NoDup Sr -> NoDup Sl -> NoDup Sf -> NoDup Sv ->
  length Sr = 8%nat -> length Sl = 10%nat -> length Sf = 8%nat -> length Sv = 6%nat ->
  (forall kr kl kf kv, In kr Sr -> In kl Sl -> In kf Sf -> In kv Sv ->
     row_sum g w n kr kl kf kv pi = 0) ->
  row_ok g w n pi.
Print Assumptions C05_combined_implies_components.

(* copy constraints: wire values invariant under the compiled permutation make
   the grand product close, for every beta and gamma *)
Theorem C05_grand_product_closes : forall (pos : Type) positions (sigma : pos -> pos) ident wv beta gamma,
  Permutation (map sigma positions) positions ->
  (forall p, In p positions -> wv (sigma p) = wv p) ->
  fprod (map (numerator pos ident wv beta gamma) positions) =
  fprod (map (denominator pos sigma ident wv beta gamma) positions).
Proof. exact grand_product_closes. Qed.
Check C05_grand_product_closes : forall (pos : Type) positions (sigma : pos -> pos) ident wv beta gamma,
  Permutation (map sigma positions) positions ->
  (forall p, In p positions -> wv (sigma p) = wv p) ->
  fprod (map (numerator pos ident wv beta gamma) positions) =
  fprod (map (denominator pos sigma ident wv beta gamma) positions).
Print Assumptions C05_grand_product_closes.

(* the unsatisfied-circuit test of quotient_poly::compute (len(trimmed quotient) > 7n with m = 8n coset points):
   a polynomial vanishes on the n-th roots of unity iff X^n - 1 divides it (explicit division, root bound),
   and the quotient interpolated from N / Z_H on m points off the domain is short iff N vanishes on the domain *)
From PlonkV Require Import Alg.Divisibility.
Theorem C05_vanishing_iff_divisible : forall (PR : PrimeR) k w p,
  (1 <= k)%nat -> fpow_nat w (Nat.pow 2 (k - 1)) = fopp fone -> w <> fzero ->
  let n := Nat.pow 2 k in
  (forall i, (i < n)%nat -> peval p (fpow_nat w i) = fzero) <->
  exists q, (length q <= length p - n)%nat /\ forall x, peval p x = fmul (fsub (fpow_nat x n) fone) (peval q x).
Proof. exact @vanishing_iff_divisible. Qed.
Check C05_vanishing_iff_divisible : forall (PR : PrimeR) k w p,
  (1 <= k)%nat -> fpow_nat w (Nat.pow 2 (k - 1)) = fopp fone -> w <> fzero ->
  let n := Nat.pow 2 k in
  (forall i, (i < n)%nat -> peval p (fpow_nat w i) = fzero) <->
  exists q, (length q <= length p - n)%nat /\ forall x, peval p x = fmul (fsub (fpow_nat x n) fone) (peval q x).
Print Assumptions C05_vanishing_iff_divisible.

Theorem C05_degree_test : forall (PR : PrimeR) k w N T pts m,
  (1 <= k)%nat -> fpow_nat w (Nat.pow 2 (k - 1)) = fopp fone -> w <> fzero ->
  let n := Nat.pow 2 k in
  (n <= m)%nat -> (length N <= m)%nat -> (length T <= m)%nat ->
  NoDup pts -> length pts = m ->
  (forall x, In x pts -> fsub (fpow_nat x n) fone <> fzero /\ fmul (peval T x) (fsub (fpow_nat x n) fone) = peval N x) ->
  ((length (ptrim T) <= m - n)%nat <-> forall i, (i < n)%nat -> peval N (fpow_nat w i) = fzero).
Proof. exact @degree_test. Qed.
Check C05_degree_test : forall (PR : PrimeR) k w N T pts m,
  (1 <= k)%nat -> fpow_nat w (Nat.pow 2 (k - 1)) = fopp fone -> w <> fzero ->
  let n := Nat.pow 2 k in
  (n <= m)%nat -> (length N <= m)%nat -> (length T <= m)%nat ->
  NoDup pts -> length pts = m ->
  (forall x, In x pts -> fsub (fpow_nat x n) fone <> fzero /\ fmul (peval T x) (fsub (fpow_nat x n) fone) = peval N x) ->
  ((length (ptrim T) <= m - n)%nat <-> forall i, (i < n)%nat -> peval N (fpow_nat w i) = fzero).
Print Assumptions C05_degree_test.

(* ---- the quotient numerator on the proving domain (quotient_poly.rs, permutation/proverkey.rs,
   composer/permutation.rs) ---- *)
From PlonkV Require Import Alg.FFT Protocol.Quotient.

(* satisfied rows and respected copy constraints: at every domain element the numerator
   row identity + alpha * permutation identity + alpha^2 * (z - 1) * L1  is zero, for all challenges;
   with C05_degree_test the interpolated quotient is short, i.e. proving does not return the
   unsatisfied-circuit error *)
Theorem C05_numerator_zero_on_domain : forall (PR : PrimeR) rows asg w sigma alpha beta gamma kr kl kf kv,
  let n := nrows rows in
  (0 < n)%nat -> sat rows asg ->
  Permutation (map sigma (positions n)) (positions n) ->
  (forall p, In p (positions n) -> wv rows asg (sigma p) = wv rows asg p) ->
  (forall j, (j < n)%nat -> pden (col_a rows asg) (col_b rows asg) (col_c rows asg) (col_d rows asg)
                                 (sg w sigma 0) (sg w sigma 1) (sg w sigma 2) (sg w sigma 3) beta gamma j <> fzero) ->
  let z := zval w (col_a rows asg) (col_b rows asg) (col_c rows asg) (col_d rows asg)
                (sg w sigma 0) (sg w sigma 1) (sg w sigma 2) (sg w sigma 3) beta gamma in
  forall i, (i < n)%nat ->
    fadd (row_sum (row_gate rows i) (row_wires rows asg i) (row_wires rows asg (next_row rows i)) kr kl kf kv (row_pi rows i))
         (perm_at w (col_a rows asg) (col_b rows asg) (col_c rows asg) (col_d rows asg)
                  (sg w sigma 0) (sg w sigma 1) (sg w sigma 2) (sg w sigma 3) alpha beta gamma i (z i) (z (next_row rows i))) = fzero.
Proof. intros PR rows asg w sigma alpha beta gamma kr kl kf kv. exact (numerator_zero_on_domain rows asg w sigma alpha beta gamma kr kl kf kv). Qed.
Check C05_numerator_zero_on_domain : forall (PR : PrimeR) rows asg w sigma alpha beta gamma kr kl kf kv,
  let n := nrows rows in
  (0 < n)%nat -> sat rows asg ->
  Permutation (map sigma (positions n)) (positions n) ->
  (forall p, In p (positions n) -> wv rows asg (sigma p) = wv rows asg p) ->
  (forall j, (j < n)%nat -> pden (col_a rows asg) (col_b rows asg) (col_c rows asg) (col_d rows asg)
                                 (sg w sigma 0) (sg w sigma 1) (sg w sigma 2) (sg w sigma 3) beta gamma j <> fzero) ->
  let z := zval w (col_a rows asg) (col_b rows asg) (col_c rows asg) (col_d rows asg)
                (sg w sigma 0) (sg w sigma 1) (sg w sigma 2) (sg w sigma 3) beta gamma in
  forall i, (i < n)%nat ->
    fadd (row_sum (row_gate rows i) (row_wires rows asg i) (row_wires rows asg (next_row rows i)) kr kl kf kv (row_pi rows i))
         (perm_at w (col_a rows asg) (col_b rows asg) (col_c rows asg) (col_d rows asg)
                  (sg w sigma 0) (sg w sigma 1) (sg w sigma 2) (sg w sigma 3) alpha beta gamma i (z i) (z (next_row rows i))) = fzero.
Print Assumptions C05_numerator_zero_on_domain.

(* the permutation identity at the wrap-around row holds exactly when the grand product closes *)
Theorem C05_perm_closing_iff : forall (PR : PrimeR) n w wa wb wc wd s1 s2 s3 s4 alpha beta gamma,
  (2 <= n)%nat -> alpha <> fzero -> (forall j, (j < n)%nat -> pden wa wb wc wd s1 s2 s3 s4 beta gamma j <> fzero) ->
  perm_at w wa wb wc wd s1 s2 s3 s4 alpha beta gamma (n - 1)
          (zval w wa wb wc wd s1 s2 s3 s4 beta gamma (n - 1)) (zval w wa wb wc wd s1 s2 s3 s4 beta gamma 0) = fzero
  <-> zval w wa wb wc wd s1 s2 s3 s4 beta gamma n = fone.
Proof. intros PR n w wa wb wc wd s1 s2 s3 s4 alpha beta gamma. exact (perm_at_closing_iff n w wa wb wc wd s1 s2 s3 s4 alpha beta gamma). Qed.
Check C05_perm_closing_iff : forall (PR : PrimeR) n w wa wb wc wd s1 s2 s3 s4 alpha beta gamma,
  (2 <= n)%nat -> alpha <> fzero -> (forall j, (j < n)%nat -> pden wa wb wc wd s1 s2 s3 s4 beta gamma j <> fzero) ->
  perm_at w wa wb wc wd s1 s2 s3 s4 alpha beta gamma (n - 1)
          (zval w wa wb wc wd s1 s2 s3 s4 beta gamma (n - 1)) (zval w wa wb wc wd s1 s2 s3 s4 beta gamma 0) = fzero
  <-> zval w wa wb wc wd s1 s2 s3 s4 beta gamma n = fone.
Print Assumptions C05_perm_closing_iff.

(* the polynomials the prover interpolates take the table values on the domain, blinded or not *)
Theorem C05_blinded_at_domain : forall (PR : PrimeR) num_coeffs ev b i,
  (domain_log num_coeffs <= 32)%nat ->
  let k := domain_log num_coeffs in
  length ev = Nat.pow 2 k -> (i < Nat.pow 2 k)%nat ->
  let x := fpow_nat (domain_gen k) i in
  fadd (peval (ifft num_coeffs ev) x) (fmul (peval b x) (vanishing_eval k x)) = nth i ev fzero.
Proof. exact @blinded_at_domain. Qed.
Check C05_blinded_at_domain : forall (PR : PrimeR) num_coeffs ev b i,
  (domain_log num_coeffs <= 32)%nat ->
  let k := domain_log num_coeffs in
  length ev = Nat.pow 2 k -> (i < Nat.pow 2 k)%nat ->
  let x := fpow_nat (domain_gen k) i in
  fadd (peval (ifft num_coeffs ev) x) (fmul (peval b x) (vanishing_eval k x)) = nth i ev fzero.
Print Assumptions C05_blinded_at_domain.

(* converse for the copy constraints with explicit counting (the deterministic core of the Schwartz-Zippel
   step): if the permutation products close for more than (4n)^2 values of beta and, for each, more than 4n
   values of gamma, every compiled copy constraint holds.  So with violated copy constraints at most
   16 n^2 values of beta let the product close for all but 4n gammas. *)
Theorem C05_copies_from_closing : forall (PR : PrimeR) rows asg k sigma (Bs Gs : list Fr),
  (1 <= k <= 32)%nat -> nrows rows = Nat.pow 2 k ->
  let n := Nat.pow 2 k in
  let w := domain_gen k in
  Permutation (map sigma (positions n)) (positions n) ->
  NoDup Bs -> (4 * n * (4 * n) < length Bs)%nat ->
  NoDup Gs -> (4 * n < length Gs)%nat ->
  (forall beta gamma, In beta Bs -> In gamma Gs ->
     fprod (map (pnum w (col_a rows asg) (col_b rows asg) (col_c rows asg) (col_d rows asg) beta gamma) (seq 0 n))
     = fprod (map (pden (col_a rows asg) (col_b rows asg) (col_c rows asg) (col_d rows asg)
                        (sg w sigma 0) (sg w sigma 1) (sg w sigma 2) (sg w sigma 3) beta gamma) (seq 0 n))) ->
  forall p, In p (positions n) -> wv rows asg (sigma p) = wv rows asg p.
Proof. exact @copies_from_closing. Qed.
Check C05_copies_from_closing : forall (PR : PrimeR) rows asg k sigma (Bs Gs : list Fr),
  (1 <= k <= 32)%nat -> nrows rows = Nat.pow 2 k ->
  let n := Nat.pow 2 k in
  let w := domain_gen k in
  Permutation (map sigma (positions n)) (positions n) ->
  NoDup Bs -> (4 * n * (4 * n) < length Bs)%nat ->
  NoDup Gs -> (4 * n < length Gs)%nat ->
  (forall beta gamma, In beta Bs -> In gamma Gs ->
     fprod (map (pnum w (col_a rows asg) (col_b rows asg) (col_c rows asg) (col_d rows asg) beta gamma) (seq 0 n))
     = fprod (map (pden (col_a rows asg) (col_b rows asg) (col_c rows asg) (col_d rows asg)
                        (sg w sigma 0) (sg w sigma 1) (sg w sigma 2) (sg w sigma 3) beta gamma) (seq 0 n))) ->
  forall p, In p (positions n) -> wv rows asg (sigma p) = wv rows asg p.
Print Assumptions C05_copies_from_closing.

(* ---- the compiled permutation is the rotation of the witness classes (Composer/Perm.v models
   Permutation::compute_sigma_permutations); "the copy constraints hold" = wire values constant on every class ---- *)
From PlonkV Require Import Composer.Perm Composer.PermFacts.

Theorem C05_sigma_rotates_classes : forall classes c,
  NoDup (concat classes) -> In c classes -> map (sigma_of classes) c = rot c.
Proof. intros classes c H. exact (sigma_rotates classes H c). Qed.
Check C05_sigma_rotates_classes : forall classes c,
  NoDup (concat classes) -> In c classes -> map (sigma_of classes) c = rot c.
Print Assumptions C05_sigma_rotates_classes.

Theorem C05_copy_constraints_meaning : forall classes (V : Type) (wv : pos -> V),
  NoDup (concat classes) ->
  ((forall p, In p (concat classes) -> wv (sigma_of classes p) = wv p) <->
   (forall c, In c classes -> forall p q, In p c -> In q c -> wv p = wv q)).
Proof. intros classes V wv H. exact (copy_constraints_meaning classes H wv). Qed.
Check C05_copy_constraints_meaning : forall classes (V : Type) (wv : pos -> V),
  NoDup (concat classes) ->
  ((forall p, In p (concat classes) -> wv (sigma_of classes p) = wv p) <->
   (forall c, In c classes -> forall p q, In p c -> In q c -> wv p = wv q)).
Print Assumptions C05_copy_constraints_meaning.

(* end to end for the completeness direction: satisfied rows + wire values constant on every witness class
   (classes partitioning the 4n positions) => the quotient numerator vanishes on the whole proving domain *)
Theorem C05_satisfied_and_classes_constant_numerator_zero : forall (PR : PrimeR) rows asg w classes alpha beta gamma kr kl kf kv,
  let n := nrows rows in
  let sigma := sigma_of classes in
  (0 < n)%nat -> sat rows asg ->
  NoDup (concat classes) -> Permutation (concat classes) (positions n) ->
  (forall c, In c classes -> forall p q, In p c -> In q c -> wv rows asg p = wv rows asg q) ->
  (forall j, (j < n)%nat -> pden (col_a rows asg) (col_b rows asg) (col_c rows asg) (col_d rows asg)
                                 (sg w sigma 0) (sg w sigma 1) (sg w sigma 2) (sg w sigma 3) beta gamma j <> fzero) ->
  let z := zval w (col_a rows asg) (col_b rows asg) (col_c rows asg) (col_d rows asg)
                (sg w sigma 0) (sg w sigma 1) (sg w sigma 2) (sg w sigma 3) beta gamma in
  forall i, (i < n)%nat ->
    fadd (row_sum (row_gate rows i) (row_wires rows asg i) (row_wires rows asg (next_row rows i)) kr kl kf kv (row_pi rows i))
         (perm_at w (col_a rows asg) (col_b rows asg) (col_c rows asg) (col_d rows asg)
                  (sg w sigma 0) (sg w sigma 1) (sg w sigma 2) (sg w sigma 3) alpha beta gamma i (z i) (z (next_row rows i))) = fzero.
Proof.
  intros PR rows asg w classes alpha beta gamma kr kl kf kv n sigma Hn Hsat ND Part Hconst Hd.
  apply (numerator_zero_on_domain rows asg w sigma alpha beta gamma kr kl kf kv Hn Hsat).
  - apply sigma_permutes_positions; assumption.
  - intros p Hp. apply (proj2 (copy_constraints_meaning classes ND (wv rows asg)) Hconst).
    eapply Permutation_in; [apply Permutation_sym; exact Part|exact Hp].
  - exact Hd.
Qed.
Print Assumptions C05_satisfied_and_classes_constant_numerator_zero.
