(* C01 — Completeness: sizes and capacities (the algebraic part of
   completeness is stated in C05/C19/C20; see DESIGN.md). *)
From Coq Require Import Arith List.
From PlonkV Require Import Gates.CS Gates.CSFacts Protocol.Capacity.

(* padding: the domain size is a power of two that covers the constraints *)
Theorem C01_domain_covers : forall c, c <= npo2 c /\ is_pow2 (npo2 c).
Proof. intros c. split; [apply npo2_ge|apply npo2_pow2]. Qed.
Check C01_domain_covers : forall c, c <= npo2 c /\ is_pow2 (npo2 c).
Print Assumptions C01_domain_covers.

(* for every constraint count and every SRS degree the direct route and the
   compressed route succeed or fail together *)
Theorem C01_capacity_equiv : forall constraints deg, 1 <= constraints ->
  direct_route_ok constraints deg = compressed_route_ok constraints deg.
Proof. exact capacity_equiv. Qed.
Check C01_capacity_equiv : forall constraints deg, 1 <= constraints ->
  direct_route_ok constraints deg = compressed_route_ok constraints deg.
Print Assumptions C01_capacity_equiv.

(* padding 6 / blinding degree 6 / next power of two: the trimmed commit key
   always covers degree (domain size + 6), for all sizes *)
Theorem C01_trimmed_key_covers : forall constraints,
  npo2 constraints + 6 <= npo2 (constraints + 6) + 6.
Proof. exact trimmed_key_covers. Qed.
Check C01_trimmed_key_covers : forall constraints,
  npo2 constraints + 6 <= npo2 (constraints + 6) + 6.
Print Assumptions C01_trimmed_key_covers.
