(* C01 — Completeness: sizes and capacities (the algebraic part of
   completeness is stated in C05/C19/C20; see DESIGN.md). *)
From Coq Require Import Arith List.
From PlonkV Require Import Gates.CS Gates.CSFacts Protocol.Capacity.

(* padding: the domain size is a power of two that covers the constraints *)
Theorem C01_domain_covers : forall c, c <= npo2 c /\ is_pow2 (npo2 c).
Proof. intros c. split; [apply npo2_ge|apply npo2_pow2]. Qed.
Check C01_domain_covers : forall c, c <= npo2 c /\ is_pow2 (npo2 c).
Print Assumptions C01_domain_covers.

(* for every constraint count and every SRS degree the direct route and the
   compressed route succeed or fail together *)
Theorem C01_capacity_equiv : forall constraints deg, 1 <= constraints ->
  direct_route_ok constraints deg = compressed_route_ok constraints deg.
Proof. exact capacity_equiv. Qed.
Check C01_capacity_equiv : forall constraints deg, 1 <= constraints ->
  direct_route_ok constraints deg = compressed_route_ok constraints deg.
Print Assumptions C01_capacity_equiv.

(* padding 6 / blinding degree 6 / next power of two: the trimmed commit key
   always covers degree (domain size + 6), for all sizes *)
Theorem C01_trimmed_key_covers : forall constraints,
  npo2 constraints + 6 <= npo2 (constraints + 6) + 6.
Proof. exact trimmed_key_covers. Qed.
Check C01_trimmed_key_covers : forall constraints,
  npo2 constraints + 6 <= npo2 (constraints + 6) + 6.
Print Assumptions C01_trimmed_key_covers.

(* ---- algebraic completeness of the verification equation ----
   verify_eq is the definition the reference verifier runs with BLS12-381 G1 (and which is compared with the real
   verifier on every run of C03); here it is instantiated with the additive group of exponents: every "point" is
   the value of its polynomial at the SRS secret tau.  For ALL challenges and values: honest opening quotients and
   the quotient identity at z give the verdict Accept. *)
From Coq Require Import ZArith Bool.
From PlonkV Require Import Base.Fr Base.FrFacts Gates.Gate Alg.Poly Alg.FFT Protocol.G1 Protocol.RefVerifier Protocol.VerifierComplete.
Import ListNotations.
Local Open Scope fr_scope.
Section VerifierCompleteness.
Context {PR : PrimeR}.
(* values at the secret (x suffix) and at z (z suffix) of the committed polynomials *)
Variables qm_x ql_x qr_x qo_x qf_x qc_x qarith_x qlogic_x qrange_x qfixed_x qvar_x s1_x s2_x s3_x s4_x : Fr.
Variables qm_z qo_z qf_z qlogic_z qrange_z qfixed_z qvar_z s4_z zp_z t1_z t2_z t3_z t4_z : Fr.
Variables a_x b_x c_x d_x zp_x t1_x t2_x t3_x t4_x wz wzw : Fr.
Variables a_e b_e c_e d_e aw_e bw_e dw_e qa_e qc_e ql_e qr_e s1_e s2_e s3_e z_e : Fr.
Variables beta gamma alpha k_range k_logic k_fixed k_var z v vw u : Fr.
Variables (pis : list Fr) (pi_idx : list Z) (vk_n : Z) (tau : Fr).

Let vkp := [qm_x; ql_x; qr_x; qo_x; qf_x; qc_x; qarith_x; qlogic_x; qrange_x; qfixed_x; qvar_x; s1_x; s2_x; s3_x; s4_x].
Let pp := [a_x; b_x; c_x; d_x; zp_x; t1_x; t2_x; t3_x; t4_x; wz; wzw].
Let ev := [a_e; b_e; c_e; d_e; aw_e; bw_e; dw_e; qa_e; qc_e; ql_e; qr_e; s1_e; s2_e; s3_e; z_e].
Let chs := [beta; gamma; alpha; k_range; k_logic; k_fixed; k_var; z; v; vw; u].

(* the verifier's scalars *)
Let k := domain_log (Z.to_nat vk_n).
Let nF := F (2 ^ Z.of_nat k).
Let omega := domain_gen k.
Let z_n := fpow z (N.of_nat (Nat.pow 2 k)).
Let z_h := z_n - 1.
Let den0 := nF * (z - 1).
Let nz := filter (fun '(_, e) => negb (feqb e 0)) (combine pi_idx pis).
Let dens := map (fun '(i, _) => fpow (finv omega) (Z.to_N i) * z - 1) nz.
Let l1 := z_h * finv den0.
Let pi_eval := fsum_list (map (fun '((_, e), d) => finv d * e) (combine nz dens)) * z_h * finv nF.
Let r0 := pi_eval - l1 * (alpha * alpha)
          - alpha * (a_e + beta * s1_e + gamma) * (b_e + beta * s2_e + gamma) * (c_e + beta * s3_e + gamma) * (d_e + gamma) * z_e.
Let gsel := mkGate 0 ql_e qr_e 0 0 qc_e 0 1 1 1 1 O O O O.
Let w := mkWires a_e b_e c_e d_e.
Let nx := mkWires aw_e bw_e 0 dw_e.
Let perm_id := (a_e + beta * z + gamma) * (b_e + beta * F 7 * z + gamma) * (c_e + beta * F 13 * z + gamma)
               * ((d_e + beta * F 17 * z + gamma) * alpha) + l1 * (alpha * alpha).
Let perm_cp := - ((a_e + beta * s1_e + gamma) * (b_e + beta * s2_e + gamma) * (c_e + beta * s3_e + gamma) * (beta * z_e * alpha)).


Let result := verify_eq exp_group vkp pp 1 chs ev pis pi_idx vk_n tau.
Let LIN := lin a_e b_e c_e d_e aw_e bw_e dw_e qa_e qc_e ql_e qr_e s1_e s2_e s3_e z_e beta gamma alpha k_range k_logic k_fixed k_var z vk_n.

Theorem C01_verifier_accepts_honest_proof :
  (* quotient identity at z *)
  LIN qm_z ql_e qr_e qo_z qf_z qc_e qrange_z qlogic_z qfixed_z qvar_z zp_z s4_z t1_z t2_z t3_z t4_z + r0 = 0 ->
  (* W_z is the quotient opening the linearisation polynomial and the eleven batched polynomials at z *)
  wz * (tau - z)
    = (LIN qm_x ql_x qr_x qo_x qf_x qc_x qrange_x qlogic_x qfixed_x qvar_x zp_x s4_x t1_x t2_x t3_x t4_x
       - LIN qm_z ql_e qr_e qo_z qf_z qc_e qrange_z qlogic_z qfixed_z qvar_z zp_z s4_z t1_z t2_z t3_z t4_z)
      + v * (a_x - a_e) + v * v * (b_x - b_e) + v * v * v * (c_x - c_e) + v * v * v * v * (d_x - d_e)
      + fpow_nat v 5 * (s1_x - s1_e) + fpow_nat v 6 * (s2_x - s2_e) + fpow_nat v 7 * (s3_x - s3_e)
      + fpow_nat v 8 * (qarith_x - qa_e) + fpow_nat v 9 * (qc_x - qc_e) + fpow_nat v 10 * (ql_x - ql_e) + fpow_nat v 11 * (qr_x - qr_e) ->
  (* W_zw opens z, a, b, d at z * omega *)
  wzw * (tau - z * omega)
    = (zp_x - z_e) + vw * (a_x - aw_e) + vw * vw * (b_x - bw_e) + vw * vw * vw * (d_x - dw_e) ->
  (* the verifier's own guard against zero denominators *)
  feqb den0 0 || existsb (fun d => feqb d 0) dens = false ->
  result = (Accept, chs, 0).
Proof. exact (verify_eq_complete_from_quotient_identity qm_x ql_x qr_x qo_x qf_x qc_x qarith_x qlogic_x qrange_x qfixed_x qvar_x s1_x s2_x s3_x s4_x
  qm_z qo_z qf_z qlogic_z qrange_z qfixed_z qvar_z s4_z zp_z t1_z t2_z t3_z t4_z a_x b_x c_x d_x zp_x t1_x t2_x t3_x t4_x wz wzw
  a_e b_e c_e d_e aw_e bw_e dw_e qa_e qc_e ql_e qr_e s1_e s2_e s3_e z_e beta gamma alpha k_range k_logic k_fixed k_var z v vw u pis pi_idx vk_n tau). Qed.

(* the quotient identity at z IS the row identity + permutation identity + first-Lagrange term - Z_H(z) t(z),
   with the selector polynomials' values at z as the gate and PI(z) as the public input *)
Theorem C01_quotient_identity_is_row_identity :
  let G := mkGate qm_z ql_e qr_e qo_z qf_z qc_e qa_e qrange_z qlogic_z qfixed_z qvar_z O O O O in
  LIN qm_z ql_e qr_e qo_z qf_z qc_e qrange_z qlogic_z qfixed_z qvar_z zp_z s4_z t1_z t2_z t3_z t4_z + r0
  = row_sum G w nx k_range k_logic k_fixed k_var pi_eval
    + alpha * ((a_e + beta * z + gamma) * (b_e + beta * F 7 * z + gamma) * (c_e + beta * F 13 * z + gamma) * (d_e + beta * F 17 * z + gamma) * zp_z
               - (a_e + beta * s1_e + gamma) * (b_e + beta * s2_e + gamma) * (c_e + beta * s3_e + gamma) * (d_e + beta * s4_z + gamma) * z_e)
    + alpha * alpha * l1 * (zp_z - 1)
    - z_h * (t1_z + z_n * t2_z + z_n * z_n * t3_z + z_n * z_n * z_n * t4_z).
Proof. exact (quotient_identity_is_row_identity qm_z qo_z qf_z qlogic_z qrange_z qfixed_z qvar_z s4_z zp_z t1_z t2_z t3_z t4_z
  a_e b_e c_e d_e aw_e bw_e dw_e qa_e qc_e ql_e qr_e s1_e s2_e s3_e z_e beta gamma alpha k_range k_logic k_fixed k_var z pis pi_idx vk_n). Qed.
End VerifierCompleteness.
Check @C01_verifier_accepts_honest_proof.
Print Assumptions C01_verifier_accepts_honest_proof.
Check @C01_quotient_identity_is_row_identity.
Print Assumptions C01_quotient_identity_is_row_identity.
