(* C11 — Truncation and bit decomposition return the canonical bits. *)
From Coq Require Import ZArith List Bool Arith.
From PlonkV Require Import Base.Fr Base.FrFacts Gates.Gate Gates.CS Gates.CSFacts Gates.BlockFacts
  Composer.State Composer.Components Composer.ArithFacts Composer.BasicFacts Composer.RangeFacts
  Composer.DecompFacts Composer.TruncFacts.
Import ListNotations.

(* layouts: functions of the static parameters and the witness count only *)
Theorem C11_truncate_layout : forall N w s,
  rows (snd (component_truncate N w s)) = rows s ++ truncate_blk w N (length (wits s))
  /\ fst (component_truncate N w s) = length (wits s).
Proof. exact truncate_rows. Qed.
Check C11_truncate_layout : forall N w s,
  rows (snd (component_truncate N w s)) = rows s ++ truncate_blk w N (length (wits s))
  /\ fst (component_truncate N w s) = length (wits s).
Print Assumptions C11_truncate_layout.

Theorem C11_decomposition_layout : forall N scalar s,
  rows (snd (component_decomposition N scalar s)) =
    rows s ++ map arith_row (decomp_rows N scalar (length (wits s)))
  /\ fst (component_decomposition N scalar s) = decomp_bit_wires N (length (wits s)).
Proof. exact component_decomposition_rows. Qed.
Check C11_decomposition_layout : forall N scalar s,
  rows (snd (component_decomposition N scalar s)) =
    rows s ++ map arith_row (decomp_rows N scalar (length (wits s)))
  /\ fst (component_decomposition N scalar s) = decomp_bit_wires N (length (wits s)).
Print Assumptions C11_decomposition_layout.

(* the canonical guard: range-checked (high, low) with satisfied rows is < r *)
Theorem C11_canonical_guard : forall (PR : PrimeR) asg high low N base,
  (1 <= N <= 254)%nat -> asg W_ZERO = fzero ->
  (val (asg high) < 2 ^ Z.of_nat (255 - N))%Z ->
  (val (asg low) < 2 ^ Z.of_nat N)%Z ->
  block_sat (canon_blk high low N base) asg ->
  (val (asg high) * 2 ^ Z.of_nat N + val (asg low) < r)%Z.
Proof. exact @canon_sound. Qed.
Check C11_canonical_guard : forall (PR : PrimeR) asg high low N base,
  (1 <= N <= 254)%nat -> asg W_ZERO = fzero ->
  (val (asg high) < 2 ^ Z.of_nat (255 - N))%Z ->
  (val (asg low) < 2 ^ Z.of_nat N)%Z ->
  block_sat (canon_blk high low N base) asg ->
  (val (asg high) * 2 ^ Z.of_nat N + val (asg low) < r)%Z.
Print Assumptions C11_canonical_guard.

(* the truncation split (shared with the logic gadget) *)
Theorem C11_split_sound : forall (PR : PrimeR) asg input low N base,
  (1 <= N <= 254)%nat -> asg W_ZERO = fzero ->
  (val (asg low) < 2 ^ Z.of_nat N)%Z ->
  block_sat (split_blk input low N base) asg ->
  val (asg low) = (val (asg input) mod 2 ^ Z.of_nat N)%Z.
Proof. exact @split_sound. Qed.
Check C11_split_sound : forall (PR : PrimeR) asg input low N base,
  (1 <= N <= 254)%nat -> asg W_ZERO = fzero ->
  (val (asg low) < 2 ^ Z.of_nat N)%Z ->
  block_sat (split_blk input low N base) asg ->
  val (asg low) = (val (asg input) mod 2 ^ Z.of_nat N)%Z.
Print Assumptions C11_split_sound.

(* component_truncate::<N>, every N <= 254, every assignment of the internal
   wires: the returned witness is the canonical value mod 2^N *)
Theorem C11_truncate_sound : forall (PR : PrimeR) asg w N base,
  (N <= 254)%nat -> asg W_ZERO = fzero ->
  block_sat (truncate_blk w N base) asg ->
  val (asg base) = (val (asg w) mod 2 ^ Z.of_nat N)%Z.
Proof. exact @truncate_sound. Qed.
Check C11_truncate_sound : forall (PR : PrimeR) asg w N base,
  (N <= 254)%nat -> asg W_ZERO = fzero ->
  block_sat (truncate_blk w N base) asg ->
  val (asg base) = (val (asg w) mod 2 ^ Z.of_nat N)%Z.
Print Assumptions C11_truncate_sound.

(* component_decomposition::<N>, N <= 254: satisfiable only below 2^N, and the
   bits are the canonical little-endian bits *)
Theorem C11_decomposition_sound : forall (PR : PrimeR) asg N scalar base,
  (N <= 254)%nat -> asg W_ZERO = fzero ->
  Forall (arith_rel asg) (decomp_rows N scalar base) ->
  (val (asg scalar) < 2 ^ Z.of_nat N)%Z /\
  forall j, (j < N)%nat -> val (asg (base + 2 * j)%nat) = zbit (val (asg scalar)) j.
Proof. exact @decomposition_sound. Qed.
Check C11_decomposition_sound : forall (PR : PrimeR) asg N scalar base,
  (N <= 254)%nat -> asg W_ZERO = fzero ->
  Forall (arith_rel asg) (decomp_rows N scalar base) ->
  (val (asg scalar) < 2 ^ Z.of_nat N)%Z /\
  forall j, (j < N)%nat -> val (asg (base + 2 * j)%nat) = zbit (val (asg scalar)) j.
Print Assumptions C11_decomposition_sound.

(* completeness for any integer representative z < 2^N of the scalar *)
Theorem C11_decomposition_complete_any : forall (PR : PrimeR) asg z N scalar base,
  (1 <= N)%nat -> (0 <= z < 2 ^ Z.of_nat N)%Z -> asg W_ZERO = fzero ->
  (forall j, (j < N)%nat -> asg (base + 2 * j)%nat = F (zbit z j)) ->
  (forall j, (j < N)%nat -> asg (base + 2 * j + 1)%nat = F (z mod 2 ^ Z.of_nat (j + 1))) ->
  asg scalar = F z ->
  Forall (arith_rel asg) (decomp_rows N scalar base).
Proof. exact @decomposition_complete_any. Qed.
Check C11_decomposition_complete_any : forall (PR : PrimeR) asg z N scalar base,
  (1 <= N)%nat -> (0 <= z < 2 ^ Z.of_nat N)%Z -> asg W_ZERO = fzero ->
  (forall j, (j < N)%nat -> asg (base + 2 * j)%nat = F (zbit z j)) ->
  (forall j, (j < N)%nat -> asg (base + 2 * j + 1)%nat = F (z mod 2 ^ Z.of_nat (j + 1))) ->
  asg scalar = F z ->
  Forall (arith_rel asg) (decomp_rows N scalar base).
Print Assumptions C11_decomposition_complete_any.

(* KNOWN FINDING F4: the full statement is false of the faithful model for
   N = 256 (and 255): the digits of 5 + r satisfy the rows for the scalar 5. *)
Theorem C11_decomposition_alias_refuted : forall (PR : PrimeR),
  exists asg, asg W_ZERO = fzero /\
    Forall (arith_rel asg) (decomp_rows 256 6 7) /\
    val (asg 6%nat) = 5%Z /\ val (asg 7%nat) <> zbit (val (asg 6%nat)) 0.
Proof. exact @decomposition_alias_256. Qed.
Check C11_decomposition_alias_refuted : forall (PR : PrimeR),
  exists asg, asg W_ZERO = fzero /\
    Forall (arith_rel asg) (decomp_rows 256 6 7) /\
    val (asg 6%nat) = 5%Z /\ val (asg 7%nat) <> zbit (val (asg 6%nat)) 0.
Print Assumptions C11_decomposition_alias_refuted.

(* non-vacuity *)
Example C11_nonvacuous :
  let s0 := snd (append_witness (F 1000) initialized) in
  let '(low, s) := component_truncate 6%nat 6%nat s0 in
  satb (rows s) (wval s) = true /\ val (wval s low) = 40%Z.
Proof. vm_compute. split; reflexivity. Qed.

(* completeness: the witnesses the gadgets compute for a canonical input satisfy every row *)
From PlonkV Require Import Composer.RangeComplete Composer.TruncComplete.
Theorem C11_canonical_guard_complete : forall (PR : PrimeR) (asg : assignment) high low N base H L,
  (1 <= N <= 254)%nat -> asg W_ZERO = fzero ->
  asg high = F H -> asg low = F L ->
  (0 <= H)%Z -> (0 <= L < 2 ^ Z.of_nat N)%Z -> (H * 2 ^ Z.of_nat N + L < r)%Z ->
  let hb := (255 - N)%nat in
  let b4 := (S base + range_nw hb)%nat in
  let dv := (rhZ N - H)%Z in
  let gv := (if (dv =? 0)%Z then rlZ N - L else 0)%Z in
  asg base = F dv -> range_honest asg hb (S base) dv ->
  asg b4 = (if (dv =? 0)%Z then fzero else finv (F dv)) ->
  asg (S b4) = (if (dv =? 0)%Z then fzero else fone) ->
  asg (S (S b4)) = (if (dv =? 0)%Z then fone else fzero) ->
  asg (S (S (S b4))) = F (rlZ N - L) ->
  asg (S (S (S (S b4)))) = F gv -> range_honest asg N (S (S (S (S (S b4))))) gv ->
  block_sat (canon_blk high low N base) asg.
Proof. exact @canon_complete. Qed.
Check C11_canonical_guard_complete : forall (PR : PrimeR) (asg : assignment) high low N base H L,
  (1 <= N <= 254)%nat -> asg W_ZERO = fzero ->
  asg high = F H -> asg low = F L ->
  (0 <= H)%Z -> (0 <= L < 2 ^ Z.of_nat N)%Z -> (H * 2 ^ Z.of_nat N + L < r)%Z ->
  let hb := (255 - N)%nat in
  let b4 := (S base + range_nw hb)%nat in
  let dv := (rhZ N - H)%Z in
  let gv := (if (dv =? 0)%Z then rlZ N - L else 0)%Z in
  asg base = F dv -> range_honest asg hb (S base) dv ->
  asg b4 = (if (dv =? 0)%Z then fzero else finv (F dv)) ->
  asg (S b4) = (if (dv =? 0)%Z then fzero else fone) ->
  asg (S (S b4)) = (if (dv =? 0)%Z then fone else fzero) ->
  asg (S (S (S b4))) = F (rlZ N - L) ->
  asg (S (S (S (S b4)))) = F gv -> range_honest asg N (S (S (S (S (S b4))))) gv ->
  block_sat (canon_blk high low N base) asg.
Print Assumptions C11_canonical_guard_complete.

Theorem C11_split_complete : forall (PR : PrimeR) (asg : assignment) input low N base v,
  (1 <= N <= 254)%nat -> asg W_ZERO = fzero -> (0 <= v < r)%Z ->
  asg input = F v -> asg low = F (v mod 2 ^ Z.of_nat N) ->
  let hb := (255 - N)%nat in
  let Hv := (v / 2 ^ Z.of_nat N)%Z in let Lv := (v mod 2 ^ Z.of_nat N)%Z in
  let b2 := (S base + range_nw hb)%nat in
  let cb := S b2 in
  let b4 := (S cb + range_nw hb)%nat in
  let dv := (rhZ N - Hv)%Z in
  let gv := (if (dv =? 0)%Z then rlZ N - Lv else 0)%Z in
  asg base = F Hv -> range_honest asg hb (S base) Hv ->
  asg b2 = F v ->
  asg cb = F dv -> range_honest asg hb (S cb) dv ->
  asg b4 = (if (dv =? 0)%Z then fzero else finv (F dv)) ->
  asg (S b4) = (if (dv =? 0)%Z then fzero else fone) ->
  asg (S (S b4)) = (if (dv =? 0)%Z then fone else fzero) ->
  asg (S (S (S b4))) = F (rlZ N - Lv) ->
  asg (S (S (S (S b4)))) = F gv -> range_honest asg N (S (S (S (S (S b4))))) gv ->
  block_sat (split_blk input low N base) asg.
Proof. exact @split_complete. Qed.
Check C11_split_complete : forall (PR : PrimeR) (asg : assignment) input low N base v,
  (1 <= N <= 254)%nat -> asg W_ZERO = fzero -> (0 <= v < r)%Z ->
  asg input = F v -> asg low = F (v mod 2 ^ Z.of_nat N) ->
  let hb := (255 - N)%nat in
  let Hv := (v / 2 ^ Z.of_nat N)%Z in let Lv := (v mod 2 ^ Z.of_nat N)%Z in
  let b2 := (S base + range_nw hb)%nat in
  let cb := S b2 in
  let b4 := (S cb + range_nw hb)%nat in
  let dv := (rhZ N - Hv)%Z in
  let gv := (if (dv =? 0)%Z then rlZ N - Lv else 0)%Z in
  asg base = F Hv -> range_honest asg hb (S base) Hv ->
  asg b2 = F v ->
  asg cb = F dv -> range_honest asg hb (S cb) dv ->
  asg b4 = (if (dv =? 0)%Z then fzero else finv (F dv)) ->
  asg (S b4) = (if (dv =? 0)%Z then fzero else fone) ->
  asg (S (S b4)) = (if (dv =? 0)%Z then fone else fzero) ->
  asg (S (S (S b4))) = F (rlZ N - Lv) ->
  asg (S (S (S (S b4)))) = F gv -> range_honest asg N (S (S (S (S (S b4))))) gv ->
  block_sat (split_blk input low N base) asg.
Print Assumptions C11_split_complete.

Theorem C11_truncate_complete : forall (PR : PrimeR) (asg : assignment) w N base v,
  (1 <= N <= 254)%nat -> asg W_ZERO = fzero -> (0 <= v < r)%Z -> asg w = F v ->
  let Lv := (v mod 2 ^ Z.of_nat N)%Z in
  asg base = F Lv -> range_honest asg N (S base) Lv ->
  block_sat (split_blk w base N (S base + range_nw N)) asg ->
  block_sat (truncate_blk w N base) asg.
Proof. exact @truncate_complete. Qed.
Check C11_truncate_complete : forall (PR : PrimeR) (asg : assignment) w N base v,
  (1 <= N <= 254)%nat -> asg W_ZERO = fzero -> (0 <= v < r)%Z -> asg w = F v ->
  let Lv := (v mod 2 ^ Z.of_nat N)%Z in
  asg base = F Lv -> range_honest asg N (S base) Lv ->
  block_sat (split_blk w base N (S base + range_nw N)) asg ->
  block_sat (truncate_blk w N base) asg.
Print Assumptions C11_truncate_complete.
