(* C08 — Arithmetic, equality, boolean and selection components are exact.
   Only statements, closed by [exact]; Check pins each statement;
   Print Assumptions lists what each depends on. *)
From Coq Require Import ZArith List Bool.
From PlonkV Require Import Base.Fr Base.FrFacts Gates.Gate Gates.CS Gates.CSFacts
  Composer.State Composer.Components Composer.ArithFacts Composer.BasicFacts.
Import ListNotations.
Local Open Scope fr_scope.

(* The boolean row evaluator used by the correspondence check and the search
   decides [sat] / [block_sat]. *)
Theorem C08_evaluator_decides_sat : forall rows asg, satb rows asg = true <-> sat rows asg.
Proof. exact satb_spec. Qed.
Check C08_evaluator_decides_sat : forall rows asg, satb rows asg = true <-> sat rows asg.
Print Assumptions C08_evaluator_decides_sat.

(* Any block of arithmetic rows inside a satisfied system enforces exactly the
   documented relation q_M a b + q_L a + q_R b + q_O c + q_F d + q_C + PI = 0
   on every one of its rows, whatever surrounds it. *)
Theorem C08_arith_rows_in_system : forall pre cl post asg,
  sat (pre ++ map arith_row cl ++ post) asg -> Forall (arith_rel asg) cl.
Proof. exact sat_arith_block. Qed.
Check C08_arith_rows_in_system : forall pre cl post asg,
  sat (pre ++ map arith_row cl ++ post) asg -> Forall (arith_rel asg) cl.
Print Assumptions C08_arith_rows_in_system.

Theorem C08_arith_block_iff : forall asg cl,
  block_sat (map arith_row cl) asg <-> Forall (arith_rel asg) cl.
Proof. exact block_sat_arith. Qed.
Check C08_arith_block_iff : forall asg cl,
  block_sat (map arith_row cl) asg <-> Forall (arith_rel asg) cl.
Print Assumptions C08_arith_block_iff.

(* general gate: one row, internal selectors of the argument are cleared *)
Theorem C08_general_gate : forall c s,
  rows (append_gate c s) = rows s ++ [arith_row c] /\ wits (append_gate c s) = wits s
  /\ arith_row (from_external c) = arith_row c.
Proof. intros c s. exact (conj (append_gate_rows c s) (conj (append_gate_wits c s) (arith_row_from_external c))). Qed.
Check C08_general_gate : forall c s,
  rows (append_gate c s) = rows s ++ [arith_row c] /\ wits (append_gate c s) = wits s
  /\ arith_row (from_external c) = arith_row c.
Print Assumptions C08_general_gate.

Section P.
Context {PR : PrimeR}.

(* append_evaluated_output, invertible q_O: exactly one new witness whose value
   solves the relation, wired to c of exactly one new arithmetic row *)
Theorem C08_evaluated_output_some : forall c s, c_o c <> 0 ->
  exists v, let o := length (wits s) in
    append_evaluated_output c s =
      (Some o, mkCS (rows s ++ [arith_row (set_c o c)]) (wits s ++ [v]))
    /\ c_o c * v + ext_value (wval s) c = 0.
Proof. exact append_evaluated_output_some. Qed.
Check C08_evaluated_output_some : forall c s, c_o c <> 0 ->
  exists v, let o := length (wits s) in
    append_evaluated_output c s =
      (Some o, mkCS (rows s ++ [arith_row (set_c o c)]) (wits s ++ [v]))
    /\ c_o c * v + ext_value (wval s) c = 0.

(* q_O = 0: no witness, one row constraining the inputs *)
Theorem C08_evaluated_output_none : forall c s, c_o c = 0 ->
  append_evaluated_output c s = (None, mkCS (rows s ++ [arith_row c]) (wits s)).
Proof. exact append_evaluated_output_none. Qed.
Check C08_evaluated_output_none : forall c s, c_o c = 0 ->
  append_evaluated_output c s = (None, mkCS (rows s ++ [arith_row c]) (wits s)).

(* uniqueness of the output under an invertible q_O *)
Theorem C08_output_unique : forall asg c, c_o c <> 0 -> pi_coherent c ->
  arith_rel asg c -> c_o c * asg (c_wc c) + ext_value asg c = 0.
Proof. exact arith_rel_output_unique. Qed.
Check C08_output_unique : forall asg c, c_o c <> 0 -> pi_coherent c ->
  arith_rel asg c -> c_o c * asg (c_wc c) + ext_value asg c = 0.

(* gate_add / gate_mul *)
Theorem C08_gate_add : forall c s,
  let o := length (wits s) in
  gate_add c s = (o, mkCS (rows s ++ [arith_row (set_c o (set_output fm1 c))])
                          (wits s ++ [ext_value (wval s) c])).
Proof. exact gate_add_spec. Qed.
Check C08_gate_add : forall c s,
  let o := length (wits s) in
  gate_add c s = (o, mkCS (rows s ++ [arith_row (set_c o (set_output fm1 c))])
                          (wits s ++ [ext_value (wval s) c])).

Theorem C08_gate_add_iff : forall asg c o, pi_coherent c ->
  (arith_rel asg (set_c o (set_output fm1 c)) <-> asg o = ext_value asg c).
Proof. exact gate_add_rel. Qed.
Check C08_gate_add_iff : forall asg c o, pi_coherent c ->
  (arith_rel asg (set_c o (set_output fm1 c)) <-> asg o = ext_value asg c).

Theorem C08_gate_add_complete : forall c s sf ws, pi_coherent c ->
  (c_wa c < length (wits s))%nat -> (c_wb c < length (wits s))%nat ->
  (c_wd c < length (wits s))%nat ->
  wits sf = (wits s ++ [ext_value (wval s) c]) ++ ws ->
  arith_rel (wval sf) (set_c (length (wits s)) (set_output fm1 c)).
Proof. exact gate_add_honest. Qed.
Check C08_gate_add_complete : forall c s sf ws, pi_coherent c ->
  (c_wa c < length (wits s))%nat -> (c_wb c < length (wits s))%nat ->
  (c_wd c < length (wits s))%nat ->
  wits sf = (wits s ++ [ext_value (wval s) c]) ++ ws ->
  arith_rel (wval sf) (set_c (length (wits s)) (set_output fm1 c)).

(* assert_equal, assert_equal_constant, append_constant, append_public *)
Theorem C08_assert_equal : forall a b s asg,
  emits s (assert_equal a b s) [c_assert_equal a b] []
  /\ (arith_rel asg (c_assert_equal a b) <-> asg a = asg b).
Proof. intros. exact (conj (assert_equal_emits a b s) (assert_equal_iff asg a b)). Qed.
Check C08_assert_equal : forall a b s asg,
  emits s (assert_equal a b s) [c_assert_equal a b] []
  /\ (arith_rel asg (c_assert_equal a b) <-> asg a = asg b).

Theorem C08_assert_equal_constant : forall a k pub s asg,
  emits s (assert_equal_constant a k pub s) [c_assert_equal_constant a k pub] []
  /\ (arith_rel asg (c_assert_equal_constant a k pub) <-> asg a = k + pi_val pub).
Proof. intros. exact (conj (assert_equal_constant_emits a k pub s) (assert_equal_constant_iff asg a k pub)). Qed.
Check C08_assert_equal_constant : forall a k pub s asg,
  emits s (assert_equal_constant a k pub s) [c_assert_equal_constant a k pub] []
  /\ (arith_rel asg (c_assert_equal_constant a k pub) <-> asg a = k + pi_val pub).

Theorem C08_append_constant : forall k s,
  let w := length (wits s) in
  fst (append_constant k s) = w /\
  emits s (snd (append_constant k s)) [c_assert_equal_constant w k None] [k].
Proof. exact append_constant_emits. Qed.
Check C08_append_constant : forall k s,
  let w := length (wits s) in
  fst (append_constant k s) = w /\
  emits s (snd (append_constant k s)) [c_assert_equal_constant w k None] [k].

Theorem C08_append_public : forall p s asg,
  let w := length (wits s) in
  (fst (append_public p s) = w /\
   emits s (snd (append_public p s)) [c_append_public w p] [p])
  /\ (arith_rel asg (c_append_public w p) <-> asg w = p).
Proof. intros. exact (conj (append_public_emits p s) (append_public_iff asg _ p)). Qed.
Check C08_append_public : forall p s asg,
  let w := length (wits s) in
  (fst (append_public p s) = w /\
   emits s (snd (append_public p s)) [c_append_public w p] [p])
  /\ (arith_rel asg (c_append_public w p) <-> asg w = p).

(* component_boolean *)
Theorem C08_boolean : forall a s asg,
  emits s (component_boolean a s) [c_boolean a] []
  /\ (arith_rel asg (c_boolean a) <-> asg a = 0 \/ asg a = 1).
Proof. intros. exact (conj (component_boolean_emits a s) (component_boolean_iff asg a)). Qed.
Check C08_boolean : forall a s asg,
  emits s (component_boolean a s) [c_boolean a] []
  /\ (arith_rel asg (c_boolean a) <-> asg a = 0 \/ asg a = 1).

(* selection *)
Theorem C08_select_zero : forall bit value s asg,
  let o := length (wits s) in
  (fst (component_select_zero bit value s) = o /\
   emits s (snd (component_select_zero bit value s))
     [set_c o (set_output fm1 (c_mul bit value))] [wval s bit * wval s value])
  /\ (arith_rel asg (set_c o (set_output fm1 (c_mul bit value))) <-> asg o = asg bit * asg value).
Proof. intros. exact (conj (component_select_zero_emits bit value s) (component_select_zero_iff asg bit value _)). Qed.
Check C08_select_zero : forall bit value s asg,
  let o := length (wits s) in
  (fst (component_select_zero bit value s) = o /\
   emits s (snd (component_select_zero bit value s))
     [set_c o (set_output fm1 (c_mul bit value))] [wval s bit * wval s value])
  /\ (arith_rel asg (set_c o (set_output fm1 (c_mul bit value))) <-> asg o = asg bit * asg value).

Theorem C08_select_one : forall bit value s asg,
  let o := length (wits s) in
  (fst (component_select_one bit value s) = o /\
   emits s (snd (component_select_one bit value s)) [c_select_one bit value o]
     [1 - wval s bit + wval s bit * wval s value])
  /\ (arith_rel asg (c_select_one bit value o) <-> asg o = 1 - asg bit + asg bit * asg value).
Proof. intros. exact (conj (component_select_one_emits bit value s) (component_select_one_iff asg bit value _)). Qed.
Check C08_select_one : forall bit value s asg,
  let o := length (wits s) in
  (fst (component_select_one bit value s) = o /\
   emits s (snd (component_select_one bit value s)) [c_select_one bit value o]
     [1 - wval s bit + wval s bit * wval s value])
  /\ (arith_rel asg (c_select_one bit value o) <-> asg o = 1 - asg bit + asg bit * asg value).

Theorem C08_select : forall bit a b s,
  let n := length (wits s) in
  (fst (component_select bit a b s) = S (S (S n)) /\
   exists ws, length ws = 4%nat /\
     emits s (snd (component_select bit a b s)) (select_rows bit a b n) ws)
  /\ (forall asg, Forall (arith_rel asg) (select_rows bit a b n) ->
        asg (S (S (S n))) = asg bit * asg a + (1 - asg bit) * asg b).
Proof. intros. exact (conj (component_select_emits bit a b s) (fun asg => component_select_sound asg bit a b _)). Qed.
Check C08_select : forall bit a b s,
  let n := length (wits s) in
  (fst (component_select bit a b s) = S (S (S n)) /\
   exists ws, length ws = 4%nat /\
     emits s (snd (component_select bit a b s)) (select_rows bit a b n) ws)
  /\ (forall asg, Forall (arith_rel asg) (select_rows bit a b n) ->
        asg (S (S (S n))) = asg bit * asg a + (1 - asg bit) * asg b).

End P.

Print Assumptions C08_evaluated_output_some.
Print Assumptions C08_evaluated_output_none.
Print Assumptions C08_output_unique.
Print Assumptions C08_gate_add.
Print Assumptions C08_gate_add_iff.
Print Assumptions C08_gate_add_complete.
Print Assumptions C08_assert_equal.
Print Assumptions C08_assert_equal_constant.
Print Assumptions C08_append_constant.
Print Assumptions C08_append_public.
Print Assumptions C08_boolean.
Print Assumptions C08_select_zero.
Print Assumptions C08_select_one.
Print Assumptions C08_select.

(* non-vacuity: a concrete satisfied system containing such rows *)
Example C08_nonvacuous :
  satb (rows (snd (component_select 1%nat 2%nat 3%nat initialized))) (wval (snd (component_select 1%nat 2%nat 3%nat initialized))) = true.
Proof. vm_compute. reflexivity. Qed.
