(* C20 — KZG commitments and openings are exact (exponent-level model). *)
From Coq Require Import ZArith List Bool Arith.
From PlonkV Require Import Base.Fr Base.FrFacts Alg.Poly Alg.PolyFacts Alg.RootBound Protocol.Kzg Protocol.Capacity
  Gates.CS.
Import ListNotations.
Local Open Scope fr_scope.

Theorem C20_setup_powers : forall x d i, (i <= d)%nat -> nth i (srs_powers x d) 0 = fpow_nat x i.
Proof. exact srs_powers_spec. Qed.
Check C20_setup_powers : forall x d i, (i <= d)%nat -> nth i (srs_powers x d) 0 = fpow_nat x i.
Print Assumptions C20_setup_powers.

Theorem C20_trim_long_enough : forall constraints, (npo2 constraints + 6 <= npo2 (constraints + 6) + 6)%nat.
Proof. exact trimmed_key_covers. Qed.
Check C20_trim_long_enough : forall constraints, (npo2 constraints + 6 <= npo2 (constraints + 6) + 6)%nat.
Print Assumptions C20_trim_long_enough.

Theorem C20_commit_linear : forall x p q s,
  commit x (padd p q) = commit x p + commit x q /\ commit x (pscale s p) = s * commit x p.
Proof. exact commit_linear. Qed.
Check C20_commit_linear : forall x p q s,
  commit x (padd p q) = commit x p + commit x q /\ commit x (pscale s p) = s * commit x p.
Print Assumptions C20_commit_linear.

Theorem C20_commit_zero_identity : forall x n, commit x (repeat 0 n) = 0.
Proof. exact commit_zero. Qed.
Check C20_commit_zero_identity : forall x n, commit x (repeat 0 n) = 0.
Print Assumptions C20_commit_zero_identity.

Theorem C20_open_complete : forall x p z,
  single_check x (mkOpening z (commit x (ruffini p z)) (peval p z) (commit x p)) = true.
Proof. exact open_complete. Qed.
Check C20_open_complete : forall x p z,
  single_check x (mkOpening z (commit x (ruffini p z)) (peval p z) (commit x p)) = true.
Print Assumptions C20_open_complete.

(* partial (algebraic group model reading): if the identity holds as a
   polynomial identity in the secret, the claimed value is the true one *)
Theorem C20_open_exact_agm_partial : forall p q z v,
  (forall x, peval p x - v = (x - z) * peval q x) -> v = peval p z.
Proof. exact open_exact. Qed.
Check C20_open_exact_agm_partial : forall p q z v,
  (forall x, peval p x - v = (x - z) * peval q x) -> v = peval p z.
Print Assumptions C20_open_exact_agm_partial.

Theorem C20_aggregate_witness_spec : forall ps pw v x,
  peval (agg_poly ps pw v) x =
  fold_right fadd 0 (map (fun '(p, k) => pw * fpow_nat v k * peval p x) (combine ps (seq 0 (length ps)))).
Proof. exact agg_poly_eval. Qed.
Check C20_aggregate_witness_spec : forall ps pw v x,
  peval (agg_poly ps pw v) x =
  fold_right fadd 0 (map (fun '(p, k) => pw * fpow_nat v k * peval p x) (combine ps (seq 0 (length ps)))).
Print Assumptions C20_aggregate_witness_spec.

(* batched openings: pass for every challenge if all are true; if one is
   false, at most (batch size - 1) challenges let the batch pass *)
Theorem C20_batch_all_passes : forall x u os, batch_all x os = true -> batch_check_u x u os = true.
Proof. exact batch_all_passes. Qed.
Check C20_batch_all_passes : forall x u os, batch_all x os = true -> batch_check_u x u os = true.
Print Assumptions C20_batch_all_passes.

Theorem C20_batch_check_iff_all : forall (PR : PrimeR) x os us,
  NoDup us -> length us = length os -> os <> [] ->
  (forall u, In u us -> batch_check_u x u os = true) ->
  batch_all x os = true.
Proof. exact @batch_check_iff_all. Qed.
Check C20_batch_check_iff_all : forall (PR : PrimeR) x os us,
  NoDup us -> length us = length os -> os <> [] ->
  (forall u, In u us -> batch_check_u x u os = true) ->
  batch_all x os = true.
Print Assumptions C20_batch_check_iff_all.
