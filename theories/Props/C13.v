(* C13 — subgroup boundary: what assert_torsion_free_gates emits and enforces. *)
From Coq Require Import ZArith List Bool Arith.
From PlonkV Require Import Base.Fr Base.FrFacts Gates.Gate Gates.CS Gates.CSFacts
  Composer.State Composer.Components Curve.Jubjub Curve.JubjubFacts Composer.PointComponents Composer.PointFacts.
From PlonkV Require Import Curve.Assoc Curve.GroupLaw Composer.GroupCorollaries.
Import ListNotations.
Local Open Scope fr_scope.

Theorem C13_torsion_emits : forall point q s,
  rows (assert_torsion_free_gates point q s) = rows s ++ torsion_rows point (length (wits s))
  /\ length (wits (assert_torsion_free_gates point q s)) = (length (wits s) + 14)%nat.
Proof. exact assert_torsion_free_gates_rows. Qed.
Check C13_torsion_emits : forall point q s,
  rows (assert_torsion_free_gates point q s) = rows s ++ torsion_rows point (length (wits s))
  /\ length (wits (assert_torsion_free_gates point q s)) = (length (wits s) + 14)%nat.
Print Assumptions C13_torsion_emits.

(* whatever auxiliary point the prover supplies: satisfaction forces it onto
   the curve and forces point = [8] Q by three complete doublings *)
Theorem C13_torsion_sound : forall (PR : PrimeR) (ND : NonSquareD) asg point n,
  block_sat (torsion_rows point n) asg ->
  let Q := (asg n, asg (S n)) in
  on_curve Q /\
  (asg (fst point), asg (snd point)) = ed_double (ed_double (ed_double Q)).
Proof. exact @torsion_sound. Qed.
Check C13_torsion_sound : forall (PR : PrimeR) (ND : NonSquareD) asg point n,
  block_sat (torsion_rows point n) asg ->
  let Q := (asg n, asg (S n)) in
  on_curve Q /\
  (asg (fst point), asg (snd point)) = ed_double (ed_double (ed_double Q)).
Print Assumptions C13_torsion_sound.

(* consequently the constrained point is itself on the curve *)
Theorem C13_torsion_point_on_curve : forall (PR : PrimeR) (ND : NonSquareD) asg point n,
  block_sat (torsion_rows point n) asg -> on_curve (asg (fst point), asg (snd point)).
Proof.
  intros PR ND asg point n H. destruct (torsion_sound asg point n H) as [CQ E]. rewrite E.
  unfold ed_double. repeat apply ed_add_closed; exact CQ.
Qed.
Check C13_torsion_point_on_curve : forall (PR : PrimeR) (ND : NonSquareD) asg point n,
  block_sat (torsion_rows point n) asg -> on_curve (asg (fst point), asg (snd point)).
Print Assumptions C13_torsion_point_on_curve.

(* converse: an on-curve Q with point = [8]Q and honest intermediate values satisfies every row *)
Theorem C13_torsion_complete : forall (PR : PrimeR) (ND : NonSquareD) asg point n,
  let Q := (asg n, asg (S (n))) in
  let Q2 := (asg (S (S (S (S (S (S (n))))))), asg (S (S (S (S (S (S (S (n))))))))) in let Q4 := (asg (S (S (S (S (S (S (S (S (S (n)))))))))), asg (S (S (S (S (S (S (S (S (S (S (n)))))))))))) in
  let Q8 := (asg (S (S (S (S (S (S (S (S (S (S (S (S (n))))))))))))), asg (S (S (S (S (S (S (S (S (S (S (S (S (S (n))))))))))))))) in
  on_curve Q ->
  asg (S (S (n))) = asg n * asg n -> asg (S (S (S (n)))) = asg (S (n)) * asg (S (n)) -> asg (S (S (S (S (n))))) = asg (S (S (n))) * asg (S (S (S (n)))) ->
  asg (S (S (S (S (S (n)))))) = fst Q * snd Q -> Q2 = ed_add Q Q ->
  asg (S (S (S (S (S (S (S (S (n))))))))) = fst Q2 * snd Q2 -> Q4 = ed_add Q2 Q2 ->
  asg (S (S (S (S (S (S (S (S (S (S (S (n)))))))))))) = fst Q4 * snd Q4 -> Q8 = ed_add Q4 Q4 ->
  (asg (fst point), asg (snd point)) = Q8 ->
  block_sat (torsion_rows point n) asg.
Proof. exact @torsion_complete. Qed.
Check C13_torsion_complete : forall (PR : PrimeR) (ND : NonSquareD) asg point n,
  let Q := (asg n, asg (S (n))) in
  let Q2 := (asg (S (S (S (S (S (S (n))))))), asg (S (S (S (S (S (S (S (n))))))))) in let Q4 := (asg (S (S (S (S (S (S (S (S (S (n)))))))))), asg (S (S (S (S (S (S (S (S (S (S (n)))))))))))) in
  let Q8 := (asg (S (S (S (S (S (S (S (S (S (S (S (S (n))))))))))))), asg (S (S (S (S (S (S (S (S (S (S (S (S (S (n))))))))))))))) in
  on_curve Q ->
  asg (S (S (n))) = asg n * asg n -> asg (S (S (S (n)))) = asg (S (n)) * asg (S (n)) -> asg (S (S (S (S (n))))) = asg (S (S (n))) * asg (S (S (S (n)))) ->
  asg (S (S (S (S (S (n)))))) = fst Q * snd Q -> Q2 = ed_add Q Q ->
  asg (S (S (S (S (S (S (S (S (n))))))))) = fst Q2 * snd Q2 -> Q4 = ed_add Q2 Q2 ->
  asg (S (S (S (S (S (S (S (S (S (S (S (n)))))))))))) = fst Q4 * snd Q4 -> Q8 = ed_add Q4 Q4 ->
  (asg (fst point), asg (snd point)) = Q8 ->
  block_sat (torsion_rows point n) asg.
Print Assumptions C13_torsion_complete.

From PlonkV Require Import Composer.InSystem.
Theorem C13_torsion_in_system : forall (PR : PrimeR) (ND : NonSquareD) pre post asg point n,
  sat (pre ++ torsion_rows point n ++ post) asg ->
  let Q := (asg n, asg (S n)) in
  on_curve Q /\ (asg (fst point), asg (snd point)) = ed_double (ed_double (ed_double Q)).
Proof. exact @torsion_sound_in_system. Qed.
Check C13_torsion_in_system : forall (PR : PrimeR) (ND : NonSquareD) pre post asg point n,
  sat (pre ++ torsion_rows point n ++ post) asg ->
  let Q := (asg n, asg (S n)) in
  on_curve Q /\ (asg (fst point), asg (snd point)) = ed_double (ed_double (ed_double Q)).
Print Assumptions C13_torsion_in_system.

(* ---- with the group law ---- *)
(* satisfaction forces point = [8] Q for an on-curve Q *)
Theorem C13_torsion_multiple_of_8 : forall (PR : PrimeR) (ND : NonSquareD) asg point n,
  block_sat (torsion_rows point n) asg ->
  let Q := (asg n, asg (S n)) in
  on_curve Q /\ (asg (fst point), asg (snd point)) = zsmul 8 Q.
Proof. exact @torsion_sound_multiple. Qed.
Check C13_torsion_multiple_of_8 : forall (PR : PrimeR) (ND : NonSquareD) asg point n,
  block_sat (torsion_rows point n) asg ->
  let Q := (asg n, asg (S n)) in
  on_curve Q /\ (asg (fst point), asg (snd point)) = zsmul 8 Q.
Print Assumptions C13_torsion_multiple_of_8.

(* completeness at the subgroup: for every on-curve P with [rj] P = O the auxiliary
   point the gadget computes ([8^-1 mod rj] P) is on the curve and [8] of it is P *)
Theorem C13_honest_witness : forall (PR : PrimeR) (ND : NonSquareD) p,
  on_curve p -> zsmul rj p = ed_id ->
  on_curve (honest_q p) /\ ed_double (ed_double (ed_double (honest_q p))) = p.
Proof. exact @honest_q_works. Qed.
Check C13_honest_witness : forall (PR : PrimeR) (ND : NonSquareD) p,
  on_curve p -> zsmul rj p = ed_id ->
  on_curve (honest_q p) /\ ed_double (ed_double (ed_double (honest_q p))) = p.
Print Assumptions C13_honest_witness.

(* partial: GIVEN the order of the curve group (8 * rj, a premise: point counting is not
   mechanised) every accepted point lies in the prime-order subgroup *)
Theorem C13_subgroup_given_curve_order_partial : forall (PR : PrimeR) (ND : NonSquareD) asg point n,
  (forall q, on_curve q -> zsmul (8 * rj) q = ed_id) ->
  block_sat (torsion_rows point n) asg ->
  zsmul rj (asg (fst point), asg (snd point)) = ed_id.
Proof. exact @torsion_sound_subgroup_assuming_order. Qed.
Check C13_subgroup_given_curve_order_partial : forall (PR : PrimeR) (ND : NonSquareD) asg point n,
  (forall q, on_curve q -> zsmul (8 * rj) q = ed_id) ->
  block_sat (torsion_rows point n) asg ->
  zsmul rj (asg (fst point), asg (snd point)) = ed_id.
Print Assumptions C13_subgroup_given_curve_order_partial.
