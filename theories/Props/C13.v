(* C13 — subgroup boundary: what assert_torsion_free_gates emits and enforces. *)
From Coq Require Import ZArith List Bool Arith.
From PlonkV Require Import Base.Fr Base.FrFacts Gates.Gate Gates.CS Gates.CSFacts
  Composer.State Composer.Components Curve.Jubjub Curve.JubjubFacts Composer.PointComponents Composer.PointFacts.
Import ListNotations.
Local Open Scope fr_scope.

Theorem C13_torsion_emits : forall point q s,
  rows (assert_torsion_free_gates point q s) = rows s ++ torsion_rows point (length (wits s))
  /\ length (wits (assert_torsion_free_gates point q s)) = (length (wits s) + 14)%nat.
Proof. exact assert_torsion_free_gates_rows. Qed.
Check C13_torsion_emits : forall point q s,
  rows (assert_torsion_free_gates point q s) = rows s ++ torsion_rows point (length (wits s))
  /\ length (wits (assert_torsion_free_gates point q s)) = (length (wits s) + 14)%nat.
Print Assumptions C13_torsion_emits.

(* whatever auxiliary point the prover supplies: satisfaction forces it onto
   the curve and forces point = [8] Q by three complete doublings *)
Theorem C13_torsion_sound : forall (PR : PrimeR) (ND : NonSquareD) asg point n,
  block_sat (torsion_rows point n) asg ->
  let Q := (asg n, asg (S n)) in
  on_curve Q /\
  (asg (fst point), asg (snd point)) = ed_double (ed_double (ed_double Q)).
Proof. exact @torsion_sound. Qed.
Check C13_torsion_sound : forall (PR : PrimeR) (ND : NonSquareD) asg point n,
  block_sat (torsion_rows point n) asg ->
  let Q := (asg n, asg (S n)) in
  on_curve Q /\
  (asg (fst point), asg (snd point)) = ed_double (ed_double (ed_double Q)).
Print Assumptions C13_torsion_sound.

(* consequently the constrained point is itself on the curve *)
Theorem C13_torsion_point_on_curve : forall (PR : PrimeR) (ND : NonSquareD) asg point n,
  block_sat (torsion_rows point n) asg -> on_curve (asg (fst point), asg (snd point)).
Proof.
  intros PR ND asg point n H. destruct (torsion_sound asg point n H) as [CQ E]. rewrite E.
  unfold ed_double. repeat apply ed_add_closed; exact CQ.
Qed.
Check C13_torsion_point_on_curve : forall (PR : PrimeR) (ND : NonSquareD) asg point n,
  block_sat (torsion_rows point n) asg -> on_curve (asg (fst point), asg (snd point)).
Print Assumptions C13_torsion_point_on_curve.

(* converse: an on-curve Q with point = [8]Q and honest intermediate values satisfies every row *)
Theorem C13_torsion_complete : forall (PR : PrimeR) (ND : NonSquareD) asg point n,
  let Q := (asg n, asg (S (n))) in
  let Q2 := (asg (S (S (S (S (S (S (n))))))), asg (S (S (S (S (S (S (S (n))))))))) in let Q4 := (asg (S (S (S (S (S (S (S (S (S (n)))))))))), asg (S (S (S (S (S (S (S (S (S (S (n)))))))))))) in
  let Q8 := (asg (S (S (S (S (S (S (S (S (S (S (S (S (n))))))))))))), asg (S (S (S (S (S (S (S (S (S (S (S (S (S (n))))))))))))))) in
  on_curve Q ->
  asg (S (S (n))) = asg n * asg n -> asg (S (S (S (n)))) = asg (S (n)) * asg (S (n)) -> asg (S (S (S (S (n))))) = asg (S (S (n))) * asg (S (S (S (n)))) ->
  asg (S (S (S (S (S (n)))))) = fst Q * snd Q -> Q2 = ed_add Q Q ->
  asg (S (S (S (S (S (S (S (S (n))))))))) = fst Q2 * snd Q2 -> Q4 = ed_add Q2 Q2 ->
  asg (S (S (S (S (S (S (S (S (S (S (S (n)))))))))))) = fst Q4 * snd Q4 -> Q8 = ed_add Q4 Q4 ->
  (asg (fst point), asg (snd point)) = Q8 ->
  block_sat (torsion_rows point n) asg.
Proof. exact @torsion_complete. Qed.
Check C13_torsion_complete : forall (PR : PrimeR) (ND : NonSquareD) asg point n,
  let Q := (asg n, asg (S (n))) in
  let Q2 := (asg (S (S (S (S (S (S (n))))))), asg (S (S (S (S (S (S (S (n))))))))) in let Q4 := (asg (S (S (S (S (S (S (S (S (S (n)))))))))), asg (S (S (S (S (S (S (S (S (S (S (n)))))))))))) in
  let Q8 := (asg (S (S (S (S (S (S (S (S (S (S (S (S (n))))))))))))), asg (S (S (S (S (S (S (S (S (S (S (S (S (S (n))))))))))))))) in
  on_curve Q ->
  asg (S (S (n))) = asg n * asg n -> asg (S (S (S (n)))) = asg (S (n)) * asg (S (n)) -> asg (S (S (S (S (n))))) = asg (S (S (n))) * asg (S (S (S (n)))) ->
  asg (S (S (S (S (S (n)))))) = fst Q * snd Q -> Q2 = ed_add Q Q ->
  asg (S (S (S (S (S (S (S (S (n))))))))) = fst Q2 * snd Q2 -> Q4 = ed_add Q2 Q2 ->
  asg (S (S (S (S (S (S (S (S (S (S (S (n)))))))))))) = fst Q4 * snd Q4 -> Q8 = ed_add Q4 Q4 ->
  (asg (fst point), asg (snd point)) = Q8 ->
  block_sat (torsion_rows point n) asg.
Print Assumptions C13_torsion_complete.

From PlonkV Require Import Composer.InSystem.
Theorem C13_torsion_in_system : forall (PR : PrimeR) (ND : NonSquareD) pre post asg point n,
  sat (pre ++ torsion_rows point n ++ post) asg ->
  let Q := (asg n, asg (S n)) in
  on_curve Q /\ (asg (fst point), asg (snd point)) = ed_double (ed_double (ed_double Q)).
Proof. exact @torsion_sound_in_system. Qed.
Check C13_torsion_in_system : forall (PR : PrimeR) (ND : NonSquareD) pre post asg point n,
  sat (pre ++ torsion_rows point n ++ post) asg ->
  let Q := (asg n, asg (S n)) in
  on_curve Q /\ (asg (fst point), asg (snd point)) = ed_double (ed_double (ed_double Q)).
Print Assumptions C13_torsion_in_system.
