(* C19 — FFT and polynomial kernels equal their mathematical definitions. *)
From Coq Require Import ZArith List Bool Arith.
From PlonkV Require Import Base.Fr Base.FrFacts Alg.Poly Alg.PolyFacts Alg.FFT Alg.FFTFacts.
From PlonkV Require Import Alg.Lagrange.
Import ListNotations.
Local Open Scope fr_scope.

(* the radix-2 transform is the DFT for every size 2^k and every root w with
   w^(2^(k-1)) = -1 *)
Theorem C19_fft_rec_is_dft : forall k w a,
  length a = Nat.pow 2 k ->
  ((0 < k)%nat -> fpow_nat w (Nat.pow 2 (k - 1)) = - (1)) ->
  fft_rec k w a = dft w (Nat.pow 2 k) a.
Proof. exact fft_rec_is_dft. Qed.
Check C19_fft_rec_is_dft : forall k w a,
  length a = Nat.pow 2 k ->
  ((0 < k)%nat -> fpow_nat w (Nat.pow 2 (k - 1)) = - (1)) ->
  fft_rec k w a = dft w (Nat.pow 2 k) a.
Print Assumptions C19_fft_rec_is_dft.

(* the generator of every domain 2^1..2^32 is a primitive root *)
Theorem C19_domain_roots : forall k, (1 <= k <= 32)%nat ->
  fpow_nat (domain_gen k) (Nat.pow 2 (k - 1)) = - (1) /\ fpow_nat (domain_gen k) (Nat.pow 2 k) = 1.
Proof. intros k H. split; [apply domain_gen_half; exact H|apply domain_gen_order; apply H]. Qed.
Check C19_domain_roots : forall k, (1 <= k <= 32)%nat ->
  fpow_nat (domain_gen k) (Nat.pow 2 (k - 1)) = - (1) /\ fpow_nat (domain_gen k) (Nat.pow 2 k) = 1.
Print Assumptions C19_domain_roots.

(* forward FFT of ANY coefficient vector (shorter, equal or longer than the
   domain) = direct evaluation on the subgroup; coset variant on g*H *)
Theorem C19_fft_is_evaluation : forall num_coeffs p,
  (domain_log num_coeffs <= 32)%nat ->
  let k := domain_log num_coeffs in
  fft num_coeffs p = map (peval p) (powers (domain_gen k) (Nat.pow 2 k)).
Proof. exact fft_is_evaluation. Qed.
Check C19_fft_is_evaluation : forall num_coeffs p,
  (domain_log num_coeffs <= 32)%nat ->
  let k := domain_log num_coeffs in
  fft num_coeffs p = map (peval p) (powers (domain_gen k) (Nat.pow 2 k)).
Print Assumptions C19_fft_is_evaluation.

Theorem C19_coset_fft_is_evaluation : forall num_coeffs p,
  (domain_log num_coeffs <= 32)%nat ->
  let k := domain_log num_coeffs in
  coset_fft num_coeffs p =
    map (fun w => peval p (coset_gen * w)) (powers (domain_gen k) (Nat.pow 2 k)).
Proof. exact coset_fft_is_evaluation. Qed.
Check C19_coset_fft_is_evaluation : forall num_coeffs p,
  (domain_log num_coeffs <= 32)%nat ->
  let k := domain_log num_coeffs in
  coset_fft num_coeffs p =
    map (fun w => peval p (coset_gen * w)) (powers (domain_gen k) (Nat.pow 2 k)).
Print Assumptions C19_coset_fft_is_evaluation.

Theorem C19_ifft_is_scaled_dft : forall (PR : PrimeR) num_coeffs ev,
  (domain_log num_coeffs <= 32)%nat ->
  let k := domain_log num_coeffs in
  ifft num_coeffs ev =
    map (fun x => size_inv k * peval (resize (Nat.pow 2 k) ev) x)
        (powers (finv (domain_gen k)) (Nat.pow 2 k)).
Proof. exact @ifft_is_scaled_dft. Qed.
Check C19_ifft_is_scaled_dft : forall (PR : PrimeR) num_coeffs ev,
  (domain_log num_coeffs <= 32)%nat ->
  let k := domain_log num_coeffs in
  ifft num_coeffs ev =
    map (fun x => size_inv k * peval (resize (Nat.pow 2 k) ev) x)
        (powers (finv (domain_gen k)) (Nat.pow 2 k)).
Print Assumptions C19_ifft_is_scaled_dft.

(* every worker-thread count: the split butterfly of best_fft is the serial one *)
Theorem C19_parallel_butterfly_serial : forall threads left right wm,
  (1 <= threads)%nat -> length left = length right ->
  parallel_butterfly threads left right wm = butterfly_range left right wm 1.
Proof. exact parallel_butterfly_serial. Qed.
Check C19_parallel_butterfly_serial : forall threads left right wm,
  (1 <= threads)%nat -> length left = length right ->
  parallel_butterfly threads left right wm = butterfly_range left right wm 1.
Print Assumptions C19_parallel_butterfly_serial.

(* polynomial arithmetic acts on evaluations as the ring operations *)
Theorem C19_poly_ops : forall p q s x,
  peval (padd p q) x = peval p x + peval q x /\
  peval (psub p q) x = peval p x - peval q x /\
  peval (pmul p q) x = peval p x * peval q x /\
  peval (pscale s p) x = s * peval p x /\
  peval (ptrim p) x = peval p x.
Proof.
  intros. repeat split; [apply peval_padd|apply peval_psub|apply peval_pmul|apply peval_pscale|apply peval_ptrim].
Qed.
Check C19_poly_ops : forall p q s x,
  peval (padd p q) x = peval p x + peval q x /\
  peval (psub p q) x = peval p x - peval q x /\
  peval (pmul p q) x = peval p x * peval q x /\
  peval (pscale s p) x = s * peval p x /\
  peval (ptrim p) x = peval p x.
Print Assumptions C19_poly_ops.

(* division by a linear factor *)
Theorem C19_ruffini : forall p z x, peval p x = (x - z) * peval (ruffini p z) x + peval p z.
Proof. exact ruffini_spec. Qed.
Check C19_ruffini : forall p z x, peval p x = (x - z) * peval (ruffini p z) x + peval p z.
Print Assumptions C19_ruffini.

(* non-vacuity: a size-8 transform of a length-11 vector *)
Example C19_nonvacuous :
  map val (fft 8 (map F [1;2;3;4;5;6;7;8;9;10;11]%Z)) =
  map (fun w => val (peval (map F [1;2;3;4;5;6;7;8;9;10;11]%Z) w)) (powers (domain_gen 3) 8).
Proof. vm_compute. reflexivity. Qed.

(* forward and inverse transforms are mutually inverse *)
From PlonkV Require Import Alg.FFTInverse.
Theorem C19_fft_rec_inverse : forall (PR : PrimeR) k w a,
  length a = Nat.pow 2 k -> w <> fzero ->
  ((0 < k)%nat -> fpow_nat w (Nat.pow 2 (k - 1)) = fopp fone) ->
  fft_rec k (finv w) (fft_rec k w a) = map (fmul (F (2 ^ Z.of_nat k))) a.
Proof. exact @fft_rec_inverse. Qed.
Check C19_fft_rec_inverse : forall (PR : PrimeR) k w a,
  length a = Nat.pow 2 k -> w <> fzero ->
  ((0 < k)%nat -> fpow_nat w (Nat.pow 2 (k - 1)) = fopp fone) ->
  fft_rec k (finv w) (fft_rec k w a) = map (fmul (F (2 ^ Z.of_nat k))) a.
Print Assumptions C19_fft_rec_inverse.

Theorem C19_ifft_fft : forall (PR : PrimeR) num_coeffs p,
  (domain_log num_coeffs <= 32)%nat ->
  let k := domain_log num_coeffs in
  ifft num_coeffs (fft num_coeffs p) = fold_mod (Nat.pow 2 k) p.
Proof. exact @ifft_fft. Qed.
Check C19_ifft_fft : forall (PR : PrimeR) num_coeffs p,
  (domain_log num_coeffs <= 32)%nat ->
  let k := domain_log num_coeffs in
  ifft num_coeffs (fft num_coeffs p) = fold_mod (Nat.pow 2 k) p.
Print Assumptions C19_ifft_fft.

Theorem C19_fft_ifft : forall (PR : PrimeR) num_coeffs ev,
  (domain_log num_coeffs <= 32)%nat ->
  let k := domain_log num_coeffs in
  fft num_coeffs (ifft num_coeffs ev) = resize (Nat.pow 2 k) ev.
Proof. exact @fft_ifft. Qed.
Check C19_fft_ifft : forall (PR : PrimeR) num_coeffs ev,
  (domain_log num_coeffs <= 32)%nat ->
  let k := domain_log num_coeffs in
  fft num_coeffs (ifft num_coeffs ev) = resize (Nat.pow 2 k) ev.
Print Assumptions C19_fft_ifft.

(* ---- closed forms equal their definitions ---- *)
(* the vanishing polynomial X^n - 1 is zero exactly on the domain *)
Theorem C19_vanishing_iff_domain : forall (PR : PrimeR) k tau, (1 <= k <= 32)%nat ->
  vanishing_eval k tau = fzero <-> In tau (powers (domain_gen k) (Nat.pow 2 k)).
Proof. exact @vanishing_iff_domain. Qed.
Check C19_vanishing_iff_domain : forall (PR : PrimeR) k tau, (1 <= k <= 32)%nat ->
  vanishing_eval k tau = fzero <-> In tau (powers (domain_gen k) (Nat.pow 2 k)).
Print Assumptions C19_vanishing_iff_domain.

(* compute_vanishing_poly_over_coset(d), as coded by repeated multiplication, tabulates X^d - 1 on g*H
   for every degree d *)
Theorem C19_vanishing_over_coset : forall k d i, (i < Nat.pow 2 k)%nat ->
  nth i (vanishing_over_coset k d) fzero = fsub (fpow_nat (fmul coset_gen (fpow_nat (domain_gen k) i)) d) fone.
Proof. exact vanishing_over_coset_spec. Qed.
Check C19_vanishing_over_coset : forall k d i, (i < Nat.pow 2 k)%nat ->
  nth i (vanishing_over_coset k d) fzero = fsub (fpow_nat (fmul coset_gen (fpow_nat (domain_gen k) i)) d) fone.
Print Assumptions C19_vanishing_over_coset.

(* evaluate_all_lagrange_coefficients(tau)[i] = (interpolant of the i-th unit vector)(tau),
   for tau inside or outside the domain *)
Theorem C19_lagrange_is_interpolant : forall (PR : PrimeR) num_coeffs tau i,
  (domain_log num_coeffs <= 32)%nat ->
  let k := domain_log num_coeffs in
  (i < Nat.pow 2 k)%nat ->
  nth i (lagrange_all k tau) fzero = peval (ifft num_coeffs (unit_vec (Nat.pow 2 k) i)) tau.
Proof. exact @lagrange_is_interpolant. Qed.
Check C19_lagrange_is_interpolant : forall (PR : PrimeR) num_coeffs tau i,
  (domain_log num_coeffs <= 32)%nat ->
  let k := domain_log num_coeffs in
  (i < Nat.pow 2 k)%nat ->
  nth i (lagrange_all k tau) fzero = peval (ifft num_coeffs (unit_vec (Nat.pow 2 k) i)) tau.
Print Assumptions C19_lagrange_is_interpolant.

(* barycentric evaluation of an evaluation vector = its interpolating polynomial at the point *)
Theorem C19_barycentric_is_interpolant : forall (PR : PrimeR) num_coeffs evals point,
  (domain_log num_coeffs <= 32)%nat ->
  let k := domain_log num_coeffs in
  length evals = Nat.pow 2 k ->
  interp_eval k evals point = peval (ifft num_coeffs evals) point.
Proof. exact @interp_eval_is_interpolant. Qed.
Check C19_barycentric_is_interpolant : forall (PR : PrimeR) num_coeffs evals point,
  (domain_log num_coeffs <= 32)%nat ->
  let k := domain_log num_coeffs in
  length evals = Nat.pow 2 k ->
  interp_eval k evals point = peval (ifft num_coeffs evals) point.
Print Assumptions C19_barycentric_is_interpolant.

(* Montgomery's trick as coded (forward prefix products, one inversion, backward pass)
   = entry-wise inversion that leaves zeros *)
Theorem C19_batch_inversion_montgomery : forall (PR : PrimeR) v,
  fst (montgomery v fone) = batch_inversion v
  /\ (forall i, nth i v fzero <> fzero -> fmul (nth i v fzero) (nth i (batch_inversion v) fzero) = fone)
  /\ (forall i, nth i v fzero = fzero -> nth i (batch_inversion v) fzero = fzero).
Proof.
  intros PR v. split; [apply batch_inversion_montgomery|]. split; intros i H.
  - apply batch_inversion_inverts; exact H.
  - apply batch_inversion_zeros; exact H.
Qed.
Check C19_batch_inversion_montgomery : forall (PR : PrimeR) v,
  fst (montgomery v fone) = batch_inversion v
  /\ (forall i, nth i v fzero <> fzero -> fmul (nth i v fzero) (nth i (batch_inversion v) fzero) = fone)
  /\ (forall i, nth i v fzero = fzero -> nth i (batch_inversion v) fzero = fzero).
Print Assumptions C19_batch_inversion_montgomery.
