(* C07 — Circuit shape is independent of witness values. *)
From Coq Require Import ZArith List Bool Arith.
From PlonkV Require Import Composer.PointComponents Composer.PointShape.
From PlonkV Require Import Base.Fr Gates.Gate Gates.CS
  Composer.State Composer.Components Composer.ArithFacts Composer.BasicFacts Composer.RangeFacts
  Composer.DecompFacts Composer.TruncFacts Composer.LogicFacts Composer.ShapeFacts.
Import ListNotations.

(* shape = gates with their public-input rows, and the number of witnesses *)
Theorem C07_append_witness : forall v v' s s', shape s = shape s' ->
  fst (append_witness v s) = fst (append_witness v' s') /\
  shape (snd (append_witness v s)) = shape (snd (append_witness v' s')).
Proof. exact append_witness_shape. Qed.
Check C07_append_witness : forall v v' s s', shape s = shape s' ->
  fst (append_witness v s) = fst (append_witness v' s') /\
  shape (snd (append_witness v s)) = shape (snd (append_witness v' s')).
Print Assumptions C07_append_witness.

Theorem C07_append_gate : forall c, shape_indep (unit_run (append_gate c)).
Proof. exact append_gate_shape. Qed.
Check C07_append_gate : forall c, shape_indep (unit_run (append_gate c)).
Print Assumptions C07_append_gate.

Theorem C07_append_evaluated_output : forall c, shape_indep (append_evaluated_output c).
Proof. exact append_evaluated_output_shape. Qed.
Check C07_append_evaluated_output : forall c, shape_indep (append_evaluated_output c).
Print Assumptions C07_append_evaluated_output.

Theorem C07_gate_add : forall c, shape_indep (gate_add c).
Proof. exact gate_add_shape. Qed.
Check C07_gate_add : forall c, shape_indep (gate_add c).
Print Assumptions C07_gate_add.

Theorem C07_select : forall bit a b, shape_indep (component_select bit a b).
Proof. exact component_select_shape. Qed.
Check C07_select : forall bit a b, shape_indep (component_select bit a b).
Print Assumptions C07_select.

Theorem C07_range : forall w nb, shape_indep (unit_run (range_check w nb)).
Proof. exact range_check_shape. Qed.
Check C07_range : forall w nb, shape_indep (unit_run (range_check w nb)).
Print Assumptions C07_range.

Theorem C07_decomposition : forall N scalar, shape_indep (component_decomposition N scalar).
Proof. exact component_decomposition_shape. Qed.
Check C07_decomposition : forall N scalar, shape_indep (component_decomposition N scalar).
Print Assumptions C07_decomposition.

Theorem C07_truncate : forall N w, shape_indep (component_truncate N w).
Proof. exact component_truncate_shape. Qed.
Check C07_truncate : forall N w, shape_indep (component_truncate N w).
Print Assumptions C07_truncate.

Theorem C07_logic : forall P a b x, shape_indep (append_logic_component P a b x).
Proof. exact logic_component_shape. Qed.
Check C07_logic : forall P a b x, shape_indep (append_logic_component P a b x).
Print Assumptions C07_logic.

(* and programs built from such components are shape independent *)
Theorem C07_sequence : forall A B (f : cs -> A * cs) (g : A -> cs -> B * cs),
  shape_indep f -> (forall a, shape_indep (g a)) ->
  shape_indep (fun s => let '(a, s1) := f s in g a s1).
Proof. exact @shape_indep_seq. Qed.
Check C07_sequence : forall A B (f : cs -> A * cs) (g : A -> cs -> B * cs),
  shape_indep f -> (forall a, shape_indep (g a)) ->
  shape_indep (fun s => let '(a, s1) := f s in g a s1).
Print Assumptions C07_sequence.

(* curve-point components (see also C12_add_emits, C13_torsion_emits, C14_canonical_emits) *)
Theorem C07_point_add : forall a b, shape_indep (add_point_gates a b).
Proof. exact add_point_gates_shape_indep. Qed.
Check C07_point_add : forall a b, shape_indep (add_point_gates a b).
Print Assumptions C07_point_add.

Theorem C07_point_neg : forall p, shape_indep (component_neg_point p).
Proof. exact component_neg_point_shape_indep. Qed.
Check C07_point_neg : forall p, shape_indep (component_neg_point p).
Print Assumptions C07_point_neg.

Theorem C07_point_select_identity : forall (PR : PrimeR) bit a, shape_indep (select_identity_gates bit a).
Proof. exact @select_identity_gates_shape_indep. Qed.
Check C07_point_select_identity : forall (PR : PrimeR) bit a, shape_indep (select_identity_gates bit a).
Print Assumptions C07_point_select_identity.

Theorem C07_point_torsion : forall point, shape_indep (unit_run (assert_torsion_free_point point)).
Proof. exact assert_torsion_free_point_shape_indep. Qed.
Check C07_point_torsion : forall point, shape_indep (unit_run (assert_torsion_free_point point)).
Print Assumptions C07_point_torsion.

Theorem C07_point_mul : forall (PR : PrimeR) jubjub point, shape_indep (component_mul_point jubjub point).
Proof. exact @component_mul_point_shape_indep. Qed.
Check C07_point_mul : forall (PR : PrimeR) jubjub point, shape_indep (component_mul_point jubjub point).
Print Assumptions C07_point_mul.

Theorem C07_canonical_scalar : forall scalar, shape_indep (unit_run (assert_canonical_jubjub_scalar scalar)).
Proof. exact assert_canonical_shape_indep. Qed.
Check C07_canonical_scalar : forall scalar, shape_indep (unit_run (assert_canonical_jubjub_scalar scalar)).
Print Assumptions C07_canonical_scalar.

Example C07_nonvacuous :
  shape (snd (component_truncate 9%nat 6%nat (snd (append_witness (F 5) initialized)))) =
  shape (snd (component_truncate 9%nat 6%nat (snd (append_witness (F 123456789) initialized)))).
Proof. vm_compute. reflexivity. Qed.
