(* C12 — curve-group components compute the JubJub group law.
   Hypotheses carried by the statements: PrimeR (r prime) and NonSquareD
   (the curve parameter d is not a square in Fr). *)
From Coq Require Import ZArith List Bool Arith.
From PlonkV Require Import Base.Fr Base.FrFacts Gates.Gate Gates.CS Gates.CSFacts
  Composer.State Composer.Components Composer.ArithFacts Composer.BasicFacts Composer.RangeFacts
  Composer.DecompFacts Curve.Jubjub Curve.JubjubFacts Composer.PointComponents Composer.PointFacts.
From PlonkV Require Import Curve.Assoc Curve.GroupLaw Composer.GroupCorollaries.
Import ListNotations.
Local Open Scope fr_scope.

(* the addition law has no exceptional case on the curve *)
Theorem C12_law_complete : forall (PR : PrimeR) (ND : NonSquareD) p q,
  on_curve p -> on_curve q -> (1 + ed_t p q) * (1 - ed_t p q) <> 0.
Proof. exact @ed_complete. Qed.
Check C12_law_complete : forall (PR : PrimeR) (ND : NonSquareD) p q,
  on_curve p -> on_curve q -> (1 + ed_t p q) * (1 - ed_t p q) <> 0.
Print Assumptions C12_law_complete.

Theorem C12_law_closed : forall (PR : PrimeR) (ND : NonSquareD) p q,
  on_curve p -> on_curve q -> on_curve (ed_add p q).
Proof. exact @ed_add_closed. Qed.
Check C12_law_closed : forall (PR : PrimeR) (ND : NonSquareD) p q,
  on_curve p -> on_curve q -> on_curve (ed_add p q).
Print Assumptions C12_law_closed.

Theorem C12_law_inverse : forall (PR : PrimeR) (ND : NonSquareD) p,
  on_curve p -> ed_add p (ed_neg p) = ed_id.
Proof. exact @ed_add_neg. Qed.
Check C12_law_inverse : forall (PR : PrimeR) (ND : NonSquareD) p,
  on_curve p -> ed_add p (ed_neg p) = ed_id.
Print Assumptions C12_law_inverse.

(* component_add_point: what is emitted and what it enforces *)
Theorem C12_add_emits : forall a b s,
  let n := length (wits s) in
  let p1 := pval s a in let p2 := pval s b in
  add_point_gates a b s =
    ((S n, S (S n)),
     mkCS (rows s ++ var_rows a b n (S n) (S (S n)))
          (wits s ++ [fst p1 * snd p2; fst (ed_add p1 p2); snd (ed_add p1 p2)])).
Proof. exact add_point_gates_spec. Qed.
Check C12_add_emits : forall a b s,
  let n := length (wits s) in
  let p1 := pval s a in let p2 := pval s b in
  add_point_gates a b s =
    ((S n, S (S n)),
     mkCS (rows s ++ var_rows a b n (S n) (S (S n)))
          (wits s ++ [fst p1 * snd p2; fst (ed_add p1 p2); snd (ed_add p1 p2)])).
Print Assumptions C12_add_emits.

Theorem C12_add_rows_iff : forall (PR : PrimeR) asg a b t x3 y3,
  block_sat (var_rows a b t x3 y3) asg <-> var_rel asg a b t x3 y3.
Proof. exact @var_rows_iff. Qed.
Check C12_add_rows_iff : forall (PR : PrimeR) asg a b t x3 y3,
  block_sat (var_rows a b t x3 y3) asg <-> var_rel asg a b t x3 y3.
Print Assumptions C12_add_rows_iff.

Theorem C12_add_unique : forall (PR : PrimeR) (ND : NonSquareD) asg a b t x3 y3,
  let p := (asg (fst a), asg (snd a)) in let q := (asg (fst b), asg (snd b)) in
  on_curve p -> on_curve q -> var_rel asg a b t x3 y3 ->
  (asg x3, asg y3) = ed_add p q /\ on_curve (asg x3, asg y3).
Proof. exact @var_rel_sound. Qed.
Check C12_add_unique : forall (PR : PrimeR) (ND : NonSquareD) asg a b t x3 y3,
  let p := (asg (fst a), asg (snd a)) in let q := (asg (fst b), asg (snd b)) in
  on_curve p -> on_curve q -> var_rel asg a b t x3 y3 ->
  (asg x3, asg y3) = ed_add p q /\ on_curve (asg x3, asg y3).
Print Assumptions C12_add_unique.

Theorem C12_add_satisfiable : forall (PR : PrimeR) (ND : NonSquareD) asg a b t x3 y3,
  let p := (asg (fst a), asg (snd a)) in let q := (asg (fst b), asg (snd b)) in
  on_curve p -> on_curve q ->
  asg t = fst p * snd q -> (asg x3, asg y3) = ed_add p q -> var_rel asg a b t x3 y3.
Proof. exact @var_rel_complete. Qed.
Check C12_add_satisfiable : forall (PR : PrimeR) (ND : NonSquareD) asg a b t x3 y3,
  let p := (asg (fst a), asg (snd a)) in let q := (asg (fst b), asg (snd b)) in
  on_curve p -> on_curve q ->
  asg t = fst p * snd q -> (asg x3, asg y3) = ed_add p q -> var_rel asg a b t x3 y3.
Print Assumptions C12_add_satisfiable.

(* negation (and, with it, subtraction = negation followed by addition) *)
Theorem C12_neg : forall (PR : PrimeR) asg x o, arith_rel asg (c_neg x o) <-> asg o = - asg x.
Proof. exact @neg_rel. Qed.
Check C12_neg : forall (PR : PrimeR) asg x o, arith_rel asg (c_neg x o) <-> asg o = - asg x.
Print Assumptions C12_neg.

Theorem C12_neg_emits : forall p s,
  let n := length (wits s) in
  fst (component_neg_point p s) = (n, snd p) /\
  rows (snd (component_neg_point p s)) = rows s ++ [arith_row (c_neg (fst p) n)] /\
  length (wits (snd (component_neg_point p s))) = S n.
Proof. exact component_neg_point_rows. Qed.
Check C12_neg_emits : forall p s,
  let n := length (wits s) in
  fst (component_neg_point p s) = (n, snd p) /\
  rows (snd (component_neg_point p s)) = rows s ++ [arith_row (c_neg (fst p) n)] /\
  length (wits (snd (component_neg_point p s))) = S n.
Print Assumptions C12_neg_emits.

(* select_identity: boolean bit => the input or the identity; the boolean row
   itself is C08's component_boolean (unsatisfiable for any other value) *)
Theorem C12_select_identity : forall (PR : PrimeR) asg bit a n,
  asg bit = 0 \/ asg bit = 1 ->
  Forall (arith_rel asg) (selid_rows bit a n) ->
  (asg n, asg (S n)) = if feqb (asg bit) 1 then (asg (fst a), asg (snd a)) else ed_id.
Proof. exact @selid_point. Qed.
Check C12_select_identity : forall (PR : PrimeR) asg bit a n,
  asg bit = 0 \/ asg bit = 1 ->
  Forall (arith_rel asg) (selid_rows bit a n) ->
  (asg n, asg (S n)) = if feqb (asg bit) 1 then (asg (fst a), asg (snd a)) else ed_id.
Print Assumptions C12_select_identity.

Theorem C12_select_identity_bit_boolean : forall (PR : PrimeR) asg a,
  arith_rel asg (c_boolean a) <-> asg a = 0 \/ asg a = 1.
Proof. exact @component_boolean_iff. Qed.
Check C12_select_identity_bit_boolean : forall (PR : PrimeR) asg a,
  arith_rel asg (c_boolean a) <-> asg a = 0 \/ asg a = 1.
Print Assumptions C12_select_identity_bit_boolean.

Theorem C12_select_point : forall (PR : PrimeR) asg bit a b n,
  Forall (arith_rel asg) (select_rows bit a b n) ->
  asg (S (S (S n))) = asg bit * asg a + (1 - asg bit) * asg b.
Proof. exact @component_select_sound. Qed.
Check C12_select_point : forall (PR : PrimeR) asg bit a b n,
  Forall (arith_rel asg) (select_rows bit a b n) ->
  asg (S (S (S n))) = asg bit * asg a + (1 - asg bit) * asg b.
Print Assumptions C12_select_point.

(* component_mul_point: rows and soundness for every scalar witness *)
Theorem C12_mul_point_emits : forall (PR : PrimeR) jubjub point s,
  let n := length (wits s) in
  rows (snd (component_mul_point jubjub point s)) = rows s ++ mul_point_rows jubjub point n
  /\ fst (component_mul_point jubjub point s) = mul_point_result point n.
Proof. exact @component_mul_point_rows. Qed.
Check C12_mul_point_emits : forall (PR : PrimeR) jubjub point s,
  let n := length (wits s) in
  rows (snd (component_mul_point jubjub point s)) = rows s ++ mul_point_rows jubjub point n
  /\ fst (component_mul_point jubjub point s) = mul_point_result point n.
Print Assumptions C12_mul_point_emits.

Theorem C12_mul_point_sound : forall (PR : PrimeR) (ND : NonSquareD) asg jubjub point n,
  let P := (asg (fst point), asg (snd point)) in
  asg W_ZERO = 0 -> asg W_ONE = 1 -> on_curve P ->
  block_sat (mul_point_rows jubjub point n) asg ->
  let res := mul_point_result point n in
  (val (asg jubjub) < 2 ^ 252)%Z /\
  (asg (fst res), asg (snd res)) = ed_mul (val (asg jubjub)) P /\
  on_curve (asg (fst res), asg (snd res)).
Proof. exact @mul_point_sound. Qed.
Check C12_mul_point_sound : forall (PR : PrimeR) (ND : NonSquareD) asg jubjub point n,
  let P := (asg (fst point), asg (snd point)) in
  asg W_ZERO = 0 -> asg W_ONE = 1 -> on_curve P ->
  block_sat (mul_point_rows jubjub point n) asg ->
  let res := mul_point_result point n in
  (val (asg jubjub) < 2 ^ 252)%Z /\
  (asg (fst res), asg (snd res)) = ed_mul (val (asg jubjub)) P /\
  on_curve (asg (fst res), asg (snd res)).
Print Assumptions C12_mul_point_sound.

(* evidence for the hypothesis NonSquareD: d^((r-1)/2) = -1 (closed computation) *)
Theorem C12_d_euler_criterion : fpow ed_d (Z.to_N ((r - 1) / 2)) = - (1).
Proof. exact ed_d_euler. Qed.
Check C12_d_euler_criterion : fpow ed_d (Z.to_N ((r - 1) / 2)) = - (1).
Print Assumptions C12_d_euler_criterion.

(* subtraction and identity selection: what they emit; subtraction is addition of the negation *)
Theorem C12_sub_emits : forall a b s,
  let n := length (wits s) in
  fst (component_sub_point a b s) = (S (S n), S (S (S n))) /\
  rows (snd (component_sub_point a b s)) =
    rows s ++ [arith_row (c_neg (fst b) n)] ++ var_rows a (n, snd b) (S n) (S (S n)) (S (S (S n))) /\
  length (wits (snd (component_sub_point a b s))) = S (S (S (S n))).
Proof. exact component_sub_point_rows. Qed.
Check C12_sub_emits : forall a b s,
  let n := length (wits s) in
  fst (component_sub_point a b s) = (S (S n), S (S (S n))) /\
  rows (snd (component_sub_point a b s)) =
    rows s ++ [arith_row (c_neg (fst b) n)] ++ var_rows a (n, snd b) (S n) (S (S n)) (S (S (S n))) /\
  length (wits (snd (component_sub_point a b s))) = S (S (S (S n))).
Print Assumptions C12_sub_emits.

Theorem C12_sub_sound : forall (PR : PrimeR) (ND : NonSquareD) asg a b n,
  let P := (asg (fst a), asg (snd a)) in let Q := (asg (fst b), asg (snd b)) in
  on_curve P -> on_curve Q ->
  block_sat ([arith_row (c_neg (fst b) n)] ++ var_rows a (n, snd b) (S n) (S (S n)) (S (S (S n)))) asg ->
  (asg (S (S n)), asg (S (S (S n)))) = ed_add P (ed_neg Q).
Proof. exact @sub_point_sound. Qed.
Check C12_sub_sound : forall (PR : PrimeR) (ND : NonSquareD) asg a b n,
  let P := (asg (fst a), asg (snd a)) in let Q := (asg (fst b), asg (snd b)) in
  on_curve P -> on_curve Q ->
  block_sat ([arith_row (c_neg (fst b) n)] ++ var_rows a (n, snd b) (S n) (S (S n)) (S (S (S n)))) asg ->
  (asg (S (S n)), asg (S (S (S n)))) = ed_add P (ed_neg Q).
Print Assumptions C12_sub_sound.

Theorem C12_select_identity_emits : forall (PR : PrimeR) bit a s,
  let n := length (wits s) in
  fst (component_select_identity bit a s) = (n, S n) /\
  rows (snd (component_select_identity bit a s)) =
    rows s ++ map arith_row (c_boolean bit :: selid_rows bit a n) /\
  length (wits (snd (component_select_identity bit a s))) = S (S n).
Proof. exact @component_select_identity_rows. Qed.
Check C12_select_identity_emits : forall (PR : PrimeR) bit a s,
  let n := length (wits s) in
  fst (component_select_identity bit a s) = (n, S n) /\
  rows (snd (component_select_identity bit a s)) =
    rows s ++ map arith_row (c_boolean bit :: selid_rows bit a n) /\
  length (wits (snd (component_select_identity bit a s))) = S (S n).
Print Assumptions C12_select_identity_emits.

(* inside any larger satisfied system *)
From PlonkV Require Import Composer.InSystem.
Theorem C12_add_in_system : forall (PR : PrimeR) (ND : NonSquareD) pre post asg a b t x3 y3,
  let p := (asg (fst a), asg (snd a)) in let q := (asg (fst b), asg (snd b)) in
  on_curve p -> on_curve q ->
  sat (pre ++ var_rows a b t x3 y3 ++ post) asg ->
  (asg x3, asg y3) = ed_add p q /\ on_curve (asg x3, asg y3).
Proof. exact @add_sound_in_system. Qed.
Check C12_add_in_system : forall (PR : PrimeR) (ND : NonSquareD) pre post asg a b t x3 y3,
  let p := (asg (fst a), asg (snd a)) in let q := (asg (fst b), asg (snd b)) in
  on_curve p -> on_curve q ->
  sat (pre ++ var_rows a b t x3 y3 ++ post) asg ->
  (asg x3, asg y3) = ed_add p q /\ on_curve (asg x3, asg y3).
Print Assumptions C12_add_in_system.

Theorem C12_mul_point_in_system : forall (PR : PrimeR) (ND : NonSquareD) pre post asg jubjub point n,
  let P := (asg (fst point), asg (snd point)) in
  asg W_ZERO = 0 -> asg W_ONE = 1 -> on_curve P ->
  sat (pre ++ mul_point_rows jubjub point n ++ post) asg ->
  let res := mul_point_result point n in
  (val (asg jubjub) < 2 ^ 252)%Z /\
  (asg (fst res), asg (snd res)) = ed_mul (val (asg jubjub)) P /\
  on_curve (asg (fst res), asg (snd res)).
Proof. exact @mul_point_sound_in_system. Qed.
Check C12_mul_point_in_system : forall (PR : PrimeR) (ND : NonSquareD) pre post asg jubjub point n,
  let P := (asg (fst point), asg (snd point)) in
  asg W_ZERO = 0 -> asg W_ONE = 1 -> on_curve P ->
  sat (pre ++ mul_point_rows jubjub point n ++ post) asg ->
  let res := mul_point_result point n in
  (val (asg jubjub) < 2 ^ 252)%Z /\
  (asg (fst res), asg (snd res)) = ed_mul (val (asg jubjub)) P /\
  on_curve (asg (fst res), asg (snd res)).
Print Assumptions C12_mul_point_in_system.

(* ---- the group law: associativity, and the components compute scalar multiples ---- *)
Theorem C12_law_assoc : forall (PR : PrimeR) (ND : NonSquareD) p q s,
  on_curve p -> on_curve q -> on_curve s -> ed_add (ed_add p q) s = ed_add p (ed_add q s).
Proof. exact @ed_add_assoc. Qed.
Check C12_law_assoc : forall (PR : PrimeR) (ND : NonSquareD) p q s,
  on_curve p -> on_curve q -> on_curve s -> ed_add (ed_add p q) s = ed_add p (ed_add q s).
Print Assumptions C12_law_assoc.

(* integer multiples (repeated addition / negation) form a homomorphism Z -> curve *)
Theorem C12_scalar_multiple_hom : forall (PR : PrimeR) (ND : NonSquareD) j k p,
  on_curve p -> zsmul (j + k) p = ed_add (zsmul j p) (zsmul k p).
Proof. exact @zsmul_add. Qed.
Check C12_scalar_multiple_hom : forall (PR : PrimeR) (ND : NonSquareD) j k p,
  on_curve p -> zsmul (j + k) p = ed_add (zsmul j p) (zsmul k p).
Print Assumptions C12_scalar_multiple_hom.

(* dusk-jubjub's MSB-first double-and-add IS the scalar multiple *)
Theorem C12_ladder_is_scalar_multiple : forall (PR : PrimeR) (ND : NonSquareD) k p,
  on_curve p -> (0 <= k < 2 ^ 252)%Z -> ed_mul k p = zsmul k p.
Proof. exact @ed_mul_is_scalar_multiple. Qed.
Check C12_ladder_is_scalar_multiple : forall (PR : PrimeR) (ND : NonSquareD) k p,
  on_curve p -> (0 <= k < 2 ^ 252)%Z -> ed_mul k p = zsmul k p.
Print Assumptions C12_ladder_is_scalar_multiple.

(* component_mul_point: any satisfying assignment of its rows has result = [scalar] P *)
Theorem C12_mul_point_scalar_multiple : forall (PR : PrimeR) (ND : NonSquareD) asg jubjub point n,
  let P := (asg (fst point), asg (snd point)) in
  asg W_ZERO = fzero -> asg W_ONE = fone -> on_curve P ->
  block_sat (mul_point_rows jubjub point n) asg ->
  let res := mul_point_result point n in
  (val (asg jubjub) < 2 ^ 252)%Z /\
  (asg (fst res), asg (snd res)) = zsmul (val (asg jubjub)) P.
Proof. exact @mul_point_scalar_multiple. Qed.
Check C12_mul_point_scalar_multiple : forall (PR : PrimeR) (ND : NonSquareD) asg jubjub point n,
  let P := (asg (fst point), asg (snd point)) in
  asg W_ZERO = fzero -> asg W_ONE = fone -> on_curve P ->
  block_sat (mul_point_rows jubjub point n) asg ->
  let res := mul_point_result point n in
  (val (asg jubjub) < 2 ^ 252)%Z /\
  (asg (fst res), asg (snd res)) = zsmul (val (asg jubjub)) P.
Print Assumptions C12_mul_point_scalar_multiple.
