(* C02 — soundness, the mechanised parts (partial by nature: KZG knowledge
   binding and Fiat-Shamir in the random-oracle model are assumptions, see
   DESIGN.md; the beta-gamma step of the permutation argument is proved in
   deterministic counting form at the end of this file). *)
From Coq Require Import ZArith List Bool Arith Permutation.
From PlonkV Require Import Base.Fr Base.FrFacts Gates.Gate Gates.CS Gates.CSFacts Gates.Separation
  Alg.Poly Alg.RootBound Protocol.Kzg.
Import ListNotations.
Local Open Scope fr_scope.

(* a non-zero polynomial of length <= d + 1 cannot vanish at d + 1 distinct
   points: the verifier's identity P(z) = 0 holds for at most deg P values of z
   unless P is identically zero *)
Theorem C02_accept_bad_z_bound : forall (PR : PrimeR) n p roots,
  (length p <= n)%nat -> NoDup roots -> length roots = n ->
  (forall z, In z roots -> peval p z = 0) -> all_zero p.
Proof. exact @roots_all_zero. Qed.
Check C02_accept_bad_z_bound : forall (PR : PrimeR) n p roots,
  (length p <= n)%nat -> NoDup roots -> length roots = n ->
  (forall z, In z roots -> peval p z = 0) -> all_zero p.
Print Assumptions C02_accept_bad_z_bound.

(* if the combined identity of a row holds for the separation challenges of a
   large enough grid, every widget component of the row holds *)
Theorem C02_rows_sat_outside_bad_challenges : forall (PR : PrimeR) g w n pi Sr Sl Sf Sv,
  NoDup Sr -> NoDup Sl -> NoDup Sf -> NoDup Sv ->
  length Sr = 8%nat -> length Sl = 10%nat -> length Sf = 8%nat -> length Sv = 6%nat ->
  (forall kr kl kf kv, In kr Sr -> In kl Sl -> In kf Sf -> In kv Sv ->
     row_sum g w n kr kl kf kv pi = 0) ->
  row_ok g w n pi.
Proof. exact @row_sum_grid_row_ok. Qed.
Check C02_rows_sat_outside_bad_challenges : forall (PR : PrimeR) g w n pi Sr Sl Sf Sv,
  NoDup Sr -> NoDup Sl -> NoDup Sf -> NoDup Sv ->
  length Sr = 8%nat -> length Sl = 10%nat -> length Sf = 8%nat -> length Sv = 6%nat ->
  (forall kr kl kf kv, In kr Sr -> In kl Sl -> In kf Sf -> In kv Sv ->
     row_sum g w n kr kl kf kv pi = 0) ->
  row_ok g w n pi.
Print Assumptions C02_rows_sat_outside_bad_challenges.

(* an opening whose check holds as a polynomial identity in the SRS secret
   carries the true evaluation (algebraic-group-model reading of KZG) *)
Theorem C02_opening_exact_agm_partial : forall p q z v,
  (forall x, peval p x - v = (x - z) * peval q x) -> v = peval p z.
Proof. exact open_exact. Qed.
Check C02_opening_exact_agm_partial : forall p q z v,
  (forall x, peval p x - v = (x - z) * peval q x) -> v = peval p z.
Print Assumptions C02_opening_exact_agm_partial.

(* the executable evaluator used as oracle decides row satisfaction *)
Theorem C02_row_evaluator_exact : forall rows asg, satb rows asg = true <-> sat rows asg.
Proof. exact satb_spec. Qed.
Check C02_row_evaluator_exact : forall rows asg, satb rows asg = true <-> sat rows asg.
Print Assumptions C02_row_evaluator_exact.

(* the beta-gamma step of the permutation argument, deterministic form: for ANY finite set of positions with
   pairwise distinct labels, if the grand product closes on a grid of more than N^2 betas x more than N gammas
   then the wire values are invariant under the permutation.  (Converse of C05_grand_product_closes.) *)
From PlonkV Require Import Alg.PermArg Alg.PermSound.
Theorem C02_permutation_argument_sound : forall (PR : PrimeR) (pos : Type) (ps : list pos) (sigma : pos -> pos) (ident wv : pos -> Fr) (Bs Gs : list Fr),
  NoDup ps -> Permutation (map sigma ps) ps ->
  (forall p q, In p ps -> In q ps -> ident p = ident q -> p = q) ->
  (Z.of_nat (S (length ps)) <= r)%Z ->
  NoDup Bs -> (length ps * length ps < length Bs)%nat ->
  NoDup Gs -> (length ps < length Gs)%nat ->
  (forall beta gamma, In beta Bs -> In gamma Gs ->
     fprod (map (numerator pos ident wv beta gamma) ps) = fprod (map (denominator pos sigma ident wv beta gamma) ps)) ->
  forall p, In p ps -> wv (sigma p) = wv p.
Proof. intros PR pos ps sigma ident wv Bs Gs H1 H2 H3. exact (closing_forces_copies pos ps sigma ident wv H1 H2 H3 Bs Gs). Qed.
Check C02_permutation_argument_sound : forall (PR : PrimeR) (pos : Type) (ps : list pos) (sigma : pos -> pos) (ident wv : pos -> Fr) (Bs Gs : list Fr),
  NoDup ps -> Permutation (map sigma ps) ps ->
  (forall p q, In p ps -> In q ps -> ident p = ident q -> p = q) ->
  (Z.of_nat (S (length ps)) <= r)%Z ->
  NoDup Bs -> (length ps * length ps < length Bs)%nat ->
  NoDup Gs -> (length ps < length Gs)%nat ->
  (forall beta gamma, In beta Bs -> In gamma Gs ->
     fprod (map (numerator pos ident wv beta gamma) ps) = fprod (map (denominator pos sigma ident wv beta gamma) ps)) ->
  forall p, In p ps -> wv (sigma p) = wv p.
Print Assumptions C02_permutation_argument_sound.
