(* C02 — soundness, the mechanised parts (partial by nature: KZG knowledge
   binding, Fiat-Shamir in the random-oracle model and the bivariate
   beta-gamma step are assumptions, see DESIGN.md). *)
From Coq Require Import ZArith List Bool Arith Permutation.
From PlonkV Require Import Base.Fr Base.FrFacts Gates.Gate Gates.CS Gates.CSFacts Gates.Separation
  Alg.Poly Alg.RootBound Protocol.Kzg.
Import ListNotations.
Local Open Scope fr_scope.

(* a non-zero polynomial of length <= d + 1 cannot vanish at d + 1 distinct
   points: the verifier's identity P(z) = 0 holds for at most deg P values of z
   unless P is identically zero *)
Theorem C02_accept_bad_z_bound : forall (PR : PrimeR) n p roots,
  (length p <= n)%nat -> NoDup roots -> length roots = n ->
  (forall z, In z roots -> peval p z = 0) -> all_zero p.
Proof. exact @roots_all_zero. Qed.
Check C02_accept_bad_z_bound : forall (PR : PrimeR) n p roots,
  (length p <= n)%nat -> NoDup roots -> length roots = n ->
  (forall z, In z roots -> peval p z = 0) -> all_zero p.
Print Assumptions C02_accept_bad_z_bound.

(* if the combined identity of a row holds for the separation challenges of a
   large enough grid, every widget component of the row holds *)
Theorem C02_rows_sat_outside_bad_challenges : forall (PR : PrimeR) g w n pi Sr Sl Sf Sv,
  NoDup Sr -> NoDup Sl -> NoDup Sf -> NoDup Sv ->
  length Sr = 8%nat -> length Sl = 10%nat -> length Sf = 8%nat -> length Sv = 6%nat ->
  (forall kr kl kf kv, In kr Sr -> In kl Sl -> In kf Sf -> In kv Sv ->
     row_sum g w n kr kl kf kv pi = 0) ->
  row_ok g w n pi.
Proof. exact @row_sum_grid_row_ok. Qed.
Check C02_rows_sat_outside_bad_challenges : forall (PR : PrimeR) g w n pi Sr Sl Sf Sv,
  NoDup Sr -> NoDup Sl -> NoDup Sf -> NoDup Sv ->
  length Sr = 8%nat -> length Sl = 10%nat -> length Sf = 8%nat -> length Sv = 6%nat ->
  (forall kr kl kf kv, In kr Sr -> In kl Sl -> In kf Sf -> In kv Sv ->
     row_sum g w n kr kl kf kv pi = 0) ->
  row_ok g w n pi.
Print Assumptions C02_rows_sat_outside_bad_challenges.

(* an opening whose check holds as a polynomial identity in the SRS secret
   carries the true evaluation (algebraic-group-model reading of KZG) *)
Theorem C02_opening_exact_agm_partial : forall p q z v,
  (forall x, peval p x - v = (x - z) * peval q x) -> v = peval p z.
Proof. exact open_exact. Qed.
Check C02_opening_exact_agm_partial : forall p q z v,
  (forall x, peval p x - v = (x - z) * peval q x) -> v = peval p z.
Print Assumptions C02_opening_exact_agm_partial.

(* the executable evaluator used as oracle decides row satisfaction *)
Theorem C02_row_evaluator_exact : forall rows asg, satb rows asg = true <-> sat rows asg.
Proof. exact satb_spec. Qed.
Check C02_row_evaluator_exact : forall rows asg, satb rows asg = true <-> sat rows asg.
Print Assumptions C02_row_evaluator_exact.
