(* C16 — Serialization round trips (length-prefixed layouts). *)
From Coq Require Import NArith List Bool Arith.
From PlonkV Require Import Codec.Bytes.
Import ListNotations.

Theorem C16_le_roundtrip : forall n v, (v < 256 ^ N.of_nat n)%N -> le_value (le_bytes n v) = v.
Proof. exact le_roundtrip. Qed.
Check C16_le_roundtrip : forall n v, (v < 256 ^ N.of_nat n)%N -> le_value (le_bytes n v) = v.
Print Assumptions C16_le_roundtrip.

(* a length-prefixed vector of fixed-size elements decodes to itself, leaving
   the rest of the input, for every element codec that round-trips *)
Theorem C16_vec_roundtrip : forall (A : Type) k (enc : A -> bytes) dec,
  (forall x, length (enc x) = k) -> (forall x, dec (enc x) = Some x) ->
  forall xs rest, (N.of_nat (length xs) < 256 ^ 8)%N ->
  decode_vec k dec (encode_vec enc xs ++ rest) = Some (xs, rest).
Proof. intros A k enc dec H1 H2. exact (vec_roundtrip k enc dec H1 H2). Qed.
Check C16_vec_roundtrip : forall (A : Type) k (enc : A -> bytes) dec,
  (forall x, length (enc x) = k) -> (forall x, dec (enc x) = Some x) ->
  forall xs rest, (N.of_nat (length xs) < 256 ^ 8)%N ->
  decode_vec k dec (encode_vec enc xs ++ rest) = Some (xs, rest).
Print Assumptions C16_vec_roundtrip.

(* the bytes of a sequence of vectors of ARBITRARY (different) lengths: size
   is the sum of the actual sizes (what serialization_size must reserve, F1),
   and the sequence round-trips *)
Theorem C16_prover_key_size_exact : forall (A : Type) k (enc : A -> bytes),
  (forall x, length (enc x) = k) -> forall vs,
  length (encode_vecs enc vs) = fold_right (fun v acc => 8 + k * length v + acc) 0 vs.
Proof. intros A k enc H. exact (vecs_size k enc H). Qed.
Check C16_prover_key_size_exact : forall (A : Type) k (enc : A -> bytes),
  (forall x, length (enc x) = k) -> forall vs,
  length (encode_vecs enc vs) = fold_right (fun v acc => 8 + k * length v + acc) 0 vs.
Print Assumptions C16_prover_key_size_exact.

Theorem C16_vecs_roundtrip : forall (A : Type) k (enc : A -> bytes) dec,
  (forall x, length (enc x) = k) -> (forall x, dec (enc x) = Some x) ->
  forall vs rest, Forall (fun v => (N.of_nat (length v) < 256 ^ 8)%N) vs ->
  decode_vecs k dec (length vs) (encode_vecs enc vs ++ rest) = Some (vs, rest).
Proof. intros A k enc dec H1 H2. exact (vecs_roundtrip k enc dec H1 H2). Qed.
Check C16_vecs_roundtrip : forall (A : Type) k (enc : A -> bytes) dec,
  (forall x, length (enc x) = k) -> (forall x, dec (enc x) = Some x) ->
  forall vs rest, Forall (fun v => (N.of_nat (length v) < 256 ^ 8)%N) vs ->
  decode_vecs k dec (length vs) (encode_vecs enc vs ++ rest) = Some (vs, rest).
Print Assumptions C16_vecs_roundtrip.
