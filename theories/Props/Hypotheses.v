(* The two hypotheses carried by the property statements, PrimeR (the scalar
   modulus r is prime) and NonSquareD (the Jubjub parameter d is not a square),
   are theorems of the development: every statement of Props/C*.v can be
   instantiated with them, leaving no hypothesis about the constants.
   - r prime: Lucas certificate (full factorisation of r-1, witness 7), checked
     by vm_compute inside the kernel; Fermat's little theorem from MathComp.
   - d non-square: Euler criterion value d^((r-1)/2) = -1 and Fermat. *)
From Coq Require Import ZArith Znumtheory.
From PlonkV Require Import Base.Fr Base.PrimeRHolds Gates.Gate Curve.Jubjub Curve.JubjubFacts Curve.NonSquare.
Local Open Scope fr_scope.

Theorem HYP_prime_r : prime r.
Proof. exact prime_r_holds. Qed.
Check HYP_prime_r : prime r.
Print Assumptions HYP_prime_r.

Theorem HYP_nonsquare_d : forall s : Fr, s * s <> ed_d.
Proof. exact (@nonsquare_d_holds prime_r_holds). Qed.
Check HYP_nonsquare_d : forall s : Fr, s * s <> ed_d.
Print Assumptions HYP_nonsquare_d.

(* the classes are inhabited without arguments *)
Check (prime_r_holds : PrimeR).
Check (nonsquare_d_holds : NonSquareD).
