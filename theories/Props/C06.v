(* C06 — zero-knowledge masking. *)
From Coq Require Import ZArith List Bool Arith.
From PlonkV Require Import Base.Fr Base.FrFacts Alg.Poly Alg.PolyFacts Protocol.Blinding.
Import ListNotations.
Local Open Scope fr_scope.

Theorem C06_blind_is_mask : forall coeffs bs x, (length bs <= length coeffs)%nat ->
  peval (blind coeffs bs) x = peval coeffs x + peval bs x * (fpow_nat x (length coeffs) - 1).
Proof. exact blind_is_mask. Qed.
Check C06_blind_is_mask : forall coeffs bs x, (length bs <= length coeffs)%nat ->
  peval (blind coeffs bs) x = peval coeffs x + peval bs x * (fpow_nat x (length coeffs) - 1).
Print Assumptions C06_blind_is_mask.

Theorem C06_mask_vanishes_on_domain : forall coeffs bs x,
  (length bs <= length coeffs)%nat -> fpow_nat x (length coeffs) = 1 ->
  peval (blind coeffs bs) x = peval coeffs x.
Proof. exact blind_on_domain. Qed.
Check C06_mask_vanishes_on_domain : forall coeffs bs x,
  (length bs <= length coeffs)%nat -> fpow_nat x (length coeffs) = 1 ->
  peval (blind coeffs bs) x = peval coeffs x.
Print Assumptions C06_mask_vanishes_on_domain.

Theorem C06_fresh_mask_changes_opening : forall coeffs bs bs' x,
  (length bs <= length coeffs)%nat -> (length bs' <= length coeffs)%nat ->
  peval (blind coeffs bs) x - peval (blind coeffs bs') x =
  (peval bs x - peval bs' x) * (fpow_nat x (length coeffs) - 1).
Proof. exact fresh_mask_changes_opening. Qed.
Check C06_fresh_mask_changes_opening : forall coeffs bs bs' x,
  (length bs <= length coeffs)%nat -> (length bs' <= length coeffs)%nat ->
  peval (blind coeffs bs) x - peval (blind coeffs bs') x =
  (peval bs x - peval bs' x) * (fpow_nat x (length coeffs) - 1).
Print Assumptions C06_fresh_mask_changes_opening.

Theorem C06_split_rerandomised : forall n tl tm th t4 b12 b13 b14 x,
  let tl' := padd tl (xn n [b12]) in
  let tm' := padd (psub tm [b12]) (xn n [b13]) in
  let th' := padd (psub th [b13]) (xn n [b14]) in
  let t4' := psub t4 [b14] in
  let xN := fpow_nat x n in
  peval tl' x + xN * peval tm' x + xN * xN * peval th' x + xN * xN * xN * peval t4' x
  = peval tl x + xN * peval tm x + xN * xN * peval th x + xN * xN * xN * peval t4 x.
Proof. exact split_rerandomised. Qed.
Check C06_split_rerandomised : forall n tl tm th t4 b12 b13 b14 x,
  let tl' := padd tl (xn n [b12]) in
  let tm' := padd (psub tm [b12]) (xn n [b13]) in
  let th' := padd (psub th [b13]) (xn n [b14]) in
  let t4' := psub t4 [b14] in
  let xN := fpow_nat x n in
  peval tl' x + xN * peval tm' x + xN * xN * peval th' x + xN * xN * xN * peval t4' x
  = peval tl x + xN * peval tm x + xN * xN * peval th x + xN * xN * xN * peval t4 x.
Print Assumptions C06_split_rerandomised.
