(* C04 — a proof binds its statement. *)
From Coq Require Import ZArith List Bool Arith.
From PlonkV Require Import Base.Fr Base.FrFacts Alg.Poly Alg.RootBound Protocol.Keccak Protocol.VerifierFacts.
Import ListNotations.

(* two different public-input polynomials (degree < n) agree at fewer than n
   evaluation points: if they agree on n distinct points they are equal *)
Theorem C04_pi_eval_injective : forall (PR : PrimeR) n p q pts,
  (length p <= n)%nat -> (length q <= n)%nat -> NoDup pts -> length pts = n ->
  (forall z, In z pts -> peval p z = peval q z) -> forall x, peval p x = peval q x.
Proof. exact @agree_on_n_points_equal. Qed.
Check C04_pi_eval_injective : forall (PR : PrimeR) n p q pts,
  (length p <= n)%nat -> (length q <= n)%nat -> NoDup pts -> length pts = n ->
  (forall z, In z pts -> peval p z = peval q z) -> forall x, peval p x = peval q x.
Print Assumptions C04_pi_eval_injective.

(* label, sizes, commitments and public inputs are absorbed length-framed *)
Theorem C04_statement_framing_injective : forall (m1 m2 r1 r2 : list Z),
  (Z.of_nat (length m1) < 256 ^ 4)%Z -> (Z.of_nat (length m2) < 256 ^ 4)%Z ->
  le32 (length m1) ++ m1 ++ r1 = le32 (length m2) ++ m2 ++ r2 ->
  m1 = m2 /\ r1 = r2.
Proof. exact frame_injective. Qed.
Check C04_statement_framing_injective : forall (m1 m2 r1 r2 : list Z),
  (Z.of_nat (length m1) < 256 ^ 4)%Z -> (Z.of_nat (length m2) < 256 ^ 4)%Z ->
  le32 (length m1) ++ m1 ++ r1 = le32 (length m2) ++ m2 ++ r2 ->
  m1 = m2 /\ r1 = r2.
Print Assumptions C04_statement_framing_injective.
