(* C09 — Range check admits exactly the interval [0, 2^BITS). *)
From Coq Require Import ZArith List Bool Arith.
From PlonkV Require Import Base.Fr Base.FrFacts Gates.Gate Gates.CS Gates.CSFacts Gates.BlockFacts
  Composer.State Composer.Components Composer.ArithFacts Composer.BasicFacts Composer.RangeFacts.
Import ListNotations.

(* The gates the range check emits are a function of the wire, the width and
   the number of witnesses allocated before the call -- nothing else. *)
Theorem C09_range_layout : forall w nb s,
  rows (range_check w nb s) = rows s ++ range_blk w nb (length (wits s)).
Proof. exact range_check_rows. Qed.
Check C09_range_layout : forall w nb s,
  rows (range_check w nb s) = rows s ++ range_blk w nb (length (wits s)).
Print Assumptions C09_range_layout.

Theorem C09_range_block_closed : forall w nb base, closed_block (range_blk w nb base).
Proof. exact range_blk_closed. Qed.
Check C09_range_block_closed : forall w nb base, closed_block (range_blk w nb base).
Print Assumptions C09_range_block_closed.

(* Soundness, every width 0..254 (even or odd), every assignment of the
   internal accumulators: if the rows of the gadget are satisfied (and the
   constant-zero witness is zero), the canonical value is below 2^width. *)
Theorem C09_range_sound : forall (PR : PrimeR) w nb base asg,
  (nb <= 254)%nat -> asg W_ZERO = fzero ->
  block_sat (range_blk w nb base) asg ->
  (val (asg w) < 2 ^ Z.of_nat nb)%Z.
Proof. exact @range_sound. Qed.
Check C09_range_sound : forall (PR : PrimeR) w nb base asg,
  (nb <= 254)%nat -> asg W_ZERO = fzero ->
  block_sat (range_blk w nb base) asg ->
  (val (asg w) < 2 ^ Z.of_nat nb)%Z.
Print Assumptions C09_range_sound.

(* ... and the same inside any satisfied constraint system containing it *)
Theorem C09_range_sound_in_system : forall (PR : PrimeR) pre post w nb base asg,
  (nb <= 254)%nat -> asg W_ZERO = fzero ->
  sat (pre ++ range_blk w nb base ++ post) asg ->
  (val (asg w) < 2 ^ Z.of_nat nb)%Z.
Proof.
  intros PR pre post w nb base asg H1 H2 H3.
  exact (range_sound w nb base asg H1 H2 (sat_block pre _ post asg H3 (range_blk_closed w nb base))).
Qed.
Check C09_range_sound_in_system : forall (PR : PrimeR) pre post w nb base asg,
  (nb <= 254)%nat -> asg W_ZERO = fzero ->
  sat (pre ++ range_blk w nb base ++ post) asg ->
  (val (asg w) < 2 ^ Z.of_nat nb)%Z.
Print Assumptions C09_range_sound_in_system.

(* entry points *)
Theorem C09_entry_points_equal : forall P w s,
  (P <= 128)%nat -> component_range P w s = component_range_bits (2 * P) w s.
Proof. exact range_entry_points_equal. Qed.
Check C09_entry_points_equal : forall P w s,
  (P <= 128)%nat -> component_range P w s = component_range_bits (2 * P) w s.
Print Assumptions C09_entry_points_equal.

Theorem C09_entry_point_clamp : forall P w s,
  (128 <= P)%nat -> component_range P w s = component_range_bits 256 w s.
Proof. exact range_entry_point_clamp. Qed.
Check C09_entry_point_clamp : forall P w s,
  (128 <= P)%nat -> component_range P w s = component_range_bits 256 w s.
Print Assumptions C09_entry_point_clamp.

Theorem C09_gate_count : forall w nb base, Nat.even nb = true -> (0 < nb)%nat ->
  length (range_even_blk w nb base) = (range_num_gates nb + 2)%nat.
Proof. exact range_gate_count. Qed.
Check C09_gate_count : forall w nb base, Nat.even nb = true -> (0 < nb)%nat ->
  length (range_even_blk w nb base) = (range_num_gates nb + 2)%nat.
Print Assumptions C09_gate_count.

(* non-vacuity: an honest 7-bit check of 100 satisfies its rows; of 200 does not *)
Example C09_nonvacuous_sat :
  let s0 := snd (append_witness (F 100) initialized) in
  let s := range_check 6%nat 7%nat s0 in
  block_satb (range_blk 6%nat 7%nat 7%nat) (wval s) = true /\ satb (rows s) (wval s) = true.
Proof. vm_compute. split; reflexivity. Qed.
Example C09_nonvacuous_unsat :
  let s0 := snd (append_witness (F 200) initialized) in
  let s := range_check 6%nat 7%nat s0 in
  satb (rows s) (wval s) = false.
Proof. vm_compute. reflexivity. Qed.

(* completeness: a value below 2^nb with the accumulators the gadget computes satisfies every row *)
From PlonkV Require Import Composer.RangeComplete.
Theorem C09_range_complete : forall (PR : PrimeR) w nb base (asg : assignment) v,
  (0 <= v < 2 ^ Z.of_nat nb)%Z ->
  asg W_ZERO = fzero -> asg w = F v ->
  (if Nat.even nb then
     forall j, (j < range_count nb)%nat -> asg (base + j)%nat = F (acc_Z v (range_count nb) j)
   else
     let top := (nb - 1)%nat in let lo := (v mod 2 ^ Z.of_nat top)%Z in
     asg base = F lo /\
     (forall j, (j < range_count top)%nat -> asg (S base + j)%nat = F (acc_Z lo (range_count top) j)) /\
     asg (S base + range_count top)%nat = F (v / 2 ^ Z.of_nat top) /\
     asg (S (S base + range_count top)) = F v) ->
  block_sat (range_blk w nb base) asg.
Proof. exact @range_complete. Qed.
Check C09_range_complete : forall (PR : PrimeR) w nb base (asg : assignment) v,
  (0 <= v < 2 ^ Z.of_nat nb)%Z ->
  asg W_ZERO = fzero -> asg w = F v ->
  (if Nat.even nb then
     forall j, (j < range_count nb)%nat -> asg (base + j)%nat = F (acc_Z v (range_count nb) j)
   else
     let top := (nb - 1)%nat in let lo := (v mod 2 ^ Z.of_nat top)%Z in
     asg base = F lo /\
     (forall j, (j < range_count top)%nat -> asg (S base + j)%nat = F (acc_Z lo (range_count top) j)) /\
     asg (S base + range_count top)%nat = F (v / 2 ^ Z.of_nat top) /\
     asg (S (S base + range_count top)) = F v) ->
  block_sat (range_blk w nb base) asg.
Print Assumptions C09_range_complete.
