(* Non-vacuity of the hypotheses of the C12-C14 theorems: concrete honest runs of the
   MODEL on the JubJub generator satisfy every emitted row (closed computations;
   the third one evaluates ~1400 rows and 768 curve additions, about 100 s). *)
From Coq Require Import ZArith List Bool Arith.
From PlonkV Require Import Base.Fr Base.FrFacts Gates.Gate Gates.CS Gates.CSFacts Composer.State Composer.Components
  Curve.Jubjub Composer.PointComponents Composer.PointFacts Composer.FixedFacts Composer.FixedSpec.
Import ListNotations.

Definition GEN : pt := (F 0x3fd2814c43ac65a6f1fbf02d0fd6cce62e3ebb21fd6c54ed4df7b7ffec7beaca, F 0x12).

(* C12: G + [2]G through add_point_gates; both inputs on the curve, all rows satisfied *)
Definition s_add : cs :=
  let '(p, s) := append_affine_point GEN initialized in
  let '(q, s) := append_affine_point (ed_double GEN) s in
  snd (add_point_gates p q s).
Example C12_nonvacuous : on_curveb GEN = true /\ on_curveb (ed_double GEN) = true /\ satb (rows s_add) (wval s_add) = true.
Proof. repeat split; vm_compute; reflexivity. Qed.

(* C13: point = [8]G with the auxiliary point G *)
Definition s_tors : cs :=
  let p8 := ed_double (ed_double (ed_double GEN)) in
  let '(p, s) := append_affine_point p8 initialized in
  assert_torsion_free_gates p GEN s.
Example C13_nonvacuous : satb (rows s_tors) (wval s_tors) = true.
Proof. vm_compute. reflexivity. Qed.

(* C14: [5]G through append_fixed_base_signed_digits with the width-2 NAF of 5 *)
Definition s_gen : cs :=
  let '(w, s) := append_witness (F 5) initialized in
  snd (append_fixed_base_signed_digits w GEN (wnaf2 256 5) s).
Example C14_nonvacuous : satb (rows s_gen) (wval s_gen) = true.
Proof. vm_compute. reflexivity. Qed.
