(* C15 — Compressed circuit descriptions compile to the identical keys. *)
From Coq Require Import List Bool Arith Permutation.
From PlonkV Require Import Gates.CS Protocol.Capacity Composer.Compress Composer.Perm.
Import ListNotations.

(* both routes succeed or fail for exactly the same parameter capacities *)
Theorem C15_capacity_equiv : forall constraints deg, 1 <= constraints ->
  direct_route_ok constraints deg = compressed_route_ok constraints deg.
Proof. exact capacity_equiv. Qed.
Check C15_capacity_equiv : forall constraints deg, 1 <= constraints ->
  direct_route_ok constraints deg = compressed_route_ok constraints deg.
Print Assumptions C15_capacity_equiv.

(* dictionary encoding: every interned key (scalar, selector tuple) is found
   again under its index in the final dictionary; built-in entries keep their
   index; the dictionary never holds a key twice *)
Theorem C15_dictionary_lookup : forall (K : Type) (eqb : K -> K -> bool),
  (forall x y, reflect (x = y) (eqb x y)) -> forall ks d,
  let '(d', is) := intern_all eqb d ks in map (nth_error d') is = map Some ks.
Proof. intros K eqb H ks d. exact (intern_all_lookup eqb H ks d). Qed.
Check C15_dictionary_lookup : forall (K : Type) (eqb : K -> K -> bool),
  (forall x y, reflect (x = y) (eqb x y)) -> forall ks d,
  let '(d', is) := intern_all eqb d ks in map (nth_error d') is = map Some ks.
Print Assumptions C15_dictionary_lookup.

Theorem C15_builtin_entries_kept : forall (K : Type) (eqb : K -> K -> bool) d k i x,
  nth_error d i = Some x -> nth_error (fst (intern eqb d k)) i = Some x.
Proof. intros K eqb d k i x. exact (intern_keeps eqb d k i x). Qed.
Check C15_builtin_entries_kept : forall (K : Type) (eqb : K -> K -> bool) d k i x,
  nth_error d i = Some x -> nth_error (fst (intern eqb d k)) i = Some x.
Print Assumptions C15_builtin_entries_kept.

Theorem C15_dictionary_nodup : forall (K : Type) (eqb : K -> K -> bool),
  (forall x y, reflect (x = y) (eqb x y)) -> forall ks d, NoDup d -> NoDup (fst (intern_all eqb d ks)).
Proof. intros K eqb H ks d. exact (intern_all_nodup eqb H ks d). Qed.
Check C15_dictionary_nodup : forall (K : Type) (eqb : K -> K -> bool),
  (forall x y, reflect (x = y) (eqb x y)) -> forall ks d, NoDup d -> NoDup (fst (intern_all eqb d ks)).
Print Assumptions C15_dictionary_nodup.

(* first-use relabelling of witnesses preserves exactly the copy classes *)
Theorem C15_relabel_preserves_classes : forall seen ws i j a b, NoDup seen ->
  let '(seen', is) := intern_all Nat.eqb seen ws in
  nth_error is i = Some a -> nth_error is j = Some b ->
  (a = b <-> nth_error ws i = nth_error ws j).
Proof. exact relabel_injective. Qed.
Check C15_relabel_preserves_classes : forall seen ws i j a b, NoDup seen ->
  let '(seen', is) := intern_all Nat.eqb seen ws in
  nth_error is i = Some a -> nth_error is j = Some b ->
  (a = b <-> nth_error ws i = nth_error ws j).
Print Assumptions C15_relabel_preserves_classes.

(* and the copy permutation built from the classes does not depend on the
   order in which the hash map yields them *)
Theorem C15_sigma_order_independent : forall classes classes',
  NoDup (concat classes) -> Permutation classes classes' ->
  forall p, sigma_of classes p = sigma_of classes' p.
Proof. exact sigma_order_independent. Qed.
Check C15_sigma_order_independent : forall classes classes',
  NoDup (concat classes) -> Permutation classes classes' ->
  forall p, sigma_of classes p = sigma_of classes' p.
Print Assumptions C15_sigma_order_independent.
