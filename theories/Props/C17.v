(* C17 — Checked decoders are bounded (model of the length-prefixed layouts). *)
From Coq Require Import NArith List Bool Arith.
From PlonkV Require Import Codec.Bytes.
Import ListNotations.

(* whatever a length-prefixed decoder accepts was paid for by input bytes: the
   count is validated against the remaining input before anything is built, so
   the decoded structure is never larger than the input *)
Theorem C17_decode_vec_bounded : forall (A : Type) k (dec : bytes -> option A) b xs rest,
  decode_vec k dec b = Some (xs, rest) -> 8 + k * length xs <= length b.
Proof. intros A k dec. exact (decode_vec_bounded k dec). Qed.
Check C17_decode_vec_bounded : forall (A : Type) k (dec : bytes -> option A) b xs rest,
  decode_vec k dec b = Some (xs, rest) -> 8 + k * length xs <= length b.
Print Assumptions C17_decode_vec_bounded.

(* and it is a total function: every byte string gives Some or None *)
Theorem C17_decode_vec_total : forall (A : Type) k (dec : bytes -> option A) b,
  decode_vec k dec b = None \/ exists xs rest, decode_vec k dec b = Some (xs, rest).
Proof. intros A k dec b. destruct (decode_vec k dec b) as [[xs rest]|]; [right; eauto|left; reflexivity]. Qed.
Check C17_decode_vec_total : forall (A : Type) k (dec : bytes -> option A) b,
  decode_vec k dec b = None \/ exists xs rest, decode_vec k dec b = Some (xs, rest).
Print Assumptions C17_decode_vec_total.

(* accepted elements are exactly those the element decoder accepts *)
Theorem C17_accepts_only_decodable : forall (A : Type) k (enc : A -> bytes) dec,
  (forall x, length (enc x) = k) -> (forall x, dec (enc x) = Some x) ->
  forall xs rest, (N.of_nat (length xs) < 256 ^ 8)%N ->
  decode_vec k dec (encode_vec enc xs ++ rest) = Some (xs, rest).
Proof. intros A k enc dec H1 H2. exact (vec_roundtrip k enc dec H1 H2). Qed.
Check C17_accepts_only_decodable : forall (A : Type) k (enc : A -> bytes) dec,
  (forall x, length (enc x) = k) -> (forall x, dec (enc x) = Some x) ->
  forall xs rest, (N.of_nat (length xs) < 256 ^ 8)%N ->
  decode_vec k dec (encode_vec enc xs ++ rest) = Some (xs, rest).
Print Assumptions C17_accepts_only_decodable.
