(* C14 — fixed-base multiplication: the signed-digit block. *)
From Coq Require Import ZArith List Bool Arith.
From PlonkV Require Import Base.Fr Base.FrFacts Gates.Gate Gates.CS Gates.CSFacts
  Composer.State Composer.Components Composer.RangeFacts Curve.Jubjub Curve.JubjubFacts
  Composer.PointComponents Composer.PointFacts Composer.FixedFacts Composer.FixedSpec.
From PlonkV Require Import Curve.Assoc Curve.GroupLaw Composer.GroupCorollaries.
Import ListNotations.
Local Open Scope fr_scope.

Theorem C14_rows_give_steps : forall (PR : PrimeR) asg ms base,
  block_sat (fb_block ms base) asg ->
  forall i, (i < length ms)%nat -> fb_step asg (nth i ms ed_id) base i.
Proof. exact @fb_block_steps. Qed.
Check C14_rows_give_steps : forall (PR : PrimeR) asg ms base,
  block_sat (fb_block ms base) asg ->
  forall i, (i < length ms)%nat -> fb_step asg (nth i ms ed_id) base i.
Print Assumptions C14_rows_give_steps.

Theorem C14_step_sound : forall (PR : PrimeR) (ND : NonSquareD) asg m base i,
  on_curve m -> on_curve (asg (fb_wx base i), asg (fb_wy base i)) ->
  fb_step asg m base i ->
  exists d : Z, (d = 0 \/ d = 1 \/ d = -1)%Z /\
    asg (fb_wb base (S i)) = f2 * asg (fb_wb base i) + digit_scalar d /\
    (asg (fb_wx base (S i)), asg (fb_wy base (S i)))
      = ed_add (asg (fb_wx base i), asg (fb_wy base i)) (digit_point d m).
Proof. exact @fb_step_sound. Qed.
Check C14_step_sound : forall (PR : PrimeR) (ND : NonSquareD) asg m base i,
  on_curve m -> on_curve (asg (fb_wx base i), asg (fb_wy base i)) ->
  fb_step asg m base i ->
  exists d : Z, (d = 0 \/ d = 1 \/ d = -1)%Z /\
    asg (fb_wb base (S i)) = f2 * asg (fb_wb base i) + digit_scalar d /\
    (asg (fb_wx base (S i)), asg (fb_wy base (S i)))
      = ed_add (asg (fb_wx base i), asg (fb_wy base i)) (digit_point d m).
Print Assumptions C14_step_sound.

(* 256 rounds + opening, leading-zero and closing equalities + 252-bit range:
   the digits are signed digits, the top three vanish, their INTEGER value is
   the scalar, and the returned point is the signed-digit combination *)
Theorem C14_fixed_base_sound : forall (PR : PrimeR) (ND : NonSquareD) asg ms base scalar,
  length ms = 256%nat -> Forall on_curve ms ->
  block_sat (fb_block ms base) asg ->
  asg (fb_wx base 0) = 0 -> asg (fb_wy base 0) = 1 -> asg (fb_wb base 0) = 0 ->
  asg (fb_wb base 3) = 0 ->
  asg (fb_wb base 256) = asg scalar ->
  (val (asg scalar) < 2 ^ 252)%Z ->
  exists ds, length ds = 256%nat /\ Forall is_digit ds /\ firstn 3 ds = [0; 0; 0]%Z /\
    sd_val 0 ds = val (asg scalar) /\
    (asg (fb_wx base 256), asg (fb_wy base 256)) = sd_point ed_id ds ms.
Proof. exact @fixed_base_sound. Qed.
Check C14_fixed_base_sound : forall (PR : PrimeR) (ND : NonSquareD) asg ms base scalar,
  length ms = 256%nat -> Forall on_curve ms ->
  block_sat (fb_block ms base) asg ->
  asg (fb_wx base 0) = 0 -> asg (fb_wy base 0) = 1 -> asg (fb_wb base 0) = 0 ->
  asg (fb_wb base 3) = 0 ->
  asg (fb_wb base 256) = asg scalar ->
  (val (asg scalar) < 2 ^ 252)%Z ->
  exists ds, length ds = 256%nat /\ Forall is_digit ds /\ firstn 3 ds = [0; 0; 0]%Z /\
    sd_val 0 ds = val (asg scalar) /\
    (asg (fb_wx base 256), asg (fb_wy base 256)) = sd_point ed_id ds ms.
Print Assumptions C14_fixed_base_sound.

Theorem C14_canonical_emits : forall scalar s,
  rows (assert_canonical_jubjub_scalar scalar s) = rows s ++ canonical_blk scalar (length (wits s))
  /\ length (wits (assert_canonical_jubjub_scalar scalar s)) = (length (wits s) + 253)%nat.
Proof. exact assert_canonical_rows. Qed.
Check C14_canonical_emits : forall scalar s,
  rows (assert_canonical_jubjub_scalar scalar s) = rows s ++ canonical_blk scalar (length (wits s))
  /\ length (wits (assert_canonical_jubjub_scalar scalar s)) = (length (wits s) + 253)%nat.
Print Assumptions C14_canonical_emits.

Theorem C14_canonical_sound : forall (PR : PrimeR) asg scalar base,
  asg W_ZERO = 0 -> block_sat (canonical_blk scalar base) asg ->
  (val (asg scalar) < 2 ^ 252 /\ val (asg scalar) < rj)%Z.
Proof. exact @canonical_scalar_sound. Qed.
Check C14_canonical_sound : forall (PR : PrimeR) asg scalar base,
  asg W_ZERO = 0 -> block_sat (canonical_blk scalar base) asg ->
  (val (asg scalar) < 2 ^ 252 /\ val (asg scalar) < rj)%Z.
Print Assumptions C14_canonical_sound.

(* the model of append_fixed_base_signed_digits (the function compared with the real
   code on every run) emits exactly these rows ... *)
Theorem C14_mulgen_emits : forall jubjub g digits s,
  length digits = 256%nat -> forallb digit_ok digits = true ->
  let n := length (wits s) in
  exists s', append_fixed_base_signed_digits jubjub g digits s
             = (inr (fb_wx (n + 253) 256, fb_wy (n + 253) 256), s')
          /\ rows s' = rows s ++ mulgen_rows jubjub g n.
Proof. exact append_fixed_base_rows. Qed.
Check C14_mulgen_emits : forall jubjub g digits s,
  length digits = 256%nat -> forallb digit_ok digits = true ->
  let n := length (wits s) in
  exists s', append_fixed_base_signed_digits jubjub g digits s
             = (inr (fb_wx (n + 253) 256, fb_wy (n + 253) 256), s')
          /\ rows s' = rows s ++ mulgen_rows jubjub g n.
Print Assumptions C14_mulgen_emits.

(* ... and EVERY assignment satisfying them has a canonical scalar and returns the
   signed-digit combination whose integer value is that scalar *)
Theorem C14_mulgen_sound : forall (PR : PrimeR) (ND : NonSquareD) asg jubjub g n,
  asg W_ZERO = 0 -> on_curve g ->
  block_sat (mulgen_rows jubjub g n) asg ->
  let base := (n + 253)%nat in
  (val (asg jubjub) < rj)%Z /\
  exists ds, length ds = 256%nat /\ Forall is_digit ds /\ firstn 3 ds = [0; 0; 0]%Z /\
    sd_val 0 ds = val (asg jubjub) /\
    (asg (fb_wx base 256), asg (fb_wy base 256)) = sd_point ed_id ds (rev (doublings 256 g)).
Proof. exact @mulgen_sound. Qed.
Check C14_mulgen_sound : forall (PR : PrimeR) (ND : NonSquareD) asg jubjub g n,
  asg W_ZERO = 0 -> on_curve g ->
  block_sat (mulgen_rows jubjub g n) asg ->
  let base := (n + 253)%nat in
  (val (asg jubjub) < rj)%Z /\
  exists ds, length ds = 256%nat /\ Forall is_digit ds /\ firstn 3 ds = [0; 0; 0]%Z /\
    sd_val 0 ds = val (asg jubjub) /\
    (asg (fb_wx base 256), asg (fb_wy base 256)) = sd_point ed_id ds (rev (doublings 256 g)).
Print Assumptions C14_mulgen_sound.

From PlonkV Require Import Composer.InSystem.
Theorem C14_mulgen_in_system : forall (PR : PrimeR) (ND : NonSquareD) pre post asg jubjub g n,
  asg W_ZERO = 0 -> on_curve g ->
  sat (pre ++ mulgen_rows jubjub g n ++ post) asg ->
  let base := (n + 253)%nat in
  (val (asg jubjub) < rj)%Z /\
  exists ds, length ds = 256%nat /\ Forall is_digit ds /\ firstn 3 ds = [0; 0; 0]%Z /\
    sd_val 0 ds = val (asg jubjub) /\
    (asg (fb_wx base 256), asg (fb_wy base 256)) = sd_point ed_id ds (rev (doublings 256 g)).
Proof. exact @mulgen_sound_in_system. Qed.
Check C14_mulgen_in_system : forall (PR : PrimeR) (ND : NonSquareD) pre post asg jubjub g n,
  asg W_ZERO = 0 -> on_curve g ->
  sat (pre ++ mulgen_rows jubjub g n ++ post) asg ->
  let base := (n + 253)%nat in
  (val (asg jubjub) < rj)%Z /\
  exists ds, length ds = 256%nat /\ Forall is_digit ds /\ firstn 3 ds = [0; 0; 0]%Z /\
    sd_val 0 ds = val (asg jubjub) /\
    (asg (fb_wx base 256), asg (fb_wy base 256)) = sd_point ed_id ds (rev (doublings 256 g)).
Print Assumptions C14_mulgen_in_system.

(* ---- with the group law: the component returns [scalar] G ---- *)
Theorem C14_mulgen_scalar_multiple : forall (PR : PrimeR) (ND : NonSquareD) asg jubjub g n,
  asg W_ZERO = fzero -> on_curve g ->
  block_sat (mulgen_rows jubjub g n) asg ->
  let base := (n + 253)%nat in
  (val (asg jubjub) < rj)%Z /\
  (asg (fb_wx base 256), asg (fb_wy base 256)) = zsmul (val (asg jubjub)) g.
Proof. exact @mulgen_scalar_multiple. Qed.
Check C14_mulgen_scalar_multiple : forall (PR : PrimeR) (ND : NonSquareD) asg jubjub g n,
  asg W_ZERO = fzero -> on_curve g ->
  block_sat (mulgen_rows jubjub g n) asg ->
  let base := (n + 253)%nat in
  (val (asg jubjub) < rj)%Z /\
  (asg (fb_wx base 256), asg (fb_wy base 256)) = zsmul (val (asg jubjub)) g.
Print Assumptions C14_mulgen_scalar_multiple.
