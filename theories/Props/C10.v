(* C10 — Bitwise AND / XOR components return exactly the truncated result. *)
From Coq Require Import ZArith List Bool Arith.
From PlonkV Require Import Base.Fr Base.FrFacts Base.Bits Gates.Gate Gates.CS Gates.CSFacts Gates.BlockFacts
  Composer.State Composer.Components Composer.ArithFacts Composer.BasicFacts Composer.RangeFacts
  Composer.TruncFacts Composer.LogicFacts.
Import ListNotations.

Theorem C10_logic_layout : forall P a b is_xor s,
  rows (snd (append_logic_component P a b is_xor s)) =
    rows s ++ logic_blk is_xor P a b (length (wits s))
  /\ fst (append_logic_component P a b is_xor s) =
       snd (logic_last W_ZERO W_ZERO W_ZERO (length (wits s)) P).
Proof. exact logic_component_rows. Qed.
Check C10_logic_layout : forall P a b is_xor s,
  rows (snd (append_logic_component P a b is_xor s)) =
    rows s ++ logic_blk is_xor P a b (length (wits s))
  /\ fst (append_logic_component P a b is_xor s) =
       snd (logic_last W_ZERO W_ZERO W_ZERO (length (wits s)) P).
Print Assumptions C10_logic_layout.

(* the 16-case table: with q_c = +1 (AND) resp. -1 (XOR) the fifth identity of
   the logic widget pins the output quad, given the product wire *)
Theorem C10_logic_table : forall is_xor p q t,
  (0 <= p < 4)%Z -> (0 <= q < 4)%Z -> (0 <= t < 4)%Z ->
  delta_xor_and (F p) (F q) (fmul (F p) (F q)) (F t) (qsel is_xor) = fzero ->
  t = (if is_xor then Z.lxor p q else Z.land p q).
Proof. exact logic_table. Qed.
Check C10_logic_table : forall is_xor p q t,
  (0 <= p < 4)%Z -> (0 <= q < 4)%Z -> (0 <= t < 4)%Z ->
  delta_xor_and (F p) (F q) (fmul (F p) (F q)) (F t) (qsel is_xor) = fzero ->
  t = (if is_xor then Z.lxor p q else Z.land p q).
Print Assumptions C10_logic_table.

(* the quad rows: accumulators bounded, output accumulator = op of the two *)
Theorem C10_logic_rows_sound : forall (PR : PrimeR) is_xor asg n a b d base k,
  (k + n <= 127)%nat ->
  let '(la, ra, dd) := logic_last a b d base n in
  block_sat (logic_rows is_xor a b d base n ++ [(plain_gate la ra dd, None)]) asg ->
  (val (asg a) < 4 ^ Z.of_nat k)%Z -> (val (asg b) < 4 ^ Z.of_nat k)%Z ->
  val (asg d) = bop is_xor (val (asg a)) (val (asg b)) ->
  (val (asg la) < 4 ^ Z.of_nat (k + n))%Z /\ (val (asg ra) < 4 ^ Z.of_nat (k + n))%Z /\
  val (asg dd) = bop is_xor (val (asg la)) (val (asg ra)).
Proof. exact @logic_rows_sound. Qed.
Check C10_logic_rows_sound : forall (PR : PrimeR) is_xor asg n a b d base k,
  (k + n <= 127)%nat ->
  let '(la, ra, dd) := logic_last a b d base n in
  block_sat (logic_rows is_xor a b d base n ++ [(plain_gate la ra dd, None)]) asg ->
  (val (asg a) < 4 ^ Z.of_nat k)%Z -> (val (asg b) < 4 ^ Z.of_nat k)%Z ->
  val (asg d) = bop is_xor (val (asg a)) (val (asg b)) ->
  (val (asg la) < 4 ^ Z.of_nat (k + n))%Z /\ (val (asg ra) < 4 ^ Z.of_nat (k + n))%Z /\
  val (asg dd) = bop is_xor (val (asg la)) (val (asg ra)).
Print Assumptions C10_logic_rows_sound.

(* every pair count 0..127, both operations, every assignment of accumulators,
   product wires and truncation helpers: the returned witness holds
   (a mod 2^(2P)) op (b mod 2^(2P)) and nothing else *)
Theorem C10_logic_sound : forall (PR : PrimeR) is_xor asg P a b base,
  (P <= 127)%nat -> asg W_ZERO = fzero ->
  block_sat (logic_blk is_xor P a b base) asg ->
  val (asg (snd (logic_last W_ZERO W_ZERO W_ZERO base P))) =
    bop is_xor (val (asg a) mod 2 ^ Z.of_nat (2 * P)) (val (asg b) mod 2 ^ Z.of_nat (2 * P)).
Proof. exact @logic_sound. Qed.
Check C10_logic_sound : forall (PR : PrimeR) is_xor asg P a b base,
  (P <= 127)%nat -> asg W_ZERO = fzero ->
  block_sat (logic_blk is_xor P a b base) asg ->
  val (asg (snd (logic_last W_ZERO W_ZERO W_ZERO base P))) =
    bop is_xor (val (asg a) mod 2 ^ Z.of_nat (2 * P)) (val (asg b) mod 2 ^ Z.of_nat (2 * P)).
Print Assumptions C10_logic_sound.

Example C10_nonvacuous :
  let s0 := snd (append_witness (F 202) (snd (append_witness (F 1001) initialized))) in
  let '(d, s) := append_logic_xor 4%nat 6%nat 7%nat s0 in
  satb (rows s) (wval s) = true /\ val (wval s d) = Z.lxor (1001 mod 256) 202.
Proof. vm_compute. split; reflexivity. Qed.

(* completeness: honest accumulators, products and output quads satisfy every logic row; with the
   (honest, C11_split_complete) truncation bindings the whole block is satisfied *)
From PlonkV Require Import Composer.TruncFacts Composer.LogicComplete.
Theorem C10_logic_rows_complete : forall (PR : PrimeR) is_xor (asg : assignment) ps qs a b d base A B D,
  length ps = length qs ->
  Forall (fun p => 0 <= p < 4)%Z ps -> Forall (fun q => 0 <= q < 4)%Z qs ->
  asg a = F A -> asg b = F B -> asg d = F D ->
  (forall t x, nth_error (accs is_xor ps qs A B D) t = Some x ->
     let '(At, Bt, Ct, Dt) := x in
     asg (base + 4 * t)%nat = F At /\ asg (base + 4 * t + 1)%nat = F Bt /\
     asg (base + 4 * t + 2)%nat = F Ct /\ asg (base + 4 * t + 3)%nat = F Dt) ->
  let n := length ps in
  let '(la, ra, dd) := logic_last a b d base n in
  block_sat (logic_rows is_xor a b d base n ++ [(plain_gate la ra dd, None)]) asg.
Proof. exact @logic_rows_complete. Qed.
Check C10_logic_rows_complete : forall (PR : PrimeR) is_xor (asg : assignment) ps qs a b d base A B D,
  length ps = length qs ->
  Forall (fun p => 0 <= p < 4)%Z ps -> Forall (fun q => 0 <= q < 4)%Z qs ->
  asg a = F A -> asg b = F B -> asg d = F D ->
  (forall t x, nth_error (accs is_xor ps qs A B D) t = Some x ->
     let '(At, Bt, Ct, Dt) := x in
     asg (base + 4 * t)%nat = F At /\ asg (base + 4 * t + 1)%nat = F Bt /\
     asg (base + 4 * t + 2)%nat = F Ct /\ asg (base + 4 * t + 3)%nat = F Dt) ->
  let n := length ps in
  let '(la, ra, dd) := logic_last a b d base n in
  block_sat (logic_rows is_xor a b d base n ++ [(plain_gate la ra dd, None)]) asg.
Print Assumptions C10_logic_rows_complete.

Theorem C10_logic_complete : forall (PR : PrimeR) is_xor (asg : assignment) P a b base ps qs,
  (1 <= P)%nat -> length ps = P -> length qs = P ->
  Forall (fun p => 0 <= p < 4)%Z ps -> Forall (fun q => 0 <= q < 4)%Z qs ->
  asg W_ZERO = fzero ->
  (forall t x, nth_error (accs is_xor ps qs 0 0 0) t = Some x ->
     let '(At, Bt, Ct, Dt) := x in
     asg (base + 4 * t)%nat = F At /\ asg (base + 4 * t + 1)%nat = F Bt /\
     asg (base + 4 * t + 2)%nat = F Ct /\ asg (base + 4 * t + 3)%nat = F Dt) ->
  let '(la, ra, d) := logic_last W_ZERO W_ZERO W_ZERO base P in
  block_sat (split_blk a la (2 * P) (base + 4 * P)) asg ->
  block_sat (split_blk b ra (2 * P) (base + 4 * P + split_nw (2 * P))) asg ->
  block_sat (logic_blk is_xor P a b base) asg.
Proof. exact @logic_complete. Qed.
Check C10_logic_complete : forall (PR : PrimeR) is_xor (asg : assignment) P a b base ps qs,
  (1 <= P)%nat -> length ps = P -> length qs = P ->
  Forall (fun p => 0 <= p < 4)%Z ps -> Forall (fun q => 0 <= q < 4)%Z qs ->
  asg W_ZERO = fzero ->
  (forall t x, nth_error (accs is_xor ps qs 0 0 0) t = Some x ->
     let '(At, Bt, Ct, Dt) := x in
     asg (base + 4 * t)%nat = F At /\ asg (base + 4 * t + 1)%nat = F Bt /\
     asg (base + 4 * t + 2)%nat = F Ct /\ asg (base + 4 * t + 3)%nat = F Dt) ->
  let '(la, ra, d) := logic_last W_ZERO W_ZERO W_ZERO base P in
  block_sat (split_blk a la (2 * P) (base + 4 * P)) asg ->
  block_sat (split_blk b ra (2 * P) (base + 4 * P + split_nw (2 * P))) asg ->
  block_sat (logic_blk is_xor P a b base) asg.
Print Assumptions C10_logic_complete.
