"""Run the extracted Gallina reference verifier on many (verifier, proof, pi) triples in parallel."""
from concurrent.futures import ThreadPoolExecutor
from .common import *

def _shard(args):
    lines, name = args
    rc, out, err = run_driver("\n".join(lines) + "\n", name, timeout=3000)
    if rc != 0: raise BuildError("reference verifier driver failed: " + err[-800:])
    res = {}
    for l in out.splitlines():
        t = l.split()
        if t and t[0] == "V":
            res[t[1]] = (t[2], t[3].split(",") if len(t) > 3 and t[3] else [])
    return res

def run(cases, name, shards=16):
    """cases: [(id, version, x, verifier_hex, proof_hex, [pi ints])] -> {id: (verdict, [challenge hex])}"""
    lines = [f"V {cid} {ver} {hx(x)} {vb} {pb} {','.join(hx(p) for p in pis) or '-'}" for cid, ver, x, vb, pb, pis in cases]
    k = max(1, min(shards, len(lines) // 4 or 1))
    parts = [(lines[i::k], f"{name}_{i}") for i in range(k)]
    res = {}
    with ThreadPoolExecutor(max_workers=k) as ex:
        for r_ in ex.map(_shard, parts): res.update(r_)
    return res
