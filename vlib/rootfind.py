"""Univariate polynomials over Fr and their roots (Cantor-Zassenhaus).  Used ONLY to construct adversarial
assignments (e.g. a product wire that makes two widget residuals cancel); verdicts never come from here."""
from .common import R
import random

def trim(f):
    while f and f[-1] % R == 0: f = f[:-1]
    return [c % R for c in f]
def padd(f, g):
    n = max(len(f), len(g)); return trim([((f[i] if i < len(f) else 0) + (g[i] if i < len(g) else 0)) % R for i in range(n)])
def pneg(f): return [(-c) % R for c in f]
def psub(f, g): return padd(f, pneg(g))
def pmul(f, g):
    if not f or not g: return []
    out = [0] * (len(f) + len(g) - 1)
    for i, a in enumerate(f):
        if a:
            for j, b in enumerate(g): out[i + j] = (out[i + j] + a * b) % R
    return trim(out)
def pdivmod(f, g):
    f = trim(f); g = trim(g); assert g
    q = [0] * max(0, len(f) - len(g) + 1); inv = pow(g[-1], R - 2, R)
    f = list(f)
    while len(f) >= len(g) and f:
        c = f[-1] * inv % R; k = len(f) - len(g); q[k] = c
        for i, b in enumerate(g): f[k + i] = (f[k + i] - c * b) % R
        f = trim(f)
    return trim(q), f
def pmod(f, g): return pdivmod(f, g)[1]
def pgcd(f, g):
    f, g = trim(f), trim(g)
    while g: f, g = g, pmod(f, g)
    if f:
        inv = pow(f[-1], R - 2, R); f = [c * inv % R for c in f]
    return f
def ppowmod(base, e, mod):
    result = [1]; base = pmod(base, mod)
    while e:
        if e & 1: result = pmod(pmul(result, base), mod)
        base = pmod(pmul(base, base), mod); e >>= 1
    return result
def peval(f, x):
    acc = 0
    for c in reversed(f): acc = (acc * x + c) % R
    return acc

def roots(f, rnd=None):
    """all roots of f in Fr (without multiplicity)"""
    f = trim(f)
    if len(f) <= 1: return []
    rnd = rnd or random.Random(12345)
    g = pgcd(f, psub(ppowmod([0, 1], R, f), [0, 1]))          # product of the distinct linear factors
    out = []
    def split(h):
        h = trim(h)
        if len(h) <= 1: return
        if len(h) == 2: out.append((-h[0]) * pow(h[1], R - 2, R) % R); return
        while True:
            a = rnd.randrange(R)
            t = psub(ppowmod([a, 1], (R - 1) // 2, h), [1])
            d = pgcd(h, t)
            if 1 < len(d) < len(h):
                split(d); split(pdivmod(h, d)[0]); return
    split(g)
    return sorted(set(out))

class P:
    """ring element: polynomial in one unknown t; supports + - * with ints and P, and `% R` (identity)"""
    def __init__(self, c): self.c = trim(list(c))
    @staticmethod
    def of(x): return x if isinstance(x, P) else P([x % R])
    def __add__(self, o): return P(padd(self.c, P.of(o).c))
    __radd__ = __add__
    def __sub__(self, o): return P(psub(self.c, P.of(o).c))
    def __rsub__(self, o): return P(psub(P.of(o).c, self.c))
    def __mul__(self, o): return P(pmul(self.c, P.of(o).c))
    __rmul__ = __mul__
    def __neg__(self): return P(pneg(self.c))
    def __mod__(self, m): return self
T = P([0, 1])
