"""Shared machinery of the /verif checks: builds, runners, canonical diff,
evidence, known findings."""
import json, os, subprocess, sys, time, random, hashlib, re, shutil

VERIF = os.path.dirname(os.path.dirname(os.path.abspath(__file__)))
REPO = os.environ.get("VERIF_REPO", "/repo")   # overridden only by tools/seed_matrix.py (scratch copies)
WORK = os.path.join(VERIF, "work")
TARGET = os.path.join(VERIF, "target", "harness")
HARNESS = os.path.join(TARGET, "release", "plonk-harness")
HARNESS_CHECKED = os.path.join(TARGET, "checked", "plonk-harness")
DRIVER = os.path.join(VERIF, "ocaml", "driver")
R = 0x73eda753299d7d483339d80809a1d80553bda402fffe5bfeffffffff00000001
RJ = 0x0e7db4ea6533afa906673b0101343b00a6682093ccc81082d0970e5ed6f72cb7  # jubjub subgroup order

os.makedirs(WORK, exist_ok=True)

def sh(cmd, cwd=None, timeout=3600, env=None, check=True, capture=True):
    e = dict(os.environ)
    e.update({"CARGO_NET_OFFLINE": "true", "CARGO_TARGET_DIR": TARGET})
    if env: e.update(env)
    p = subprocess.run(cmd, shell=isinstance(cmd, str), cwd=cwd, timeout=timeout, env=e,
                       stdout=subprocess.PIPE if capture else None,
                       stderr=subprocess.STDOUT if capture else None, text=True)
    if check and p.returncode != 0:
        raise BuildError(f"command failed ({p.returncode}): {cmd}\n{(p.stdout or '')[-4000:]}")
    return p

class BuildError(Exception):
    pass

# ---------------------------------------------------------------- builds
def build_coq():
    """Full .vo build of the Coq development (no-op when up to date)."""
    if not os.path.exists(os.path.join(VERIF, "Makefile.coq")):
        sh("coq_makefile -f _CoqProject -o Makefile.coq", cwd=VERIF)
    t = time.time()
    p = sh("timeout 3000 make -f Makefile.coq -j16", cwd=VERIF, check=False)
    return p.returncode == 0, p.stdout, time.time() - t

def build_driver():
    src = os.path.join(VERIF, "ocaml")
    ml = os.path.join(src, "model.ml")
    ex = os.path.join(VERIF, "theories", "Extract", "Extract.v")
    deps = [ex] + [os.path.join(dp, f) for dp, _, fs in os.walk(os.path.join(VERIF, "theories")) for f in fs if f.endswith(".v")]
    newest = max(os.path.getmtime(f) for f in deps + [os.path.join(src, "driver.ml")])
    if os.path.exists(DRIVER) and os.path.getmtime(DRIVER) >= newest:
        return
    sh("coqc -Q ../theories PlonkV ../theories/Extract/Extract.v", cwd=src)
    sh("ocamlfind ocamlopt -O2 -package zarith -linkpkg -w -a model.mli model.ml driver.ml -o driver", cwd=src)

def build_harness(profile="release"):
    """Rebuild the harness against /repo's current working tree (hooks on)."""
    lock_src = os.path.join(REPO, "Cargo.lock")
    lock_dst = os.path.join(VERIF, "harness", "Cargo.lock")
    if not os.path.exists(lock_dst):
        shutil.copy(lock_src, lock_dst)
    t = time.time()
    p = sh(f"cargo build --profile {profile} --offline", cwd=os.path.join(VERIF, "harness"), check=False, timeout=3000)
    if p.returncode != 0:
        raise BuildError("harness build failed (does /repo still compile with --cfg plonk_verif?)\n" + p.stdout[-6000:])
    return time.time() - t

# ---------------------------------------------------------------- scalars
def hx(v):
    return "%x" % (v % R)

class Rng:
    """Single PRNG; every random choice of a check derives from it."""
    def __init__(self, seed, tag=""):
        self.r = random.Random(int(hashlib.sha256(f"{seed}/{tag}".encode()).hexdigest(), 16))
    def scalar(self):
        return self.r.randrange(R)
    def small(self, k=16):
        return self.r.randrange(1 << k)
    def choice(self, xs):
        return self.r.choice(xs)
    def randrange(self, *a):
        return self.r.randrange(*a)
    def boundary(self):
        """boundary-heavy field element"""
        c = self.r.randrange(10)
        if c == 0: return 0
        if c == 1: return 1
        if c == 2: return R - 1
        if c == 3: return 1 << self.r.randrange(255)
        if c == 4: return (1 << self.r.randrange(1, 255)) - 1
        if c == 5: return self.r.randrange(4)
        if c == 6: return R - 1 - self.r.randrange(4)
        return self.r.randrange(R)

# ---------------------------------------------------------------- running scripts
def run_script(binary, mode_args, text, name, timeout=1200):
    path = os.path.join(WORK, name)
    with open(path, "w") as f:
        f.write(text)
    cmd = [binary] + mode_args + [path]
    p = subprocess.run(cmd, stdout=subprocess.PIPE, stderr=subprocess.PIPE, text=True, timeout=timeout,
                       preexec_fn=lambda: __import__("resource").setrlimit(__import__("resource").RLIMIT_STACK, (-1, -1)) if False else None)
    return p.returncode, p.stdout, p.stderr

def run_harness(text, name, mode="composer", checked=False, timeout=1200):
    return run_script(HARNESS_CHECKED if checked else HARNESS, [mode], text, name + ".rs.in", timeout)

def run_driver(text, name, timeout=1200):
    path = os.path.join(WORK, name + ".ml.in")
    with open(path, "w") as f:
        f.write(text)
    p = subprocess.run(f"ulimit -s unlimited 2>/dev/null; exec {DRIVER} {path}", shell=True, executable="/bin/bash",
                       stdout=subprocess.PIPE, stderr=subprocess.PIPE, text=True, timeout=timeout)
    return p.returncode, p.stdout, p.stderr

def split_programs(out):
    """'== name' separated output -> {name: [lines]}"""
    progs, cur = {}, None
    for line in out.splitlines():
        if line.startswith("== "):
            cur = line[3:].strip(); progs[cur] = []
        elif cur is not None:
            progs[cur].append(line)
    return progs

class Snapshot:
    def __init__(self, lines):
        self.gates, self.pis, self.wits, self.results, self.other = [], {}, [], [], []
        for l in lines:
            t = l.split()
            if not t: continue
            if t[0] == "G":
                self.gates.append((tuple(int(x, 16) for x in t[2:13]), tuple(int(x) for x in t[13:17])))
            elif t[0] == "P":
                self.pis[int(t[1])] = int(t[2], 16)
            elif t[0] == "W":
                self.wits.append(int(t[2], 16))
            elif t[0] == "R":
                self.results.append(t[1:])
            else:
                self.other.append(l)

    def canonical(self):
        """Relabel witnesses by first use in the gate list (a,b,c,d order);
        witnesses never wired are dropped. Returns a comparable structure."""
        m = {}
        for sel, wires in self.gates:
            for w in wires:
                if w not in m: m[w] = len(m)
        gates = [(sel, tuple(m[w] for w in wires)) for sel, wires in self.gates]
        vals = [None] * len(m)
        for w, k in m.items():
            vals[k] = self.wits[w] if w < len(self.wits) else None
        res = [tuple(("w%d" % m[int(x)]) if x.isdigit() and int(x) in m else ("u" if x.isdigit() else x) for x in r) for r in self.results]
        return {"gates": gates, "pis": sorted(self.pis.items()), "vals": vals, "results": res, "other": self.other}

def diff_snapshots(a, b):
    """first difference between two canonical snapshots, or None"""
    for k in ("other", "results", "pis"):
        if a[k] != b[k]:
            return f"{k}: impl={a[k]!r:.300} model={b[k]!r:.300}"
    if len(a["gates"]) != len(b["gates"]):
        return f"gate count: impl={len(a['gates'])} model={len(b['gates'])}"
    names = ["q_m","q_l","q_r","q_o","q_f","q_c","q_arith","q_range","q_logic","q_fixed","q_var"]
    for i, (ga, gb) in enumerate(zip(a["gates"], b["gates"])):
        if ga != gb:
            for j in range(11):
                if ga[0][j] != gb[0][j]:
                    return f"gate {i} {names[j]}: impl={ga[0][j]:x} model={gb[0][j]:x}"
            return f"gate {i} wires: impl={ga[1]} model={gb[1]}"
    if a["vals"] != b["vals"]:
        for i, (x, y) in enumerate(zip(a["vals"], b["vals"])):
            if x != y:
                return f"witness value (canonical label {i}): impl={x:x} model={y:x}"
        return "witness count"
    return None

# ---------------------------------------------------------------- python row evaluator (search only)
D_ED = 0x2a9318e74bfa2b48f5fd9207e6bd7fd4292d7f6d37579d2601065fd6d6343eb1

def delta(f):
    return f * (f - 1) * (f - 2) * (f - 3) % R

def row_components(sel, w, n, pi):
    """component-wise residuals of one row; all must be 0 (mirrors Gate.v row_ok)"""
    qm, ql, qr, qo, qf, qc, qar, qra, qlo, qfx, qvr = sel
    a, b, c, d = w
    an, bn, cn, dn = n
    out = [((a*b*qm + a*ql + b*qr + c*qo + d*qf + qc) * qar + pi) % R]
    if qra:
        out += [qra*delta(c - 4*d) % R, qra*delta(b - 4*c) % R, qra*delta(a - 4*b) % R, qra*delta(dn - 4*a) % R]
    if qlo:
        la, lb, ld = (an - 4*a) % R, (bn - 4*b) % R, (dn - 4*d) % R
        F_ = c * (c * (4*c - 18*(la+lb) + 81) + 18*(la*la + lb*lb) - 81*(la+lb) + 83) % R
        E = (3*(la+lb+ld) - 2*F_) % R
        B = qc * (9*ld - 3*(la+lb)) % R
        out += [qlo*delta(la) % R, qlo*delta(lb) % R, qlo*delta(ld) % R, qlo*(c - la*lb) % R, qlo*(B+E) % R]
    if qfx:
        bit = (dn - 2*d) % R
        ya = (bit*bit*(qr - 1) + 1) % R
        xa = bit * ql % R
        out += [qfx*(bit*(bit-1)*(bit+1)) % R, qfx*(bit*qc - c) % R,
                qfx*((an + an*c*a*b*D_ED) - (a*ya + b*xa)) % R,
                qfx*((bn - bn*c*a*b*D_ED) - (b*ya + a*xa)) % R]
    if qvr:
        out += [qvr*(a*d - dn) % R,
                qvr*((dn + b*c) - (an + an*D_ED*dn*(b*c))) % R,
                qvr*((b*d + a*c) - (bn - bn*D_ED*dn*(b*c))) % R]
    return out

def npo2(n):
    p = 1
    while p < n: p *= 2
    return p

def first_bad_row(gates, pis, wits):
    n = npo2(len(gates))
    def vals(i):
        if i < len(gates):
            return tuple(wits[w] for w in gates[i][1])
        return (0, 0, 0, 0)
    for i in range(len(gates)):
        comps = row_components(gates[i][0], vals(i), vals((i + 1) % n), pis.get(i, 0))
        if any(comps):
            return i
    return None

# ---------------------------------------------------------------- evidence / findings
def load_known_findings():
    p = os.path.join(VERIF, "known_findings.json")
    if not os.path.exists(p): return {"findings": [], "fixed": []}
    return json.load(open(p))

class Check:
    """one run of one property's check"""
    def __init__(self, pid, tier, seed):
        self.pid, self.tier, self.seed = pid, tier, seed
        self.t0 = time.time()
        self.evaluations = 0
        self.distinct = set()
        self.samples = []
        self.violations = []      # (what, replay dict)
        self.known_hits = []
        self.notes = []
        self.dist = {}
        self.obligations = []
        self.discharged = []
        self.traces = 0
        self.kf = [f for f in load_known_findings()["findings"] if f["property"] == pid]

    def count(self, key, nontrivial=True, kind=None):
        self.evaluations += 1
        if nontrivial: self.distinct.add(key)
        if kind: self.dist[kind] = self.dist.get(kind, 0) + 1

    def sample(self, s, cap=6):
        if len(self.samples) < cap: self.samples.append(s)

    def violation(self, what, replay, key=None):
        """report a failure of the property; suppressed iff it matches a listed known finding"""
        for f in self.kf:
            if key is not None and re.fullmatch(f["key"], key):
                if f not in self.known_hits: self.known_hits.append(f)
                return
        self.violations.append((what, replay))

    def finish(self, level="proof", rule="", assumptions=(), checker_cmd="", trusted_base=(), extra=None):
        wall = time.time() - self.t0
        cov = {
            "evaluations": self.evaluations,
            "distinct_nontrivial": len(self.distinct),
            "rule": rule,
            "samples": self.samples or ["(none)"],
            "obligations": len(self.obligations),
            "discharged": len(self.discharged),
            "checker_cmd": checker_cmd,
            "trusted_base": list(trusted_base),
            "traces_validated_against_impl": self.traces,
            "input_distribution": self.dist,
            "theorems": self.discharged,
            "notes": self.notes,
            "known_findings_reproduced": [f["what"] for f in self.known_hits],
        }
        if extra: cov.update(extra)
        ev = {"property_id": self.pid, "tier": self.tier, "seed": self.seed, "level": level,
              "coverage": cov, "assumptions": list(assumptions), "wall_s": round(wall, 2),
              "violations": len(self.violations)}
        os.makedirs(os.path.join(VERIF, "evidence"), exist_ok=True)
        with open(os.path.join(VERIF, "evidence", f"{self.pid}.json"), "w") as f:
            json.dump(ev, f, indent=1, default=str)
        for f_ in self.known_hits:
            print(f"KNOWN-FINDING: property={self.pid} {f_['what']}")
        if self.violations:
            os.makedirs(os.path.join(VERIF, "replays"), exist_ok=True)
            for k, (what, replay) in enumerate(self.violations[:5]):
                path = os.path.join(VERIF, "replays", f"{self.pid}_{self.seed}_{k}.json")
                with open(path, "w") as f:
                    json.dump({"property": self.pid, "what": what, "replay": replay, "seed": self.seed, "tier": self.tier}, f, indent=1, default=str)
                suffix = "" if (isinstance(replay, dict) and replay.get("failing_input_found", True)) else " no-failing-input-found"
                print(f"VIOLATION property={self.pid} replay={path}{suffix}")
                print(f"  {what}"[:600])
            return 1
        print(f"OK property={self.pid} tier={self.tier} evaluations={self.evaluations} distinct={len(self.distinct)} obligations={len(self.discharged)}/{len(self.obligations)} wall={wall:.1f}s")
        return 0
