"""C04: a proof binds its statement (public inputs, circuit, label, version)."""
import json
from ..common import *
from .. import proofgate, protocol

THEOREMS = ['C04_pi_eval_injective', 'C04_statement_framing_injective']

def run(ck):
    quick = ck.tier == "quick"
    if THEOREMS: proofgate.run(ck, "C04.v", THEOREMS)
    build_harness(); build_harness("checked")
    rng = Rng(ck.seed, "C04")
    S = protocol.Script()
    S.cmd("pp", "pp", 1 << 9, 3)
    tests = []   # (cmd id, description, key)
    def expect_err(cid, desc, key): tests.append((cid, desc, key)); ck.count((desc,), kind=key)
    # base circuit with 5 public inputs (one zero-valued)
    pv = [rng.scalar(), 0, rng.scalar(), rng.scalar(), 7]
    base = ["w 5", "w 7"] + [f"pub {hx(v)}" for v in pv[:2]] + ["gmul 1 0 0 0 0 0 - $0 $1 0 0"] + [f"pub {hx(v)}" for v in pv[2:]] + ["rbits 8 $0"]
    S.circuit("A", base)
    S.cmd("compile", "kA", "pp", "6c6162656c", "A")
    pA = S.cmd("prove", "pA", "kA", "A", 9)
    okA = S.cmd("verify", "kA", "pA", "=")
    pis = lambda l: ",".join(hx(x) for x in l) or "-"
    for i in range(len(pv)):
        for nm, val in (("+1", (pv[i] + 1) % R), ("zero", 0), ("other position's value", pv[(i + 1) % len(pv)])):
            if val == pv[i]: continue
            l = list(pv); l[i] = val
            expect_err(S.cmd("verify", "kA", "pA", pis(l)), f"public input {i} := {nm}", "pi-value")
    for i in range(len(pv) - 1):
        l = list(pv); l[i], l[i + 1] = l[i + 1], l[i]
        if l != pv: expect_err(S.cmd("verify", "kA", "pA", pis(l)), f"public inputs {i},{i+1} transposed", "pi-order")
    expect_err(S.cmd("verify", "kA", "pA", pis(pv[:-1])), "public input vector truncated", "pi-len")
    expect_err(S.cmd("verify", "kA", "pA", pis(pv + [0])), "public input vector extended by 0", "pi-len")
    expect_err(S.cmd("verify", "kA", "pA", pis(pv + [rng.scalar()])), "public input vector extended", "pi-len")
    expect_err(S.cmd("verify", "kA", "pA", "-"), "empty public input vector", "pi-len")
    # a statement whose public-input vector ENDS in zeros: every shorter prefix must still be rejected
    pz = [rng.scalar(), 0, 0]
    basez = ["w 5", "w 7"] + [f"pub {hx(v)}" for v in pz] + ["gmul 1 0 0 0 0 0 - $0 $1 0 0"]
    S.circuit("AZ", basez); S.cmd("compile", "kAZ", "pp", "6c6162656c", "AZ"); S.cmd("prove", "pAZ", "kAZ", "AZ", 12)
    okAZ = S.cmd("verify", "kAZ", "pAZ", "=")
    for cut in (1, 2, 3):
        expect_err(S.cmd("verify", "kAZ", "pAZ", pis(pz[:len(pz) - cut])), f"trailing-zero public inputs: vector cut by {cut}", "pi-len")
    expect_err(S.cmd("verify", "kAZ", "pAZ", pis(pz + [0])), "trailing-zero public inputs: vector extended by 0", "pi-len")
    # near-miss circuits
    near = {
        "one selector value": [l.replace("gmul 1 0 0 0 0 0", "gmul 1 0 0 0 0 1") for l in base],
        "one wire": [l.replace("gmul 1 0 0 0 0 0 - $0 $1", "gmul 1 0 0 0 0 0 - $1 $1") for l in base],
        "one constraint more": base + ["bool 1"],
        "one constraint fewer": base[:-1] + ["rbits 6 $0"],
        "public-input row moved (non-zero value)": ["w 5", "w 7", f"pub {hx(pv[0])}", "gmul 1 0 0 0 0 0 - $0 $1 0 0", f"pub {hx(pv[1])}"] + [f"pub {hx(v)}" for v in pv[2:]] + ["rbits 8 $0"],
        "one public input fewer": ["w 5", "w 7", f"pub {hx(pv[0])}", f"w {hx(pv[1])}", "aeqc $3 0 -", "gmul 1 0 0 0 0 0 - $0 $1 0 0"] + [f"pub {hx(v)}" for v in pv[2:]] + ["rbits 8 $0"],
    }
    for nm, body in near.items():
        S.circuit("N" + str(len(S.circuits)), body); cn = "N" + str(len(S.circuits) - 1)
        S.cmd("compile", "k" + cn, "pp", "6c6162656c", cn)
        expect_err(S.cmd("verify", "k" + cn, "pA", "="), f"proof for A under the verifier of a near-miss circuit: {nm}", "near-miss")
        S.cmd("prove", "p" + cn, "k" + cn, cn, 10)
        expect_err(S.cmd("verify", "kA", "p" + cn, "="), f"proof of the near-miss circuit ({nm}) under A's verifier", "near-miss")
    # circuits with identical gates that differ in HOW MANY rows are declared public, the extra row carrying 0:
    # proofs of one under the verifier of the other with the vector extended / cut by that zero, in both directions,
    # and with the zero inserted in front (the count of declared rows is bound through the transcript)
    pvz = rng.scalar()
    zI = ["w 5", "w 7", f"pub {hx(pvz)}", "gmul 1 0 0 0 0 0 - $0 $1 0 0", "w 0", "aeqc $4 0 -"]
    zIJ = ["w 5", "w 7", f"pub {hx(pvz)}", "gmul 1 0 0 0 0 0 - $0 $1 0 0", "pub 0", "w 0"]
    zHI = ["w 5", "w 7", "w 0", "aeqc $2 0 -", "gmul 1 0 0 0 0 0 - $0 $1 0 0", f"pub {hx(pvz)}"]
    for nm_, body_ in (("ZI", zI), ("ZIJ", zIJ)):
        S.circuit(nm_, body_); S.cmd("compile", "k" + nm_, "pp", "6c6162656c", nm_); S.cmd("prove", "p" + nm_, "k" + nm_, nm_, 14)
    expect_err(S.cmd("verify", "kZIJ", "pZI", pis([pvz, 0])), "proof for public rows {I} under the verifier for rows {I,J} with the vector extended by the zero of row J", "pi-rows")
    expect_err(S.cmd("verify", "kZI", "pZIJ", pis([pvz])), "proof for public rows {I,J} (J carrying 0) under the verifier for rows {I} with the zero dropped", "pi-rows")
    expect_err(S.cmd("verify", "kZIJ", "pZI", pis([0, pvz])), "proof for rows {I} under the verifier for {I,J} with a zero put in front", "pi-rows")
    # labels: one byte, length, empty, prefixes in both orders of first use
    labels = ["6c6162656c", "6c6162656d", "6c616265", "6c6162656c00", "-", "6c6162656c2d76310a"[:-2], "6c6162656c2d763130", "6c6162656c2d7631"]
    # keys for labels are compiled in an order that puts the LONGER label first (cache order matters)
    for j, lab in enumerate(["6c6162656c2d763130", "6c6162656c2d7631"] + labels[1:5]):
        S.cmd("compile", f"kL{j}", "pp", lab, "A"); S.cmd("prove", f"pL{j}", f"kL{j}", "A", 9)
    for j, lab in enumerate(["6c6162656c2d763130", "6c6162656c2d7631"] + labels[1:5]):
        expect_err(S.cmd("verify", f"kL{j}", "pA", "="), f"proof under label 'label' verified under label hex {lab}", "label")
        expect_err(S.cmd("verify", "kA", f"pL{j}", "="), f"proof under label hex {lab} verified under 'label'", "label")
    expect_err(S.cmd("verify", "kL0", "pL1", "="), "proof under 'label-v1' verified under 'label-v10' (prefix, longer first used first)", "label-prefix")
    expect_err(S.cmd("verify", "kL1", "pL0", "="), "proof under 'label-v10' verified under 'label-v1'", "label-prefix")
    # long labels of equal length that differ only after a long common prefix (byte 33, byte 48, last byte of 64),
    # both used in this one process, in both orders of first use
    longs = []
    for ln, pos in ((40, 39), (40, 32), (48, 47), (64, 63), (33, 32), (100, 70)):
        base = bytes((0x61 + (i % 26)) for i in range(ln))
        other = bytearray(base); other[pos] ^= 1
        longs.append((base.hex(), bytes(other).hex(), ln, pos))
    for j, (la, lb, ln, pos) in enumerate(longs):
        S.cmd("compile", f"kLa{j}", "pp", la, "A"); S.cmd("prove", f"pLa{j}", f"kLa{j}", "A", 9)
        S.cmd("compile", f"kLb{j}", "pp", lb, "A"); S.cmd("prove", f"pLb{j}", f"kLb{j}", "A", 9)
        expect_err(S.cmd("verify", f"kLb{j}", f"pLa{j}", "="), f"{ln}-byte labels differing only at byte {pos}: proof under the first verified under the second", "label-long")
        expect_err(S.cmd("verify", f"kLa{j}", f"pLb{j}", "="), f"{ln}-byte labels differing only at byte {pos}: proof under the second verified under the first", "label-long")
    # a verifier rebuilt from bytes must bind the label as well
    S.cmd("blobof", "vb1", "verifier", "kL1"); S.cmd("decode", "verifier", "vb1", "kL1r")
    expect_err(S.cmd("verify", "kL1r", "pL0", "="), "proof under 'label-v10' verified by a decoded 'label-v1' verifier", "label-prefix")
    if not quick:
        import itertools
        # every permutation of the five public inputs, every single-bit change of the label, many alternative values
        for perm in itertools.permutations(range(len(pv))):
            l = [pv[j] for j in perm]
            if l != pv: expect_err(S.cmd("verify", "kA", "pA", pis(l)), f"public inputs permuted {perm}", "pi-order")
        for i in range(len(pv)):
            for val in [R - 1, 1, (pv[i] - 1) % R, (pv[i] * 2) % R, rng.scalar(), rng.scalar(), 1 << 255 - 1 if False else (1 << 254)]:
                if val == pv[i]: continue
                l = list(pv); l[i] = val
                expect_err(S.cmd("verify", "kA", "pA", pis(l)), f"public input {i} := {val:#x}"[:60], "pi-value")
        lab = bytes.fromhex("6c6162656c")
        for bit in range(40):
            b = bytearray(lab); b[bit // 8] ^= 1 << (bit % 8)
            S.cmd("compile", f"kB{bit}", "pp", bytes(b).hex(), "A")
            expect_err(S.cmd("verify", f"kB{bit}", "pA", "="), f"label with bit {bit} flipped", "label")
        for ext in ("00", "6c", "ff", "6c6162656c"):
            S.cmd("compile", f"kE{ext}", "pp", "6c6162656c" + ext, "A")
            expect_err(S.cmd("verify", f"kE{ext}", "pA", "="), f"label extended by {ext}", "label")
        # a second, larger base circuit with public inputs on the first and last user rows
        pv2 = [rng.scalar() for _ in range(3)]
        base2 = [f"pub {hx(pv2[0])}", "w 3", "w 4"] + ["gmul 1 0 0 0 0 3 - $1 $2 0 0"] * 20 + [f"pub {hx(pv2[1])}", "land 4 $1 $2", f"pub {hx(pv2[2])}"]
        S.circuit("A2", base2); S.cmd("compile", "kA2", "pp", "6c6162656c", "A2"); S.cmd("prove", "pA2", "kA2", "A2", 11)
        for i in range(3):
            l = list(pv2); l[i] = (l[i] + 1) % R
            expect_err(S.cmd("verify", "kA2", "pA2", pis(l)), f"second circuit: public input {i} := +1", "pi-value")
        expect_err(S.cmd("verify", "kA", "pA2", "="), "proof of the second circuit under A's verifier", "near-miss")
        expect_err(S.cmd("verify", "kA2", "pA", "="), "proof of A under the second circuit's verifier", "near-miss")
    # versions
    for ver in ("V1", "V2"):
        expect_err(S.cmd("verify", "kA", "pA", "=", ver), f"V3 proof verified as {ver}", "version")
    expect_err(S.cmd("prove", "pV2", "kA", "A", 9, "V2"), "proving under V2 without the legacy feature", "version")
    expect_err(S.cmd("prove", "pV1", "kA", "A", 9, "V1"), "proving under V1", "version")
    res = protocol.run(S, "c04", checked=True)
    ck.sample({"circuit": base[:5], "public_inputs": [hx(v) for v in pv]})
    if not res[okAZ].startswith("OK"):
        ck.violation(f"honest trailing-zero case failed: {res[okAZ][:60]}", {"failing_input_found": True, "circuit": basez}, key="honest")
    if not (res[pA].startswith("OK") and res[okA].startswith("OK")):
        ck.violation(f"honest base case failed: {res[pA][:60]} / {res[okA][:60]}", {"failing_input_found": True, "circuit": base}, key="honest")
    for cid, desc, key in tests:
        r = res.get(cid, "MISSING")
        ck.traces += 1
        ctx = {"failing_input_found": True, "case": desc, "base_circuit": base, "public_inputs": [hx(v) for v in pv]}
        if "PANIC" in r:
            ck.violation(f"panic instead of an error: {desc}: {r[:140]}", ctx, key="panic:" + key)
        elif r.startswith("OK"):
            ck.violation(f"accepted although the statement differs: {desc}", ctx, key="accepted:" + key + ":" + desc.split(":")[-1].strip()[:40])
    # the zero-valued relocated public input (see DESIGN.md, F8)
    S2 = protocol.Script(); S2.cmd("pp", "pp", 1 << 9, 3)
    z1 = ["w 5", "pub 0", "gmul 1 0 0 0 0 0 - $0 $0 0 0", "w 0", "aeqc $3 0 -"]
    z2 = ["w 5", "w 0", "aeqc $1 0 -", "gmul 1 0 0 0 0 0 - $0 $0 0 0", "pub 0"]
    S2.circuit("Z1", z1); S2.circuit("Z2", z2)
    S2.cmd("compile", "k1", "pp", "7a", "Z1"); S2.cmd("compile", "k2", "pp", "7a", "Z2")
    p1 = S2.cmd("prove", "p1", "k1", "Z1", 3)
    x12 = S2.cmd("verify", "k2", "p1", "=")
    r2 = protocol.run(S2, "c04_z", checked=True)
    ck.count(("zero pi relocated",), kind="near-miss")
    if r2[x12].startswith("OK"):
        ck.violation("accepted although the circuits differ: the only public input (value 0) sits on a different row", {"failing_input_found": True, "circuit_proved": z1, "circuit_of_verifier": z2}, key="accepted:zero-pi-row-moved")
    return ck.finish(level="proof",
        rule="one valid proof with 5 public inputs (one zero): every position x {+1, 0, another position's value}, adjacent transpositions, truncation/extension; near-miss circuits (one selector value, one wire, one constraint more/fewer, one public-input row moved or removed; one zero-valued public row more / fewer with the vector adjusted) in both directions; labels differing in one byte or in length, empty, 33..100-byte labels differing only after a common prefix of 32..70 bytes, and prefix pairs with the longer label used first (also through a decoded verifier); V3 proofs under V1/V2, proving under V1/V2; checked build, catch_unwind",
        assumptions=["acceptance of a mismatched statement needs a Keccak coincidence or one of <= 5n+6 bad evaluation points (C03/C05 theorems); here every explored mismatch must be rejected"],
        checker_cmd=proofgate.CHECKER_CMD, trusted_base=proofgate.TRUSTED)

def replay(ck, path):
    print(json.dumps(json.load(open(path))["replay"], indent=1)[:2500]); return 0
