"""C16: serialization round trips preserve keys, proofs and parameters."""
import json
from ..common import *
from .. import proofgate, protocol, mutate

THEOREMS = ['C16_le_roundtrip', 'C16_vec_roundtrip', 'C16_prover_key_size_exact', 'C16_vecs_roundtrip']
W32 = 0x16a2a19edfe81f20d09b681922c813b4b63683508c2280b93829971f439f0d2b

def f1_circuit(rng):
    """n = 8: every selector polynomial has full length except q_M, whose first
    user row is chosen so that the interpolated q_M loses its top coefficient
    (rows 2 and 3 of Composer::initialized() carry q_M = 1)"""
    w = pow(W32, 1 << 29, R)
    x = (-(pow(w, 2, R) + pow(w, 3, R)) * pow(pow(w, 4, R), R - 2, R)) % R
    rows = []
    for i in range(4):
        sel = [rng.scalar() for _ in range(12)]
        sel[0] = x if i == 0 else 0
        sel[6] = 0
        rows.append("raw " + " ".join(hx(v) for v in sel) + " 0 0 0 0 0")
    return rows

def run(ck):
    quick = ck.tier == "quick"
    if THEOREMS: proofgate.run(ck, "C16.v", THEOREMS)
    build_harness()
    rng = Rng(ck.seed, "C16")
    S = protocol.Script()
    S.cmd("pp", "pp", (1 << 12) + 8 if quick else (1 << 13) + 8, 3)
    kinds_sets = [["arith"], ["range"], ["logic"], ["range", "logic"], ["trunc"], ["decomp", "pub"], ["pub"], ["sel", "bool"],
                  ["arith", "range", "logic", "trunc", "decomp", "pub", "sel", "bool"]]
    cases = []
    def add(tag, body, prove=True):
        i = len(cases); nm = f"C{i}"
        S.circuit(nm, body)
        ids = {"compile": S.cmd("compile", f"k{i}", "pp", "%02x" % (i + 1), nm),
               "rt": S.cmd("roundtrip", f"r{i}", f"k{i}"),
               "p1": S.cmd("prove", f"p{i}", f"k{i}", nm, 40 + i), "p2": S.cmd("prove", f"q{i}", f"r{i}", nm, 40 + i),
               "v1": S.cmd("verify", f"r{i}", f"p{i}", "="), "v2": S.cmd("verify", f"k{i}", f"q{i}", "=")}
        # a forgery both verifiers must treat alike: first evaluation + 1 (installed below from python after the run)
        cases.append((tag, nm, ids, i, prove))
        ck.count((tag, tuple(body)), kind=tag)
    for ks in kinds_sets:
        for rep in range(1 if quick else 6):
            add("gadgets " + "+".join(ks), protocol.gadget_circuit(rng, kinds=ks, size_hint=rng.randrange(0, 5)))
    for c in ([4, 5, 8, 13, 16, 17, 60, 1024, 2100] if quick else list(range(4, 70)) + [255, 256, 257, 1024, 2100, 4096]):
        add(f"size {c}", protocol.filler(c - 4, rng))
    add("F1: q_M loses its top coefficient", f1_circuit(rng), prove=False)
    add("PI first/last", ["pub " + hx(rng.scalar())] + protocol.filler(10, rng) + ["pub 0"])
    # public parameters
    pp_ids = {}
    for deg in ([1, 2, 17] if quick else [1, 2, 3, 17, 64, 200]):
        S.cmd("pp", f"s{deg}", deg, 5 + deg)
        S.cmd("blobof", f"sb{deg}", "pp", f"s{deg}")
        d = S.cmd("decode", "pp", f"sb{deg}", f"s{deg}r")
        S.cmd("blobof", f"sb{deg}r", "pp", f"s{deg}r")
        pp_ids[deg] = (d, S.cmd("blobget", f"sb{deg}"), S.cmd("blobget", f"sb{deg}r"))
        ck.count(("pp", deg), kind="public parameters")
    res = protocol.run(S, "c16")
    ck.sample({"circuit": S.circuits["C0"][:6]}); ck.sample({"circuit": "F1", "body": S.circuits[cases[-2][1]][:2]})
    good = []
    for tag, nm, ids, i, prove in cases:
        ctx = {"failing_input_found": True, "circuit": S.circuits[nm], "case": tag}
        ck.traces += 1
        if not res[ids["compile"]].startswith("OK"):
            ck.violation(f"compile failed: {tag}: {res[ids['compile']][:100]}", ctx, key="compile"); continue
        rt = res[ids["rt"]]
        if not rt.startswith("OK"):
            ck.violation(f"encode-then-decode fails: {tag}: {rt[:120]}", ctx, key="roundtrip-decode"); continue
        if "same=true" not in rt:
            ck.violation(f"re-encoding after a round trip differs: {tag}", ctx, key="roundtrip-bytes"); continue
        if not prove: continue
        p1, p2 = res[ids["p1"]], res[ids["p2"]]
        if not (p1.startswith("OK") and p2.startswith("OK")):
            ck.violation(f"prove fails before/after the round trip: {tag}: {p1[:60]} / {p2[:60]}", ctx, key="roundtrip-prove"); continue
        if p1.split()[1] != p2.split()[1] or p1.split()[2] != p2.split()[2]:
            ck.violation(f"decoded prover produces a different proof from the same randomness: {tag}", ctx, key="roundtrip-proof"); continue
        if not (res[ids["v1"]].startswith("OK") and res[ids["v2"]].startswith("OK")):
            ck.violation(f"decoded verifier / original verifier disagree on honest proofs: {tag}: {res[ids['v1']][:40]} {res[ids['v2']][:40]}", ctx, key="roundtrip-verify"); continue
        good.append((i, nm, p1.split()[1], p1.split()[2][3:]))
    for deg, (d, b1, b2) in pp_ids.items():
        if not res[d].startswith("OK") or res[b1] != res[b2]:
            ck.violation(f"public parameters of degree {deg} do not round-trip: {res[d][:80]}", {"failing_input_found": True, "degree": deg}, key="pp-roundtrip")
    # second pass: forgeries and canonicity of accepted proof strings
    S2 = protocol.Script()
    S2.lines = list(S.lines)      # rebuild the same objects, then probe
    S2.n = S.n
    probes = []
    for i, nm, proofhex, pi in good[: (6 if quick else 40)]:
        pb = bytes.fromhex(proofhex)
        for j in range(12 if quick else 80):
            b = bytearray(pb); pos = rng.randrange(1008); b[pos] ^= 1 << rng.randrange(8)
            S2.cmd("blob", f"f{i}_{j}", bytes(b).hex())
            d = S2.cmd("decode", "proof", f"f{i}_{j}", f"fp{i}_{j}")
            S2.cmd("proofbytes", f"fq{i}_{j}", bytes(b).hex(), pi or "-")
            va = S2.cmd("verify", f"k{i}", f"fq{i}_{j}", "="); vb = S2.cmd("verify", f"r{i}", f"fq{i}_{j}", "=")
            probes.append((i, nm, pos, d, va, vb))
            ck.count(("flip", i, pos), kind="proof bit flips", nontrivial=False)
        # the second 32-byte encoding v + r of every evaluation (always below 2^256): must not decode
        for slot in (range(15) if (not quick or i == good[0][0]) else [rng.randrange(15)]):
            o = 528 + 32 * slot
            v = int.from_bytes(pb[o:o + 32], "little")
            b = bytearray(pb); b[o:o + 32] = (v + R).to_bytes(32, "little")
            j = f"a{slot}"
            S2.cmd("blob", f"f{i}_{j}", bytes(b).hex())
            d = S2.cmd("decode", "proof", f"f{i}_{j}", f"fp{i}_{j}")
            S2.cmd("proofbytes", f"fq{i}_{j}", bytes(b).hex(), pi or "-")
            va = S2.cmd("verify", f"k{i}", f"fq{i}_{j}", "="); vb = S2.cmd("verify", f"r{i}", f"fq{i}_{j}", "=")
            probes.append((i, nm, f"evaluation {slot} re-encoded as v + r", d, va, vb))
            ck.count(("alias", i, slot), kind="evaluation alias v + r")
    res2 = protocol.run(S2, "c16b")
    for i, nm, pos, d, va, vb in probes:
        r = res2[d]
        if r.startswith("OK") and "canonical=false" in r:
            ck.violation(f"proof decoder accepts a non-canonical 1008-byte string ({pos if isinstance(pos, str) else f'bit flip at byte {pos}'})", {"failing_input_found": True, "circuit": S.circuits[nm], "byte": pos}, key="proof-canonical")
        if r.startswith("OK") and res2[va].split()[0] != res2[vb].split()[0]:
            ck.violation(f"original and decoded verifier disagree on a mutated proof (byte {pos}): {res2[va][:40]} vs {res2[vb][:40]}", {"failing_input_found": True, "circuit": S.circuits[nm], "byte": pos}, key="verifier-behaviour")
        if r.startswith("OK") and res2[va].startswith("OK"):
            ck.notes.append(f"mutated proof accepted by the verifier at byte {pos} (see C03)")
    return ck.finish(level="proof",
        rule="circuits using every subset pattern of gate families (incl. range without logic, single families), sizes 4..70 and 1024, 2100 (thorough also 255..257, 4096), the F1 circuit whose interpolated q_M loses its top coefficient, public inputs on first/last rows; prover and verifier through bytes: bytes equal after re-encoding, decoded prover yields the same proof from the same scripted randomness, decoded verifier accepts the same proofs and treats bit-flipped proofs identically; public parameters of several degrees; every accepted 1008-byte mutant re-encodes to itself; the alias encoding v + r of every evaluation must not decode",
        assumptions=["G1/G2/scalar codecs of dusk-bls12_381 are canonical and round-trip (their contract)"],
        checker_cmd=proofgate.CHECKER_CMD, trusted_base=proofgate.TRUSTED)

def replay(ck, path):
    print(json.dumps(json.load(open(path))["replay"], indent=1)[:2000]); return 0
