"""C11: truncation and decomposition."""
import json
from ..common import *
from .. import proofgate, composer

THEOREMS = ["C11_truncate_layout", "C11_decomposition_layout", "C11_canonical_guard", "C11_split_sound",
            "C11_truncate_sound", "C11_decomposition_sound", "C11_decomposition_complete_any",
            "C11_decomposition_alias_refuted", "C11_canonical_guard_complete", "C11_split_complete", "C11_truncate_complete"]
FIRST = 6   # witnesses of Composer::initialized()

def values_for(N, rng, quick):
    vs = [R - 1, ((1 << N) - 1) % R, (1 << N) % R, rng.scalar()] if quick else [0, R - 1, ((1 << N) - 1) % R, (1 << N) % R, rng.scalar()]
    if N >= 1:                             # v + r < 2^255: the alias split of v + r has in-range parts
        vs.append(rng.randrange(max(1, min((1 << N) - 1, (1 << 255) - R))))
    if (1 << N) > R:                       # N in {255, 256}
        vs.append(rng.randrange((1 << N) - R))       # v + r still fits N bits
    elif N >= 200:
        vs.append(rng.scalar() % (1 << N))
    if not quick:
        vs += [rng.scalar(), rng.boundary(), (R - 1) >> 1]
    return vs

def trunc_alias(snap, v, N):
    """the alias split of v + r: low' = (v+r) mod 2^N, high' = (v+r) >> N (if it fits 255-N bits)"""
    z = v + R
    low, high = z % (1 << N), z >> N
    if high >= (1 << (255 - N)): return None
    return low, high

def run(ck):
    quick = ck.tier == "quick"
    proofgate.run(ck, "C11.v", THEOREMS)
    build_driver(); build_harness()
    rng = Rng(ck.seed, "C11")
    progs, lines, meta = {}, [], {}
    def add(name, L, m):
        progs[name] = L; meta[name] = m
        lines.append("prog " + name); lines.extend(L)
    for N in range(0, 255):
        for j, v in enumerate(values_for(N, rng, quick)):
            add(f"tr{N}_{j}", ["w " + hx(v), f"trunc {N} $0", "snap"], ("trunc", N, v))
            ck.count(("trunc", N, v), kind="component_truncate")
    for N in range(1, 257):
        for j, v in enumerate(values_for(N, rng, quick)):
            add(f"de{N}_{j}", ["w " + hx(v), f"decomp {N} $0", "snap"], ("decomp", N, v))
            ck.count(("decomp", N, v), kind="component_decomposition")
    # several components on ONE witness in one composer: each call must emit its own gates and return its own result
    for j, (ops, vs) in enumerate([(["trunc 8", "trunc 8"], [0x1ff]), (["trunc 16", "trunc 8"], [0x12345]), (["trunc 8", "trunc 16"], [0x12345]),
                                   (["decomp 8", "decomp 8"], [0xa5, 0x100]), (["decomp 16", "decomp 8"], [0xa5, 0x1a5]), (["trunc 254", "trunc 1"], [R - 1]),
                                   (["trunc 8", "decomp 8"], [0xff, 0x1ff]), (["decomp 256", "decomp 8"], [0x7f, 0x100]), (["trunc 0", "trunc 8", "trunc 0"], [0x3ff])]):
        for k, v in enumerate(vs):
            add(f"sq{j}_{k}", ["w " + hx(v)] + [f"{o} $0" for o in ops] + ["snap"], ("seq", tuple(ops), v))
            ck.count(("seq", tuple(ops), v), kind="several components on one witness")
    # donors for the width-1 forgery: truncate::<1> on x - 2k (same parity as x, high smaller by k)
    f1 = []
    for fi in range(2 if quick else 8):
        x_ = rng.randrange(1 << 40) + 1000; k_ = 1 + rng.randrange(400)
        add(f"f1d{fi}", ["w " + hx(x_ - 2 * k_), "trunc 1 $0", "snap"], ("f1donor", 1, x_ - 2 * k_)); f1.append((fi, x_, k_))
    impl, model = composer.run_both(ck, "\n".join(lines) + "\n", "c11")
    ck.sample({"program": progs["tr8_0"]}); ck.sample({"program": progs["de256_0"]})
    bad = composer.compare_programs(ck, progs, impl, model, "C11")
    # several gadget kinds on a shared pool of witnesses in one composer (caches keyed by witness, memoised bindings ...)
    mbad, mprogs = composer.check_mixed_sequences(ck, composer.mixed_sequences(rng, 6 if quick else 60, "trunc"), "c11_mix", "C11")
    if mbad and not ck.violations:
        nm_, d_ = mbad[0]
        ck.violation(f"correspondence C11 (L3) broke on mixed sequences of gadget calls: {nm_}: {d_}",
                     {"failing_input_found": False, "correspondence": "L3 snapshot of a sequence of gadget calls on shared witnesses vs the Gallina model", "program": mprogs[nm_], "diff": d_, "theorems_no_longer_tied": THEOREMS})
    # ---- exactness on the REAL layouts (evaluated by the extracted evaluator)
    jobs, expect, info = [], {}, {}
    for name, (kind, N, v) in meta.items():
        if name not in impl: continue
        snap = Snapshot(impl[name])
        if not snap.gates: continue
        res = snap.results
        if kind == "f1donor":
            jobs.append((name, snap, None)); expect[name] = True; info[name] = ("trunc honest", 1, v)
            # forged low for truncate::<1>(x): take the honest wires of x - 2k (high = high(x) - k), put x back on the input
            # and its copy, claim low = (x mod 2) + 2k; the 1-bit check of low then needs lower = 2k, which the gate pinning
            # lower to 0 forbids
            fi, x_, k_ = [t_ for t_ in f1 if f"f1d{t_[0]}" == name][0]
            g_ = snap.gates
            try:
                bi = next(i for i, (sel, w_) in enumerate(g_) if i >= 4 and sel[0] == 1 and sel[3] == R - 1 and sel[6] == 1 and w_[0] == w_[1] == w_[2])
                top = g_[bi][1][0]; lower, recomposed = g_[bi + 1][1][0], g_[bi + 1][1][2]; low_w = g_[bi + 2][1][1]
                if g_[bi + 1][1][1] != top or g_[bi + 2][1][0] != recomposed: raise StopIteration
                bind = next(i for i, (sel, w_) in enumerate(g_) if sel[1] == 2 and sel[2] == 1 and sel[3] == R - 1 and sel[6] == 1 and w_[1] == low_w)
                neg = next(i for i, (sel, w_) in enumerate(g_) if sel[1] == R - 1 and sel[3] == R - 1 and sel[5] == 0 and sel[6] == 1 and w_[0] == low_w and w_[1] == 0)
            except (StopIteration, IndexError):
                continue
            L_ = (x_ % 2) + 2 * k_
            w2 = list(snap.wits)
            w2[FIRST] = x_; w2[g_[bind][1][2]] = x_; w2[low_w] = L_; w2[recomposed] = L_; w2[lower] = (L_ - w2[top]) % R; w2[g_[neg][1][2]] = (-L_) % R
            nm = name + "_forged"
            jobs.append((nm, snap, w2)); expect[nm] = False; info[nm] = ("truncate::<1>: forged low = (x mod 2) + 2k with lower = 2k", 1, x_)
            ck.count(("f1forged", x_, k_), kind="template: width-1 forgery")
            continue
        if kind == "seq":
            ok = all(v < (1 << int(o.split()[1])) for o in N if o.startswith("decomp") and int(o.split()[1]) <= 254)
            jobs.append((name, snap, None)); expect[name] = ok; info[name] = ("several components on one witness", 0, v)
            # every truncation returns ITS OWN width's value, whatever was computed for this witness before
            if all(o.startswith("trunc") for o in N):
                outs = [int(r_[0]) for r_ in res[1:] if r_ and r_[0].isdigit()]
                for o, wi in zip(N, outs):
                    nb = int(o.split()[1])
                    if wi < len(snap.wits) and snap.wits[wi] != v % (1 << nb):
                        ck.violation(f"in the sequence {list(N)} on one witness {v:#x}, truncate::<{nb}> returned {snap.wits[wi]:#x}, not the value mod 2^{nb}",
                                     {"failing_input_found": True, "program": progs[name]}, key=f"seq-value:{nb}")
                        break
            continue
        if kind == "trunc":
            jobs.append((name, snap, None)); expect[name] = True         # satisfiable for every input
            low = int(res[1][0])
            info[name] = ("trunc honest", N, v)
            if snap.wits[low] != v % (1 << N):
                ck.violation(f"truncate::<{N}>({v:#x}) returned {snap.wits[low]:#x}, not the value mod 2^{N}",
                             {"failing_input_found": True, "program": progs[name]}, key=f"trunc-value:{N}")
            # forced-output template: any other value on the returned wire must be unsatisfiable
            if N % 4 == 0 or N in (1, 2, 3, 253, 254) or not quick:
                w2 = list(snap.wits); w2[low] = (v % (1 << N) + 1) % R
                w2 = composer.rewitness(snap, w2, frozen={low, 6}, first_new=FIRST + 1)
                nm = name + "_forced"
                jobs.append((nm, snap, w2)); expect[nm] = False; info[nm] = ("trunc forced output", N, v)
                ck.count(("tforced", N, v), kind="template: forced output", nontrivial=False)
            # alias template: low/high of v + r, everything else re-derived on the real layout
            al = trunc_alias(snap, v, N)
            if al and N >= 1:
                w2 = list(snap.wits)
                w2[low] = al[0] % R; w2[low + 1 + _nw(N)] = al[1] % R
                high_idx = low + 1 + _nw(N)
                w2 = composer.rewitness(snap, w2, frozen={low, high_idx, 6}, first_new=FIRST + 1)
                nm = name + "_alias"
                jobs.append((nm, snap, w2)); expect[nm] = False; info[nm] = ("trunc alias v+r", N, v)
                ck.count(("talias", N, v), kind="template: truncate alias v+r")
        else:
            bits = [int(x) for x in res[1]]
            canon = (v < (1 << N))
            jobs.append((name, snap, None)); expect[name] = canon
            info[name] = ("decomp honest", N, v)
            if canon and [snap.wits[b] for b in bits] != [(v >> i) & 1 for i in range(N)]:
                ck.violation(f"decomposition::<{N}> returned non-canonical bits for {v:#x}", {"failing_input_found": True, "program": progs[name]}, key=f"decomp-value:{N}")
            # alias template: digits of v + r when they fit N bits
            z = v + R
            if z < (1 << N):
                w2 = list(snap.wits)
                for i, b in enumerate(bits): w2[b] = (z >> i) & 1
                w2 = composer.rewitness(snap, w2, frozen=set(bits) | {6}, first_new=FIRST + 1)
                nm = name + "_alias"
                jobs.append((nm, snap, w2)); expect[nm] = False; info[nm] = ("decomp alias v+r", N, v)
                ck.count(("dalias", N, v), kind="template: decomposition alias v+r")
            # flipped bit template
            if N >= 2 and (not quick or N % 16 == 0):
                w2 = list(snap.wits); w2[bits[0]] = (w2[bits[0]] + 1) % R
                w2 = composer.rewitness(snap, w2, frozen={bits[0], 6}, first_new=FIRST + 1)
                nm = name + "_flip"
                jobs.append((nm, snap, w2)); expect[nm] = False; info[nm] = ("decomp flipped bit", N, v)
                ck.count(("dflip", N, v), kind="template: flipped bit", nontrivial=False)
    res = composer.model_sat(jobs, "c11_sat")
    for nm in expect:
        got = res.get(nm, "?") is None
        if got != expect[nm]:
            what, N, v = info[nm]
            base = nm.rsplit("_alias", 1)[0].rsplit("_flip", 1)[0].rsplit("_forced", 1)[0].rsplit("_forged", 1)[0]
            if base not in progs: base = next((b_ for b_ in progs if nm.startswith(b_)), nm)
            ck.violation(f"{what}: N={N} v={v:#x}: rows of the real layout satisfiable={got}, property requires {expect[nm]}",
                         {"failing_input_found": True, "program": progs.get(base, [base]), "template": what, "N": N, "v": hx(v)},
                         key=f"{what}:N={N}")
    if bad and not ck.violations:
        name, d = bad[0]
        ck.violation(f"correspondence C11 (L3) broke on {len(bad)} of {len(progs)} programs; first {name} {meta[name][:2]}: {d}",
                     {"failing_input_found": False, "correspondence": "L3 snapshot of truncate/decomposition vs Composer/Components.v",
                      "program": progs[name], "diff": d, "theorems_no_longer_tied": THEOREMS})
    return ck.finish(level="proof",
        rule="exhaustive over N (truncate 0..=254, decomposition 1..=256) x values {0, r-1, 2^N-1, 2^N, random, v with v+r < 2^N}; every real snapshot compared with the model; honest assignment and alias (v+r) / flipped-bit assignments re-derived on the real layout and decided by the extracted row evaluator",
        assumptions=["PrimeR (prime r): class argument of the statements, proved closed in Props/Hypotheses.v", "asg ZERO = 0", "completeness (C11_truncate_complete, C11_split_complete, C11_canonical_guard_complete) is proved for the helper values the model computes; that the real gadget computes them is the L3 tie"],
        checker_cmd=proofgate.CHECKER_CMD, trusted_base=proofgate.TRUSTED, extra={"exhaustive": True})

def _nw(nb):
    return nb // 2 if nb % 2 == 0 else (nb - 1) // 2 + 3

def replay(ck, path):
    d = json.load(open(path))
    prog = d["replay"].get("program")
    build_driver(); build_harness()
    impl, model = composer.run_both(ck, "prog replay\n" + "\n".join(prog) + "\n", "c11_replay")
    print("\n".join(impl["replay"][:5]))
    print("diff:", composer.compare_programs(ck, {"replay": prog}, impl, model, "C11"))
    return 0
