"""C01: completeness -- every satisfied circuit proves and verifies, on all
three routes, for all sizes, placements and admissible SRS capacities."""
import json
from ..common import *
from .. import proofgate, protocol

THEOREMS = ["C01_domain_covers", "C01_capacity_equiv", "C01_trimmed_key_covers", "C01_verifier_accepts_honest_proof", "C01_quotient_identity_is_row_identity"]

def needed_degree(c):
    return npo2(c + 6)

def run(ck):
    quick = ck.tier == "quick"
    proofgate.run(ck, "C01.v", THEOREMS)
    build_harness()
    rng = Rng(ck.seed, "C01")
    S = protocol.Script()
    maxk = 8 if quick else 10
    S.cmd("pp", "big", (1 << (maxk + 1)), 9)
    S.cmd("pp", "huge", 1 << 12, 9)
    cases = []
    def add(tag, body, pp="big", routes=("direct",), expect=True):
        i = len(cases)
        nm = f"C{i}"
        S.circuit(nm, body)
        ids = {"size": S.cmd("size", nm)}
        ids["compile"] = S.cmd("compile", f"k{i}", pp, "%02x" % (i % 256) * (1 + i % 3), nm)
        if expect:
            ids["prove"] = S.cmd("prove", f"p{i}", f"k{i}", nm, 100 + i)
            ids["verify"] = S.cmd("verify", f"k{i}", f"p{i}", "=")
        if "compressed" in routes:
            ids["compilec"] = S.cmd("compilec", f"kc{i}", pp, "%02x" % (i % 256) * (1 + i % 3), nm)
            if expect:
                ids["dp"] = S.cmd("digest", "prover", f"k{i}"); ids["dpc"] = S.cmd("digest", "prover", f"kc{i}")
                ids["dv"] = S.cmd("digest", "verifier", f"k{i}"); ids["dvc"] = S.cmd("digest", "verifier", f"kc{i}")
                ids["provec"] = S.cmd("prove", f"pc{i}", f"kc{i}", nm, 100 + i)
                ids["verifyc"] = S.cmd("verify", f"k{i}", f"pc{i}", "=")      # cross: direct verifier, compressed-route proof
        if "bytes" in routes and expect:
            ids["rt"] = S.cmd("roundtrip", f"kb{i}", f"k{i}")
            ids["proveb"] = S.cmd("prove", f"pb{i}", f"kb{i}", nm, 100 + i)
            ids["verifyb"] = S.cmd("verify", f"kb{i}", f"p{i}", "=")
            ids["verifyb2"] = S.cmd("verify", f"k{i}", f"pb{i}", "=")
        cases.append((tag, nm, ids, expect, pp))
        ck.count((tag, tuple(body), pp), kind=tag)
    # sizes within +-8 of every power of two
    for k in range(2, maxk + 1):
        for c in range(max(4, (1 << k) - 8), (1 << k) + 9):
            if quick and k >= 6 and (c % 3) and abs(c - (1 << k)) > 2: continue
            body = protocol.filler(c - 4, rng)
            routes = ("direct", "compressed", "bytes") if (c - (1 << k)) in (-7, -6, -5, -1, 0, 1, 2, 3) else ("direct",)
            add(f"size {c}", body, routes=routes)
    # capacities: needed-1 / needed / needed+1 for boundary sizes
    for c in ([4, 9, 10, 11, 26, 27, 58, 59, 122, 123] if quick else [4, 5, 9, 10, 11, 25, 26, 27, 57, 58, 59, 121, 122, 123, 250, 251]):
        nd = needed_degree(c)
        for deg in (nd - 1, nd, nd + 1):
            ppn = f"pp{c}_{deg}"
            S.cmd("pp", ppn, deg, 3)
            body = protocol.filler(c - 4, rng)
            add(f"capacity deg={deg} for {c} constraints (needed {nd})", body, pp=ppn, routes=("direct", "compressed"), expect=(deg >= nd))
    # public-input placements
    for c in (8, 16, 32):
        first = ["pub " + hx(rng.scalar())] + protocol.filler(c - 5, rng)
        last = protocol.filler(c - 5, rng) + ["pub " + hx(rng.scalar())]
        adj = protocol.filler(c - 7, rng) + ["pub " + hx(rng.scalar()), "pub 0", "pub " + hx(R - 1)]
        for tag, b in (("PI on first user row", first), ("PI on last row of a full domain", last), ("adjacent PIs incl. zero", adj)):
            add(f"{tag} ({c})", b, routes=("direct", "compressed", "bytes"))
    # beyond the parallel / fast-path thresholds of the kernels: domains 2^12 and 2^13, all three routes
    S.cmd("pp", "giant", (1 << 13) + 8, 9)
    for c in ([4095, 4096, 4100] if quick else [2047, 2048, 2049, 4095, 4096, 4097, 4100, 8186]):
        add(f"size {c} (large domain)", protocol.filler(c - 4, rng), pp="giant", routes=("direct", "compressed", "bytes"))
    # highly regular circuits (long runs of identical gates: their compressed description deflates 20x and more)
    for reps in ([400] if quick else [64, 250, 400, 3000]):
        add(f"{reps} identical gates", ["w " + hx(rng.small()), "w " + hx(rng.small()), "pub " + hx(rng.scalar())] + ["aeq $0 $0"] * reps, pp="giant" if reps > 2000 else "huge", routes=("direct", "compressed", "bytes"))
        add(f"{reps} identical multiplication gates", ["w " + hx(rng.small()), "w " + hx(rng.small())] + ["gmul 1 0 0 0 0 3 - $0 $1 0 0"] * reps, pp="giant" if reps > 2000 else "huge", routes=("direct", "compressed", "bytes"))
    # gadget mixes
    for _ in range(6 if quick else 60):
        add("gadget mix", protocol.gadget_circuit(rng, size_hint=rng.randrange(0, 9)), pp="huge", routes=("direct", "compressed", "bytes"))
    res = protocol.run(S, "c01")
    ck.sample({"circuit": S.circuits["C3"][:6], "routes": "direct, compressed, bytes"})
    for tag, nm, ids, expect, pp in cases:
        def st(k): return protocol.status(res[ids[k]]) if k in ids else None
        ck.traces += 1
        ctx = {"failing_input_found": True, "circuit": S.circuits[nm], "case": tag, "pp": pp}
        got_c = st("compile") == "OK"
        if got_c != expect:
            ck.violation(f"compile {'failed' if expect else 'succeeded'} unexpectedly: {tag}: {res[ids['compile']][:100]} (model: direct_route_ok = {expect})", ctx, key="capacity"); continue
        if "compilec" in ids and (st("compilec") == "OK") != got_c:
            ck.violation(f"routes disagree on capacity: {tag}: direct={res[ids['compile']][:40]} compressed={res[ids['compilec']][:40]}", ctx, key="routes-capacity"); continue
        if not expect: continue
        for k in ("prove", "verify", "provec", "verifyc", "rt", "proveb", "verifyb", "verifyb2"):
            if k in ids and st(k) != "OK":
                ck.violation(f"honest {k} failed: {tag}: {res[ids[k]][:120]}", ctx, key=f"honest-{k}"); break
        else:
            if "dp" in ids and (res[ids["dp"]] != res[ids["dpc"]] or res[ids["dv"]] != res[ids["dvc"]]):
                ck.violation(f"compressed route yields different key bytes: {tag}", ctx, key="routes-bytes")
            if "rt" in ids and "same=true" not in res[ids["rt"]]:
                ck.violation(f"prover/verifier bytes change through a round trip: {tag}", ctx, key="roundtrip-bytes")
            if "proveb" in ids and res[ids["proveb"]].split()[1] != res[ids["prove"]].split()[1]:
                ck.violation(f"decoded prover gives a different proof from the same randomness: {tag}", ctx, key="roundtrip-proof")
    return ck.finish(level="proof",
        rule="constraint counts within +-8 of 2^2..2^8 (thorough 2^10) via filler gates; SRS degrees needed-1/needed/needed+1 at boundary sizes (model predicts Ok/Err by the proved capacity formula); public inputs on first user row / last row of a full domain / adjacent incl. zero; gadget mixes; routes direct, compressed, serialized bytes (keys and proofs crossed between routes)",
        assumptions=["algebraic completeness of the protocol (verifier equation from a satisfied instance) is not mechanised end to end: its parts are C05 (row identities, grand product), C19 (FFT/interpolation), C20 (commitments); here it is exercised on the real code"],
        checker_cmd=proofgate.CHECKER_CMD, trusted_base=proofgate.TRUSTED)

def replay(ck, path):
    print(json.dumps(json.load(open(path))["replay"], indent=1)[:3000]); return 0
