"""C20: KZG commitments and openings."""
import json
from ..common import *
from .. import proofgate

THEOREMS = ["C20_setup_powers", "C20_trim_long_enough", "C20_commit_linear", "C20_commit_zero_identity", "C20_open_complete",
            "C20_open_exact_agm_partial", "C20_aggregate_witness_spec", "C20_batch_all_passes", "C20_batch_check_iff_all"]

def horner(p, x):
    r = 0
    for c in reversed(p): r = (r * x + c) % R
    return r

def ruffini(p, z):
    out = []
    for i in range(1, len(p) + 1):
        out.append(horner(p[i:], z))
    return out

def run(ck):
    quick = ck.tier == "quick"
    if THEOREMS: proofgate.run(ck, "C20.v", THEOREMS)
    build_driver(); build_harness()
    rng = Rng(ck.seed, "C20")
    bad_total = []
    for deg in ([5, 16, 33, 300, 8200] if quick else [1, 2, 5, 16, 33, 64, 100, 300, 1100, 8200, 16390]):
        draw = bytes(rng.randrange(256) for _ in range(64))
        x = int.from_bytes(draw, "little") % R
        H, M, exp = [], [], {}
        def h(name, *a): H.append(f"Z {name} " + " ".join(str(v) for v in a))
        def m(name, *a): M.append(f"Z {name} " + " ".join(str(v) for v in a))
        h("setup", "setup", deg, draw.hex(), hx(x)); exp["setup"] = f"OK powers={deg + 7} consistent=true g2=true"
        for n in (deg, deg + 1, max(0, deg - 1)):
            h(f"trim{n}", "trim", n)
            exp[f"trim{n}"] = f"OK {n + 6}" if n <= deg else "ERR TruncatedDegreeTooLarge"
            ck.count(("trim", deg, n), kind="trim")
        h("trimk", "trim", deg); exp["trimk"] = f"OK {deg + 6}"
        kd = deg + 6
        # commitments: linearity via exponents, zero polynomial, degree guard
        polys = {"zero": [0] * 3, "empty": [], "const": [rng.scalar()], "full": [rng.scalar() for _ in range(kd + 1)],
                 "over": [rng.scalar() for _ in range(kd + 2)], "over_trailing_zero": [rng.scalar() for _ in range(kd + 1)] + [0, 0],
                 "rand": [rng.scalar() for _ in range(rng.randrange(2, kd))]}
        a = [rng.scalar() for _ in range(7)]; b = [rng.scalar() for _ in range(4)]
        polys["a"], polys["b"] = a, b
        polys["a+b"] = [(a[i] + (b[i] if i < len(b) else 0)) % R for i in range(len(a))]
        for nm, p in polys.items():
            e = horner(p, x)
            h("commit_" + nm, "commit", hx(e), *[hx(c) for c in p])
            m("commit_" + nm, "commit", hx(x), kd, *[hx(c) for c in p])
            ck.count(("commit", deg, nm, tuple(p[:3])), kind="commit")
        # openings: single / batches with one wrong evaluation at every position, wrong witness, swapped entries
        def opening(p, z):
            q = ruffini(p, z)
            return [z, horner(q, x), horner(p, z), horner(p, x)]
        for k in ([1, 2, 4] if quick else [1, 2, 3, 5, 8]):
            ops = [opening([rng.scalar() for _ in range(rng.randrange(1, 9))], rng.scalar()) for _ in range(k)]
            variants = {"honest": [list(o) for o in ops]}
            for j in range(k):
                v = [list(o) for o in ops]; v[j][2] = (v[j][2] + 1) % R; variants[f"wrongeval{j}"] = v
                v = [list(o) for o in ops]; v[j][1] = (v[j][1] + rng.scalar()) % R; variants[f"wrongwit{j}"] = v
            if k >= 2:
                v = [list(o) for o in ops]; v[0][2], v[1][2] = v[1][2], v[0][2]; variants["swapped_evals"] = v
                v = [list(o) for o in ops]; v[0], v[1] = v[1], v[0]; variants["swapped_entries"] = v       # still all true
                # two wrong evaluations that would cancel without challenge powers
                v = [list(o) for o in ops]; d = rng.scalar(); v[0][2] = (v[0][2] + d) % R; v[1][2] = (v[1][2] - d) % R; variants["cancelling"] = v
            # constant polynomial with the identity witness and a wrong value
            v = [list(o) for o in ops]; c0 = rng.scalar(); v[0] = [rng.scalar(), 0, (c0 + 1) % R, c0]; variants["identity_witness_wrong_value"] = v
            for nm, v in variants.items():
                flat = [hx(y) for o in v for y in o]
                h(f"batch{k}_{nm}", "batch", *flat); m(f"batch{k}_{nm}", "batch", hx(x), *flat)
                ck.count(("batch", deg, k, nm), kind="batch " + nm.rstrip("0123456789"))
        h("mismatch0", "mismatch", 0); exp["mismatch0"] = "ERR ProofVerificationError"
        h("mismatch12", "mismatch", 2, hx(5)); exp["mismatch12"] = "ERR ProofVerificationError"
        # aggregate witness and flatten
        for i in range(3 if quick else 12):
            ps = [[rng.scalar() for _ in range(rng.randrange(1, 9))] for _ in range([1, 4, 9, 13, 2, 8, 12, 3, 16, 5, 11, 20][i % 12])]
            z, v = rng.scalar(), rng.scalar()
            arg = " | ".join(" ".join(hx(c) for c in p) for p in ps)
            h(f"aggw{i}", "aggw", hx(z), hx(v), arg); m(f"aggw{i}", "aggw", hx(z), hx(v), arg)
            # zero / all-zero-coefficient polynomials at the first, a middle and the last position
            for zi, pos in enumerate(("first", "middle", "last", "two")):
                qs = [[rng.scalar() for _ in range(rng.randrange(1, 6))] for _ in range(4)]
                zero = [[0], [0, 0, 0], [0], [0]][zi]
                if pos == "first": qs[0] = zero
                elif pos == "middle": qs[2] = zero
                elif pos == "last": qs[3] = zero
                else: qs[0] = zero; qs[1] = [0, 0]
                arg2 = " | ".join(" ".join(hx(c) for c in p) for p in qs)
                h(f"aggwz{i}_{zi}", "aggw", hx(z), hx(v), arg2); m(f"aggwz{i}_{zi}", "aggw", hx(z), hx(v), arg2)
                ck.count(("aggz", deg, i, pos), kind="aggregate with a zero polynomial (" + pos + ")")
            parts = [(rng.scalar(), rng.scalar()) for _ in range([9, 3, 12, 1, 8, 20, 2, 16, 5, 10, 4, 33][i % 12])]
            want_c = horner([c for _, c in parts], v)
            fl = " ".join(hx(e) + " " + hx(c) for e, c in parts)
            h(f"flat{i}", "flatten", hx(v), hx(want_c), fl); m(f"flat{i}", "flatten", hx(v), fl)
            ck.count(("agg", deg, i), kind="aggregate/flatten")
        rc, oi, ei = run_harness("\n".join(H) + "\n", f"c20_{deg}", mode="kzg")
        if rc != 0: raise BuildError("kzg harness failed: " + ei[-1500:])
        rc, om, em = run_driver("\n".join(M) + "\n", f"c20_{deg}")
        if rc != 0: raise BuildError("kzg driver failed: " + em[-1500:])
        di = {l.split()[1]: l.split(" ", 2)[2] for l in oi.splitlines() if l.startswith("Z ")}
        dm = {l.split()[1]: l.split(" ", 2)[2] for l in om.splitlines() if l.startswith("Z ")}
        if deg == 16: ck.sample({"harness": H[8][:200], "model": M[3][:200]})
        for nm, got in di.items():
            ck.traces += 1
            want = None
            if nm in exp: want = exp[nm]
            elif nm.startswith("commit_"):
                e, guard = dm[nm].split()
                want = "OK match=true id=" + ("true" if int(e, 16) == 0 else "false") if guard == "guard=true" else "ERR PolynomialDegreeTooLarge"
            elif nm.startswith("batch"):
                want = "OK" if dm[nm] == "true" else "ERR PairingCheckFailure"
            elif nm.startswith("aggw"):
                want = ("OK " + dm[nm]).strip()
                got = got.strip()
            elif nm.startswith("flat"):
                want = f"OK {dm[nm].split()[0]} match=true"
            if want is not None and got != want:
                bad_total.append((deg, nm, got, want, next(l for l in H if l.split()[1] == nm)))
    if bad_total:
        deg, nm, got, want, line = bad_total[0]
        ck.violation(f"KZG exactness fails ({len(bad_total)} cases); first: SRS degree {deg}, case {nm}: implementation says '{got[:80]}', exponent-level model says '{want[:80]}'",
                     {"failing_input_found": True, "srs_degree": deg, "case": nm, "harness_line": line, "impl": got, "model": want}, key="kzg:" + nm.rstrip("0123456789"))
    return ck.finish(level="proof",
        rule="scripted-RNG SRS (secret known) of several degrees: all G1 powers and the G2 element checked against the secret; trims at/above/below the degree; commitments of zero/empty/constant/full/over-degree/trailing-zero polynomials and of a, b, a+b, each compared with g*p(x); batches of size 1..k with one wrong evaluation or witness at every position, swapped and cancelling entries, identity witness with wrong value, empty and mismatched batches -- verdict of the exponent-level model vs the real pairing check; aggregate witness (incl. zero polynomials at the first / a middle / the last position) and flatten vs definitions",
        assumptions=["pairing bilinear and non-degenerate, scalar multiplication of dusk-bls12_381 correct (used to turn exponents into points)", "computational binding is an assumption, not a theorem",
                     "the batching challenge avoids the at most k-1 roots of a non-zero error polynomial (C20_batch_check_iff_all)"],
        checker_cmd=proofgate.CHECKER_CMD, trusted_base=proofgate.TRUSTED)

def replay(ck, path):
    print(json.dumps(json.load(open(path))["replay"], indent=1)[:3000]); return 0
