"""C10: bitwise AND / XOR components."""
import json
from ..common import *
from .. import proofgate, composer, widgets, rootfind

THEOREMS = ["C10_logic_layout", "C10_logic_table", "C10_logic_rows_sound", "C10_logic_sound", "C10_logic_rows_complete", "C10_logic_complete"]
FIRST = 6

def nw(nb): return nb // 2 if nb % 2 == 0 else (nb - 1) // 2 + 3
def canon_nw(N): return 1 + nw(255 - N) + 5 + nw(N)
def split_nw(N): return 1 + nw(255 - N) + 1 + canon_nw(N)

def logic_residuals(la, lb, ld, w, qc):
    """the five residuals of one logic row (Gate.v logic_c0..c4), over ints or rootfind.P"""
    dl = lambda f: f * (f - 1) * (f - 2) * (f - 3)
    F_ = w * (w * (4 * w - 18 * (la + lb) + 81) + 18 * (la * la + lb * lb) - 81 * (la + lb) + 83)
    E = 3 * (la + lb + ld) - 2 * F_
    B = qc * (9 * ld - 3 * (la + lb))
    return [dl(la), dl(lb), dl(ld), w - la * lb, B + E]

def cancelling_logic_cases(rng, quick):
    """assignments on the honest 3-pair layout where two residuals of ONE row are non-zero and cancel:
    (product, table) with a wrong output quad, (d quad, table) and (d quad, product) with a non-quad output digit"""
    P_ = 3; i = 1; base = FIRST + 2
    cases = []
    for op in ("land", "lxor"):
        qc = 1 if op == "land" else R - 1
        f = (lambda x, y: x & y) if op == "land" else (lambda x, y: x ^ y)
        tries = 0
        while len([c for c in cases if c[1] == op]) < (3 if quick else 9) and tries < 60:
            tries += 1
            a, b = rng.randrange(1 << 6), rng.randrange(1 << 6)
            la, lb = (a >> 2) & 3, (b >> 2) & 3
            ld = f(la, lb)
            kind = tries % 3
            T = rootfind.T
            if kind == 0:       # wrong quad d', product wire a root of c3 + c4
                d2 = rng.choice([q for q in range(4) if q != ld])
                res = logic_residuals(la, lb, d2, T, qc)
                cand = [(d2, w) for w in rootfind.roots((res[3] + res[4]).c) if w != la * lb]
                tag = "product and table residuals cancel (wrong output quad, solved product wire)"
            elif kind == 1:     # honest product, non-quad output digit: c2 + c4 = 0
                res = logic_residuals(la, lb, T, la * lb, qc)
                cand = [(d, la * lb) for d in rootfind.roots((res[2] + res[4]).c) if d not in (0, 1, 2, 3)]
                tag = "output-quad and table residuals cancel (non-quad output digit)"
            else:               # c2 + c3 = 0 with table = 0: w = la*lb - delta(ld)
                dl = T * (T - 1) * (T - 2) * (T - 3)
                wv = la * lb - dl
                res = logic_residuals(la, lb, T, wv, qc)
                cand = []
                for d in rootfind.roots(res[4].c):
                    if d in (0, 1, 2, 3): continue
                    cand.append((d, (la * lb - d * (d - 1) * (d - 2) * (d - 3)) % R))
                tag = "output-quad and product residuals cancel (non-quad output digit, table satisfied)"
            if not cand: continue
            d2, wstar = cand[0]
            chk = logic_residuals(la, lb, d2, wstar, qc)
            nz = [k for k in range(5) if chk[k] % R]
            if len(nz) != 2 or sum(chk[k] for k in nz) % R: continue
            over = {base + 4 * i + 2: wstar % R}
            delta_d = (d2 - ld) % R
            # honest output accumulators: o_j = 4 o_{j-1} + quad_j ; shift every o_j, j >= i, by delta * 4^(j-i)
            o = 0; accs = []
            for j in range(P_):
                o = 4 * o + f((a >> (2 * (P_ - 1 - j))) & 3, (b >> (2 * (P_ - 1 - j))) & 3); accs.append(o)
            for j in range(i, P_):
                over[base + 4 * j + 3] = (accs[j] + delta_d * pow(4, j - i, R)) % R
            cases.append((f"lm{len(cases)}", op, ["w " + hx(a), "w " + hx(b), f"{op} {P_} $0 $1"], over, tag, tuple(nz)))
    return cases

def run(ck):
    quick = ck.tier == "quick"
    proofgate.run(ck, "C10.v", THEOREMS)
    build_driver(); build_harness()
    rng = Rng(ck.seed, "C10")
    progs, lines, meta = {}, [], {}
    def add(name, L, m):
        progs[name] = L; meta[name] = m
        lines.append("prog " + name); lines.extend(L)
    for P in range(0, 128):
        N = 2 * P
        pairs = [(R - 1, (1 << min(N, 254)) - 1 if N else 0), (rng.scalar(), rng.scalar())]
        hi = rng.scalar() >> max(N, 1) << max(N, 1)
        lo = rng.randrange(1 << N) if N else 0
        pairs.append(((lo + hi) % R, lo))                       # differing only above the width
        if N:
            small = rng.randrange(max(1, min((1 << N) - 1, (1 << 255) - R)))
            pairs.append((small, rng.scalar()))                   # a + r still splits in range
        if not quick:
            pairs += [(rng.boundary(), rng.boundary()), (0, R - 1)]
        for op in ("land", "lxor"):
            for j, (a, b) in enumerate(pairs):
                add(f"{op}{P}_{j}", ["w " + hx(a), "w " + hx(b), f"{op} {P} $0 $1", "snap"], (op, P, a, b))
                ck.count((op, P, a, b), kind=op)
            if N:   # companion run on the alias low part of a + r (for the hybrid template)
                a = pairs[3][0]; z = a + R
                add(f"{op}{P}_c", ["w " + hx(z % (1 << N)), "w " + hx(pairs[3][1]), f"{op} {P} $0 $1", "snap"], (op, P, z % (1 << N), pairs[3][1]))
    # both operands the SAME witness: the right accumulator column must still be bound to the input
    aliased = {}
    for P in ([1, 3, 8, 127] if quick else [1, 2, 3, 5, 8, 16, 64, 127]):
        for op in ("land", "lxor"):
            x = rng.scalar()
            nm = f"{op}{P}_al"
            lines.append("prog " + nm); body = ["w " + hx(x), f"{op} {P} $0 $0", "snap"]; lines.extend(body)
            progs[nm] = body; aliased[nm] = (op, P, x)
            ck.count((op, P, x, "aliased"), kind=op + ", aliased operands")
    # several logic components sharing an operand witness, at different widths, in one composer: each call binds its
    # own truncation; each result is the bitwise result at ITS width
    lseqs = {}
    for k_, (ops_, xs_) in enumerate([([("lxor", 4), ("lxor", 8)], (R - 1, 0x1234)), ([("land", 8), ("land", 2)], (R - 1, R - 2)), ([("lxor", 16), ("land", 3), ("lxor", 127)], (rng.scalar(), rng.scalar())),
                                      ([("land", 5), ("land", 5)], (0xfff, 0x3ff)), ([("lxor", 2), ("lxor", 1), ("lxor", 0), ("lxor", 3)], (0xff, 0xa5))]):
        nm = f"lseq{k_}"
        body = ["w " + hx(xs_[0]), "w " + hx(xs_[1])] + [f"{o} {p_} $0 $1" for o, p_ in ops_] + ["snap"]
        lines.append("prog " + nm); lines.extend(body); progs[nm] = body; lseqs[nm] = (ops_, xs_)
        ck.count(("lseq", k_), kind="several logic components on shared operands")
    impl, model = composer.run_both(ck, "\n".join(lines) + "\n", "c10")
    ck.sample({"program": progs["lxor4_1"]}); ck.sample({"program": progs["land127_0"]})
    bad = composer.compare_programs(ck, progs, impl, model, "C10")
    # several gadget kinds on a shared pool of witnesses in one composer (caches keyed by witness, memoised bindings ...)
    mbad, mprogs = composer.check_mixed_sequences(ck, composer.mixed_sequences(rng, 6 if quick else 60, "lxor"), "c10_mix", "C10")
    if mbad and not ck.violations:
        nm_, d_ = mbad[0]
        ck.violation(f"correspondence C10 (L3) broke on mixed sequences of gadget calls: {nm_}: {d_}",
                     {"failing_input_found": False, "correspondence": "L3 snapshot of a sequence of gadget calls on shared witnesses vs the Gallina model", "program": mprogs[nm_], "diff": d_, "theorems_no_longer_tied": THEOREMS})
    wbad = [b for b in widgets.run_tie(ck, 300 if quick else 4000, rng, "c10w") if b[0] in ("logic", "?")]
    jobs, expect, info = [], {}, {}
    for name, (op, P, a, b) in meta.items():
        if name not in impl or name.endswith("_c"): continue
        N = 2 * P
        snap = Snapshot(impl[name])
        out = int(snap.results[2][0])
        f = (lambda x, y: x ^ y) if op == "lxor" else (lambda x, y: x & y)
        want = f(a % (1 << N), b % (1 << N))
        if snap.wits[out] != want:
            ck.violation(f"{op}::<{P}>({a:#x},{b:#x}) returned {snap.wits[out]:#x}, expected {want:#x}",
                         {"failing_input_found": True, "program": progs[name]}, key=f"value:{op}:{P}")
        jobs.append((name, snap, None)); expect[name] = True; info[name] = ("honest", op, P)
        if P == 0: continue
        base = FIRST + 2
        # forged output accumulator of a middle quad, forged product wire: must be unsatisfiable
        if name.endswith("_1") and (not quick or P % 4 == 1):
            i = P // 2
            for tag, off in (("forged d accumulator", 3), ("forged product wire", 2)):
                w2 = list(snap.wits); t = base + 4 * i + off
                w2[t] = (w2[t] + 1) % R
                nm = f"{name}_{off}"
                jobs.append((nm, snap, w2)); expect[nm] = False; info[nm] = (tag, op, P)
                ck.count((tag, op, P), kind="template: " + tag)
            # forced output: replace the whole d chain by that of another result
            w2 = list(snap.wits); w2[out] = (w2[out] ^ 1)
            jobs.append((name + "_o", snap, w2)); expect[name + "_o"] = False; info[name + "_o"] = ("forced output", op, P)
        # hybrid alias: accumulators of (a + r) mod 2^N, input witness still a
        if name.endswith("_3") and (f"{op}{P}_c" in impl):
            z = a + R
            if (z >> N) < (1 << (255 - N)):
                comp = Snapshot(impl[f"{op}{P}_c"])
                if len(comp.wits) == len(snap.wits) and [g[1] for g in comp.gates] == [g[1] for g in snap.gates]:
                    w2 = list(comp.wits); w2[FIRST] = a
                    high = base + 4 * P
                    w2[high] = z >> N
                    froz = set(range(base, base + 4 * P)) | {FIRST, FIRST + 1, high}
                    w2 = composer.rewitness(snap, w2, frozen=froz, first_new=base)
                    nm = name + "_alias"
                    jobs.append((nm, snap, w2)); expect[nm] = False; info[nm] = ("alias a+r", op, P)
                    ck.count(("alias", op, P), kind="template: accumulators of a+r")
    for nm, (ops_, xs_) in lseqs.items():
        if nm not in impl: continue
        snap = Snapshot(impl[nm])
        outs = [int(r_[0]) for r_ in snap.results[2:] if r_ and r_[0].isdigit()]
        jobs.append((nm, snap, None)); expect[nm] = True; info[nm] = ("honest sequence on shared operands", "seq", 0)
        for (o, p_), wi in zip(ops_, outs):
            N_ = 2 * p_
            f_ = (lambda u, v: u ^ v) if o == "lxor" else (lambda u, v: u & v)
            want_ = f_(xs_[0] % (1 << N_), xs_[1] % (1 << N_)) if N_ else 0
            if wi < len(snap.wits) and snap.wits[wi] != want_:
                ck.violation(f"in a sequence of logic components on the same operands, {o}::<{p_}> returned {snap.wits[wi]:#x}, expected {want_:#x}",
                             {"failing_input_found": True, "program": progs[nm]}, key=f"seq-value:{o}")
                break
    for nm, (op, P, x) in aliased.items():
        if nm not in impl: continue
        snap = Snapshot(impl[nm]); N = 2 * P
        f = (lambda u, v: u ^ v) if op == "lxor" else (lambda u, v: u & v)
        res_w = [int(r_[0]) for r_ in snap.results if r_ and r_[0].isdigit()]
        out = res_w[-1]
        if snap.wits[out] != f(x % (1 << N), x % (1 << N)):
            ck.violation(f"{op}::<{P}>(x, x) with one witness for both operands returned {snap.wits[out]:#x}", {"failing_input_found": True, "program": progs[nm]}, key=f"value-aliased:{op}")
        jobs.append((nm, snap, None)); expect[nm] = True; info[nm] = ("honest, aliased operands", op, P)
        # prover-chosen right accumulator column (the quads of another value y), products and outputs consistent with it
        y = (x % (1 << N)) ^ (1 + rng.randrange((1 << N) - 1)) if N else 0
        base = FIRST + 1
        w2 = list(snap.wits); aa = bb = dd = 0
        if len(w2) < base + 4 * P: continue
        for j in range(P):
            qa, qb = (x >> (2 * (P - 1 - j))) & 3, (y >> (2 * (P - 1 - j))) & 3
            aa, bb, dd = 4 * aa + qa, 4 * bb + qb, 4 * dd + f(qa, qb)
            w2[base + 4 * j], w2[base + 4 * j + 1], w2[base + 4 * j + 2], w2[base + 4 * j + 3] = aa, bb, qa * qb, dd
        jobs.append((nm + "_y", snap, w2)); expect[nm + "_y"] = False; info[nm + "_y"] = ("aliased operands: right accumulator column of another value", op, P)
        ck.count(("aliased-forged", op, P), kind="template: aliased operands, foreign right column")
    # two residuals of one logic row that cancel: satisfiable only if the widget gives them the same weight
    lm = cancelling_logic_cases(rng, quick)
    lm_lines = []
    for cid, op, body, over, tag, nz in lm:
        lm_lines += ["prog " + cid] + body + [f"setw {k} {hx(v)}" for k, v in sorted(over.items())] + ["snap"]
        ck.count(("lm", op, tag), kind="template: " + tag)
    if lm:
        lm_impl, _ = composer.run_both(ck, "\n".join(lm_lines) + "\n", "c10_lm")
        from .. import protocol
        verd = protocol.real_prover_verdicts([(cid, body, over) for cid, op, body, over, tag, nz in lm], "c10_lm_rp", pp_log=8)
        for cid, op, body, over, tag, nz in lm:
            progs[cid] = body + [f"setw {k} {hx(v)}" for k, v in sorted(over.items())]
            jobs.append((cid, Snapshot(lm_impl[cid]), None)); expect[cid] = False; info[cid] = (tag, op, 3)
            if verd.get(cid) == "ACCEPTED":
                ck.violation(f"logic soundness ({op}): {tag}: the REAL prover produced a proof and the verifier accepted it; the returned value is not the bitwise result",
                             {"failing_input_found": True, "program": progs[cid], "residuals_cancelling": list(nz)}, key="accepted:merged:" + op)
            elif verd.get(cid, "").startswith("ERROR"):
                raise BuildError("C10 real-prover second opinion failed: " + verd[cid])
    res = composer.model_sat(jobs, "c10_sat")
    for nm in expect:
        got = res.get(nm, "?") is None
        if got != expect[nm]:
            tag, op, P = info[nm]
            base_name = nm if nm in progs else "_".join(nm.split("_")[:2])
            ck.violation(f"{tag}: {op} pairs={P}: rows of the real layout satisfiable={got}, property requires {expect[nm]}",
                         {"failing_input_found": True, "program": progs.get(base_name), "template": tag, "pairs": P}, key=f"{tag}:{op}:{P}")
    base_of = lambda n: n if n in progs else "_".join(n.split("_")[:2])
    for nm, over in composer.second_opinion(ck, jobs, expect, progs, base_of, "c10_rp",
                                            lambda n: (n.endswith(("_3", "_2", "_o", "_alias")) and n.count("_") == 2) or n.endswith("_al_y"), limit=8 if quick else 40, pp_log=10):
        tag, op, P = info[nm]
        ck.violation(f"{tag}: {op} pairs={P}: the REAL prover produced a proof for this assignment and the verifier accepted it",
                     {"failing_input_found": True, "program": progs[base_of(nm)], "witness_overrides": {str(i): hx(v) for i, v in over.items()}, "template": tag}, key=f"accepted:{tag}:{op}")
    if (bad or wbad) and not ck.violations:
        if bad:
            name, d = bad[0]
            m_desc = (meta.get(name) or aliased.get(name) or lseqs.get(name) or ("?",))[:2]
            ck.violation(f"correspondence C10 (L3) broke on {len(bad)} of {len(progs)} programs; first {name} {m_desc}: {d}",
                         {"failing_input_found": False, "correspondence": "L3 snapshot of logic gadget vs Composer/Components.v", "program": progs[name], "diff": d, "theorems_no_longer_tied": THEOREMS})
        else:
            wd, form, line, a, b = wbad[0]
            ck.violation(f"correspondence C10 (L1) broke: logic widget form '{form}' differs from Gates/Gate.v t_logic on {len(wbad)} tuples",
                         {"failing_input_found": False, "correspondence": "L1 widget formula tie (logic/proverkey.rs, logic/verifierkey.rs)", "tuple": line, "impl": a, "model": b, "theorems_no_longer_tied": THEOREMS})
    return ck.finish(level="proof",
        rule="exhaustive over pair counts 0..=127 x {AND, XOR} x value pairs {(r-1, all-ones), random, equal below the width, a with a+r in range}; every real snapshot compared with the model; returned value compared with the bitwise op; honest / forged accumulator / forged product / forced output / a+r accumulator assignments decided on the real layout by the extracted row evaluator; L1 logic widget tuples",
        assumptions=["PrimeR (prime r): class argument of the statements, proved closed in Props/Hypotheses.v", "asg ZERO = 0", "completeness (C10_logic_complete) is proved for the accumulator / product values the model computes; that the real gadget computes them is the L3 tie"],
        checker_cmd=proofgate.CHECKER_CMD, trusted_base=proofgate.TRUSTED, extra={"exhaustive": True})

def replay(ck, path):
    d = json.load(open(path))
    prog = d["replay"].get("program")
    build_driver(); build_harness()
    impl, model = composer.run_both(ck, "prog replay\n" + "\n".join(prog) + "\n", "c10_replay")
    print("diff:", composer.compare_programs(ck, {"replay": prog}, impl, model, "C10"))
    return 0
