"""C09: range check."""
import json
from ..common import *
from .. import proofgate, composer, widgets

THEOREMS = ["C09_range_layout", "C09_range_block_closed", "C09_range_sound", "C09_range_sound_in_system",
            "C09_entry_points_equal", "C09_entry_point_clamp", "C09_gate_count"]

def values_for(w, rng, quick):
    vs = []
    if w < 255:
        vs += [((1 << w) - 1) % R if w else 0, (1 << w) % R, ((1 << w) + 1) % R]
    else:
        vs += [R - 1, 5]
    vs += [R - 1, rng.scalar()]
    if not quick:
        pad8 = ((w + 7) // 8) * 8
        vs += [(1 << min(pad8, 254)) % R, ((1 << min(pad8, 254)) + 1) % R, rng.scalar() % (1 << max(w, 1)), 0]
    return vs

def run(ck):
    quick = ck.tier == "quick"
    proofgate.run(ck, "C09.v", THEOREMS)
    build_driver(); build_harness()
    rng = Rng(ck.seed, "C09")
    progs, lines, meta = {}, [], {}
    def add(name, L, m):
        progs[name] = L; meta[name] = m
        lines.append("prog " + name); lines.extend(L)
    for w in range(0, 257):
        for j, v in enumerate(values_for(w, rng, quick)):
            add(f"rb{w}_{j}", ["w " + hx(v), f"rbits {w} $0", "snap"], ("bits", w, v))
            ck.count(("bits", w, v), kind="component_range_bits")
        v = rng.boundary()
        add(f"rh{w}", ["w " + hx(v), f"rhook {w} $0", "snap"], ("hook", w, v))
        ck.count(("hook", w, v), kind="range_check seam")
    for p in range(0, 131):
        for j, v in enumerate([rng.scalar(), (1 << min(2 * p, 254)) % R]):
            add(f"rp{p}_{j}", ["w " + hx(v), f"rpairs {p} $0", "snap"], ("pairs", p, v))
            ck.count(("pairs", p, v), kind="component_range (deprecated)")
    impl, model = composer.run_both(ck, "\n".join(lines) + "\n", "c09")
    ck.sample({"program": progs["rb7_0"]}); ck.sample({"program": progs["rp3_0"]})
    bad = composer.compare_programs(ck, progs, impl, model, "C09")
    # entry points emit identical gates for equal widths (impl vs impl)
    ep_bad = []
    for p in range(0, 129):
        a, b = impl.get(f"rp{p}_0"), None
        sa = Snapshot(a).canonical() if a else None
        # compare against rbits 2p run on the same value? values differ; compare gate lists only
        sb = Snapshot(impl[f"rb{2*p}_0"]).canonical()
        if sa and sa["gates"] != sb["gates"]:
            ep_bad.append(p)
    # L1: range widget formula, three forms
    wbad = [b for b in widgets.run_tie(ck, 400 if quick else 5000, rng, "c09w") if b[0] in ("range", "arith", "?")]
    # exactness on the REAL snapshots, decided by the extracted evaluator:
    #   value < 2^w  <=> honest accumulators satisfy every row   (w <= 254)
    #   and adversarial accumulator templates must not satisfy the rows
    jobs, expect = [], {}
    for name, m in meta.items():
        if name not in impl: continue
        kind, w, v = m
        width = w if kind != "pairs" else min(2 * w, 256)
        snap = Snapshot(impl[name])
        jobs.append((name, snap, None))
        expect[name] = (v < (1 << width)) if width <= 254 else True
        # template: alias accumulators — decompose v + k*r style / over-wide leading quad
        if width and width <= 254 and v >= (1 << width) and kind == "hook" and width % 2 == 0:
            first_new = 7
            cnt = width // 2
            w2 = list(snap.wits)
            for j in range(cnt):
                w2[first_new + j] = (v >> (2 * (cnt - 1 - j))) % R    # leading "quad" holds the overflow
            jobs.append((name + "_alias", snap, w2)); expect[name + "_alias"] = False
            ck.count(("alias", w, v), kind="template: overflowing leading quad")
    res = composer.model_sat(jobs, "c09_sat")
    mism = [(n, expect[n], res.get(n, "?")) for n in expect if (res.get(n, "?") is None) != expect[n]]
    for n, e, r_ in mism[:1]:
        base = n.replace("_alias", "")
        ck.violation(f"range exactness fails on the real layout: program {base} meta={meta[base]} expected satisfiable={e}, extracted evaluator: first bad row={r_}",
                     {"failing_input_found": True, "program": progs[base], "template": "alias" if n.endswith("_alias") else "honest", "expected_sat": e},
                     key=f"exact:{meta[base][0]}:{meta[base][1]}")
    if ep_bad and not mism:
        ck.violation(f"entry points emit different gates for pairs={ep_bad[:5]}", {"failing_input_found": True, "pairs": ep_bad[:5], "program": progs[f"rp{ep_bad[0]}_0"]})
    if (bad or wbad) and not mism and not ep_bad:
        if bad:
            name, d = bad[0]
            ck.violation(f"correspondence C09 (L3) broke on {len(bad)} of {len(progs)} programs; first {name} {meta[name]}: {d}",
                         {"failing_input_found": False, "correspondence": "L3 snapshot of range gadget vs Composer/Components.v", "program": progs[name], "diff": d, "theorems_no_longer_tied": THEOREMS})
        else:
            wd, form, line, a, b = wbad[0]
            ck.violation(f"correspondence C09 (L1) broke: widget '{wd}' form '{form}' differs from Gates/Gate.v on {len(wbad)} tuples; first: impl={a} model={b}",
                         {"failing_input_found": False, "correspondence": "L1 widget formula tie (range/proverkey.rs, range/verifierkey.rs vs Gate.v t_range)", "tuple": line, "impl": a, "model": b,
                          "theorems_no_longer_tied": ["C09_range_sound", "C09_range_sound_in_system"]})
    return ck.finish(level="proof",
        rule="exhaustive over widths 0..=256 (bit-counted entry point and runtime seam) and pairs 0..=130 (deprecated entry point) x boundary values (2^w-1, 2^w, 2^w+1, r-1, random; thorough adds quad-padding boundaries); every real snapshot is compared with the model and evaluated by the extracted row evaluator against the expected verdict; alias template on out-of-range values; L1 widget tuples",
        assumptions=["PrimeR (prime r)", "asg ZERO = 0 (row 0 of every initialized composer)", "completeness direction is checked on the real layouts by the proved evaluator, not yet mechanised as a theorem"],
        checker_cmd=proofgate.CHECKER_CMD, trusted_base=proofgate.TRUSTED, extra={"exhaustive": True})

def replay(ck, path):
    d = json.load(open(path))
    prog = d["replay"].get("program")
    build_driver(); build_harness()
    impl, model = composer.run_both(ck, "prog replay\n" + "\n".join(prog) + "\n", "c09_replay")
    snap = Snapshot(impl["replay"])
    print("sat on real layout (extracted evaluator):", composer.model_sat([("x", snap, None)], "c09_replay_sat"))
    bad = composer.compare_programs(ck, {"replay": prog}, impl, model, "C09")
    print("diff:", bad)
    return 1 if bad else 0
