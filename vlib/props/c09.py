"""C09: range check."""
import json
from ..common import *
from .. import proofgate, composer, widgets, protocol
from .. import jubjub as J

THEOREMS = ["C09_range_layout", "C09_range_block_closed", "C09_range_sound", "C09_range_sound_in_system",
            "C09_entry_points_equal", "C09_entry_point_clamp", "C09_gate_count", "C09_range_complete"]

def values_for(w, rng, quick):
    vs = []
    if w < 255:
        vs += [((1 << w) - 1) % R if w else 0, (1 << w) % R, ((1 << w) + 1) % R]
    else:
        vs += [R - 1, 5]
    vs += [R - 1, rng.scalar()]
    # k / 2, k / 4, k / 3 for small k: values whose doubles / multiples wrap modulo r into a small number
    inv2 = (R + 1) // 2
    k_ = 1 + 2 * rng.randrange(1 << min(max(w, 1), 200)) if w < 255 else 1
    vs += [inv2, k_ * inv2 % R] + ([] if quick else [inv2 * inv2 % R, pow(3, R - 2, R)])
    if not quick:
        pad8 = ((w + 7) // 8) * 8
        vs += [(1 << min(pad8, 254)) % R, ((1 << min(pad8, 254)) + 1) % R, rng.scalar() % (1 << max(w, 1)), 0]
    return vs

def cancelling_pairs(limit=40):
    """(x, y) outside {0,1,2,3} with delta(x) + delta(y) = 0:  delta(f) = s(f)^2 - 1 with s = f^2 - 3f + 1,
    so s_x^2 + s_y^2 = 2; the conic is parametrised through (1,1) with slope t"""
    out = []
    t = 2
    def solve(sv):
        rt = J.sqrt((5 + 4 * sv) % R)
        return None if rt is None else (3 + rt) * J.inv(2) % R
    dl = lambda f: f * (f - 1) % R * (f - 2) % R * (f - 3) % R
    while len(out) < limit and t < 4000:
        u = (-2 * (1 + t)) * J.inv(1 + t * t) % R
        x, y = solve((1 + u) % R), solve((1 + t * u) % R)
        if x is not None and y is not None and dl(x) != 0 and (dl(x) + dl(y)) % R == 0:
            out.append((x, y))
        t += 1
    return out

def cancelling_cases(rng):
    """rbits 16: digits d4..d7 are the four quads of the second range row; two of them carry a cancelling pair"""
    cases = []
    prs = cancelling_pairs(12)
    k = 0
    for i in range(4):
        for j in range(i + 1, 4):
            x, y = prs[k % len(prs)]; k += 1
            digits = [rng.randrange(4) for _ in range(8)]
            digits[4 + i], digits[4 + j] = x, y
            accs, a = [], 0
            for d in digits:
                a = (4 * a + d) % R; accs.append(a)
            cases.append((f"cq{i}{j}", ["w " + hx(accs[-1]), "rbits 16 $0"], {7 + n: v for n, v in enumerate(accs)}, (i + 1, j + 1)))
    return cases

def run(ck):
    quick = ck.tier == "quick"
    proofgate.run(ck, "C09.v", THEOREMS)
    build_driver(); build_harness()
    rng = Rng(ck.seed, "C09")
    progs, lines, meta = {}, [], {}
    def add(name, L, m):
        progs[name] = L; meta[name] = m
        lines.append("prog " + name); lines.extend(L)
    for w in range(0, 257):
        for j, v in enumerate(values_for(w, rng, quick)):
            add(f"rb{w}_{j}", ["w " + hx(v), f"rbits {w} $0", "snap"], ("bits", w, v))
            ck.count(("bits", w, v), kind="component_range_bits")
        v = rng.boundary()
        add(f"rh{w}", ["w " + hx(v), f"rhook {w} $0", "snap"], ("hook", w, v))
        ck.count(("hook", w, v), kind="range_check seam")
    for p in range(0, 131):
        for j, v in enumerate([rng.scalar(), (1 << min(2 * p, 254)) % R]):
            add(f"rp{p}_{j}", ["w " + hx(v), f"rpairs {p} $0", "snap"], ("pairs", p, v))
            ck.count(("pairs", p, v), kind="component_range (deprecated)")
    # the pinned constants ZERO and ONE (witness indices 0, 1) as operands: same gates as for any other witness
    for w_ in ([0, 1, 2, 3, 8, 9, 64, 254, 255, 256] if quick else range(0, 257)):
        for ci, cv in ((0, 0), (1, 1)):
            add(f"rc{w_}_{ci}", [f"rbits {w_} {ci}", "snap"], ("bits", w_, cv))
            if w_ % 2 == 0 and w_ <= 256: add(f"rcp{w_}_{ci}", [f"rpairs {w_ // 2} {ci}", "snap"], ("pairs", w_ // 2, cv))
            ck.count(("const-operand", w_, ci), kind="constant witness as operand")
    # several range checks on ONE witness in one composer (any mix of widths and entry points): every check
    # must emit its gates whatever was checked before; the narrowest width decides satisfiability
    for j, (ops, vs) in enumerate([(["rbits 256", "rbits 8"], [5, 1 << 8, R - 1]), (["rbits 255", "rbits 8"], [5, 1 << 8]), (["rbits 64", "rbits 8"], [5, 1 << 8, 1 << 63]),
                                   (["rbits 8", "rbits 64"], [5, 1 << 8]), (["rbits 8", "rbits 8"], [255, 256]), (["rbits 0", "rbits 8"], [0, 3]),
                                   (["rpairs 128", "rbits 16"], [7, 1 << 16]), (["rbits 256", "rpairs 4"], [9, 1 << 8]), (["rbits 7", "rbits 256", "rbits 9"], [100, 200, 1 << 8]),
                                   (["rpairs 130", "rpairs 3", "rbits 256"], [1, 64])]):
        for k, v in enumerate(vs):
            add(f"seq{j}_{k}", ["w " + hx(v)] + [f"{o} $0" for o in ops] + ["snap"], ("seq", tuple(ops), v))
            ck.count(("seq", tuple(ops), v), kind="several range checks on one witness")
    impl, model = composer.run_both(ck, "\n".join(lines) + "\n", "c09")
    ck.sample({"program": progs["rb7_0"]}); ck.sample({"program": progs["rp3_0"]})
    bad = composer.compare_programs(ck, progs, impl, model, "C09")
    # entry points emit identical gates for equal widths (impl vs impl)
    ep_bad = []
    for p in range(0, 129):
        a, b = impl.get(f"rp{p}_0"), None
        sa = Snapshot(a).canonical() if a else None
        # compare against rbits 2p run on the same value? values differ; compare gate lists only
        sb = Snapshot(impl[f"rb{2*p}_0"]).canonical()
        if sa and sa["gates"] != sb["gates"]:
            ep_bad.append(p)
    # several gadget kinds on a shared pool of witnesses in one composer (caches keyed by witness, memoised bindings ...)
    mbad, mprogs = composer.check_mixed_sequences(ck, composer.mixed_sequences(rng, 6 if quick else 60, "rbits"), "c09_mix", "C09")
    if mbad and not ck.violations:
        nm_, d_ = mbad[0]
        ck.violation(f"correspondence C09 (L3) broke on mixed sequences of gadget calls: {nm_}: {d_}",
                     {"failing_input_found": False, "correspondence": "L3 snapshot of a sequence of gadget calls on shared witnesses vs the Gallina model", "program": mprogs[nm_], "diff": d_, "theorems_no_longer_tied": THEOREMS})
    # L1: range widget formula, three forms
    wbad = [b for b in widgets.run_tie(ck, 400 if quick else 5000, rng, "c09w") if b[0] in ("range", "arith", "?")]
    # exactness on the REAL snapshots, decided by the extracted evaluator:
    #   value < 2^w  <=> honest accumulators satisfy every row   (w <= 254)
    #   and adversarial accumulator templates must not satisfy the rows
    jobs, expect = [], {}
    for name, m in meta.items():
        if name not in impl: continue
        kind, w, v = m
        if kind == "seq":
            widths = [int(o.split()[1]) * (2 if o.startswith("rpairs") else 1) for o in w]
            eff = min(min(x, 256) for x in widths)
            jobs.append((name, Snapshot(impl[name]), None)); expect[name] = (v < (1 << eff)) if eff <= 254 else True
            continue
        width = w if kind != "pairs" else min(2 * w, 256)
        snap = Snapshot(impl[name])
        jobs.append((name, snap, None))
        expect[name] = (v < (1 << width)) if width <= 254 else True
        # template: alias accumulators — decompose v + k*r style / over-wide leading quad
        if width and width <= 254 and v >= (1 << width) and kind == "hook" and width % 2 == 0:
            first_new = 7
            cnt = width // 2
            w2 = list(snap.wits)
            for j in range(cnt):
                w2[first_new + j] = (v >> (2 * (cnt - 1 - j))) % R    # leading "quad" holds the overflow
            jobs.append((name + "_alias", snap, w2)); expect[name + "_alias"] = False
            ck.count(("alias", w, v), kind="template: overflowing leading quad")
    # two quads of one row outside {0..3} whose delta values cancel: satisfiable only if the widget
    # gives two of its four quad checks the same weight
    cq = cancelling_cases(rng)
    cq_lines = []
    for cid, body, over, pr in cq:
        cq_lines += ["prog " + cid] + body + [f"setw {i} {hx(v)}" for i, v in sorted(over.items())] + ["snap"]
        ck.count(("cq", pr), kind="template: cancelling quads %d,%d of one row" % pr)
    cq_impl, _ = composer.run_both(ck, "\n".join(cq_lines) + "\n", "c09_cq")
    for cid, body, over, pr in cq:
        jobs.append((cid, Snapshot(cq_impl[cid]), None)); expect[cid] = False
        progs[cid] = body + [f"setw {i} {hx(v)}" for i, v in sorted(over.items())]; meta[cid] = ("cancelling quads", 16, pr)
    verd = protocol.real_prover_verdicts([(cid, body, over) for cid, body, over, pr in cq], "c09_rp", pp_log=6)
    for cid, body, over, pr in cq:
        if verd.get(cid) == "ACCEPTED":
            ck.violation(f"range soundness: a witness outside [0, 2^16) with two non-quad digits whose delta values cancel (quad checks {pr[0]} and {pr[1]} of one row) was PROVED by the real prover and accepted by the verifier",
                         {"failing_input_found": True, "program": progs[cid], "quad_checks": list(pr)}, key=f"cancel:{pr[0]}{pr[1]}")
        elif verd.get(cid, "").startswith("ERROR"):
            raise BuildError("C09 real-prover second opinion failed: " + verd[cid])
    # deviating prover on out-of-range values: the honest run leaves only the closing equality unsatisfied; re-wire that
    # cell to a fresh witness (every row then holds, the copy constraint between the range chain and the closing
    # equality does not) and hand it to the REAL prover with keys compiled from an in-range run of the same layout
    rw = []
    for name, m in meta.items():
        if m[0] not in ("bits", "hook") or name not in impl: continue
        kind, w, v = m
        if not (0 < w <= 254) or v < (1 << w) or len(rw) >= (6 if quick else 60): continue
        if quick and w % 5 != 3 and w not in (8, 64): continue
        snap = Snapshot(impl[name])
        r_ = composer.rewired_raw_instance(snap)
        if r_ is None: continue
        honest = ["w " + hx(v % (1 << w)), (f"rbits {w} $0" if kind == "bits" else f"rhook {w} $0")]
        rw.append((name, honest, r_[0])); ck.count(("rewired", w, v), kind="deviating prover: closing equality re-wired")
    if rw:
        verd = composer.rewired_prover_verdicts(rw, "c09_rw")
        for cid, honest, raw in rw:
            if verd[cid] == "ACCEPTED":
                kind, w, v = meta[cid]
                ck.violation(f"range soundness: a prover that re-wires the closing equality of the {w}-bit check obtained an ACCEPTED proof for the value {v:#x} >= 2^{w}",
                             {"failing_input_found": True, "compiled_from": honest, "prover_rows": raw[:2] + ["..."] + raw[-3:], "width": w, "value": hx(v)}, key="rewired-accepted")
            elif verd[cid].startswith("ERROR"):
                raise BuildError("C09 deviating-prover run failed: " + verd[cid])
    # layout-agnostic adversarial fill: on whatever rows the real code emitted, give every chain cell the
    # unmasked shift of the (out-of-range) value, so the excess lands in the first cell of the chain
    for name, m in list(meta.items()):
        if name not in impl or m[0] in ("cancelling quads", "seq"): continue
        kind, w, v = m
        width = w if kind != "pairs" else min(2 * w, 256)
        if not (0 < width <= 254) or v < (1 << width) or kind == "pairs": continue
        snap = Snapshot(impl[name])
        w2 = composer.rewitness(snap, snap.wits, frozen={6}, first_new=7, overflow=True)
        jobs.append((name + "_ovf", snap, w2)); expect[name + "_ovf"] = False
        ck.count(("ovf", w, v), kind="template: excess pushed into the first chain cell (layout-agnostic)")
    res = composer.model_sat(jobs, "c09_sat")
    mism = [(n, expect[n], res.get(n, "?")) for n in expect if (res.get(n, "?") is None) != expect[n]]
    for n, e, r_ in mism[:1]:
        base = n.replace("_alias", "").replace("_ovf", "")
        if ck.violations: break
        ck.violation(f"range exactness fails on the real layout: program {base} meta={meta[base]} expected satisfiable={e}, extracted evaluator: first bad row={r_}",
                     {"failing_input_found": True, "program": progs[base], "template": "alias" if n.endswith("_alias") else "excess in first chain cell" if n.endswith("_ovf") else "honest", "expected_sat": e},
                     key=f"exact:{meta[base][0]}:{meta[base][1]}")
    if ep_bad and not mism:
        ck.violation(f"entry points emit different gates for pairs={ep_bad[:5]}", {"failing_input_found": True, "pairs": ep_bad[:5], "program": progs[f"rp{ep_bad[0]}_0"]})
    if (bad or wbad) and not mism and not ep_bad and not ck.violations:
        if bad:
            name, d = bad[0]
            ck.violation(f"correspondence C09 (L3) broke on {len(bad)} of {len(progs)} programs; first {name} {meta[name]}: {d}",
                         {"failing_input_found": False, "correspondence": "L3 snapshot of range gadget vs Composer/Components.v", "program": progs[name], "diff": d, "theorems_no_longer_tied": THEOREMS})
        else:
            wd, form, line, a, b = wbad[0]
            ck.violation(f"correspondence C09 (L1) broke: widget '{wd}' form '{form}' differs from Gates/Gate.v on {len(wbad)} tuples; first: impl={a} model={b}",
                         {"failing_input_found": False, "correspondence": "L1 widget formula tie (range/proverkey.rs, range/verifierkey.rs vs Gate.v t_range)", "tuple": line, "impl": a, "model": b,
                          "theorems_no_longer_tied": ["C09_range_sound", "C09_range_sound_in_system"]})
    return ck.finish(level="proof",
        rule="exhaustive over widths 0..=256 (bit-counted entry point and runtime seam) and pairs 0..=130 (deprecated entry point) x boundary values (2^w-1, 2^w, 2^w+1, r-1, random; thorough adds quad-padding boundaries); every real snapshot is compared with the model and evaluated by the extracted row evaluator against the expected verdict; alias template on out-of-range values; L1 widget tuples",
        assumptions=["PrimeR (prime r): class argument of the statements, proved closed in Props/Hypotheses.v", "asg ZERO = 0 (row 0 of every initialized composer)", "completeness (C09_range_complete) is proved for the accumulator values the model computes; that the real gadget computes the same values is the L3 tie"],
        checker_cmd=proofgate.CHECKER_CMD, trusted_base=proofgate.TRUSTED, extra={"exhaustive": True})

def replay(ck, path):
    d = json.load(open(path))
    prog = d["replay"].get("program")
    build_driver(); build_harness()
    impl, model = composer.run_both(ck, "prog replay\n" + "\n".join(prog) + "\n", "c09_replay")
    snap = Snapshot(impl["replay"])
    print("sat on real layout (extracted evaluator):", composer.model_sat([("x", snap, None)], "c09_replay_sat"))
    bad = composer.compare_programs(ck, {"replay": prog}, impl, model, "C09")
    print("diff:", bad)
    return 1 if bad else 0
