"""C15: compressed circuit descriptions compile to the identical keys."""
import json, hashlib
from ..common import *
from .. import proofgate, protocol, mutate

THEOREMS = ['C15_capacity_equiv', 'C15_dictionary_lookup', 'C15_builtin_entries_kept', 'C15_dictionary_nodup', 'C15_relabel_preserves_classes', 'C15_sigma_order_independent']

def hades_constants(k):
    out, p, b = [], 1, b"poseidon-for-plonk"
    for _ in range(k):
        b = hashlib.sha512(b).digest()
        c = (int.from_bytes(b, "little") + p) % R
        out.append(c); p = c
    return out

def run(ck):
    quick = ck.tier == "quick"
    if THEOREMS: proofgate.run(ck, "C15.v", THEOREMS)
    build_driver(); build_harness()
    rng = Rng(ck.seed, "C15")
    S = protocol.Script()
    S.cmd("pp", "pp", 1 << 11, 3)
    cases = []
    def add(tag, body, pp="pp", expect=True, label=None):
        i = len(cases); nm = f"C{i}"
        S.circuit(nm, body)
        lab = label if label is not None else "%02x" % (i % 251 + 1) * (1 + i % 4)
        ids = {"size": S.cmd("size", nm), "d": S.cmd("compile", f"k{i}", pp, lab, nm), "c": S.cmd("compilec", f"kc{i}", pp, lab, nm)}
        if expect:
            ids.update({"dp": S.cmd("digest", "prover", f"k{i}"), "dpc": S.cmd("digest", "prover", f"kc{i}"),
                        "dv": S.cmd("digest", "verifier", f"k{i}"), "dvc": S.cmd("digest", "verifier", f"kc{i}"),
                        "prove": S.cmd("prove", f"p{i}", f"kc{i}", nm, 70 + i), "verify": S.cmd("verify", f"k{i}", f"p{i}", "=")})
        cases.append((tag, nm, ids, expect, pp)); ck.count((tag, tuple(body), pp), kind=tag)
    inv = lambda k: pow(k, R - 2, R)
    table = [0, 1, R - 1] + hades_constants(6) + [inv(k) for k in range(5, 14)]
    # selectors equal to built-in table entries, one at a time and all together
    for j, s in enumerate(table):
        add(f"selector = table entry #{j}", ["w 0", f"gate {hx(s)} 0 0 0 0 0 - $0 $0 0 0", f"gate 0 {hx(s)} 0 0 0 0 - $0 0 0 0"])
    add("all MDS entries as selectors", ["w 0"] + [f"gate 0 {hx(inv(k))} 0 0 0 0 - $0 0 0 0" for k in range(5, 14)])
    add("all table entries", ["w 0"] + [f"gate 0 {hx(s)} {hx(table[(i * 7) % len(table)])} 0 0 0 - $0 $0 0 0" for i, s in enumerate(table)])
    # unused witnesses, repeated and distinct selector tuples
    add("unused witnesses", ["w 5", "w 6", "w 7", "w 8", "gmul 1 0 0 0 0 3 - $1 $3 0 0", "w 9"])
    add("repeated selector tuples", ["w 2", "w 3"] + ["gmul 1 0 0 0 0 3 - $0 $1 0 0"] * 12)
    add("distinct selector tuples", ["w 0"] + [f"gate {hx(rng.scalar())} {hx(rng.scalar())} 0 0 0 0 - $0 $0 0 0" for _ in range(12)])
    add("zero-valued public inputs", ["pub 0", "pub 0", "w 1", "aeqc $2 1 0"])
    add("PI first and last row", ["pub " + hx(rng.scalar())] + protocol.filler(10, rng) + ["pub " + hx(rng.scalar())])
    add("empty label", protocol.filler(3, rng), label="-")
    for _ in range(4 if quick else 40):
        add("gadget mix", protocol.gadget_circuit(rng, size_hint=rng.randrange(0, 7)))
    # a very regular circuit: the description inflates at several hundred to one (deflate legitimately reaches ~1000:1)
    S.cmd("pp", "ppbig", (1 << 14) + 6, 3)
    add("16000 identical rows (deflate ratio about 300:1)", ["w 2", "w 3"] + ["gate 1 0 0 0 0 6 - $0 $1 0 0".replace(" 6 ", " " + hx(R - 6) + " ")] * 16000, pp="ppbig")
    # selector-rich rows: two fixed-base multiplications over distinct generators carry about 1500 distinct selector
    # values on 666 rows (more dictionary scalars than constraints); capacities around the threshold
    from .. import jubjub as J_
    ex_ = lambda P_: " ".join(hx(v_) for v_ in J_.ext(P_, 1))
    rich = ["w 5", f"mulgen $0 {ex_(J_.GEN)}", "w 9", f"mulgen $3 {ex_(J_.GEN_NUMS)}"]
    for deg in ([1023, 1024, 2048] if quick else [600, 1017, 1018, 1023, 1024, 1025, 2047, 2048]):
        ppn = f"q666_{deg}"; S.cmd("pp", ppn, deg, 3)
        add(f"capacity deg={deg}, two fixed-base multiplications (selector-rich)", rich, pp=ppn, expect=(deg >= 1024))
    # capacities from too small to ample
    for c in ([4, 10, 11, 26, 27] if quick else [4, 5, 9, 10, 11, 25, 26, 27, 57, 58, 59, 122, 123]):
        nd = npo2(c + 6)
        for deg in sorted(set([1, 5, nd // 2, nd - 1, nd, nd + 1, 2 * nd])):
            ppn = f"q{c}_{deg}"; S.cmd("pp", ppn, deg, 3)
            add(f"capacity deg={deg}, {c} constraints", protocol.filler(c - 4, rng), pp=ppn, expect=(deg >= nd))
    # malformed descriptions against a small-capacity SRS, with peak allocation
    S.circuit("M", ["w 5", "w 7", "gmul 1 0 0 0 0 0 - $0 $1 0 0", "pub 23", "rbits 8 $0"])
    S.cmd("pp", "small", 32, 3)
    S.cmd("compilec", "km", "small", "6d", "M"); S.cmd("blobof", "mb", "compressed", "km"); gid = S.cmd("blobget", "mb")
    res0 = protocol.run(S, "c15_pre")
    cc = bytes.fromhex(res0[gid].split()[1]); pay = mutate.inflate(cc); d = mutate.parse_compressed(pay)
    import copy
    mal = [("bytes after the deflate stream", cc + b"\x00"), ("many bytes after the deflate stream", cc + b"\xaa" * 1000),
           ("trailing byte inside the payload", mutate.deflate(pay + b"\x00")),
           ("needs more constraints than the parameters allow", None),
           ("bomb", mutate.deflate(b"\x00" * (32 << 20)))]
    for fld in ("public_inputs", "scalars", "polynomials", "constraints"):
        mal.append((f"{fld} count too large", mutate.deflate(mutate.pack_compressed(d, {fld: 1 << 20}))))
    for desc, f in (("witness index out of range", lambda x: x["constraints"][-1].__setitem__(2, x["witnesses"])),
                    ("polynomial index out of range", lambda x: x["constraints"][0].__setitem__(0, len(x["polynomials"]))),
                    ("scalar index out of range", lambda x: x["polynomials"][0].__setitem__(3, 1 << 30)),
                    ("public input row out of range", lambda x: x["public_inputs"].__setitem__(0, len(x["constraints"])))):
        d2 = copy.deepcopy(d); f(d2); mal.append((desc, mutate.deflate(mutate.pack_compressed(d2))))
    big = copy.deepcopy(d); big["constraints"] = big["constraints"] * 40       # > max_constraints(small) = 26
    mal[3] = ("needs more constraints than the parameters allow", mutate.deflate(mutate.pack_compressed(big)))
    # well-formed descriptions that merely DECLARE more witnesses than they use: accepted, same keys, and the
    # declared count must not drive memory or work
    over = []
    for wcount in (1 << 16, 1 << 22, 1 << 30, 1 << 40, 1 << 57, (1 << 64) - 1):
        d3 = copy.deepcopy(d); d3["witnesses"] = wcount
        over.append((wcount, mutate.deflate(mutate.pack_compressed(d3))))
    mids = []
    for j, (desc, b) in enumerate(mal):
        S.cmd("blob", f"mal{j}", b.hex()); mids.append((desc, len(b), S.cmd("compilemem", f"x{j}", "small", "6d", f"mal{j}")))
        ck.count(("malformed", desc), kind="malformed description")
    hid = S.cmd("compilemem", "xh", "small", "6d", "mb")
    res = protocol.run(S, "c15")
    ck.sample({"circuit": S.circuits["C3"]}); ck.sample({"malformed": [m[0] for m in mal][:6]})
    # model prediction of capacities by the extracted proved functions
    caps = [(nm, ids, pp) for (tag, nm, ids, e, pp) in cases if pp.startswith("q")]
    M = "\n".join(f"Z {nm} capacity {res[ids['size']].split()[1]} {pp.split('_')[1]}" for nm, ids, pp in caps) + "\n"
    rc, om, em = run_driver(M, "c15cap")
    pred = {l.split()[1]: (l.split()[2] == "true", l.split()[3] == "true") for l in om.splitlines() if l.startswith("Z ")}
    for tag, nm, ids, expect, pp in cases:
        ctx = {"failing_input_found": True, "circuit": S.circuits[nm], "case": tag, "pp": pp}
        ck.traces += 1
        okd, okc = res[ids["d"]].startswith("OK"), res[ids["c"]].startswith("OK")
        if nm in pred and (pred[nm][0] != okd or pred[nm][1] != okc):
            ck.violation(f"capacity: model (direct, compressed) = {pred[nm]}, implementation = ({okd}, {okc}): {tag}", ctx, key="capacity-model"); continue
        if okd != okc:
            ck.violation(f"routes disagree: direct={res[ids['d']][:40]} compressed={res[ids['c']][:40]}: {tag}", ctx, key="routes-disagree"); continue
        if okd != expect:
            ck.violation(f"unexpected compile result {res[ids['d']][:40]}: {tag}", ctx, key="capacity"); continue
        if not expect: continue
        if res[ids["dp"]] != res[ids["dpc"]]:
            ck.violation(f"prover bytes differ between the direct and the compressed route: {tag}", ctx, key="prover-bytes"); continue
        if res[ids["dv"]] != res[ids["dvc"]]:
            ck.violation(f"verifier bytes differ between the direct and the compressed route: {tag}", ctx, key="verifier-bytes"); continue
        if not (res[ids["prove"]].startswith("OK") and res[ids["verify"]].startswith("OK")):
            ck.violation(f"compressed-route proof not accepted by the direct-route verifier: {tag}: {res[ids['prove']][:50]} {res[ids['verify']][:50]}", ctx, key="cross-verify")
    honest_mem = int(re.search(r"mem=(\d+)", res[hid]).group(1))
    # each over-declared description in a process of its own: an abort (allocation failure) is an outcome, not a crash of the check
    for j, (wcount, bts) in enumerate(over):
        ck.count(("declared-witnesses", wcount), kind="over-declared witness count")
        ctx = {"failing_input_found": True, "declared_witnesses": wcount, "description": "the honest description of circuit M with only the declared witness count changed", "circuit": S.circuits["M"], "compressed_hex": bts.hex()}
        T = protocol.Script(); T.cmd("pp", "small", 32, 3); T.circuit("M", S.circuits["M"])
        T.cmd("compilec", "km", "small", "6d", "M"); hd = (T.cmd("digest", "prover", "km"), T.cmd("digest", "verifier", "km"))
        T.cmd("blob", "ov", bts.hex()); cid = T.cmd("compilemem", "xo", "small", "6d", "ov"); dp = T.cmd("digest", "prover", "xo"); dv = T.cmd("digest", "verifier", "xo")
        try:
            rr = protocol.run(T, f"c15_ov{j}")
        except BuildError as ex:
            ck.violation(f"compile_with_compressed aborted the process on a description declaring {wcount} witnesses (and using 6): {str(ex)[:160]}", ctx, key="abort-declared"); continue
        r = rr.get(cid, "")
        if "PANIC" in r: ck.violation(f"compile_with_compressed panicked on a description declaring {wcount} witnesses: {r[:120]}", ctx, key="panic-declared")
        else:
            m_ = re.search(r"mem=(\d+)", r)
            if m_ and int(m_.group(1)) > 4 * honest_mem + (1 << 20):
                ck.violation(f"a description declaring {wcount} witnesses (and using 6) made the compile allocate {m_.group(1)} bytes; the honest description: {honest_mem}", ctx, key="alloc-declared")
            elif r.startswith("OK") and (rr[dp], rr[dv]) != (rr[hd[0]], rr[hd[1]]):
                ck.violation(f"a description declaring {wcount} witnesses compiles to different keys", ctx, key="keys-declared")
    for desc, ln, cid in mids:
        r = res[cid]
        ctx = {"failing_input_found": True, "malformed": desc, "len": ln}
        if "PANIC" in r: ck.violation(f"compile_with_compressed panicked on: {desc}: {r[:120]}", ctx, key="panic")
        elif r.startswith("OK"): ck.violation(f"malformed description accepted: {desc}", ctx, key="accepts:" + desc)
        else:
            m = int(re.search(r"mem=(\d+)", r).group(1))
            if m > 4 * honest_mem + (1 << 20):
                ck.violation(f"decompression of a malformed description allocated {m} bytes (honest compile on the same parameters: {honest_mem}): {desc}", ctx, key="alloc")
    return ck.finish(level="proof",
        rule="circuits whose selectors equal each built-in table entry (0, 1, -1, Hades round constants, all nine MDS values 1/5..1/13), unused witnesses, repeated/distinct selector tuples, zero-valued and first/last-row public inputs, empty label, gadget mixes: prover and verifier digests of both routes, compressed-route proof under the direct-route verifier; a 12000-row regular circuit (high deflate ratio), SRS degrees from 1 to 2x needed (model's proved capacity functions predict both routes); malformed descriptions (trailing bytes after/inside the stream, excess counts, out-of-range indices, too many constraints, bomb, over-declared witness counts up to 2^64-1) with peak allocation against an honest compile",
        assumptions=["deflate/inflate of miniz_oxide round-trips and respects the output limit", "msgpacker encodes the MessagePack subset parsed here"],
        checker_cmd=proofgate.CHECKER_CMD, trusted_base=proofgate.TRUSTED)

def replay(ck, path):
    print(json.dumps(json.load(open(path))["replay"], indent=1)[:2000]); return 0
