"""C12: curve-group components compute the JubJub group law."""
import json
from ..common import *
from .. import proofgate, composer, widgets, rootfind
from .. import jubjub as J

THEOREMS = ["C12_law_complete", "C12_law_closed", "C12_law_inverse", "C12_add_emits", "C12_add_rows_iff", "C12_add_unique",
            "C12_add_satisfiable", "C12_neg", "C12_neg_emits", "C12_select_identity", "C12_select_identity_bit_boolean",
            "C12_select_point", "C12_mul_point_emits", "C12_mul_point_sound", "C12_d_euler_criterion", "C12_sub_emits", "C12_sub_sound", "C12_select_identity_emits", "C12_add_in_system", "C12_mul_point_in_system",
            "C12_law_assoc", "C12_scalar_multiple_hom", "C12_ladder_is_scalar_multiple", "C12_mul_point_scalar_multiple"]
FIRST = 6

def e(p, z=1): return " ".join(hx(v) for v in J.ext(p, z))

def point_pairs(rng, quick):
    P, Q = J.random_subgroup_point(rng), J.random_subgroup_point(rng)
    prs = [("identity+identity", J.ID, J.ID), ("identity+P", J.ID, P), ("P+identity", P, J.ID), ("P+(-P)", P, J.neg(P)),
           ("P+P", P, P), ("P+Q", P, Q), ("G+G_nums", J.GEN, J.GEN_NUMS), ("P+2P", P, J.dbl(P))]
    for _ in range(2 if quick else 20):
        prs.append(("random pair", J.random_subgroup_point(rng), J.random_subgroup_point(rng)))
    return prs

def scalars(rng, quick):
    s = [0, 1, 2, J.RJ - 1, J.RJ, (1 << 252) - 1, 1 << 251, rng.randrange(J.RJ)]
    if not quick: s += [rng.randrange(1 << 252) for _ in range(6)] + [8, J.RJ + 1, (1 << 252) - J.RJ]
    return s

def ghost_operand_assignments(snap, first_new):
    """curve-addition blocks whose FIRST operand (x1, y1) and helper wire are gadget-allocated witnesses used nowhere
    else: the two output equations are then a quadratic in s = x1*y1 and have a second solution (a 'ghost' operand).
    Never applies to the layouts of the unchanged code (operands are inputs or are pinned by other rows)."""
    g = snap.gates; use = {}
    for i, (sel, wires) in enumerate(g):
        for w in set(wires): use.setdefault(w, set()).add(i)
    out = []
    for i, (sel, wires) in enumerate(g):
        if not sel[10] or i + 1 >= len(g): continue
        x1, y1, x2, y2 = wires; x3, y3, _, t = g[i + 1][1]
        if min(x1, y1, t) < first_new or x1 == y1: continue
        if not (use[x1] <= {i} and use[y1] <= {i} and use[t] <= {i + 1}): continue
        X2, Y2, X3, Y3 = (snap.wits[k] for k in (x2, y2, x3, y3))
        det = (Y2 * Y2 - X2 * X2) % R
        if det == 0: continue
        T = rootfind.T; k = D_ED * X2 % R * Y2 % R
        r1 = X3 * (1 + k * T); r2 = Y3 * (1 - k * T)          # x1 y2 + y1 x2 = r1 ; x1 x2 + y1 y2 = r2
        di = pow(det, R - 2, R)
        xs = (r1 * Y2 - r2 * X2) * di; ys = (r2 * Y2 - r1 * X2) * di
        for s_ in rootfind.roots((xs * ys - T).c):
            gx, gy = rootfind.peval(xs.c, s_), rootfind.peval(ys.c, s_)
            if (gx, gy) == (snap.wits[x1], snap.wits[y1]): continue
            w2 = list(snap.wits); w2[x1], w2[y1], w2[t] = gx, gy, gx * Y2 % R
            out.append((i, (x1, y1), w2))
    return out

def run(ck):
    quick = ck.tier == "quick"
    proofgate.run(ck, "C12.v", THEOREMS)
    build_driver(); build_harness()
    rng = Rng(ck.seed, "C12")
    if pow(D_ED, (R - 1) // 2, R) != R - 1: raise BuildError("Euler criterion for d failed")
    progs, lines, meta = {}, [], {}
    def add(name, L, m):
        progs[name] = L; meta[name] = m
        lines.append("prog " + name); lines.extend(L)
    for i, (tag, P, Q) in enumerate(point_pairs(rng, quick)):
        base = [f"pt {e(P)}", f"pt {e(Q, rng.choice([1, 7, rng.scalar() or 1]))}"]
        add(f"add{i}", base + ["padd $0 $1 $2 $3", "snap"], ("add", tag, P, Q))
        add(f"sub{i}", base + ["psub $0 $1 $2 $3", "snap"], ("sub", tag, P, Q))
        add(f"neg{i}", base + ["pneg $0 $1", "snap"], ("neg", tag, P, Q))
        for b in (0, 1, 2, R - 1):
            add(f"selid{i}_{b % 7}", base + ["w " + hx(b), "pselid $4 $0 $1", "snap"], ("selid", tag, P, b))
        for b in (0, 1):
            add(f"selpt{i}_{b}", base + ["w " + hx(b), "bool $4", "pselpt $4 $0 $1 $2 $3", "snap"], ("selpt", tag, P, Q, b))
        ck.count(("pair", tag, P, Q), kind="point pair: " + tag)
    # both operands the SAME witnesses (one allocated point used twice), and sequences of operations on one point
    for i, P in enumerate([J.random_subgroup_point(rng), J.ID, J.GEN]):
        base1 = [f"pt {e(P)}"]
        add(f"al_add{i}", base1 + ["padd $0 $1 $0 $1", "snap"], ("alias", "add", P))
        add(f"al_sub{i}", base1 + ["psub $0 $1 $0 $1", "snap"], ("alias", "sub", P))
        for b in (0, 1):
            add(f"al_sel{i}_{b}", base1 + ["w " + hx(b), "bool $2", "pselpt $2 $0 $1 $0 $1", "snap"], ("alias", "selpt", P))
        add(f"al_seq{i}", base1 + ["padd $0 $1 $0 $1", "padd $0 $1 $0 $1", "pneg $0 $1", "pneg $0 $1", "snap"], ("alias", "seq", P))
        ck.count(("alias", P), kind="aliased point operands / repeated calls")
        # the constant-wired identity (wires ZERO, ONE) as an operand, on either side
        for opn, line, want_ in (("cid_sub_l", "psub 0 1 $0 $1", "negP"), ("cid_sub_r", "psub $0 $1 0 1", "P"), ("cid_add_l", "padd 0 1 $0 $1", "P"),
                                 ("cid_add_r", "padd $0 $1 0 1", "P"), ("cid_neg", "pneg 0 1", "id"), ("cid_sub_ii", "psub 0 1 0 1", "id")):
            add(f"al_{opn}{i}", base1 + [line, "snap"], ("alias", opn, P, want_))
    # random sequences of point components on a shared pool of points (results fed back in) in one composer
    for mi in range(4 if quick else 30):
        pool = [J.random_subgroup_point(rng), rng.choice([J.ID, J.GEN, J.random_subgroup_point(rng)])]
        body = [f"pt {e(pool[0])}", f"pt {e(pool[1])}"]; pos = [(0, 1), (2, 3)]; nres = 4; want_pts = []
        for _k in range(rng.randrange(4, 8)):
            op = rng.choice(["padd", "psub", "pneg", "pselid", "tors", "mulgen", "padd", "psub"])
            i_, j_ = rng.randrange(len(pool)), rng.randrange(len(pool))
            if op in ("padd", "psub"):
                body.append(f"{op} ${pos[i_][0]} ${pos[i_][1]} ${pos[j_][0]} ${pos[j_][1]}")
                v_ = J.add(pool[i_], pool[j_] if op == "padd" else J.neg(pool[j_]))
            elif op == "pneg":
                body.append(f"pneg ${pos[i_][0]} ${pos[i_][1]}"); v_ = J.neg(pool[i_])
            elif op == "pselid":
                b_ = rng.randrange(2); body += ["w " + hx(b_), f"pselid ${nres} ${pos[i_][0]} ${pos[i_][1]}"]; nres += 1
                v_ = pool[i_] if b_ else J.ID
            elif op == "tors":
                body.append(f"tors ${pos[i_][0]} ${pos[i_][1]}"); continue
            else:
                s_ = rng.randrange(J.RJ); body += ["w " + hx(s_), f"mulgen ${nres} {e(J.GEN)}"]; nres += 1
                v_ = J.mul(s_, J.GEN)
            pool.append(v_); pos.append((nres, nres + 1)); want_pts.append(((nres, nres + 1), v_, op)); nres += 2
        add(f"pmix{mi}", body + ["snap"], ("pmix", "sequence on shared points", want_pts))
        ck.count(("pmix", mi), kind="mixed sequences of point components")
    mpts = [("random", J.random_subgroup_point(rng)), ("identity", J.ID), ("generator", J.GEN)]
    for j, k in enumerate(scalars(rng, quick)):
        for tag, P in (mpts if (not quick or j < 3) else mpts[:1]):
            add(f"mul{j}_{tag}", [f"pt {e(P)}", "w " + hx(k), "pmul $2 $0 $1", "snap"], ("mul", tag, P, k))
            ck.count(("mul", tag, k), kind="scalar multiplication")
    impl, model = composer.run_both(ck, "\n".join(lines) + "\n", "c12")
    ck.sample({"program": progs["add3"][:3]}); ck.sample({"program": progs["mul3_random"][1:3]})
    bad = composer.compare_programs(ck, progs, impl, model, "C12")
    wbad = [b for b in widgets.run_tie(ck, 300 if quick else 4000, rng, "c12w") if b[0] in ("var", "?")]
    # ---- evaluator-decided expectations on the REAL layouts
    jobs, expect, info = [], {}, {}
    def job(nm, snap, wits, want, tag, prog):
        jobs.append((nm, snap, wits)); expect[nm] = want; info[nm] = (tag, prog)
    for name, m in meta.items():
        if name not in impl: continue
        snap = Snapshot(impl[name])
        res = [int(x) for r_ in snap.results for x in r_ if x.isdigit()]
        kind = m[0]
        val = lambda w: snap.wits[w]
        if kind in ("add", "sub", "neg"):
            P, Q = m[2], m[3]
            want = J.add(P, Q) if kind == "add" else J.add(P, J.neg(Q)) if kind == "sub" else J.neg(P)
            got = (val(res[-2]), val(res[-1]))
            if got != want:
                ck.violation(f"component_{kind}_point({m[1]}) returned {got[0]:#x},.. instead of the group result", {"failing_input_found": True, "program": progs[name]}, key=f"value:{kind}:{m[1]}")
            job(name, snap, None, True, f"honest {kind}", name)
            if kind in ("neg", "sub"):
                # returned coordinates moved together by one offset / singly: the result must be uniquely determined
                for tag_, dx, dy in (("both returned coordinates shifted by the same offset", 1, 1), ("both shifted by opposite offsets", 1, R - 1),
                                     ("returned x shifted", 1, 0), ("returned y shifted", 0, 1)):
                    dlt = rng.scalar() or 1
                    w2 = list(snap.wits)
                    if res[-2] == res[-1] or snap.wits[res[-2]] is None: continue
                    w2[res[-2]] = (w2[res[-2]] + dx * dlt) % R; w2[res[-1]] = (w2[res[-1]] + dy * dlt) % R
                    if kind == "neg" and dy and res[-1] < FIRST + 4: continue      # y wire shared with the input: not a free witness
                    job(f"{name}_sh{dx}{dy % 7}", snap, w2, False, f"{kind}: {tag_}", name)
            for (row, ops, w2) in ghost_operand_assignments(snap, FIRST + 4):
                nm = f"{name}_ghost{row}"
                job(nm, snap, w2, False, f"{kind}: gadget-allocated free operand replaced by the second root (ghost point)", name)
            if kind == "add":
                n0 = res[-2] - 1          # x1*y2 wire, then x3, y3
                # each helper / output wire moved alone
                for off, tag in ((0, "x1*y2 wire"), (1, "x3"), (2, "y3")):
                    w2 = list(snap.wits); w2[n0 + off] = (w2[n0 + off] + 1 + rng.small(8)) % R
                    job(f"{name}_p{off}", snap, w2, False, "add: forged " + tag, name)
                # forged product wire with the sum solved for it (xy-consistency alone rejects)
                (x1, y1), (x2, y2) = P, Q
                t = (x1 * y2 + 5) % R
                d1, d2 = (1 + D_ED * t % R * y1 % R * x2) % R, (1 - D_ED * t % R * y1 % R * x2) % R
                if d1 and d2:
                    w2 = list(snap.wits); w2[n0] = t
                    w2[n0 + 1] = (t + y1 * x2) * J.inv(d1) % R; w2[n0 + 2] = (y1 * y2 + x1 * x2) * J.inv(d2) % R
                    job(f"{name}_solved", snap, w2, False, "add: product wire forged, sum solved for it", name)
                # two of the three curve-addition residuals (xy, x3, y3) non-zero with sum zero: rejected by the coded
                # widget (weights 1, kappa, kappa^2), accepted by one that gives two of them the same weight
                yx = y1 * x2 % R
                for pair in (("x3", "y3"), ("xy", "x3"), ("xy", "y3")):
                    eps = rng.scalar() or 1
                    T = (x1 * y2 - (eps if pair[0] == "xy" else 0)) % R          # vb_xy = eps
                    D1, D2 = (1 + D_ED * T % R * yx) % R, (1 - D_ED * T % R * yx) % R
                    if not D1 or not D2: continue
                    nx, ny = (T + yx) % R, (y1 * y2 + x1 * x2) % R
                    if pair == ("xy", "x3"): nx = (nx + eps) % R                    # vb_x3 = -eps
                    if pair == ("xy", "y3"): ny = (ny + eps) % R                    # vb_y3 = -eps
                    X3, Y3 = nx * J.inv(D1) % R, ny * J.inv(D2) % R
                    if pair == ("x3", "y3"):
                        X3 = (X3 + eps) % R                                           # vb_x3 = -eps D1
                        Y3 = (Y3 - eps * D1 % R * J.inv(D2)) % R                      # vb_y3 = +eps D1
                    w2 = list(snap.wits); w2[n0], w2[n0 + 1], w2[n0 + 2] = T, X3, Y3
                    job(f"{name}_c{pair[0]}{pair[1]}", snap, w2, False, f"add: residuals {pair[0]} and {pair[1]} non-zero with sum zero", name)
                # another curve point as the claimed sum
                o = J.add(want, J.GEN); w2 = list(snap.wits); w2[n0 + 1], w2[n0 + 2] = o
                job(f"{name}_other", snap, w2, False, "add: another curve point claimed as the sum", name)
        elif kind == "pmix":
            if any(l.startswith(("E ", "PANIC")) for l in impl[name]):
                ck.violation(f"a point component failed inside a sequence on shared points: {[l for l in impl[name] if l.startswith(('E ', 'PANIC'))][0][:100]}", {"failing_input_found": True, "program": progs[name]}, key="pmix-error"); continue
            for (px_, py_), v_, op_ in m[2]:
                if py_ < len(res) and (val(res[px_]), val(res[py_])) != v_:
                    ck.violation(f"in a sequence of point components on shared points, {op_} returned a point different from the group result", {"failing_input_found": True, "program": progs[name], "op": op_}, key=f"pmix-value:{op_}")
                    break
            job(name, snap, None, True, "honest sequence of point components", name)
        elif kind == "alias":
            op, P = m[1], m[2]
            got = (val(res[-2]), val(res[-1]))
            want = {"add": J.add(P, P), "sub": J.ID, "selpt": P, "seq": J.neg(P)}.get(op)
            if want is None: want = {"negP": J.neg(P), "P": P, "id": J.ID}[m[3]]
            if got != want:
                ck.violation(f"point component with aliased operands / repeated calls ({op}) returned a wrong point", {"failing_input_found": True, "program": progs[name]}, key=f"value:alias:{op}")
            job(name, snap, None, True, f"honest {op}, aliased operands", name)
        elif kind == "selid":
            P, b = m[2], m[3]
            got = (val(res[-2]), val(res[-1]))
            if b in (0, 1):
                want = P if b == 1 else J.ID
                if got != want: ck.violation(f"select_identity(bit={b}) returned a wrong point", {"failing_input_found": True, "program": progs[name]}, key="value:selid")
                job(name, snap, None, True, "honest select_identity", name)
                w2 = list(snap.wits); w2[res[-2]] = (w2[res[-2]] + 1) % R
                job(name + "_x", snap, w2, False, "select_identity: forged x", name)
                w2 = list(snap.wits); w2[res[-1]] = (w2[res[-1]] + 1) % R
                job(name + "_y", snap, w2, False, "select_identity: forged y", name)
            else:
                job(name, snap, None, False, "select_identity with a non-boolean bit", name)
        elif kind == "selpt":
            P, Q, b = m[2], m[3], m[4]
            got = (val(res[-2]), val(res[-1]))
            if got != (P if b == 1 else Q): ck.violation(f"select_point(bit={b}) returned a wrong point", {"failing_input_found": True, "program": progs[name]}, key="value:selpt")
            job(name, snap, None, True, "honest select_point", name)
            w2 = list(snap.wits); w2[res[-1]] = (w2[res[-1]] + 1) % R
            job(name + "_y", snap, w2, False, "select_point: forged y", name)
        elif kind == "mul":
            P, k = m[2], m[3]
            got = (val(res[-2]), val(res[-1]))
            if k < (1 << 252):
                want = J.mul(k, P)
                if got != want:
                    ck.violation(f"component_mul_point(k={k:#x}, {m[1]}) returned a point different from [k]P", {"failing_input_found": True, "program": progs[name]}, key=f"value:mul:{m[1]}")
                job(name, snap, None, True, "honest mul_point", name)
                # forced output: another curve point
                o = J.add(want, J.GEN); w2 = list(snap.wits); w2[res[-2]], w2[res[-1]] = o
                job(name + "_other", snap, w2, False, "mul_point: another curve point claimed as the product", name)
                # one decomposition bit flipped, every dependent accumulator / point re-derived honestly
                bits = [FIRST + 3 + 2 * jj for jj in range(252)]
                j = rng.randrange(252)
                w2 = list(snap.wits); w2[bits[j]] = 1 - w2[bits[j]]
                w2 = rederive_points(snap, composer.rewitness(snap, w2, frozen=set(bits) | set(range(FIRST, FIRST + 3)), first_new=FIRST + 3))
                job(name + "_bit", snap, w2, False, "mul_point: one scalar bit flipped, everything downstream re-derived", name)
                # a middle intermediate sum forged alone
                t = rng.choice([w for w in range(bits[-1] + 2, len(snap.wits) - 8)])
                w2 = list(snap.wits); w2[t] = (w2[t] + 1) % R
                job(name + "_mid", snap, w2, False, "mul_point: one helper wire forged", name)
            else:
                job(name, snap, None, False, "mul_point with a scalar of more than 252 bits", name)
    res = composer.model_sat(jobs, "c12_sat")
    for nm in expect:
        got = res.get(nm, "?") is None
        tag, prog = info[nm]
        ck.count(("tmpl", nm), kind="template: " + tag)
        if got != expect[nm]:
            ck.violation(f"{tag}: rows of the real layout satisfiable={got}, property requires {expect[nm]} ({meta[prog][:2]})",
                         {"failing_input_found": True, "program": progs[prog], "template": tag}, key=f"{tag}")
    for nm, over in composer.second_opinion(ck, jobs, expect, progs, lambda n: info[n][1], "c12_rp",
                                            lambda n: n.endswith(("_solved", "_other", "_p0", "_bit", "_cx3y3", "_cxyx3", "_cxyy3", "_sh11", "_sh16")) or "_ghost" in n or (n.startswith("selid") and expect.get(n) is False), limit=14 if quick else 60):
        tag, prog = info[nm]
        ck.violation(f"{tag}: the REAL prover produced a proof for this assignment and the verifier accepted it ({meta[prog][:2]})",
                     {"failing_input_found": True, "program": progs[prog], "witness_overrides": {str(i): hx(v) for i, v in over.items()}, "template": tag}, key="accepted:" + tag[:40])
    if (bad or wbad) and not ck.violations:
        if bad:
            name, d = bad[0]
            ck.violation(f"correspondence C12 (L3) broke on {len(bad)} of {len(progs)} programs; first {name} {meta[name][:2]}: {d}",
                         {"failing_input_found": False, "correspondence": "L3 snapshot of point components vs Composer/PointComponents.v", "program": progs[name], "diff": d, "theorems_no_longer_tied": THEOREMS})
        else:
            wd, form, line, a, b = wbad[0]
            ck.violation(f"correspondence C12 (L1) broke: curve-addition widget form '{form}' differs from Gates/Gate.v t_var on {len(wbad)} tuples",
                         {"failing_input_found": False, "correspondence": "L1 widget formula tie (ecc/curve_addition)", "tuple": line, "impl": a, "model": b, "theorems_no_longer_tied": THEOREMS})
    return ck.finish(level="proof",
        rule="point pairs {identity, P and -P, P and P, P and 2P, two generators, random} x {add, sub, neg, select_identity with bits 0/1/2/r-1, select_point}; scalars {0,1,2,r_j-1,r_j,2^252-1,2^251,random,(>252 bits)} x {random point, identity, generator} for mul_point; every real snapshot compared with the Gallina model (rows, witness values incl. native sums, returned wires); returned points compared with independent affine arithmetic; honest / forged helper wire / forged output / solved-for / flipped-bit assignments decided on the real layout by the proved evaluator; L1 tie of the curve-addition widget",
        assumptions=["PrimeR (prime r): class argument of the statements, proved closed in Props/Hypotheses.v", "NonSquareD (d is not a square in Fr): class argument of the theorems, proved in Props/Hypotheses.v (HYP_nonsquare_d)", "associativity is proved (C12_law_assoc) with cofactors computed outside Coq and checked by ring; ed_mul (the MSB-first double-and-add of dusk-jubjub) is proved equal to the integer multiple and also compared with native results",
                     "always-satisfiable (completeness) of the chained components is decided by evaluation of honest runs, proved only per addition block"],
        checker_cmd=proofgate.CHECKER_CMD, trusted_base=proofgate.TRUSTED)

def rederive_points(snap, wits):
    """re-derive, in row order, the (x1*y2, x3, y3) witnesses of every curve-addition block and the
    select_one outputs from the current values (honest prover on perturbed inputs)"""
    w = list(wits); g = snap.gates
    for i, (sel, wires) in enumerate(g):
        if sel[10] and i + 1 < len(g):
            a, b, c, d = wires; x3, y3, _, t = g[i + 1][1]
            p = J.add((w[a], w[b]), (w[c], w[d]))
            w[t] = w[a] * w[d] % R; w[x3], w[y3] = p
        qm, ql, qr, qo, qf, qc, qar = sel[:7]
        if qar == 1 and qm == 1 and ql == R - 1 and qo == R - 1 and qc == 1 and not any(sel[7:]):   # select_one
            a, b, c, d = wires; w[c] = (1 - w[a] + w[a] * w[b]) % R
        if qar == 1 and qm == 1 and ql == 0 and qr == 0 and qo == R - 1 and qc == 0 and qf == 0 and not any(sel[7:]) and wires[2] not in (wires[0], wires[1]):
            a, b, c, d = wires; w[c] = w[a] * w[b] % R
    return w

def replay(ck, path):
    d = json.load(open(path)); print(json.dumps(d["replay"], indent=1)[:3000]); return 0
