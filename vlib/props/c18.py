"""C18: determinism and schedule independence (impl vs impl)."""
import json, subprocess
from ..common import *
from .. import proofgate, protocol

THEOREMS = ["C18_sigma_order_independent", "C18_field_sum_reassoc", "C18_fft_threads_independent"]
ALLOC_TARGET = os.path.join(VERIF, "target", "harness-alloc")

def build_alloc():
    p = sh("cargo build --release --offline --no-default-features", cwd=os.path.join(VERIF, "harness"),
           env={"CARGO_TARGET_DIR": ALLOC_TARGET}, check=False, timeout=3000)
    if p.returncode != 0:
        raise BuildError("alloc-only harness build failed:\n" + p.stdout[-3000:])
    return os.path.join(ALLOC_TARGET, "release", "plonk-harness")

def make_script(rng, pools, sizes, conc, big_pools=None):
    S = protocol.Script()
    S.cmd("pp", "pp", 1 << 14, 4)
    out = []
    circuits = []
    for sz in sizes:
        body = ["pub " + hx(rng.scalar()), "w " + hx(rng.small()), "w " + hx(rng.small())]
        # many copy classes and public inputs: hash-map iteration matters for sigma / PI indexes
        for i in range(sz):
            if i % 97 == 0: body.append("pub " + hx(rng.scalar()))
            elif i % 5 == 0: body.append(f"gadd 0 1 1 0 0 {hx(i)} - $1 $2 0 0")
            else: body.append("gmul 1 0 0 0 0 3 - $1 $2 0 0")
        body += ["rbits 64 $1", "lxor 8 $1 $2"]
        nm = f"L{sz}"; S.circuit(nm, body); circuits.append(nm)
    for nm in circuits:
        pools_nm = pools if not (big_pools and nm == f"L{max(sizes)}" and len(sizes) > 1) else big_pools
        for t in pools_nm:
            S.cmd("threads", t)
            c = S.cmd("compile", f"k{nm}_{t}", "pp", "6465", nm)
            d1 = S.cmd("digest", "prover", f"k{nm}_{t}"); d2 = S.cmd("digest", "verifier", f"k{nm}_{t}")
            p = S.cmd("prove", f"p{nm}_{t}", f"k{nm}_{t}", nm, 17)
            v = S.cmd("verify", f"k{nm}_{t}", f"p{nm}_{t}", "=")
            out.append((nm, t, c, d1, d2, p, v))
        S.cmd("threads", 0)
        cc = S.cmd("concurrent", f"k{nm}_{pools_nm[0]}", nm, conc if pools_nm is pools else 2, 900)
        out.append((nm, "conc", cc))
    return S, out

def run(ck):
    quick = ck.tier == "quick"
    proofgate.run(ck, "C18.v", THEOREMS)
    build_harness()
    alloc_bin = build_alloc()
    rng = Rng(ck.seed, "C18")
    pools = [1, 2, 3, 4, 5, 8, 16, 17] if quick else list(range(1, 18)) + [32]
    sizes = [2100, 4200] if quick else [1100, 2100, 4200]      # domains 2^11 (thorough), 2^12, 2^13
    # quick: the 2^13 domain (beyond every parallel threshold of the kernels) under three pools only
    S, out = make_script(rng, pools, sizes, 8 if quick else 16, big_pools=[1, 3, 16] if quick else None)
    ck.sample({"circuit_head": S.circuits[f"L{sizes[0]}"][:6], "pools": pools})
    res = protocol.run(S, "c18_a", timeout=3000)
    # second process (fresh hash seeds) and the alloc-only build
    path = os.path.join(WORK, "c18_a.rs.in")
    outs = {"process 1": res}
    for label, binary in (("process 2", HARNESS), ("alloc-only build", alloc_bin)):
        p = subprocess.run([binary, "protocol", path], stdout=subprocess.PIPE, stderr=subprocess.PIPE, text=True, timeout=3000)
        r2, cur = {}, None
        for line in p.stdout.splitlines():
            if re.match(r"^P c\d+( |$)", line):
                t = line.split(" ", 2); cur = t[1]; r2[cur] = t[2] if len(t) > 2 else ""
        outs[label] = r2
    ref = {}
    for item in out:
        if item[1] == "conc":
            nm, _, cc = item
            for label, r in outs.items():
                ck.count(("conc", nm, label), kind="concurrent vs sequential")
                if not r.get(cc, "").startswith("OK"):
                    ck.violation(f"concurrent calls on shared keys differ from sequential ones ({label}, circuit {nm}): {r.get(cc,'')[:300]}",
                                 {"failing_input_found": True, "circuit": nm, "where": label}, key="concurrent")
            continue
        nm, t, c, d1, d2, p, v = item
        for label, r in outs.items():
            ck.count((nm, t, label), kind=f"pool/{label}")
            ck.traces += 1
            tup = (r.get(d1), r.get(d2), r.get(p, "").split(" rng=")[0])
            if not (r.get(c, "").startswith("OK") and r.get(p, "").startswith("OK") and r.get(v, "").startswith("OK")):
                ck.violation(f"honest compile/prove/verify failed with a pool of {t} threads ({label}, circuit {nm}): compile={r.get(c,'')[:40]} prove={r.get(p,'')[:60]} verify={r.get(v,'')[:40]}",
                             {"failing_input_found": True, "circuit": nm, "threads": t, "where": label, "script": path}, key=f"honest-fails:{t}")
                continue
            if nm not in ref: ref[nm] = (tup, t, label)
            elif ref[nm][0] != tup:
                what = "prover key bytes" if ref[nm][0][0] != tup[0] else ("verifier bytes" if ref[nm][0][1] != tup[1] else "proof bytes")
                ck.violation(f"{what} differ between ({ref[nm][1]} threads, {ref[nm][2]}) and ({t} threads, {label}) for circuit {nm} with the same RNG stream",
                             {"failing_input_found": True, "circuit": nm, "threads": [ref[nm][1], t], "where": [ref[nm][2], label], "script": path}, key=f"differs:{what}")
    # ---- process history: what a process compiled / proved earlier (other labels, other circuits) must not
    # change the keys or the proof of a later call.  Labels: same length, identical first 32..63 bytes.
    small = ["w 5", "w 7", "gmul 1 0 0 0 0 0 - $0 $1 0 0", "pub 23", "rbits 8 $0"]
    other = ["w 2", "w 3", "gadd 0 1 1 0 0 0 - $0 $1 0 0", "pub 5"]
    for hj, (ln, pos) in enumerate([(40, 39), (64, 63), (33, 32), (6, 5)]):
        la = bytes((0x61 + (i % 26)) for i in range(ln)); lb = bytearray(la); lb[pos] ^= 1
        def hist(with_history):
            H = protocol.Script(); H.cmd("pp", "pp", 1 << 8, 4)
            H.circuit("s", small); H.circuit("o", other)
            if with_history:
                H.cmd("compile", "ka", "pp", la.hex(), "s"); H.cmd("prove", "pa", "ka", "s", 17)
                H.cmd("compile", "ko", "pp", la.hex(), "o"); H.cmd("prove", "po", "ko", "o", 17)
            H.cmd("compile", "kb", "pp", bytes(lb).hex(), "s")
            ids = (H.cmd("digest", "prover", "kb"), H.cmd("digest", "verifier", "kb"), H.cmd("prove", "pb", "kb", "s", 17))
            r = protocol.run(H, f"c18_h{hj}_{int(with_history)}")
            return tuple(r.get(i, "").split(" rng=")[0] for i in ids)
        fresh, aged = hist(False), hist(True)
        ck.count(("history", ln, pos), kind="process history")
        if fresh != aged:
            what = "prover key bytes" if fresh[0] != aged[0] else ("verifier bytes" if fresh[1] != aged[1] else "proof bytes")
            ck.violation(f"{what} for label B depend on what the process did before: a fresh process and one that first used the {ln}-byte label A (equal length, differing only at byte {pos}) disagree",
                         {"failing_input_found": True, "label_A_hex": la.hex(), "label_B_hex": bytes(lb).hex(), "circuit": small, "fresh": [x[:80] for x in fresh], "after_history": [x[:80] for x in aged]}, key="history")
    # ---- what the proving THREAD did before: a larger circuit proved first, then a smaller one whose gate count is not a
    # power of two; the second proof must equal the one a fresh process gives (buffers reused across proofs must not leak)
    bigc = ["w " + hx(rng.scalar()), "w " + hx(rng.scalar()), "pub " + hx(rng.scalar())] + ["gmul 1 0 0 0 0 3 - $0 $1 0 0", "gadd 0 1 1 0 0 5 - $0 $1 0 0"] * 40 + ["rbits 32 $0"]
    for hj, smallc in enumerate([["w 5", "w 7", "gmul 1 0 0 0 0 0 - $0 $1 0 0", "pub 23", "rbits 8 $0"], ["w 9", "w 2"] + ["gadd 0 1 1 0 0 1 - $0 $1 0 0"] * 9]):
        def thist(with_history):
            H = protocol.Script(); H.cmd("pp", "pp", 1 << 9, 4)
            H.circuit("big", bigc); H.circuit("small", smallc)
            H.cmd("compile", "kbig", "pp", "6161", "big"); H.cmd("compile", "ks", "pp", "6262", "small")
            if with_history:
                H.cmd("prove", "p0", "kbig", "big", 17); H.cmd("prove", "p00", "kbig", "big", 18)
            ids = (H.cmd("prove", "p1", "ks", "small", 19), H.cmd("prove", "p2", "ks", "small", 19))
            r = protocol.run(H, f"c18_t{hj}_{int(with_history)}")
            return tuple(r.get(i, "").split(" rng=")[0] for i in ids)
        fresh, aged = thist(False), thist(True)
        ck.count(("thread-history", hj), kind="thread history")
        if fresh != aged or fresh[0] != fresh[1]:
            ck.violation("proof bytes of a small circuit depend on what the proving thread proved before (a larger circuit first): fresh process and warmed-up process disagree under the same RNG stream",
                         {"failing_input_found": True, "first_proved": bigc[:4] + ["..."], "circuit": smallc, "fresh": [x[:80] for x in fresh], "after_history": [x[:80] for x in aged]}, key="thread-history")
    return ck.finish(level="proof",
        rule="impl vs impl, no model bytes: process history (same call after / without earlier calls with a same-length label sharing a 32..63-byte prefix; a small circuit proved after a larger one on the same thread); prover/verifier key digests and proof bytes for a circuit with domain 2^12 (thorough: 2^11, 2^12, 2^13; many copy classes and public inputs) under rayon pools {1,2,3,4,5,8,16,17} (thorough 1..17, 32) with the same scripted RNG; the same script in a second process (fresh hash seeds) and in a harness built without the std feature (alloc-only, serial code paths); 8 (16) threads proving and verifying concurrently on shared keys vs sequentially",
        assumptions=["rayon join / par_iter().map().collect() / par_chunks_mut().for_each on disjoint chunks have their sequential meaning (guaranteed by Rust's aliasing rules, not mechanised)",
                     "actual interleavings, the OS scheduler and separate compilation are covered by the run only"],
        checker_cmd=proofgate.CHECKER_CMD, trusted_base=proofgate.TRUSTED)

def replay(ck, path):
    print(json.dumps(json.load(open(path))["replay"], indent=1)[:2000]); return 0
