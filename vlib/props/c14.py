"""C14: fixed-base multiplication returns [s]G for canonical s only."""
import json, re
from ..common import *
from .. import proofgate, composer, widgets, protocol
from .. import jubjub as J

THEOREMS = ["C14_rows_give_steps", "C14_step_sound", "C14_fixed_base_sound", "C14_canonical_emits", "C14_canonical_sound", "C14_mulgen_emits", "C14_mulgen_sound", "C14_mulgen_in_system", "C14_mulgen_scalar_multiple"]
FIRST = 6

def e(p, z=1): return " ".join(hx(v) for v in J.ext(p, z))

def fixed_rows(snap):
    return [i for i, (sel, _) in enumerate(snap.gates) if sel[9]]

def rederive_fixed(snap, wits, digits_msb):
    """honest prover on a chosen digit vector (entries may be outside {-1,0,1}): scalar and point
    accumulators and xy_alpha re-derived row by row with the widget's own formulas"""
    w = list(wits); g = snap.gates
    rows = fixed_rows(snap)
    for k, i in enumerate(rows):
        sel, (a, b, c, d) = g[i]
        an, bn, _, dn = g[i + 1][1]
        bit = digits_msb[k] % R
        xb, yb, xyb = sel[1], sel[2], sel[5]
        w[dn] = (2 * w[d] + bit) % R
        xa = bit * xb % R; ya = (bit * bit % R * (yb - 1) + 1) % R
        w[c] = bit * xyb % R
        t = D_ED * w[c] % R * w[a] % R * w[b] % R
        d1, d2 = (1 + t) % R, (1 - t) % R
        w[an] = (w[a] * ya + w[b] * xa) * J.inv(d1) % R if d1 else 0
        w[bn] = (w[b] * ya + w[a] * xa) * J.inv(d2) % R if d2 else 0
    return w

def rederive_cancel(snap, wits, digits_msb, at, pair, eps):
    """as rederive_fixed, but at fixed-base row number [at] two of the four widget residuals
    (bitc, xy, x, y) are made non-zero with sum zero; all later rows follow honestly from the forged
    accumulator.  Unsatisfiable for the coded widget (its four weights are distinct powers of the
    separation challenge); satisfiable for a widget that gives the two residuals one weight."""
    w = list(wits); g = snap.gates
    rows = fixed_rows(snap)
    for k, i in enumerate(rows):
        sel, (a, b, c, d) = g[i]
        an, bn, _, dn = g[i + 1][1]
        bit = digits_msb[k] % R
        xb, yb, xyb = sel[1], sel[2], sel[5]
        w[dn] = (2 * w[d] + bit) % R
        xa = bit * xb % R; ya = (bit * bit % R * (yb - 1) + 1) % R
        w[c] = bit * xyb % R
        bitc = bit * (bit - 1) % R * (bit + 1) % R
        hit = (k == at)
        if hit and pair in (("xy", "x"), ("xy", "y")): w[c] = (w[c] - eps) % R          # fb_xy = eps
        if hit and pair == ("bitc", "xy"): w[c] = (w[c] + bitc) % R                     # fb_xy = -bitc
        t = D_ED * w[c] % R * w[a] % R * w[b] % R
        d1, d2 = (1 + t) % R, (1 - t) % R
        if not d1 or not d2: return None
        nx, ny = (w[a] * ya + w[b] * xa) % R, (w[b] * ya + w[a] * xa) % R
        if hit and pair == ("xy", "x"): nx = (nx - eps) % R
        if hit and pair == ("xy", "y"): ny = (ny - eps) % R
        if hit and pair == ("bitc", "x"): nx = (nx - bitc) % R
        if hit and pair == ("bitc", "y"): ny = (ny - bitc) % R
        w[an] = nx * J.inv(d1) % R
        w[bn] = ny * J.inv(d2) % R
        if hit and pair == ("x", "y"):
            w[an] = (w[an] + eps) % R                                                   # fb_x = eps (1 + t)
            w[bn] = (w[bn] - eps * d1 % R * J.inv(d2)) % R                              # fb_y = -eps (1 + t)
    return w

def digits_msb_of(k): return list(reversed(J.wnaf2(k)))

def run(ck):
    quick = ck.tier == "quick"
    proofgate.run(ck, "C14.v", THEOREMS)
    build_driver(); build_harness()
    rng = Rng(ck.seed, "C14")
    progs, lines, meta = {}, [], {}
    def add(name, L, m):
        progs[name] = L; meta[name] = m
        lines.append("prog " + name); lines.extend(L)
    gens = [("GENERATOR", J.GEN), ("GENERATOR_NUMS", J.GEN_NUMS), ("random prime-order point", J.random_subgroup_point(rng))]
    if not quick: gens += [("random prime-order point", J.random_subgroup_point(rng)) for _ in range(3)]
    canon = [0, 1, 2, 3, J.RJ - 1, J.RJ - 2, (J.RJ - 1) // 2, 1 << 251, rng.randrange(J.RJ), rng.randrange(J.RJ)]
    if not quick: canon += [rng.randrange(J.RJ) for _ in range(10)] + [(1 << 251) - 1, 0x5555555555555555555555555555555555555555555555555555555555555555 % J.RJ]
    noncanon = [J.RJ, J.RJ + 1, (1 << 252) - 1, 1 << 252, R - 1, (5 + J.RJ), rng.randrange(J.RJ, R)]
    # several multiplications in ONE composer: same generator twice / three times, two generators interleaved
    for ti, (s1, s2, s3) in enumerate([(3, 5, 6), (rng.randrange(J.RJ), rng.randrange(J.RJ), 1), (1, 1 << 251, J.RJ - 1)]):
        G1_, G2_ = J.GEN, J.GEN_NUMS
        add(f"twice{ti}", ["w " + hx(s1), f"mulgen $0 {e(G1_)}", "w " + hx(s2), f"mulgen $3 {e(G1_)}", "w " + hx(s3), f"mulgen $6 {e(G1_)}", "snap"],
            ("several", "one generator three times", [(s1, G1_), (s2, G1_), (s3, G1_)], 0))
        add(f"inter{ti}", ["w " + hx(s1), f"mulgen $0 {e(G1_)}", "w " + hx(s2), f"mulgen $3 {e(G2_)}", "w " + hx(s3), f"mulgen $6 {e(G1_)}", "snap"],
            ("several", "two generators interleaved", [(s1, G1_), (s2, G2_), (s3, G1_)], 0))
        ck.count(("several", ti), kind="several multiplications in one composer")
    for gi, (gt, G) in enumerate(gens):
        for si, s in enumerate(canon):
            add(f"g{gi}_s{si}", ["w " + hx(s), f"mulgen $0 {e(G)}", "snap"], ("mulgen", gt, G, s))
            ck.count(("mulgen", gt, s), kind="canonical scalar x generator")
        # the same generator handed over in a projective representation with Z != 1 (odd and even scalars)
        for zi, z in enumerate((7, rng.scalar() or 3)):
            for si, s in enumerate([1, 3, 6, J.RJ - 2, rng.randrange(J.RJ) | 1]):
                add(f"g{gi}_z{zi}_s{si}", ["w " + hx(s), f"mulgen $0 {e(G, z)}", "snap"], ("mulgen", gt + f", extended representation with Z={z:#x}"[:40], G, s))
                ck.count(("mulgen-z", gt, z, s), kind="canonical scalar x generator with Z != 1")
        for si, s in enumerate(noncanon):
            add(f"g{gi}_n{si}", ["w " + hx(s), f"mulgen $0 {e(G)}", "snap"], ("mulgen-noncanonical", gt, G, s))
            ck.count(("mulgen-nc", gt, s), kind="non-canonical scalar witness (entry point)")
    # the seam with prover-chosen digit vectors
    G = J.GEN
    seam = []
    for s in [5, J.RJ - 1, rng.randrange(J.RJ)]:
        seam.append((s, J.wnaf2(s), True, "honest width-2 NAF"))
        # another signed-digit representation of the same integer: ... 0 1 ... -> ... 1 -1 ... (msb side first)
        ds = J.wnaf2(s)
        for i in range(1, 250):
            if ds[i] == 1 and ds[i - 1] == 0 and (i + 1 >= 256 or ds[i + 1] == 0):
                alt = list(ds); alt[i] = 0; alt[i - 1] = -1 + 0; alt[i] = 1; break
        seam.append((s, J.wnaf2((s + 1) % J.RJ), False, "digits of another scalar (s+1)"))
        seam.append((s, J.wnaf2(s)[:255] + [1], False, "digit 2^255 set (leading-zero rows)"))
        seam.append((s, [0] * 253 + [1, 0, 0] if s == 0 else J.wnaf2(s)[:253] + [1, 0, 0], False, "digit 2^253 set (leading-zero rows)"))
    for v in (5, rng.randrange(1 << 200)):
        # witness v, digits encoding v + r (BLS modulus) and v + r_jubjub
        for mod, tag in ((R, "BLS modulus"), (J.RJ, "JubJub order")):
            z = v + mod
            ds = []
            k = z
            while k:
                if k & 1:
                    m_ = k % 4; d_ = m_ if m_ < 2 else m_ - 4; ds.append(d_); k -= d_
                else: ds.append(0)
                k >>= 1
            if len(ds) <= 256:
                seam.append((v, ds + [0] * (256 - len(ds)), False, f"digits encoding scalar + {tag}"))
    seam.append((J.RJ, J.wnaf2(0)[:0] + digits_raw(J.RJ), False, "witness r_jubjub with its own digits"))
    seam.append((J.RJ + 5, digits_raw(J.RJ + 5), False, "witness r_jubjub + 5 with its own digits"))
    seam.append((7, [2] + [0] * 255, None, "unsupported digit 2"))
    for k, (s, ds, want, tag) in enumerate(seam):
        add(f"seam{k}", ["w " + hx(s), f"fbd $0 {hx(G[0])} {hx(G[1])} {J.digits_str(ds)}", "snap"], ("seam", tag, G, s, ds, want))
        ck.count(("seam", tag, s), kind="seam: " + tag)
    impl, model = composer.run_both(ck, "\n".join(lines) + "\n", "c14")
    ck.sample({"program": [x[:80] for x in progs["g0_s4"]]}); ck.sample({"program": [x[:80] for x in progs["seam1"]]})
    bad = composer.compare_programs(ck, progs, impl, model, "C14")
    wbad = [b for b in widgets.run_tie(ck, 300 if quick else 4000, rng, "c14w") if b[0] in ("fixed", "?")]
    # theorem block vs real rows: fb_block and canonical_blk printed by the extracted definitions
    tie_bad = block_tie(ck, impl, progs, meta)
    jobs, expect, info = [], {}, {}
    def job(nm, snap, wits, want, tag, prog):
        jobs.append((nm, snap, wits)); expect[nm] = want; info[nm] = (tag, prog)
    for name, m in meta.items():
        if name not in impl: continue
        out = impl[name]
        errs = [l.split()[1] for l in out if l.startswith("E ")]
        pan = [l for l in out if l.startswith("PANIC")]
        if pan:
            ck.violation(f"component_mul_generator panicked ({m[1]}): {pan[0][:100]}", {"failing_input_found": True, "program": progs[name]}, key="panic"); continue
        snap = Snapshot(out)
        res = [int(x) for r_ in snap.results for x in r_ if x.isdigit()]
        if m[0] == "mulgen":
            G_, s = m[2], m[3]
            if errs:
                ck.violation(f"component_mul_generator rejected the canonical scalar {s:#x} ({m[1]}): {errs[0]}", {"failing_input_found": True, "program": progs[name]}, key="reject-canonical"); continue
            got = (snap.wits[res[-2]], snap.wits[res[-1]])
            if got != J.mul(s, G_):
                ck.violation(f"component_mul_generator({s:#x}, {m[1]}) returned a point different from [s]G", {"failing_input_found": True, "program": progs[name]}, key="value")
            job(name, snap, None, True, "honest fixed-base multiplication", name)
            if name.endswith("_s4") or name.endswith("_s8") or not quick:
                rows = fixed_rows(snap)
                # forged accumulators
                i = rows[rng.randrange(3, 255)]
                a, b, c, d = snap.gates[i][1]
                for wire, tg in ((a, "x accumulator"), (b, "y accumulator"), (c, "xy_alpha wire"), (d, "scalar accumulator")):
                    w2 = list(snap.wits); w2[wire] = (w2[wire] + 1) % R
                    job(f"{name}_f{wire}", snap, w2, False, "forged " + tg, name)
                # returned point replaced by another curve point
                o = J.add(got, G_); w2 = list(snap.wits); w2[res[-2]], w2[res[-1]] = o
                job(name + "_other", snap, w2, False, "another curve point claimed as the product", name)
                # a digit pair (1,0) re-expressed as (0,2): same integer, digit outside {-1,0,1}
                dm = digits_msb_of(s)
                for k in range(3, 255):
                    if dm[k] == 1 and dm[k + 1] == 0:
                        d2 = list(dm); d2[k], d2[k + 1] = 0, 2
                        w2 = rederive_fixed(snap, snap.wits, d2)
                        w2[res[-2]], w2[res[-1]] = w2[snap.gates[rows[-1] + 1][1][0]], w2[snap.gates[rows[-1] + 1][1][1]]
                        job(name + "_d2", snap, w2, False, "digit 2 in place of (1,0): same integer, accumulators re-derived with the widget formulas", name)
                        break
                # two residuals of one fixed-base row non-zero with sum zero (x/y, xy/x, xy/y on an honest digit;
                # bitc/xy, bitc/x, bitc/y on the row carrying the digit 2): a widget that gives two of its four
                # identities the same weight accepts these and returns a point that is not [s]G
                last = (snap.gates[rows[-1] + 1][1][0], snap.gates[rows[-1] + 1][1][1])
                for pair in (("x", "y"), ("xy", "x"), ("xy", "y")):
                    at = rng.randrange(3, 256)
                    w2 = rederive_cancel(snap, snap.wits, dm, at, pair, rng.scalar() or 1)
                    if w2 is None: continue
                    w2[res[-2]], w2[res[-1]] = w2[last[0]], w2[last[1]]
                    job(f"{name}_c{pair[0]}{pair[1]}", snap, w2, False, f"fixed-base row {at}: residuals {pair[0]} and {pair[1]} non-zero with sum zero, later rows honest", name)
                for k in range(3, 255):
                    if dm[k] == 1 and dm[k + 1] == 0:
                        d2 = list(dm); d2[k], d2[k + 1] = 0, 2
                        for pair in (("bitc", "xy"), ("bitc", "x"), ("bitc", "y")):
                            w2 = rederive_cancel(snap, snap.wits, d2, k + 1, pair, 0)
                            if w2 is None: continue
                            w2[res[-2]], w2[res[-1]] = w2[last[0]], w2[last[1]]
                            job(f"{name}_c{pair[0]}{pair[1]}", snap, w2, False, f"fixed-base row {k + 1} with digit 2: residuals {pair[0]} and {pair[1]} non-zero with sum zero", name)
                        break
                # all digits re-derived for s + r_jubjub (closing equality fails unless it wraps)
                alt = digits_raw(s + J.RJ)
                if len(alt) <= 256:
                    w2 = rederive_fixed(snap, snap.wits, list(reversed(alt + [0] * (256 - len(alt)))))
                    job(name + "_rj", snap, w2, False, "digits of s + r_jubjub, accumulators re-derived", name)
        elif m[0] == "several":
            if errs:
                ck.violation(f"component_mul_generator rejected a canonical scalar in a sequence of calls ({m[1]}): {errs}", {"failing_input_found": True, "program": progs[name]}, key="several-reject"); continue
            pts_ = [(res[3 * k_ + 1], res[3 * k_ + 2]) for k_ in range(len(m[2]))] if len(res) >= 3 * len(m[2]) else []
            for k_, ((s_, G_), (wx_, wy_)) in enumerate(zip(m[2], pts_)):
                if (snap.wits[wx_], snap.wits[wy_]) != J.mul(s_, G_):
                    ck.violation(f"{m[1]}: call {k_ + 1} of component_mul_generator in one composer returned a point different from [s]G (s = {s_:#x})",
                                 {"failing_input_found": True, "program": progs[name], "call": k_ + 1}, key="several-value")
                    break
            job(name, snap, None, True, "honest sequence of fixed-base multiplications", name)
        elif m[0] == "mulgen-noncanonical":
            if errs != ["JubJubScalarMalformed"]:
                ck.violation(f"component_mul_generator on the non-canonical scalar witness {m[3]:#x}: {'accepted' if not errs else errs[0]}, expected JubJubScalarMalformed", {"failing_input_found": True, "program": progs[name]}, key="noncanonical-entry")
        elif m[0] == "seam":
            tag, s, ds, want = m[1], m[3], m[4], m[5]
            if want is None:
                if errs != ["UnsupportedWNAF2k"]: ck.violation(f"seam with digit 2: {errs}", {"failing_input_found": True, "program": progs[name]}, key="seam-digit2")
                continue
            job(name, snap, None, want, "seam: " + tag, name)
            if want:
                got = (snap.wits[res[-2]], snap.wits[res[-1]])
                if got != J.mul(s, m[2]): ck.violation(f"seam ({tag}) returned a point different from [s]G", {"failing_input_found": True, "program": progs[name]}, key="seam-value")
    # ---- copy constraints of the fixed-base block: a deviating prover keeps every gate but re-wires the cell that
    # pins the accumulator after the three leading rows to a fresh zero witness, and spells scalar + r (BLS modulus)
    # with the digits; every row then holds, only the compiled copy constraint between the fixed-base cell and the
    # pin is violated - the real prover (keys compiled from the honest circuit) must not produce an accepted proof
    cb_cases = []
    for name, m in meta.items():
        if m[0] != "seam" or "BLS modulus" not in m[1] or name not in impl: continue
        snapB = Snapshot(impl[name])
        rows_ = fixed_rows(snapB)
        if len(rows_) < 4 or any(l.startswith(("E ", "PANIC")) for l in impl[name]): continue
        acc3 = snapB.gates[rows_[3]][1][3]
        fresh = len(snapB.wits)
        body = ["w " + hx(v_) for v_ in snapB.wits[FIRST:]] + ["w 0"]
        rewired = 0
        for gi, (sel, wires) in enumerate(snapB.gates[4:], start=4):
            ws = list(wires)
            if sel[9] == 0 and sel[6] != 0 and acc3 in ws and (gi - 1) not in rows_:
                ws = [fresh if x == acc3 else x for x in ws]; rewired += 1
            co = list(sel[:6]) + [snapB.pis.get(gi, 0)] + list(sel[6:11])
            body.append("raw " + " ".join(hx(x) for x in co) + (" 1 " if gi in snapB.pis else " 0 ") + " ".join(str(x) for x in ws))
        if rewired != 1: continue
        s_ = m[3]
        honest = ["w " + hx(s_), f"fbd $0 {hx(G[0])} {hx(G[1])} {J.digits_str(J.wnaf2(s_))}"]
        cb_cases.append((name, honest, body, s_))
    if cb_cases:
        Sx = protocol.Script(); Sx.cmd("pp", "pp", 1 << 12, 3)
        ids_ = []
        for nm_, honest, body, s_ in cb_cases[:2 if quick else 8]:
            Sx.circuit("A" + nm_, honest); Sx.circuit("B" + nm_, body)
            c1 = Sx.cmd("compile", "k" + nm_, "pp", "7d", "A" + nm_); c2 = Sx.cmd("prove", "p" + nm_, "k" + nm_, "B" + nm_, 61); c3 = Sx.cmd("verify", "k" + nm_, "p" + nm_, "=")
            ids_.append((nm_, s_, c1, c2, c3, body)); ck.count(("copy-break", nm_), kind="re-wired leading-zero pin, digits of scalar + r")
        rx = protocol.run(Sx, "c14_cb")
        for nm_, s_, c1, c2, c3, body in ids_:
            if not rx[c1].startswith("OK"): raise BuildError("C14 copy-break: honest compile failed: " + rx[c1][:80])
            if rx[c2].startswith("OK") and rx[c3].startswith("OK"):
                ck.violation(f"component_mul_generator: a prover that re-wires the leading-zero pin and uses the digits of scalar + r obtained an ACCEPTED proof; the returned point is [s + r]G, not [s]G (s = {s_:#x})",
                             {"failing_input_found": True, "compiled_from": ["w " + hx(s_), "fbd $0 <generator> <honest NAF digits>"], "prover_circuit_raw_rows": body[:3] + ["..."] + body[-3:], "rows": len(body)}, key="copy-break:leading-pin")
            elif "InvalidCircuitSize" in rx[c2]:
                raise BuildError("C14 copy-break: re-wired instance has a different size: " + rx[c2][:80])
    res = composer.model_sat(jobs, "c14_sat")
    # second opinion on the adversarial assignments: the REAL prover and verifier (the compiled widget identities)
    rp_cases = []
    for nm, snap_, w2 in jobs:
        if w2 is None or expect[nm] is not False: continue
        tag, prog = info[nm]
        if not (nm.endswith("_d2") or nm.endswith("_rj") or nm.endswith("_other") or re.search(r"_c(bitc|xy|x)(xy|x|y)$", nm)): continue
        if len(rp_cases) >= (12 if quick else 60): break
        over = {i: v for i, v in enumerate(w2) if i < len(snap_.wits) and v != snap_.wits[i]}
        rp_cases.append((nm, progs[prog], over))
    if rp_cases:
        verd = protocol.real_prover_verdicts(rp_cases, "c14_rp")
        for nm, body, over in rp_cases:
            ck.count(("rp", nm), kind="real prover on adversarial assignment")
            if verd.get(nm) == "ACCEPTED":
                tag, prog = info[nm]
                ck.violation(f"{tag}: the REAL prover produced a proof for this assignment and the verifier accepted it; the circuit's returned point is not [s]G ({meta[prog][1]}, scalar {meta[prog][3]:#x})",
                             {"failing_input_found": True, "program": progs[prog], "witness_overrides": {str(i): hx(v) for i, v in list(over.items())[:2000]}, "template": tag}, key="accepted:" + tag[:40])
            elif verd.get(nm, "").startswith("ERROR"):
                raise BuildError("C14 real-prover second opinion failed: " + verd[nm])
    for nm in expect:
        got = res.get(nm, "?") is None
        tag, prog = info[nm]
        ck.count(("tmpl", nm), kind="template: " + tag)
        if got != expect[nm]:
            ck.violation(f"{tag}: rows of the real layout satisfiable={got}, the property requires {expect[nm]} ({meta[prog][1]}, scalar {meta[prog][3]:#x})",
                         {"failing_input_found": True, "program": progs[prog], "template": tag}, key=tag[:50])
    if (bad or wbad or tie_bad) and not ck.violations:
        if bad:
            name, d = bad[0]
            ck.violation(f"correspondence C14 (L3) broke on {len(bad)} of {len(progs)} programs; first {name} {meta[name][:2]}: {d}",
                         {"failing_input_found": False, "correspondence": "L3 snapshot of component_mul_generator vs Composer/PointComponents.v", "program": progs[name], "diff": d, "theorems_no_longer_tied": THEOREMS})
        elif tie_bad:
            ck.violation(f"correspondence C14 (block tie) broke: {tie_bad}", {"failing_input_found": False, "correspondence": "rows of fb_block / canonical_blk (the objects of C14_fixed_base_sound, C14_canonical_sound) vs the real rows", "theorems_no_longer_tied": THEOREMS})
        else:
            wd, form, line, a, b = wbad[0]
            ck.violation(f"correspondence C14 (L1) broke: fixed-base widget form '{form}' differs from Gates/Gate.v t_fixed on {len(wbad)} tuples",
                         {"failing_input_found": False, "correspondence": "L1 widget formula tie (ecc/scalar_mul/fixed_base)", "tuple": line, "impl": a, "model": b, "theorems_no_longer_tied": THEOREMS})
    return ck.finish(level="proof",
        rule="generators {GENERATOR, GENERATOR_NUMS, random prime-order} x canonical scalars {0,1,2,3,r_j-1,r_j-2,(r_j-1)/2,2^251,random} (honest: layout = model, point = [s]G, rows satisfied) and non-canonical witnesses {r_j, r_j+1, 2^252-1, 2^252, r-1, random >= r_j} (entry point must return JubJubScalarMalformed); the digit seam with honest NAF, digits of another scalar, digits touching the three leading rows, digits encoding scalar + BLS modulus / + JubJub order, non-canonical witness with its own digits, unsupported digit; on real layouts: forged accumulators / xy_alpha / output, digit 2 replacing (1,0) with accumulators re-derived by the widget formulas, digits of s + r_j; a re-wired leading-zero pin with the digits of s + r through the real prover (copy constraints of the fixed-base cells); rows of the theorem blocks (fb_block, canonical_blk) compared with the real rows; L1 tie of the fixed-base widget",
        assumptions=["PrimeR, NonSquareD: class arguments of the statements, both proved closed in Props/Hypotheses.v", "the returned point is proved to be the signed-digit combination sum_i d_i [2^i]G with integer sum_i d_i 2^i = s, and (C14_mulgen_scalar_multiple, using the proved associativity) equal to the integer multiple [s]G; also compared with native multiplication",
                     "table points [2^i]G are on the curve when G is (closure theorem); their equality with native doublings is checked by the L3 tie of the q_l/q_r/q_c selectors"],
        checker_cmd=proofgate.CHECKER_CMD, trusted_base=proofgate.TRUSTED)

def digits_raw(z):
    ds = []; k = z
    while k:
        if k & 1:
            m_ = k % 4; d_ = m_ if m_ < 2 else m_ - 4; ds.append(d_); k -= d_
        else: ds.append(0)
        k >>= 1
    return ds + [0] * max(0, 256 - len(ds))

def block_tie(ck, impl, progs, meta):
    """the rows the C14 theorems speak about, printed from the extracted definitions, must be the real rows"""
    name = "g0_s4"
    if name not in impl: return "reference program missing"
    snap = Snapshot(impl[name])
    G = meta[name][2]
    rows = fixed_rows(snap)
    if len(rows) != 256 or rows != list(range(rows[0], rows[0] + 256)): return f"{len(rows)} fixed-base rows, not 256 contiguous"
    base = snap.gates[rows[0]][1][0]
    rc, out, err = run_driver(f"BLK fb {base} {hx(G[0])} {hx(G[1])}\nBLK canon {FIRST} {FIRST + 1}\n", "c14_blk")
    if rc != 0: raise BuildError("driver BLK failed: " + err[-500:])
    L = [l.split() for l in out.splitlines() if l.startswith("B ")]
    fb, canon = L[:257], L[257:]
    def same(brow, grow, pi):
        sel = tuple(int(x, 16) for x in brow[2:13]); wires = tuple(int(x) for x in brow[13:17])
        return sel == grow[0] and wires == grow[1] and ((brow[17] == "-") == (pi is None))
    for k in range(257):
        if not same(fb[k], snap.gates[rows[0] + k], snap.pis.get(rows[0] + k)):
            return f"fb_block row {k} differs from real row {rows[0] + k}"
    ck.traces += 257
    # canonical block: the rows right after the 4 initial + witness rows
    start = 4
    for k in range(len(canon)):
        if not same(canon[k], snap.gates[start + k], snap.pis.get(start + k)):
            return f"canonical_blk row {k} differs from real row {start + k}"
    ck.traces += len(canon)
    # the opening equalities, the leading-zero pin and the closing equality sit where the theorem's hypotheses expect them
    g = snap.gates
    def is_eqc(row, wire, k):   # -w + k = 0
        sel, wr = g[row]; return sel[1] == R - 1 and sel[5] == k % R and sel[6] == 1 and wr[0] == wire and not any(sel[7:])
    r0 = rows[0]
    ok = is_eqc(r0 - 3, base, 0) and is_eqc(r0 - 2, base + 1, 1) and is_eqc(r0 - 1, base + 2, 0) and is_eqc(r0 + 257, base + 4 * 3 + 2, 0)
    sel, wr = g[r0 + 258]
    ok = ok and sel[1] == 1 and sel[2] == R - 1 and sel[6] == 1 and wr[0] == base + 4 * 256 + 2 and wr[1] == FIRST
    return None if ok else "opening / leading-zero / closing equalities are not where C14_fixed_base_sound expects them"

def replay(ck, path):
    d = json.load(open(path)); print(json.dumps(d["replay"], indent=1)[:3000]); return 0
