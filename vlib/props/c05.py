"""C05: prover exactness -- Prover::prove returns a proof iff the instance's
wire values satisfy every row of the COMPILED layout and its copy constraints."""
import json
from ..common import *
from .. import proofgate, composer, protocol

THEOREMS = ["C05_row_evaluator_exact", "C05_roots_all_zero", "C05_components_imply_combined",
            "C05_combined_implies_components", "C05_grand_product_closes", "C05_vanishing_iff_divisible", "C05_degree_test",
            "C05_numerator_zero_on_domain", "C05_perm_closing_iff", "C05_blinded_at_domain", "C05_copies_from_closing", "C05_sigma_rotates_classes", "C05_copy_constraints_meaning", "C05_satisfied_and_classes_constant_numerator_zero"]

def expected_outcome(snapA, snapB):
    """model-side verdict: (kind, detail). Rows are A's selectors evaluated on
    B's wire values and public inputs; copy constraints are A's wiring classes."""
    if len(snapB.gates) != len(snapA.gates):
        return "InvalidCircuitSize", None
    # synthetic snapshot: A's selectors, B's wires/values/PIs
    syn = Snapshot([])
    syn.gates = [(snapA.gates[i][0], snapB.gates[i][1]) for i in range(len(snapA.gates))]
    syn.pis = dict(snapB.pis)
    syn.wits = list(snapB.wits)
    return syn, None

def copy_ok(snapA, snapB):
    """B's wire values are constant on A's copy classes"""
    val = {}
    for i, (_, wiresA) in enumerate(snapA.gates):
        for k, wa in enumerate(wiresA):
            v = snapB.wits[snapB.gates[i][1][k]]
            if wa in val and val[wa] != v:
                return False, (i, k, wa)
            val[wa] = v
    return True, None

def run(ck):
    quick = ck.tier == "quick"
    if THEOREMS: proofgate.run(ck, "C05.v", THEOREMS)
    build_driver(); build_harness()
    rng = Rng(ck.seed, "C05")
    S = protocol.Script()
    S.cmd("pp", "pp", 1 << 10, 3)
    cases = []   # (id, nameA, nameB, prove cmd, verify cmd or None, tag)
    def add_case(tag, bodyA, bodyB, pp="pp"):
        i = len(cases)
        a, b = f"A{i}", f"B{i}"
        S.circuit(a, bodyA); S.circuit(b, bodyB)
        c1 = S.cmd("compile", f"k{i}", pp, "6c", a)
        c2 = S.cmd("prove", f"p{i}", f"k{i}", b, 5 + i)
        c3 = S.cmd("verify", f"k{i}", f"p{i}", "=")
        c4 = S.cmd("snapshot", a); c5 = S.cmd("snapshot", b)
        cases.append((tag, a, b, c1, c2, c3, c4, c5))
        ck.count((tag, tuple(bodyB)), kind=tag)
    n_each = 6 if quick else 60
    for _ in range(n_each):
        body = protocol.gadget_circuit(rng)
        add_case("satisfied", body, body)
        # one witness value changed (same layout): violates some row unless the value is unused
        bad = list(body); k = rng.randrange(3)
        bad.append(f"setw {6 + k} " + hx(rng.scalar()))
        add_case("witness overridden at end", body, bad)
    # raw rows with arbitrary selector combinations, incl. a selected row last in a full domain
    for _ in range(n_each):
        rows = []
        L = ["w " + hx(rng.small()), "w " + hx(rng.small()), "w " + hx(rng.small()), "w " + hx(rng.small())]
        nrows = rng.choice([3, 4, 11, 12])            # 4 + 12 = 16: full domain, last row reads row 0
        for j in range(nrows):
            sel = [rng.choice([0, 0, 1, rng.scalar()]) for _ in range(12)]
            sel[6] = 0
            wires = [rng.choice(["$0", "$1", "$2", "$3", "0", "1"]) for _ in range(4)]
            L.append("raw " + " ".join(hx(x) for x in sel) + " 0 " + " ".join(wires))
        add_case("raw rows, random selectors", L, L)
        # zero out all but the arithmetic selectors and make it satisfiable by construction
        L2 = ["w " + hx(rng.small()), "w " + hx(rng.small())]
        for j in range(nrows):
            L2.append("gmul 1 0 0 0 0 3 - $0 $1 0 0")
        add_case("satisfied, boundary size", L2, L2)
    # public inputs on rows whose arithmetic selector is off (the quotient adds PI(X) unconditionally)
    for _ in range(n_each):
        L = ["w " + hx(rng.small()), "w " + hx(rng.small())]
        for j in range(rng.choice([2, 3, 5])):
            qar = rng.choice([0, 0, 1])
            pi = rng.choice([0, rng.scalar(), rng.small() + 1])
            sel = [0] * 12; sel[6] = pi; sel[7] = qar
            if qar: sel[1] = 1; sel[5] = (-pi) % R; wires = ["0", "0", "0", "0"]      # 0 + (-pi) + pi = 0: satisfied
            else: wires = [rng.choice(["$0", "$1", "0"]) for _ in range(4)]
            L.append("raw " + " ".join(hx(x) for x in sel) + " 1 " + " ".join(wires))
        add_case("public input on rows with and without the arithmetic selector", L, L)
    # range row as the last row of a full domain: next row is row 0
    for v in ([5, 1 << 20] if quick else [5, 1 << 20, 77, 3]):
        L = ["w " + hx(v)] + ["gmul 1 0 0 0 0 3 - $0 $0 0 0"] * 7 + [f"rbits 8 $0"]
        add_case("gadget ending near the domain end", L, L)
    # copy constraint broken, rows individually satisfied: B re-allocates a shared witness
    for _ in range(n_each):
        x, y = rng.small(), rng.small()
        A = ["w " + hx(x), "w " + hx(y), "gmul 1 0 0 0 0 0 - $0 $1 0 0", "gadd 0 1 1 0 0 0 - $2 $0 0 0"]
        x2 = rng.small() + 1 + x
        B = ["w " + hx(x), "w " + hx(y), "gmul 1 0 0 0 0 0 - $0 $1 0 0", "setw 6 " + hx(x2), "gadd 0 1 1 0 0 0 - $2 $0 0 0",
             "setw 6 " + hx(x)]
        # B's second gate read x2 for wire b when computing its output, then the table is restored:
        # every row holds with (a,b,c) = (prod, x2, prod+x2) only if the b wire carried x2 -> it does not;
        # instead build B with a fresh witness for the second use (different wiring, same shape)
        B = ["w " + hx(x), "w " + hx(y), "gmul 1 0 0 0 0 0 - $0 $1 0 0", "setw 7 " + hx(y), "gadd 0 1 1 0 0 0 - $2 $1 0 0"]
        add_case("copy constraint broken (different wiring, rows satisfied)", A, B)
        C = ["w " + hx(x), "w " + hx(y), "gmul 1 0 0 0 0 0 - $0 $1 0 0"]
        add_case("size mismatch", A, C)
        # different wiring, EQUAL values: a second witness holding the same value feeds the linked wire; every row and
        # every compiled copy constraint holds (they are about wire values, not witness indices) - must be proved
        A2 = ["w " + hx(x), "w " + hx(y), "w " + hx(x), "gmul 1 0 0 0 0 0 - $0 $1 0 0", "gadd 0 1 1 0 0 0 - $3 $0 0 0", "rbits 16 $0"]
        B2 = A2[:4] + ["gadd 0 1 1 0 0 0 - $3 $2 0 0", "rbits 16 $2"]
        add_case("different witness allocation with equal values (satisfying)", A2, B2)
    # full domains whose wire columns are periodic (the four rows of Composer::initialized() repeated): every wire
    # polynomial then has degree far below n-1 (the interpolant loses its top coefficients)
    init_rows = [("0 " + hx(R - 1) + " 0 0 0 0 0 1 0 0 0 0", "0", "0 0 0 0"), ("0 " + hx(R - 1) + " 0 0 0 1 0 1 0 0 0 0", "0", "1 0 0 0"),
                 ("1 2 3 4 1 4 0 1 0 0 0 0", "0", "2 4 5 3"), ("1 1 1 1 0 7f 0 1 0 0 0 0", "0", "5 2 4 0")]
    for reps in ((1, 3) if quick else (1, 3, 7, 15, 63)):
        L = [f"raw {sel} {pi} {wires}" for _ in range(reps) for (sel, pi, wires) in init_rows]
        add_case(f"full domain of {4 * (reps + 1)} rows with period-4 wire columns (low-degree interpolants)", L, L)
    # every small size, starting with the gate-less circuit (4 constraints)
    for k in (range(0, 14) if quick else range(0, 40)):
        L = ["w " + hx(rng.small()), "w " + hx(rng.small())] + ["gmul 1 0 0 0 0 3 - $0 $1 0 0"] * k
        add_case("satisfied, size %d" % (4 + k), L, L)
    # beyond every parallel threshold of the kernels: more than 2^12 gates (domain 2^13), satisfied and with
    # one witness overridden, under the default pool and under a pool of 3 workers
    S.cmd("pp", "ppL", (1 << 13) + 8, 3)
    big = ["w " + hx(rng.small()), "w " + hx(rng.small())] + ["gmul 1 0 0 0 0 3 - $0 $1 0 0"] * (4100 if quick else 4100 + rng.randrange(3000))
    add_case("satisfied, more than 2^12 gates (default pool)", big, big, pp="ppL")
    S.cmd("threads", 3)
    add_case("satisfied, more than 2^12 gates (pool of 3)", big, big, pp="ppL")
    add_case("witness overridden at end, more than 2^12 gates", big, big + ["setw 7 " + hx(rng.scalar())], pp="ppL")
    S.cmd("threads", 0)
    # structured violations: every user row violated by r(w^i) for a low-degree remainder r
    # vanishing on the four rows of Composer::initialized() (the degree test must still fire)
    W32 = 0x16a2a19edfe81f20d09b681922c813b4b63683508c2280b93829971f439f0d2b
    for lg in (3, 4):
        n = 1 << lg; w = pow(W32, 1 << (32 - lg), R)
        for pad in (0, 1):
            for d in range(4, min(n, 10)):
                c = rng.scalar() or 1
                extra = [rng.scalar() for _ in range(d - 4)]
                def r_at(x):
                    v = c
                    for j in range(4): v = v * (x - pow(w, j, R)) % R
                    for e in extra: v = v * (x - e) % R
                    return v
                rows = n - 4 - pad
                A = ["w 0"] * rows; Bc = []
                ks = [rng.scalar() for _ in range(rows)]
                A = ["w " + hx(ks[i]) for i in range(rows)] + [f"gate 0 0 0 {hx(R-1)} 0 {hx(ks[i])} - 0 0 ${i} 0" for i in range(rows)]
                Bc = ["w " + hx((ks[i] - r_at(pow(w, 4 + i, R))) % R) for i in range(rows)] + [f"gate 0 0 0 {hx(R-1)} 0 {hx(ks[i])} - 0 0 ${i} 0" for i in range(rows)]
                add_case(f"every row off by a degree-{d} remainder (n={n}, padding={pad})", A, Bc)
    # ---- the compiled permutation itself: read s_sigma_1..4 back from Prover::to_bytes(), evaluate them on the domain,
    # decode the position labels k_j w^i: the cycles of sigma must be exactly the witness classes of the layout
    # (what C05_sigma_rotates_classes / C05_copy_constraints_meaning assume about 'the compiled copy constraints')
    sig_cases = []
    for j in range(3 if quick else 12):
        body = protocol.gadget_circuit(rng, size_hint=rng.randrange(0, 4))
        if j == 0: body = ["w 5", "w 7", "gmul 1 0 0 0 0 0 - $0 $1 0 0", "pub 23", "rbits 8 $0", "rbits 11 $1", "lxor 2 $0 $1", "land 3 $0 $1", "trunc 9 $0", "decomp 6 $0", "gadd 0 1 1 0 0 0 - $3 $0 0 0", "bool 1", "sel 1 $0 $1"]
        if j == 1:
            from .. import jubjub as J_
            ex = lambda P_: " ".join(hx(v_) for v_ in J_.ext(P_, 1))
            P1, P2 = J_.random_subgroup_point(rng), J_.random_subgroup_point(rng)
            body = ["w 5", f"mulgen $0 {ex(J_.GEN)}", f"pt {ex(P1)}", f"pt {ex(P2)}", "padd $3 $4 $5 $6", "w 1", "bool $9", "pselid $9 $3 $4"]
        nm = f"SG{j}"; S.circuit(nm, body); S.cmd("compile", f"ksg{j}", "ppL" if j == 1 else "pp", "73", nm)
        S.cmd("blobof", f"sgb{j}", "prover", f"ksg{j}")
        sig_cases.append((nm, S.cmd("blobget", f"sgb{j}"), S.cmd("snapshot", nm)))
        ck.count(("sigma", tuple(body)), kind="compiled sigma vs witness classes")
    res = protocol.run(S, "c05")
    from .. import sigma as SG
    for nm, bid, sid in sig_cases:
        if not res[bid].startswith("OK"): raise BuildError("C05 sigma tie: no prover bytes for " + nm + ": " + res[bid][:80])
        pv = bytes.fromhex(res[bid].split()[1]); snap_ = protocol.parse_snapshot(res[sid])
        try:
            n_, sg_ = SG.sigma_map(pv)
        except ValueError as ex:
            ck.violation(f"the compiled sigma polynomials are not position labels on the domain: {ex}", {"failing_input_found": True, "circuit": S.circuits[nm]}, key="sigma-labels"); continue
        cy, wc = SG.cycles(n_, sg_), SG.witness_classes(snap_, n_)
        if cy != wc:
            extra = sorted(sorted(c) for c in (cy - wc))[:4]; missing = sorted(sorted(c) for c in (wc - cy))[:2]
            ck.violation(f"the compiled permutation does not encode the copy constraints of the layout: {len(cy - wc)} cycles of sigma are not witness classes (e.g. cells {extra[0][:6] if extra else []} form a cycle of their own although the layout wires them to a witness used elsewhere)",
                         {"failing_input_found": True, "circuit": S.circuits[nm], "cycles_not_classes": [[list(x) for x in c[:12]] for c in extra], "classes_not_cycles": [[list(x) for x in c[:12]] for c in missing],
                          "meaning": "a prover may assign different values to cells of one witness that sigma does not link; C05_copy_constraints_meaning no longer describes the compiled keys"}, key="sigma-classes")
    ck.sample({"circuit": S.circuits["A0"], "instance": S.circuits["B1"][-2:]})
    jobs, meta = [], {}
    for (tag, a, b, c1, c2, c3, c4, c5) in cases:
        if protocol.status(res[c1]) != "OK":
            ck.violation(f"compile failed for {tag}: {res[c1]}", {"failing_input_found": True, "circuit": S.circuits[a]}, key="compile")
            continue
        if "PANIC" in res[c2]:
            ck.violation(f"prove panicked ({tag}): {res[c2][:200]}", {"failing_input_found": True, "circuit": S.circuits[a], "instance": S.circuits[b]}, key="panic")
            continue
        sa, sb = protocol.parse_snapshot(res[c4]), protocol.parse_snapshot(res[c5])
        if len(sa.gates) != len(sb.gates):
            meta[c2] = ("InvalidCircuitSize", tag, a, b, c3); continue
        syn = Snapshot([]); syn.gates = [(sa.gates[i][0], sb.gates[i][1]) for i in range(len(sa.gates))]
        syn.pis = dict(sb.pis); syn.wits = list(sb.wits)
        # the compiled public-input rows are A's; values on rows A does not know are still added by the prover
        jobs.append((c2, syn, None))
        meta[c2] = ("rows", tag, a, b, c3, copy_ok(sa, sb)[0])
    sat = composer.model_sat(jobs, "c05_sat")
    for c2, m in meta.items():
        r = res[c2]
        if m[0] == "InvalidCircuitSize":
            want = "InvalidCircuitSize"
        else:
            rows_ok = sat.get(c2, "?") is None
            want = "OK" if (rows_ok and m[5]) else "CircuitUnsatisfied"
        got = "OK" if protocol.status(r) == "OK" else protocol.errkind(r)
        tag, a, b, c3 = m[1], m[2], m[3], m[4]
        ck.traces += 1
        if got != want:
            ck.violation(f"prover exactness fails ({tag}): independent row-by-row evaluation of the compiled layout says {want}, Prover::prove says {got}",
                         {"failing_input_found": True, "compiled_circuit": S.circuits[a], "instance": S.circuits[b], "model": want, "impl": got},
                         key=f"exact:{tag}")
        elif got == "OK" and protocol.status(res[c3]) != "OK":
            ck.violation(f"prover returned a proof that fails verification ({tag}): {res[c3]}",
                         {"failing_input_found": True, "compiled_circuit": S.circuits[a], "instance": S.circuits[b]}, key="returned-bad-proof")
    return ck.finish(level="proof",
        rule="layouts: random gadget mixes, one circuit of more than 2^12 gates (default pool and pool of 3), raw rows with random selector combinations (incl. 16-row full domains whose last row reads row 0), rows carrying a (zero / non-zero) public input with the arithmetic selector on or off, gadget ending at the domain end, full domains with periodic wire columns (interpolants of low degree); instances: satisfying, one witness overridden, different wiring breaking a compiled copy constraint with every row satisfied, different wiring with equal values (still satisfying), wrong size; verdict of the extracted row evaluator on (compiled selectors, instance wires) + copy-class check vs Prover::prove; every returned proof is verified; the cycles of the compiled sigma (read back from the prover bytes) equal the witness classes of the layout",
        assumptions=["the degree test is exact (C05_degree_test) given that the 8n coset points are distinct and off the domain (checked by the kernels tie of C19, not proved for every n) and that the numerator has fewer than 8n coefficients",
                     "challenges avoid the bounded bad sets of the separation theorem"],
        checker_cmd=proofgate.CHECKER_CMD, trusted_base=proofgate.TRUSTED)

def replay(ck, path):
    d = json.load(open(path))
    print(json.dumps(d["replay"], indent=1)[:3000])
    return 0
