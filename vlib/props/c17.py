"""C17: checked decoders are total, bounded and admit only well-formed data."""
import json
from ..common import *
from .. import proofgate, protocol, mutate

THEOREMS = ['C17_decode_vec_bounded', 'C17_decode_vec_total', 'C17_accepts_only_decodable']
BODY = ["w 5", "w 7", "gmul 1 0 0 0 0 0 - $0 $1 0 0", "pub 23", "rbits 8 $0", "lxor 2 $0 $1", "pub 0"]

def baseline(name="c17_base"):
    S = protocol.Script()
    S.cmd("pp", "pp", 1 << 9, 3)
    S.circuit("c", BODY); S.circuit("c2", BODY + ["bool 1"])
    S.cmd("compilec", "k", "pp", "6161", "c")
    S.cmd("compile", "k2", "pp", "62", "c2")
    S.cmd("prove", "p", "k", "c", 5)
    S.cmd("prove", "p2", "k2", "c2", 6)
    ids = {}
    for nm, kind, slot in (("prover", "prover", "k"), ("verifier", "verifier", "k"), ("proof", "proof", "p"), ("pp", "pp", "pp"),
                           ("compressed", "compressed", "k"), ("prover2", "prover", "k2"), ("verifier2", "verifier", "k2"), ("proof2", "proof", "p2")):
        S.cmd("blobof", nm, kind, slot); ids[nm] = S.cmd("blobget", nm)
    res = protocol.run(S, name, checked=True)
    return {nm: bytes.fromhex(res[i].split()[1]) for nm, i in ids.items()}

def run(ck):
    quick = ck.tier == "quick"
    if THEOREMS: proofgate.run(ck, "C17.v", THEOREMS)
    build_harness(); build_harness("checked")
    rng = Rng(ck.seed, "C17")
    B = baseline()
    nfl = 60 if quick else 1500
    muts = []   # (kind, description, bytes)
    def addm(kind, lst): muts.extend((kind, d, b) for d, b in lst)
    # ---- prover
    pv = B["prover"]
    label_len, pk_len, ck_len, vk_len = [int.from_bytes(pv[8 * i:8 * i + 8], "big") for i in range(4)]
    pk_off = 48 + label_len; ck_off = pk_off + pk_len; vk_off = ck_off + ck_len
    addm("prover", mutate.generic_mutants(pv, rng, nfl, other=B["prover2"]))
    addm("prover", mutate.inner_u64_mutants(pv, rng, pk_off, 400, 40 if quick else 400))
    addm("prover", mutate.inner_u64_mutants(pv, rng, pk_off, pk_len, 40 if quick else 600))
    addm("prover", mutate.inner_u64_mutants(pv, rng, ck_off, 8, 13))
    # non-canonical scalars (value + r) inside the prover key: polynomial coefficients and entries of the 8n evaluation
    # tables of the first selector entries (layout: n, eval_size, then per entry: coefficient count, coefficients,
    # domain header + 8n evaluations)
    n_pk = int.from_bytes(pv[pk_off:pk_off + 8], "little"); ev_sz = int.from_bytes(pv[pk_off + 8:pk_off + 16], "little")
    dom_sz = ev_sz - 8 * n_pk * 32
    off = pk_off + 16
    for entry in range(4 if quick else 11):
        if dom_sz < 0 or off + 8 > pk_off + pk_len: break
        L_ = int.from_bytes(pv[off:off + 8], "little")
        coeff0 = off + 8; tab0 = coeff0 + 32 * L_ + dom_sz
        if tab0 + 8 * n_pk * 32 > pk_off + pk_len: break
        targets = [("polynomial coefficient", coeff0 + 32 * j) for j in ([0, L_ - 1] if L_ else [])]
        targets += [("evaluation-table entry", tab0 + 32 * j) for j in (0, rng.randrange(8 * n_pk), 8 * n_pk - 1)]
        for what, o in targets:
            v_ = int.from_bytes(pv[o:o + 32], "little")
            if v_ < R and v_ + R < (1 << 256):
                b = bytearray(pv); b[o:o + 32] = (v_ + R).to_bytes(32, "little")
                addm("prover", [(f"prover key entry {entry}: {what} := value + r (non-canonical scalar)", bytes(b))])
        off = tab0 + 8 * n_pk * 32
    first_pt = ck_off + 8
    for flag in ([0, 1, 2, 3, 128, 255] if quick else range(256)):
        b = bytearray(pv); b[first_pt + 96] = flag; addm("prover", [(f"raw commit-key point flag := {flag}", bytes(b))])
    for which, off in (("x", 0), ("y", 48)):
        limbs = int.from_bytes(pv[first_pt + 97 + off:first_pt + 97 + off + 48], "little")      # second point
        if limbs + mutate.P381 < 1 << 384:
            b = bytearray(pv); b[first_pt + 97 + off:first_pt + 97 + off + 48] = (limbs + mutate.P381).to_bytes(48, "little")
            addm("prover", [(f"raw commit-key point: {which} limbs + p (non-reduced)", bytes(b))])
    b = bytearray(pv); b[first_pt + 97 + 48] ^= 1; addm("prover", [("raw commit-key point off curve", bytes(b))])
    # raw commit-key points that are on the curve but not in the subgroup: one alone; a small-order point and its
    # negative (their sum is the identity); two key points shifted by +T and -T (the sum of all points is unchanged);
    # three copies of the order-3 point (0, 2)
    npts = (ck_len - 8) // 97
    def put(bb, idx, pt): bb[first_pt + 97 * idx:first_pt + 97 * idx + 97] = mutate.g1_raw(pt)
    def key_pt(idx): return mutate.g1_unraw(pv[first_pt + 97 * idx:first_pt + 97 * idx + 97])
    for rep in range(2 if quick else 12):
        T = mutate.g1_torsion_point(rng)
        i = rng.randrange(npts); j = (i + 1 + rng.randrange(npts - 2)) % npts; k3 = next(q for q in range(npts) if q not in (i, j))
        b = bytearray(pv); put(b, i, mutate.g1_random_curve_point(rng)); addm("prover", [("raw commit-key point on the curve, not in the subgroup (one point)", bytes(b))])
        b = bytearray(pv); put(b, i, T); addm("prover", [("raw commit-key point := small-order point, not in the subgroup (one point)", bytes(b))])
        b = bytearray(pv); put(b, i, T); put(b, j, mutate.g1_neg(T)); addm("prover", [("raw commit-key points := T and -T, not in the subgroup (their sum is the identity)", bytes(b))])
        b = bytearray(pv); put(b, i, mutate.g1_add(key_pt(i), T)); put(b, j, mutate.g1_add(key_pt(j), mutate.g1_neg(T)))
        addm("prover", [("raw commit-key points P_i + T and P_j - T, not in the subgroup (the sum of all points is unchanged)", bytes(b))])
        b = bytearray(pv)
        for idx in (i, j, k3): put(b, idx, (0, 2))
        addm("prover", [("raw commit-key: three copies of the order-3 point (0, 2), not in the subgroup (they sum to the identity)", bytes(b))])
    for nm, enc in mutate.g1_compressed_specials(rng):
        b = bytearray(pv); b[vk_off + 8:vk_off + 56] = enc; addm("prover", [(f"verifier-key commitment := {nm}", bytes(b))])
    # ---- verifier
    vf = B["verifier"]
    l2, vk2, ok2, npi = [int.from_bytes(vf[8 * i:8 * i + 8], "big") for i in range(4)]
    ok_off = 48 + l2 + vk2
    addm("verifier", mutate.generic_mutants(vf, rng, nfl, other=B["verifier2"]))
    for nm, enc in mutate.g1_compressed_specials(rng):
        b = bytearray(vf); b[ok_off:ok_off + 48] = enc; addm("verifier", [(f"opening key g := {nm}", bytes(b))])
        b = bytearray(vf); b[48 + l2 + 8:48 + l2 + 56] = enc; addm("verifier", [(f"verifier key q_m commitment := {nm}", bytes(b))])
    for which, off in (("h", 48), ("x_h", 144)):
        b = bytearray(vf); b[ok_off + off:ok_off + off + 96] = bytes([0xC0]) + bytes(95); addm("verifier", [(f"opening key {which} := identity", bytes(b))])
        b = bytearray(vf); b[ok_off + off + 95] ^= 1; addm("verifier", [(f"opening key {which} corrupted", bytes(b))])
        for nm, enc in mutate.g2_specials(rng, valid=bytes(vf[ok_off + off:ok_off + off + 96])):
            b = bytearray(vf); b[ok_off + off:ok_off + off + 96] = enc; addm("verifier", [(f"opening key {which} := {nm}", bytes(b))])
    # size fields whose next power of two lies beyond 2^32 (domains the field has no root of unity for)
    for k_ in (30, 31, 32, 33, 34, 40, 48, 60, 62, 63):
        for dlt in (0, 1):
            v_ = (1 << k_) + dlt
            b = bytearray(vf); b[48 + l2:48 + l2 + 8] = (v_ % (1 << 64)).to_bytes(8, "little"); addm("verifier", [(f"verifier key n := 2^{k_}+{dlt}", bytes(b))])
            b = bytearray(vf); b[32:40] = (v_ % (1 << 64)).to_bytes(8, "big"); b[40:48] = (v_ % (1 << 64)).to_bytes(8, "big"); addm("verifier", [(f"verifier header size and constraints := 2^{k_}+{dlt}", bytes(b))])
            b = bytearray(pv); b[pk_off:pk_off + 8] = (v_ % (1 << 64)).to_bytes(8, "little"); addm("prover", [(f"prover key n := 2^{k_}+{dlt}", bytes(b[:pk_off + 4096]) if dlt else bytes(b))])
            b = bytearray(pv); b[32:40] = (v_ % (1 << 64)).to_bytes(8, "big"); b[40:48] = (v_ % (1 << 64)).to_bytes(8, "big"); b[pk_off:pk_off + 8] = (v_ % (1 << 64)).to_bytes(8, "little")
            addm("prover", [(f"prover header size, constraints and key n := 2^{k_}+{dlt}", bytes(b))])
    pi_off = ok_off + ok2
    for v in mutate.EXTREMES:
        b = bytearray(vf); b[pi_off:pi_off + 8] = mutate.be64(v); addm("verifier", [(f"public input index 0 := {v:#x}", bytes(b))])
    # ---- proof
    pf = B["proof"]
    addm("proof", mutate.generic_mutants(pf, rng, nfl * 2, other=B["proof2"], header_fields=0))
    for i in range(11):
        for nm, enc in mutate.g1_compressed_specials(rng):
            b = bytearray(pf); b[48 * i:48 * i + 48] = enc; addm("proof", [(f"commitment {i} := {nm}", bytes(b))])
    for i in range(15):
        for nm, enc in mutate.scalar_specials():
            b = bytearray(pf); b[528 + 32 * i:528 + 32 * i + 32] = enc; addm("proof", [(f"evaluation {i} := {nm}", bytes(b))])
    # ---- public parameters
    pp = B["pp"][:240 + 48 * 40]
    addm("pp", mutate.generic_mutants(pp, rng, nfl, header_fields=0))
    addm("pp", [("exactly one opening key (240 bytes)", pp[:240]), ("opening key + 47 bytes", pp[:287]), ("239 bytes", pp[:239])])
    for nm, enc in mutate.g1_compressed_specials(rng):
        b = bytearray(pp); b[0:48] = enc; addm("pp", [(f"opening key g := {nm}", bytes(b))])
        b = bytearray(pp); b[240 + 48:240 + 96] = enc; addm("pp", [(f"commit key point 1 := {nm}", bytes(b))])
    for which, off in (("h", 48), ("x_h", 144)):
        for nm, enc in mutate.g2_specials(rng, valid=bytes(pp[off:off + 96])):
            b = bytearray(pp); b[off:off + 96] = enc; addm("pp", [(f"opening key {which} := {nm}", bytes(b))])
    # a G1 commit-key power that is on the curve but not in the subgroup; two powers shifted by +T and -T
    T1 = mutate.g1_torsion_point(rng)
    def g1c(P_):
        bb = bytearray(P_[0].to_bytes(48, "big")); bb[0] |= 0x80 | (0x20 if P_[1] > (P381_ - P_[1]) else 0); return bytes(bb)
    P381_ = mutate.P381
    b = bytearray(pp); b[240 + 48 * 2:240 + 48 * 3] = g1c(T1); addm("pp", [("commit key power 2 := small-order point, not in the subgroup", bytes(b))])
    # ---- compressed circuit
    cc = B["compressed"]; pay = mutate.inflate(cc); d = mutate.parse_compressed(pay)
    addm("compressed", mutate.generic_mutants(cc, rng, nfl, header_fields=0))
    addm("compressed", [("bytes after the deflate stream", cc + b"\x00\x01\x02"), ("trailing byte inside the payload", mutate.deflate(pay + b"\x00"))])
    for fld in ("public_inputs", "scalars", "polynomials", "constraints"):
        for cnt in (len(d[fld]) + 1, 1 << 16, (1 << 32) - 1):
            addm("compressed", [(f"{fld} count := {cnt}", mutate.deflate(mutate.pack_compressed(d, {fld: cnt})))])
    for desc, f in (("witness index out of range", lambda x: x["constraints"][-1].__setitem__(1, x["witnesses"])),
                    ("polynomial index out of range", lambda x: x["constraints"][0].__setitem__(0, len(x["polynomials"]))),
                    ("scalar index out of range", lambda x: x["polynomials"][0].__setitem__(0, 1 << 20)),
                    ("public input row out of range", lambda x: x["public_inputs"].__setitem__(0, len(x["constraints"]))),
                    ("public inputs unsorted", lambda x: x["public_inputs"].reverse()),
                    ("huge witness count", lambda x: x.__setitem__("witnesses", (1 << 64) - 1)),
                    ("scalar byte non canonical", lambda x: x["scalars"][0].__setitem__(31, 255))):
        import copy
        d2 = copy.deepcopy(d); f(d2); addm("compressed", [(desc, mutate.deflate(mutate.pack_compressed(d2)))])
    addm("compressed", [("deflate bomb (64 MiB of zeros)", mutate.deflate(b"\x00" * (64 << 20))),
                        ("bomb of constraint entries", mutate.deflate(pay[:20] + b"\x00" * (32 << 20)))])
    # ---- run them
    S = protocol.Script()
    S.cmd("pp", "pp", 1 << 9, 3)
    S.circuit("c", BODY)
    S.cmd("compilec", "k", "pp", "6161", "c"); S.cmd("prove", "p", "k", "c", 5)
    cmds = []
    for i, (kind, desc, b) in enumerate(muts):
        S.cmd("blob", f"m{i}", b.hex() or "-")
        if kind == "compressed":
            c = S.cmd("compilemem", f"u{i}", "pp", "6161", f"m{i}")
            u = S.cmd("prove", f"up{i}", f"u{i}", "c", 5)
        else:
            c = S.cmd("decode", kind, f"m{i}", f"u{i}")
            if kind == "prover": u = S.cmd("prove", f"up{i}", f"u{i}", "c", 5)
            elif kind == "verifier": u = S.cmd("verify", f"u{i}", "p", "=")
            elif kind == "proof": u = S.cmd("verify", "k", f"u{i}", "=")
            else: u = S.cmd("compile", f"uk{i}", f"u{i}", "61", "c")
        cmds.append((kind, desc, b, c, u))
        ck.count((kind, desc), kind=kind)
    res = protocol.run(S, "c17", checked=True, timeout=3000)
    ck.sample({"kind": muts[3][0], "mutation": muts[3][1]}); ck.sample({"kind": "compressed", "mutation": muts[-3][1]})
    accepted = {}
    for kind, desc, b, c, u in cmds:
        r = res.get(c, "MISSING"); ru = res.get(u, "")
        ck.traces += 1
        ctx = {"failing_input_found": True, "decoder": kind, "mutation": desc, "bytes_hex": b.hex()[:4000], "len": len(b)}
        if "PANIC" in r or r == "MISSING":
            ck.violation(f"decoder for {kind} panicked/aborted on: {desc}: {r[:160]}", ctx, key=f"panic:{kind}:{desc.split(':=')[0].strip()}"); continue
        m = re.search(r"mem=(\d+)", r)
        cap = (1 << 9)
        bound = (64 * len(b) + (1 << 21)) if kind != "compressed" else (1 << 22) + 4096 * cap
        if m and int(m.group(1)) > bound:
            ck.violation(f"decoder for {kind} allocated {int(m.group(1))} bytes on a {len(b)}-byte input ({desc}); bound {bound}", ctx, key=f"alloc:{kind}")
        if r.startswith("OK"):
            accepted[kind] = accepted.get(kind, 0) + 1
            if kind == "proof" and "canonical=false" in r and len(b) == 1008:
                ck.violation(f"proof decoder accepted a non-canonical encoding: {desc}", ctx, key="proof-noncanonical")
            if "non-reduced" in desc:
                ck.violation(f"accepted: {desc}", ctx, key="raw-commit-key-nonreduced-limbs")
            if ("identity" in desc and "opening key" in desc) or "not in the subgroup" in desc or "not on the curve" in desc or "non-canonical" in desc or "off curve" in desc or "flag :=" in desc and not desc.endswith(("0", "1")) :
                if not ("flag := 1" in desc or "flag := 0" in desc):
                    ck.violation(f"decoder for {kind} accepted a malformed element: {desc}", ctx, key=f"accepts-malformed:{kind}")
            if "PANIC" in ru:
                ck.violation(f"value accepted by the {kind} decoder panics when used ({desc}): {ru[:160]}", ctx, key=f"use-panic:{kind}")
        if kind == "compressed" and ("after the deflate" in desc or "trailing" in desc or "out of range" in desc or "count :=" in desc or "unsorted" in desc or "bomb" in desc or "non canonical" in desc) and r.startswith("OK"):
            ck.violation(f"compressed description accepted although malformed: {desc}", ctx, key=f"compressed-accepts:{desc.split(':=')[0].strip()}")
    ck.notes.append(f"accepted mutants per decoder: {accepted}")
    return ck.finish(level="proof",
        rule="structure-aware mutation of valid encodings of prover, verifier, proof, public parameters and compressed circuit: bit flips, every header length field to extremes and +-1, inner little-endian length fields, truncation/extension/splices, hand-built invalid G1 encodings (identity, x>=p, off curve, outside the subgroup, flag bytes), G2 opening-key elements on the twist but outside the subgroup (random, cofactor part, valid + cofactor point), non-canonical scalars (proof evaluations, prover-key coefficients and evaluation-table entries), raw commit-key flag bytes, non-reduced limbs and on-curve points outside the subgroup (alone, and in groups whose torsion components cancel), re-packed MessagePack/deflate payloads (excess counts, out-of-range indices, trailing bytes inside and after the stream, bombs); checked build (debug assertions, overflow checks), catch_unwind, counting allocator; every accepted value is used once",
        assumptions=["model-level totality is by construction; absence of panics and allocation bounds are established on the real decoders by the run", "memory safety and termination of the Rust binary are outside the model (time-outs enforced by the harness)"],
        checker_cmd=proofgate.CHECKER_CMD, trusted_base=proofgate.TRUSTED)

def replay(ck, path):
    print(json.dumps(json.load(open(path))["replay"], indent=1)[:2000]); return 0
