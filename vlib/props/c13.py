"""C13: subgroup boundary -- only prime-order subgroup points are admitted."""
import json
from ..common import *
from .. import proofgate, composer
from .. import jubjub as J
from .c12 import rederive_points

THEOREMS = ["C13_torsion_emits", "C13_torsion_sound", "C13_torsion_point_on_curve", "C13_torsion_complete", "C13_torsion_in_system",
            "C13_torsion_multiple_of_8", "C13_honest_witness", "C13_subgroup_given_curve_order_partial"]
FIRST = 6
EIGHT_INV = 0x01cfb69d4ca675f520cce7602026876014cd0412799902105a12e1cbdadee597

def e(p, z=1): return " ".join(hx(v) for v in J.ext(p, z))

def classes(rng, quick):
    """(tag, point, in_subgroup_by_construction, on_curve_by_construction)"""
    T = J.torsion_points()
    out = [("identity", J.ID, True, True)]
    for _ in range(2 if quick else 12):
        out.append(("subgroup point [8]R", J.random_subgroup_point(rng), True, True))
    P = J.random_subgroup_point(rng)
    for i in range(1, 8):
        out.append((f"torsion point of order {J.order(T[i])}", T[i], False, True))
        out.append((f"coset P + T (order {J.order(T[i])})", J.add(P, T[i]), False, True))
    out += [("off-curve (0,0)", (0, 0), False, False), ("off-curve (0,2)", (0, 2), False, False), ("off-curve (1,1)", (1, 1), False, False),
            ("off-curve random", (rng.scalar(), rng.scalar()), False, False)]
    for sg in (1, -1):                    # doubling poles: d x^2 y^2 = +-1
        for _ in range(32):
            x = rng.scalar() or 1
            y = J.sqrt(sg * J.inv(D_ED * x % R * x % R) % R)
            if y: out.append((f"off-curve, on a doubling pole ({'1-t' if sg == 1 else '1+t'}=0)", (x, y), False, False)); break
    return out

def aux_points(rng, P, tag_in):
    """auxiliary points a prover may supply for P"""
    T = J.torsion_points()
    Q0 = J.mul(EIGHT_INV, P) if J.on_curve(P) else J.ID
    qs = [("8^-1 P", Q0)]
    for i in (1, 2, 4, 5):
        qs.append((f"8^-1 P + torsion (order {J.order(T[i])})", J.add(Q0, T[i])))
    qs += [("identity", J.ID), ("P itself", P), ("random curve point", J.random_curve_point(rng)), ("off-curve", (rng.scalar(), rng.scalar())), ("(0,0)", (0, 0))]
    x = rng.scalar() or 1
    y = J.sqrt(J.inv(D_ED * x % R * x % R) % R) or J.sqrt((-J.inv(D_ED * x % R * x % R)) % R)
    if y: qs.append(("pole-inducing", (x, y)))
    return qs

def run(ck):
    quick = ck.tier == "quick"
    proofgate.run(ck, "C13.v", THEOREMS)
    build_driver(); build_harness(); build_harness("checked")
    rng = Rng(ck.seed, "C13")
    progs, lines, meta = {}, [], {}
    def add(name, L, m):
        progs[name] = L; meta[name] = m
        lines.append("prog " + name); lines.extend(L)
    cls = classes(rng, quick)
    for i, (tag, P, sub, onc) in enumerate(cls):
        add(f"tors{i}", ["w " + hx(P[0]), "w " + hx(P[1]), "tors $0 $1", "snap"], ("tors", tag, P, sub))
        for j, (qt, Q) in enumerate(aux_points(rng, P, tag)):
            add(f"torsq{i}_{j}", ["w " + hx(P[0]), "w " + hx(P[1]), f"torsq $0 $1 {hx(Q[0])} {hx(Q[1])}", "snap"], ("torsq", tag, P, sub, qt, Q))
        ck.count(("class", tag, P), kind="point class: " + tag.split(" (")[0])
        # entry points on this coordinate pair, several representations
        for z in (1, 5):
            for op in ("cpt", "pt", "ppt"):
                add(f"{op}{i}_{z}", [f"{op} {e(P, z)}", "snap"], (op, tag, P, sub and onc, z))
            add(f"mulgen{i}_{z}", ["w 5", f"mulgen $0 {e(P, z)}", "snap"], ("mulgen", tag, P, sub and P != J.ID, z))
    # degenerate / inconsistent representations
    P = J.random_subgroup_point(rng)
    reps = [("Z=0", f"{hx(P[0])} {hx(P[1])} 0 {hx(P[0])} {hx(P[1])}", "JubJubPointDegenerate"), ("all-zero", "0 0 0 0 0", "JubJubPointDegenerate"),
            ("Z=0 with T1*T2 != 0", f"1 1 0 1 1", "JubJubPointDegenerate"),
            ("inconsistent T1*T2", f"{hx(P[0])} {hx(P[1])} 1 {hx(P[0])} {hx((P[1] + 1) % R)}", "JubJubPointNotTorsionFree"),
            ("inconsistent T1*T2, Z=3", f"{hx(3 * P[0] % R)} {hx(3 * P[1] % R)} 3 {hx(P[0])} {hx(P[1])}", "JubJubPointNotTorsionFree")]
    for k, (tag, rep, err) in enumerate(reps):
        for op in ("pt", "ppt", "cpt", "mulgen $0", "aeqpp 0 1"):
            add(f"rep{k}_{op.split()[0]}", ["w 5", f"{op} {rep}", "snap"], ("rep", tag, op, err))
            ck.count(("rep", tag, op), kind="representation: " + tag)
    script = "\n".join(lines) + "\n"
    # the same point checked twice / constant-point entry points called repeatedly in one composer: every call emits its gates
    Pm = J.random_subgroup_point(rng)
    for k_, L_ in enumerate([["w " + hx(Pm[0]), "w " + hx(Pm[1]), "tors $0 $1", "tors $0 $1", "snap"],
                             [f"cpt {e(Pm, 1)}", f"cpt {e(Pm, 1)}", f"cpt {e(J.ID, 1)}", "snap"],
                             ["w 5", f"mulgen $0 {e(J.GEN, 1)}", f"mulgen $0 {e(J.GEN, 1)}", "snap"],
                             ["w " + hx(Pm[0]), "w " + hx(Pm[1]), "tors $0 $1", "w 5", f"mulgen $2 {e(J.GEN, 1)}", "tors $0 $1", "snap"]]):
        add(f"multi{k_}", L_, ("multi", "repeated calls", Pm, True))
        ck.count(("multi", k_), kind="repeated calls in one composer")
    # acceptance must not depend on what the same composer accepted before: a valid call first, then a non-member
    # that shares coordinates / encoding with it (identity as generator, inconsistent T1*T2 of the same point,
    # another Z, an off-curve point with the same ordinate)
    off = (Pm[0] + 2) % R
    stateful = [([f"cpt {e(J.ID, 1)}", "w 5", f"mulgen $0 {e(J.ID, 1)}", "snap"], "JubJubGeneratorNotPrimeOrder", "identity accepted as a constant, then offered as generator"),
                ([f"cpt {e(Pm, 1)}", f"cpt {hx(Pm[0])} {hx(Pm[1])} 1 {hx(Pm[0])} {hx((Pm[1] + 1) % R)}", "snap"], "JubJubPointNotTorsionFree", "valid constant, then the same point with inconsistent T1*T2"),
                (["w 5", f"mulgen $0 {e(Pm, 1)}", f"cpt {hx(Pm[0])} {hx(Pm[1])} 1 {hx(Pm[0])} {hx((Pm[1] + 1) % R)}", "snap"], "JubJubPointNotTorsionFree", "valid generator, then the same point with inconsistent T1*T2 as constant"),
                ([f"cpt {e(Pm, 1)}", f"cpt {hx(off)} {hx(Pm[1])} 1 {hx(off)} {hx(Pm[1])}", "snap"], "JubJubPointNotTorsionFree", "valid constant, then an off-curve point with the same ordinate"),
                ([f"cpt {e(Pm, 1)}", f"cpt {hx((R - Pm[0]) % R)} {hx(Pm[1])} 1 {hx(Pm[0])} {hx(Pm[1])}", "snap"], "JubJubPointNotTorsionFree", "valid constant, then its negative with the T1*T2 of the original"),
                ([f"cpt {e(Pm, 1)}", "cpt 0 0 0 1 1", "snap"], "JubJubPointDegenerate", "valid constant, then a zero-Z representation")]
    for k_, (L_, err_, tag_) in enumerate(stateful):
        add(f"state{k_}", L_, ("stateful", tag_, Pm, err_))
        ck.count(("stateful", k_), kind="acceptance after an earlier valid call")
    script = "\n".join(lines) + "\n"
    rc, out_c, err_c = run_harness(script, "c13", "composer", checked=True)
    if rc != 0: raise BuildError("checked harness failed: " + err_c[-1500:])
    impl = split_programs(out_c)
    rc, out_m, err_m = run_driver(script, "c13")
    if rc != 0: raise BuildError("driver failed: " + err_m[-1500:])
    model = split_programs(out_m)
    ck.sample({"program": progs["tors1"]}); ck.sample({"program": progs["torsq3_1"][2][:40]})
    bad = composer.compare_programs(ck, progs, impl, model, "C13")
    jobs, expect, info = [], {}, {}
    for name, m in meta.items():
        out = impl.get(name, [])
        pan = [l for l in out if l.startswith("PANIC")]
        if pan:
            ck.violation(f"entry point panicked instead of returning an error ({m[0]}, {m[1]}): {pan[0][:100]}", {"failing_input_found": True, "program": progs[name]}, key="panic:" + m[0]); continue
        errs = [l.split()[1] for l in out if l.startswith("E ")]
        kind = m[0]
        if kind == "stateful":
            if not errs or errs[-1] != m[3]:
                ck.violation(f"after an earlier valid call on the same composer: {m[1]}: {'accepted' if not errs else errs}, the property requires {m[3]}",
                             {"failing_input_found": True, "program": progs[name]}, key="stateful:" + m[3])
            continue
        if kind in ("cpt", "mulgen"):
            ok_expected = m[3]
            want_err = None if ok_expected else ("JubJubPointNotTorsionFree" if kind == "cpt" else "JubJubGeneratorNotPrimeOrder")
            got_err = errs[0] if errs else None
            ck.traces += 1
            if got_err != want_err:
                ck.violation(f"{'append_constant_point' if kind == 'cpt' else 'component_mul_generator'} on {m[1]} (Z={m[4]}): {'accepted' if got_err is None else got_err}, the property requires {'acceptance' if want_err is None else want_err}",
                             {"failing_input_found": True, "program": progs[name]}, key=f"entry:{kind}:{m[1].split(' (')[0]}")
        elif kind in ("pt", "ppt"):
            if errs: ck.violation(f"{kind} rejected a representable point ({m[1]}): {errs[0]}", {"failing_input_found": True, "program": progs[name]}, key="entry:" + kind)
        elif kind == "rep":
            tag, op, err = m[1], m[2], m[3]
            want = "JubJubPointDegenerate" if "Z=0" in tag or tag == "all-zero" else (None if op.split()[0] in ("pt", "ppt", "aeqpp") else ("JubJubGeneratorNotPrimeOrder" if op.startswith("mulgen") else err))
            if op.startswith("mulgen") and want == "JubJubPointDegenerate": want = "JubJubGeneratorNotPrimeOrder"
            got = errs[0] if errs else None
            ck.traces += 1
            if got != want:
                ck.violation(f"{op.split()[0]} on representation '{tag}': got {got}, expected {want}", {"failing_input_found": True, "program": progs[name]}, key=f"rep:{op.split()[0]}:{tag}")
        elif kind in ("tors", "torsq"):
            snap = Snapshot(out)
            sub = m[3]
            if kind == "tors":
                jobs.append((name, snap, None)); expect[name] = sub; info[name] = (f"assert_torsion_free_point, honest auxiliary point, {m[1]}", name)
            else:
                qt, Q = m[4], m[5]
                # satisfiable iff P in subgroup and Q on the curve with [8]Q = P
                want = sub and J.on_curve(Q) and J.mul(8, Q) == m[2]
                # re-derive every helper witness honestly from the supplied Q (the seam only fills them natively)
                jobs.append((name, snap, None)); expect[name] = want; info[name] = (f"prover-chosen auxiliary point '{qt}', {m[1]}", name)
                if not want and not quick or (not want and name.endswith("_0")):
                    # forged intermediate doublings: make the LAST equality hold by overwriting Q8 with P
                    w2 = list(snap.wits); w2[FIRST + 2 + 12], w2[FIRST + 2 + 13] = m[2]
                    jobs.append((name + "_f8", snap, w2)); expect[name + "_f8"] = False; info[name + "_f8"] = (f"last doubling output overwritten with the point, aux '{qt}', {m[1]}", name)
    res = composer.model_sat(jobs, "c13_sat")
    for nm in expect:
        got = res.get(nm, "?") is None
        tag, prog = info[nm]
        ck.count(("tmpl", nm), kind="torsion gadget: " + ("honest aux" if "honest" in tag else "prover-chosen aux" if "prover" in tag else "forged doubling"))
        if got != expect[nm]:
            ck.violation(f"{tag}: rows of the real layout satisfiable={got}, the property requires {expect[nm]}",
                         {"failing_input_found": True, "program": progs[prog], "template": tag}, key="tors:" + tag.split(",")[-1].strip().split(" (")[0] + (":aux" if "prover" in tag else ""))
    for nm, over in composer.second_opinion(ck, jobs, expect, progs, lambda n: info[n][1], "c13_rp",
                                            lambda n: n.startswith("tors") and (n.endswith("_f8") or "_" not in n or n.endswith(("_1", "_3"))), limit=8 if quick else 40, pp_log=8):
        tag, prog = info[nm]
        ck.violation(f"{tag}: the REAL prover produced a proof for this assignment and the verifier accepted it",
                     {"failing_input_found": True, "program": progs[prog], "witness_overrides": {str(i): hx(v) for i, v in over.items()}, "template": tag}, key="accepted:" + tag[:40])
    if bad and not ck.violations:
        name, d = bad[0]
        ck.violation(f"correspondence C13 (L3) broke on {len(bad)} of {len(progs)} programs; first {name} {meta[name][:2]}: {d}",
                     {"failing_input_found": False, "correspondence": "L3 snapshot / error kinds of the point entry points vs Composer/PointComponents.v", "program": progs[name], "diff": d, "theorems_no_longer_tied": THEOREMS})
    return ck.finish(level="proof",
        rule="coordinate pairs: subgroup points [8]R and the identity, each of the 7 non-trivial torsion points and the 7 cosets P+T (orders 2, 4, 8), off-curve pairs incl. (0,0) and both doubling poles; for each: assert_torsion_free_point with the honest auxiliary point, and the gate seam with prover-chosen auxiliary points (8^-1 P, its torsion translates, identity, P, random curve point, off-curve, (0,0), pole-inducing) plus a forged last doubling; append_constant_point / component_mul_generator / append_point / append_public_point on Z=1 and Z=5 representations; Z=0 and inconsistent T1*T2 representations on every entry point (checked build, catch_unwind). Verdicts: proved evaluator on the real rows; expectation by construction of the inputs; error kinds and layouts compared with the Gallina model",
        assumptions=["PrimeR, NonSquareD: class arguments of the statements, both proved closed in Props/Hypotheses.v", "the ORDER of the JubJub group (8*r_j, point counting) is NOT mechanised: proved are satisfiable => on_curve Q and point = [8]Q (an integer multiple in the proved group law), completeness on the prime-order subgroup (C13_honest_witness) and, with the order as explicit premise, [r_j]point = O; exclusion of the 7 non-trivial cosets is checked on all torsion points and cosets on every run, not proved",
                     "completeness (honest 8^-1 P satisfies the rows) decided by evaluation"],
        checker_cmd=proofgate.CHECKER_CMD, trusted_base=proofgate.TRUSTED)

def replay(ck, path):
    d = json.load(open(path)); print(json.dumps(d["replay"], indent=1)[:3000]); return 0
